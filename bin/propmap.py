"""Which Lean modules (model + lemmas are pulled in by imports), Tie pins and
harness streams each claimed property depends on.  bin/check builds exactly
these, so a change in the reader does not alarm C13."""

AGG_TRUST = ["sort.SliceStable is a correct stable sort (modelled by List.mergeSort)",
             "Go map iteration = arbitrary permutation (order oracle)"]

PROPS = {
    "C04": {
        "lean": ["PP.Props.C04", "PP.Tie.Agg"],
        "what": "Aggregation is a partition that conserves goroutines: theorems agg_ids_perm, agg_ids_sorted_nonempty, agg_ids_disjoint, agg_first_iff, agg_one_first for every order oracle, level and snapshot; harness: direct partition oracle on the implementation + model/implementation bucket correspondence under three iteration orders.",
        "trusted": AGG_TRUST,
    },
    "C05": {
        "lean": ["PP.Props.C05", "PP.Tie.Agg"],
        "what": "Buckets are exactly the similarity classes: similar_iff_key (equivalence), merge stays in class under well-formedness, same_bucket_iff, partition_refines, partition_order_independent; harness: reference partition by an independently written canonical key, permutation independence, level refinement.",
        "trusted": AGG_TRUST,
        "assumptions": ["goroutine ids distinct", "arguments well-formed (a too-large '_' argument carries no value/pointer flag/name), which the parser establishes"],
    },
    "C09": {
        "lean": ["PP.Props.C09", "PP.Tie.Reader"],
        "what": "Reader delivery independence: readAll_spec / readAll_delivery_indep for every capacity N>0, every schedule with zero-read runs below the retry bound, EOF with or after data; harness: same stream under several schedules on the implementation, exhaustive chunkings of short inputs, model correspondence.",
        "trusted": ["io.Reader contract: 0 <= n <= len(p)"],
    },
    "C13": {
        "lean": ["PP.Props.C13", "PP.Tie.Agg"],
        "what": "Bucket ordering contract: Signature.less / Stack.less are strict weak orders on all signatures (irrefl, asymm, trans, incomparability transitive), never index out of range, stdlib-only stacks sort last; harness: order laws on all pairs/triples of a universe on the implementation, bucket order oracle, correspondence.",
        "trusted": AGG_TRUST,
    },
}
