"""Which Lean modules (model + lemmas are pulled in by imports), Tie pins and
harness streams each claimed property depends on.  bin/check builds exactly
these, so a change in the reader does not alarm C13."""

AGG_TRUST = ["sort.SliceStable is a correct stable sort (modelled by List.mergeSort)",
             "Go map iteration = arbitrary permutation (order oracle)"]

PROPS = {
    "C03": {
        "lean": ["PP.Props.C03", "PP.Props.CLI", "PP.Props.C09b", "PP.Tie.Scan", "PP.Tie.Reader", "PP.Tie.Translated"],
        "what": "Total robustness: scan_safe (an invariant tying the 19 scanner states to the structure the Go code indexes into; from it no line, for any classifier outcome, reaches a nil dereference, an index panic or the explicit panic()), scan_first_flags, funcInit_no_slice (Func.Init's slice expressions stay in range for every symbol), scanL_no_panic / scanB_no_panic / scanSnapshot_no_panic (whole loop, every delivery), scanB_fuel + scanSnapshot_total (termination: one line per iteration), process_terminates (the command's repeated-scan loop ends for every input, never panics, fuel input length + 2), resume_terminates, scan_calls_le_lines, aggregate_total (merge and less never index out of range, every level), parseArgs_wf / scanL_wf (every parsed argument is well-formed - the hypothesis of C05/C12); harness: corpus of past crashers + grammar-aware mutants + all line-kind sequences, each scanned repeatedly, aggregated at all levels, rendered as text and HTML and run through process() under recover with a time bound.",
        "partial": "panic-freedom and running time of Go's regexp, html/template, fmt and go/parser are not proved (they are exercised by the mutation stream only); linear wall-clock time is supported by step counts (one scan per line, one fill per delivered chunk) and a doubling measurement, not by a theorem about the Go runtime.",
        "trusted": ["regexp, html/template, fmt, go/parser do not panic (exercised, not modelled)", "io.Reader contract"],
    },
    "C04": {
        "lean": ["PP.Props.C04", "PP.Tie.Agg", "PP.Tie.Translated"],
        "what": "Aggregation is a partition that conserves goroutines: theorems agg_ids_perm, agg_ids_sorted_nonempty, agg_ids_disjoint, agg_first_iff, agg_one_first for every order oracle, level and snapshot; harness: direct partition oracle on the implementation + model/implementation bucket correspondence under three iteration orders.",
        "trusted": AGG_TRUST,
    },
    "C05": {
        "lean": ["PP.Props.C05", "PP.Tie.Agg", "PP.Tie.Translated"],
        "what": "Buckets are exactly the similarity classes: similar_iff_key (equivalence), merge stays in class under well-formedness, same_bucket_iff, partition_refines, partition_order_independent; harness: reference partition by an independently written canonical key, permutation independence, level refinement.",
        "trusted": AGG_TRUST,
        "assumptions": ["goroutine ids distinct", "arguments well-formed (a too-large '_' argument carries no value/pointer flag/name), which the parser establishes"],
    },
    "C09": {
        "lean": ["PP.Props.C09", "PP.Props.C09b", "PP.Tie.Reader"],
        "what": "Reader delivery independence: readAll_spec / readAll_delivery_indep for every capacity N>0, every schedule with zero-read runs below the retry bound, EOF with or after data; scanSnapshot_eq_L / scan_delivery_indep: the whole ScanSnapshot outcome (snapshot, forwarded bytes, error, remainder++unread) is a function of the bytes and the terminal error only; harness: same stream under several schedules on the implementation, exhaustive chunkings of short inputs, model correspondence.",
        "trusted": ["io.Reader contract: 0 <= n <= len(p)"],
    },
    "C02": {
        "lean": ["PP.Props.C02", "PP.Props.CLI", "PP.Props.C09b", "PP.Tie.Scan", "PP.Tie.Reader"],
        "what": "Stream conservation: conservation / conservation_stream (processed lines in order ++ what is handed back = the input, for every scanner state, including panics), trace_agrees, forwarded_only_while_looking, no_forward_after_dump_started, trace_shape / trace_split (the only withheld line ever followed by forwarded text is a lone race separator = known finding K1), no_dump_identity (a stream without header or separator lines is reproduced identically), blank_consumed_states / no_two_blank (at most one blank separator line is withheld); K1_lone_separator_lost refutes the naive full statement on the known-finding witness; transported to every delivery by scanSnapshot_eq_L; command level (a model of process(): repeated scanning, rendering through the console model, suffix handling, exit status): process_trace / process_conservation (when the command exits 0 its output is its input with each call's withheld block replaced by that call's rendering and every forwarded line kept verbatim and in order), process_identity_without_dump, process_exit_status, process_terminates; harness: conservation oracle on every ScanSnapshot call, repeated scanning, and process() end to end: byte-exact output and status against the model under piecewise deliveries and reader failures, and against the resume protocol over the public API.",
        "partial": "the literal sentence 'an input without any dump is reproduced identically' is false of the code for inputs containing a lone '==================' line (known finding K1, pinned by the repository's tests RaceHdr2Err..4Err); the theorems carve exactly that case out. The prefix writer is modelled as infallible.",
        "trusted": ["io.Writer never fails (writer errors are outside the property)", "io.MultiReader(suffix, rest) delivers suffix then rest (used by the resume protocol)"],
    },
    "C13": {
        "lean": ["PP.Props.C13", "PP.Tie.Agg", "PP.Tie.Translated"],
        "what": "Bucket ordering contract: Signature.less / Stack.less are strict weak orders on all signatures (irrefl, asymm, trans, incomparability transitive), never index out of range, stdlib-only stacks sort last; harness: order laws on all pairs/triples of a universe on the implementation, bucket order oracle, correspondence.",
        "trusted": AGG_TRUST,
    },
    "C06": {
        "lean": ["PP.Props.C06", "PP.Props.C15", "PP.Tie.Agg", "PP.Tie.Globals", "PP.Tie.Translated"],
        "what": "Determinism: aggregate_oracle_indep (the buckets, their order and merged signatures do not depend on map iteration order, for every pair of order oracles), bucket_contents_oracle_indep, aggregate_sorted_unique (nor on the stable-sort algorithm), nameTable is a function of the snapshot (C15 lemmas); pins: no function assigns to a package-level variable; harness: repeated execution in one process and across processes on inputs biased to comparator ties and nested roots, byte comparison of buckets, console text and HTML (time masked).",
        "trusted": AGG_TRUST + ["text/template ranges over maps in sorted key order", "no goroutines are started by the library (checked by reading; covered by C14's race runs)"],
        "assumptions": ["at most one goroutine is flagged first (what the scanner produces: scan_first_flags)", "arguments well-formed (parse_wf)"],
    },
    "C12": {
        "lean": ["PP.Props.C12", "PP.Tie.Agg", "PP.Tie.Translated"],
        "what": "A bucket's signature generalises its members: bucket_sleep_range (exact min/max), bucket_locked_iff_any, bucket_state_creator_frames, bucket_fields_from_first_member, flat_same_length, arg_unchanged_if_common, arg_star_if_differs, no_partial_value, exact_levels_no_star — for every arrival order and map order; harness: generalisation recomputed from the implementation's own snapshot and bucket ids.",
        "trusted": AGG_TRUST,
        "assumptions": ["goroutine ids distinct", "arguments well-formed where the key must stay similar to its members"],
    },
    "C15": {
        "lean": ["PP.Props.C15", "PP.Props.CLI"],
        "what": "Pointer pseudo-names: nameTable_keys_nodup/same_value_same_name, nameTable_injective, nameTable_dense (#1..#k), recurring_named, primary_first, ascending_within_class, nonptr_unnamed, only_names_change, names_gate / scanner_never_names (with naming off no argument of any returned snapshot carries a name; naming on differs only by nameArguments), invalid_opts_rejected; harness: the labelling laws evaluated on the implementation's snapshots (naming on/off), correspondence of nameArguments with the model on parsed and constructed snapshots.",
        "trusted": ["sort.Sort on uint64 keys is a correct sort (modelled by insertion into a sorted duplicate-free list)"],
    },
}

PROPS["C19"] = {
    "lean": ["PP.Props.C19", "PP.Props.C19b"],
    "what": "Argument augmentation: decode_encode (for every list of typed values within their ranges - bool, sized/unsized ints, uintptr/byte/rune, float32/64 bit patterns, strings, slices, pointers, maps, channels, funcs - decoding the words the runtime prints under -N -l with the parameter type names gives the spec rendering of the values), twos_round_trip, mismatch_harmless / augmentCall_total (every type list, arity and argument tree: total, never out of fuel, the only error is Go's own index panic for an empty type list with ellipsis, which extractArgumentsType never produces), cursor_linear (each word consumed at most once), processed_length_le, uint8_untruncated; the glue around the decoder (Snapshot.augment, augmentGoroutine, loadFile with its cache, lineToByteOffsets, getFuncAST's line check; go/parser as an oracle): augment_values_unchanged (nothing but Processed changes, for every oracle), augment_total, mismatch_leaves_unaugmented (missing / non-.go / unparsable file, line beyond the file, no enclosing function: the call is untouched), load_once (each file is read at most once per run, also when it fails), calls_without_args_skipped, lineToByteOffsets_spec; harness: function-level correspondence on typed and hostile cases, source trees with valid / unparsable / missing / non-Go files against the glue model, end to end on generated programs compiled with -gcflags '-N -l', crashed and parsed with the sources in place (literal values as ground truth; raw values unchanged), and 11 kinds of mismatching source trees (no panic, nothing but Processed differs).",
    "partial": "that the installed compiler and runtime really encode arguments as Spec.encode says is validated on generated programs, not proved; go/parser, getFuncAST and extractArgumentsType are exercised, not modelled (the type list is an input of the model); strconv.FormatFloat is a parameter.",
    "trusted": ["go/parser + the AST walk (type list is an input)", "strconv.FormatFloat", "the compiler's argument layout under -N -l (validated end to end)"],
}


PROPS["C07"] = {
    "lean": ["PP.Props.C07", "PP.Props.C09b", "PP.Tie.Scan"],
    "what": "Delimitation and resumable scanning. For arbitrary bytes: scanL_prefix_nostart (text that starts no dump is forwarded and does not influence the scan), scanL_stopped_append (everything after the terminating line is returned untouched), locality / locality_goroutines (a dump embedded in a stream yields the goroutines of scanning it alone), specLines_suffix (a remainder re-splits into the same lines), rest_is_suffix, resume_tiles (the consumed segments of repeated scanning tile the input: nothing scanned twice or skipped), resume_progress / resume_terminates (every call from the initial state consumes at least one line, so repeated scanning terminates), resume_blocks (k dumps separated by text give k snapshots, each equal to scanning that dump alone). Documented grammar: Dump/Race as inductive predicates over line kinds, a reference automaton proved equivalent to them (dfa_dump_iff, dfa_race_iff), and the simulation scan_on_canonical / munch / munch_scanL / dump_delimited: on canonical lines the scanner consumes exactly the longest viable prefix and ends cleanly exactly in accepting positions. Harness: all line-kind sequences up to a bound from the initial state (implementation vs model), multi-dump streams with the resume protocol against the dumps' descriptions.",
    "partial": "after a 'stack unavailable' line the scanner requires a blank or created-by line and reports any other line as an error although it still returns it unconsumed (unavail_needs_blank; this is what the state comments of the code document); an indented dump followed by unindented text likewise ends with the 'inconsistent indentation' error (pinned by the repository's test 14). Drivers that stop on any error (the pp command) stop there.",
    "trusted": ["io.MultiReader(suffix, rest) delivers suffix then rest"],
}
PROPS["C10"] = {
    "lean": ["PP.Props.C10", "PP.Props.C09b", "PP.Tie.Scan", "PP.Tie.Reader"],
    "what": "Truncation and read-failure tolerance: specLines_take, scanL_common_prefix, cut_uncut (the cut and the uncut run share the scan of the common complete lines), cut_no_panic, cut_error_kind / reader_failure_not_masked / parse_error_before_failure (which error is reported), scan_preserves_earlier / scanL_preserves_earlier / cut_prefix_goroutines / cut_goroutines_agree (every goroutine but the one being read at the cut is identical in both runs), cut_forwarded / cut_forwarded_prefix (forwarded(cut) is a prefix of forwarded(uncut) unless the unterminated fragment is forwarded while no dump is in progress), K2_fragment_forwarded (refutation of the literal sentence on the known-finding witness), cut_delivery (transport to every delivery schedule); harness: every byte offset of generated dumps/race reports x {EOF, error after data, error with data} against the uncut run of the implementation.",
    "partial": "known finding K2: a cut inside the line that starts a dump forwards the fragment (required by C02: a stream without a dump must be reproduced identically; pinned by the repository's test RaceHdr1Err), so the literal 'forwarded bytes are a prefix' fails exactly there; the theorem carves that case out (states looking / gotRaceHeader1). Preservation of earlier goroutines across a cut inside a race report is proved per step (scan_preserves_others), not for the whole loop. A parse error on a complete line before the failure point is reported instead of the (not yet reached) reader failure (parse_error_before_failure).",
    "trusted": ["io.Reader contract"],
}
PROPS["C11"] = {
    "lean": ["PP.Props.C11", "PP.Tie.Reader"],
    "what": "Streaming progress at library level, over an instrumented copy of the reader and loop proved to erase to the model (fillLoopT_erases ... scanBT_erases): read_only_without_newline (the source is asked for more only when the bytes held contain no complete line), released_before_blocking / complete_lines_released (at every Read every complete line delivered so far has been scanned, and written if it is pass-through: zero look-ahead), returns_at_terminator (no Read after the terminating line was scanned), fill_single_read (fill returns after the first read that yields data or an error); harness: scripted reader/writer recording what the writer holds at every Read and that no Read follows the delivery of the terminating line; correspondence: the instrumented model's Read events (bytes delivered before, bytes returned, bytes written so far) compared with the events observed on the real reader for the same delivery.",
    "partial": "end to end on the pp binary the guarantee also depends on OS pipe buffering and on os.Stdout being unbuffered: runtime facts the model cannot exhibit.",
    "trusted": ["io.Reader contract", "the pass-through writer does not buffer"],
}
PROPS["C17"] = {
    "lean": ["PP.Props.C17", "PP.Tie.Html"],
    "what": "HTML rendering: htmlEscaper_safe, attrEscaper_safe, urlNormalizer_safe (the escapers of html/template, transcribed, never emit markup bytes), text_hole_safe, class_hole_safe, href_hole_bytes_safe, scheme_fixed_srcURL / scheme_fixed_pkgURL (every link target is empty or starts with a literal https:// or file:/// prefix, for every Call), href_hole_safe_srcURL/_pkgURL, content_markup_is_template_markup (the markup bytes of the rendered content are exactly the template's own: holes contribute none), complete_snapshot / complete_aggregated / complete_table (one h1 per bucket or goroutine, one row per frame, one elided row per elided stack); pins: the template is parsed by html/template itself on every run and every one of its 51 holes is pinned with the escaper pipeline html/template assigned to it (a change of the template, of a cast, or a switch to text/template breaks a pin by name); harness: hostile snapshots (30 payload kinds in every string field) rendered by the implementation, tokenised with x/net/html and compared with a benign twin of the same shape; builders and escapers compared with the model.",
    "partial": "html/template's context analysis and execution engine are trusted (its decisions are read back and pinned, not re-derived); the Metadata section is covered by the direct oracle only; url_components_escaped_partial: the repository name is inserted into github links unescaped by the builder (made safe by html/template's normaliser at the hole).",
    "trusted": ["html/template context analysis + execution", "net/url escaping tables as transcribed", "RE2 semantics behind reVersion / reMethodSymbol hand matchers"],
}
PROPS["C20"] = {
    "lean": ["PP.Props.C20", "PP.Tie.Web"],
    "what": "Web handler decision logic: handler_status_mem/_405/_400/_500/_200 (the full decision table as iff-statements), valid_get_ok, invalid_is_4xx, invalid_before_snapshot_is_4xx, atoi_accepts (strconv.Atoi characterised), augmentOK_iff, grow_first / grow_increasing / grow_bound / grow_terminates / fits_complete / nofit_truncated (the buffer-doubling loop terminates and captures the whole dump when it fits); pins: handler order method -> maxmem -> augment -> snapshot -> similarity, constants; harness: exhaustive parameter grid on the real handler (status, content type, exact goroutine accounting of the page), live self-snapshots of a churn workload with registered goroutines in known states (states, frames, creators, lock flag, elision; goroutine count against an independent count), concurrent requests.",
    "partial": "what the runtime prints in every scheduling state and behaviour under concurrent HTTP load are runtime facts: the model is fed what was actually printed (live stream, and a -race driver in the thorough tier). An invalid similarity together with a failed snapshot answers 500 (invalid_similarity_failed_snapshot_is_500); dumps that do not fit in max(maxmem, 1 MiB) are outside the property.",
    "trusted": ["net/http FormValue/Method", "runtime.Stack returns min(need, len)", "the Go runtime's goroutine state names"],
}


PROPS["C14"] = {
    "lean": ["PP.Props.C14", "PP.Tie.Alias", "PP.Tie.Globals", "PP.Tie.Translated"],
    "what": "Immutability under aggregation, on an explicit-heap (aliasing) model of Args.merge / Call.merge / Stack.merge / Signature.merge / Aggregate in which bucket keys start as shallow copies sharing every slice with the snapshot: merge_frame and aggregate_frame (every cell that existed before the call is unchanged after it - all writes go to cells allocated during the call - for every heap, every sharing, every map-order oracle, no hypotheses), snapshot_unchanged / snapshot_unchanged_seq (the goroutines read back from the heap are equal before and after any sequence of aggregations at any levels), merge_refines / aggregate_refines (the heap version computes exactly the functional model's buckets, so every other theorem applies to it), aggregate_twice; the buggy in-place variant is shown (decide) to violate the frame property. Pins: the extracted write set of every function reachable from Aggregate, ToHTML and the console writers contains no write through a receiver or caller-supplied argument; no function assigns to a package-level variable; the library starts no goroutines. Harness: random histories of Aggregate/ToHTML/console rendering on one snapshot with deep equality after every step and equality with a fresh snapshot, the same from 8 goroutines on a shared snapshot, and a separately built -race program (16 goroutines sharing snapshot and Opts).",
    "partial": "data races are a notion of the Go memory model that the Lean model cannot exhibit: the race-detector runs are evidence, not theorems; rendering is covered by the pinned write set and the deep-equality histories, not by a heap model of html/template.",
    "trusted": ["the race detector (for the concurrency half)", "html/template and fmt do not write through their arguments"],
}
PROPS["C16"] = {
    "lean": ["PP.Props.C16", "PP.Tie.Console"],
    "what": "Console rendering: blocks_buckets / blocks_goroutines (the output is the banner followed by the blocks of exactly the admitted buckets or goroutines, in order, each once), filter_match_split_buckets/_goroutines (for every predicate on headers the filter-out and match-only outputs are disjoint sublists whose union is the unfiltered block list, with identical block text), aligned / aligned_buckets / aligned_goroutines (file and function columns at fixed rune offsets over the whole output; padding counted in runes, widths in bytes, incl. invalid UTF-8), elided_marker, colour_strip_buckets/_goroutines (removing the escape sequences of a palette made of ANSI sequences from the coloured output gives the uncoloured output, when no filter is active and the dump text contains no ESC), header_fields_bucket/_goroutine, createdBy_fields; harness: implementation output re-derived block by block from the buckets (headers, columns in runes, markers), ANSI stripping, exact filter/match split, byte-exact correspondence with the model for parsed, constructed, non-ASCII and hostile snapshots x 3 path formats x colour x similarity x patterns.",
    "partial": "alignment is in runes, not display cells (East-Asian wide / combining characters); a package directory or file:line longer than 10^6 bytes makes fmt reject the '*' width (%!(BADWIDTH)): aligned carries that bound as a hypothesis.",
    "trusted": ["fmt verbs %s %d %x %08x %-*s as modelled", "regexp engine (an abstract predicate on headers in the theorems)"],
}
PROPS["C18"] = {
    "lean": ["PP.Props.C18"],
    "what": "Path rebasing: resolved_suffix (a resolved local path ends with the relative path), root_is_prefix, class_by_branch / location_kept, unresolved_stays_unknown / resolved_iff, testmain_stdlib / testmain_kept, innermost_root / updateLocations_perm (the longest matching root is used; independent of map order), findRoots_no_panic / guessPaths_no_panic (for every file-system oracle and dump), findRoots_sound / detected_gopath_at_boundary / detected_goroot_at_boundary / cut_is_src_part (every detected root is cut at a component boundary in front of a real src or pkg/mod component, with the remainder existing under the local root), detected_*_clean, layout_correct_partial (single GOPATH); harness: generated trees on disk (GOROOT, 0..3 disjoint GOPATHs with src and pkg/mod, go.mod modules, absent files) x remote renamings, scanned end to end with GuessPaths and checked against the layout; hostile paths; 7 repeated runs; correspondence with the model under the same file-system oracle.",
    "partial": "the layout theorem is proved for a single GOPATH under the decidable side condition that no shorter split point accidentally exists on disk (layout_correct_partial): over arbitrary disk contents accidental suffix collisions defeat any root heuristic; the multi-root statement is covered by the harness against generated layouts. Nested (non-disjoint) roots, roots referenced only by created-by lines and the bare relative path '_test/_testmain.go' are outside the property's quantifier and only observed.",
    "trusted": ["os.Stat / os.ReadFile (file-system oracle)", "path.Dir, regexp (reModule hand matcher)"],
}


PROPS["C01"] = {
    "lean": ["PP.Props.C01", "PP.Props.C03", "PP.Props.C09b", "PP.Tie.Scan", "PP.Tie.Reader"],
    "what": "Goroutine dump parse fidelity: roundtrip / roundtrip_snapshot - for every non-empty dump description in the decidable domain WF and every print configuration (LF/CRLF, any blank indentation, tab or n>=1 spaces file indent, gp/m/mp and fp/sp/pc annotations, offsets, both elision markers, unavailable stacks, creators with/without parent, inlined frames, nested/elided/'_'/'?' arguments to depth 5, escaped package paths), scanning the text printed by the spec printer yields exactly the described goroutines, forwards nothing, leaves nothing, ends with EOF; first_only_first; isPtr_iff (for every input line, pointer-likeness is a function of the value); one matcher lemma per line kind (matchHeader_print, parseArgs_print, funcInit_print, matchFile_print ...); with C09b's scanSnapshot_eq_L the result holds for every delivery, including lines longer than the buffer. Harness: the Lean spec printer is compared byte for byte (and its expectation field by field) with the Go generator, whose dumps are parsed by the real ScanSnapshot under random delivery schedules and compared with their descriptions; the full variant product on a fixed dump; lines around and beyond the 16 KiB buffer; low-level streams S1-S4/S6 (every matcher, Func.Init, parseArgs, scan line by line) against the implementation.",
    "partial": "the printer spec is a model of runtime/traceback.go written from its source; it is validated on every run against the running runtime (the harness dumps its own goroutines in known states with runtime.Stack, parses them, and the printer model must reproduce the runtime's text from the parsed description, code offsets aside) but not proved equal to the runtime; the domain WF excludes symbols containing '/', '%' or a trailing CR in the function-name part, status texts containing ']' or ', ', and file paths starting with a space under space indentation (where the text is genuinely ambiguous).",
    "trusted": ["the spec printer as a model of the Go runtime's traceback printer", "Go regexp engine (hand matchers tied by pins + S1)"],
}
PROPS["C08"] = {
    "lean": ["PP.Props.C08", "PP.Props.C03", "PP.Props.C09b", "PP.Tie.Scan"],
    "what": "Race report parse fidelity: race_roundtrip / race_roundtrip_snapshot - for every report description in the decidable domain raceWF (>= 1 operation, >= 1 creation section, distinct operation ids, sections in any number and order, LF/CRLF) scanning the printed text yields one goroutine per operation in order with id, address, read/write kind, state, operation stack and creation stack, reaches done on the closing separator and hands back what follows; race_first_only_first; for every scanner state and line: creator_lookup_sound (a creation section only ever modifies the first goroutine with that id), unknown_creator_is_error (never a misattribution), race_goroutine_steps_only_gi. Harness: generated reports (2..4 operations, subsets/orders of creation sections, running/finished, surrounding text) parsed by the real code under random deliveries against their descriptions; unknown-creator mutants; Lean spec printer vs Go generator.",
    "partial": "operations by the main goroutine ('by main goroutine:') are not supported by the parser and are outside the property's stated format; the printer is a model of tsan's Go report printer, validated on every run against the real race detector (a racy program is built with -race, its report parsed, and the printer model must reproduce tsan's text from the parsed snapshot, code offsets aside), not proved equal to tsan.",
    "trusted": ["the spec printer as a model of tsan's report printer"],
}

# Harness-only entries: checks that run (bin/seedtest, development) but are not
# claimed in MANIFEST.json until their theorems exist.
EXTRA = {

}

NOT_CLAIMED = {}
