"""Which Lean modules (model + lemmas are pulled in by imports), Tie pins and
harness streams each claimed property depends on.  bin/check builds exactly
these, so a change in the reader does not alarm C13."""

AGG_TRUST = ["sort.SliceStable is a correct stable sort (modelled by List.mergeSort)",
             "Go map iteration = arbitrary permutation (order oracle)"]

PROPS = {
    "C03": {
        "lean": ["PP.Props.C03", "PP.Props.C09b", "PP.Tie.Scan", "PP.Tie.Reader"],
        "what": "Total robustness: scan_safe (an invariant tying the 19 scanner states to the structure the Go code indexes into; from it no line, for any classifier outcome, reaches a nil dereference, an index panic or the explicit panic()), scan_first_flags, funcInit_no_slice (Func.Init's slice expressions stay in range for every symbol), scanL_no_panic / scanB_no_panic / scanSnapshot_no_panic (whole loop, every delivery), scanB_fuel + scanSnapshot_total (termination: one line per iteration), scan_calls_le_lines, aggregate_total (merge and less never index out of range, every level), parseArgs_wf / scanL_wf (every parsed argument is well-formed - the hypothesis of C05/C12); harness: corpus of past crashers + grammar-aware mutants + all line-kind sequences, each scanned repeatedly, aggregated at all levels, rendered as text and HTML and run through process() under recover with a time bound.",
        "partial": "panic-freedom and running time of Go's regexp, html/template, fmt and go/parser are not proved (they are exercised by the mutation stream only); linear wall-clock time is supported by step counts (one scan per line, one fill per delivered chunk) and a doubling measurement, not by a theorem about the Go runtime.",
        "trusted": ["regexp, html/template, fmt, go/parser do not panic (exercised, not modelled)", "io.Reader contract"],
    },
    "C04": {
        "lean": ["PP.Props.C04", "PP.Tie.Agg"],
        "what": "Aggregation is a partition that conserves goroutines: theorems agg_ids_perm, agg_ids_sorted_nonempty, agg_ids_disjoint, agg_first_iff, agg_one_first for every order oracle, level and snapshot; harness: direct partition oracle on the implementation + model/implementation bucket correspondence under three iteration orders.",
        "trusted": AGG_TRUST,
    },
    "C05": {
        "lean": ["PP.Props.C05", "PP.Tie.Agg"],
        "what": "Buckets are exactly the similarity classes: similar_iff_key (equivalence), merge stays in class under well-formedness, same_bucket_iff, partition_refines, partition_order_independent; harness: reference partition by an independently written canonical key, permutation independence, level refinement.",
        "trusted": AGG_TRUST,
        "assumptions": ["goroutine ids distinct", "arguments well-formed (a too-large '_' argument carries no value/pointer flag/name), which the parser establishes"],
    },
    "C09": {
        "lean": ["PP.Props.C09", "PP.Props.C09b", "PP.Tie.Reader"],
        "what": "Reader delivery independence: readAll_spec / readAll_delivery_indep for every capacity N>0, every schedule with zero-read runs below the retry bound, EOF with or after data; scanSnapshot_eq_L / scan_delivery_indep: the whole ScanSnapshot outcome (snapshot, forwarded bytes, error, remainder++unread) is a function of the bytes and the terminal error only; harness: same stream under several schedules on the implementation, exhaustive chunkings of short inputs, model correspondence.",
        "trusted": ["io.Reader contract: 0 <= n <= len(p)"],
    },
    "C02": {
        "lean": ["PP.Props.C02", "PP.Props.C09b", "PP.Tie.Scan", "PP.Tie.Reader"],
        "what": "Stream conservation: conservation / conservation_stream (processed lines in order ++ what is handed back = the input, for every scanner state, including panics), trace_agrees, forwarded_only_while_looking, no_forward_after_dump_started, trace_shape / trace_split (the only withheld line ever followed by forwarded text is a lone race separator = known finding K1), no_dump_identity (a stream without header or separator lines is reproduced identically), blank_consumed_states / no_two_blank (at most one blank separator line is withheld); K1_lone_separator_lost refutes the naive full statement on the known-finding witness; transported to every delivery by scanSnapshot_eq_L; harness: conservation oracle on every ScanSnapshot call, repeated scanning, and the command's process() end to end.",
        "partial": "the literal sentence 'an input without any dump is reproduced identically' is false of the code for inputs containing a lone '==================' line (known finding K1, pinned by the repository's tests RaceHdr2Err..4Err); the theorems carve exactly that case out. The prefix writer is modelled as infallible.",
        "trusted": ["io.Writer never fails (writer errors are outside the property)", "io.MultiReader(suffix, rest) delivers suffix then rest (used by the resume protocol)"],
    },
    "C13": {
        "lean": ["PP.Props.C13", "PP.Tie.Agg"],
        "what": "Bucket ordering contract: Signature.less / Stack.less are strict weak orders on all signatures (irrefl, asymm, trans, incomparability transitive), never index out of range, stdlib-only stacks sort last; harness: order laws on all pairs/triples of a universe on the implementation, bucket order oracle, correspondence.",
        "trusted": AGG_TRUST,
    },
    "C06": {
        "lean": ["PP.Props.C06", "PP.Props.C15", "PP.Tie.Agg", "PP.Tie.Globals"],
        "what": "Determinism: aggregate_oracle_indep (the buckets, their order and merged signatures do not depend on map iteration order, for every pair of order oracles), bucket_contents_oracle_indep, aggregate_sorted_unique (nor on the stable-sort algorithm), nameTable is a function of the snapshot (C15 lemmas); pins: no function assigns to a package-level variable; harness: repeated execution in one process and across processes on inputs biased to comparator ties and nested roots, byte comparison of buckets, console text and HTML (time masked).",
        "trusted": AGG_TRUST + ["text/template ranges over maps in sorted key order", "no goroutines are started by the library (checked by reading; covered by C14's race runs)"],
        "assumptions": ["at most one goroutine is flagged first (what the scanner produces: scan_first_flags)", "arguments well-formed (parse_wf)"],
    },
    "C12": {
        "lean": ["PP.Props.C12", "PP.Tie.Agg"],
        "what": "A bucket's signature generalises its members: bucket_sleep_range (exact min/max), bucket_locked_iff_any, bucket_state_creator_frames, bucket_fields_from_first_member, flat_same_length, arg_unchanged_if_common, arg_star_if_differs, no_partial_value, exact_levels_no_star — for every arrival order and map order; harness: generalisation recomputed from the implementation's own snapshot and bucket ids.",
        "trusted": AGG_TRUST,
        "assumptions": ["goroutine ids distinct", "arguments well-formed where the key must stay similar to its members"],
    },
    "C15": {
        "lean": ["PP.Props.C15"],
        "what": "Pointer pseudo-names: nameTable_keys_nodup/same_value_same_name, nameTable_injective, nameTable_dense (#1..#k), recurring_named, primary_first, ascending_within_class, nonptr_unnamed, only_names_change; harness: the labelling laws evaluated on the implementation's snapshots (naming on/off), correspondence of nameArguments with the model on parsed and constructed snapshots.",
        "trusted": ["sort.Sort on uint64 keys is a correct sort (modelled by insertion into a sorted duplicate-free list)"],
    },
}

PROPS["C19"] = {
    "lean": ["PP.Props.C19"],
    "what": "Argument augmentation: decode_encode (for every list of typed values within their ranges - bool, sized/unsized ints, uintptr/byte/rune, float32/64 bit patterns, strings, slices, pointers, maps, channels, funcs - decoding the words the runtime prints under -N -l with the parameter type names gives the spec rendering of the values), twos_round_trip, mismatch_harmless / augmentCall_total (every type list, arity and argument tree: total, never out of fuel, the only error is Go's own index panic for an empty type list with ellipsis, which extractArgumentsType never produces), cursor_linear (each word consumed at most once), processed_length_le, uint8_untruncated; harness: function-level correspondence on typed and hostile cases, end to end on generated programs compiled with -gcflags '-N -l', crashed and parsed with the sources in place (literal values as ground truth; raw values unchanged), and 11 kinds of mismatching source trees (no panic, nothing but Processed differs).",
    "partial": "that the installed compiler and runtime really encode arguments as Spec.encode says is validated on generated programs, not proved; go/parser, getFuncAST and extractArgumentsType are exercised, not modelled (the type list is an input of the model); strconv.FormatFloat is a parameter.",
    "trusted": ["go/parser + the AST walk (type list is an input)", "strconv.FormatFloat", "the compiler's argument layout under -N -l (validated end to end)"],
}

# Harness-only entries: checks that run (bin/seedtest, development) but are not
# claimed in MANIFEST.json until their theorems exist.
EXTRA = {
    "C01": {"lean": ["PP.Tie.Scan", "PP.Tie.Reader"], "what": "harness only"},
    "C07": {"lean": ["PP.Tie.Scan"], "what": "harness only"},
    "C08": {"lean": ["PP.Tie.Scan"], "what": "harness only"},
    "C10": {"lean": ["PP.Tie.Scan", "PP.Tie.Reader"], "what": "harness only"},
    "C11": {"lean": ["PP.Tie.Reader"], "what": "harness only"},
    "C14": {"lean": ["PP.Tie.Globals"], "what": "harness only"},
}

NOT_CLAIMED = {}
