import PP.Model.Bytes
