import PP.Go.Prelude
import PP.Go.PreludeRoots
import PP.Go.PreludeWeb
import PP.Model.Roots
import PP.Model.Cli
import PP.Model.Unicode
/-
Run-time support for `PP/TranslatedMisc.lean` (group Misc: splitPath, getFiles, IsRace,
isValid, guessPaths, sortedByLen, pathJoin, Func.String, lineToByteOffsets; regenerated from the
Go source on every run by extract/translate_misc.go, whose header says what is checked on the Go
source for each construct to be sound).

The loops use `Step`/`forRange`/`after` of `Prelude.lean`, `StepB` of `PreludeRoots.lean` and
`forFuel` of `PreludeWeb.lean`, `afterIn` (`after` for a loop nested in a loop body) of `PreludeUi.lean`.
The definitions below live in their own namespace `PP.Go.Misc` (other groups define functions of the
same names with other types, e.g. an Int-valued `goIndexByte`).

How Go values are represented: see the header of translate_misc.go.  What stands for the Go
library / language here, and what is TRUSTED about it:

* `goIdx s i` is `s[i]`, `none` = index out of range (a Go run-time panic).
* `goIndexByteO s c` is `bytes.IndexByte(s, c)` with `none` for -1 (the model's `Bytes.indexByte`).
* `goCountByte s c` is `strings.Count(s, string(c))` for a ONE-byte separator (the number of
  non-overlapping occurrences of a one-byte string is the number of occurrences of the byte).
* `goContainsByte s c` is `strings.Contains(s, string(c))` for a one-byte string.
* `goJoin xs sep` is `strings.Join(xs, sep)` (the model's `Bytes.join`).
* `goSetAdd m k` is `m[k] = struct{}{}` on a `map[string]struct{}` held as the list of its keys.
* `goRangeString p` is what `for _, c := range p` over a STRING visits: one `GoRune` per
  iteration, `val` the code point `utf8.DecodeRune` yields at that position (the model's
  `decodeRune`: U+FFFD with width 1 for an invalid byte), `str` the bytes of `string(c)`, which is
  `goRuneString val`, a UTF-8 encoder written out below (utf8.AppendRune).  That encoding a decoded
  rune gives back the bytes it was decoded from is PROVED in the Tie file (`decodeRune_roundtrip`),
  not assumed.
* `goSortStrings xs` is `sort.Strings(xs)` — TRUSTED: sort.Strings sorts in increasing order of
  `<` on strings (`bytesLt`); the sorted permutation of a list of strings is unique.
* `goSortSlice less xs` is `sort.Slice(xs, less)` with the comparison as a function of the two
  elements, which can panic (`none`).  Which pairs Go compares is not modelled: `none` as soon as
  the comparison panics on some ordered pair of elements (an over-approximation of the panics of
  the Go call).  TRUSTED: sort.Slice returns a permutation of xs in which no element is `less`
  than an earlier one.  sort.Slice is NOT stable, so the result is determined only when `less` is
  a strict TOTAL order on the elements (any two different elements are ordered); then it is the
  `List.mergeSort` below.  `PP/Tie/TranslatedMisc.lean` proves that for the one closure of the
  group (`sortedByLen_sorted_unique`).
* the oracle `E.mapOrder keys` (generated `Env`) is the order in which a `range` over a map
  visits its keys: some permutation of them.
-/
namespace PP.Go.Misc
open PP PP.Go

/-- `s[i]`; `none` = index out of range -/
def goIdx {α : Type} (s : List α) (i : Nat) : Option α := s[i]?

/-- `bytes.IndexByte(s, c)`; `none` = -1 -/
def goIndexByteO (s : Bytes) (c : UInt8) : Option Nat := Bytes.indexByte s c

/-- `strings.Count(s, sep)` for a separator of one byte -/
def goCountByte (s : Bytes) (c : UInt8) : Nat := s.count c

/-- `strings.Contains(s, sub)` for a `sub` of one byte -/
def goContainsByte (s : Bytes) (c : UInt8) : Bool := s.contains c

/-- `strings.Join(xs, sep)` -/
def goJoin (xs : List Bytes) (sep : Bytes) : Bytes := Bytes.join sep xs

/-- `m[k] = struct{}{}` on a set of strings held as the list of its keys -/
def goSetAdd (m : List Bytes) (k : Bytes) : List Bytes := if m.contains k then m else m ++ [k]

/-- `sort.Strings(xs)` -/
def goSortStrings (xs : List Bytes) : List Bytes := xs.mergeSort fun a b => !bytesLt b a

/-- `sort.Slice(xs, less)`, see the header -/
def goSortSlice {α : Type} (less : α → α → Option Bool) (xs : List α) : Option (List α) :=
  if xs.all (fun a => xs.all fun b => (less a b).isSome) then
    some (xs.mergeSort fun a b => !((less b a).getD false))
  else none

/-- what one iteration of `for _, c := range p` over a string binds `c` to: the code point and
the bytes of `string(c)` -/
structure GoRune where
  val : Nat
  str : Bytes
  deriving Repr, DecidableEq

/-- `string(r)` for a rune `r` (utf8.AppendRune): the UTF-8 encoding of the code point, that of U+FFFD for
a surrogate half or a value above U+10FFFF -/
def goRuneString (r : Nat) : Bytes :=
  if r < 0x80 then [UInt8.ofNat r]
  else if r < 0x800 then [UInt8.ofNat (0xC0 ||| r >>> 6), UInt8.ofNat (0x80 ||| (r &&& 0x3F))]
  else if r > 0x10FFFF ∨ (0xD800 ≤ r ∧ r ≤ 0xDFFF) then [0xEF, 0xBF, 0xBD]
  else if r < 0x10000 then
    [UInt8.ofNat (0xE0 ||| r >>> 12), UInt8.ofNat (0x80 ||| (r >>> 6 &&& 0x3F)), UInt8.ofNat (0x80 ||| (r &&& 0x3F))]
  else
    [UInt8.ofNat (0xF0 ||| r >>> 18), UInt8.ofNat (0x80 ||| (r >>> 12 &&& 0x3F)),
      UInt8.ofNat (0x80 ||| (r >>> 6 &&& 0x3F)), UInt8.ofNat (0x80 ||| (r &&& 0x3F))]

/-- the rune at the head of a non-empty string (utf8.DecodeRune: U+FFFD with width 1 for an invalid byte),
with the bytes of its `string()`, and how many bytes of the string it takes -/
def goRuneAt (p : Bytes) : GoRune × Nat :=
  (⟨(decodeRune p).1, goRuneString (decodeRune p).1⟩, (decodeRune p).2)

def goRangeStringGo : Nat → Bytes → List GoRune
  | 0, _ => []
  | _ + 1, [] => []
  | fuel + 1, b :: t => (goRuneAt (b :: t)).1 :: goRangeStringGo fuel ((b :: t).drop (goRuneAt (b :: t)).2)

/-- the runes `for _, c := range p` visits (every step consumes at least one byte, so
`p.length` steps suffice) -/
def goRangeString (p : Bytes) : List GoRune := goRangeStringGo p.length p

end PP.Go.Misc
