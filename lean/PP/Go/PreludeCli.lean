import PP.Go.Prelude
import PP.Go.PreludeRoots
import PP.Go.PreludeUi
import PP.Go.PreludeWeb
import PP.Model.Cli
/-
Run-time support for `PP/TranslatedCli.lean` (the filter loop of the command,
internal/main.go: `process`, `processInner`, `showBanner`, regenerated from the Go source on
every run by extract/translate_cli.go; agreement with `PP/Model/Cli.lean`:
`PP/Tie/TranslatedCli.lean`).

Reused from the older groups: `GoErr` (a Go `error`: `nil`, the sentinel `io.EOF`, any other
value), `SnapRef` (a `*stack.Snapshot`: nil or a snapshot), `lenI` (`len` as an `int`),
`forFuel` / `forFuel_mono` (an unbounded `for`: PreludeWeb.lean), `StepB`, `after`,
`Aggregated` (PreludeUi.lean).

What this group adds:

* **The output trace** `CWorld.trace`: every function of the group takes the world as its first
  argument and returns it with its result; every call that talks to the outside appends ONE
  `CEvent`, in program order (the translator only accepts such a call as a whole statement, as the
  whole right-hand side of an assignment / a `return`, or as the init statement of an `if`, with
  arguments that have neither effects nor panics).  `outBytes o tr` is what the events of a trace
  sent to the writer `o`, in order.
* **The input stream** `in io.Reader` is the VALUE `InStream` (the model's `Src`: the bytes the
  source still holds, how it delivers them, how it ends).  `stack.ScanSnapshot(in, out, opts)`
  consumes the stream and the translation rebinds the variable `in` to what is left;
  `io.MultiReader(bytes.NewReader(suffix), in)` makes a new stream out of `suffix` and the old one
  (the oracle `Env.multiReader`).  The translator checks that the variable is used in no other way
  (`cliStreamGuard`), so that the value is used linearly.  ASSUMES the caller does not read from the
  reader while `process` runs, and that `in` / `out` are non-nil interface values.
* **Oracles** (the generated `Env`): `fuel`; `getenv` (`os.Getenv`); `goroot` / `gopaths`
  (`stack.DefaultOpts()` is the model's `Cli.defaultOpts` of them: group Web, `tie_DefaultOpts`);
  `scanSnapshot` (`stack.ScanSnapshot`: the snapshot, the suffix, the error, the bytes it forwarded
  to `out`, the stream it left); `multiReader`; `aggregate` (`(*Snapshot).Aggregate`, `none` = a
  panic); the four renderers `writeBuckets`, `writeGoroutines` (internal/main.go
  `writeBucketsToConsole`, `writeGoroutinesToConsole`: the bytes sent to `out` and the error
  returned), `htmlAgg`, `htmlSnap` (internal/main.go `toHTML` on an `*Aggregated` / a `*Snapshot`: the
  error returned); `writeErr` (the error of `out.Write(b)`).  Every oracle that answers for the
  outside also gets the world (the events so far): its answer may depend on the history.
  The agreement theorems hold for EVERY oracle.

Library functions as the translator spells them:
* `snapIsRace c` = `c.IsRace()` (stack/context.go:220: `s.Goroutines[0].RaceAddr != 0`): the model's
  `Cli.isRace`; `none` (a panic) for a nil receiver or an empty goroutine list;
* `Cli.defaultOpts E.goroot E.gopaths` = `stack.DefaultOpts()` (translated and tied in group Web);
* `CWorld.logPrintf` = `log.Printf(format, args…)`: the event records the format only (the text goes to
  the log writer, `io.Discard` unless `-v`; it is not part of the output).  The arguments ARE
  evaluated by the translated code first (a nil dereference there is a panic).  ASSUMES the
  `String`/`Error`/`Format` methods `log.Printf` may call on the arguments return (here the arguments
  are a `string` and a `map[string]string`).
-/
namespace PP.Go
open PP

/-- an `io.Writer`: which writer the events are about -/
structure CWriter where
  id : Nat := 0
  deriving DecidableEq, Repr, Inhabited

/-- a `*regexp.Regexp`: nil, or what `MatchString` decides -/
abbrev CRe := Option (Bytes → Bool)

/-- a `*Palette` (internal/ui.go): nil or a palette; the translated code never looks inside -/
abbrev PaletteRef := Option Console.Palette

/-- an `io.Reader` as a value: what the source still holds (`PP.Src`, PP/Model/Reader.lean) -/
abbrev InStream := Src

/-- what `stack.ScanSnapshot(in, out, opts)` does and returns -/
structure ScanRet where
  /-- the stream afterwards -/
  inp : InStream
  /-- the `*Snapshot` returned -/
  snap : SnapRef
  /-- the `[]byte` returned (nil and empty are the same to the translated code: only `len`,
  `bytes.NewReader` and `out.Write` see it) -/
  suffix : Bytes
  /-- the error returned -/
  err : GoErr
  /-- the bytes it wrote to `out` -/
  fwd : Bytes

/-- one observable action, as the translated code performs it -/
inductive CEvent where
  /-- `stack.ScanSnapshot(in, out, opts)`, which forwarded `fwd` to `out` -/
  | scan (inp : InStream) (out : CWriter) (opts : Cli.Opts) (fwd : Bytes)
  /-- `log.Printf(format, …)` -/
  | log (format : Bytes)
  /-- `writeBucketsToConsole(out, …)`, which sent `b` to `out` -/
  | buckets (out : CWriter) (b : Bytes)
  /-- `writeGoroutinesToConsole(out, …)`, which sent `b` to `out` -/
  | goroutines (out : CWriter) (b : Bytes)
  /-- `toHTML(a, path, needsEnv)` on an `*Aggregated` -/
  | htmlAgg (a : Aggregated) (path : Bytes) (needsEnv : Bool)
  /-- `toHTML(c, path, needsEnv)` on a `*Snapshot` -/
  | htmlSnap (c : SnapRef) (path : Bytes) (needsEnv : Bool)
  /-- `out.Write(b)` -/
  | write (out : CWriter) (b : Bytes)

/-- the events so far, oldest first -/
structure CWorld where
  trace : List CEvent := []

def CWorld.emit (w : CWorld) (e : CEvent) : CWorld := { w with trace := w.trace ++ [e] }

@[simp] theorem CWorld.emit_trace (w : CWorld) (e : CEvent) : (w.emit e).trace = w.trace ++ [e] := rfl

/-- the bytes an event sent to the writer `o` -/
def CEvent.bytesTo (o : CWriter) : CEvent → Bytes
  | .scan _ o' _ b => if o' = o then b else []
  | .buckets o' b => if o' = o then b else []
  | .goroutines o' b => if o' = o then b else []
  | .write o' b => if o' = o then b else []
  | _ => []

/-- everything a trace sent to the writer `o`, in order -/
def outBytes (o : CWriter) (tr : List CEvent) : Bytes := tr.flatMap (CEvent.bytesTo o)

@[simp] theorem outBytes_nil (o : CWriter) : outBytes o [] = [] := rfl
@[simp] theorem outBytes_append (o : CWriter) (a b : List CEvent) :
    outBytes o (a ++ b) = outBytes o a ++ outBytes o b := by simp [outBytes]
@[simp] theorem outBytes_singleton (o : CWriter) (e : CEvent) : outBytes o [e] = e.bytesTo o := by
  simp [outBytes]

/-- `c.IsRace()` (stack/context.go:220-222) -/
def snapIsRace : SnapRef → Option Bool
  | none => none
  | some s =>
    match Cli.isRace s.goroutines with
    | .ok b => some b
    | .error _ => none

/-- `c, suffix, err := stack.ScanSnapshot(in, out, opts)`: the world, then `in` afterwards and the
three results -/
def CWorld.scanSnapshot (scan : CWorld → InStream → Cli.Opts → ScanRet) (wld : CWorld) (inp : InStream)
    (out : CWriter) (opts : Cli.Opts) : CWorld × InStream × SnapRef × Bytes × GoErr :=
  let r := scan wld inp opts
  (wld.emit (.scan inp out opts r.fwd), r.inp, r.snap, r.suffix, r.err)

/-- `log.Printf(format, …)` -/
def CWorld.logPrintf (wld : CWorld) (format : Bytes) : CWorld := wld.emit (.log format)

/-- `writeBucketsToConsole(out, p, a, pf, needsEnv, filter, match)` (internal/main.go:66) -/
def CWorld.writeBuckets
    (render : CWorld → PaletteRef → Aggregated → Console.PathFormat → Bool → CRe → CRe → Bytes × GoErr)
    (wld : CWorld) (out : CWriter) (p : PaletteRef) (a : Aggregated) (pf : Console.PathFormat) (needsEnv : Bool)
    (filter mtch : CRe) : CWorld × GoErr :=
  let r := render wld p a pf needsEnv filter mtch
  (wld.emit (.buckets out r.1), r.2)

/-- `writeGoroutinesToConsole(out, p, c, pf, needsEnv, filter, match)` (internal/main.go:86) -/
def CWorld.writeGoroutines
    (render : CWorld → PaletteRef → SnapRef → Console.PathFormat → Bool → CRe → CRe → Bytes × GoErr)
    (wld : CWorld) (out : CWriter) (p : PaletteRef) (c : SnapRef) (pf : Console.PathFormat) (needsEnv : Bool)
    (filter mtch : CRe) : CWorld × GoErr :=
  let r := render wld p c pf needsEnv filter mtch
  (wld.emit (.goroutines out r.1), r.2)

/-- `toHTML(a, path, needsEnv)` with `a : *stack.Aggregated` (internal/main.go:110) -/
def CWorld.htmlAgg (render : CWorld → Aggregated → Bytes → Bool → GoErr) (wld : CWorld) (a : Aggregated)
    (path : Bytes) (needsEnv : Bool) : CWorld × GoErr :=
  (wld.emit (.htmlAgg a path needsEnv), render wld a path needsEnv)

/-- `toHTML(c, path, needsEnv)` with `c : *stack.Snapshot` (internal/main.go:110) -/
def CWorld.htmlSnap (render : CWorld → SnapRef → Bytes → Bool → GoErr) (wld : CWorld) (c : SnapRef)
    (path : Bytes) (needsEnv : Bool) : CWorld × GoErr :=
  (wld.emit (.htmlSnap c path needsEnv), render wld c path needsEnv)

/-- `_, err := out.Write(b)` -/
def CWorld.write (werr : CWorld → CWriter → Bytes → GoErr) (wld : CWorld) (out : CWriter) (b : Bytes) :
    CWorld × GoErr :=
  (wld.emit (.write out b), werr wld out b)

end PP.Go
