import PP.Go.Prelude
import PP.Model.Html
/-
Run-time support for `PP/TranslatedHtml.lean` (the link builders of
stack/html.go, regenerated from the Go source on every run).

Library functions the translated code calls, as the translator spells them:
* `goSplitN s c n` = `strings.SplitN(s, string(c), n)` for a one-byte separator
  and a positive constant `n` (the translator refuses anything else);
* `reVersionSubmatch s` = `reVersion.FindStringSubmatch(s)`: empty when there is
  no match, otherwise the whole match followed by the one group.  The model's
  hand matcher `reVersionFind` yields the group only, so the first element is a
  placeholder; the translator refuses code that reads index 0;
* `reMethodSymbolReplace12 s` = `reMethodSymbol.ReplaceAllString(s, "$1$2")`:
  the expression is anchored at both ends (pinned: `pin_reMethodSymbol`), so
  there is at most one match and it is the whole string.
`queryEscape`, `escape`, `htmlEscapeString`, `Loc.string` are the hand-written
models of net/url, html/template and location_string.go in `PP/Model/Html.lean`
(trusted against the real packages by the correspondence streams of C17).
-/
namespace PP.Go
open PP PP.Html

/-- `strings.SplitN(s, string(c), n)`, `n > 0` -/
def goSplitN (s : Bytes) (c : UInt8) : Nat → List Bytes
  | 0 => []
  | 1 => [s]
  | n + 2 =>
    match cut s c with
    | none => [s]
    | some (a, b) => a :: goSplitN b c (n + 1)

/-- `reVersion.FindStringSubmatch(s)` (index 0 is a placeholder) -/
def reVersionSubmatch (s : Bytes) : List Bytes :=
  match reVersionFind s with
  | some h => [[], h]
  | none => []

/-- `reMethodSymbol.ReplaceAllString(s, "$1$2")` -/
def reMethodSymbolReplace12 (s : Bytes) : Bytes :=
  match reMethodSymbol s with
  | some (a, b) => a ++ b
  | none => s

theorem goSplitN_two (s : Bytes) :
    goSplitN s 47 2 = match cut s 47 with | none => [s] | some (a, b) => [a, b] := by
  simp only [goSplitN]

theorem goSplitN_three (s : Bytes) :
    goSplitN s 47 3 =
      match cut s 47 with
      | none => [s]
      | some (a, r) => match cut r 47 with | none => [a, r] | some (b, c) => [a, b, c] := by
  simp only [goSplitN]
  cases cut s 47 with
  | none => rfl
  | some p => obtain ⟨a, r⟩ := p; simp only; cases cut r 47 <;> rfl

end PP.Go
