import PP.Go.Prelude
import PP.Go.PreludeAug
/-
Run-time support for `PP/TranslatedNames.lean` (group `Names`, regenerated from the Go
source on every run by `extract/translate_names.go`): `nameArguments` of stack/stack.go,
`(*Args).walk` with its POINTERS kept (the visitor of `nameArguments` stores the `*Arg` it
is given and later assigns `Name` through them), and the three methods of the sort helper
`uint64Slice` (`Len`, `Swap`, `Less`) that `nameArguments` hands to `sort.Sort`.

Everything lives in `PP.Go.Nm`.

* `Path = List Nat`: a `*Arg` obtained from an `*Args` `a` by `&a.Values[i]` and
  `&(*q).Fields.Values[j]` steps.  The path `[i1, …, ik]` (k ≥ 1) RELATIVE TO `a` stands
  for `&a.Values[i1].Fields.Values[i2]. … .Values[ik]`.  These pointers are never nil.
  `addrValuesIdx a i` is `&a.Values[i]` (index out of range = panic = `none`),
  `derefArgs a p` reads the `Arg` a path points to (reads go to the CURRENT value of the
  `Args` the path is relative to).  A pointer relative to `q.Fields`, `q` itself being the
  pointer `p` relative to `a`, is re-rooted to `a` by `p ++ ·` (`reroot`).
  This reading of pointers is Go's as long as no `Values` slice on the path is
  reallocated or re-sliced while the pointer is live; the translator checks that `walk`
  assigns nothing but its own locals, and that `nameArguments`, which keeps the pointers,
  assigns only locals, entries of its map and `arg.Name` (never a `Values` slice).
* For `nameArguments` (second half of this file): a pointer into the goroutine list is an
  `APtr` `g :: c :: p` (`p` relative to `goroutines[g].Stack.Calls[c].Args`), read by
  `ptrGet` and assigned through by `ptrSetName` (`none` = the path does not point to a
  non-aggregate `Arg`: the Tie file proves this never happens, `nameArguments_no_panic`);
  `Goroutine`/`Call`/`Args` are the model's structures (ASSUMED as there: the
  `*Goroutine` of the list are non-nil and distinct, `Values` slices at different
  positions do not share backing arrays); the local struct `object` is `Obj`, the map
  `ObjMap` (`mapGet`/`mapSet`; iteration order = oracle `mapOrder` of the generated Env);
  `sort.Sort` is `goSortSort` (TRUSTED correct sort), `fmt.Sprintf("#%d", n)` is
  `goSprintfHashD` (TRUSTED).
* Go's `stack.Arg` is read through `ofArg` (PP/Go/Prelude.lean), as in the older groups.
* `uint64Slice` is `List Nat`; `int` parameters of its methods are `Int` (an index can be
  negative: `idxU64` yields `none` = index out of range); `a[i], a[j] = a[j], a[i]` is
  `swapU64` (both operands evaluated, then both stores; the slice header is passed by
  value, the stores go to the shared backing array: the method RETURNS the new content
  and the caller has to write it back into every slice sharing that array).
* `forIdx` is the one of PreludeAug (`for i := range xs`, no return/break inside).
-/
namespace PP.Go.Nm
open PP PP.Go

/-- a non-nil `*Arg`, relative to an `Args` value -/
abbrev Path := List Nat

/-- `&a.Values[i]` for `i` the index variable of a `range a.Values` (a `Nat`) -/
def addrValuesIdx (a : Args) (i : Nat) : Option Path :=
  if i < a.values.length then some [i] else none

/-- `*p` for a pointer relative to the list of values `l` -/
def derefL : List Arg → Path → Option Arg
  | _, [] => none
  | l, [i] => l[i]?
  | l, i :: j :: p =>
    match l[i]? with
    | some (.agg fs _) => derefL fs (j :: p)
    | _ => none

/-- `*p` for a pointer relative to `a` -/
def derefArgs (a : Args) (p : Path) : Option Arg := derefL a.values p

/-- pointers relative to `(*p).Fields` seen from the `Args` that `p` is relative to -/
def reroot (p : Path) (qs : List Path) : List Path := qs.map (fun q => p ++ q)

/-- `a[i]` on a `uint64Slice`, `i` an `int` -/
def idxU64 (a : List Nat) (i : Int) : Option Nat :=
  if 0 ≤ i then a[i.toNat]? else none

/-- `a[i], a[j] = x, y` on a `uint64Slice` (operands already evaluated) -/
def swapU64 (a : List Nat) (i j : Int) (x y : Nat) : Option (List Nat) :=
  if 0 ≤ i ∧ i.toNat < a.length ∧ 0 ≤ j ∧ j.toNat < a.length then
    some ((a.set i.toNat x).set j.toNat y)
  else none

/-! ### support for `nameArguments` -/

/-- a non-nil `*Arg` into a goroutine list: `g :: c :: p` is the pointer `p` relative to
`goroutines[g].Stack.Calls[c].Args` (it points into the backing array of that `Values` slice or of a
`Fields.Values` slice below it) -/
abbrev APtr := Path

/-- `l[i] = f l[i]` (nothing when out of range: callers check first) -/
def modAt {α : Type} : List α → Nat → (α → α) → List α
  | [], _, _ => []
  | a :: l, 0, f => f a :: l
  | a :: l, i + 1, f => a :: modAt l i f

/-- the `Arg` a path (relative to the list of values `l`) points to, replaced by `f` of it -/
def modL (f : Arg → Arg) : List Arg → Path → List Arg
  | l, [] => l
  | l, [i] => modAt l i f
  | l, i :: j :: p => modAt l i fun a =>
      match a with
      | .agg fs e => .agg (modL f fs (j :: p)) e
      | x => x

/-- `Name = s` on a non-aggregate `Arg` -/
def setNameA (s : Bytes) : Arg → Arg
  | .scalar _ v p o i => .scalar s v p o i
  | x => x

/-- `*q` -/
def ptrGet (gs : List Goroutine) : APtr → Option Arg
  | g :: c :: p =>
    match gs[g]? with
    | none => none
    | some G =>
      match G.sig.stack.calls[c]? with
      | none => none
      | some C => derefArgs C.args p
  | _ => none

/-- `q.Name = s`: the goroutine list afterwards.  `none` unless `q` points to a non-aggregate `Arg`
(the model's `Arg.agg` has no name: an assignment it cannot represent is refused at run time) -/
def ptrSetName (gs : List Goroutine) (q : APtr) (s : Bytes) : Option (List Goroutine) :=
  match ptrGet gs q, q with
  | some (.scalar _ _ _ _ _), g :: c :: p =>
    some (modAt gs g fun G => { G with sig := { G.sig with stack := { G.sig.stack with
      calls := modAt G.sig.stack.calls c fun C =>
        { C with args := { C.args with values := modL (setNameA s) C.args.values p } } } } })
  | _, _ => none

/-- the local type `object` of nameArguments -/
structure Obj where
  args : List APtr := []
  inPrimary : Bool := false

/-- `map[uint64]object`: the entries, keys distinct; the order of the list means nothing (a `range`
goes through the oracle `E.mapOrder`) -/
abbrev ObjMap := List (Nat × Obj)

/-- `m[k]` (the zero value for a missing key) -/
def mapGet (m : ObjMap) (k : Nat) : Obj := (m.lookup k).getD {}

/-- `m[k] = v` -/
def mapSet (m : ObjMap) (k : Nat) (v : Obj) : ObjMap :=
  if (m.lookup k).isSome then m.map (fun e => if e.1 == k then (k, v) else e) else m ++ [(k, v)]

/-- `sort.Sort(a)` for a `uint64Slice`, given its `Less` (the translated method).  TRUSTED: sort.Sort
returns a permutation of `a` in which no element is `Less` than an earlier one.  `Less(i, j)` is
evaluated here on the two-element slice of the elements compared — the Tie file proves that this
`Less` only looks at the two elements (`less_spec`) and that the sorted permutation is unique for a
duplicate-free slice (`sort_unique`).  `none` as soon as the comparison of some pair panics. -/
def goSortSort (less : List Nat → Int → Int → Option Bool) (a : List Nat) : Option (List Nat) :=
  if a.all (fun x => a.all fun y => (less [x, y] 0 1).isSome) then
    some (a.mergeSort fun x y => !((less [y, x] 0 1).getD false))
  else none

/-- `fmt.Sprintf("#%d", n)` for a non-negative `int` -/
def goSprintfHashD (n : Nat) : Bytes := 35 :: Bytes.natToDec n

end PP.Go.Nm
