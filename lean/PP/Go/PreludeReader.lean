import PP.Go.PreludeRoots
import PP.Model.Reader
import PP.Model.Scan
import PP.Model.Cli
/-
Run-time support for `PP/TranslatedReader.lean` (the line reader of stack/reader.go:
`(*reader).fill`, `buffered`, `readSlice`, `readLine`, and `ScanSnapshot` of stack/context.go, regenerated from the Go
source on every run by extract/translate_reader.go).

The translation stays at the ARRAY level of the Go code:

* `RdA` is the Go struct `reader`, field for field: `buf` the array `[16*1024]byte` as a list (that its length is
  `bufN` is an invariant, `RdInv` in the Tie file, not part of the type), `rd` the `io.Reader` — the model's
  delivery schedule `Src` (PP/Model/Reader.lean) —, `r`, `w` the Go `int`s as `Int` (unbounded: the translation
  ASSUMES no 64-bit overflow), `err` an `error`.
* An `error` is `Option SliceErr`: nil, an error of the io.Reader / `io.EOF` / `io.ErrNoProgress`
  (`SliceErr.rerr`), or the package's sentinel `errBufferFull` (`SliceErr.bufferFull`).
* `sliceI s lo hi` = `s[lo:hi]` on the array (cap = len): `none` = slice bounds out of range.  The result is a VALUE:
  the bytes of the array at the moment of evaluation (the translator checks that the array is not written while a
  local holds such a slice; for the callers of the group this is the aliasing assumption stated in the
  translator's header).
* `overlay dst src` = the content of `dst` after `copy(dst, src)` (memmove semantics, `min` of the lengths).
* `readInto scr buf lo src` = `n, err := rd.Read(buf[lo:])`: `Src.read space` is the oracle for one `Read` into a
  window of `space` bytes (it delivers `0 ≤ n ≤ space` bytes and possibly an error: the io.Reader contract); the
  delivered bytes are written at `lo`; the rest of the window is overwritten by `scr`, any bytes (the io.Reader
  contract: "even if Read returns n < len(p), it may use all of p as scratch space").  Result: the array
  afterwards, `n`, `err`, the io.Reader afterwards.
* `indexByte b c` = `bytes.IndexByte(b, c)`; `lenInt` = `len` as an `int`.
* `goAppendN d f` = `append(d, f...)` for a `d` that may be nil (`none`): appending nothing to nil yields nil.
* `repeatN body k` = `for i := k; i > 0; i-- { body }` for a body that does not mention `i`.
* `loopFuel body fuel` = `for { body }`: at most `fuel` iterations, `none` when a step panics or the fuel runs
  out; `loopFuel_mono`: a result reached with some fuel is the result with any larger fuel, so a `some` IS the
  result of the Go loop.

For `ScanSnapshot`:
* `GErr` is a Go `error` there: an error of the reader (`slice`), an error of `scan` (`parse`, the model's `Err` tags of
  group ScanSM), `errors.New("invalid Opts")`, or an error of the io.Writer.  `io.EOF` is `slice (rerr eof)`.
* `ScanSt` is the local `scanningState`: `sm` the part `scan` works on (the model's `S`: Goroutines, state, prefix,
  goroutineIndex), `snap` the other fields of the `*Snapshot` it embeds (`snap.goroutines` is not used: the Goroutines
  live in `sm.gs`); `ScanSt.snapshot` is the `Snapshot` the embedded pointer points to.
* `*Opts` is `Option Cli.Opts` (PP/Model/Cli.lean), `*Snapshot` results are `Option Snapshot` (PP/Model/Roots.lean).
* the `io.Writer` is the list of the bytes written to it so far; `goWrite o w d` = `n, err := w.Write(d)`: the oracle `o`
  says how many bytes this `Write` accepts (at most `len(d)`: the io.Writer contract) and which error it returns.
-/
namespace PP.Go
open PP

/-- the Go struct `reader` (stack/reader.go) -/
structure RdA where
  buf : Bytes
  rd : Src
  r : Int := 0
  w : Int := 0
  err : Option SliceErr := none

/-- a Go `error` in `ScanSnapshot` -/
inductive GErr where
  | slice (e : SliceErr)
  | parse (e : Err)
  | invalidOpts
  | write (tag : Nat)
  deriving DecidableEq, Repr

/-- the local `scanningState` of `ScanSnapshot` -/
structure ScanSt where
  sm : S
  snap : Snapshot

/-- the `Snapshot` the `*Snapshot` embedded in the scanning state points to -/
def ScanSt.snapshot (s : ScanSt) : Snapshot := { s.snap with goroutines := s.sm.gs }

/-- `n, err := w.Write(d)`; result: the writer afterwards, `n`, `err` -/
def goWrite (o : Bytes → Bytes → Nat × Option GErr) (w d : Bytes) : Bytes × Int × Option GErr :=
  (w ++ d.take (o w d).1, ((min (o w d).1 d.length : Nat) : Int), (o w d).2)

/-- `len(x)` as an `int` -/
def lenInt {α : Type} (l : List α) : Int := (l.length : Int)

/-- `s[lo:hi]` with `int` bounds on an array (or a slice whose cap is its len); `none` = out of range -/
def sliceI (s : Bytes) (lo hi : Int) : Option Bytes :=
  if 0 ≤ lo ∧ lo ≤ hi ∧ hi ≤ (s.length : Int) then some ((s.take hi.toNat).drop lo.toNat) else none

/-- the content of `dst` after `copy(dst, src)` -/
def overlay (dst src : Bytes) : Bytes := src.take dst.length ++ dst.drop src.length

/-- `bytes.IndexByte(b, c)` -/
def indexByte : Bytes → UInt8 → Int
  | [], _ => -1
  | b :: bs, c => if b = c then 0 else if indexByte bs c < 0 then -1 else indexByte bs c + 1

/-- `n, err := rd.Read(buf[lo:])` -/
def readInto (scr : Bytes) (buf : Bytes) (lo : Int) (src : Src) : Option (Bytes × Int × Option SliceErr × Src) :=
  (sliceI buf lo (buf.length : Int)).bind fun p =>
  let res := src.read p.length
  some (buf.take lo.toNat ++ overlay p (res.1 ++ scr), (res.1.length : Int), res.2.1.map SliceErr.rerr, res.2.2)

/-- `append(d, f...)`, `d` nil (`none`) or not -/
def goAppendN (d : Option Bytes) (f : Bytes) : Option Bytes :=
  if f = [] then d else some (d.getD [] ++ f)

/-- `for i := k; i > 0; i-- { body }` (the body does not mention `i`) -/
def repeatN {σ ρ : Type} (body : σ → Option (Step σ ρ)) : Nat → σ → Option (Step σ ρ)
  | 0, st => some (.cont st)
  | k + 1, st =>
    match body st with
    | none => none
    | some (.ret r) => some (.ret r)
    | some (.cont st') => repeatN body k st'

@[simp] theorem repeatN_zero {σ ρ : Type} (body : σ → Option (Step σ ρ)) (st : σ) :
    repeatN body 0 st = some (.cont st) := rfl

theorem repeatN_succ {σ ρ : Type} (body : σ → Option (Step σ ρ)) (k : Nat) (st : σ) :
    repeatN body (k + 1) st =
      match body st with
      | none => none
      | some (.ret r) => some (.ret r)
      | some (.cont st') => repeatN body k st' := rfl

/-- `for { body }`: at most `fuel` iterations; `none` when a step panics or the fuel runs out -/
def loopFuel {σ ρ : Type} (body : σ → Option (StepB σ ρ)) : Nat → σ → Option (Step σ ρ)
  | 0, _ => none
  | fuel + 1, st =>
    match body st with
    | none => none
    | some (.ret r) => some (.ret r)
    | some (.brk st') => some (.cont st')
    | some (.cont st') => loopFuel body fuel st'

@[simp] theorem loopFuel_zero {σ ρ : Type} (body : σ → Option (StepB σ ρ)) (st : σ) :
    loopFuel body 0 st = none := rfl

theorem loopFuel_succ {σ ρ : Type} (body : σ → Option (StepB σ ρ)) (fuel : Nat) (st : σ) :
    loopFuel body (fuel + 1) st =
      match body st with
      | none => none
      | some (.ret r) => some (.ret r)
      | some (.brk st') => some (.cont st')
      | some (.cont st') => loopFuel body fuel st' := rfl

/-- more fuel does not change a result that was reached -/
theorem loopFuel_mono {σ ρ : Type} (body : σ → Option (StepB σ ρ)) :
    ∀ (f f' : Nat) (st : σ) (r : Step σ ρ), loopFuel body f st = some r → f ≤ f' →
      loopFuel body f' st = some r
  | 0, _, _, _, h, _ => by simp at h
  | f + 1, 0, _, _, _, hle => by omega
  | f + 1, f' + 1, st, r, h, hle => by
    rw [loopFuel_succ] at h ⊢
    cases hb : body st with
    | none => rw [hb] at h; exact h
    | some s =>
      rw [hb] at h
      cases s with
      | ret v => exact h
      | brk st' => exact h
      | cont st' => exact loopFuel_mono body f f' st' r h (by omega)

end PP.Go
