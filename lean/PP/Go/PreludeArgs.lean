import PP.Go.Prelude
import PP.Model.Args
/-
Run-time support for `PP/TranslatedArgs.lean` (`parseArgs` of stack/context.go,
regenerated from the Go source on every run by `extract/translate_args.go`).

What this group adds to `PP/Go/Prelude.lean` (everything lives in `PP.Go.Ar`):

* `GArg` / `GArgs`: Go's `stack.Arg` / `stack.Args` structs FIELD FOR FIELD (the
  blank `_ struct{}` fields left out), nothing assumed about which fields an
  aggregate or a scalar uses.  The model's `Arg` is embedded by `embArg`
  (Tie file); the tie theorem shows that what `parseArgs` builds is in the image.

* Pointers into ONE local variable (the only one whose address is taken,
  `args`): a `*Args` is `Ptr = Option (List Nat)` (`none` = nil), the index path
  `[i1, …, ik]` standing for `&args.Values[i1].Fields.Values[i2]. … .Fields`;
  a `*Arg` is `PArg = Option (List Nat × Nat)`, `(p, i)` standing for
  `&(*p).Values[i]`.  A fixed array of pointers `[N]*Args` is a `List Ptr` of
  length N (`arrGet` / `arrSet`: index out of range = panic = `none`).
  Reads and writes through a pointer go to the CURRENT value of the root.
  This is Go's behaviour as long as the element a pointer points into has not
  been moved by a reallocating `append` of an enclosing `Values` slice.  The
  only operation that can move elements is `P.Values = append(P.Values, x)`
  (`ptrAppendValues`); it is given the depths of ALL pointers in scope (`live`)
  and yields `none` if one of them is deeper than `P` — a pointer that is not
  deeper cannot point into (an element of) `P.Values`.  So `none` here means
  "Go panics OR the path reading of pointers might not be Go's": the tie file
  proves that `parseArgs` never yields `none` (`parseArgs_no_panic`).

* `seqS` / `finish`: statement sequencing.  Every statement list is a term of
  type `Option (Step σ ρ)` (`none` = panic, `.ret v` = `return v`, `.cont st` =
  fell through with the assigned outer variables `st`).

* `forCount`: `for i := 0; i < n; i++` for an `n` the body does not assign
  (`i` not assigned either, no break/continue): `n.toNat` iterations.

* Go `int` is `Int` (`depth--` reaches -1), `len` is `ilen`.
* `sliceTo s hi` = `s[:hi]` on a `[]byte`: `none` when `hi < 0` or `hi > len(s)`.
  Go panics only beyond `cap(s)`; `none` for `len < hi ≤ cap` is covered by
  `parseArgs_no_panic` as well.
* errors are tags: the four messages of `parseArgs` are the constructors of the
  model's `ArgErr` (table `errorSites` in the generated file, pinned in the Tie
  file); `nil` = `none`.

Trusted model functions the translated code calls: `Bytes.splitOn`
(bytes.Split with the separator `commaSpace`), `Bytes.hasSuffix`, `==` on
Bytes (bytes.Equal), `parseUint0` (strconv.ParseUint(s, 0, 64)), the byte
literals / constants of `PP.Extracted`; `trimCurlyBrackets` is a function of
the environment (translated and tied in group Func).
-/
namespace PP.Go.Ar
open PP PP.Go

/-- `stack.Args` over an element type -/
structure GArgsOf (α : Type) where
  values : List α := []
  processed : List Bytes := []
  elided : Bool := false

/-- `stack.Arg`, field for field -/
structure GArg where
  isAggregate : Bool := false
  name : Bytes := []
  value : Nat := 0
  isPtr : Bool := false
  isOffsetTooLarge : Bool := false
  isInaccurate : Bool := false
  fields : GArgsOf GArg := {}

/-- `stack.Args` -/
abbrev GArgs := GArgsOf GArg

/-- `*Args` pointing into the root variable; `none` = nil -/
abbrev Ptr := Option (List Nat)
/-- `*Arg` pointing into the root variable: element `i` of `(*p).Values` -/
abbrev PArg := Option (List Nat × Nat)

def Ptr.depth : Ptr → Nat
  | none => 0
  | some p => p.length
def PArg.depth : PArg → Nat
  | none => 0
  | some (p, _) => p.length + 1

/-- `&args` for the root variable -/
def ptrRoot : Ptr := some []

/-- the `Args` at a path -/
def getArgs : GArgs → List Nat → Option GArgs
  | root, [] => some root
  | root, i :: p =>
    match root.values[i]? with
    | none => none
    | some a => getArgs a.fields p

/-- replace the `Args` at a path by `f` of it -/
def modArgs : GArgs → List Nat → (GArgs → Option GArgs) → Option GArgs
  | root, [], f => f root
  | root, i :: p, f =>
    match root.values[i]? with
    | none => none
    | some a =>
      match modArgs a.fields p f with
      | none => none
      | some fl => some { root with values := root.values.set i { a with fields := fl } }

/-- `len(x)` -/
abbrev ilen {α : Type} (l : List α) : Int := Int.ofNat l.length

/-- `a[i]` on a fixed array -/
def arrGet {α : Type} (a : List α) (i : Int) : Option α :=
  if 0 ≤ i then a[i.toNat]? else none

/-- `a[i] = v` on a fixed array -/
def arrSet {α : Type} (a : List α) (i : Int) (v : α) : Option (List α) :=
  if 0 ≤ i ∧ i.toNat < a.length then some (a.set i.toNat v) else none

/-- `p.Values = append(p.Values, x)`; `live` = depths of all pointers in scope -/
def ptrAppendValues (root : GArgs) (live : List Nat) (p : Ptr) (x : GArg) : Option GArgs :=
  match p with
  | none => none
  | some path =>
    if live.all (fun d => decide (d ≤ path.length)) then
      modArgs root path fun a => some { a with values := a.values ++ [x] }
    else none

/-- `len(p.Values)` -/
def ptrLenValues (root : GArgs) (p : Ptr) : Option Int :=
  match p with
  | none => none
  | some path => (getArgs root path).map fun a => ilen a.values

/-- `&p.Values[i]` -/
def ptrAddrValuesIdx (root : GArgs) (p : Ptr) (i : Int) : Option PArg :=
  match p with
  | none => none
  | some path =>
    match getArgs root path with
    | none => none
    | some a => if 0 ≤ i ∧ i.toNat < a.values.length then some (some (path, i.toNat)) else none

/-- `&q.Fields` -/
def pargAddrFields (q : PArg) : Option Ptr :=
  match q with
  | none => none
  | some (p, i) => some (some (p ++ [i]))

/-- `p.F = v` for a non-slice field of `Args` -/
def ptrModArgs (root : GArgs) (p : Ptr) (f : GArgs → GArgs) : Option GArgs :=
  match p with
  | none => none
  | some path => modArgs root path fun a => some (f a)

/-- `q.F = v` for a non-slice, non-struct field of `Arg` -/
def pargMod (root : GArgs) (q : PArg) (f : GArg → GArg) : Option GArgs :=
  match q with
  | none => none
  | some (path, i) =>
    modArgs root path fun a =>
      match a.values[i]? with
      | none => none
      | some x => some { a with values := a.values.set i (f x) }

/-- `s[:hi]` -/
def sliceTo (s : Bytes) (hi : Int) : Option Bytes :=
  if 0 ≤ hi ∧ hi.toNat ≤ s.length then some (s.take hi.toNat) else none

/-- statement sequencing -/
def seqS {σ τ ρ : Type} (r : Option (Step σ ρ)) (k : σ → Option (Step τ ρ)) : Option (Step τ ρ) :=
  match r with
  | none => none
  | some (.ret v) => some (.ret v)
  | some (.cont s) => k s

@[simp] theorem seqS_none {σ τ ρ : Type} (k : σ → Option (Step τ ρ)) : seqS (none : Option (Step σ ρ)) k = none := rfl
@[simp] theorem seqS_ret {σ τ ρ : Type} (v : ρ) (k : σ → Option (Step τ ρ)) :
    seqS (some (Step.ret v : Step σ ρ)) k = some (.ret v) := rfl
@[simp] theorem seqS_cont {σ τ ρ : Type} (s : σ) (k : σ → Option (Step τ ρ)) :
    seqS (some (Step.cont s : Step σ ρ)) k = k s := rfl

/-- a function body: it has to end in a `return` -/
def finish {ρ : Type} (r : Option (Step Unit ρ)) : Option ρ :=
  match r with
  | some (.ret v) => some v
  | _ => none

/-- `for i := 0; i < n; i++ { body }` -/
def forCount {σ ρ : Type} (body : Int → σ → Option (Step σ ρ)) (n : Int) (st : σ) : Option (Step σ ρ) :=
  forRange (fun i (_ : Unit) s => body (Int.ofNat i) s) (List.replicate n.toNat ()) 0 st

end PP.Go.Ar
