import PP.Go.Prelude
import PP.Model.Roots
/-
Run-time support for `PP/TranslatedRoots.lean` (the root finding of
stack/context.go: `(*gomodCache).isGoModule`, `(*Snapshot).findRoots`,
regenerated from the Go source on every run).

What the translator of this group adds to `PP/Go/Prelude.lean`:
* `StepB` / `forRangeB`: a loop whose body has a `break` of its own.  The body
  yields `.cont st` (`continue`, or falling off the end), `.brk st` (`break`) or
  `.ret v` (a jump further out); the loop as a whole yields a `Step`, so that
  `after` applies to it as to `forRange`.
* nested loops and join blocks need no new combinator: a term translated inside
  k enclosing frames (loop bodies, join blocks) has type
  `Option (Step σk (… (Step σ1 ρ)))`, a jump that leaves j of them is wrapped in
  j `.ret`s, and `after` peels one level.
* `goSub a b`: an `int` difference `a - b` used directly as a slice bound or an
  index.  Go's `int` is signed: where `b > a` the bound is negative and the
  slice expression panics at run time, so `none` (a panic) is faithful THERE —
  the translator refuses every other subtraction in this group, which keeps all
  its `int`s natural numbers by construction.
* `SSet`: a Go `map[K]struct{}` used as a set, as the list of its keys (most
  recent first).  `SSet.insert` keeps the keys distinct; nothing the translated
  code can observe (`_, ok := m[k]`) depends on their order.
* `AMap.contains`: `_, ok := m[k]` on a `map[string]string` (`AMap`, an
  association list; `AMap.insert` / `AMap.get` are in `PP/Model/Roots.lean`).
* `reModuleSubmatch b` = `reModule.FindSubmatch(b)`: `nil` when there is no
  match, otherwise the whole match followed by the one group.  The model's hand
  matcher `reModule` yields the group only, so the first element is a
  placeholder; the translator refuses code that reads index 0.
* `stack.Snapshot` is the model's record `PP.Snapshot` (six fields:
  `Goroutines`, `LocalGOROOT`, `LocalGOPATHs`, `RemoteGOROOT`, `RemoteGOPATHs`,
  `LocalGomods`, spelled as the translator spells fields); the translator
  refuses a function that touches any other field.

Trusted model functions the translated code calls (not translated here):
`PP.getFiles`, `PP.splitPath`, `PP.pathDir` (path.Dir), `PP.pathJoin`,
`PP.reModule`, and `PP.isRootedIn`, `PP.mapHasPrefix` (= Go `hasPrefix`),
`PP.hasSrcPrefix`, which are translated and tied in group Scan
(`PP/Tie/TranslatedScan.lean`).  `os.Stat` / `os.ReadFile` are the oracles
`E.isFile` / `E.readFile` (`none` = any error).
-/
namespace PP.Go
open PP

/-- outcome of one iteration of a loop that has a `break` -/
inductive StepB (σ ρ : Type) where
  | cont (s : σ)
  | brk (s : σ)
  | ret (r : ρ)

/-- `for i, x := range xs { body }` where the body can `break`; `i0` is the
index of the head of `xs`.  A `break` ends the loop with the state it carries. -/
def forRangeB {α σ ρ : Type} (body : Nat → α → σ → Option (StepB σ ρ)) :
    List α → Nat → σ → Option (Step σ ρ)
  | [], _, st => some (.cont st)
  | x :: xs, i, st =>
    match body i x st with
    | none => none
    | some (.ret r) => some (.ret r)
    | some (.brk st') => some (.cont st')
    | some (.cont st') => forRangeB body xs (i + 1) st'

@[simp] theorem forRangeB_nil {α σ ρ : Type} (body : Nat → α → σ → Option (StepB σ ρ)) (i : Nat) (st : σ) :
    forRangeB body [] i st = some (.cont st) := rfl

theorem forRangeB_cons {α σ ρ : Type} (body : Nat → α → σ → Option (StepB σ ρ)) (x : α) (xs : List α)
    (i : Nat) (st : σ) :
    forRangeB body (x :: xs) i st =
      match body i x st with
      | none => none
      | some (.ret r) => some (.ret r)
      | some (.brk st') => some (.cont st')
      | some (.cont st') => forRangeB body xs (i + 1) st' := rfl

/-- a loop without `break` is the same loop under either combinator -/
theorem forRangeB_noBrk {α σ ρ : Type} (body : Nat → α → σ → Option (Step σ ρ)) (xs : List α) (i : Nat) (st : σ) :
    forRangeB (fun j x s => (body j x s).map fun r => match r with | .cont s' => StepB.cont s' | .ret v => StepB.ret v)
      xs i st = forRange body xs i st := by
  induction xs generalizing i st with
  | nil => rfl
  | cons x xs ih =>
    rw [forRangeB_cons, forRange_cons]
    cases body i x st with
    | none => rfl
    | some r => cases r with
      | ret v => rfl
      | cont s' => exact ih (i + 1) s'

/-- `a - b` on Go `int`s holding natural numbers, where a negative result is a
run-time panic (a slice bound, an index) -/
def goSub (a b : Nat) : Option Nat := if b ≤ a then some (a - b) else none

@[simp] theorem goSub_of_le {a b : Nat} (h : b ≤ a) : goSub a b = some (a - b) := by simp [goSub, h]
@[simp] theorem goSub_of_lt {a b : Nat} (h : a < b) : goSub a b = none := by
  simp [goSub]; omega

/-! `map[K]struct{}` -/
namespace SSet
/-- `_, ok := m[k]` -/
def contains {α : Type} [BEq α] (s : List α) (k : α) : Bool := s.contains k
/-- `m[k] = struct{}{}` -/
def insert {α : Type} [BEq α] (s : List α) (k : α) : List α := if s.contains k then s else k :: s
end SSet

end PP.Go

namespace PP
/-- `_, ok := m[k]` on a `map[string]string` -/
def AMap.contains (m : AMap) (k : Bytes) : Bool := (m.lookup k).isSome
end PP

namespace PP.Go
open PP

/-- `reModule.FindSubmatch(b)` (index 0 is a placeholder) -/
def reModuleSubmatch (b : Bytes) : List Bytes :=
  match reModule b with
  | some m => [[], m]
  | none => []

end PP.Go
