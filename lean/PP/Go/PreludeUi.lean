import PP.Go.Prelude
import PP.Model.Console
import PP.Model.Roots
/-
Run-time support for `PP/TranslatedUi.lean` (the console renderer internal/ui.go and
`Signature.SleepString`, `Arg.String`, `Args.String` of stack/stack.go, regenerated from the
Go source on every run by extract/translate_ui.go).

Types: `internal.Palette` and `internal.pathFormat` are the model's `Console.Palette` and
`Console.PathFormat` (field for field / constant for constant, in declaration order);
`stack.Bucket` is the model's `Bucket`, `stack.Snapshot` the model's `Snapshot`;
`stack.Aggregated` is the record below (`*Snapshot` embedded + `Buckets`).

Library functions the translated code calls, as the translator spells them — all of them the
hand-written model functions, trusted as the model of package fmt / strings
(PP/Model/Console.lean, PP/Model/Bytes.lean):
* `Console.fmtPadRight w s` = the `%-*s` verb of fmt with an `int` width `w ≥ 0` and a string `s`;
* `Console.fmtHex n`, `Console.fmtHex08 n` = the `%x` and `%08x` verbs on an unsigned integer;
* `Bytes.natToDec n` = the `%d` verb on a non-negative integer (as in the older groups);
* `Bytes.join sep v` = `strings.Join(v, sep)`.
-/
namespace PP.Go
open PP

/-- stack.Aggregated (bucket.go): the snapshot it was made from and the buckets -/
structure Aggregated where
  snapshot : Snapshot := {}
  buckets : List Bucket := []

/-- what follows a loop that stands inside the body of another loop: a panic or an early `return`
of the inner loop ends the outer iteration the same way, otherwise the rest of the outer body
runs with the state the inner loop left -/
def afterIn {σ σ' ρ : Type} (r : Option (Step σ ρ)) (k : σ → Option (Step σ' ρ)) : Option (Step σ' ρ) :=
  match r with
  | none => none
  | some (.ret v) => some (.ret v)
  | some (.cont s) => k s

@[simp] theorem afterIn_none {σ σ' ρ : Type} (k : σ → Option (Step σ' ρ)) :
    afterIn (none : Option (Step σ ρ)) k = none := rfl
@[simp] theorem afterIn_ret {σ σ' ρ : Type} (v : ρ) (k : σ → Option (Step σ' ρ)) :
    afterIn (some (Step.ret v : Step σ ρ)) k = some (.ret v) := rfl
@[simp] theorem afterIn_cont {σ σ' ρ : Type} (s : σ) (k : σ → Option (Step σ' ρ)) :
    afterIn (some (Step.cont s : Step σ ρ)) k = k s := rfl

end PP.Go
