import PP.Go.Prelude
import PP.Go.PreludeRoots
import PP.Model.Scan
/-
Run-time support for `PP/TranslatedFunc.lean` (`(*Func).Init` of stack/stack.go, regenerated
from the Go source on every run by extract/translate_func.go).

What the translator of this group does differently from the older groups:
* Go `int` is Lean `Int`.  `Func.Init` computes with the value -1 (`endPkg`, the result of
  `strings.IndexByte`), so an `int` is not a natural number here.  Every integer literal is
  emitted with its type (`(-1 : Int)`), `len` is `ilen`, and the bounds of slice / index
  expressions are converted to `Nat` only inside `goSliceI` / `goIdxI`, after the checks Go
  makes at run time: a negative or too large bound is `none`, a run-time panic.  ASSUMED, as
  in the older groups: `int` arithmetic does not overflow.
* Go `error` is the type `GoErr` below: an error is a VALUE a function returns, distinct from
  a panic (`none`).  The constructors say how the value was made; the text of the message of
  `url.PathUnescape`'s error is not modelled.

Library functions, as the translator spells them:
* `goIndexByte s c`, `goLastIndexByte s c` = strings.IndexByte / strings.LastIndexByte (and the
  bytes.* twins): the model's `Bytes.indexByte` / `Bytes.lastIndexByte`, -1 when absent;
* `goPathUnescape s` = url.PathUnescape(s): the model's `pathUnescape` (TRUSTED, hand-written);
  on error Go returns "" together with the error;
* `goTrimSuffix s suf` = strings.TrimSuffix(s, suf);
* `goSplit s sep` = strings.Split(s, sep) for a constant non-empty `sep`: the model's
  `Bytes.splitOn` (TRUSTED); `goSplit_ne_nil`: the result is never empty, so
  `parts[len(parts)-1]` cannot panic (`goIdxI_last`);
* `goDecodeRune s` = utf8.DecodeRuneInString(s): the model's `decodeRune` (TRUSTED);
* `reFileSubmatch`, `reFuncSubmatch` = reFile.FindSubmatch / reFunc.FindSubmatch: the model's
  `matchFile` / `matchFunc` (TRUSTED); `goAtou` = context.go atou (tied in group Scan);
  `goParseArgs` = context.go parseArgs (the model's `parseArgs`, TRUSTED);
* loops `for ; a < b; a++` / `for ; a < b; b--` over outer `int` variables run under `forRangeB`
  (PreludeRoots.lean) over `List.range' 0 (b - a).toNat`, whose elements are not used: see
  `fiFor` in extract/translate_func.go for why that is the exact number of iterations;
* `toUpperIsSelf r` (PP/Model/Unicode.lean) = `unicode.ToUpper(r) == r`; the table behind it is
  regenerated from the Go toolchain on every run (PP/Extracted.lean).
-/
namespace PP.Go
open PP

/-- an operand of a formatting verb.  The text of a message is not modelled: `bytes.TrimSpace(b)`
is recorded, not evaluated. -/
inductive GoArg where
  | bytes (b : Bytes)
  | trimSpace (b : Bytes)
  deriving DecidableEq, Repr, Inhabited

/-- a Go `error` value.  `nil` is the nil error; the other constructors say how the value was made. -/
inductive GoErr where
  /-- `nil` -/
  | nil
  /-- `errors.New(msg)` -/
  | new (msg : Bytes)
  /-- `fmt.Errorf(format, operands…)`: the constant format, the operand of type error (`nil` when
  there is none) and the other operands in order -/
  | errorf (format : Bytes) (e : GoErr) (args : List GoArg)
  /-- the (non-nil) error `url.PathUnescape` returns: an `url.EscapeError`, text not modelled -/
  | pathUnescape
  /-- the (non-nil) error `parseArgs` returns, by the model's kind -/
  | parseArgs (e : ArgErr)
  deriving DecidableEq, Repr, Inhabited

/-- `len(x)` as a Go `int` -/
def ilen {α : Type} (l : List α) : Int := Int.ofNat l.length

/-- `s[lo:hi]` on a slice or string with `int` bounds; `none` = slice bounds out of range
(which includes every negative bound) -/
def goSliceI {α : Type} (s : List α) (lo hi : Int) : Option (List α) :=
  if 0 ≤ lo ∧ lo ≤ hi ∧ hi ≤ Int.ofNat s.length then some ((s.take hi.toNat).drop lo.toNat) else none

/-- `s[lo:hi]` on a SLICE (not a string) with an explicit upper bound.  Go allows `hi` up to the
capacity of `s`, which the lists of the model do not have: `none` here means "a run-time panic,
OR a reslice beyond the length (within the capacity)".  A function that uses it is therefore only
tied together with a proof that the translated code never yields `none`
(`trimCurlyBrackets_no_panic`). -/
def goReSliceI {α : Type} (s : List α) (lo hi : Int) : Option (List α) := goSliceI s lo hi

/-- `s[i]` with an `int` index; `none` = index out of range (which includes a negative index) -/
def goIdxI {α : Type} (s : List α) (i : Int) : Option α :=
  if 0 ≤ i then s[i.toNat]? else none

/-- the `int` a search returns: the index, or -1 -/
def idxOrMinus1 : Option Nat → Int
  | some i => Int.ofNat i
  | none => -1

/-- strings.IndexByte / bytes.IndexByte -/
def goIndexByte (s : Bytes) (c : UInt8) : Int := idxOrMinus1 (Bytes.indexByte s c)

/-- strings.LastIndexByte / bytes.LastIndexByte -/
def goLastIndexByte (s : Bytes) (c : UInt8) : Int := idxOrMinus1 (Bytes.lastIndexByte s c)

/-- url.PathUnescape: `(string, error)` -/
def goPathUnescape (s : Bytes) : Bytes × GoErr :=
  match pathUnescape s with
  | some u => (u, GoErr.nil)
  | none => ([], GoErr.pathUnescape)

/-- strings.TrimSuffix -/
def goTrimSuffix (s suf : Bytes) : Bytes :=
  if Bytes.hasSuffix s suf then s.take (s.length - suf.length) else s

/-- strings.Split(s, sep), `sep` non-empty -/
def goSplit (s sep : Bytes) : List Bytes := Bytes.splitOn s sep

/-- utf8.DecodeRuneInString: the rune (a code point, as a natural number) and its width -/
def goDecodeRune (s : Bytes) : Nat × Int := ((decodeRune s).1, Int.ofNat (decodeRune s).2)

/-- `reFile.FindSubmatch(b)`: `nil` when there is no match, otherwise the whole match (a
placeholder: the translator refuses code that reads index 0), the path and the line digits.
Both groups take part in every match of `reFile`.  The model's `matchFile` (TRUSTED). -/
def reFileSubmatch (b : Bytes) : List Bytes :=
  match matchFile b with
  | some m => [[], m.path, m.line]
  | none => []

/-- `reFunc.FindSubmatch(b)`, likewise: placeholder, name, arguments.  The model's `matchFunc` (TRUSTED). -/
def reFuncSubmatch (b : Bytes) : List Bytes :=
  match matchFunc b with
  | some (name, args) => [[], name, args]
  | none => []

/-- context.go `atou`: `(int, bool)`; the model's `atou` (the Go function is translated and tied
to it in group Scan: `TrS.tie_atou`) -/
def goAtou (s : Bytes) : Int × Bool :=
  match atou s with
  | some n => (Int.ofNat n, true)
  | none => (0, false)

/-- context.go `parseArgs`: `(Args, error)`; the model's `parseArgs` (TRUSTED).  Every error
return of the Go function is `Args{}, err`. -/
def goParseArgs (s : Bytes) : Args × GoErr :=
  match PP.parseArgs s with
  | .ok a => (a, GoErr.nil)
  | .error e => ({}, GoErr.parseArgs e)

/-! ### lemmas -/

@[simp] theorem idxOrMinus1_none : idxOrMinus1 none = -1 := rfl
@[simp] theorem idxOrMinus1_some (i : Nat) : idxOrMinus1 (some i) = Int.ofNat i := rfl

theorem idxOrMinus1_ne_neg1 (i : Nat) : (Int.ofNat i != (-1 : Int)) = true := by
  simp only [bne_iff_ne, ne_eq, Int.ofNat_eq_natCast]; omega

/-- a slice with natural bounds in range -/
theorem goSliceI_ofNat {α : Type} (s : List α) (lo hi : Nat) (h1 : lo ≤ hi) (h2 : hi ≤ s.length) :
    goSliceI s (Int.ofNat lo) (Int.ofNat hi) = some ((s.take hi).drop lo) := by
  unfold goSliceI
  rw [if_pos]
  · simp
  · simp only [Int.ofNat_eq_natCast]; omega

/-- a slice with natural bounds out of range -/
theorem goSliceI_ofNat_none {α : Type} (s : List α) (lo hi : Nat) (h : ¬ (lo ≤ hi ∧ hi ≤ s.length)) :
    goSliceI s (Int.ofNat lo) (Int.ofNat hi) = none := by
  unfold goSliceI
  rw [if_neg]
  simp only [Int.ofNat_eq_natCast]; omega

theorem splitOn_go_ne_nil (sep : Bytes) : ∀ (fuel : Nat) (s cur : Bytes), Bytes.splitOn.go sep fuel s cur ≠ []
  | 0, _, _ => by simp [Bytes.splitOn.go]
  | fuel + 1, [], _ => by simp [Bytes.splitOn.go]
  | fuel + 1, c :: t, cur => by
    rw [Bytes.splitOn.go]
    by_cases h : Bytes.hasPrefix (c :: t) sep = true
    · rw [if_pos h]; simp
    · rw [if_neg h]; exact splitOn_go_ne_nil sep fuel t (c :: cur)

/-- strings.Split never returns an empty slice (for a non-empty separator) -/
theorem goSplit_ne_nil (s sep : Bytes) : goSplit s sep ≠ [] :=
  splitOn_go_ne_nil sep _ _ _

/-- `parts[len(parts)-1]` on a non-empty slice is its last element -/
theorem goIdxI_last {α : Type} (l : List α) (h : l ≠ []) :
    goIdxI l (ilen l - (1 : Int)) = some (l.getLast h) := by
  have hl : 0 < l.length := List.length_pos_iff.mpr h
  unfold goIdxI ilen
  have e : (Int.ofNat l.length - 1 : Int) = Int.ofNat (l.length - 1) := by
    simp only [Int.ofNat_eq_natCast]; omega
  rw [e, if_pos (by simp only [Int.ofNat_eq_natCast]; omega)]
  rw [List.getLast_eq_getElem]
  simp

end PP.Go
