import PP.Go.PreludeRoots
import PP.Model.Aggregate
import PP.Model.Roots
/-
Run-time support for `PP/TranslatedAgg.lean` (`(*Snapshot).Aggregate` of stack/bucket.go,
regenerated from the Go source on every run by extract/translate_agg.go).

How the translator of this group represents the Go values (the header of
extract/translate_agg.go says what is checked on the Go source for each to be sound):
* the map `b : map[*Signature]*count` is the list of its entries, an entry being the model's
  record `Bkt` (`key` = the Signature the key points to; `ids`, `first`, `order` = the fields of
  the count the value points to).  A Go map has no order: the order of the list means nothing,
  the map is only ever read through `range` (and `len`).
* `for key, c := range b`: the k-th range over the map executed by the call (k from 0, the ghost
  counter `_nr`) runs over `E.mapOrder k b`, an ORACLE of the environment, and the list is
  replaced by that list.  ASSUMED of Go: a range over a map visits every entry present when it
  starts exactly once, in an unspecified order (the only change the translated body makes to the
  map during a range is followed by `break`).  Go's behaviour is the translated function for some
  oracle with `(E.mapOrder k b).Perm b` for all k, b; the agreement theorems hold for every
  function.
* a write through the value variable `c` (a pointer to the count of the entry being visited)
  rewrites the entry at the position of the loop index: `b.set _i c`; re-keying the entry
  (`b[newKey] = c; delete(b, key); break`) is `b.set _i { c with key := newKey }`; inserting a new
  entry under a fresh pointer is `b ++ [entry]`.
* a `*Bucket` is the record `Bkt` as well (as in `PP/Translated.lean`): the map
  `order : map[*Bucket]int` is its field `order` (0 until `order[p] = e`).
* `stack.Aggregated` is `AggResult` below; `stack.Snapshot` the model's `Snapshot`.
* the loops use `Step`/`forRange`/`after` of `Prelude.lean` and `StepB`/`forRangeB` of
  `PreludeRoots.lean`.

Library functions, as the translator spells them:
* `sortNat ids` (PP/Model/Aggregate.lean) stands for `sort.Ints(ids)` — TRUSTED: sort.Ints sorts
  in increasing order (ids are natural numbers, see PP/Model/Types.lean);
* `sliceStable less bs` below stands for `sort.SliceStable(bs, less)` — TRUSTED: sort.SliceStable
  is a correct stable sort, `List.mergeSort` with "a before b unless less b a" (as the model's
  `sortBuckets`); the two agree on every input on which `less` is a strict weak order.
-/
namespace PP.Go
open PP

/-- stack.Aggregated (bucket.go): the snapshot it was made from and the buckets, each with the
ghost field `order` the sort closure reads -/
structure AggResult where
  snapshot : Snapshot
  buckets : List Bkt

/-- `sort.SliceStable(xs, less)` where the comparison can panic (`none`).  Which pairs Go's
algorithm compares is not modelled: the result is `none` (a panic is POSSIBLE) as soon as the
comparison panics on some ordered pair of elements, which over-approximates the panics of the Go
call; where it is `some`, no comparison panics and the result is the stable sort. -/
def sliceStable {α : Type} (less : α → α → Option Bool) (xs : List α) : Option (List α) :=
  if xs.all (fun a => xs.all fun b => (less a b).isSome) then
    some (xs.mergeSort fun a b => !((less b a).getD false))
  else none

end PP.Go
