import PP.Go.Prelude
import PP.Go.PreludeRoots
import PP.Go.PreludeUi
import PP.Model.Web
import PP.Model.Cli
/-
Run-time support for `PP/TranslatedWeb.lean` (the web handler
stack/webstack/webstack.go: `SnapshotHandler`, `snapshot`, and `DefaultOpts` of
stack/context.go, regenerated from the Go source on every run by
extract/translate_web.go).

What this group adds to the older ones:

* **An explicit effect trace.**  The two functions talk to the outside
  (`http.ResponseWriter`, `runtime.Stack`, `stack.ScanSnapshot`, `Aggregate`,
  `ToHTML`).  Every translated function of the group takes the `World` as its first
  argument and returns it with its result (`Option (World × ρ)`); every call that has an
  effect appends one `Event` to `World.trace`, in program order.  The answers of the
  outside are oracles of the generated `Env` (`stackDump`, `scanSnapshot`, `aggregate`,
  `toHTML`, `goroot`, `gopaths`, `atoiErrVal`); the agreement theorems hold for every
  oracle.  The translator only allows a call with an effect as a whole statement or as
  the whole right-hand side of an assignment, with arguments that have no effect, so that
  the order of the events is the order of the statements.
* **`int` is `Int`** in this group (form values parse to negative numbers), never `Nat`.
  Like in the older groups it is unbounded: the translation ASSUMES no `int` operation
  of the translated code overflows 64 bits.  (The only arithmetic of the group is
  `i++` — at most 44 times, `snapSizes_length` — and `len(buf) * 2`, computed only when
  `len(buf) < max maxmem 2^20`: it overflows only for a buffer of 2^62 bytes or more,
  i.e. a `maxmem` above 4 EiB AND a dump that large.)
* **`error` values** are `GoErr`: `nil`, the sentinel `io.EOF`, or any other value.
  Only `err == nil`, `err != nil`, `err == io.EOF`, `err = nil` are translated.
* **An unbounded `for { … }`** (no condition; left by `break` or `return`) is `forFuel`:
  the loop run for at most `E.fuel` iterations, `none` when the fuel runs out.
  `forFuel_mono`: a result reached with some fuel is the result with any larger fuel, so
  a `some` IS the result of the Go loop; the agreement theorem of `snapshot` shows that
  as much fuel as the model's `growLoop` has elements suffices (no more than 44 for a
  64-bit `maxmem`: `snapSizes_length`, `tie_closed`).
* **`[]byte` buffers** are `Bytes`; `make([]byte, n)` is `makeBytes n` (`none`, a panic,
  for a negative `n`; the content `zeros n` is never looked at); `buf[lo:hi]` with `int`
  bounds is `goSliceI` (see there); `runtime.Stack(buf, true)` overwrites the head of
  `buf` and the translation rebinds `buf` (the translator checks that no other slice can
  share its array: `webBufGuard`).

Library functions, as the translator spells them:
* `strconvAtoi errVal s` = `strconv.Atoi(s)`: the model's `atoi` (PP/Model/Web.lean,
  trusted as the model of package strconv); the `int` returned along with an error is the
  oracle `errVal s` (0 or ±2^63∓… in Go: nothing may depend on it);
* `Request.formValue req k` = `req.FormValue(k)`, `req.method` = `req.Method`: the
  request is an input (net/http is trusted to hand the handler the request it received);
* `E.goroot` = `runtime.GOROOT()`, `E.gopaths` = `getGOPATHs()` (stack/context.go: $GOPATH
  or its default; ASSUMED to return — it panics when neither the current user nor $HOME
  can be determined): the environment `stack.DefaultOpts()` reads.  `DefaultOpts` itself is
  translated (`return &Opts{…}` is the record `Cli.Opts` of PP/Model/Cli.lean; the pointer
  is fresh, the translator checks that the handler writes through it only before it hands
  it on) and tied to the model's `Cli.defaultOpts`;
* `World.httpError`, `World.setHeader`, `World.runtimeStack`, `World.scanSnapshot`,
  `World.aggregate`, `World.toHTML`: the calls with an effect (below).
-/
namespace PP.Go
open PP

/-- a Go `error` value: `nil`, the sentinel `io.EOF` (compared by identity in Go), or any
other non-nil error (`*strconv.NumError`, `errors.New("invalid Opts")`, a parse error …) -/
inductive GoErr where
  | nil
  | eof
  | other (id : Nat)
  deriving DecidableEq, Repr, Inhabited

/-- a `*stack.Snapshot` as `ScanSnapshot` returns it: nil or a snapshot.  The translated
code never looks inside (the translator refuses a field selection on it), it only hands it
to `Aggregate`. -/
abbrev SnapRef := Option Snapshot

/-- an `http.ResponseWriter`: which writer the events are about -/
structure ResponseWriter where
  id : Nat := 0
  deriving DecidableEq, Repr, Inhabited

/-- what the handler reads of an `*http.Request`: `req.Method` and `req.FormValue(k)` -/
structure Request where
  method : Bytes := []
  form : Bytes → Bytes := fun _ => []

/-- `req.FormValue(k)` -/
def Request.formValue (r : Request) (k : Bytes) : Bytes := r.form k

/-- one observable action, as the translated code performs it -/
inductive Event where
  /-- `http.Error(w, msg, code)` -/
  | httpError (w : ResponseWriter) (msg : Bytes) (code : Int)
  /-- `w.Header().Set(key, val)` -/
  | setHeader (w : ResponseWriter) (key val : Bytes)
  /-- `runtime.Stack(buf, all)` with `len(buf) = size` -/
  | stack (size : Nat) (all : Bool)
  /-- `stack.ScanSnapshot(bytes.NewReader(input), io.Discard, opts)` -/
  | scanSnapshot (input : Bytes) (opts : Cli.Opts)
  /-- `c.Aggregate(lvl)` -/
  | aggregate (c : SnapRef) (lvl : Lvl)
  /-- `a.ToHTML(w, footer)` -/
  | toHTML (a : Aggregated) (w : ResponseWriter) (footer : Bytes)

/-- the state of the outside the translated functions thread through: how often
`runtime.Stack` has been called (the text it writes changes from call to call in a live
process: the oracle `stackDump` is indexed by this number) and the events so far, oldest
first -/
structure World where
  nStack : Nat := 0
  trace : List Event := []

def World.emit (w : World) (e : Event) : World := { w with trace := w.trace ++ [e] }

@[simp] theorem World.emit_nStack (w : World) (e : Event) : (w.emit e).nStack = w.nStack := rfl
@[simp] theorem World.emit_trace (w : World) (e : Event) : (w.emit e).trace = w.trace ++ [e] := rfl

/-- `http.Error(w, msg, code)` -/
def World.httpError (wld : World) (w : ResponseWriter) (msg : Bytes) (code : Int) : World :=
  wld.emit (.httpError w msg code)

/-- `w.Header().Set(key, val)` -/
def World.setHeader (wld : World) (w : ResponseWriter) (key val : Bytes) : World :=
  wld.emit (.setHeader w key val)

/-- `make([]byte, n)`'s content -/
def zeros (n : Nat) : Bytes := List.replicate n 0

@[simp] theorem length_zeros (n : Nat) : (zeros n).length = n := by simp [zeros]

/-- `make([]byte, n)`: a run-time panic for a negative length -/
def makeBytes (n : Int) : Option Bytes := if n < 0 then none else some (zeros n.toNat)

/-- `len(x)` as an `int` -/
def lenI {α : Type} (l : List α) : Int := (l.length : Int)

/-- `s[lo:hi]` with `int` bounds.  `none` = slice bounds out of range; also where
`len(s) < hi ≤ cap(s)`, where Go would extend a slice: the translation is exact wherever
it yields `some`. -/
def goSliceI {α : Type} (s : List α) (lo hi : Int) : Option (List α) :=
  if 0 ≤ lo ∧ lo ≤ hi ∧ hi ≤ (s.length : Int) then some ((s.take hi.toNat).drop lo.toNat) else none

/-- `n := runtime.Stack(buf, all)`: the runtime formats the stacks of the goroutines (the
text `dump i` at its `i`-th call), copies as much of it as fits into `buf` and returns that
number of bytes.  Result: the world, `buf` afterwards, `n`. -/
def World.runtimeStack (dump : Nat → Bytes) (wld : World) (buf : Bytes) (all : Bool) :
    World × Bytes × Int :=
  let d := (dump wld.nStack).take buf.length
  ({ nStack := wld.nStack + 1, trace := wld.trace ++ [.stack buf.length all] },
   d ++ buf.drop d.length, (d.length : Int))

/-- `s, suffix, err := stack.ScanSnapshot(bytes.NewReader(input), io.Discard, opts)` -/
def World.scanSnapshot (scan : Bytes → Cli.Opts → SnapRef × Bytes × GoErr) (wld : World)
    (input : Bytes) (opts : Cli.Opts) : World × (SnapRef × Bytes × GoErr) :=
  (wld.emit (.scanSnapshot input opts), scan input opts)

/-- `c.Aggregate(lvl)`; the oracle says `none` where the method panics (a nil receiver) -/
def World.aggregate (agg : SnapRef → Lvl → Option Aggregated) (wld : World) (c : SnapRef) (lvl : Lvl) :
    Option (World × Aggregated) :=
  (agg c lvl).map fun a => (wld.emit (.aggregate c lvl), a)

/-- `err := a.ToHTML(w, footer)` -/
def World.toHTML (render : Aggregated → Bytes → GoErr) (wld : World) (a : Aggregated)
    (w : ResponseWriter) (footer : Bytes) : World × GoErr :=
  (wld.emit (.toHTML a w footer), render a footer)

/-- `strconv.Atoi(s)`: the model's `atoi`; `errVal s` is the `int` Go returns along with an
error -/
def strconvAtoi (errVal : Bytes → Int) (s : Bytes) : Int × GoErr :=
  match atoi s with
  | some v => (v, .nil)
  | none => (errVal s, .other 0)

/-- `for { body }`: at most `fuel` iterations; `none` when a step panics or the fuel
runs out -/
def forFuel {σ ρ : Type} (body : σ → Option (StepB σ ρ)) : Nat → σ → Option (Step σ ρ)
  | 0, _ => none
  | fuel + 1, st =>
    match body st with
    | none => none
    | some (.ret r) => some (.ret r)
    | some (.brk st') => some (.cont st')
    | some (.cont st') => forFuel body fuel st'

@[simp] theorem forFuel_zero {σ ρ : Type} (body : σ → Option (StepB σ ρ)) (st : σ) :
    forFuel body 0 st = none := rfl

theorem forFuel_succ {σ ρ : Type} (body : σ → Option (StepB σ ρ)) (fuel : Nat) (st : σ) :
    forFuel body (fuel + 1) st =
      match body st with
      | none => none
      | some (.ret r) => some (.ret r)
      | some (.brk st') => some (.cont st')
      | some (.cont st') => forFuel body fuel st' := rfl

/-- more fuel does not change a result that was reached -/
theorem forFuel_mono {σ ρ : Type} (body : σ → Option (StepB σ ρ)) :
    ∀ (f f' : Nat) (st : σ) (r : Step σ ρ), forFuel body f st = some r → f ≤ f' →
      forFuel body f' st = some r
  | 0, _, _, _, h, _ => by simp at h
  | f + 1, 0, _, _, _, hle => by omega
  | f + 1, f' + 1, st, r, h, hle => by
    rw [forFuel_succ] at h ⊢
    cases hb : body st with
    | none => rw [hb] at h; exact h
    | some s =>
      rw [hb] at h
      cases s with
      | ret v => exact h
      | brk st' => exact h
      | cont st' => exact forFuel_mono body f f' st' r h (by omega)

/-- the status line of the response on `w`: the code of the first action that writes the
header — `http.Error` its code, `ToHTML` (the first `Write`) 200 — and 200 when the handler
returns without either (net/http then sends 200) -/
def respStatus (w : ResponseWriter) : List Event → Int
  | [] => 200
  | .httpError w' _ code :: tr => if w' = w then code else respStatus w tr
  | .toHTML _ w' _ :: tr => if w' = w then 200 else respStatus w tr
  | _ :: tr => respStatus w tr

end PP.Go
