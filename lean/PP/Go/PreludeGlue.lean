import PP.Go.Prelude
import PP.Model.FuncAt
import PP.Model.Roots
/-
Run-time support of the generated `PP/TranslatedGlue.lean` (group Glue: the
source-analysis glue of stack/source.go; translator: extract/translate_glue.go).

What stands for what:
* `GParsedFile` is Go's `parsedFile` field for field; `parsed *ast.File` is the
  tree `FA.Node` (what the code reads of an `ast.Node`: `Pos()`, whether it is
  an `*ast.FuncDecl` and which one, the children in `ast.Walk` order).
* `GCache` is Go's `cacheAST` field for field; a `map[string]T` is an
  association list with distinct keys (`goMapSet` keeps them distinct).
* `goInspect f s root` is `ast.Inspect(root, f)` for a callback with explicit
  state `σ` that may panic (`none`): `f(node)`; if it returned true, `Inspect` of
  every child in order, then `f(nil)` whose result is ignored; if it returned
  false nothing more for that node (go/ast/walk.go: `Walk`, `inspector.Visit`).
* `goPos n` is `int(n.Pos())` of an `ast.Node` interface value (nil = panic);
  `goIsFuncDecl n`/`goAsFuncDecl n` are `f, ok := n.(*ast.FuncDecl)`.
* `goForN f n s` is a `for i := range` loop over `n` indexes with explicit state;
  `goSetCall g i c` is the effect on `g` of a callee that replaces `*(&g.Stack.Calls[i])` by `c`.
  `Goroutine`, `Call`, … are the model's records (PP/Model/Types.lean), as in the other groups.
* `goLeTop a x` is `a <= x` for an int `x` that is `math.MaxInt` when `none`.
-/
namespace PP.Go
open PP

/-- Go's `parsedFile` -/
structure GParsedFile where
  lineToByteOffset : List Nat
  parsed : FA.Node

/-- Go's `cacheAST` -/
structure GCache where
  files : List (Bytes × Bytes)
  parsed : List (Bytes × Option GParsedFile)

/-- `m[k] = v` -/
def goMapSet {β : Type} : List (Bytes × β) → Bytes → β → List (Bytes × β)
  | [], k, v => [(k, v)]
  | (k', v') :: t, k, v => if k = k' then (k, v) :: t else (k', v') :: goMapSet t k v

/-- `_, ok := m[k]` -/
def goMapHas {β : Type} (m : List (Bytes × β)) (k : Bytes) : Bool := (m.lookup k).isSome

/-- `m[k]`, `zero` when absent -/
def goMapGet {β : Type} (m : List (Bytes × β)) (k : Bytes) (zero : β) : β := (m.lookup k).getD zero

/-- `int(n.Pos())`; a nil interface panics -/
def goPos : Option FA.Node → Option Nat
  | none => none
  | some n => some n.pos

/-- `_, ok := n.(*ast.FuncDecl)` -/
def goIsFuncDecl : Option FA.Node → Bool
  | none => false
  | some n => n.isFuncDecl

/-- `f, _ := n.(*ast.FuncDecl)`: nil when the assertion fails -/
def goAsFuncDecl : Option FA.Node → Option Nat
  | none => none
  | some n => if n.isFuncDecl then some n.decl else none

/-- `a <= x` where `x = none` is `math.MaxInt` -/
def goLeTop (a : Nat) : Option Nat → Bool
  | none => true
  | some e => decide (a ≤ e)

mutual
/-- `ast.Inspect(n, f)` -/
def goInspect {σ : Type} (f : σ → Option FA.Node → Option (σ × Bool)) (s : σ) : FA.Node → Option σ
  | ⟨pos, isF, decl, children⟩ =>
    match f s (some ⟨pos, isF, decl, children⟩) with
    | none => none
    | some (s1, false) => some s1
    | some (s1, true) =>
      match goInspectList f s1 children with
      | none => none
      | some s2 =>
        match f s2 none with
        | none => none
        | some (s3, _) => some s3
/-- the children, in order -/
def goInspectList {σ : Type} (f : σ → Option FA.Node → Option (σ × Bool)) (s : σ) : List FA.Node → Option σ
  | [] => some s
  | n :: ns =>
    match goInspect f s n with
    | none => none
    | some s1 => goInspectList f s1 ns
end

/-- `for i := range xs` on the indexes alone: `k` iterations left, the next index is `i` -/
def goForFrom {σ : Type} (f : Nat → σ → Option σ) : Nat → Nat → σ → Option σ
  | 0, _, s => some s
  | k + 1, i, s =>
    match f i s with
    | none => none
    | some s1 => goForFrom f k (i + 1) s1

/-- `for i, x := range xs { body }` with `n = len(xs)` evaluated before the loop: the body runs for
`i = 0 … n-1` on the state (it reads `xs[i]` itself); `none` = a panic in an iteration -/
def goForN {σ : Type} (f : Nat → σ → Option σ) (n : Nat) (s : σ) : Option σ := goForFrom f n 0 s

/-- `g.Stack.Calls[i] = c` (the write of a callee through `&g.Stack.Calls[i]`) -/
def goSetCall (g : Goroutine) (i : Nat) (c : Call) : Goroutine :=
  { g with sig := { g.sig with stack := { g.sig.stack with calls := g.sig.stack.calls.set i c } } }

/-- `*s.Goroutines[i] = g` (the writes of a callee through the pointer `s.Goroutines[i]`; the
pointers of the slice are assumed pairwise distinct) -/
def goSetGoroutine (s : Snapshot) (i : Nat) (g : Goroutine) : Snapshot :=
  { s with goroutines := s.goroutines.set i g }

end PP.Go
