import PP.Go.Prelude
import PP.Go.PreludeRoots
import PP.Model.TypeNames
/-
Run-time support for `PP/TranslatedAug.lean` (`augmentCall` of stack/source.go and
`(*Args).walk` of stack/stack.go, regenerated from the Go source on every run by
extract/translate_aug.go; the header of that file lists what each translated construct
assumes).

What this group adds to the older ones:
* `forIdx`: `for i := range xs { body }` / a visitor called on each element of a list,
  with the loop-carried locals as state `σ`; no `return`/`break` inside (refused), so the
  body yields `Option σ` (`none` = panic).
* `whileFuel`: `for init; cond; post { body }` (the body definition ends with `post`, also
  on `continue`): at most `fuel` iterations, `none` when the fuel runs out while `cond`
  still holds.  `whileFuel_mono`: a result reached with some fuel is the result with any
  larger fuel, so a `some` IS the result of the Go loop.
* the conversions of a `uint64` word: `goU32 v` = `uint32(v)`, `goTrunc bits v` =
  `intN(v)` (two's complement reinterpretation of the low `bits` bits, as an `Int`;
  `int(v)` is `goTrunc 64 v`: `int` is ASSUMED 64 bits wide); `int64(x)` of a signed
  value is the value itself.
* `goFormatInt i` = `strconv.FormatInt(i, 10)`, `goFormatUint v` =
  `strconv.FormatUint(v, 10)`, `goHex v` = the `%x` verb of `fmt.Sprintf` on a `uint64`
  (lower-case hexadecimal digits, no prefix, "0" for zero).
* `strings.HasPrefix` = `Bytes.hasPrefix`, `strings.Join(xs, sep)` = `Bytes.join sep xs`
  (PP/Model/Bytes.lean), `goSlice` (Prelude), `goSub` (PreludeRoots).
* `*ast.FuncDecl` is `TN.GoFuncDecl` (PP/Model/TypeNames.lean): `f.Recv` is `f.recv`
  (`none` = nil), `f.Recv.List` its content.
Floats are not represented: the two places that format one are oracles of the generated
`Env` (`formatFloat32`, `formatFloat64`), functions of the bit pattern.
-/
namespace PP.Go
open PP

/-- `for i := range xs { body }`; `i` is the index of the head of `xs` -/
def forIdx {α σ : Type} (body : Nat → α → σ → Option σ) : List α → Nat → σ → Option σ
  | [], _, st => some st
  | x :: xs, i, st =>
    match body i x st with
    | none => none
    | some st' => forIdx body xs (i + 1) st'

@[simp] theorem forIdx_nil {α σ : Type} (body : Nat → α → σ → Option σ) (i : Nat) (st : σ) :
    forIdx body [] i st = some st := rfl

theorem forIdx_cons {α σ : Type} (body : Nat → α → σ → Option σ) (x : α) (xs : List α) (i : Nat) (st : σ) :
    forIdx body (x :: xs) i st =
      match body i x st with
      | none => none
      | some st' => forIdx body xs (i + 1) st' := rfl

/-- `for ; cond; { body }` (post statement inside `body`), at most `fuel` iterations -/
def whileFuel {σ : Type} (cond : σ → Bool) (body : σ → Option σ) : Nat → σ → Option σ
  | 0, st => if cond st then none else some st
  | fuel + 1, st =>
    if cond st then
      match body st with
      | none => none
      | some st' => whileFuel cond body fuel st'
    else some st

theorem whileFuel_zero {σ : Type} (cond : σ → Bool) (body : σ → Option σ) (st : σ) :
    whileFuel cond body 0 st = if cond st then none else some st := rfl

theorem whileFuel_succ {σ : Type} (cond : σ → Bool) (body : σ → Option σ) (fuel : Nat) (st : σ) :
    whileFuel cond body (fuel + 1) st =
      if cond st then
        match body st with
        | none => none
        | some st' => whileFuel cond body fuel st'
      else some st := rfl

/-- more fuel does not change a result that was reached -/
theorem whileFuel_mono {σ : Type} (cond : σ → Bool) (body : σ → Option σ) :
    ∀ (f f' : Nat) (st r : σ), whileFuel cond body f st = some r → f ≤ f' →
      whileFuel cond body f' st = some r
  | 0, 0, _, _, h, _ => h
  | 0, f' + 1, st, r, h, _ => by
    rw [whileFuel_zero] at h
    rw [whileFuel_succ]
    cases hc : cond st with
    | true => simp [hc] at h
    | false => simpa [hc] using h
  | f + 1, 0, _, _, _, hle => by omega
  | f + 1, f' + 1, st, r, h, hle => by
    rw [whileFuel_succ] at h ⊢
    cases hc : cond st with
    | false => simpa [hc] using h
    | true =>
      simp only [hc, if_true] at h ⊢
      cases hb : body st with
      | none => rw [hb] at h; exact h
      | some st' =>
        rw [hb] at h
        exact whileFuel_mono cond body f f' st' r h (by omega)

/-- `uint32(v)` of a `uint64` -/
def goU32 (v : Nat) : Nat := v % 2 ^ 32

/-- `intN(v)` of a `uint64` (`bits` = 8, 16, 32, 64): the low `bits` bits as a two's
complement number -/
def goTrunc (bits : Nat) (v : Nat) : Int :=
  let m := v % 2 ^ bits
  if m < 2 ^ (bits - 1) then (m : Int) else (m : Int) - (2 ^ bits : Nat)

/-- `strconv.FormatInt(i, 10)` -/
def goFormatInt (i : Int) : Bytes :=
  if i < 0 then 45 :: Bytes.natToDec i.natAbs else Bytes.natToDec i.toNat

/-- `strconv.FormatUint(v, 10)` -/
def goFormatUint (v : Nat) : Bytes := Bytes.natToDec v

/-- the verb `%x` of fmt.Sprintf on a `uint64` -/
def goHex (v : Nat) : Bytes := Bytes.natToHex v

end PP.Go
