import PP.Model.Sig
/-
Run-time support for `PP/Translated.lean`, the file `extract/translate.go`
regenerates from /repo's Go source on every run.

The translator turns each Go function of a small imperative subset into a Lean
term of type `Option τ` (`none` = a Go run-time panic: index out of range).
Statements become nested `if`/`match`, `for … range` loops become `forRange`
with an explicit tuple of the loop-carried locals, early `return`s inside loops
become `Step.ret`.  Calls to other translated functions go through an
*environment* (`Env`, generated), so the generated definitions are not
recursive: `PP/Tie/Translated.lean` proves that the hand-written model is a
fixed point of the generated equations.

What the translator assumes about Go, and therefore what is trusted here:
* a Go struct is the Lean structure with the same fields; `stack.Arg` is the
  flat record `ArgS` below and corresponds to the model's `Arg` through
  `ofArg`/`toArg` (an aggregate carries only `Fields`, a scalar only the rest —
  what `parseArgs` produces);
* `&x`, `*p` and pointer receivers are values (the translated functions never
  write through a parameter: pinned separately by the write-set pins);
* `int` is unbounded (`Nat`; the counters and indices here are bounded by slice
  lengths), Go `string` is `Bytes`, `<` on strings is byte-wise (`bytesLt`).
-/
namespace PP.Go

/-- Go's `stack.Arg` struct, field for field. -/
structure ArgS where
  name : Bytes := []
  value : Nat := 0
  isPtr : Bool := false
  isOffsetTooLarge : Bool := false
  isInaccurate : Bool := false
  isAggregate : Bool := false
  fields : Args := {}
  deriving Inhabited

def ofArg : Arg → ArgS
  | .scalar n v p o i => { name := n, value := v, isPtr := p, isOffsetTooLarge := o, isInaccurate := i }
  | .agg fs e => { isAggregate := true, fields := { values := fs, elided := e } }

def ArgS.toArg (a : ArgS) : Arg :=
  if a.isAggregate then .agg a.fields.values a.fields.elided
  else .scalar a.name a.value a.isPtr a.isOffsetTooLarge a.isInaccurate

/-- the zero value of `stack.Arg` (what `make([]Arg, n)` holds) -/
def zeroArg : Arg := ArgS.toArg {}
def zeroCall : Call := {}

@[simp] theorem ofArg_scalar (n : Bytes) (v : Nat) (p o i : Bool) :
    ofArg (.scalar n v p o i) = { name := n, value := v, isPtr := p, isOffsetTooLarge := o, isInaccurate := i } := rfl
@[simp] theorem ofArg_agg (fs : List Arg) (e : Bool) :
    ofArg (.agg fs e) = { isAggregate := true, fields := { values := fs, elided := e } } := rfl
@[simp] theorem ofArg_zeroArg : ofArg zeroArg = {} := rfl
@[simp] theorem toArg_ofArg (a : Arg) : (ofArg a).toArg = a := by
  cases a <;> simp [ofArg, ArgS.toArg]

/-- outcome of one loop iteration / of a whole loop -/
inductive Step (σ ρ : Type) where
  | cont (s : σ)
  | ret (r : ρ)

/-- `for i, x := range xs { body }` with loop-carried state `σ`; `i0` is the
index of the head of `xs`. -/
def forRange {α σ ρ : Type} (body : Nat → α → σ → Option (Step σ ρ)) :
    List α → Nat → σ → Option (Step σ ρ)
  | [], _, st => some (.cont st)
  | x :: xs, i, st =>
    match body i x st with
    | none => none
    | some (.ret r) => some (.ret r)
    | some (.cont st') => forRange body xs (i + 1) st'

@[simp] theorem forRange_nil {α σ ρ : Type} (body : Nat → α → σ → Option (Step σ ρ)) (i : Nat) (st : σ) :
    forRange body [] i st = some (.cont st) := rfl

theorem forRange_cons {α σ ρ : Type} (body : Nat → α → σ → Option (Step σ ρ)) (x : α) (xs : List α)
    (i : Nat) (st : σ) :
    forRange body (x :: xs) i st =
      match body i x st with
      | none => none
      | some (.ret r) => some (.ret r)
      | some (.cont st') => forRange body xs (i + 1) st' := rfl

/-- what follows a loop: propagate a panic or an early `return`, otherwise
continue with the loop-carried state -/
def after {σ ρ : Type} (r : Option (Step σ ρ)) (k : σ → Option ρ) : Option ρ :=
  match r with
  | none => none
  | some (.ret v) => some v
  | some (.cont s) => k s

@[simp] theorem after_none {σ ρ : Type} (k : σ → Option ρ) : after (none : Option (Step σ ρ)) k = none := rfl
@[simp] theorem after_ret {σ ρ : Type} (v : ρ) (k : σ → Option ρ) : after (some (Step.ret v)) k = some v := rfl
@[simp] theorem after_cont {σ ρ : Type} (s : σ) (k : σ → Option ρ) : after (some (Step.cont s : Step σ ρ)) k = k s := rfl

/-- shifting the index origin -/
theorem forRange_shift {α σ ρ : Type} (body : Nat → α → σ → Option (Step σ ρ)) (xs : List α) (i : Nat) (st : σ) :
    forRange body xs (i + 1) st = forRange (fun j => body (j + 1)) xs i st := by
  induction xs generalizing i st with
  | nil => rfl
  | cons x xs ih =>
    simp only [forRange_cons]
    cases body (i + 1) x st with
    | none => rfl
    | some s => cases s with
      | ret r => rfl
      | cont st' => exact ih (i + 1) st'

/-- `s[lo:hi]` on a slice or string; `none` = slice bounds out of range -/
def goSlice {α : Type} (s : List α) (lo hi : Nat) : Option (List α) :=
  if lo ≤ hi ∧ hi ≤ s.length then some ((s.take hi).drop lo) else none

/-- Go `a < b` on strings -/
abbrev strLt (a b : Bytes) : Bool := bytesLt a b

/-- `len(x)` -/
abbrev len {α : Type} (l : List α) : Nat := l.length

/-- `Location` used as an array index -/
abbrev locIdx (l : Loc) : Nat := l.toNat

end PP.Go
