import PP.Go.PreludeRoots
import PP.Model.Scan
/-
Run-time support for `PP/TranslatedScanSM.lean` (group ScanSM: the scanner state
machine `(*scanningState).scan` of stack/context.go with `parseFunc` and
`parseFile`, regenerated from the Go source on every run by
`extract/translate_scansm.go`; its header says what each construct assumes).

What this group adds to `PP/Go/Prelude.lean` / `PreludeRoots.lean`:
* `ptrLast xs`: the pointer `cur` of `scan` (`var cur *Goroutine; if len(X) != 0
  { cur = X[len(X)-1] }`) as an index into `X`.  An index out of range stands for
  the nil pointer: every dereference is `X[i]?`, `none` (a panic) exactly when
  Go dereferences nil.  Valid while `X` itself is not assigned (the translator
  checks that the alias is dead after such an assignment).
* `subm m k`: `m[k]` on the result of `re.FindSubmatch` (`none` on nil: Go panics).
* `re…Submatch b` = `re….FindSubmatch(b)`: `none` = nil (no match), otherwise the
  whole match followed by the groups.  They are DEFINED FROM the model's hand
  matchers (`PP/Model/Re.lean`), which yield the groups only: index 0 is a
  placeholder and the translator refuses code that reads it, a computed index, or
  an index above the number of groups.
* errors are the model's `Err` tags (`error` = `Option Err`).

Trusted model functions the translated code calls (not translated here):
* the hand matchers `matchHeader`, `matchMinutes`, `matchUnavail`, `matchFile`,
  `matchCreated`, `matchFunc`, `matchRaceOp`, `matchRacePrev`, `matchRaceGoroutine`
  (one per regular expression of context.go; compared with Go's engine by the
  correspondence stream S1);
* `funcInitZ` = `(*Func).Init` ON A ZERO RECEIVER (the model's `funcInit`): the
  receiver afterwards and the error.  On an error Go leaves a zero receiver zero
  (`f.Complete` is assigned `""`), hence `{}`.  The translator checks the receiver
  is zero at every call.  (`funcInit` reports an out-of-range slice expression inside
  Func.Init — a Go panic — as `FErr.slice`; `funcInit_ne_slice`,
  PP/Lemmas/FuncInitLemmas.lean, shows it never does, so no panic is hidden here);
* `Call.init` = `(*Call).init` (translated and tied in group Scan: `TrS.tie_Call_init`);
* `goParseArgs` = `parseArgs` (the model's `PP.parseArgs`; every error return of the
  Go function returns `Args{}`);
* `goAtou` = `atou` (tied in group Scan: `TrS.tie_atou`; `(0, false)` on failure as in Go);
* `PP.trimLeftSpace`, `PP.isFramesElidedLine` (tied in group Scan);
* `parseUint0` = `strconv.ParseUint(s, 0, 64)` (`none` = any error);
* `Bytes.splitOn` = `bytes.Split` for a non-empty separator; `Bytes.hasPrefix`,
  `Bytes.hasSuffix`, `==` on bytes = `bytes.HasPrefix`, `bytes.HasSuffix`, `bytes.Equal`.
-/
namespace PP.Go
open PP Bytes

/-- the index of the pointee of `cur`; `xs.length` (out of range) = nil -/
def ptrLast {α : Type} (xs : List α) : Nat := if xs.length != 0 then xs.length - 1 else xs.length

/-- `m[k]` on the result of `FindSubmatch` -/
def subm (m : Option (List Bytes)) (k : Nat) : Option Bytes := m.bind (·[k]?)

@[simp] theorem subm_none (k : Nat) : subm none k = none := rfl
@[simp] theorem subm_some (l : List Bytes) (k : Nat) : subm (some l) k = l[k]? := rfl

def reRoutineHeaderSubmatch (b : Bytes) : Option (List Bytes) :=
  (matchHeader b).map fun m => [[], m.indent, m.id, m.status]
def reMinutesSubmatch (b : Bytes) : Option (List Bytes) := (matchMinutes b).map fun d => [[], d]
def reFileSubmatch (b : Bytes) : Option (List Bytes) := (matchFile b).map fun m => [[], m.path, m.line]
def reCreatedSubmatch (b : Bytes) : Option (List Bytes) := (matchCreated b).map fun n => [[], n]
def reFuncSubmatch (b : Bytes) : Option (List Bytes) := (matchFunc b).map fun m => [[], m.1, m.2]
def reRaceOperationHeaderSubmatch (b : Bytes) : Option (List Bytes) :=
  (matchRaceOp b).map fun m => [[], m.1, m.2.1, m.2.2]
def reRacePreviousOperationHeaderSubmatch (b : Bytes) : Option (List Bytes) :=
  (matchRacePrev b).map fun m => [[], m.1, m.2.1, m.2.2]
def reRaceGoroutineSubmatch (b : Bytes) : Option (List Bytes) :=
  (matchRaceGoroutine b).map fun m => [[], m.1, m.2]

/-- `atou` -/
def goAtou (b : Bytes) : Nat × Bool :=
  match atou b with
  | some n => (n, true)
  | none => (0, false)

/-- `(*Func).Init` on a zero receiver: (the receiver afterwards, the error) -/
def funcInitZ (raw : Bytes) : Func × Option Err :=
  match funcInit raw with
  | .ok f => (f, none)
  | .error e => ({}, some (Err.ofFErr e))

/-- `parseArgs` -/
def goParseArgs (b : Bytes) : Args × Option Err :=
  match PP.parseArgs b with
  | .ok a => (a, none)
  | .error e => ({}, some (Err.ofArgErr e))

end PP.Go
