import PP.Extracted
/- Pins for the reader theorems: they hold for every positive capacity and retry bound. -/
namespace PP.Tie
theorem pin_bufSize_pos : 0 < PP.Extracted.readerBufSize := by decide
theorem pin_retry_pos : 0 < PP.Extracted.readerRetry := by decide
end PP.Tie
