import PP.TranslatedScan
import PP.Model.Re
import PP.Lemmas.PrintLemmas
import PP.Lemmas.RootsLemmas
/-
Tie A, translated part 2: byte-level helpers of the scanner (`atou`,
`trimLeftSpace`, `isFramesElidedLine`) and of path rebasing (`hasPrefix`,
`hasSrcPrefix`, `isRootedIn`), translated from stack/context.go on every run
(`PP/TranslatedScan.lean`) and proved equal to the hand-written model functions
the theorems of C01 / C07 / C18 are about.  `os.Stat` (isFile) is an oracle of
the environment; the equations hold for every oracle.  Go's range over the map
in `hasPrefix` / `hasSrcPrefix` is an existence test, so the association list the
model uses gives the same result in any order (the theorem is stated for every list).
-/
namespace PP.TrS
open PP PP.Go

def modelEnv (fs : FS) : Env where
  isFile := fs.isFile
  isFramesElidedLine line := some (PP.isFramesElidedLine line)
  trimLeftSpace s := some (PP.trimLeftSpace s)
  atou s := some (match PP.atou s with | some n => (n, true) | none => (0, false))
  hasPrefix p s := some (mapHasPrefix p s)
  hasSrcPrefix p s := some (PP.hasSrcPrefix p s)
  isRootedIn root parts := some (PP.isRootedIn fs root parts)
  Call_updateLocations c goroot lg gomods gopaths := some (c.updateLocations goroot lg gomods gopaths)
  Stack_updateLocations s goroot lg gomods gopaths := some (s.updateLocations goroot lg gomods gopaths)
  Signature_updateLocations s goroot lg gomods gopaths := some (s.updateLocations goroot lg gomods gopaths)
  Call_init c srcPath line := some (c.init srcPath line, ())

variable (fs : FS)

@[simp] theorem mE_isFile (p : Bytes) : (modelEnv fs).isFile p = fs.isFile p := rfl


@[simp] theorem mE_isFramesElidedLine (l : Bytes) :
    (modelEnv fs).isFramesElidedLine l = some (PP.isFramesElidedLine l) := rfl
@[simp] theorem mE_trimLeftSpace (l : Bytes) : (modelEnv fs).trimLeftSpace l = some (PP.trimLeftSpace l) := rfl
@[simp] theorem mE_atou (l : Bytes) :
    (modelEnv fs).atou l = some (match PP.atou l with | some n => (n, true) | none => (0, false)) := rfl
@[simp] theorem mE_hasPrefix (p : Bytes) (m : AMap) : (modelEnv fs).hasPrefix p m = some (mapHasPrefix p m) := rfl
@[simp] theorem mE_hasSrcPrefix (p : Bytes) (m : AMap) : (modelEnv fs).hasSrcPrefix p m = some (PP.hasSrcPrefix p m) := rfl
@[simp] theorem mE_isRootedIn (root : Bytes) (parts : List Bytes) :
    (modelEnv fs).isRootedIn root parts = some (PP.isRootedIn fs root parts) := rfl

theorem tie_isFramesElidedLine (l : Bytes) :
    TrS.isFramesElidedLine (modelEnv fs) l = (modelEnv fs).isFramesElidedLine l := by
  simp [TrS.isFramesElidedLine, PP.isFramesElidedLine]

theorem goSlice_from {α : Type} (s : List α) (i : Nat) (h : i ≤ s.length) :
    goSlice s i (len s) = some (s.drop i) := by
  simp [goSlice, len, h]

theorem goSlice_to {α : Type} (s : List α) (i : Nat) (h : i ≤ s.length) :
    goSlice s 0 i = some (s.take i) := by
  simp [goSlice, h]

theorem drop_cons_of {α : Type} {s : List α} {k : Nat} {x : α} {xs : List α} (hs : s.drop k = x :: xs) :
    k < s.length ∧ s[k]? = some x ∧ s.drop (k + 1) = xs := by
  have hk : k < s.length := by
    by_cases hh : k < s.length
    · exact hh
    · rw [List.drop_eq_nil_of_le (by omega)] at hs; cases hs
  rw [List.drop_eq_getElem_cons hk] at hs
  exact ⟨hk, by rw [List.getElem?_eq_getElem hk, (List.cons.inj hs).1], (List.cons.inj hs).2⟩

theorem dropWhile_of_all {α : Type} (p : α → Bool) : ∀ (xs : List α), xs.all p = true → xs.dropWhile p = []
  | [], _ => rfl
  | x :: xs, h => by
    simp only [List.all_cons, Bool.and_eq_true] at h
    simp [List.dropWhile_cons, h.1, dropWhile_of_all p xs h.2]

theorem loop_trimLeftSpace (s : Bytes) :
    ∀ (xs : Bytes) (k : Nat), s.drop k = xs →
    forRange (trimLeftSpace_loop1 (modelEnv fs) s) xs k () =
    if xs.all isBlank then some (Step.cont ()) else some (Step.ret (xs.dropWhile isBlank))
  | [], _, _ => by simp
  | x :: xs, k, hs => by
    obtain ⟨hk, _, hd⟩ := drop_cons_of hs
    have ih := loop_trimLeftSpace s xs (k + 1) hd
    rw [forRange_cons]
    simp only [trimLeftSpace_loop1, List.all_cons, List.dropWhile_cons]
    by_cases hb : isBlank x = true
    · have : ((x != 9) && (x != 32)) = false := by
        simp only [isBlank, Bool.or_eq_true, beq_iff_eq] at hb
        rcases hb with h | h <;> simp [h]
      simp only [this, Bool.false_eq_true, if_false, hb, Bool.true_and, if_true]
      exact ih
    · have : ((x != 9) && (x != 32)) = true := by
        simp only [isBlank, Bool.or_eq_true, beq_iff_eq, not_or] at hb
        simp [hb.1, hb.2]
      simp only [this, if_true, goSlice_from s k (by omega), Option.bind_some, hs, hb, Bool.false_and,
        Bool.false_eq_true, if_false]

theorem tie_trimLeftSpace (s : Bytes) : TrS.trimLeftSpace (modelEnv fs) s = (modelEnv fs).trimLeftSpace s := by
  simp only [TrS.trimLeftSpace, mE_trimLeftSpace, PP.trimLeftSpace]
  rw [loop_trimLeftSpace fs s s 0 rfl]
  by_cases h : s.all isBlank = true
  · simp only [h, if_true, after_cont, Option.some.injEq]
    exact (dropWhile_of_all _ _ h).symm
  · simp [h]

/-- Go's digit test on a byte: `ch -= '0'; ch > 9` -/
theorem byte_digit (c : UInt8) : decide (c - 48 > 9) = !Bytes.isDigit c := by
  cases c with | ofBitVec b =>
  revert b
  decide

theorem byte_digit_val (c : UInt8) (h : Bytes.isDigit c = true) : (c - 48).toNat = c.toNat - 48 := by
  cases c with | ofBitVec b =>
  revert h
  revert b
  decide

theorem loop_atou (s : Bytes) (l : Nat) :
    ∀ (xs : Bytes) (k n : Nat),
    forRange (atou_loop1 (modelEnv fs) s l) xs k n =
    if xs.all Bytes.isDigit then some (Step.cont (xs.foldl (fun n c => n * 10 + (c.toNat - 48)) n))
    else some (Step.ret (0, false))
  | [], _, _ => by simp
  | x :: xs, k, n => by
    rw [forRange_cons]
    simp only [atou_loop1, byte_digit, List.all_cons, List.foldl_cons]
    by_cases hd : Bytes.isDigit x = true
    · simp only [hd, Bool.not_true, Bool.false_eq_true, if_false, Bool.true_and, byte_digit_val x hd]
      exact loop_atou s l xs (k + 1) _
    · simp [hd]

theorem tie_atou (s : Bytes) : TrS.atou (modelEnv fs) s = (modelEnv fs).atou s := by
  simp only [TrS.atou, mE_atou, PP.atou, loop_atou, len, digitsVal, Bool.false_and, Bool.false_or, Bool.true_and]
  by_cases h1 : (decide (0 < s.length) && decide (s.length < 19)) = true
  · by_cases h2 : s.all Bytes.isDigit = true
    · simp [h1, h2]
    · simp [h1, h2]
  · have : (decide (0 < s.length) && decide (s.length < 19) && s.all Bytes.isDigit) = false := by
      simp only [Bool.not_eq_true] at h1; simp [h1]
    simp [h1, this]

theorem goSlice_mid {α : Type} (s : List α) (l n : Nat) (h : l + n ≤ s.length) :
    goSlice s l (l + n) = some ((s.drop l).take n) := by
  simp only [goSlice, Nat.le_add_right, h, and_self, if_true, Option.some.injEq]
  rw [List.drop_take]; simp

theorem head?_drop {α : Type} (s : List α) (l : Nat) : (s.drop l).head? = s[l]? := by
  simp [List.head?_drop]

theorem loop_hasPrefix (p : Bytes) (m : AMap) :
    ∀ (ks : List Bytes) (k : Nat),
    forRange (hasPrefix_loop1 (modelEnv fs) p m (len p)) ks k () =
    if ks.any (fun key => decide (p.length > key.length + 1) && p.take key.length == key &&
        p[key.length]? == some 47) then some (Step.ret true) else some (Step.cont ())
  | [], _ => by simp
  | x :: ks, k => by
    rw [forRange_cons]
    simp only [hasPrefix_loop1, len, List.any_cons]
    by_cases h1 : p.length > x.length + 1
    · have hl : x.length ≤ p.length := by omega
      simp only [h1, decide_true, if_true, goSlice_to p x.length hl, Option.bind_some, Bool.true_and]
      by_cases h2 : (p.take x.length == x) = true
      · have hx : x.length < p.length := by omega
        simp only [h2, if_true, List.getElem?_eq_getElem hx, Option.bind_some, Bool.true_and]
        by_cases h3 : (p[x.length] == 47) = true
        · have : (some p[x.length] == some (47 : UInt8)) = true := by simpa using h3
          simp [h3, this]
        · have : (some p[x.length] == some (47 : UInt8)) = false := by simpa using h3
          simp only [h3, this, Bool.false_eq_true, if_false, Bool.false_or]
          exact loop_hasPrefix p m ks (k + 1)
      · simp only [h2, Bool.false_eq_true, if_false, Option.bind_some, Bool.false_and, Bool.false_or]
        exact loop_hasPrefix p m ks (k + 1)
    · simp only [h1, decide_false, Bool.false_eq_true, if_false, Option.bind_some, Bool.false_and, Bool.false_or]
      exact loop_hasPrefix p m ks (k + 1)

theorem tie_hasPrefix (p : Bytes) (m : AMap) : TrS.hasPrefix (modelEnv fs) p m = (modelEnv fs).hasPrefix p m := by
  simp only [TrS.hasPrefix, mE_hasPrefix, mapHasPrefix, loop_hasPrefix, List.any_map, head?_drop]
  have e : (m.any ((fun key => decide (p.length > key.length + 1) && p.take key.length == key &&
        p[key.length]? == some 47) ∘ Prod.fst)) =
      (m.any fun kv => decide (p.length > kv.1.length + 1) && p.take kv.1.length == kv.1 && p[kv.1.length]? == some 47) := rfl
  rw [e]
  cases (m.any fun kv => decide (p.length > kv.1.length + 1) && p.take kv.1.length == kv.1 && p[kv.1.length]? == some 47) <;> simp

/-- one disjunct of `hasSrcPrefix`'s loop body -/
theorem srcPrefix_branch (p x sep : Bytes) :
    ((if decide (p.length > x.length + sep.length) then (goSlice p 0 x.length).bind fun t3 => some (t3 == x)
      else some false).bind fun t2 =>
      if t2 then (goSlice p x.length (x.length + sep.length)).bind fun t4 => some (t4 == sep) else some false) =
    some (decide (p.length > x.length + sep.length) && p.take x.length == x &&
      (p.drop x.length).take sep.length == sep) := by
  by_cases h1 : p.length > x.length + sep.length
  · have hl : x.length ≤ p.length := by omega
    simp only [h1, decide_true, if_true, goSlice_to p x.length hl, Option.bind_some, Bool.true_and]
    by_cases h2 : (p.take x.length == x) = true
    · simp [h2, goSlice_mid p x.length sep.length (by omega)]
    · simp [h2]
  · simp [h1]

theorem loop_hasSrcPrefix (p : Bytes) (m : AMap) :
    ∀ (ks : List Bytes) (k : Nat),
    forRange (hasSrcPrefix_loop1 (modelEnv fs) p m (len p)) ks k () =
    if ks.any (fun key =>
        (decide (p.length > key.length + srcSep.length) && p.take key.length == key &&
          (p.drop key.length).take srcSep.length == srcSep) ||
        (decide (p.length > key.length + pkgmodSep.length) && p.take key.length == key &&
          (p.drop key.length).take pkgmodSep.length == pkgmodSep))
    then some (Step.ret true) else some (Step.cont ())
  | [], _ => by simp
  | x :: ks, k => by
    have e5 : (5 : Nat) = srcSep.length := rfl
    have e9 : (9 : Nat) = pkgmodSep.length := rfl
    have s5 : ([47, 115, 114, 99, 47] : List UInt8) = srcSep := rfl
    have s9 : ([47, 112, 107, 103, 47, 109, 111, 100, 47] : List UInt8) = pkgmodSep := rfl
    rw [forRange_cons]
    simp only [hasSrcPrefix_loop1, len, List.any_cons, e5, e9, s5, s9, srcPrefix_branch, Option.bind_some]
    by_cases h1 : (decide (p.length > x.length + srcSep.length) && p.take x.length == x &&
          (p.drop x.length).take srcSep.length == srcSep) = true
    · simp [h1]
    · by_cases h2 : (decide (p.length > x.length + pkgmodSep.length) && p.take x.length == x &&
          (p.drop x.length).take pkgmodSep.length == pkgmodSep) = true
      · simp [h1, h2]
      · simp only [h1, h2, Bool.false_eq_true, if_false, Bool.or_self, Bool.false_or]
        exact loop_hasSrcPrefix p m ks (k + 1)

theorem tie_hasSrcPrefix (p : Bytes) (m : AMap) :
    TrS.hasSrcPrefix (modelEnv fs) p m = (modelEnv fs).hasSrcPrefix p m := by
  simp only [TrS.hasSrcPrefix, mE_hasSrcPrefix, PP.hasSrcPrefix, loop_hasSrcPrefix, List.any_map]
  have e : (m.any ((fun key =>
        (decide (p.length > key.length + srcSep.length) && p.take key.length == key &&
          (p.drop key.length).take srcSep.length == srcSep) ||
        (decide (p.length > key.length + pkgmodSep.length) && p.take key.length == key &&
          (p.drop key.length).take pkgmodSep.length == pkgmodSep)) ∘ Prod.fst)) =
      (m.any fun kv =>
        (decide (p.length > kv.1.length + srcSep.length) && p.take kv.1.length == kv.1 &&
          (p.drop kv.1.length).take srcSep.length == srcSep) ||
        (decide (p.length > kv.1.length + pkgmodSep.length) && p.take kv.1.length == kv.1 &&
          (p.drop kv.1.length).take pkgmodSep.length == pkgmodSep)) := rfl
  rw [e]
  cases (m.any fun kv =>
        (decide (p.length > kv.1.length + srcSep.length) && p.take kv.1.length == kv.1 &&
          (p.drop kv.1.length).take srcSep.length == srcSep) ||
        (decide (p.length > kv.1.length + pkgmodSep.length) && p.take kv.1.length == kv.1 &&
          (p.drop kv.1.length).take pkgmodSep.length == pkgmodSep)) <;> simp

theorem loop_isRootedIn (root : Bytes) (parts : List Bytes) :
    ∀ (is : List Nat) (k : Nat), (∀ i ∈ is, i ≤ parts.length) →
    forRange (isRootedIn_loop1 (modelEnv fs) root parts) is k () =
    match is.find? (fun i => fs.isFile (pathJoin [root, pathJoin (parts.drop i)])) with
    | some i => some (Step.ret (pathJoin (parts.take i)))
    | none => some (Step.cont ())
  | [], _, _ => by simp
  | i :: is, k, h => by
    have hi : i ≤ parts.length := h i (by simp)
    rw [forRange_cons]
    simp only [isRootedIn_loop1, goSlice_from parts i hi, goSlice_to parts i hi, Option.bind_some, mE_isFile,
      List.find?_cons]
    by_cases hf : fs.isFile (pathJoin [root, pathJoin (parts.drop i)]) = true
    · simp [hf]
    · simp only [hf, Bool.false_eq_true, if_false]
      exact loop_isRootedIn root parts is (k + 1) (fun j hj => h j (by simp [hj]))

theorem tie_isRootedIn (root : Bytes) (parts : List Bytes) :
    TrS.isRootedIn (modelEnv fs) root parts = (modelEnv fs).isRootedIn root parts := by
  simp only [TrS.isRootedIn, mE_isRootedIn, PP.isRootedIn, len]
  rw [loop_isRootedIn fs root parts _ 0 (by
    intro i hi
    simp only [List.mem_range'_1] at hi
    omega)]
  cases (List.range' 1 (parts.length - 1)).find? (fun i => fs.isFile (pathJoin [root, pathJoin (parts.drop i)])) <;> simp

#print axioms PP.TrS.tie_isFramesElidedLine
#print axioms PP.TrS.tie_trimLeftSpace
#print axioms PP.TrS.tie_atou
#print axioms PP.TrS.tie_hasPrefix
#print axioms PP.TrS.tie_hasSrcPrefix
#print axioms PP.TrS.tie_isRootedIn

/-! ### (*Call).updateLocations (stack.go) -/

theorem hasPrefix_len {s p : Bytes} (h : Bytes.hasPrefix s p = true) : p.length ≤ s.length := by
  obtain ⟨t, e⟩ := PP.hasPrefix_iff.mp h
  rw [e]; simp

/-- the block every successful branch runs, once the relative path is known -/
theorem branch_tail (c : Call) (rel loc_path : Bytes) (l : Loc) :
    ((match Bytes.lastIndexByte ({ c with relSrcPath := rel, localSrcPath := loc_path } : Call).relSrcPath 47 with
      | some i =>
        (goSlice ({ c with relSrcPath := rel, localSrcPath := loc_path } : Call).relSrcPath 0 i).bind fun t =>
        some ({ ({ c with relSrcPath := rel, localSrcPath := loc_path } : Call) with importPath := t } : Call)
      | none => some ({ c with relSrcPath := rel, localSrcPath := loc_path } : Call)).bind fun c1 =>
      (if (c1.location == Loc.unknown) then some ({ c1 with location := l } : Call) else some c1)) =
    some ({ c with relSrcPath := rel, localSrcPath := loc_path, importPath := importOfRel rel c.importPath,
                   location := setLoc c l } : Call) := by
  simp only [importOfRel, setLoc]
  cases hl : Bytes.lastIndexByte rel 47 with
  | none => by_cases hu : c.location = Loc.unknown <;> simp [hl, hu]
  | some i =>
    have hi := (PP.lastIndexByte_eq_some hl).2.2
    by_cases hu : c.location = Loc.unknown <;>
      simp [hl, hu, goSlice_to rel i (Nat.le_of_lt hi)]

theorem gomod_tail (c : Call) (rel pkg : Bytes) :
    ((match Bytes.lastIndexByte ({ c with relSrcPath := rel, localSrcPath := c.remoteSrcPath } : Call).relSrcPath 47 with
      | some i =>
        (goSlice ({ c with relSrcPath := rel, localSrcPath := c.remoteSrcPath } : Call).relSrcPath 0 i).bind fun t =>
        some ({ ({ c with relSrcPath := rel, localSrcPath := c.remoteSrcPath } : Call) with
                importPath := ((pkg ++ ([47] : List UInt8)) ++ t) } : Call)
      | none => some ({ ({ c with relSrcPath := rel, localSrcPath := c.remoteSrcPath } : Call) with importPath := pkg } : Call)).bind
      fun c1 => (if (c1.location == Loc.unknown) then some ({ c1 with location := Loc.goMod } : Call) else some c1)) =
    some ({ c with relSrcPath := rel, localSrcPath := c.remoteSrcPath, importPath := gomodImport pkg rel,
                   location := setLoc c .goMod } : Call) := by
  simp only [gomodImport, setLoc]
  cases hl : Bytes.lastIndexByte rel 47 with
  | none => by_cases hu : c.location = Loc.unknown <;> simp [hl, hu]
  | some i =>
    have hi := (PP.lastIndexByte_eq_some hl).2.2
    by_cases hu : c.location = Loc.unknown <;>
      simp [hl, hu, goSlice_to rel i (Nat.le_of_lt hi)]

theorem loop_upd3 (c : Call) (goroot lg : Bytes) (gomods gopaths : AMap) :
    ∀ (ks : List Bytes) (k : Nat),
    forRange (Call_updateLocations_loop3 (modelEnv fs) c goroot lg gomods gopaths) ks k c =
    match c.gopathLoop gopaths ks with
    | some c' => some (Step.ret (c', true))
    | none => some (Step.cont c)
  | [], _ => by simp [Call.gopathLoop]
  | x :: ks, k => by
    have s5 : ([47, 115, 114, 99, 47] : List UInt8) = srcSep := rfl
    have s9 : ([47, 112, 107, 103, 47, 109, 111, 100, 47] : List UInt8) = pkgmodSep := rfl
    have e3 : ([115, 114, 99] : List UInt8) = b!"src" := rfl
    have e7 : ([112, 107, 103, 47, 109, 111, 100] : List UInt8) = b!"pkg/mod" := rfl
    rw [forRange_cons]
    simp only [Call_updateLocations_loop3, Call.gopathLoop, Call.tryGopath, s5, s9, e3, e7, len]
    by_cases h1 : Bytes.hasPrefix c.remoteSrcPath (x ++ srcSep) = true
    · simp only [h1, if_true, goSlice_from _ _ (hasPrefix_len h1), Option.bind_some]
      generalize hrel : List.drop (x ++ srcSep).length c.remoteSrcPath = rel
      cases hl : Bytes.lastIndexByte rel 47 with
      | none => by_cases hu : c.location = Loc.unknown <;> simp [hl, hu, importOfRel, gomodImport, setLoc]
      | some i =>
        have hi := (PP.lastIndexByte_eq_some hl).2.2
        by_cases hu : c.location = Loc.unknown <;>
          simp [hl, hu, importOfRel, gomodImport, setLoc, goSlice_to rel i (Nat.le_of_lt hi)]
    · simp only [h1, Bool.false_eq_true, if_false]
      by_cases h2 : Bytes.hasPrefix c.remoteSrcPath (x ++ pkgmodSep) = true
      · simp only [h2, if_true, goSlice_from _ _ (hasPrefix_len h2), Option.bind_some]
        generalize hrel : List.drop (x ++ pkgmodSep).length c.remoteSrcPath = rel
        cases hl : Bytes.lastIndexByte rel 47 with
        | none => by_cases hu : c.location = Loc.unknown <;> simp [hl, hu, importOfRel, gomodImport, setLoc]
        | some i =>
          have hi := (PP.lastIndexByte_eq_some hl).2.2
          by_cases hu : c.location = Loc.unknown <;>
            simp [hl, hu, importOfRel, gomodImport, setLoc, goSlice_to rel i (Nat.le_of_lt hi)]
      · simp only [h2, Bool.false_eq_true, if_false]
        exact loop_upd3 c goroot lg gomods gopaths  ks (k + 1)

theorem loop_upd1 (c : Call) (goroot lg : Bytes) (gomods gopaths : AMap) (pf : Bytes) :
    ∀ (ks : List Bytes) (k : Nat),
    forRange (Call_updateLocations_loop1 (modelEnv fs) c goroot lg gomods gopaths pf) ks k c =
    match c.gopathLoop gopaths ks with
    | some c' => some (Step.ret (c', true))
    | none => some (Step.cont c)
  | [], _ => by simp [Call.gopathLoop]
  | x :: ks, k => by
    have s5 : ([47, 115, 114, 99, 47] : List UInt8) = srcSep := rfl
    have s9 : ([47, 112, 107, 103, 47, 109, 111, 100, 47] : List UInt8) = pkgmodSep := rfl
    have e3 : ([115, 114, 99] : List UInt8) = b!"src" := rfl
    have e7 : ([112, 107, 103, 47, 109, 111, 100] : List UInt8) = b!"pkg/mod" := rfl
    rw [forRange_cons]
    simp only [Call_updateLocations_loop1, Call.gopathLoop, Call.tryGopath, s5, s9, e3, e7, len]
    by_cases h1 : Bytes.hasPrefix c.remoteSrcPath (x ++ srcSep) = true
    · simp only [h1, if_true, goSlice_from _ _ (hasPrefix_len h1), Option.bind_some]
      generalize hrel : List.drop (x ++ srcSep).length c.remoteSrcPath = rel
      cases hl : Bytes.lastIndexByte rel 47 with
      | none => by_cases hu : c.location = Loc.unknown <;> simp [hl, hu, importOfRel, gomodImport, setLoc]
      | some i =>
        have hi := (PP.lastIndexByte_eq_some hl).2.2
        by_cases hu : c.location = Loc.unknown <;>
          simp [hl, hu, importOfRel, gomodImport, setLoc, goSlice_to rel i (Nat.le_of_lt hi)]
    · simp only [h1, Bool.false_eq_true, if_false]
      by_cases h2 : Bytes.hasPrefix c.remoteSrcPath (x ++ pkgmodSep) = true
      · simp only [h2, if_true, goSlice_from _ _ (hasPrefix_len h2), Option.bind_some]
        generalize hrel : List.drop (x ++ pkgmodSep).length c.remoteSrcPath = rel
        cases hl : Bytes.lastIndexByte rel 47 with
        | none => by_cases hu : c.location = Loc.unknown <;> simp [hl, hu, importOfRel, gomodImport, setLoc]
        | some i =>
          have hi := (PP.lastIndexByte_eq_some hl).2.2
          by_cases hu : c.location = Loc.unknown <;>
            simp [hl, hu, importOfRel, gomodImport, setLoc, goSlice_to rel i (Nat.le_of_lt hi)]
      · simp only [h2, Bool.false_eq_true, if_false]
        exact loop_upd1 c goroot lg gomods gopaths pf ks (k + 1)

theorem loop_upd4 (c : Call) (goroot lg : Bytes) (gomods gopaths : AMap) :
    ∀ (ks : List Bytes) (k : Nat),
    forRange (Call_updateLocations_loop4 (modelEnv fs) c goroot lg gomods gopaths) ks k c =
    match c.gomodLoop gomods ks with
    | some c' => some (Step.ret (c', true))
    | none => some (Step.cont c)
  | [], _ => by simp [Call.gomodLoop]
  | x :: ks, k => by
    have e1 : ([47] : List UInt8) = b!"/" := rfl
    rw [forRange_cons]
    simp only [Call_updateLocations_loop4, Call.gomodLoop, Call.tryGomod, e1, len]
    by_cases h1 : Bytes.hasPrefix c.remoteSrcPath (x ++ b!"/") = true
    · have hl : x.length + 1 ≤ c.remoteSrcPath.length := by have := hasPrefix_len h1; simpa using this
      simp only [h1, if_true, goSlice_from _ _ hl, Option.bind_some]
      generalize hrel : List.drop (x.length + 1) c.remoteSrcPath = rel
      cases hl : Bytes.lastIndexByte rel 47 with
      | none => by_cases hu : c.location = Loc.unknown <;> simp [hl, hu, importOfRel, gomodImport, setLoc]
      | some i =>
        have hi := (PP.lastIndexByte_eq_some hl).2.2
        by_cases hu : c.location = Loc.unknown <;>
          simp [hl, hu, importOfRel, gomodImport, setLoc, goSlice_to rel i (Nat.le_of_lt hi)]
    · simp only [h1, Bool.false_eq_true, if_false]
      exact loop_upd4 c goroot lg gomods gopaths  ks (k + 1)

theorem loop_upd2 (c : Call) (goroot lg : Bytes) (gomods gopaths : AMap) (pf : Bytes) :
    ∀ (ks : List Bytes) (k : Nat),
    forRange (Call_updateLocations_loop2 (modelEnv fs) c goroot lg gomods gopaths pf) ks k c =
    match c.gomodLoop gomods ks with
    | some c' => some (Step.ret (c', true))
    | none => some (Step.cont c)
  | [], _ => by simp [Call.gomodLoop]
  | x :: ks, k => by
    have e1 : ([47] : List UInt8) = b!"/" := rfl
    rw [forRange_cons]
    simp only [Call_updateLocations_loop2, Call.gomodLoop, Call.tryGomod, e1, len]
    by_cases h1 : Bytes.hasPrefix c.remoteSrcPath (x ++ b!"/") = true
    · have hl : x.length + 1 ≤ c.remoteSrcPath.length := by have := hasPrefix_len h1; simpa using this
      simp only [h1, if_true, goSlice_from _ _ hl, Option.bind_some]
      generalize hrel : List.drop (x.length + 1) c.remoteSrcPath = rel
      cases hl : Bytes.lastIndexByte rel 47 with
      | none => by_cases hu : c.location = Loc.unknown <;> simp [hl, hu, importOfRel, gomodImport, setLoc]
      | some i =>
        have hi := (PP.lastIndexByte_eq_some hl).2.2
        by_cases hu : c.location = Loc.unknown <;>
          simp [hl, hu, importOfRel, gomodImport, setLoc, goSlice_to rel i (Nat.le_of_lt hi)]
    · simp only [h1, Bool.false_eq_true, if_false]
      exact loop_upd2 c goroot lg gomods gopaths pf ks (k + 1)

theorem tie_Call_updateLocations (c : Call) (goroot lg : Bytes) (gomods gopaths : AMap) :
    Call_updateLocations (modelEnv fs) c goroot lg gomods gopaths =
      (modelEnv fs).Call_updateLocations c goroot lg gomods gopaths := by
  have s5 : ([47, 115, 114, 99, 47] : List UInt8) = srcSep := rfl
  have e3 : ([115, 114, 99] : List UInt8) = b!"src" := rfl
  have hm : (modelEnv fs).Call_updateLocations c goroot lg gomods gopaths =
      some (c.updateLocations goroot lg gomods gopaths) := rfl
  rw [hm]
  simp only [Call_updateLocations, Call.updateLocations, Call.updateLocations?, Call.tryGoroot, s5, e3, len]
  by_cases h0 : (c.remoteSrcPath == ([] : List UInt8)) = true
  · simp [h0]
  · simp only [h0, Bool.false_eq_true, if_false]
    by_cases hg : (goroot != ([] : List UInt8)) = true
    · simp only [hg, if_true, Bool.true_and]
      by_cases h1 : Bytes.hasPrefix c.remoteSrcPath (goroot ++ srcSep) = true
      · simp only [h1, if_true, goSlice_from _ _ (hasPrefix_len h1), Option.bind_some]
        generalize hrel : List.drop (goroot ++ srcSep).length c.remoteSrcPath = rel
        cases hl : Bytes.lastIndexByte rel 47 with
        | none => by_cases hu : c.location = Loc.unknown <;> simp [hl, hu, importOfRel, gomodImport, setLoc]
        | some i =>
          have hi := (PP.lastIndexByte_eq_some hl).2.2
          by_cases hu : c.location = Loc.unknown <;>
            simp [hl, hu, importOfRel, gomodImport, setLoc, goSlice_to rel i (Nat.le_of_lt hi)]
      · simp only [h1, Bool.false_eq_true, if_false, loop_upd1, loop_upd2]
        cases hp : c.gopathLoop gopaths (sortedByLen gopaths) with
        | some c' => simp
        | none =>
          simp only [after_cont]
          cases hq : c.gomodLoop gomods (sortedByLen gomods) <;> simp
    · simp only [hg, Bool.false_eq_true, if_false, Bool.false_and, loop_upd3, loop_upd4]
      cases hp : c.gopathLoop gopaths (sortedByLen gopaths) with
      | some c' => simp
      | none =>
        simp only [after_cont]
        cases hq : c.gomodLoop gomods (sortedByLen gomods) <;> simp

/-! ### (*Stack).updateLocations, (*Signature).updateLocations -/

theorem getElem?_append_cons_self {α : Type} (done rest : List α) (v : α) :
    (done ++ v :: rest)[done.length]? = some v := by simp

theorem set_append_cons_self {α : Type} (done rest : List α) (v w : α) :
    (done ++ v :: rest).set done.length w = done ++ w :: rest := by simp

theorem loop_Stack_upd (s0 : Stack) (goroot lg : Bytes) (gomods gopaths : AMap) (e : Bool) :
    ∀ (xs : List Call) (pre : List Call) (r : Bool) (ys : List Call),
    forRange (Stack_updateLocations_loop1 (modelEnv fs) s0 goroot lg gomods gopaths) ys pre.length
      (({ calls := pre ++ xs, elided := e } : Stack), r) =
    if ys.length = xs.length then
      some (Step.cont (({ calls := pre ++ xs.map (fun c => (c.updateLocations goroot lg gomods gopaths).1), elided := e } : Stack),
        (xs.map (fun c => (c.updateLocations goroot lg gomods gopaths).2)).all id && r))
    else forRange (Stack_updateLocations_loop1 (modelEnv fs) s0 goroot lg gomods gopaths) ys pre.length
      (({ calls := pre ++ xs, elided := e } : Stack), r)
  | [], pre, r, [] => by simp
  | [], pre, r, _ :: _ => by simp
  | x :: xs, pre, r, [] => by simp
  | x :: xs, pre, r, y :: ys => by
    have hm : (modelEnv fs).Call_updateLocations x goroot lg gomods gopaths =
        some (x.updateLocations goroot lg gomods gopaths) := rfl
    by_cases hl : ys.length = xs.length
    · have ih := loop_Stack_upd s0 goroot lg gomods gopaths e xs (pre ++ [(x.updateLocations goroot lg gomods gopaths).1])
        ((x.updateLocations goroot lg gomods gopaths).2 && r) ys
      simp only [hl, if_true, List.length_append, List.length_cons, List.length_nil, List.append_assoc,
        List.singleton_append] at ih
      rw [forRange_cons]
      simp only [Stack_updateLocations_loop1, getElem?_append_cons_self, Option.bind_some, hm, set_append_cons_self,
        List.length_cons, hl, if_true, ih, List.map_cons, List.all_cons, id]
      congr 3
      cases (x.updateLocations goroot lg gomods gopaths).2 <;> cases r <;> simp
    · simp [hl]

theorem tie_Stack_updateLocations (s : Stack) (goroot lg : Bytes) (gomods gopaths : AMap) :
    Stack_updateLocations (modelEnv fs) s goroot lg gomods gopaths =
      (modelEnv fs).Stack_updateLocations s goroot lg gomods gopaths := by
  have hm : (modelEnv fs).Stack_updateLocations s goroot lg gomods gopaths =
      some (s.updateLocations goroot lg gomods gopaths) := rfl
  rw [hm]
  have := loop_Stack_upd fs s goroot lg gomods gopaths s.elided s.calls [] true s.calls
  simp only [List.length_nil, List.nil_append, if_true] at this
  have hs : ({ calls := s.calls, elided := s.elided } : Stack) = s := rfl
  rw [hs] at this
  simp only [Stack_updateLocations, this, after_cont, Stack.updateLocations, List.map_map, Bool.and_true,
    Option.some.injEq, Prod.mk.injEq]
  constructor
  · rfl
  · simp [List.all_map, Function.comp_def]

theorem tie_Signature_updateLocations (s : Signature) (goroot lg : Bytes) (gomods gopaths : AMap) :
    Signature_updateLocations (modelEnv fs) s goroot lg gomods gopaths =
      (modelEnv fs).Signature_updateLocations s goroot lg gomods gopaths := by
  have h1 : ∀ st : Stack, (modelEnv fs).Stack_updateLocations st goroot lg gomods gopaths =
      some (st.updateLocations goroot lg gomods gopaths) := fun _ => rfl
  have hm : (modelEnv fs).Signature_updateLocations s goroot lg gomods gopaths =
      some (s.updateLocations goroot lg gomods gopaths) := rfl
  rw [hm]
  simp only [Signature_updateLocations, h1, Option.bind_some, Signature.updateLocations]

end PP.TrS

#print axioms PP.TrS.tie_Stack_updateLocations
#print axioms PP.TrS.tie_Signature_updateLocations

#print axioms PP.TrS.tie_Call_updateLocations

/-! ### `Call.init` (stack.go): the file name, the last directory and the
`_test/_testmain.go` special case of a frame's position line -/
namespace PP.TrS
open PP PP.Go
variable (fs : FS)

theorem tie_Call_init (c : Call) (srcPath : Bytes) (line : Nat) :
    TrS.Call_init (modelEnv fs) c srcPath line = (modelEnv fs).Call_init c srcPath line := by
  show _ = some (c.init srcPath line, ())
  unfold TrS.Call_init Call.init
  by_cases hs : srcPath = []
  · simp [hs]
  · simp only [bne_iff_ne, ne_eq, hs, not_false_eq_true, ↓reduceIte]
    cases h1 : Bytes.lastIndexByte srcPath 47 with
    | none =>
      simp only [h1, Option.bind_some, Option.bind_eq_bind]
      split <;> simp_all [testMainSrc]
    | some i =>
      have hi := (lastIndexByte_eq_some h1).2.2
      simp only [h1, goSlice_from srcPath (i + 1) (by omega), goSlice_to srcPath i (by omega),
        Option.bind_some, Option.bind_eq_bind]
      cases h2 : Bytes.lastIndexByte (List.take i srcPath) 47 with
      | none =>
        simp only [Option.bind_some]
        split <;> simp_all [testMainSrc]
      | some j =>
        have hj := (lastIndexByte_eq_some h2).2.2
        simp only [List.length_take] at hj
        simp only [goSlice_from srcPath (j + 1) (by omega), Option.bind_some]
        split <;> simp_all [testMainSrc]

end PP.TrS

#print axioms PP.TrS.tie_Call_init
