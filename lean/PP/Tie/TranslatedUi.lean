import PP.TranslatedUi
/-
Tie A, translated part 4: the console renderer.  `pathFormat.formatCall`,
`pathFormat.createdByString`, `calcBucketsLengths`, `calcGoroutinesLengths`,
`(*Palette).funcColor`, `functionColor`, `routineColor`, `BucketHeader`,
`GoroutineHeader`, `callLine`, `StackLines` of internal/ui.go and
`(*Signature).SleepString`, `(*Arg).String`, `(*Args).String` of stack/stack.go,
translated from the Go source on every run (`PP/TranslatedUi.lean`) and proved equal
to the hand-written model functions the theorems of C16 are about
(`PP/Model/Console.lean`), for every palette, path format and input.

No translated function of this group can panic: every equation is `some (model …)`.
The verbs of package fmt (`%-*s`, `%d`, `%x`, `%08x`) and `strings.Join` are the
model's own `fmtPadRight`, `natToDec`, `fmtHex`, `fmtHex08`, `join` (trusted, see
`PP/Go/PreludeUi.lean`).
-/
namespace PP.TrU
open PP PP.Go

def modelEnv : Env where
  Signature_SleepString s := some (Console.sleepString s)
  Arg_String a := some (Console.argString a)
  Args_String a := some (Console.argsString a)
  pathFormat_formatCall pf c := some (Console.formatCall pf c)
  pathFormat_createdByString pf s := some (Console.createdByString pf s)
  calcBucketsLengths a pf := some (Console.calcBucketsLengths a.buckets pf)
  calcGoroutinesLengths s pf := some (Console.calcGoroutinesLengths s.goroutines pf)
  Palette_funcColor p l main exported := some (Console.funcColor p l main exported)
  Palette_functionColor p c := some (Console.functionColor p c)
  Palette_routineColor p first multiple := some (Console.routineColor p first multiple)
  Palette_BucketHeader p b pf multiple := some (Console.bucketHeader p b pf multiple)
  Palette_GoroutineHeader p g pf multiple := some (Console.goroutineHeader p g pf multiple)
  Palette_callLine p line srcLen pkgLen pf := some (Console.callLine p line srcLen pkgLen pf)
  Palette_StackLines p sig srcLen pkgLen pf := some (Console.stackLines p sig srcLen pkgLen pf)

@[simp] theorem mE_Signature_SleepString (s : Signature) :
    modelEnv.Signature_SleepString s = some (Console.sleepString s) := rfl
@[simp] theorem mE_Arg_String (a : Arg) : modelEnv.Arg_String a = some (Console.argString a) := rfl
@[simp] theorem mE_Args_String (a : Args) : modelEnv.Args_String a = some (Console.argsString a) := rfl
@[simp] theorem mE_pathFormat_formatCall (pf : Console.PathFormat) (c : Call) :
    modelEnv.pathFormat_formatCall pf c = some (Console.formatCall pf c) := rfl
@[simp] theorem mE_pathFormat_createdByString (pf : Console.PathFormat) (s : Signature) :
    modelEnv.pathFormat_createdByString pf s = some (Console.createdByString pf s) := rfl
@[simp] theorem mE_calcBucketsLengths (a : Aggregated) (pf : Console.PathFormat) :
    modelEnv.calcBucketsLengths a pf = some (Console.calcBucketsLengths a.buckets pf) := rfl
@[simp] theorem mE_calcGoroutinesLengths (s : Snapshot) (pf : Console.PathFormat) :
    modelEnv.calcGoroutinesLengths s pf = some (Console.calcGoroutinesLengths s.goroutines pf) := rfl
@[simp] theorem mE_Palette_funcColor (p : Console.Palette) (l : Loc) (main exported : Bool) :
    modelEnv.Palette_funcColor p l main exported = some (Console.funcColor p l main exported) := rfl
@[simp] theorem mE_Palette_functionColor (p : Console.Palette) (c : Call) :
    modelEnv.Palette_functionColor p c = some (Console.functionColor p c) := rfl
@[simp] theorem mE_Palette_routineColor (p : Console.Palette) (first multiple : Bool) :
    modelEnv.Palette_routineColor p first multiple = some (Console.routineColor p first multiple) := rfl
@[simp] theorem mE_Palette_BucketHeader (p : Console.Palette) (b : Bucket) (pf : Console.PathFormat) (m : Bool) :
    modelEnv.Palette_BucketHeader p b pf m = some (Console.bucketHeader p b pf m) := rfl
@[simp] theorem mE_Palette_GoroutineHeader (p : Console.Palette) (g : Goroutine) (pf : Console.PathFormat) (m : Bool) :
    modelEnv.Palette_GoroutineHeader p g pf m = some (Console.goroutineHeader p g pf m) := rfl
@[simp] theorem mE_Palette_callLine (p : Console.Palette) (line : Call) (srcLen pkgLen : Nat) (pf : Console.PathFormat) :
    modelEnv.Palette_callLine p line srcLen pkgLen pf = some (Console.callLine p line srcLen pkgLen pf) := rfl
@[simp] theorem mE_Palette_StackLines (p : Console.Palette) (sig : Signature) (srcLen pkgLen : Nat)
    (pf : Console.PathFormat) :
    modelEnv.Palette_StackLines p sig srcLen pkgLen pf = some (Console.stackLines p sig srcLen pkgLen pf) := rfl

/-! ### stack.go: SleepString, Arg.String, Args.String -/

theorem tie_Signature_SleepString (s : Signature) :
    TrU.Signature_SleepString modelEnv s = modelEnv.Signature_SleepString s := by
  simp only [TrU.Signature_SleepString, mE_Signature_SleepString, Console.sleepString, Console.fmtDec]
  by_cases h1 : s.sleepMax = 0
  · simp [h1]
  · by_cases h2 : s.sleepMin = s.sleepMax
    · simp [h1, h2]
    · simp [h1, h2]

/-- `zeroToNine[v : v+1]` for `v < 10` (the addition is uint64's) -/
theorem digit_slice (v : Nat) (h : v < 10) :
    goSlice ([48, 49, 50, 51, 52, 53, 54, 55, 56, 57] : List UInt8) v ((v + 1) % 18446744073709551616) =
      some [(48 + v).toUInt8] := by
  have hv : v = 0 ∨ v = 1 ∨ v = 2 ∨ v = 3 ∨ v = 4 ∨ v = 5 ∨ v = 6 ∨ v = 7 ∨ v = 8 ∨ v = 9 := by omega
  rcases hv with h | h | h | h | h | h | h | h | h | h <;> subst h <;> rfl

/-- `Args.String` of the `Fields` of an aggregate (no `Processed`) -/
theorem argsString_fields (fs : List Arg) (el : Bool) :
    Console.argsString { values := fs, elided := el } =
      Bytes.join ([44, 32] : List UInt8) (Console.argStrings fs ++ (if el then [([46, 46, 46] : List UInt8)] else [])) := by
  cases el <;> simp [Console.argsString]

theorem tie_Arg_String (a : Arg) : TrU.Arg_String modelEnv a = modelEnv.Arg_String a := by
  cases a with
  | scalar name v isPtr otl inacc =>
    simp only [TrU.Arg_String, mE_Arg_String, ofArg_scalar, Console.argString]
    by_cases hn : name = []
    · by_cases ho : otl = true
      · simp [hn, ho]
      · by_cases hv : v < 10
        · simp [hn, ho, hv, digit_slice v hv]
        · simp [hn, ho, hv]
    · simp [hn]
  | agg fs el =>
    simp only [TrU.Arg_String, mE_Arg_String, mE_Args_String, ofArg_agg, Console.argString, argsString_fields]
    simp

theorem loop_Args_String (a : Args) :
    ∀ (xs : List Arg) (k : Nat) (v : List Bytes),
    forRange (Args_String_loop1 modelEnv a) xs k v = some (Step.cont (v ++ Console.argStrings xs))
  | [], _, v => by simp [Console.argStrings]
  | x :: xs, k, v => by
    rw [forRange_cons]
    simp only [Args_String_loop1, mE_Arg_String, Option.bind_some, Console.argStrings]
    rw [loop_Args_String a xs (k + 1) (v ++ [Console.argString x])]
    simp

theorem tie_Args_String (a : Args) : TrU.Args_String modelEnv a = modelEnv.Args_String a := by
  simp only [TrU.Args_String, mE_Args_String, Console.argsString, loop_Args_String, len, after_cont,
    List.nil_append]
  by_cases hp : a.processed.length = 0
  · cases he : a.elided <;> simp [hp]
  · cases he : a.elided <;> simp [hp]

/-! ### ui.go: formatCall, createdByString -/

theorem tie_pathFormat_formatCall (pf : Console.PathFormat) (c : Call) :
    TrU.pathFormat_formatCall modelEnv pf c = modelEnv.pathFormat_formatCall pf c := by
  simp only [TrU.pathFormat_formatCall, mE_pathFormat_formatCall, Console.formatCall, Console.pathLine,
    Console.fmtDec]
  cases pf
  · by_cases h2 : c.localSrcPath = [] <;> simp [h2]
  · by_cases h1 : c.relSrcPath = []
    · by_cases h2 : c.localSrcPath = [] <;> simp [h1, h2]
    · simp [h1]
  · simp

theorem tie_pathFormat_createdByString (pf : Console.PathFormat) (s : Signature) :
    TrU.pathFormat_createdByString modelEnv pf s = modelEnv.pathFormat_createdByString pf s := by
  simp only [TrU.pathFormat_createdByString, mE_pathFormat_createdByString, mE_pathFormat_formatCall,
    Console.createdByString, len]
  cases h : s.createdBy.calls with
  | nil => simp
  | cons c rest => simp

/-! ### ui.go: calcBucketsLengths, calcGoroutinesLengths (a loop inside a loop) -/

theorem getElem?_of_drop {α : Type} {s : List α} {k : Nat} {x : α} {xs : List α} (hs : s.drop k = x :: xs) :
    s[k]? = some x ∧ s.drop (k + 1) = xs := by
  have hk : k < s.length := by
    by_cases hh : k < s.length
    · exact hh
    · rw [List.drop_eq_nil_of_le (by omega)] at hs; cases hs
  rw [List.drop_eq_getElem_cons hk] at hs
  exact ⟨by rw [List.getElem?_eq_getElem hk, (List.cons.inj hs).1], (List.cons.inj hs).2⟩

/-- one step of the model's inner fold -/
theorem calcCallsLengths_cons (pf : Console.PathFormat) (acc : Nat × Nat) (c : Call) (cs : List Call) :
    Console.calcCallsLengths pf acc (c :: cs) =
      Console.calcCallsLengths pf
        (if (Console.formatCall pf c).length > acc.1 then (Console.formatCall pf c).length else acc.1,
         if c.fn.dirName.length > acc.2 then c.fn.dirName.length else acc.2) cs := by
  simp [Console.calcCallsLengths]

theorem loop_calcB2 (a : Aggregated) (pf : Console.PathFormat) (j : Nat) (e : Bucket) :
    ∀ (xs : List Call) (k : Nat) (st : Nat × Nat), e.sig.stack.calls.drop k = xs →
    forRange (calcBucketsLengths_loop2 modelEnv a pf j e) xs k st =
      some (Step.cont (Console.calcCallsLengths pf st xs))
  | [], _, st, _ => by simp [Console.calcCallsLengths]
  | x :: xs, k, st, hs => by
    obtain ⟨hx, hd⟩ := getElem?_of_drop hs
    rw [forRange_cons]
    simp only [calcBucketsLengths_loop2, hx, Option.bind_some, mE_pathFormat_formatCall, len]
    rw [loop_calcB2 a pf j e xs (k + 1) _ hd, calcCallsLengths_cons]
    simp

theorem loop_calcB1 (a : Aggregated) (pf : Console.PathFormat) :
    ∀ (bs : List Bucket) (k : Nat) (st : Nat × Nat),
    forRange (calcBucketsLengths_loop1 modelEnv a pf) bs k st =
      some (Step.cont (bs.foldl (fun acc b => Console.calcCallsLengths pf acc b.sig.stack.calls) st))
  | [], _, st => by simp
  | b :: bs, k, st => by
    rw [forRange_cons]
    simp only [calcBucketsLengths_loop1, loop_calcB2 a pf k b b.sig.stack.calls 0 _ rfl, afterIn_cont,
      List.foldl_cons]
    exact loop_calcB1 a pf bs (k + 1) _

theorem tie_calcBucketsLengths (a : Aggregated) (pf : Console.PathFormat) :
    TrU.calcBucketsLengths modelEnv a pf = modelEnv.calcBucketsLengths a pf := by
  simp only [TrU.calcBucketsLengths, mE_calcBucketsLengths, loop_calcB1, after_cont, Console.calcBucketsLengths,
    Console.calcLengths, List.foldl_map]

theorem loop_calcG2 (s : Snapshot) (pf : Console.PathFormat) (j : Nat) (e : Goroutine) :
    ∀ (xs : List Call) (k : Nat) (st : Nat × Nat), e.sig.stack.calls.drop k = xs →
    forRange (calcGoroutinesLengths_loop2 modelEnv s pf j e) xs k st =
      some (Step.cont (Console.calcCallsLengths pf st xs))
  | [], _, st, _ => by simp [Console.calcCallsLengths]
  | x :: xs, k, st, hs => by
    obtain ⟨hx, hd⟩ := getElem?_of_drop hs
    rw [forRange_cons]
    simp only [calcGoroutinesLengths_loop2, hx, Option.bind_some, mE_pathFormat_formatCall, len]
    rw [loop_calcG2 s pf j e xs (k + 1) _ hd, calcCallsLengths_cons]
    simp

theorem loop_calcG1 (s : Snapshot) (pf : Console.PathFormat) :
    ∀ (gs : List Goroutine) (k : Nat) (st : Nat × Nat),
    forRange (calcGoroutinesLengths_loop1 modelEnv s pf) gs k st =
      some (Step.cont (gs.foldl (fun acc g => Console.calcCallsLengths pf acc g.sig.stack.calls) st))
  | [], _, st => by simp
  | g :: gs, k, st => by
    rw [forRange_cons]
    simp only [calcGoroutinesLengths_loop1, loop_calcG2 s pf k g g.sig.stack.calls 0 _ rfl, afterIn_cont,
      List.foldl_cons]
    exact loop_calcG1 s pf gs (k + 1) _

theorem tie_calcGoroutinesLengths (s : Snapshot) (pf : Console.PathFormat) :
    TrU.calcGoroutinesLengths modelEnv s pf = modelEnv.calcGoroutinesLengths s pf := by
  simp only [TrU.calcGoroutinesLengths, mE_calcGoroutinesLengths, loop_calcG1, after_cont,
    Console.calcGoroutinesLengths, Console.calcLengths, List.foldl_map]

/-! ### ui.go: the colours -/

theorem tie_Palette_funcColor (p : Console.Palette) (l : Loc) (main exported : Bool) :
    TrU.Palette_funcColor modelEnv p l main exported = modelEnv.Palette_funcColor p l main exported := by
  simp only [TrU.Palette_funcColor, mE_Palette_funcColor, Console.funcColor]
  cases main <;> cases exported <;> cases l <;> rfl

theorem tie_Palette_functionColor (p : Console.Palette) (c : Call) :
    TrU.Palette_functionColor modelEnv p c = modelEnv.Palette_functionColor p c := by
  simp only [TrU.Palette_functionColor, mE_Palette_funcColor, mE_Palette_functionColor, Option.bind_some,
    Console.functionColor]

theorem tie_Palette_routineColor (p : Console.Palette) (first multiple : Bool) :
    TrU.Palette_routineColor modelEnv p first multiple = modelEnv.Palette_routineColor p first multiple := by
  simp only [TrU.Palette_routineColor, mE_Palette_routineColor, Console.routineColor]
  cases first <;> cases multiple <;> rfl

/-! ### ui.go: the headers -/

/-- the three `if`s that build `extra`, shared by the two headers -/
theorem extra_eq (p : Console.Palette) (s : Signature) (pf : Console.PathFormat) (k : Bytes → Option Bytes) :
    ((if (Console.sleepString s != ([] : List UInt8)) then
        some (([] : List UInt8) ++ ((([32, 91] : List UInt8) ++ Console.sleepString s) ++ ([93] : List UInt8)))
      else some ([] : List UInt8)).bind fun extra =>
      (if s.locked then some (extra ++ ([32, 91, 108, 111, 99, 107, 101, 100, 93] : List UInt8))
        else some extra).bind fun extra =>
      (if (Console.createdByString pf s != ([] : List UInt8)) then
          some (extra ++ (((p.createdBy ++ ([32, 91, 67, 114, 101, 97, 116, 101, 100, 32, 98, 121, 32] : List UInt8)) ++
            Console.createdByString pf s) ++ ([93] : List UInt8)))
        else some extra).bind k) = k (Console.headerExtra p s pf) := by
  simp only [Console.headerExtra]
  by_cases h1 : Console.sleepString s = [] <;> by_cases h2 : s.locked = true <;>
    by_cases h3 : Console.createdByString pf s = [] <;> simp [h1, h2, h3]

theorem tie_Palette_BucketHeader (p : Console.Palette) (b : Bucket) (pf : Console.PathFormat) (multiple : Bool) :
    TrU.Palette_BucketHeader modelEnv p b pf multiple = modelEnv.Palette_BucketHeader p b pf multiple := by
  simp only [TrU.Palette_BucketHeader, mE_Palette_BucketHeader, mE_Signature_SleepString,
    mE_pathFormat_createdByString, mE_Palette_routineColor, Option.bind_some]
  rw [extra_eq p b.sig pf]
  simp [Console.bucketHeader, Console.fmtDec, len]

theorem tie_Palette_GoroutineHeader (p : Console.Palette) (g : Goroutine) (pf : Console.PathFormat) (multiple : Bool) :
    TrU.Palette_GoroutineHeader modelEnv p g pf multiple = modelEnv.Palette_GoroutineHeader p g pf multiple := by
  simp only [TrU.Palette_GoroutineHeader, mE_Palette_GoroutineHeader, mE_Signature_SleepString,
    mE_pathFormat_createdByString, mE_Palette_routineColor, Option.bind_some]
  rw [extra_eq p g.sig pf]
  by_cases hr : g.raceAddr = 0
  · simp [Console.goroutineHeader, Console.fmtDec, hr]
  · cases hw : g.raceWrite <;> simp [Console.goroutineHeader, Console.fmtDec, hr, hw]

/-! ### ui.go: callLine, StackLines -/

theorem tie_Palette_callLine (p : Console.Palette) (line : Call) (srcLen pkgLen : Nat) (pf : Console.PathFormat) :
    TrU.Palette_callLine modelEnv p line srcLen pkgLen pf = modelEnv.Palette_callLine p line srcLen pkgLen pf := by
  simp only [TrU.Palette_callLine, mE_Palette_callLine, mE_pathFormat_formatCall, mE_Palette_functionColor,
    mE_Args_String, Option.bind_some, Console.callLine]

theorem getElem?_append_replicate {α : Type} (pre : List α) (z : α) (n : Nat) :
    (pre ++ List.replicate (n + 1) z)[pre.length]? = some z := by
  simp [List.replicate_succ]

theorem set_append_replicate {α : Type} (pre : List α) (z w : α) (n : Nat) :
    (pre ++ List.replicate (n + 1) z).set pre.length w = (pre ++ [w]) ++ List.replicate n z := by
  simp [List.replicate_succ]

/-- the loop of StackLines fills `out` from the left: after `pre.length` iterations the
first `pre.length` slots hold the call lines and the others are still empty -/
theorem loop_StackLines (p : Console.Palette) (sig : Signature) (srcLen pkgLen : Nat) (pf : Console.PathFormat) :
    ∀ (xs : List Call) (pre : List Bytes), sig.stack.calls.drop pre.length = xs →
    forRange (Palette_StackLines_loop1 modelEnv p sig srcLen pkgLen pf) xs pre.length
      (pre ++ List.replicate xs.length ([] : Bytes)) =
      some (Step.cont (pre ++ xs.map (fun c => Console.callLine p c srcLen pkgLen pf)))
  | [], pre, _ => by simp
  | x :: xs, pre, hs => by
    obtain ⟨hx, hd⟩ := getElem?_of_drop hs
    have ih := loop_StackLines p sig srcLen pkgLen pf xs (pre ++ [Console.callLine p x srcLen pkgLen pf])
      (by simpa using hd)
    rw [forRange_cons]
    simp only [Palette_StackLines_loop1, hx, Option.bind_some, mE_Palette_callLine, List.length_cons,
      getElem?_append_replicate, set_append_replicate]
    simp only [List.length_append, List.length_cons, List.length_nil, Nat.zero_add] at ih
    rw [ih]
    simp

theorem tie_Palette_StackLines (p : Console.Palette) (sig : Signature) (srcLen pkgLen : Nat) (pf : Console.PathFormat) :
    TrU.Palette_StackLines modelEnv p sig srcLen pkgLen pf = modelEnv.Palette_StackLines p sig srcLen pkgLen pf := by
  have h := loop_StackLines p sig srcLen pkgLen pf sig.stack.calls [] rfl
  simp only [List.length_nil, List.nil_append] at h
  simp only [TrU.Palette_StackLines, mE_Palette_StackLines, len, h, after_cont, Console.stackLines,
    Console.stackLineList, Console.elidedLine]

end PP.TrU

#print axioms PP.TrU.tie_Signature_SleepString
#print axioms PP.TrU.tie_Arg_String
#print axioms PP.TrU.tie_Args_String
#print axioms PP.TrU.tie_pathFormat_formatCall
#print axioms PP.TrU.tie_pathFormat_createdByString
#print axioms PP.TrU.tie_calcBucketsLengths
#print axioms PP.TrU.tie_calcGoroutinesLengths
#print axioms PP.TrU.tie_Palette_funcColor
#print axioms PP.TrU.tie_Palette_functionColor
#print axioms PP.TrU.tie_Palette_routineColor
#print axioms PP.TrU.tie_Palette_BucketHeader
#print axioms PP.TrU.tie_Palette_GoroutineHeader
#print axioms PP.TrU.tie_Palette_callLine
#print axioms PP.TrU.tie_Palette_StackLines
