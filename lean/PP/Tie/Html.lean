import PP.Extracted
import PP.Model.Html
import PP.Model.HtmlDoc
/-
Pins of the HTML template (stack/goroutines.tpl as compiled into indexHTML)
against the model of PP/Model/Html.lean.  The facts are produced by parsing the
template with html/template itself and reading back the escaper functions it
appended to every hole.  Any edit of the template that changes a hole, its
context, a literal around the holes, or a switch to text/template (no escapers
at all) breaks one of these by name.
-/
namespace PP.Tie
open PP PP.Html PP.Extracted

/-- stack/html.go renders with html/template (contextual auto-escaping), not text/template. -/
theorem pin_html_template_package : htmlTemplateImports = ["html/template"] := by decide

/-- the functions reachable from the template are the five builders of html.go -/
theorem pin_html_funcmap :
    htmlFuncMap = ["funcClass=funcClass", "minus=minus", "pkgURL=pkgURL", "srcURL=srcURL", "symbol=symbol"] := by decide

theorem pin_template_names : templateNames = ["Join", "RenderArgs", "RenderCalls", "RenderCreatedBy", "t"] := by decide

def esc_text : List String := ["_html_template_htmlescaper"]
def esc_href : List String := ["_html_template_urlfilter", "_html_template_urlnormalizer", "_html_template_attrescaper"]
def esc_cls : List String := ["_html_template_attrescaper"]
def esc_dataurl : List String := ["_html_template_urlnormalizer", "_html_template_attrescaper"]

/-- Every hole of the template with the exact escaper pipeline html/template gave it. -/
theorem pin_template_holes : templateHoles = [
  ("Join", "$e", esc_text),
  ("RenderArgs", "$e", esc_text),
  ("RenderArgs", "$e.String", esc_text),
  ("RenderCalls", "$i", esc_text),
  ("RenderCalls", "pkgURL $e", esc_href),
  ("RenderCalls", "$e.Func.DirName", esc_text),
  ("RenderCalls", "$e.RemoteSrcPath", esc_text),
  ("RenderCalls", "$e.LocalSrcPath", esc_text),
  ("RenderCalls", "$e.RemoteSrcPath", esc_text),
  ("RenderCalls", "$e.Func.Complete", esc_text),
  ("RenderCalls", "$e.Location", esc_text),
  ("RenderCalls", "srcURL $e", esc_href),
  ("RenderCalls", "$e.SrcName", esc_text),
  ("RenderCalls", "$e.Line", esc_text),
  ("RenderCalls", "funcClass $e", esc_cls),
  ("RenderCalls", "pkgURL $e", esc_href),
  ("RenderCalls", "$e.Func.Name", esc_text),
  ("RenderCreatedBy", ".RemoteSrcPath", esc_text),
  ("RenderCreatedBy", ".LocalSrcPath", esc_text),
  ("RenderCreatedBy", ".RemoteSrcPath", esc_text),
  ("RenderCreatedBy", ".Func.Complete", esc_text),
  ("RenderCreatedBy", ".Location", esc_text),
  ("RenderCreatedBy", "srcURL .", esc_href),
  ("RenderCreatedBy", ".SrcName", esc_text),
  ("RenderCreatedBy", ".Line", esc_text),
  ("RenderCreatedBy", "funcClass .", esc_cls),
  ("RenderCreatedBy", "pkgURL .", esc_href),
  ("RenderCreatedBy", ".Func.DirName", esc_text),
  ("RenderCreatedBy", ".Func.Name", esc_text),
  ("t", ".Favicon", esc_dataurl),
  ("t", "$i", esc_text),
  ("t", "$l", esc_text),
  ("t", "$e.State", esc_text),
  ("t", "$e.SleepMin", esc_text),
  ("t", "$e.SleepMax", esc_text),
  ("t", "$e.SleepMax", esc_text),
  ("t", "$e.ID", esc_text),
  ("t", "$e.State", esc_text),
  ("t", "$e.SleepMin", esc_text),
  ("t", "$e.SleepMax", esc_text),
  ("t", "$e.SleepMax", esc_text),
  ("t", "printf \"0x%08X\" $e.RaceAddr", esc_text),
  ("t", ".Now.String", esc_text),
  ("t", ".Version", esc_text),
  ("t", ".Snapshot.RemoteGOROOT", esc_text),
  ("t", ".Snapshot.LocalGOROOT", esc_text),
  ("t", ".Snapshot.RemoteGOROOT", esc_text),
  ("t", "$path", esc_text),
  ("t", "$import", esc_text),
  ("t", ".GOMAXPROCS", esc_text),
  ("t", ".Footer", esc_text)] := by decide

/-- The model's hole kind for an extracted hole: which `renderHole` applies. -/
def holeKindOf (h : String × String × List String) : Option HoleKind :=
  let p := h.2.1
  if p ∈ ["srcURL $e", "srcURL .", "pkgURL $e", "pkgURL ."] then
    (if h.2.2 = esc_href then some .href else none)
  else if p ∈ ["funcClass $e", "funcClass ."] then
    (if h.2.2 = esc_cls then some .cls else none)
  else if h.2.2 = esc_text then some .text
  else none

/-- Every hole except the favicon data URL (not dump text) is rendered by one of
the three pipelines modelled by `Html.renderHole`; URL builders only ever sit in
`href` holes, `funcClass` only in attribute holes, everything else in text holes. -/
theorem pin_holes_classified :
    (templateHoles.filter fun h => (holeKindOf h).isNone) = [("t", ".Favicon", esc_dataurl)] := by decide

/-- no hole sits in a script, style, comment, URL-start or unquoted-attribute
context: the only escapers in use are these four -/
theorem pin_escapers_used :
    (templateHoles.flatMap (·.2.2)).eraseDups =
      ["_html_template_htmlescaper", "_html_template_urlfilter", "_html_template_urlnormalizer",
       "_html_template_attrescaper"] := by decide

def textsOf (t : String) : List (Nat × Bytes) :=
  (templateTexts.filter fun x => x.1 == t).map fun x => (x.2.1, x.2.2)

theorem pin_texts_RenderArgs :
    (textsOf "RenderArgs").map (·.2) = [Lit.a0, Lit.a1, Lit.a2, Lit.a3, Lit.a4] := by decide

theorem pin_texts_RenderCalls :
    (textsOf "RenderCalls").map (·.2) =
      [Lit.c0, Lit.c1, Lit.c2, Lit.c3, Lit.c4, Lit.c5, Lit.c6, Lit.c7, Lit.c8, Lit.c9, Lit.c10, Lit.c11, Lit.c12,
       Lit.c13, Lit.c14, Lit.c15, Lit.c16, Lit.c17, Lit.c18, Lit.c19] := by decide

theorem pin_texts_RenderCreatedBy :
    (textsOf "RenderCreatedBy").map (·.2) =
      [Lit.r0, Lit.r1, Lit.r2, Lit.r3, Lit.r4, Lit.r5, Lit.r6, Lit.r7, Lit.r8, Lit.r9, Lit.r10, Lit.r11, Lit.r12,
       Lit.r13] := by decide

/-- the tooltip texts of RenderCreatedBy and RenderCalls coincide (the model shares `srcPathPieces`) -/
theorem pin_tooltip_texts_shared :
    [Lit.r1, Lit.r2, Lit.r3, Lit.r4, Lit.r5] = [Lit.c5, Lit.c6, Lit.c7, Lit.c8, Lit.c9] := by decide

/-- text nodes 5..19 of the main template: one iteration of `range .Aggregated.Buckets` -/
theorem pin_texts_bucket :
    ((textsOf "t").filter fun x => 5 ≤ x.1 && x.1 ≤ 19) =
      [(5, Lit.h1Bucket), (6, Lit.b6), (7, Lit.b7), (8, Lit.b8), (9, Lit.stateOpen), (10, Lit.stateClose),
       (11, Lit.sleepOpen), (12, Lit.sleepTilde), (13, Lit.sleepClose), (14, Lit.sleepOpen), (15, Lit.sleepClose),
       (16, Lit.h1Close), (17, Lit.locked), (18, Lit.createdOpen), (19, Lit.createdClose)] := by decide

/-- text nodes 20..36 of the main template: one iteration of `range .Snapshot.Goroutines` -/
theorem pin_texts_goroutine :
    ((textsOf "t").filter fun x => 20 ≤ x.1 && x.1 ≤ 36) =
      [(20, Lit.h1Goroutine), (21, Lit.stateOpen), (22, Lit.stateClose),
       (23, Lit.sleepOpen), (24, Lit.sleepTilde), (25, Lit.sleepClose), (26, Lit.sleepOpen), (27, Lit.sleepClose),
       (28, Lit.h1Close), (29, Lit.locked), (30, Lit.raceOpen), (31, Lit.raceWrite), (32, Lit.raceRead),
       (33, Lit.raceAt), (34, Lit.raceClose), (35, Lit.createdOpen), (36, Lit.createdClose)] := by decide

/-- the long text nodes (style sheet, legend) are static: only their position is pinned -/
theorem pin_long_texts : (templateLongTexts.map fun x => (x.1, x.2.1)) = [("t", 1), ("t", 3), ("t", 4), ("t", 53)] := by decide

def skeletonOf (t : String) : List (Nat × String) :=
  (templateSkeleton.filter fun x => x.1 == t).map fun x => (x.2.1, x.2.2)

theorem pin_skeleton_RenderArgs : skeletonOf "RenderArgs" = [
  (0, "TEXT 0"), (0, "SET $elided := .Elided"), (0, "IF .Processed"),
  (1, "SET $l := len .Processed"), (1, "SET $last := minus $l 1"), (1, "RANGE $i, $e := .Processed"),
  (2, "HOLE $e"), (2, "SET $isNotLast := ne $i $last"), (2, "IF or $elided $isNotLast"), (3, "TEXT 1"),
  (0, "ELSE"),
  (1, "SET $l := len .Values"), (1, "SET $last := minus $l 1"), (1, "RANGE $i, $e := .Values"),
  (2, "HOLE $e.String"), (2, "SET $isNotLast := ne $i $last"), (2, "IF or $elided $isNotLast"), (3, "TEXT 2"),
  (0, "IF $elided"), (1, "TEXT 3"), (0, "TEXT 4")] := by decide

theorem pin_skeleton_RenderCalls : skeletonOf "RenderCalls" = [
  (0, "TEXT 0"), (0, "RANGE $i, $e := .Calls"),
  (1, "TEXT 1"), (1, "HOLE $i"), (1, "TEXT 2"), (1, "HOLE pkgURL $e"), (1, "TEXT 3"), (1, "HOLE $e.Func.DirName"),
  (1, "TEXT 4"), (1, "IF and $e.LocalSrcPath (ne $e.RemoteSrcPath $e.LocalSrcPath)"),
  (2, "TEXT 5"), (2, "HOLE $e.RemoteSrcPath"), (2, "TEXT 6"), (2, "HOLE $e.LocalSrcPath"),
  (1, "ELSE"), (2, "TEXT 7"), (2, "HOLE $e.RemoteSrcPath"),
  (1, "TEXT 8"), (1, "HOLE $e.Func.Complete"), (1, "TEXT 9"), (1, "HOLE $e.Location"), (1, "TEXT 10"),
  (1, "HOLE srcURL $e"), (1, "TEXT 11"), (1, "HOLE $e.SrcName"), (1, "TEXT 12"), (1, "HOLE $e.Line"), (1, "TEXT 13"),
  (1, "HOLE funcClass $e"), (1, "TEXT 14"), (1, "HOLE pkgURL $e"), (1, "TEXT 15"), (1, "HOLE $e.Func.Name"),
  (1, "TEXT 16"), (1, "TEMPLATE RenderArgs $e.Args"), (1, "TEXT 17"),
  (0, "IF .Elided"), (1, "TEXT 18"), (0, "TEXT 19")] := by decide

theorem pin_skeleton_RenderCreatedBy : skeletonOf "RenderCreatedBy" = [
  (0, "TEXT 0"), (0, "IF and .LocalSrcPath (ne .RemoteSrcPath .LocalSrcPath)"),
  (1, "TEXT 1"), (1, "HOLE .RemoteSrcPath"), (1, "TEXT 2"), (1, "HOLE .LocalSrcPath"),
  (0, "ELSE"), (1, "TEXT 3"), (1, "HOLE .RemoteSrcPath"),
  (0, "TEXT 4"), (0, "HOLE .Func.Complete"), (0, "TEXT 5"), (0, "HOLE .Location"), (0, "TEXT 6"),
  (0, "HOLE srcURL ."), (0, "TEXT 7"), (0, "HOLE .SrcName"), (0, "TEXT 8"), (0, "HOLE .Line"), (0, "TEXT 9"),
  (0, "HOLE funcClass ."), (0, "TEXT 10"), (0, "HOLE pkgURL ."), (0, "TEXT 11"), (0, "HOLE .Func.DirName"),
  (0, "TEXT 12"), (0, "HOLE .Func.Name"), (0, "TEXT 13")] := by decide

/-- the content division of the main template: the two `range` loops -/
theorem pin_skeleton_content :
    ((skeletonOf "t").drop 6).take 67 = [
  (0, "IF .Aggregated"), (1, "RANGE $i, $e := .Aggregated.Buckets"),
  (2, "SET $l := len $e.IDs"), (2, "TEXT 5"), (2, "HOLE $i"), (2, "TEXT 6"), (2, "HOLE $l"), (2, "TEXT 7"),
  (2, "IF ne 1 $l"), (3, "TEXT 8"), (2, "TEXT 9"), (2, "HOLE $e.State"), (2, "TEXT 10"),
  (2, "IF $e.SleepMax"), (3, "IF ne $e.SleepMin $e.SleepMax"),
  (4, "TEXT 11"), (4, "HOLE $e.SleepMin"), (4, "TEXT 12"), (4, "HOLE $e.SleepMax"), (4, "TEXT 13"),
  (3, "ELSE"), (4, "TEXT 14"), (4, "HOLE $e.SleepMax"), (4, "TEXT 15"),
  (2, "TEXT 16"), (2, "IF $e.Locked"), (3, "TEXT 17"),
  (2, "IF $e.CreatedBy.Calls"), (3, "TEXT 18"), (3, "TEMPLATE RenderCreatedBy index $e.CreatedBy.Calls 0"), (3, "TEXT 19"),
  (2, "TEMPLATE RenderCalls $e.Signature.Stack"),
  (0, "ELSE"), (1, "RANGE $i, $e := .Snapshot.Goroutines"),
  (2, "TEXT 20"), (2, "HOLE $e.ID"), (2, "TEXT 21"), (2, "HOLE $e.State"), (2, "TEXT 22"),
  (2, "IF $e.SleepMax"), (3, "IF ne $e.SleepMin $e.SleepMax"),
  (4, "TEXT 23"), (4, "HOLE $e.SleepMin"), (4, "TEXT 24"), (4, "HOLE $e.SleepMax"), (4, "TEXT 25"),
  (3, "ELSE"), (4, "TEXT 26"), (4, "HOLE $e.SleepMax"), (4, "TEXT 27"),
  (2, "TEXT 28"), (2, "IF $e.Locked"), (3, "TEXT 29"),
  (2, "IF $e.RaceAddr"), (3, "TEXT 30"), (3, "IF $e.RaceWrite"), (4, "TEXT 31"), (3, "ELSE"), (4, "TEXT 32"),
  (3, "TEXT 33"), (3, "HOLE printf \"0x%08X\" $e.RaceAddr"), (3, "TEXT 34"),
  (2, "IF $e.CreatedBy.Calls"), (3, "TEXT 35"), (3, "TEMPLATE RenderCreatedBy index $e.CreatedBy.Calls 0"), (3, "TEXT 36"),
  (2, "TEMPLATE RenderCalls $e.Signature.Stack")] := by decide

/-! ### the rest of the document (PP/Model/HtmlDoc.lean): head, Metadata section, legend, footer -/

/-- the Favicon hole: inside the URL attribute after the literal `data:image/gif;base64,`,
so no `urlfilter`; the model renders it with `attrEscaper ∘ urlNormalizer` (`faviconHole`) -/
theorem pin_favicon_hole :
    (templateHoles.filter fun h => h.2.1 == ".Favicon") = [("t", ".Favicon", esc_dataurl)] := by decide

/-- every hole of the Metadata section and of `Join`, and the footer, is a text hole -/
theorem pin_metadata_holes :
    (templateHoles.filter fun h => h.1 == "Join" ||
      h.2.1 ∈ [".Now.String", ".Version", ".Snapshot.RemoteGOROOT", ".Snapshot.LocalGOROOT", "$path", "$import",
        ".GOMAXPROCS", ".Footer"]) =
    [("Join", "$e", esc_text), ("t", ".Now.String", esc_text), ("t", ".Version", esc_text),
     ("t", ".Snapshot.RemoteGOROOT", esc_text), ("t", ".Snapshot.LocalGOROOT", esc_text),
     ("t", ".Snapshot.RemoteGOROOT", esc_text), ("t", "$path", esc_text), ("t", "$import", esc_text),
     ("t", ".GOMAXPROCS", esc_text), ("t", ".Footer", esc_text)] := by decide

/-- 51 holes in all; 22 in the main template: the favicon, 6 + 6 in the two loops of the
content division, 8 in the Metadata section, the footer -/
theorem pin_hole_count : templateHoles.length = 51 ∧ (templateHoles.filter fun h => h.1 == "t").length = 22 := by
  decide

theorem pin_texts_Join : (textsOf "Join").map (·.2) = [Lit.j0] := by decide

theorem pin_skeleton_Join : skeletonOf "Join" = [
  (0, "IF ."), (1, "SET $l := len ."), (1, "SET $last := minus $l 1"), (1, "RANGE $i, $e := ."),
  (2, "HOLE $e"), (2, "SET $isNotLast := ne $i $last"), (2, "IF $isNotLast"), (3, "TEXT 0")] := by decide

/-- the short text nodes of the main template outside the content division -/
theorem pin_texts_doc :
    ((textsOf "t").filter fun x => x.1 < 5 || 37 ≤ x.1) =
      [(0, Lit.t0), (2, Lit.t2), (37, Lit.t37), (38, Lit.t38), (39, Lit.t39), (40, Lit.t40), (41, Lit.t41),
       (42, Lit.t42), (43, Lit.t43), (44, Lit.t44), (45, Lit.t45), (46, Lit.t46), (47, Lit.t47), (48, Lit.t48),
       (49, Lit.t49), (50, Lit.t50), (51, Lit.t51), (52, Lit.t52), (54, Lit.t54)] := by decide

set_option maxRecDepth 100000 in
/-- the four long text nodes: the extractor emits their lengths only -/
theorem pin_long_text_lengths :
    templateLongTexts =
      [("t", 1, Lit.t1.length), ("t", 3, Lit.t3.length), ("t", 4, Lit.t4.length), ("t", 53, Lit.t53.length)] := by
  decide

/-- the main template before the content division: `headPieces` -/
theorem pin_skeleton_head :
    (skeletonOf "t").take 6 =
      [(0, "TEXT 0"), (0, "TEXT 1"), (0, "HOLE .Favicon"), (0, "TEXT 2"), (0, "TEXT 3"), (0, "TEXT 4")] := by decide

/-- the main template after the content division: `metaPieces`, the footer, the last text node -/
theorem pin_skeleton_metadata :
    (skeletonOf "t").drop 73 = [
  (0, "TEXT 37"), (0, "HOLE .Now.String"), (0, "TEXT 38"), (0, "HOLE .Version"), (0, "TEXT 39"),
  (0, "IF and .Snapshot.LocalGOROOT (ne .Snapshot.RemoteGOROOT .Snapshot.LocalGOROOT)"),
  (1, "TEXT 40"), (1, "HOLE .Snapshot.RemoteGOROOT"), (1, "TEXT 41"), (1, "HOLE .Snapshot.LocalGOROOT"), (1, "TEXT 42"),
  (0, "ELSE"), (1, "TEXT 43"), (1, "HOLE .Snapshot.RemoteGOROOT"), (1, "TEXT 44"),
  (0, "TEXT 45"), (0, "TEMPLATE Join .Snapshot.LocalGOPATHs"), (0, "TEXT 46"),
  (0, "IF .Snapshot.LocalGomods"), (1, "TEXT 47"), (1, "RANGE $path, $import := .Snapshot.LocalGomods"),
  (2, "TEXT 48"), (2, "HOLE $path"), (2, "TEXT 49"), (2, "HOLE $import"), (2, "TEXT 50"), (1, "TEXT 51"),
  (0, "TEXT 52"), (0, "HOLE .GOMAXPROCS"), (0, "TEXT 53"), (0, "HOLE .Footer"), (0, "TEXT 54")] := by decide

/-- head (6 nodes), content division (67 nodes, `pin_skeleton_content`), the rest (32 nodes): nothing else -/
theorem pin_skeleton_t_length : (skeletonOf "t").length = 6 + 67 + 32 := by decide

set_option maxRecDepth 100000 in
/-- the four long text nodes (style sheet, legend, scripts), byte for byte -/
theorem pin_long_text_bytes : Extracted.templateLongTextBytes =
    [("t", 1, Lit.t1), ("t", 3, Lit.t3), ("t", 4, Lit.t4), ("t", 53, Lit.t53)] := by decide

/-- the regular expressions of html.go that the hand matchers `reVersionAt` and
`reMethodSymbol` of the model transcribe -/
theorem pin_reVersion : reVersion = b!"v\\d+\\.\\d+\\.\\d+\\-\\d+\\-([a-f0-9]+)" := by decide
theorem pin_reMethodSymbol : Extracted.reMethodSymbol = b!"^\\(\\*?([^)]+)\\)(\\..+)$" := by decide

/-- `Location.String`: the model's names are the declared constants, in order -/
theorem pin_location_names :
    [Loc.unknown, .goMod, .gopath, .goPkg, .stdlib].map (fun l => Bytes.toStringLossy (Loc.string l)) =
      locationOrder.take 5 := by decide

end PP.Tie
