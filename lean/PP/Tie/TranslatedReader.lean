import PP.TranslatedReader
import PP.Lemmas.ReaderLemmas
import PP.Tie.TranslatedScanSM
import PP.Lemmas.ScanLoop
import PP.Props.C09b
/-
Tie A, translated part: the line reader of stack/reader.go (`(*reader).fill`, `buffered`, `readSlice`,
`readLine`) and `ScanSnapshot` of stack/context.go, translated from the Go source on every run
(`PP/TranslatedReader.lean`, by `extract/translate_reader.go`) and tied to the hand-written models
`PP/Model/Reader.lean` (`fill`, `readSlice`, `readLine`) and `PP/Model/Loop.lean` (`scanB`, `finishSuffix`,
`scanSnapshot`) that the reader and loop theorems (C02, C07, C09, C09b, C10, C11) are about.

The translated code is ARRAY level (the fixed buffer `r.buf` as a list of length `bufN`, the indices `r.r`, `r.w`,
`copy` to slide the data to the front, the search offset `s`), the model is LIST level (`Rd.buf` = `r.buf[r.r:r.w]`).
So the tie is a REFINEMENT, not an equation:

* `absRd : RdA → Rd` is the abstraction function, `RdInv` the representation invariant
  (`0 ≤ r ≤ w ≤ bufN`, `len buf = bufN`, `r.err ≠ errBufferFull`);
* `tie_fill`, `tie_buffered`, `tie_readSlice`, `tie_readLine`: for every environment `E` whose callees refine the
  model (`FillRef E.fill`, `SliceRef … E.readSlice`), for EVERY scratch oracle and every fuel oracle, the translated
  function commutes with `absRd` on every state that satisfies `RdInv`: same line, same error, the invariant again,
  and the model's new state is the abstraction of the new array-level state; a Go panic (`none`) exactly where the
  model reports one (`RPanic.fillFull`);
* unbounded loops: the translated loops run on the fuel `E.fuel_f st`; the theorems line it up with the model's own
  fuel (`none` = out of fuel on both sides), and `readSlice_isSome` / `readLine_isSome` (PP/Lemmas/ReaderLemmas.lean)
  show how much suffices: `implEnv` passes exactly that, `impl_readLine_total` concludes that there the translated
  `readLine` returns (`loopFuel_mono`: a `some` is the result of the Go loop for any larger fuel);
* `implEnv` closes the knot: the call graph of the group is acyclic, so the environment in which every function IS
  the translated one exists by plain definition (`implEnv_fix`), and `impl_*` are the refinement theorems for it,
  without hypotheses.

* `ScanSnapshot`: `scan_loop` ties the translated loop to the model's `scanB` (for every fuel `F ≥ f + 1` the translated
  loop with fuel `F` yields what `scanB` yields with fuel `f`: same scanner state, same bytes forwarded to the writer, same
  error (`lerr`), same suffix, the reader state the abstraction of the array-level one; a Go panic where `scanB` reports
  `panicked`), `tie_ScanSnapshot` the whole function to `PP.scanSnapshot` — under `ScanEnvOK` (the callees `readLine`,
  `buffered` refine the model; `E.scan` IS the model's `scanBytes`, which group ScanSM proves of the translated `scan`:
  `TrSM.tie_scan`; the io.Writer never fails, as in the model), `E.nameArguments` = the model's, valid options with
  GuessPaths / AnalyzeSources off (what the model covers), a fresh writer; `tie_ScanSnapshot_nil`, `_invalid` the option
  gate; `impl_ScanSnapshot`, `impl_ScanSnapshot_total` the same for the closed environment, the latter with the model's
  totality and no-panic theorems: the translated function RETURNS the model's result.
  What is compared: the three Go results (`*Snapshot` = `snapOf o gs`, suffix with nil ≠ empty, error) and the writer;
  the model's ghost fields `consumed`, `unread`, `state` have no Go counterpart (the final io.Reader is existential).

What the slices returned by `readSlice` / `readLine` / `buffered` are: VALUES at the moment of return (they alias
`r.buf` in Go until the next `fill`): see the aliasing assumption in the header of extract/translate_reader.go;
`ScanSnapshot` is the only caller and is checked syntactically by the translator (its `d` is dead before the next
`readLine`; `suffix` is a copy).
-/
set_option linter.unusedSimpArgs false
set_option linter.unusedVariables false
namespace PP.TrRd
open PP PP.Go

theorem sliceI_nat (s : Bytes) (lo hi : Nat) (h1 : lo ≤ hi) (h2 : hi ≤ s.length) :
    sliceI s (lo : Int) (hi : Int) = some ((s.drop lo).take (hi - lo)) := by
  unfold sliceI
  rw [if_pos (by omega)]
  simp [List.drop_take]

theorem overlay_length (d s : Bytes) : (overlay d s).length = d.length := by
  simp [overlay]; omega

theorem overlay_take (d c scr : Bytes) (h : c.length ≤ d.length) :
    (overlay d (c ++ scr)).take c.length = c := by
  unfold overlay
  have h1 : c.length ≤ ((c ++ scr).take d.length).length := by simp; omega
  rw [List.take_append_of_le_length h1, List.take_take, Nat.min_eq_left h, List.take_append_of_le_length (Nat.le_refl _), List.take_length]

theorem indexByte_of_cutNL_none {b : Bytes} (h : cutNL b = none) : indexByte b 10 = -1 := by
  induction b with
  | nil => simp [indexByte]
  | cons x xs ih =>
    simp only [cutNL] at h
    simp only [indexByte]
    by_cases hx : x = 10
    · simp [hx] at h
    · simp only [hx, if_false] at h ⊢
      cases hc : cutNL xs with
      | none => simp [ih hc]
      | some p => rw [hc] at h; simp at h

theorem indexByte_of_cutNL_some {b l r : Bytes} (h : cutNL b = some (l, r)) :
    indexByte b 10 = (l.length : Int) - 1 := by
  induction b generalizing l r with
  | nil => simp [cutNL] at h
  | cons x xs ih =>
    simp only [cutNL] at h
    simp only [indexByte]
    by_cases hx : x = 10
    · simp [hx] at h ⊢; obtain ⟨rfl, _⟩ := h; simp
    · simp only [hx, if_false] at h ⊢
      cases hc : cutNL xs with
      | none => rw [hc] at h; simp at h
      | some p =>
        obtain ⟨l', r'⟩ := p
        rw [hc] at h; simp at h
        obtain ⟨rfl, _⟩ := h
        have := ih hc
        obtain ⟨q, _, hq, _⟩ := cutNL_some_spec hc
        have hl : 1 ≤ l'.length := by rw [hq]; simp
        rw [this]
        simp
        omega

theorem bufN_pos : 0 < bufN := by decide

/-- an `error` of the reader as the model's `r.err` -/
def unErr : Option SliceErr → Option RErr
  | some (.rerr e) => some e
  | _ => none

/-- the ABSTRACTION function: the list-level reader state of the model for an array-level state -/
def absRd (a : RdA) : Rd :=
  { buf := (a.buf.drop a.r.toNat).take (a.w.toNat - a.r.toNat), err := unErr a.err, src := a.rd }

/-- the representation invariant of the Go `reader` -/
structure RdInv (a : RdA) : Prop where
  r0 : 0 ≤ a.r
  rw : a.r ≤ a.w
  wN : a.w ≤ (bufN : Int)
  len : a.buf.length = bufN
  err : a.err ≠ some .bufferFull

theorem absRd_length {a : RdA} (h : RdInv a) : ((absRd a).buf.length : Int) = a.w - a.r := by
  obtain ⟨h0, h1, h2, h3, _⟩ := h
  simp [absRd]
  omega

theorem readInto_nat (scr buf : Bytes) (wn : Nat) (src : Src) (h : wn ≤ buf.length) :
    readInto scr buf (wn : Int) src =
      some (buf.take wn ++ overlay (buf.drop wn) ((src.read (buf.length - wn)).1 ++ scr),
        (((src.read (buf.length - wn)).1.length : Nat) : Int), (src.read (buf.length - wn)).2.1.map SliceErr.rerr,
        (src.read (buf.length - wn)).2.2) := by
  unfold readInto
  rw [sliceI_nat _ _ _ h (Nat.le_refl _)]
  have : List.take (buf.length - wn) (buf.drop wn) = buf.drop wn := List.take_of_length_le (by simp)
  simp [this]

theorem fillLoop_succ (N k : Nat) (r : Rd) (c : Bytes) (e : Option RErr) (s' : Src) :
    r.src.read (N - r.buf.length) = (c, e, s') →
    fillLoop N (k + 1) r =
      match e with
      | some e => { r with buf := r.buf ++ c, src := s', err := some e }
      | none => if c.length > 0 then { r with buf := r.buf ++ c, src := s' }
          else fillLoop N k { r with buf := r.buf ++ c, src := s' } := by
  intro h
  simp only [fillLoop, h]
  cases e <;> rfl

/-- the state `fill` returns for the outcome of its retry loop -/
def finFill : PP.Go.Step RdA RdA → RdA
  | .ret a => a
  | .cont a => { a with err := some (.rerr .noProgress) }

theorem fill_loop (E : Env) (k : Nat) (a : RdA) (hI : RdInv a) (hr : a.r = 0) :
    ∃ st, repeatN (fill_loop1 E) k a = some st ∧ RdInv (finFill st) ∧ (finFill st).r = 0 ∧
      absRd (finFill st) = fillLoop bufN k (absRd a) := by
  induction k generalizing a with
  | zero =>
    refine ⟨.cont a, rfl, ?_, hr, ?_⟩
    · exact ⟨hI.r0, hI.rw, hI.wN, hI.len, by simp [finFill]⟩
    · simp [finFill, fillLoop, absRd, unErr]
  | succ k ih =>
    obtain ⟨buf, rd, r, w, err⟩ := a
    obtain ⟨h0, h1, h2, h3, h4⟩ := hI
    simp only at hr h0 h1 h2 h3 h4
    subst hr
    obtain ⟨wn, rfl⟩ := Int.eq_ofNat_of_zero_le h1
    have hw : wn ≤ buf.length := by omega
    have hA : absRd ⟨buf, rd, 0, wn, err⟩ = ⟨buf.take wn, unErr err, rd⟩ := by simp [absRd]
    rcases hrd : rd.read (buf.length - wn) with ⟨c, e, s'⟩
    obtain ⟨_, hc, _⟩ := Src.read_spec hrd
    have hrd' : (absRd ⟨buf, rd, 0, wn, err⟩).src.read (bufN - (absRd ⟨buf, rd, 0, wn, err⟩).buf.length) = (c, e, s') := by
      rw [hA]; simp only [List.length_take]; rw [Nat.min_eq_left hw, ← h3]; exact hrd
    rw [repeatN_succ, fillLoop_succ _ _ _ _ _ _ hrd', hA]
    simp only [fill_loop1, readInto_nat _ _ _ _ hw, hrd, Option.bind_some]
    have hn : ¬ ((c.length : Int) < 0) := by omega
    have htn : ((wn : Int) + (c.length : Int)).toNat = wn + c.length := by omega
    simp only [hn, if_false]
    obtain ⟨buf', hb⟩ : ∃ b, b = buf.take wn ++ overlay (buf.drop wn) (c ++ E.scratch rd) := ⟨_, rfl⟩
    rw [← hb]
    have hbl : buf'.length = bufN := by
      rw [hb]; simp [overlay_length]; omega
    have hbt : buf'.take (wn + c.length) = buf.take wn ++ c := by
      have : (buf.take wn).length = wn := by simp; omega
      rw [hb, List.take_append, this]
      simp [List.take_of_length_le, this, overlay_take _ _ _ (by simp; omega : c.length ≤ (buf.drop wn).length)]
    have hA' : ∀ err', absRd ⟨buf', s', 0, (wn : Int) + (c.length : Int), err'⟩ = ⟨buf.take wn ++ c, unErr err', s'⟩ := by
      intro err'; simp [absRd, hbt, htn]
    have hI' : ∀ err', err' ≠ some .bufferFull → RdInv ⟨buf', s', 0, (wn : Int) + (c.length : Int), err'⟩ :=
      fun err' he => ⟨by simp, by simp; omega, by simp; omega, hbl, he⟩
    cases e with
    | some x =>
      refine ⟨.ret ⟨buf', s', 0, (wn : Int) + (c.length : Int), some (.rerr x)⟩, by simp, hI' _ (by simp), rfl, ?_⟩
      simp [finFill, hA', unErr]
    | none =>
      by_cases hc0 : c.length > 0
      · refine ⟨.ret ⟨buf', s', 0, (wn : Int) + (c.length : Int), err⟩, by simp [hc0], hI' _ h4, rfl, ?_⟩
        simp [finFill, hA', hc0]
      · obtain ⟨st, e1, e2, e3, e4⟩ := ih _ (hI' err h4) rfl
        refine ⟨st, ?_, e2, e3, ?_⟩
        · simp [hc0]; exact e1
        · rw [e4, hA']; simp [hc0]

theorem fill_slide (a : RdA) (hI : RdInv a) :
    ∃ a1, ((if a.r > (0 : Int) then
        (sliceI a.buf a.r a.w).bind fun t1 =>
        let r : RdA := { a with buf := overlay a.buf t1 }
        let r : RdA := { r with w := (r.w - r.r) }
        let r : RdA := { r with r := (0 : Int) }
        some r
      else some a) = some a1) ∧ RdInv a1 ∧ a1.r = 0 ∧ absRd a1 = absRd a := by
  obtain ⟨buf, rd, r, w, err⟩ := a
  obtain ⟨h0, h1, h2, h3, h4⟩ := hI
  simp only at h0 h1 h2 h3 h4
  obtain ⟨rn, rfl⟩ := Int.eq_ofNat_of_zero_le h0
  obtain ⟨wn, rfl⟩ := Int.eq_ofNat_of_zero_le (Int.le_trans h0 h1)
  by_cases hr : (rn : Int) > 0
  · simp only [hr, if_true]
    rw [sliceI_nat _ _ _ (by omega) (by omega)]
    simp only [Option.bind_some]
    refine ⟨_, rfl, ⟨by simp, by simp; omega, by simp; omega, by simp [overlay_length]; omega, h4⟩, rfl, ?_⟩
    have hl : ((buf.drop rn).take (wn - rn)).length = wn - rn := by simp; omega
    have hsub : ((wn : Int) - (rn : Int)).toNat = wn - rn := by omega
    have := overlay_take buf ((buf.drop rn).take (wn - rn)) [] (by rw [hl]; omega)
    rw [hl, List.append_nil] at this
    simp [absRd, hsub, this]
  · have : rn = 0 := by omega
    subst this
    exact ⟨_, by simp, ⟨h0, h1, h2, h3, h4⟩, rfl, rfl⟩

/-- REFINEMENT of `fill`: `g` does on the array-level state what the model's `fill` does on its abstraction
(a Go panic where the model reports one), and keeps the representation invariant -/
def FillRef (g : RdA → Option RdA) : Prop :=
  ∀ a, RdInv a →
    match PP.fill bufN 100 (absRd a) with
    | .error _ => g a = none
    | .ok r' => ∃ a', g a = some a' ∧ RdInv a' ∧ absRd a' = r'

theorem tie_fill (E : Env) : FillRef (TrRd.fill E) := by
  intro a hI
  obtain ⟨a1, e1, hI1, hr1, hA1⟩ := fill_slide a hI
  have hlen := absRd_length hI1
  rw [hr1] at hlen
  unfold TrRd.fill
  rw [e1, ← hA1]
  simp only [Option.bind_some, PP.fill]
  by_cases hw : a1.w ≥ (bufN : Int)
  · have : (absRd a1).buf.length ≥ bufN := by omega
    simp [hw, this]
  · have : ¬ (absRd a1).buf.length ≥ bufN := by omega
    simp only [hw, this, if_false]
    obtain ⟨st, e2, hI2, _, hA2⟩ := fill_loop E 100 a1 hI1 hr1
    rw [e2]
    cases st with
    | ret a' => exact ⟨a', rfl, hI2, hA2⟩
    | cont a' => exact ⟨_, rfl, hI2, hA2⟩

theorem sliceI_abs (buf : Bytes) (rn wn x y : Nat) (hxy : x ≤ y) (hy : rn + y ≤ wn) (hw : wn ≤ buf.length)
    (lo hi : Int) (hlo : lo = rn + x) (hhi : hi = rn + y) :
    sliceI buf lo hi = some ((((buf.drop rn).take (wn - rn)).drop x).take (y - x)) := by
  have e1 : lo = ((rn + x : Nat) : Int) := by omega
  have e2 : hi = ((rn + y : Nat) : Int) := by omega
  rw [e1, e2, sliceI_nat _ _ _ (by omega) (by omega)]
  congr 1
  rw [List.drop_take, List.drop_drop, List.take_take]
  congr 1
  omega

theorem abs_drop (buf : Bytes) (rn wn k : Nat) (h : rn + k ≤ wn) :
    (buf.drop (rn + k)).take (wn - (rn + k)) = ((buf.drop rn).take (wn - rn)).drop k := by
  rw [List.drop_take, List.drop_drop]
  congr 1
  omega

theorem fill_prefix (N retry : Nat) (r r' : Rd) (h : PP.fill N retry r = .ok r') :
    r'.buf.take r.buf.length = r.buf ∧ r.buf.length ≤ r'.buf.length := by
  unfold PP.fill at h
  split at h
  · cases h
  · cases h
    obtain ⟨h1, _, _, _, h5, _⟩ := fillLoop_spec N retry r
    refine ⟨?_, h5⟩
    have := congrArg (List.take r.buf.length) h1
    rw [List.take_append_of_le_length h5, List.take_append_of_le_length (Nat.le_refl _), List.take_length] at this
    exact this

theorem unErr_eq_none {err : Option SliceErr} (h : err ≠ some .bufferFull) : unErr err = none ↔ err = none := by
  cases err with
  | none => simp [unErr]
  | some e => cases e <;> simp_all [unErr]


/-- the results of `readSlice` (array level) and of the model (list level) correspond: a Go panic — or the loop
out of fuel — where the model reports a panic or runs out of fuel, otherwise the same line and error, the
invariant, and the model's state as the abstraction of the array-level state -/
def SliceRel (x : Option (RdA × (Bytes × Option SliceErr)))
    (y : Option (Except RPanic (Bytes × Option SliceErr × Rd))) : Prop :=
  match y with
  | none => x = none
  | some (.error _) => x = none
  | some (.ok (l, e, r')) => ∃ a', x = some (a', (l, e)) ∧ RdInv a' ∧ absRd a' = r'

/-- REFINEMENT of `readSlice` (with the model's fuel) -/
def SliceRef (fuel : RdA → Nat) (g : RdA → Option (RdA × (Bytes × Option SliceErr))) : Prop :=
  ∀ a, RdInv a → SliceRel (g a) (PP.readSlice bufN 100 (fuel a) (absRd a))

theorem readSlice_loop (E : Env) (hF : FillRef E.fill) (fuel : Nat) (a : RdA) (sn : Nat) (hI : RdInv a)
    (hs : (sn : Int) ≤ a.w - a.r) (hnl : cutNL ((absRd a).buf.take sn) = none) :
    SliceRel (after (loopFuel (readSlice_loop1 E) fuel (a, (sn : Int))) fun _ => none)
      (PP.readSlice bufN 100 fuel (absRd a)) := by
  induction fuel generalizing a sn with
  | zero => simp [SliceRel, PP.readSlice]
  | succ fuel ih =>
    have hF' := hF a hI
    have hAl := absRd_length hI
    revert hF' hAl hs hnl
    obtain ⟨buf, rd, r, w, err⟩ := a
    obtain ⟨h0, h1, h2, h3, h4⟩ := hI
    simp only at h0 h1 h2 h3 h4
    obtain ⟨rn, rfl⟩ := Int.eq_ofNat_of_zero_le h0
    obtain ⟨wn, rfl⟩ := Int.eq_ofNat_of_zero_le (Int.le_trans h0 h1)
    have hrw : rn ≤ wn := by omega
    have hwl : wn ≤ buf.length := by omega
    obtain ⟨B, hB⟩ : ∃ B, B = (buf.drop rn).take (wn - rn) := ⟨_, rfl⟩
    have hA : ∀ err', absRd ⟨buf, rd, rn, wn, err'⟩ = ⟨B, unErr err', rd⟩ := by intro; simp [absRd, hB]
    have hBl : B.length = wn - rn := by rw [hB]; simp; omega
    rw [hA]
    intro hs hnl hF' hAl
    simp only at hs hnl hAl
    have hsn : sn ≤ wn - rn := by omega
    have ht1 : sliceI buf ((rn : Int) + (sn : Int)) (wn : Int) = some (B.drop sn) := by
      rw [sliceI_abs buf rn wn sn (wn - rn) hsn (by omega) hwl _ _ rfl (by omega), ← hB]
      rw [List.take_of_length_le (by simp; omega)]
    have hcut : cutNL B = (cutNL (B.drop sn)).map (fun p => (B.take sn ++ p.1, p.2)) := by
      have := cutNL_append_none (B.drop sn) hnl
      rwa [List.take_append_drop] at this
    rw [loopFuel_succ, PP.readSlice]
    simp only [readSlice_loop1, ht1, Option.bind_some]
    cases hc : cutNL (B.drop sn) with
    | some p =>
      obtain ⟨l, rest⟩ := p
      rw [hc] at hcut
      simp only [Option.map_some] at hcut
      obtain ⟨q, _, hq, hdrop⟩ := cutNL_some_spec hc
      have hl1 : 1 ≤ l.length := by rw [hq]; simp
      have hBeq : B = B.take sn ++ (l ++ rest) := by rw [← hdrop, List.take_append_drop]
      have hlen : sn + l.length + rest.length = wn - rn := by
        have := congrArg List.length hBeq
        simp at this; omega
      have hi : indexByte (B.drop sn) 10 = (l.length : Int) - 1 := indexByte_of_cutNL_some hc
      have hge : (l.length : Int) - 1 ≥ 0 := by omega
      simp only [hcut, hi, hge, if_true]
      rw [sliceI_abs buf rn wn 0 (sn + l.length) (by omega) (by omega) hwl _ _ (by omega) (by omega), ← hB]
      simp only [Option.bind_some, after_ret, SliceRel, List.drop_zero, Nat.sub_zero]
      have hline : B.take (sn + l.length) = B.take sn ++ l := by
        have hP : (B.take sn).length = sn := by simp; omega
        conv => lhs; rw [hBeq]
        rw [List.take_append, hP, List.take_of_length_le (by omega)]
        simp
      refine ⟨_, by rw [hline], ⟨by simp; omega, by simp; omega, by simpa using h2, h3, h4⟩, ?_⟩
      have htn : ((rn : Int) + ((l.length : Int) - 1 + (sn : Int) + 1)).toNat = rn + (sn + l.length) := by omega
      simp only [absRd, htn, Int.toNat_natCast]
      rw [abs_drop buf rn wn (sn + l.length) (by omega), ← hB]
      have hP : (B.take sn).length = sn := by simp; omega
      have : B.drop (sn + l.length) = rest := by
        conv => lhs; rw [hBeq]
        rw [← List.append_assoc, List.drop_append]
        simp [hP]
      rw [this]
    | none =>
      rw [hc] at hcut
      simp only [Option.map_none] at hcut
      have hi : indexByte (B.drop sn) 10 = -1 := indexByte_of_cutNL_none hc
      have hlt : ¬ ((-1 : Int) ≥ 0) := by omega
      simp only [hcut, hi, hlt, if_false]
      cases err with
      | some e0 =>
        cases e0 with
        | bufferFull => exact absurd rfl h4
        | rerr e =>
          have hne : (some (SliceErr.rerr e) : Option SliceErr) ≠ none := by simp
          rw [if_pos hne]
          simp only [unErr]
          rw [sliceI_abs buf rn wn 0 (wn - rn) (by omega) (by omega) hwl _ _ (by omega) (by omega), ← hB]
          simp only [Option.bind_some, after_ret, SliceRel, List.drop_zero, Nat.sub_zero]
          refine ⟨_, by rw [List.take_of_length_le (by omega)], ⟨by simp, by simp, by simpa using h2, h3, by simp⟩, ?_⟩
          simp [absRd, unErr]
      | none =>
        have hne : ¬ ((none : Option SliceErr) ≠ none) := by simp
        rw [if_neg hne]
        simp only [unErr]
        by_cases hfull : (wn : Int) - (rn : Int) = (bufN : Int)
        · have hBN : B.length = bufN := by omega
          have hr0 : rn = 0 := by omega
          have hBb : B = buf := by
            have hwb : wn = buf.length := by omega
            rw [hB, hr0, hwb]; simp
          simp only [hfull, hBN, if_true, after_ret, SliceRel]
          refine ⟨_, by rw [hBb], ⟨by simp, by simp, by simpa using h2, h3, by simp⟩, ?_⟩
          simp [absRd, unErr]
        · have hBN : ¬ B.length = bufN := by omega
          simp only [hfull, hBN, if_false]
          simp only [unErr] at hF'
          cases hfill : PP.fill bufN 100 ⟨B, none, rd⟩ with
          | error p =>
            rw [hfill] at hF'
            simp only at hF'
            simp [hF', SliceRel]
          | ok r' =>
            rw [hfill] at hF'
            obtain ⟨a', e1, hI', hA'⟩ := hF'
            obtain ⟨hp1, hp2⟩ := fill_prefix _ _ _ _ hfill
            simp only at hp1 hp2
            have hcast : (wn : Int) - (rn : Int) = ((wn - rn : Nat) : Int) := by omega
            rw [e1, hcast]
            simp only [Option.bind_some]
            have hl' := absRd_length hI'
            rw [hA'] at hl'
            have := ih a' (wn - rn) hI' (by omega) (by rw [hA', ← hBl, hp1]; exact hcut)
            rw [hA'] at this
            exact this

theorem tie_readSlice (E : Env) (hF : FillRef E.fill) :
    SliceRef (fun a => E.fuel_readSlice (a, 0)) (TrRd.readSlice E) := by
  intro a hI
  unfold TrRd.readSlice
  exact readSlice_loop E hF _ a 0 hI (by have := hI.rw; simp; omega) (by simp [cutNL])

/-- REFINEMENT of `buffered` -/
def BufRef (g : RdA → Option Bytes) : Prop := ∀ a, RdInv a → g a = some (absRd a).buf

theorem tie_buffered (E : Env) : BufRef (TrRd.buffered E) := by
  intro a hI
  obtain ⟨buf, rd, r, w, err⟩ := a
  obtain ⟨h0, h1, h2, h3, h4⟩ := hI
  simp only at h0 h1 h2 h3 h4
  obtain ⟨rn, rfl⟩ := Int.eq_ofNat_of_zero_le h0
  obtain ⟨wn, rfl⟩ := Int.eq_ofNat_of_zero_le (Int.le_trans h0 h1)
  unfold TrRd.buffered
  simp only
  rw [sliceI_nat _ _ _ (by omega) (by omega)]
  simp [absRd]

/-- the results of `readLine` correspond (as `SliceRel`; the error is never `errBufferFull`) -/
def LineRel (x : Option (RdA × (Bytes × Option SliceErr)))
    (y : Option (Except RPanic (Bytes × Option RErr × Rd))) : Prop :=
  match y with
  | none => x = none
  | some (.error _) => x = none
  | some (.ok (l, e, r')) => ∃ a', x = some (a', (l, e.map SliceErr.rerr)) ∧ RdInv a' ∧ absRd a' = r'

/-- REFINEMENT of `readLine` (with the model's fuel) -/
def LineRef (fuel : RdA → Nat) (g : RdA → Option (RdA × (Bytes × Option SliceErr))) : Prop :=
  ∀ a, RdInv a → LineRel (g a) (PP.readLine bufN 100 (fuel a) [] (absRd a))

theorem goAppendN_getD (acc f : Bytes) : (goAppendN (some acc) f).getD [] = acc ++ f := by
  unfold goAppendN
  split
  · rename_i h; simp [h]
  · simp

theorem readLine_loop (E : Env) (hS : SliceRef (fun _ => bufN + 2) E.readSlice) (fuel : Nat) (a : RdA) (d : Option Bytes)
    (hI : RdInv a) :
    LineRel (after (loopFuel (readLine_loop1 E) fuel (a, d)) fun _ => none)
      (PP.readLine bufN 100 fuel (d.getD []) (absRd a)) := by
  induction fuel generalizing a d with
  | zero => simp [LineRel, PP.readLine]
  | succ fuel ih =>
    have hS' := hS a hI
    rw [loopFuel_succ, PP.readLine]
    simp only [readLine_loop1]
    cases hrs : PP.readSlice bufN 100 (bufN + 2) (absRd a) with
    | none =>
      rw [hrs] at hS'
      simp only [SliceRel] at hS'
      simp [hS', LineRel]
    | some x =>
      cases x with
      | error p =>
        rw [hrs] at hS'
        simp only [SliceRel] at hS'
        simp [hS', LineRel]
      | ok v =>
        obtain ⟨f, e, r'⟩ := v
        rw [hrs] at hS'
        obtain ⟨a', e1, hI', hA'⟩ := hS'
        rw [e1]
        simp only [Option.bind_some]
        cases e with
        | none =>
          have hne : (none : Option SliceErr) ≠ some SliceErr.bufferFull := by simp
          rw [if_pos hne]
          cases d with
          | none => simp [LineRel]; exact ⟨hI', hA'⟩
          | some acc => simp [LineRel, goAppendN_getD]; exact ⟨hI', hA'⟩
        | some e0 =>
          cases e0 with
          | rerr x =>
            have hne : (some (SliceErr.rerr x) : Option SliceErr) ≠ some SliceErr.bufferFull := by simp
            rw [if_pos hne]
            cases d with
            | none => simp [LineRel]; exact ⟨hI', hA'⟩
            | some acc => simp [LineRel, goAppendN_getD]; exact ⟨hI', hA'⟩
          | bufferFull =>
            have hne : ¬ ((some SliceErr.bufferFull : Option SliceErr) ≠ some SliceErr.bufferFull) := by simp
            rw [if_neg hne]
            cases d with
            | none =>
              simp only [if_true, Option.bind_some]
              have := ih a' (goAppendN (some []) f) hI'
              rw [goAppendN_getD, hA'] at this
              simpa using this
            | some acc =>
              have hd : ¬ ((some acc : Option Bytes) = none) := by simp
              simp only [hd, if_false, Option.bind_some]
              have := ih a' (goAppendN (some acc) f) hI'
              rw [goAppendN_getD, hA'] at this
              simpa using this

theorem tie_readLine (E : Env) (hS : SliceRef (fun _ => bufN + 2) E.readSlice) : 
    LineRef (fun a => E.fuel_readLine (a, none)) (TrRd.readLine E) := by
  intro a hI
  unfold TrRd.readLine
  exact readLine_loop E hS _ a none hI

/-! ### non-vacuity: the state `reader{rd: in}` satisfies the invariant and is the model's initial state -/

/-- `reader{rd: src}` (the array zeroed) -/
def initRdA (src : Src) : RdA := { buf := List.replicate bufN 0, rd := src }

theorem RdInv_init (src : Src) : RdInv (initRdA src) :=
  ⟨by simp [initRdA], by simp [initRdA], by simp [initRdA], by simp [initRdA], by simp [initRdA]⟩

theorem absRd_init (src : Src) : absRd (initRdA src) = { src := src } := by
  simp [absRd, initRdA, unErr]

/-! ### `ScanSnapshot` (stack/context.go) against `PP.scanB` / `PP.scanSnapshot` (PP/Model/Loop.lean) -/

/-- the model's loop error as the Go `error` of `ScanSnapshot` -/
def lerr : LErr → GErr
  | .reader e => .slice (.rerr e)
  | .parse e => .parse e

/-- what `ScanSnapshot` needs of its environment -/
structure ScanEnvOK (E : Env) : Prop where
  line : LineRef (fun a => lineFuel (absRd a)) E.readLine
  buf : BufRef E.buffered
  scan : ∀ s d, E.scan s d = TrSM.liftR (scanBytes s d)
  write : ∀ w d, E.write w d = (d.length, none)

theorem combine_eq (e : Option RErr) (e1 : Option Err) :
    (if (e1.map GErr.parse ≠ none ∧ (((e.map SliceErr.rerr).map GErr.slice) = none ∨
        ((e.map SliceErr.rerr).map GErr.slice) = some (GErr.slice (SliceErr.rerr RErr.eof))))
      then e1.map GErr.parse else (e.map SliceErr.rerr).map GErr.slice) = (combineErr e e1).map lerr := by
  cases e1 with
  | none => cases e <;> simp [combineErr, lerr]
  | some p =>
    cases e with
    | none => simp [combineErr, lerr]
    | some r => cases r <;> simp [combineErr, lerr]

theorem ite_some {α : Type} (c : Prop) [Decidable c] (a b : α) :
    (if c then some a else some b) = some (if c then a else b) := by split <;> rfl

theorem goAppendN_some (a x : Bytes) : goAppendN (some a) x = some (a ++ x) := by
  unfold goAppendN; split
  · rename_i h; simp [h]
  · simp

abbrev LoopSt := Bytes × ScanSt × RdA × Option GErr × Option Bytes
abbrev LoopRes := (Src × Bytes) × (Option Snapshot × Option Bytes × Option GErr)

theorem loop_exit (E : Env) (f : Nat) (w : Bytes) (s : ScanSt) (a : RdA) (err : Option GErr) (suffix : Option Bytes)
    (h : err ≠ none) :
    loopFuel (ScanSnapshot_loop1 E) (f + 1) (w, s, a, err, suffix) = some (.cont (w, s, a, err, suffix)) := by
  rw [loopFuel_succ]
  simp [ScanSnapshot_loop1, h]

/-- one iteration of the loop of `ScanSnapshot` from a state whose condition holds (the text of the generated
`ScanSnapshot_loop1` after its condition) -/
theorem loop1_live (E : Env) («prefix» : Bytes) (s : ScanSt) (r : RdA) (suffix : Option Bytes) (h : s.sm.st ≠ St.done) :
    ScanSnapshot_loop1 E («prefix», s, r, none, suffix) =
    (let err : Option GErr := none
    let d : Bytes := []
    (E.readLine r).bind fun (r, (d, t1)) =>
    let err : Option GErr := t1.map GErr.slice
    if (lenInt d) ≠ (0 : Int) then
      (E.scan s.sm d).bind fun (t2, (l, t3)) =>
      let s : ScanSt := { s with sm := t2 }
      let err1 : Option GErr := t3.map GErr.parse
      (if (err1 ≠ none ∧ (err = none ∨ err = (some (GErr.slice (SliceErr.rerr RErr.eof))))) then
        let err : Option GErr := err1
        some err
      else some err).bind fun err =>
      if ¬ (l = true) then
        if s.sm.st ≠ St.looking then
          let suffix : Option Bytes := some d
          (E.buffered r).bind fun t4 =>
          let suffix : Option Bytes := goAppendN suffix t4
          some (.brk («prefix», s, r, err, suffix))
        else
        let («prefix», t5, err1) := goWrite E.write «prefix» d
        if (err1 ≠ none ∧ (err = none ∨ err = (some (GErr.slice (SliceErr.rerr RErr.eof))))) then
          let err : Option GErr := err1
          some (.brk («prefix», s, r, err, suffix))
        else
        some (.cont («prefix», s, r, err, suffix))
      else
      some (.cont («prefix», s, r, err, suffix))
    else
    some (.cont («prefix», s, r, err, suffix))) := by
  show (if ¬ ((none : Option GErr) = none ∧ s.sm.st ≠ St.done) then _ else _) = _
  rw [if_neg (by simp [h])]

/-- the loop of `ScanSnapshot` and the model's `scanB` correspond -/
def LoopRel (sn : Snapshot) (x : Option (PP.Go.Step LoopSt LoopRes)) (y : Option OutB) : Prop :=
  match y with
  | none => True
  | some o =>
    if o.panicked = true then x = none
    else ∃ a', x = some (.cont (o.fwd, ⟨o.s, sn⟩, a', o.err.map lerr, o.suffix)) ∧ RdInv a' ∧
      (absRd a').src = o.rd.src ∧ (o.suffix = none → absRd a' = o.rd)


theorem scan_loop (E : Env) (hE : ScanEnvOK E) (sn : Snapshot) (f : Nat) (sm : S) (w : Bytes) (cons : List Bytes)
    (a : RdA) (hI : RdInv a) (F : Nat) (hF : f + 1 ≤ F) :
    LoopRel sn (loopFuel (ScanSnapshot_loop1 E) F (w, ⟨sm, sn⟩, a, none, none))
      (scanB bufN 100 f sm w cons (absRd a)) := by
  induction f generalizing sm w cons a F with
  | zero => simp [LoopRel, scanB]
  | succ f ih =>
    obtain ⟨F, rfl⟩ : ∃ F', F = F' + 1 := ⟨F - 1, by omega⟩
    have hF' : f + 1 ≤ F := by omega
    obtain ⟨F0, hF0⟩ : ∃ F0, F = F0 + 1 := ⟨F - 1, by omega⟩
    rw [scanB]
    by_cases hd : sm.st = .done
    · -- the trace is complete: the loop condition fails
      rw [loopFuel_succ]
      have : ScanSnapshot_loop1 E (w, ⟨sm, sn⟩, a, none, none) = some (.brk (w, ⟨sm, sn⟩, a, none, none)) := by
        show (if ¬ ((none : Option GErr) = none ∧ sm.st ≠ St.done) then _ else _) = _
        rw [if_pos (by simp [hd])]
      rw [this]
      simp [LoopRel, hd]
      exact hI
    · have hd' : ¬ ((sm.st == St.done) = true) := by simpa using hd
      rw [if_neg hd', loopFuel_succ]
      rw [loop1_live E w ⟨sm, sn⟩ a none hd]
      simp only []
      have hL := hE.line a hI
      simp only at hL
      cases hrl : PP.readLine bufN 100 (lineFuel (absRd a)) [] (absRd a) with
      | none => simp [LoopRel]
      | some x =>
        cases x with
        | error p =>
          rw [hrl] at hL
          simp only [LineRel] at hL
          simp [hL, LoopRel]
        | ok v =>
          obtain ⟨d, e, rd'⟩ := v
          rw [hrl] at hL
          obtain ⟨a', e1, hI', hA'⟩ := hL
          rw [e1]
          simp only [Option.bind_some]
          by_cases hlen : d.length = 0
          · -- an empty read
            have hl1 : ¬ (lenInt d ≠ (0 : Int)) := by simp [lenInt, hlen]
            have hl2 : ¬ ((d.length != 0) = true) := by simp [hlen]
            rw [if_neg hl1, if_neg hl2]
            cases e with
            | some r =>
              simp only [Option.map_some]
              rw [hF0, loop_exit E F0 _ _ _ _ _ (by simp)]
              simp [LoopRel, lerr]
              exact ⟨hI', by rw [hA'], hA'⟩
            | none =>
              simp only [Option.map_none]
              have := ih sm w cons a' hI' F hF'
              rw [hA'] at this
              exact this
          · have hl1 : lenInt d ≠ (0 : Int) := by unfold lenInt; omega
            have hl2 : (d.length != 0) = true := by simpa using hlen
            rw [if_pos hl1, if_pos hl2]
            simp only [hE.scan]
            cases hsc : scanBytes sm d with
            | error p => simp [LoopRel]
            | ok v =>
              obtain ⟨s', l, e1'⟩ := v
              simp only [TrSM.liftR_ok, Option.bind_some, ite_some, combine_eq]
              obtain ⟨err, herr⟩ : ∃ err, err = combineErr e e1' := ⟨_, rfl⟩
              rw [← herr]
              cases l with
              | true =>
                have h1 : ¬ ¬ (true = true) := by simp
                have h2 : ¬ ((!true) = true) := by simp
                rw [if_neg h1, if_neg h2]
                cases err with
                | some x =>
                  simp only [Option.map_some, Option.isSome_some, if_true]
                  rw [hF0, loop_exit E F0 _ _ _ _ _ (by simp)]
                  simp [LoopRel]
                  exact ⟨hI', by rw [hA'], hA'⟩
                | none =>
                  simp only [Option.map_none, Option.isSome_none]
                  have := ih s' w (cons ++ [d]) a' hI' F hF'
                  rw [hA'] at this
                  simpa using this
              | false =>
                have h1 : ¬ (false = true) := by simp
                have h2 : (!false) = true := by simp
                rw [if_pos h1, if_pos h2]
                by_cases hlk : s'.st = St.looking
                · have h3 : ¬ (s'.st ≠ St.looking) := by simp [hlk]
                  have h4 : ¬ ((s'.st != St.looking) = true) := by simp [hlk]
                  rw [if_neg h3, if_neg h4]
                  have hw : goWrite E.write w d = (w ++ d, ((d.length : Nat) : Int), none) := by
                    simp [goWrite, hE.write]
                  rw [hw]
                  simp only []
                  have h5 : ¬ ((none : Option GErr) ≠ none ∧ (Option.map lerr err = none ∨
                      Option.map lerr err = some (GErr.slice (SliceErr.rerr RErr.eof)))) := by simp
                  rw [if_neg h5]
                  cases err with
                  | some x =>
                    simp only [Option.map_some, Option.isSome_some, if_true]
                    rw [hF0, loop_exit E F0 _ _ _ _ _ (by simp)]
                    simp [LoopRel]
                    exact ⟨hI', by rw [hA'], hA'⟩
                  | none =>
                    simp only [Option.map_none, Option.isSome_none]
                    have := ih s' (w ++ d) cons a' hI' F hF'
                    rw [hA'] at this
                    simpa using this
                · have h3 : s'.st ≠ St.looking := hlk
                  have h4 : (s'.st != St.looking) = true := by simpa using hlk
                  rw [if_pos h3, if_pos h4, hE.buf a' hI', hA']
                  simp only [Option.bind_some, goAppendN_some]
                  simp [LoopRel]
                  exact ⟨hI', by rw [hA']⟩

/-- the `*Snapshot` `ScanSnapshot` returns for the goroutines of the model's result -/
def snapOf (o : Cli.Opts) (gs : List Goroutine) : Snapshot :=
  { goroutines := gs, localGOROOT := o.localGOROOT, localGOPATHs := o.localGOPATHs }

theorem tie_ScanSnapshot (E : Env) (hE : ScanEnvOK E)
    (hN : ∀ gs, E.nameArguments gs = some (PP.nameArguments gs))
    (o : Cli.Opts) (hv : E.isValid o = true) (hg : o.guessPaths = false) (ha : o.analyzeSources = false)
    (src : Src)
    (hf : src.rest.length + 3 ≤ E.fuel_ScanSnapshot
      ([], ⟨{}, { localGOROOT := o.localGOROOT, localGOPATHs := o.localGOPATHs }⟩, initRdA src, none, none)) :
    match PP.scanSnapshot bufN 100 o.nameArguments src with
    | none => True
    | some res =>
      if res.panicked = true then TrRd.ScanSnapshot E src [] (some o) = none
      else ∃ src', TrRd.ScanSnapshot E src [] (some o) =
        some ((src', res.fwd), (res.snap.map (snapOf o), res.suffix, res.err.map lerr)) := by
  unfold TrRd.ScanSnapshot PP.scanSnapshot
  simp only []
  rw [if_neg (by simp [hv])]
  generalize hX : loopFuel _ _ _ = X
  have hl : LoopRel { localGOROOT := o.localGOROOT, localGOPATHs := o.localGOPATHs } X
      (scanB bufN 100 (src.rest.length + 2) {} [] [] { src := src }) := by
    rw [← hX, ← absRd_init]
    exact scan_loop E hE _ _ _ _ _ (initRdA src) (RdInv_init src) _ hf
  cases hsb : scanB bufN 100 (src.rest.length + 2) {} [] [] { src := src } with
  | none => simp
  | some o' =>
    rw [hsb] at hl
    simp only [LoopRel] at hl
    by_cases hp : o'.panicked = true
    · rw [if_pos hp] at hl
      subst hl
      simp [hp]
    · rw [if_neg hp] at hl
      obtain ⟨a', rfl, hI', hsrc, hrd⟩ := hl
      simp only [after_cont]
      rw [if_neg hp]
      refine ⟨a'.rd, ?_⟩
      have hsuf : (if o'.s.st = St.done ∧ o'.suffix = none then (E.buffered a').bind fun t6 => some (some t6)
          else some o'.suffix) = some (finishSuffix o').1 := by
        unfold finishSuffix
        by_cases hc : o'.s.st = St.done ∧ o'.suffix = none
        · rw [if_pos hc, hE.buf a' hI', hrd hc.2]
          simp [hc.1, hc.2]
        · rw [if_neg hc]
          have : ¬ ((o'.s.st == St.done && o'.suffix.isNone) = true) := by
            simp only [Bool.and_eq_true, beq_iff_eq, Option.isNone_iff_eq_none]
            exact hc
          simp [this]
      rw [hsuf]
      simp only [Option.bind_some]
      by_cases hgs : o'.s.gs = []
      · simp [hgs]
      · rw [if_pos hgs]
        simp only [hg, ha, hN]
        cases o.nameArguments <;> simp [hgs, snapOf, ScanSt.snapshot]

/-- the option gate: a nil `*Opts` -/
theorem tie_ScanSnapshot_nil (E : Env) (src : Src) (w : Bytes) :
    TrRd.ScanSnapshot E src w none = some ((src, w), (none, none, some GErr.invalidOpts)) := rfl

/-- the option gate: `isValid` says no; nothing is read, nothing is written -/
theorem tie_ScanSnapshot_invalid (E : Env) (src : Src) (w : Bytes) (o : Cli.Opts) (hv : E.isValid o = false) :
    TrRd.ScanSnapshot E src w (some o) = some ((src, w), (none, none, some GErr.invalidOpts)) := by
  unfold TrRd.ScanSnapshot
  simp [hv]

/-! ### the closed environment: every callee IS the translated function -/

theorem fill_loop1_congr {E E' : Env} (h : E.scratch = E'.scratch) : fill_loop1 E = fill_loop1 E' := by
  funext r; simp only [fill_loop1, h]

theorem fill_congr {E E' : Env} (h : E.scratch = E'.scratch) : TrRd.fill E = TrRd.fill E' := by
  funext r; simp only [TrRd.fill, fill_loop1_congr h]

theorem readSlice_loop1_congr {E E' : Env} (h : E.fill = E'.fill) : readSlice_loop1 E = readSlice_loop1 E' := by
  funext ⟨r, s⟩; simp only [readSlice_loop1, h]

theorem readSlice_congr {E E' : Env} (h1 : E.fill = E'.fill) (h2 : E.fuel_readSlice = E'.fuel_readSlice) :
    TrRd.readSlice E = TrRd.readSlice E' := by
  funext r; simp only [TrRd.readSlice, readSlice_loop1_congr h1, h2]

theorem readLine_loop1_congr {E E' : Env} (h : E.readSlice = E'.readSlice) : readLine_loop1 E = readLine_loop1 E' := by
  funext ⟨r, d⟩; simp only [readLine_loop1, h]

theorem readLine_congr {E E' : Env} (h1 : E.readSlice = E'.readSlice) (h2 : E.fuel_readLine = E'.fuel_readLine) :
    TrRd.readLine E = TrRd.readLine E' := by
  funext r; simp only [TrRd.readLine, readLine_loop1_congr h1, h2]

/-- the oracles of `O` (scratch bytes, `scan`, `isValid`, the post-processing, the writer: all arbitrary), no callee yet, and
the fuel the model's lemmas show to suffice -/
def baseEnv (O : Env) : Env :=
  { O with fill := fun _ => none, buffered := fun _ => none, readSlice := fun _ => none, readLine := fun _ => none,
           ScanSnapshot := fun _ _ _ => none,
           fuel_readSlice := fun _ => bufN + 2, fuel_readLine := fun st => lineFuel (absRd st.1),
           fuel_ScanSnapshot := fun st => (absRd st.2.2.1).src.rest.length + 3 }

/-- the environment in which every function of the group is the translated one (built bottom-up along the acyclic
call graph fill ← readSlice ← readLine ← ScanSnapshot) -/
def implEnv (O : Env) : Env :=
  let E1 : Env := { baseEnv O with fill := TrRd.fill (baseEnv O), buffered := TrRd.buffered (baseEnv O) }
  let E2 : Env := { E1 with readSlice := TrRd.readSlice E1 }
  let E3 : Env := { E2 with readLine := TrRd.readLine E2 }
  { E3 with ScanSnapshot := TrRd.ScanSnapshot E3 }

/-- `implEnv` is a fixed point of the translated equations -/
theorem implEnv_fix (O : Env) :
    (implEnv O).fill = TrRd.fill (implEnv O) ∧ (implEnv O).buffered = TrRd.buffered (implEnv O) ∧
    (implEnv O).readSlice = TrRd.readSlice (implEnv O) ∧ (implEnv O).readLine = TrRd.readLine (implEnv O) ∧
    (implEnv O).ScanSnapshot = TrRd.ScanSnapshot (implEnv O) :=
  ⟨fill_congr rfl, rfl, readSlice_congr rfl rfl, readLine_congr rfl rfl, rfl⟩

theorem impl_fill (O : Env) : FillRef (implEnv O).fill := tie_fill (baseEnv O)

theorem impl_buffered (O : Env) : BufRef (implEnv O).buffered := tie_buffered (baseEnv O)

theorem impl_readSlice (O : Env) : SliceRef (fun _ => bufN + 2) (implEnv O).readSlice :=
  tie_readSlice { baseEnv O with fill := TrRd.fill (baseEnv O), buffered := TrRd.buffered (baseEnv O) } (tie_fill (baseEnv O))

theorem impl_readLine (O : Env) : LineRef (fun a => lineFuel (absRd a)) (implEnv O).readLine :=
  tie_readLine
    { baseEnv O with fill := TrRd.fill (baseEnv O), buffered := TrRd.buffered (baseEnv O),
                       readSlice := (implEnv O).readSlice } (impl_readSlice O)

/-- the oracles `ScanSnapshot` is tied under: `scan` is the model's `scanBytes` (group ScanSM: `TrSM.tie_scan`), the
`io.Writer` never fails (as in the model), `nameArguments` is the model's -/
structure OraclesOK (O : Env) : Prop where
  scan : ∀ s d, O.scan s d = TrSM.liftR (scanBytes s d)
  write : ∀ w d, O.write w d = (d.length, none)
  names : ∀ gs, O.nameArguments gs = some (PP.nameArguments gs)

theorem impl_ScanEnvOK (O : Env) (hO : OraclesOK O) : ScanEnvOK (implEnv O) :=
  ⟨impl_readLine O, impl_buffered O, hO.scan, hO.write⟩

/-- `ScanSnapshot` in the closed environment against the model's `scanSnapshot` (GuessPaths / AnalyzeSources off, as in
the model; a fresh writer) -/
theorem impl_ScanSnapshot (O : Env) (hO : OraclesOK O) (o : Cli.Opts) (hv : O.isValid o = true)
    (hg : o.guessPaths = false) (ha : o.analyzeSources = false) (src : Src) :
    match PP.scanSnapshot bufN 100 o.nameArguments src with
    | none => True
    | some res =>
      if res.panicked = true then (implEnv O).ScanSnapshot src [] (some o) = none
      else ∃ src', (implEnv O).ScanSnapshot src [] (some o) =
        some ((src', res.fwd), (res.snap.map (snapOf o), res.suffix, res.err.map lerr)) :=
  tie_ScanSnapshot _ ⟨impl_readLine O, impl_buffered O, hO.scan, hO.write⟩ hO.names o hv hg ha src (Nat.le_refl _)


/-- with that fuel the loops do not run dry and nothing panics: on every state that satisfies the invariant the
translated `readLine` returns, and what it returns is what the model's `readLine` returns -/
theorem impl_readLine_total (O : Env) (a : RdA) (hI : RdInv a) :
    ∃ a' l e r', PP.readLine bufN 100 (lineFuel (absRd a)) [] (absRd a) = some (.ok (l, e, r')) ∧
      (implEnv O).readLine a = some (a', (l, e.map SliceErr.rerr)) ∧ RdInv a' ∧ absRd a' = r' := by
  have hl := absRd_length hI
  have hb : (absRd a).buf.length ≤ bufN := by have := hI.wN; have := hI.r0; omega
  have h1 := readLine_isSome bufN 100 (lineFuel (absRd a)) [] (absRd a) bufN_pos hb (by simp [lineFuel])
  have h2 := (readLine_inv bufN 100 (lineFuel (absRd a)) [] (absRd a) hb).1
  have h3 := impl_readLine O a hI
  simp only at h3
  cases hr : PP.readLine bufN 100 (lineFuel (absRd a)) [] (absRd a) with
  | none => rw [hr] at h1; simp at h1
  | some x =>
    cases x with
    | error p => exact absurd hr (h2 p)
    | ok v =>
      obtain ⟨l, e, r'⟩ := v
      rw [hr] at h3
      obtain ⟨a', e1, hI', hA'⟩ := h3
      exact ⟨a', l, e, r', rfl, e1, hI', hA'⟩

/-- closing the loop with the model's own theorems (`scanSnapshot_total`: the fuel suffices when the source never stalls
100 times in a row; `scanB_not_panicked`: nothing panics from the initial state): in the closed environment, under the
oracle assumptions, the translated `ScanSnapshot` RETURNS, and returns the model's result -/
theorem impl_ScanSnapshot_total (O : Env) (hO : OraclesOK O) (o : Cli.Opts) (hv : O.isValid o = true)
    (hg : o.guessPaths = false) (ha : o.analyzeSources = false) (src : Src) (hR : maxZeroRun src.sched < 100) :
    ∃ res src', PP.scanSnapshot bufN 100 o.nameArguments src = some res ∧ res.panicked = false ∧
      (implEnv O).ScanSnapshot src [] (some o) =
        some ((src', res.fwd), (res.snap.map (snapOf o), res.suffix, res.err.map lerr)) := by
  have h1 := scanSnapshot_total bufN 100 bufN_pos o.nameArguments src hR
  have h2 := impl_ScanSnapshot O hO o hv hg ha src
  cases hres : PP.scanSnapshot bufN 100 o.nameArguments src with
  | none => rw [hres] at h1; simp at h1
  | some res =>
    have hp : res.panicked = false := by
      unfold PP.scanSnapshot at hres
      split at hres
      · cases hres
      · rename_i ob hob
        cases hres
        exact (scanB_not_panicked bufN 100 _ {} [] [] { src := src } inv_init' (by simp) ob hob).1
    rw [hres] at h2
    simp only [hp] at h2
    obtain ⟨src', h3⟩ := h2
    exact ⟨res, src', rfl, hp, h3⟩

/-- the oracle assumptions are satisfiable -/
example : ∃ O : Env, OraclesOK O :=
  ⟨{ fill := fun _ => none, buffered := fun _ => none, readSlice := fun _ => none, readLine := fun _ => none,
     ScanSnapshot := fun _ _ _ => none, scan := fun s d => TrSM.liftR (scanBytes s d), isValid := Cli.Opts.isValid,
     nameArguments := fun gs => some (PP.nameArguments gs), guessPaths := some, augment := some,
     write := fun _ d => (d.length, none), scratch := fun _ => [], fuel_readSlice := fun _ => 0,
     fuel_readLine := fun _ => 0, fuel_ScanSnapshot := fun _ => 0 }, ⟨fun _ _ => rfl, fun _ _ => rfl, fun _ => rfl⟩⟩

/-- the refinement statements are not vacuous: a `fill` on the initial state of a reader over a non-empty source -/
example (O : Env) (src : Src) :
    ∃ a', (implEnv O).fill (initRdA src) = some a' ∧ RdInv a' ∧ absRd a' = fillLoop bufN 100 { src := src } := by
  have h := impl_fill O (initRdA src) (RdInv_init src)
  rw [absRd_init] at h
  have h0 : ¬ bufN = 0 := by decide
  simpa [PP.fill, h0] using h

#print axioms tie_fill
#print axioms tie_buffered
#print axioms tie_readSlice
#print axioms tie_readLine
#print axioms implEnv_fix
#print axioms impl_readLine
#print axioms impl_readLine_total
#print axioms tie_ScanSnapshot
#print axioms tie_ScanSnapshot_nil
#print axioms tie_ScanSnapshot_invalid
#print axioms impl_ScanSnapshot
#print axioms impl_ScanSnapshot_total

end PP.TrRd
