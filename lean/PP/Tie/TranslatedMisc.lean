import PP.TranslatedMisc
import PP.Tie.TranslatedRoots
import PP.Tie.TranslatedScan
import PP.Model.AugmentGlue
import PP.Lemmas.RootsLemmas
import PP.Lemmas.RootsFind
import PP.Lemmas.RootsSplit
import PP.Lemmas.RuneCount
import PP.Lemmas.Less
import PP.Lemmas.LineOffsetsLemmas
/-
Tie A, translated group Misc: the small functions of package stack that the other groups and the
properties use as model functions — `splitPath`, `getFiles`, `(*Snapshot).IsRace`,
`(*Opts).isValid`, `(*Snapshot).guessPaths` (stack/context.go), `sortedByLen`, `pathJoin`,
`(*Func).String` (stack/stack.go), `lineToByteOffsets` (stack/source.go) — translated from the Go
source on every run (`PP/TranslatedMisc.lean`) and proved equal to the hand-written models
(`PP/Model/Roots.lean`, `Cli.lean`, `AugmentGlue.lean`, `Types.lean`).

Oracles of the generated `Env`: `mapOrder` (the order in which a range over a map visits the keys:
the theorems hold for EVERY oracle that returns a permutation, so the results do not depend on the
map order), `fuel` (the one unbounded loop: `src.length + 1` iterations suffice),
`Snapshot_findRoots` (tied in group Roots) and `Signature_updateLocations` (tied in group Scan),
which `modelEnv` maps to the same model functions as the `modelEnv` of those groups
(`mE_findRoots_eq_Roots`, `mE_updateLocations_eq_Scan`).  A Go run-time panic (`none`)
corresponds to `Except.error` of the model.

The ties of the functions that call nothing through the environment (all but guessPaths) are stated for
EVERY environment `E` (with the permutation / fuel hypothesis where an oracle is used); the `…_model`
corollaries at the end restate them in the fixed-point shape of the other groups.

`for _, c := range p` over a string: `string(c)` is a real UTF-8 encoder (`goRuneString`), and
`decodeRune_roundtrip` proves that it gives back the bytes the rune was decoded from (what the
model's `nextRune` takes), so no fact about UTF-8 is assumed.
-/
set_option linter.unusedSimpArgs false

namespace PP.TrM
open PP PP.Go PP.Go.Misc

/-- the model's `Except` as the translated functions return it: `none` = a Go panic -/
def ofExcept {ε α : Type} : Except ε α → Option α
  | .ok a => some a
  | .error _ => none

/-- every Go function of the group is mapped to its hand-written model -/
def modelEnv (fs : FS) (ord : List Bytes → List Bytes) (fuel : Nat) : Env where
  mapOrder := ord
  fuel := fuel
  Signature_updateLocations s goroot lg gomods gopaths := some (s.updateLocations goroot lg gomods gopaths)
  Snapshot_findRoots s := TrR.findRootsResult s (s.findRoots fs)
  splitPath p := some (PP.splitPath p)
  getFiles gs := some (PP.getFiles gs)
  Snapshot_IsRace s := ofExcept (Cli.isRace s.goroutines)
  Opts_isValid o := some o.isValid
  Snapshot_guessPaths s := ofExcept (s.guessPaths fs)
  sortedByLen m := some (PP.sortedByLen m)
  pathJoin xs := some (PP.pathJoin xs)
  Func_String f := some f.complete
  lineToByteOffsets src := some (AugGlue.lineToByteOffsets src)

section
variable (fs : FS) (ord : List Bytes → List Bytes) (fuel : Nat)

@[simp] theorem mE_mapOrder (l : List Bytes) : (modelEnv fs ord fuel).mapOrder l = ord l := rfl
@[simp] theorem mE_fuel : (modelEnv fs ord fuel).fuel = fuel := rfl
@[simp] theorem mE_updateLocations (s : Signature) (a b : Bytes) (c d : AMap) :
    (modelEnv fs ord fuel).Signature_updateLocations s a b c d = some (s.updateLocations a b c d) := rfl
@[simp] theorem mE_findRoots (s : Snapshot) :
    (modelEnv fs ord fuel).Snapshot_findRoots s = TrR.findRootsResult s (s.findRoots fs) := rfl
@[simp] theorem mE_splitPath (p : Bytes) : (modelEnv fs ord fuel).splitPath p = some (PP.splitPath p) := rfl
@[simp] theorem mE_getFiles (gs : List Goroutine) : (modelEnv fs ord fuel).getFiles gs = some (PP.getFiles gs) := rfl
@[simp] theorem mE_IsRace (s : Snapshot) :
    (modelEnv fs ord fuel).Snapshot_IsRace s = ofExcept (Cli.isRace s.goroutines) := rfl
@[simp] theorem mE_isValid (o : Cli.Opts) : (modelEnv fs ord fuel).Opts_isValid o = some o.isValid := rfl
@[simp] theorem mE_guessPaths (s : Snapshot) :
    (modelEnv fs ord fuel).Snapshot_guessPaths s = ofExcept (s.guessPaths fs) := rfl
@[simp] theorem mE_sortedByLen (m : AMap) : (modelEnv fs ord fuel).sortedByLen m = some (PP.sortedByLen m) := rfl
@[simp] theorem mE_pathJoin (xs : List Bytes) : (modelEnv fs ord fuel).pathJoin xs = some (PP.pathJoin xs) := rfl
@[simp] theorem mE_Func_String (f : Func) : (modelEnv fs ord fuel).Func_String f = some f.complete := rfl
@[simp] theorem mE_lineToByteOffsets (src : Bytes) :
    (modelEnv fs ord fuel).lineToByteOffsets src = some (AugGlue.lineToByteOffsets src) := rfl

/-- the two methods of the environment are the model functions the groups that translate them are tied to -/
theorem mE_findRoots_eq_Roots :
    (modelEnv fs ord fuel).Snapshot_findRoots = (TrR.modelEnv fs).Snapshot_findRoots := rfl
theorem mE_updateLocations_eq_Scan :
    (modelEnv fs ord fuel).Signature_updateLocations = (TrS.modelEnv fs).Signature_updateLocations := rfl
end

/-! ### pathJoin, (*Func).String, (*Snapshot).IsRace -/

theorem tie_pathJoin (E : Env) (xs : List Bytes) : pathJoin E xs = some (PP.pathJoin xs) := rfl

theorem tie_Func_String (E : Env) (f : Func) : Func_String E f = some f.complete := rfl

theorem tie_Snapshot_IsRace (E : Env) (s : Snapshot) :
    Snapshot_IsRace E s = ofExcept (Cli.isRace s.goroutines) := by
  unfold Snapshot_IsRace goIdx
  cases s.goroutines with
  | nil => rfl
  | cons g t => rfl

/-! ### (*Opts).isValid -/

theorem loop_isValid (E : Env) (ps : List Bytes) (i : Nat) :
    forRange (Opts_isValid_loop1 E) ps i () =
      if Cli.gopathsValid ps then some (.cont ()) else some (.ret false) := by
  induction ps generalizing i with
  | nil => rfl
  | cons p ps ih =>
    rw [forRange_cons]
    simp only [Opts_isValid_loop1, goContainsByte, Cli.gopathsValid, Cli.containsBackslash, Cli.backslash]
    by_cases h : (92 : UInt8) ∈ p
    · simp [h]
    · simp [h, ih]

theorem tie_Opts_isValid (E : Env) (o : Cli.Opts) : Opts_isValid E o = some o.isValid := by
  unfold Opts_isValid Cli.Opts.isValid
  simp only [goContainsByte, Cli.containsBackslash, Cli.backslash, loop_isValid]
  by_cases h1 : (!o.guessPaths && o.analyzeSources) = true
  · simp [h1]
  · by_cases h2 : (92 : UInt8) ∈ o.localGOROOT
    · simp [h1, h2]
    · by_cases h3 : Cli.gopathsValid o.localGOPATHs = true <;> simp [h1, h2, h3]

/-! ### sortedByLen -/

theorem loop_sortedByLen (E : Env) (ks : List Bytes) (i : Nat) (keys : List Bytes) :
    forRange (sortedByLen_loop1 E) ks i keys = some (.cont (keys ++ ks)) := by
  induction ks generalizing i keys with
  | nil => simp
  | cons k ks ih =>
    rw [forRange_cons]
    simp only [sortedByLen_loop1]
    rw [ih]
    simp

/-- the translated comparison closure never panics -/
theorem less1_isSome (E : Env) (a b : Bytes) : (sortedByLen_less1 E a b).isSome = true := by
  unfold sortedByLen_less1
  split <;> rfl

/-- "a before b unless less b a", for the translated closure, is the model's order -/
theorem less1_le (E : Env) (a b : Bytes) :
    (!((sortedByLen_less1 E b a).getD false)) = lenLexLe a b := by
  unfold sortedByLen_less1 lenLexLe
  simp only [len, strLt]
  by_cases h : b.length = a.length
  · simp [h]
  · have h' : ¬ a.length = b.length := fun e => h e.symm
    simp only [bne_iff_ne, ne_eq, h, not_false_eq_true, if_true, Option.getD_some, beq_iff_eq, h',
      decide_false, Bool.false_and, Bool.or_false]
    by_cases h2 : a.length < b.length
    · have : ¬ b.length < a.length := by omega
      simp [h2, this]
      intro e; exact absurd e h'
    · have : b.length < a.length := by omega
      simp [this]
      omega

/-- the closure of `sortedByLen` is a strict TOTAL order on distinct keys, so the sorted permutation
sort.Slice returns is unique: any permutation of the keys that is sorted for the closure is the model's
`sortedByLen` (this discharges the side condition of `goSortSlice`, see PreludeMisc.lean) -/
theorem sortedByLen_sorted_unique (E : Env) (m : AMap) (l : List Bytes) (hp : l.Perm m.keys)
    (hs : l.Pairwise fun a b => (sortedByLen_less1 E b a).getD false = false) : l = PP.sortedByLen m := by
  have hs' : l.Pairwise fun a b => lenLexLe a b = true := by
    refine hs.imp ?_
    intro a b h
    rw [← less1_le E a b, h]
    rfl
  exact List.Perm.eq_of_pairwise (le := fun a b => lenLexLe a b = true)
    (fun a b _ _ h1 h2 => lenLexLe_antisymm a b h1 h2) hs' (sortedByLen_pairwise m)
    (hp.trans (List.mergeSort_perm _ _).symm)

/-- `sortedByLen`, for every order in which the range over the map may visit the keys -/
theorem tie_sortedByLen (E : Env) (hord : ∀ l, (E.mapOrder l).Perm l) (m : AMap) :
    sortedByLen E m = some (PP.sortedByLen m) := by
  simp only [sortedByLen, loop_sortedByLen, after_cont, List.nil_append, goSortSlice, less1_isSome, List.all_eq_true, implies_true, if_true,
    Option.bind_eq_bind, Option.bind_some]
  have hf : (fun a b => !((sortedByLen_less1 E b a).getD false)) = lenLexLe := by
    funext a b; exact less1_le E a b
  rw [hf]
  congr 1
  exact List.Perm.eq_of_pairwise (le := fun a b => lenLexLe a b = true)
    (fun a b _ _ h1 h2 => lenLexLe_antisymm a b h1 h2)
    (List.pairwise_mergeSort lenLexLe_trans lenLexLe_total _) (sortedByLen_pairwise m)
    ((List.mergeSort_perm _ _).trans ((hord _).trans (List.mergeSort_perm _ _).symm))

/-! ### lineToByteOffsets -/

theorem goSlice_from (src : Bytes) (offset : Nat) (h : offset ≤ src.length) :
    goSlice src offset src.length = some (src.drop offset) := by
  simp [goSlice, h]

/-- the `for offset := 0; offset < len(src); { … }` loop, with the fuel the model's loop has -/
theorem loop_offsets (E : Env) (src : Bytes) :
    ∀ (n F offset : Nat) (offsets : List Nat), n ≤ F → offset ≤ src.length → src.length + 1 ≤ offset + n →
      after (forFuel (lineToByteOffsets_loop1 E src) F (offsets, offset)) (fun st => some st.1) =
        some (AugGlue.lineOffsetsLoop n src offset offsets) := by
  intro n
  induction n with
  | zero => intro F offset offsets _ h1 h2; omega
  | succ n ih =>
    intro F offset offsets hF h1 h2
    obtain ⟨F', rfl⟩ : ∃ F', F = F' + 1 := ⟨F - 1, by omega⟩
    rw [forFuel_succ]
    simp only [lineToByteOffsets_loop1, len, AugGlue.lineOffsetsLoop]
    by_cases h : offset < src.length
    · simp only [h, decide_true, if_true, goSlice_from src offset h1, Option.bind_eq_bind, Option.bind_some,
        goIndexByteO]
      cases hi : Bytes.indexByte (src.drop offset) 10 with
      | none => simp
      | some k =>
        have hk := (AugGlue.newlineEnds_some (src.drop offset) 0 k hi).1
        simp only [List.length_drop] at hk
        simp only []
        have e : offset + (k + 1) = offset + k + 1 := by omega
        rw [e]
        exact ih F' (offset + k + 1) _ (by omega) (by omega) (by omega)
    · simp [h]

/-- `lineToByteOffsets`, with fuel for one iteration per byte and one more -/
theorem tie_lineToByteOffsets (E : Env) (src : Bytes) (hfuel : src.length + 1 ≤ E.fuel) :
    lineToByteOffsets E src = some (AugGlue.lineToByteOffsets src) := by
  simp only [lineToByteOffsets, AugGlue.lineToByteOffsets]
  exact loop_offsets E src (src.length + 1) E.fuel 0 [0, 0] hfuel (Nat.zero_le _) (by omega)

/-! ### (*Snapshot).guessPaths -/

/-- `r.updateLocations(s.RemoteGOROOT, s.LocalGOROOT, s.LocalGomods, s.RemoteGOPATHs)` -/
def updG (S : Snapshot) (g : Goroutine) : Goroutine × Bool :=
  g.updateLocations S.remoteGOROOT S.localGOROOT S.localGomods S.remoteGOPATHs

theorem set_append_length {α : Type} (done : List α) (x y : α) (xs : List α) :
    (done ++ x :: xs).set done.length y = done ++ y :: xs := by
  induction done with
  | nil => rfl
  | cons d ds ih => simp [ih]

section
variable (fs : FS) (ord : List Bytes → List Bytes) (fuel : Nat)

/-- the loop over `s.Goroutines`: iteration `i` rewrites element `i` of the slice held by the receiver
(the write through the pointer `r`), the other fields of the receiver are not touched -/
theorem loop_guessPaths (xs : List Goroutine) :
    ∀ (done : List Goroutine) (i : Nat) (b : Bool) (S : Snapshot), S.goroutines = done ++ xs → i = done.length →
      forRange (Snapshot_guessPaths_loop1 (modelEnv fs ord fuel)) xs i (S, b) =
        some (.cont ({ S with goroutines := done ++ xs.map fun g => (updG S g).1 },
          (xs.all fun g => (updG S g).2) && b)) := by
  induction xs with
  | nil =>
    intro done i b S h _
    simp only [forRange_nil, List.map_nil, List.all_nil, Bool.true_and]
    rw [← h]
  | cons x xs ih =>
    intro done i b S h hi
    subst hi
    rw [forRange_cons]
    simp only [Snapshot_guessPaths_loop1, mE_updateLocations, Option.bind_eq_bind, Option.bind_some]
    rw [h, set_append_length]
    have := ih (done ++ [{ x with sig := (x.sig.updateLocations S.remoteGOROOT S.localGOROOT S.localGomods S.remoteGOPATHs).1 }])
      (done.length + 1)
      ((x.sig.updateLocations S.remoteGOROOT S.localGOROOT S.localGomods S.remoteGOPATHs).2 && b)
      { S with goroutines := done ++ { x with sig := (x.sig.updateLocations S.remoteGOROOT S.localGOROOT S.localGomods S.remoteGOPATHs).1 } :: xs }
      (by simp) (by simp)
    rw [this]
    simp only [updG, Goroutine.updateLocations, List.map_cons, List.all_cons, List.append_assoc, List.singleton_append,
      Bool.and_assoc]
    congr 3
    rw [Bool.and_comm, Bool.and_assoc]
    congr 1
    exact Bool.and_comm _ _

/-- `(*Snapshot).guessPaths`: the receiver afterwards and the result; a panic of `findRoots` is a panic -/
theorem tie_Snapshot_guessPaths (s : Snapshot) :
    Snapshot_guessPaths (modelEnv fs ord fuel) s = (modelEnv fs ord fuel).Snapshot_guessPaths s := by
  simp only [mE_guessPaths, Snapshot_guessPaths, mE_findRoots, Snapshot.guessPaths]
  cases h : s.findRoots fs with
  | error e => rfl
  | ok st =>
    simp only [TrR.findRootsResult, Option.bind_eq_bind, Option.bind_some]
    rw [loop_guessPaths fs ord fuel (TrR.mkS s st).goroutines [] 0 _ (TrR.mkS s st) rfl rfl, after_cont]
    simp only [ofExcept, TrR.mkS, updG, List.nil_append, List.map_map, List.all_map, Option.some.injEq, Prod.mk.injEq]
    refine ⟨rfl, ?_⟩
    rw [Bool.and_comm]
    congr 1
end

/-! ### getFiles -/

/-- `files[k] = struct{}{}` for every `k` of a list, in order -/
def addAll (m : List Bytes) (ks : List Bytes) : List Bytes := ks.foldl goSetAdd m

theorem mem_goSetAdd {m : List Bytes} {k x : Bytes} : x ∈ goSetAdd m k ↔ x ∈ m ∨ x = k := by
  unfold goSetAdd
  by_cases h : k ∈ m
  · simp only [List.contains_iff_mem, h, if_true]
    constructor
    · exact Or.inl
    · rintro (h1 | rfl)
      · exact h1
      · exact h
  · simp [h]

theorem nodup_goSetAdd {m : List Bytes} {k : Bytes} (h : m.Nodup) : (goSetAdd m k).Nodup := by
  unfold goSetAdd
  by_cases hk : k ∈ m
  · simp [hk, h]
  · simp only [List.contains_iff_mem, hk, if_false]
    rw [List.nodup_append]
    refine ⟨h, by simp, ?_⟩
    intro a ha b hb
    simp only [List.mem_singleton] at hb
    subst hb
    intro e; subst e; exact hk ha

theorem mem_addAll {ks m : List Bytes} {x : Bytes} : x ∈ addAll m ks ↔ x ∈ m ∨ x ∈ ks := by
  induction ks generalizing m with
  | nil => simp [addAll]
  | cons k ks ih =>
    show x ∈ addAll (goSetAdd m k) ks ↔ _
    rw [ih, mem_goSetAdd, List.mem_cons, or_assoc]

theorem nodup_addAll {ks m : List Bytes} (h : m.Nodup) : (addAll m ks).Nodup := by
  induction ks generalizing m with
  | nil => exact h
  | cons k ks ih => exact ih (nodup_goSetAdd h)

theorem addAll_append (m a b : List Bytes) : addAll m (a ++ b) = addAll (addAll m a) b := by
  simp [addAll, List.foldl_append]

theorem loop_getFiles2 (E : Env) (cs : List Call) (i : Nat) (files : List Bytes) :
    forRange (getFiles_loop2 E) cs i files = some (.cont (addAll files (cs.map (·.remoteSrcPath)))) := by
  induction cs generalizing i files with
  | nil => rfl
  | cons c cs ih =>
    rw [forRange_cons]
    simp only [getFiles_loop2]
    rw [ih]
    rfl

theorem loop_getFiles1 (E : Env) (gs : List Goroutine) (i : Nat) (files : List Bytes) :
    forRange (getFiles_loop1 E) gs i files =
      some (.cont (addAll files (gs.flatMap fun g => g.sig.stack.calls.map (·.remoteSrcPath)))) := by
  induction gs generalizing i files with
  | nil => rfl
  | cons g gs ih =>
    rw [forRange_cons]
    simp only [getFiles_loop1, loop_getFiles2, afterIn_cont]
    rw [ih, List.flatMap_cons, addAll_append]

theorem loop_getFiles3 (E : Env) (fs : List Bytes) (i : Nat) (out : List Bytes) :
    forRange (getFiles_loop3 E) fs i out = some (.cont (out ++ fs)) := by
  induction fs generalizing i out with
  | nil => simp
  | cons f fs ih =>
    rw [forRange_cons]
    simp only [getFiles_loop3]
    rw [ih]
    simp

/-- the order of `sort.Strings`: "a before b unless b < a" -/
def strLe (a b : Bytes) : Bool := !bytesLt b a

theorem strLe_total (a b : Bytes) : (strLe a b || strLe b a) = true := by
  unfold strLe
  cases h1 : bytesLt b a
  · rfl
  · cases h2 : bytesLt a b
    · rfl
    · have := bytesLt_trans _ _ _ h1 h2
      rw [bytesLt_irrefl] at this
      exact absurd this (by simp)

theorem strLe_trans (a b c : Bytes) : strLe a b = true → strLe b c = true → strLe a c = true := by
  unfold strLe
  simp only [Bool.not_eq_true']
  intro h1 h2
  cases h3 : bytesLt c a
  · rfl
  · cases h4 : bytesLt a b
    · have := bytesLt_tri a b h4 h1
      subst this
      rw [h3] at h2
      exact absurd h2 (by simp)
    · have := bytesLt_trans _ _ _ h3 h4
      rw [this] at h2
      exact absurd h2 (by simp)

theorem strLe_antisymm (a b : Bytes) : strLe a b = true → strLe b a = true → a = b := by
  unfold strLe
  simp only [Bool.not_eq_true']
  intro h1 h2
  exact bytesLt_tri a b h2 h1

theorem strLe_of_lt {a b : Bytes} (h : bytesLt a b = true) : strLe a b = true := by
  unfold strLe
  cases h2 : bytesLt b a
  · rfl
  · have := bytesLt_trans _ _ _ h h2
    rw [bytesLt_irrefl] at this
    exact absurd this (by simp)

theorem insertUniq_sorted (a : Bytes) (l : List Bytes) (h : l.Pairwise fun x y => bytesLt x y = true) :
    (insertUniq a l).Pairwise fun x y => bytesLt x y = true := by
  induction l with
  | nil => simp [insertUniq]
  | cons b t ih =>
    rw [List.pairwise_cons] at h
    simp only [insertUniq]
    split
    · exact List.pairwise_cons.mpr h
    · rename_i hab
      split
      · rename_i hlt
        refine List.pairwise_cons.mpr ⟨?_, List.pairwise_cons.mpr h⟩
        intro x hx
        rcases List.mem_cons.mp hx with rfl | hx
        · exact hlt
        · exact bytesLt_trans _ _ _ hlt (h.1 x hx)
      · rename_i hlt
        refine List.pairwise_cons.mpr ⟨?_, ih h.2⟩
        intro x hx
        rcases mem_insertUniq.mp hx with rfl | hx
        · cases hba : bytesLt b x
          · have := bytesLt_tri x b (by simpa using hlt) hba
            subst this
            simp at hab
          · rfl
        · exact h.1 x hx

theorem foldr_insertUniq_sorted (l : List Bytes) :
    (l.foldr insertUniq []).Pairwise fun x y => bytesLt x y = true := by
  induction l with
  | nil => simp
  | cons a t ih => exact insertUniq_sorted a _ ih

theorem nodup_of_sorted {l : List Bytes} (h : l.Pairwise fun x y => bytesLt x y = true) : l.Nodup := by
  refine h.imp ?_
  intro a b hab e
  subst e
  rw [bytesLt_irrefl] at hab
  exact absurd hab (by simp)

/-- `getFiles`, for every order in which the range over the set may visit the keys: the result does not
depend on the map order -/
theorem tie_getFiles (E : Env) (hord : ∀ l, (E.mapOrder l).Perm l) (gs : List Goroutine) :
    getFiles E gs = some (PP.getFiles gs) := by
  simp only [getFiles, loop_getFiles1, after_cont, len, loop_getFiles3, List.nil_append, PP.getFiles]
  generalize (gs.flatMap fun g => g.sig.stack.calls.map (·.remoteSrcPath)) = L
  have hmem : ∀ x, x ∈ addAll [] L ↔ x ∈ L := fun x => by simp [mem_addAll]
  by_cases h0 : (addAll [] L).length = 0
  · have hnil : addAll [] L = [] := List.length_eq_zero_iff.mp h0
    have hL : L = [] := by
      cases L with
      | nil => rfl
      | cons a t =>
        have := (hmem a).mpr (List.mem_cons_self)
        rw [hnil] at this
        exact absurd this (by simp)
    subst hL
    simp [addAll]
  · simp only [beq_iff_eq, h0, if_false, Option.some.injEq]
    have hsorted := foldr_insertUniq_sorted L
    have hperm : (addAll [] L).Perm (L.foldr insertUniq []) := by
      rw [List.perm_ext_iff_of_nodup (nodup_addAll List.nodup_nil) (nodup_of_sorted hsorted)]
      intro x
      rw [hmem, mem_foldr_insertUniq]
    exact List.Perm.eq_of_pairwise (le := fun a b => strLe a b = true)
      (fun a b _ _ h1 h2 => strLe_antisymm a b h1 h2)
      (List.pairwise_mergeSort strLe_trans strLe_total _)
      (hsorted.imp fun h => strLe_of_lt h)
      ((List.mergeSort_perm _ _).trans ((hord _).trans hperm))

/-! ### splitPath -/

set_option maxRecDepth 8000 in
theorem rb2 : ∀ n, n < 256 → (0xC2 ≤ n → n ≤ 0xDF → 128 ≤ (n &&& 0x1F) <<< 6) := by decide
set_option maxRecDepth 8000 in
theorem rb3a : ∀ n, n < 256 → (0xA0 ≤ n → n ≤ 0xBF → 128 ≤ (n &&& 0x3F) <<< 6) := by decide
set_option maxRecDepth 8000 in
theorem rb3b : ∀ n, n < 256 → (0xE1 ≤ n → n ≤ 0xEF → 128 ≤ (n &&& 0x0F) <<< 12) := by decide
set_option maxRecDepth 8000 in
theorem rb4a : ∀ n, n < 256 → (0x90 ≤ n → n ≤ 0xBF → 128 ≤ (n &&& 0x3F) <<< 12) := by decide
set_option maxRecDepth 8000 in
theorem rb4b : ∀ n, n < 256 → (0xF1 ≤ n → n ≤ 0xF4 → 128 ≤ (n &&& 0x07) <<< 18) := by decide

theorem ite_fst_ge {c : Prop} [Decidable c] (v n : Nat) (h : c → 0x80 ≤ v) :
    0x80 ≤ (if c then (v, n) else (runeError, 1)).1 := by
  by_cases hc : c
  · rw [if_pos hc]; exact h hc
  · rw [if_neg hc]; decide

/-- a rune that does not start with an ASCII byte is not an ASCII code point (in particular not `/`) -/
theorem decodeRune_val_ge (b0 : UInt8) (t : Bytes) (h : 0x80 ≤ b0.toNat) :
    0x80 ≤ (decodeRune (b0 :: t)).1 := by
  have hlt : b0.toNat < 256 := UInt8.toNat_lt b0
  unfold decodeRune
  simp only
  split
  · omega
  · split
    · rename_i h1
      simp only [Bool.and_eq_true, decide_eq_true_eq] at h1
      split
      · rename_i b1 t1
        apply ite_fst_ge
        intro _
        exact Nat.le_trans (rb2 _ hlt h1.1 h1.2) Nat.left_le_or
      · decide
    · split
      · rename_i h2
        simp only [Bool.and_eq_true, decide_eq_true_eq] at h2
        split
        · rename_i b1 b2 t2
          apply ite_fst_ge
          intro hc
          simp only [Bool.and_eq_true, decide_eq_true_eq] at hc
          have h5 := hc.1.1
          have h6 := hc.1.2
          have hb1 : b1.toNat < 256 := UInt8.toNat_lt b1
          by_cases he : b0.toNat = 0xE0
          · have h5' : 0xA0 ≤ b1.toNat := by simpa [he] using h5
            have h7 : b1.toNat ≤ 0xBF := by split at h6 <;> omega
            exact Nat.le_trans (Nat.le_trans (rb3a _ hb1 h5' h7) Nat.right_le_or) Nat.left_le_or
          · exact Nat.le_trans (Nat.le_trans (rb3b _ hlt (by omega) h2.2) Nat.left_le_or) Nat.left_le_or
        · decide
      · split
        · rename_i h3
          simp only [Bool.and_eq_true, decide_eq_true_eq] at h3
          split
          · rename_i b1 b2 b3 t3
            apply ite_fst_ge
            intro hc
            simp only [Bool.and_eq_true, decide_eq_true_eq] at hc
            have h5 := hc.1.1.1
            have h6 := hc.1.1.2
            have hb1 : b1.toNat < 256 := UInt8.toNat_lt b1
            by_cases he : b0.toNat = 0xF0
            · have h5' : 0x90 ≤ b1.toNat := by simpa [he] using h5
              have h7 : b1.toNat ≤ 0xBF := by split at h6 <;> omega
              exact Nat.le_trans (Nat.le_trans (Nat.le_trans (rb4a _ hb1 h5' h7) Nat.right_le_or) Nat.left_le_or)
                Nat.left_le_or
            · exact Nat.le_trans (Nat.le_trans (Nat.le_trans (rb4b _ hlt (by omega) h3.2) Nat.left_le_or)
                Nat.left_le_or) Nat.left_le_or
          · decide
        · decide

/-! #### UTF-8: encoding the rune `utf8.DecodeRune` yields gives back the bytes it was decoded from -/

theorem or_shift6 (a b : Nat) (h : b < 64) : a <<< 6 ||| b = a * 64 + b := by
  rw [← Nat.shiftLeft_add_eq_or_of_lt (i := 6) h a, Nat.shiftLeft_eq]
theorem or_shift12 (a b : Nat) (h : b < 4096) : a <<< 12 ||| b = a * 4096 + b := by
  rw [← Nat.shiftLeft_add_eq_or_of_lt (i := 12) h a, Nat.shiftLeft_eq]
theorem or_shift18 (a b : Nat) (h : b < 262144) : a <<< 18 ||| b = a * 262144 + b := by
  have p18 : (2 : Nat) ^ 18 = 262144 := by decide
  rw [← Nat.shiftLeft_add_eq_or_of_lt (i := 18) (by rw [p18]; exact h) a, Nat.shiftLeft_eq, p18]
theorem sh6 (x : Nat) : x <<< 6 = x * 64 := Nat.shiftLeft_eq _ _
theorem sh12 (x : Nat) : x <<< 12 = x * 4096 := Nat.shiftLeft_eq _ _

theorem or80 (y : Nat) (h : y < 64) : 0x80 ||| y = 128 + y :=
  (Nat.two_pow_add_eq_or_of_lt (i := 6) h 2).symm
theorem orC0 (y : Nat) (h : y < 32) : 0xC0 ||| y = 192 + y :=
  (Nat.two_pow_add_eq_or_of_lt (i := 5) h 6).symm
theorem orE0 (y : Nat) (h : y < 16) : 0xE0 ||| y = 224 + y :=
  (Nat.two_pow_add_eq_or_of_lt (i := 4) h 14).symm
theorem orF0 (y : Nat) (h : y < 8) : 0xF0 ||| y = 240 + y :=
  (Nat.two_pow_add_eq_or_of_lt (i := 3) h 30).symm

theorem and3F (x : Nat) : x &&& 0x3F = x % 64 := Nat.and_two_pow_sub_one_eq_mod x 6

theorem pack2 (x y : Nat) (hy : y < 64) : x <<< 6 ||| y = x * 64 + y := or_shift6 x y hy

theorem pack3 (x y z : Nat) (hy : y < 64) (hz : z < 64) :
    x <<< 12 ||| y <<< 6 ||| z = x * 4096 + y * 64 + z := by
  rw [sh6 y, or_shift12 _ _ (by omega)]
  have e : x * 4096 + y * 64 = (x * 64 + y) <<< 6 := by rw [sh6]; omega
  rw [e, or_shift6 _ _ hz]
  clear e
  omega

theorem pack4 (x y z w : Nat) (hy : y < 64) (hz : z < 64) (hw : w < 64) :
    x <<< 18 ||| y <<< 12 ||| z <<< 6 ||| w = x * 262144 + y * 4096 + z * 64 + w := by
  rw [sh12 y, or_shift18 _ _ (by omega)]
  have e : x * 262144 + y * 4096 = (x * 64 + y) <<< 12 := by rw [sh12]; omega
  rw [e, pack3 _ _ _ hz hw]
  clear e
  omega

theorem v2 (c0 b1 : Nat) : (c0 &&& 0x1F) <<< 6 ||| (b1 &&& 0x3F) = (c0 % 32) * 64 + b1 % 64 := by
  have e1 : c0 &&& 0x1F = c0 % 32 := Nat.and_two_pow_sub_one_eq_mod c0 5
  rw [e1, and3F, pack2 _ _ (by omega)]

theorem v3 (c0 b1 b2 : Nat) :
    (c0 &&& 0x0F) <<< 12 ||| (b1 &&& 0x3F) <<< 6 ||| (b2 &&& 0x3F) = (c0 % 16) * 4096 + (b1 % 64) * 64 + b2 % 64 := by
  have e1 : c0 &&& 0x0F = c0 % 16 := Nat.and_two_pow_sub_one_eq_mod c0 4
  rw [e1, and3F, and3F, pack3 _ _ _ (by omega) (by omega)]

theorem v4 (c0 b1 b2 b3 : Nat) :
    (c0 &&& 0x07) <<< 18 ||| (b1 &&& 0x3F) <<< 12 ||| (b2 &&& 0x3F) <<< 6 ||| (b3 &&& 0x3F) =
      (c0 % 8) * 262144 + (b1 % 64) * 4096 + (b2 % 64) * 64 + b3 % 64 := by
  have e1 : c0 &&& 0x07 = c0 % 8 := Nat.and_two_pow_sub_one_eq_mod c0 3
  rw [e1, and3F, and3F, and3F, pack4 _ _ _ _ (by omega) (by omega) (by omega)]

theorem enc1 (c0 : Nat) (h : c0 < 0x80) : goRuneString c0 = [UInt8.ofNat c0] := by
  unfold goRuneString
  rw [if_pos h]

theorem enc2 (c0 b1 : Nat) (h0 : 0xC2 ≤ c0) (h1 : c0 ≤ 0xDF) (h2 : 0x80 ≤ b1) (h3 : b1 ≤ 0xBF) :
    goRuneString ((c0 &&& 0x1F) <<< 6 ||| (b1 &&& 0x3F)) = [UInt8.ofNat c0, UInt8.ofNat b1] := by
  rw [v2]
  generalize hr : (c0 % 32) * 64 + b1 % 64 = r
  unfold goRuneString
  rw [if_neg (by omega), if_pos (by omega)]
  have a1 : 0xC0 ||| r >>> 6 = c0 := by
    rw [Nat.shiftRight_eq_div_pow, orC0 _ (by omega)]; omega
  have a2 : 0x80 ||| (r &&& 0x3F) = b1 := by
    rw [and3F, or80 _ (by omega)]; omega
  rw [a1, a2]

theorem enc3 (c0 b1 b2 : Nat) (h0 : 0xE0 ≤ c0) (h1 : c0 ≤ 0xEF) (h2 : 0x80 ≤ b1) (h3 : b1 ≤ 0xBF)
    (hlo : c0 = 0xE0 → 0xA0 ≤ b1) (hhi : c0 = 0xED → b1 ≤ 0x9F) (h4 : 0x80 ≤ b2) (h5 : b2 ≤ 0xBF) :
    goRuneString ((c0 &&& 0x0F) <<< 12 ||| (b1 &&& 0x3F) <<< 6 ||| (b2 &&& 0x3F)) =
      [UInt8.ofNat c0, UInt8.ofNat b1, UInt8.ofNat b2] := by
  rw [v3]
  generalize hr : (c0 % 16) * 4096 + (b1 % 64) * 64 + b2 % 64 = r
  have hge : 0x800 ≤ r := by
    by_cases e : c0 = 0xE0
    · have := hlo e; omega
    · omega
  have hns : ¬ (r > 0x10FFFF ∨ (0xD800 ≤ r ∧ r ≤ 0xDFFF)) := by
    by_cases e : c0 = 0xED
    · have := hhi e; omega
    · omega
  unfold goRuneString
  rw [if_neg (by omega), if_neg (by omega), if_neg hns, if_pos (by omega)]
  have a1 : 0xE0 ||| r >>> 12 = c0 := by
    rw [Nat.shiftRight_eq_div_pow, orE0 _ (by omega)]; omega
  have a2 : 0x80 ||| (r >>> 6 &&& 0x3F) = b1 := by
    rw [and3F, Nat.shiftRight_eq_div_pow, or80 _ (by omega)]; omega
  have a3 : 0x80 ||| (r &&& 0x3F) = b2 := by
    rw [and3F, or80 _ (by omega)]; omega
  rw [a1, a2, a3]

theorem enc4 (c0 b1 b2 b3 : Nat) (h0 : 0xF0 ≤ c0) (h1 : c0 ≤ 0xF4) (h2 : 0x80 ≤ b1) (h3 : b1 ≤ 0xBF)
    (hlo : c0 = 0xF0 → 0x90 ≤ b1) (hhi : c0 = 0xF4 → b1 ≤ 0x8F) (h4 : 0x80 ≤ b2) (h5 : b2 ≤ 0xBF)
    (h6 : 0x80 ≤ b3) (h7 : b3 ≤ 0xBF) :
    goRuneString ((c0 &&& 0x07) <<< 18 ||| (b1 &&& 0x3F) <<< 12 ||| (b2 &&& 0x3F) <<< 6 ||| (b3 &&& 0x3F)) =
      [UInt8.ofNat c0, UInt8.ofNat b1, UInt8.ofNat b2, UInt8.ofNat b3] := by
  rw [v4]
  generalize hr : (c0 % 8) * 262144 + (b1 % 64) * 4096 + (b2 % 64) * 64 + b3 % 64 = r
  have hge : 0x10000 ≤ r := by
    by_cases e : c0 = 0xF0
    · have := hlo e; omega
    · omega
  have hle : r ≤ 0x10FFFF := by
    by_cases e : c0 = 0xF4
    · have := hhi e; omega
    · omega
  unfold goRuneString
  rw [if_neg (by omega), if_neg (by omega), if_neg (by omega), if_neg (by omega)]
  have a1 : 0xF0 ||| r >>> 18 = c0 := by
    rw [Nat.shiftRight_eq_div_pow, orF0 _ (by omega)]; omega
  have a2 : 0x80 ||| (r >>> 12 &&& 0x3F) = b1 := by
    rw [and3F, Nat.shiftRight_eq_div_pow, or80 _ (by omega)]; omega
  have a3 : 0x80 ||| (r >>> 6 &&& 0x3F) = b2 := by
    rw [and3F, Nat.shiftRight_eq_div_pow, or80 _ (by omega)]; omega
  have a4 : 0x80 ||| (r &&& 0x3F) = b3 := by
    rw [and3F, or80 _ (by omega)]; omega
  rw [a1, a2, a3, a4]

theorem ite_rt {c : Prop} [Decidable c] (v n : Nat) (p : Bytes) (h : c → goRuneString v = p.take n) :
    ¬ ((if c then (v, n) else (runeError, 1)).1 = runeError ∧ (if c then (v, n) else (runeError, 1)).2 ≤ 1) →
      goRuneString (if c then (v, n) else (runeError, 1)).1 = p.take (if c then (v, n) else (runeError, 1)).2 := by
  by_cases hc : c
  · rw [if_pos hc]; intro _; exact h hc
  · rw [if_neg hc]; intro hn; exact absurd ⟨rfl, Nat.le_refl 1⟩ hn

/-- unless the decoder reports an invalid byte (U+FFFD, width ≤ 1), `string(rune)` is the bytes the rune was
decoded from: this is what the model's `nextRune` takes for `string(c)` -/
theorem decodeRune_roundtrip (b0 : UInt8) (t : Bytes) :
    ¬ ((decodeRune (b0 :: t)).1 = runeError ∧ (decodeRune (b0 :: t)).2 ≤ 1) →
      goRuneString (decodeRune (b0 :: t)).1 = (b0 :: t).take (decodeRune (b0 :: t)).2 := by
  unfold decodeRune
  simp only
  split
  · rename_i h0
    intro _
    rw [enc1 _ h0]
    simp
  · split
    · rename_i h1
      simp only [Bool.and_eq_true, decide_eq_true_eq] at h1
      split
      · rename_i b1 t1
        apply ite_rt
        intro hc
        simp only [Bool.and_eq_true, decide_eq_true_eq] at hc
        rw [enc2 _ _ h1.1 h1.2 hc.1 hc.2]
        simp
      · intro hn; exact absurd ⟨rfl, Nat.le_refl 1⟩ hn
    · split
      · rename_i h2
        simp only [Bool.and_eq_true, decide_eq_true_eq] at h2
        split
        · rename_i b1 b2 t2
          apply ite_rt
          intro hc
          simp only [Bool.and_eq_true, decide_eq_true_eq] at hc
          have g1 : 0x80 ≤ b1.toNat := by have := hc.1.1; split at this <;> omega
          have g2 : b1.toNat ≤ 0xBF := by have := hc.1.2; split at this <;> omega
          have g3 : b0.toNat = 0xE0 → 0xA0 ≤ b1.toNat := by intro he; have := hc.1.1; simpa [he] using this
          have g4 : b0.toNat = 0xED → b1.toNat ≤ 0x9F := by intro he; have := hc.1.2; simpa [he] using this
          rw [enc3 _ _ _ h2.1 h2.2 g1 g2 g3 g4 hc.2.1 hc.2.2]
          simp
        · intro hn; exact absurd ⟨rfl, Nat.le_refl 1⟩ hn
      · split
        · rename_i h3
          simp only [Bool.and_eq_true, decide_eq_true_eq] at h3
          split
          · rename_i b1 b2 b3 t3
            apply ite_rt
            intro hc
            simp only [Bool.and_eq_true, decide_eq_true_eq] at hc
            have g1 : 0x80 ≤ b1.toNat := by have := hc.1.1.1; split at this <;> omega
            have g2 : b1.toNat ≤ 0xBF := by have := hc.1.1.2; split at this <;> omega
            have g3 : b0.toNat = 0xF0 → 0x90 ≤ b1.toNat := by intro he; have := hc.1.1.1; simpa [he] using this
            have g4 : b0.toNat = 0xF4 → b1.toNat ≤ 0x8F := by intro he; have := hc.1.1.2; simpa [he] using this
            rw [enc4 _ _ _ _ h3.1 h3.2 g1 g2 g3 g4 hc.1.2.1 hc.1.2.2 hc.2.1 hc.2.2]
            simp
          · intro hn; exact absurd ⟨rfl, Nat.le_refl 1⟩ hn
        · intro hn; exact absurd ⟨rfl, Nat.le_refl 1⟩ hn

theorem nextRune_cond (b0 : UInt8) (t : Bytes) :
    (((decodeRune (b0 :: t)).1 == runeError && decide ((decodeRune (b0 :: t)).2 ≤ 1)) = true) ↔
      ((decodeRune (b0 :: t)).1 = runeError ∧ (decodeRune (b0 :: t)).2 ≤ 1) := by
  simp

theorem goRuneAt_str (b0 : UInt8) (t : Bytes) : (goRuneAt (b0 :: t)).1.str = (nextRune (b0 :: t)).1 := by
  unfold goRuneAt nextRune
  simp only
  split
  · rename_i h
    rw [((nextRune_cond b0 t).mp h).1]
    show goRuneString runeError = runeErrorUTF8
    decide
  · rename_i h
    exact decodeRune_roundtrip b0 t (fun hn => h ((nextRune_cond b0 t).mpr hn))

theorem goRuneAt_drop (b0 : UInt8) (t : Bytes) :
    (b0 :: t).drop (goRuneAt (b0 :: t)).2 = (nextRune (b0 :: t)).2 := by
  unfold goRuneAt nextRune
  simp only
  split
  · rename_i h
    have h1 := ((nextRune_cond b0 t).mp h).2
    have h2 := decodeRune_width_pos b0 t
    have : (decodeRune (b0 :: t)).2 = 1 := by omega
    rw [this]
  · rfl

theorem nextRune_length (b0 : UInt8) (t : Bytes) : (nextRune (b0 :: t)).2.length ≤ t.length := by
  unfold nextRune
  simp only
  split
  · simp
  · have := decodeRune_width_pos b0 t
    simp only [List.length_drop, List.length_cons]
    omega

/-- `c != '/'` on the rune is `string(c) != "/"` on its bytes -/
theorem goRuneAt_slash (b0 : UInt8) (t : Bytes) :
    ((goRuneAt (b0 :: t)).1.val != 47) = ((nextRune (b0 :: t)).1 != [47]) := by
  unfold goRuneAt nextRune
  simp only
  split
  · rename_i h
    rw [((nextRune_cond b0 t).mp h).1]
    rfl
  · by_cases h : b0.toNat < 0x80
    · have hd : decodeRune (b0 :: t) = (b0.toNat, 1) := by
        unfold decodeRune
        simp [h]
      rw [hd]
      by_cases e : b0 = 47
      · subst e; simp
      · have e' : b0.toNat ≠ 47 := fun h => e (UInt8.toNat_inj.mp h)
        have l : (b0.toNat != 47) = true := by simp [e']
        have r : ([b0] != [47]) = true := by simp [e]
        simp only [List.take_succ_cons, List.take_zero]
        rw [l, r]
    · have h1 := decodeRune_val_ge b0 t (by omega)
      obtain ⟨k, hk⟩ : ∃ k, (decodeRune (b0 :: t)).2 = k + 1 :=
        ⟨(decodeRune (b0 :: t)).2 - 1, by have := decodeRune_width_pos b0 t; omega⟩
      have e : b0 ≠ 47 := ne47_of_ge (by omega)
      have e' : (decodeRune (b0 :: t)).1 ≠ 47 := by omega
      rw [hk]
      have l : ((decodeRune (b0 :: t)).1 != 47) = true := by simp [e']
      have r : (List.take (k + 1) (b0 :: t) != [47]) = true := by simp [e]
      rw [l, r]

theorem count_eq_allSlash (s : Bytes) : (goCountByte s 47 == len s) = allSlash s := by
  unfold goCountByte allSlash len
  rw [Bool.eq_iff_iff]
  simp only [beq_iff_eq, List.count_eq_length, List.all_eq_true]
  constructor
  · intro h b hb; exact (h b hb).symm
  · intro h b hb; exact (h b hb).symm

theorem len_eq_isEmpty {α : Type} (l : List α) : (len l == 0) = l.isEmpty := by
  cases l <;> rfl

/-- what follows the loop of `splitPath` -/
def splitPathEnd (st : List Bytes × Bytes) : Option (List Bytes) :=
  if (st.2 != ([] : List UInt8)) then some (st.1 ++ [st.2]) else some st.1

theorem loop_splitPath (E : Env) :
    ∀ (fuel : Nat) (p : Bytes) (out : List Bytes) (s : Bytes) (i : Nat), p.length ≤ fuel →
      after (forRange (splitPath_loop1 E) (goRangeStringGo fuel p) i (out, s)) splitPathEnd =
        some (splitPathGo (fuel + 1) p out s) := by
  intro fuel
  induction fuel with
  | zero =>
    intro p out s i hp
    have : p = [] := List.length_eq_zero_iff.mp (by omega)
    subst this
    simp only [goRangeStringGo, forRange_nil, after_cont, splitPathEnd, splitPathGo]
    split <;> rfl
  | succ fuel ih =>
    intro p out s i hp
    cases p with
    | nil =>
      simp only [goRangeStringGo, forRange_nil, after_cont, splitPathEnd, splitPathGo]
      split <;> rfl
    | cons b0 t =>
      have hlen : (nextRune (b0 :: t)).2.length ≤ fuel := by
        have := nextRune_length b0 t
        simp only [List.length_cons] at hp
        omega
      simp only [goRangeStringGo, forRange_cons, splitPath_loop1, goRuneAt_slash, goRuneAt_str, goRuneAt_drop,
        count_eq_allSlash, len_eq_isEmpty]
      rw [splitPathGo]
      by_cases c1 : ((nextRune (b0 :: t)).1 != [47] || out.isEmpty && allSlash s) = true
      · simp only [if_pos c1]
        exact ih _ _ _ _ hlen
      · simp only [if_neg c1]
        by_cases c2 : (s != []) = true
        · simp only [if_pos c2]
          exact ih _ _ _ _ hlen
        · simp only [if_neg c2]
          exact ih _ _ _ _ hlen

/-- `splitPath` -/
theorem tie_splitPath (E : Env) (p : Bytes) : splitPath E p = some (PP.splitPath p) := by
  unfold splitPath PP.splitPath
  split
  · rfl
  · exact loop_splitPath E p.length p [] [] 0 (Nat.le_refl _)

/-! ### the same statements in the shape of the other groups: the model is a fixed point of the translated
equations (`modelEnv` with any key order that is a permutation and enough fuel) -/

section
variable (fs : FS) (ord : List Bytes → List Bytes) (fuel : Nat)

theorem tie_splitPath_model (p : Bytes) :
    splitPath (modelEnv fs ord fuel) p = (modelEnv fs ord fuel).splitPath p := tie_splitPath _ p

theorem tie_getFiles_model (hord : ∀ l, (ord l).Perm l) (gs : List Goroutine) :
    getFiles (modelEnv fs ord fuel) gs = (modelEnv fs ord fuel).getFiles gs := tie_getFiles _ hord gs

theorem tie_Snapshot_IsRace_model (s : Snapshot) :
    Snapshot_IsRace (modelEnv fs ord fuel) s = (modelEnv fs ord fuel).Snapshot_IsRace s := tie_Snapshot_IsRace _ s

theorem tie_Opts_isValid_model (o : Cli.Opts) :
    Opts_isValid (modelEnv fs ord fuel) o = (modelEnv fs ord fuel).Opts_isValid o := tie_Opts_isValid _ o

theorem tie_sortedByLen_model (hord : ∀ l, (ord l).Perm l) (m : AMap) :
    sortedByLen (modelEnv fs ord fuel) m = (modelEnv fs ord fuel).sortedByLen m := tie_sortedByLen _ hord m

theorem tie_pathJoin_model (xs : List Bytes) :
    pathJoin (modelEnv fs ord fuel) xs = (modelEnv fs ord fuel).pathJoin xs := rfl

theorem tie_Func_String_model (f : Func) :
    Func_String (modelEnv fs ord fuel) f = (modelEnv fs ord fuel).Func_String f := rfl

theorem tie_lineToByteOffsets_model (src : Bytes) (hfuel : src.length + 1 ≤ fuel) :
    lineToByteOffsets (modelEnv fs ord fuel) src = (modelEnv fs ord fuel).lineToByteOffsets src :=
  tie_lineToByteOffsets _ src hfuel
end

/-! ### non-vacuity: the translated definitions compute -/

/-- a map order that reverses the keys -/
def revEnv : Env := modelEnv ⟨fun _ => false, fun _ => none⟩ List.reverse 100

example : splitPath revEnv [47, 47, 97, 47, 98, 0xFF, 99, 47, 47, 100] =
    some [b!"//a", [98, 0xEF, 0xBF, 0xBD, 99], b!"d"] := by decide
example : splitPath revEnv [47, 0xE2, 0x82, 47, 120, 0xEF, 0xBF, 0xBD] =
    some [[47, 0xEF, 0xBF, 0xBD, 0xEF, 0xBF, 0xBD], [120, 0xEF, 0xBF, 0xBD]] := by decide
example : goRuneString 0x20AC = [0xE2, 0x82, 0xAC] := by decide
example : goRuneString 0x1F600 = [0xF0, 0x9F, 0x98, 0x80] := by decide
example : goRuneString 0xD800 = [0xEF, 0xBF, 0xBD] := by decide
example : Opts_isValid revEnv { localGOPATHs := [b!"/a", [99, 58, 92, 98]] } = some false := by decide
example : lineToByteOffsets revEnv b!"a\nbc\n" = some [0, 0, 2, 5] := by decide
example : Snapshot_IsRace revEnv {} = none := by decide

end PP.TrM

#print axioms PP.TrM.decodeRune_roundtrip
#print axioms PP.TrM.tie_splitPath
#print axioms PP.TrM.tie_getFiles
#print axioms PP.TrM.tie_Snapshot_IsRace
#print axioms PP.TrM.tie_Opts_isValid
#print axioms PP.TrM.tie_Snapshot_guessPaths
#print axioms PP.TrM.tie_sortedByLen
#print axioms PP.TrM.sortedByLen_sorted_unique
#print axioms PP.TrM.tie_pathJoin
#print axioms PP.TrM.tie_Func_String
#print axioms PP.TrM.tie_lineToByteOffsets
#print axioms PP.TrM.tie_splitPath_model
#print axioms PP.TrM.tie_getFiles_model
#print axioms PP.TrM.tie_Snapshot_IsRace_model
#print axioms PP.TrM.tie_Opts_isValid_model
#print axioms PP.TrM.tie_sortedByLen_model
#print axioms PP.TrM.tie_pathJoin_model
#print axioms PP.TrM.tie_Func_String_model
#print axioms PP.TrM.tie_lineToByteOffsets_model
