import PP.TranslatedHtml
import PP.Tie.TranslatedScan
/-
Tie A, translated part 3: the link builders of the HTML writer (`funcClass`,
`splitHost`, `splitTag`, `symbol`, `getSrcBranchURL`, `srcURL`, `pkgURL` of
stack/html.go), translated from the Go source on every run
(`PP/TranslatedHtml.lean`) and proved equal to the hand-written model functions
the theorems of C17 are about (`PP/Model/Html.lean`).

`runtime.Version()` is a parameter (`ver`).  A Go run-time panic (`none`) is the
model's `Except.error`: the only one is the slice `ver[7:17]` of a `devel +`
version shorter than 17 bytes.
-/
namespace PP.TrH
open PP PP.Go PP.Html

def exOpt {ε α : Type} : Except ε α → Option α
  | .ok a => some a
  | .error _ => none

def modelEnv (ver : Bytes) : Env where
  runtimeVersion := ver
  funcClass c := some (Html.funcClass c)
  splitHost s := some (Html.splitHost s)
  splitTag s := some (Html.splitTag s)
  symbol f := some (Html.symbol f)
  getSrcBranchURL c := exOpt (Html.getSrcBranchURL ver c)
  srcURL c := exOpt (Html.srcURL ver c)
  pkgURL c := exOpt (Html.pkgURL ver c)

variable (ver : Bytes)

@[simp] theorem mE_runtimeVersion : (modelEnv ver).runtimeVersion = ver := rfl
@[simp] theorem mE_splitHost (s : Bytes) : (modelEnv ver).splitHost s = some (Html.splitHost s) := rfl
@[simp] theorem mE_splitTag (s : Bytes) : (modelEnv ver).splitTag s = some (Html.splitTag s) := rfl
@[simp] theorem mE_symbol (f : Func) : (modelEnv ver).symbol f = some (Html.symbol f) := rfl
@[simp] theorem mE_funcClass (c : Call) : (modelEnv ver).funcClass c = some (Html.funcClass c) := rfl
@[simp] theorem mE_getSrcBranchURL (c : Call) :
    (modelEnv ver).getSrcBranchURL c = exOpt (Html.getSrcBranchURL ver c) := rfl
@[simp] theorem mE_srcURL (c : Call) : (modelEnv ver).srcURL c = exOpt (Html.srcURL ver c) := rfl
@[simp] theorem mE_pkgURL (c : Call) : (modelEnv ver).pkgURL c = exOpt (Html.pkgURL ver c) := rfl

theorem tie_funcClass (c : Call) : TrH.funcClass (modelEnv ver) c = (modelEnv ver).funcClass c := by
  simp only [TrH.funcClass, mE_funcClass, Html.funcClass]
  by_cases h1 : c.fn.isPkgMain <;> by_cases h2 : c.fn.isExported <;> simp [h1, h2] <;> rfl

theorem tie_splitHost (s : Bytes) : TrH.splitHost (modelEnv ver) s = (modelEnv ver).splitHost s := by
  simp only [TrH.splitHost, mE_splitHost, Html.splitHost, goSplitN_two]
  cases cut s 47 with
  | none => simp [len]
  | some p => simp [len]

theorem indexByte_eq_cut (s : Bytes) (c : UInt8) :
    Bytes.indexByte s c = (cut s c).map (fun p => p.1.length) ∧
    ∀ a b, cut s c = some (a, b) → a = s.take a.length ∧ b = s.drop (a.length + 1) ∧ a.length < s.length := by
  induction s with
  | nil => simp [Bytes.indexByte, cut]
  | cons x xs ih =>
    by_cases h : x = c
    · subst h; simp [Bytes.indexByte, cut, List.idxOf?_cons]
    · obtain ⟨ih1, ih2⟩ := ih
      have hx : (x == c) = false := by simpa using h
      constructor
      · simp only [Bytes.indexByte] at ih1 ⊢
        simp only [List.idxOf?_cons, hx, cut, ih1]
        cases cut xs c <;> simp
      · intro a b hab
        simp only [cut, hx] at hab
        cases hc : cut xs c with
        | none => simp [hc] at hab
        | some q =>
          obtain ⟨a', b'⟩ := q
          simp [hc] at hab
          obtain ⟨ha, hb⟩ := hab
          obtain ⟨h1, h2, h3⟩ := ih2 a' b' hc
          subst ha; subst hb
          refine ⟨?_, ?_, ?_⟩
          · simp only [List.length_cons, List.take_succ_cons]; rw [← h1]
          · simp only [List.length_cons, List.drop_succ_cons]; exact h2
          · simp only [List.length_cons]; omega

theorem tie_splitTag (s : Bytes) : TrH.splitTag (modelEnv ver) s = (modelEnv ver).splitTag s := by
  simp only [TrH.splitTag, mE_splitTag, Html.splitTag]
  obtain ⟨h1, h2⟩ := indexByte_eq_cut s 64
  rw [h1]
  cases hc : cut s 64 with
  | none => simp
  | some p =>
    obtain ⟨a, b⟩ := p
    obtain ⟨ha, hb, hl⟩ := h2 a b hc
    simp only [Option.map_some]
    rw [TrS.goSlice_from s (a.length + 1) (by omega), TrS.goSlice_to s a.length (by omega)]
    simp only [Option.bind_some, Option.bind_eq_bind, ← ha, ← hb]
    cases hr : reVersionFind b with
    | none =>
      have : reVersionSubmatch b = [] := by simp [reVersionSubmatch, hr]
      simp [len, this]
    | some h =>
      have : reVersionSubmatch b = [[], h] := by simp [reVersionSubmatch, hr]
      simp [len, this]

theorem tie_symbol (f : Func) : TrH.symbol (modelEnv ver) f = (modelEnv ver).symbol f := by
  simp only [TrH.symbol, mE_symbol, Html.symbol, reMethodSymbolReplace12]
  cases reMethodSymbol f.name with
  | none => simp
  | some p => obtain ⟨a, b⟩ := p; simp

theorem indexOf_go_bound (sep : Bytes) :
    ∀ (fuel : Nat) (t : Bytes) (k i : Nat), Bytes.indexOf.go sep fuel t k = some i →
      ∃ d, i = k + d ∧ d + sep.length ≤ t.length
  | 0, _, _, _, h => by simp [Bytes.indexOf.go] at h
  | fuel + 1, t, k, i, h => by
    unfold Bytes.indexOf.go at h
    by_cases hp : Bytes.hasPrefix t sep = true
    · simp only [hp, ↓reduceIte, Option.some.injEq] at h
      exact ⟨0, by omega, by have := TrS.hasPrefix_len hp; omega⟩
    · simp only [hp] at h
      cases t with
      | nil => simp at h
      | cons x xs =>
        simp only [Bool.false_eq_true, ↓reduceIte] at h
        obtain ⟨d, hd1, hd2⟩ := indexOf_go_bound sep fuel xs (k + 1) i h
        exact ⟨d + 1, by omega, by simp only [List.length_cons]; omega⟩

theorem indexOf_bound {s sep : Bytes} {i : Nat} (h : Bytes.indexOf s sep = some i) :
    i + sep.length ≤ s.length := by
  obtain ⟨d, hd1, hd2⟩ := indexOf_go_bound sep _ s 0 i h
  omega

def vendorSep : Bytes := [47, 118, 101, 110, 100, 111, 114, 47]

theorem vendor_step (rel : Bytes) :
    ((Bytes.indexOf rel [47, 118, 101, 110, 100, 111, 114, 47]).elim (some rel)
      (fun i => (goSlice rel (i + 8) (len rel)).bind fun t => some t) : Option Bytes) =
      some (afterVendor rel) := by
  unfold afterVendor
  have hv : (b!"/vendor/" : Bytes) = vendorSep := by decide
  rw [hv]
  show ((Bytes.indexOf rel vendorSep).elim _ _) = _
  cases h : Bytes.indexOf rel vendorSep with
  | none => rfl
  | some i =>
    have := indexOf_bound h
    simp only [vendorSep, List.length_cons, List.length_nil] at this
    simp [TrS.goSlice_from rel (i + 8) (by omega)]

theorem cut_decomp : ∀ (s : Bytes) (c : UInt8) (a b : Bytes), cut s c = some (a, b) → s = a ++ c :: b ∧ c ∉ a
  | [], _, _, _, h => by simp [cut] at h
  | x :: xs, c, a, b, h => by
    by_cases hx : x = c
    · subst hx; simp [cut] at h; obtain ⟨h1, h2⟩ := h; subst h1; subst h2; simp
    · have hx' : (x == c) = false := by simpa using hx
      simp only [cut, hx', Bool.false_eq_true, ↓reduceIte] at h
      cases hc : cut xs c with
      | none => simp [hc] at h
      | some q =>
        obtain ⟨a', b'⟩ := q
        simp [hc] at h
        obtain ⟨h1, h2⟩ := h
        obtain ⟨ih1, ih2⟩ := cut_decomp xs c a' b' hc
        subst h1; subst h2
        refine ⟨by simp [ih1], ?_⟩
        simp only [List.mem_cons, not_or]
        exact ⟨fun e => hx e.symm, ih2⟩

theorem moduleTag_step (rel : Bytes) :
    ((Bytes.indexByte rel 64).elim (some ([] : Bytes))
      (fun i => (goSlice rel i (len rel)).bind fun t13 =>
        ((Bytes.indexByte t13 47).elim (some ([] : Bytes))
          (fun j => (goSlice rel (i + 1) (i + j)).bind fun t14 => some t14)).bind fun tag => some tag) : Option Bytes) =
      some (moduleTag rel) := by
  unfold moduleTag
  obtain ⟨h1, _⟩ := indexByte_eq_cut rel 64
  rw [h1]
  cases hc : cut rel 64 with
  | none => rfl
  | some p =>
    obtain ⟨a, b⟩ := p
    obtain ⟨hd, _⟩ := cut_decomp rel 64 a b hc
    simp only [Option.map_some, Option.elim_some]
    have hs : goSlice rel a.length (len rel) = some (64 :: b) := by
      rw [TrS.goSlice_from rel a.length (by rw [hd]; simp)]
      rw [hd]; simp
    rw [hs]
    simp only [Option.bind_some, Option.bind_eq_bind]
    obtain ⟨h2, _⟩ := indexByte_eq_cut b 47
    have h3 : Bytes.indexByte (64 :: b) 47 = (Bytes.indexByte b 47).map (· + 1) := by
      simp [Bytes.indexByte, List.idxOf?_cons]
    rw [h3, h2]
    cases hc2 : cut b 47 with
    | none => rfl
    | some q =>
      obtain ⟨t, r⟩ := q
      obtain ⟨hd2, _⟩ := cut_decomp b 47 t r hc2
      simp only [Option.map_some, Option.elim_some]
      have : goSlice rel (a.length + 1) (a.length + (t.length + 1)) = some t := by
        rw [hd, hd2]
        simp only [goSlice, List.length_append, List.length_cons]
        rw [if_pos (by omega)]
        have e : a.length + (t.length + 1) = (a ++ 64 :: t).length := by simp
        rw [e, show a ++ 64 :: (t ++ 47 :: r) = (a ++ 64 :: t) ++ 47 :: r by simp, List.take_left,
          show a.length + 1 = (a ++ [64]).length by simp, show a ++ 64 :: t = (a ++ [64]) ++ t by simp,
          List.drop_left]
      simp [this]

theorem tail_eq (c : Call) (tag : Bytes) :
    (if (c.localSrcPath != ([] : List UInt8)) then
        some ((([102, 105, 108, 101, 58, 47, 47, 47] : List UInt8) ++ (escape c.localSrcPath)), tag)
      else
      if (c.remoteSrcPath != ([] : List UInt8)) then
        some ((([102, 105, 108, 101, 58, 47, 47, 47] : List UInt8) ++ (escape c.remoteSrcPath)), tag)
      else
      some (([] : List UInt8), ([] : List UInt8))) = some (fileURL c tag) := by
  unfold fileURL
  have : pfxFile = [102, 105, 108, 101, 58, 47, 47, 47] := by decide
  rw [this]
  split
  · rfl
  · split <;> rfl

theorem pfxGithub_eq : pfxGithub = [104, 116, 116, 112, 115, 58, 47, 47, 103, 105, 116, 104, 117, 98, 46, 99, 111, 109, 47] := by decide
theorem pfxGolangPkg_eq : pfxGolangPkg = [104, 116, 116, 112, 115, 58, 47, 47, 103, 111, 108, 97, 110, 103, 46, 111, 114, 103, 47, 112, 107, 103, 47] := by decide
theorem pfxGodoc_eq : pfxGodoc = [104, 116, 116, 112, 115, 58, 47, 47, 103, 111, 100, 111, 99, 46, 111, 114, 103, 47] := by decide
theorem pfxPkgGoDev_eq : pfxPkgGoDev = [104, 116, 116, 112, 115, 58, 47, 47, 112, 107, 103, 46, 103, 111, 46, 100, 101, 118, 47] := by decide

theorem tie_getSrcBranchURL (c : Call) :
    TrH.getSrcBranchURL (modelEnv ver) c = (modelEnv ver).getSrcBranchURL c := by
  simp only [mE_getSrcBranchURL]
  unfold TrH.getSrcBranchURL Html.getSrcBranchURL
  by_cases hl : c.location = Loc.stdlib
  · simp only [hl, beq_self_eq_true, ↓reduceIte, mE_runtimeVersion]
    unfold develVersion
    have hd : develPrefix = [100, 101, 118, 101, 108, 32, 43] := by decide
    rw [hd]
    by_cases hp : Bytes.hasPrefix ver [100, 101, 118, 101, 108, 32, 43] = true
    · simp only [hp, ↓reduceIte, List.length_cons, List.length_nil]
      by_cases hlen : ver.length < 17
      · have : goSlice ver 7 17 = none := by simp [goSlice]; omega
        simp [this, hlen, exOpt]
      · have : goSlice ver 7 17 = some ((ver.drop 7).take 10) := by
          simp [goSlice, List.drop_take]; omega
        simp [this, hlen, exOpt, stdlibURL, pfxGithub_eq]
    · simp [hp, exOpt, stdlibURL, pfxGithub_eq]
  · have hl' : (c.location == Loc.stdlib) = false := by simpa using hl
    simp only [hl', Bool.false_eq_true, ↓reduceIte, exOpt]
    unfold nonStdlibURL
    by_cases hr : c.relSrcPath = []
    · simp only [hr, bne_self_eq_false, Bool.false_eq_true, ↓reduceIte]
      exact tail_eq c []
    · have hr' : (c.relSrcPath != []) = true := by simpa using hr
      simp only [hr', ↓reduceIte]
      rw [vendor_step c.relSrcPath]
      simp only [tail_eq, Option.bind_some, mE_splitHost, mE_splitTag, Option.bind_eq_bind, moduleTag_step]
      generalize afterVendor c.relSrcPath = rel
      generalize hh : Html.splitHost rel = hr2
      obtain ⟨host, rest⟩ := hr2
      simp only
      by_cases h1 : host = [103, 105, 116, 104, 117, 98, 46, 99, 111, 109]
      · simp only [h1, beq_self_eq_true, ↓reduceIte, goSplitN_three, githubURL, splitN3]
        cases hc1 : cut rest 47 with
        | none => simp [len]
        | some p1 =>
          obtain ⟨p0, r1⟩ := p1
          simp only []
          cases hc2 : cut r1 47 with
          | none => simp [len]
          | some p2 =>
            obtain ⟨pa, pb⟩ := p2
            simp [len, pfxGithub_eq]
      · have h1' : (host == [103, 105, 116, 104, 117, 98, 46, 99, 111, 109]) = false := by simpa using h1
        simp only [h1', Bool.false_eq_true, ↓reduceIte]
        by_cases h2 : host = [103, 111, 108, 97, 110, 103, 46, 111, 114, 103]
        · simp only [h2, beq_self_eq_true, ↓reduceIte, goSplitN_three, golangURL, splitN3]
          cases hc1 : cut rest 47 with
          | none => simp [len]
          | some p1 =>
            obtain ⟨p0, r1⟩ := p1
            simp only []
            cases hc2 : cut r1 47 with
            | none => simp [len]
            | some p2 =>
              obtain ⟨pa, pb⟩ := p2
              by_cases hx : p0 = [120]
              · simp [len, pfxGithub_eq, hx]
              · simp [len, hx]
        · have h2' : (host == [103, 111, 108, 97, 110, 103, 46, 111, 114, 103]) = false := by simpa using h2
          simp only [h2', Bool.false_eq_true, ↓reduceIte, Option.bind_some]

theorem tie_srcURL (c : Call) : TrH.srcURL (modelEnv ver) c = (modelEnv ver).srcURL c := by
  simp only [TrH.srcURL, mE_srcURL, mE_getSrcBranchURL, Html.srcURL]
  cases Html.getSrcBranchURL ver c <;> simp [exOpt, Except.map]

theorem tie_pkgURL (c : Call) : TrH.pkgURL (modelEnv ver) c = (modelEnv ver).pkgURL c := by
  simp only [TrH.pkgURL, mE_pkgURL, mE_getSrcBranchURL, mE_symbol, Html.pkgURL, vendor_step, Option.bind_some,
    Option.bind_eq_bind]
  by_cases hip : escape (afterVendor c.importPath) = []
  · simp [hip, exOpt]
  · have hip' : (escape (afterVendor c.importPath) == []) = false := by simpa using hip
    simp only [hip', Bool.false_eq_true, ↓reduceIte, pkgSite]
    by_cases hl : c.location = Loc.stdlib
    · simp only [hl, beq_self_eq_true, ↓reduceIte, Option.bind_some, pfxGolangPkg_eq]
      by_cases he : c.fn.isExported <;> simp [he, exOpt]
    · have hl' : (c.location == Loc.stdlib) = false := by simpa using hl
      simp only [hl', Bool.false_eq_true, ↓reduceIte]
      cases Html.getSrcBranchURL ver c with
      | error e => simp [exOpt]
      | ok ub =>
        simp only [exOpt, Option.bind_some, pfxGodoc_eq, pfxPkgGoDev_eq]
        have hm : (b!"master" : Bytes) = [109, 97, 115, 116, 101, 114] := by decide
        by_cases hb : ub.2 = [109, 97, 115, 116, 101, 114] ∨ ub.2 = []
        · by_cases he : c.fn.isExported <;> simp [he, hb, hm, exOpt]
        · by_cases he : c.fn.isExported <;> simp [he, hb, hm, exOpt]

end PP.TrH

#print axioms PP.TrH.tie_funcClass
#print axioms PP.TrH.tie_splitHost
#print axioms PP.TrH.tie_splitTag
#print axioms PP.TrH.tie_symbol
#print axioms PP.TrH.tie_getSrcBranchURL
#print axioms PP.TrH.tie_srcURL
#print axioms PP.TrH.tie_pkgURL
