import PP.TranslatedCli
import PP.Props.CLI
/-
Tie A, translated part: the filter loop of the command, internal/main.go `showBanner`,
`processInner`, `process`, translated from the Go source on every run
(`PP/TranslatedCli.lean`, run-time support `PP/Go/PreludeCli.lean`) and proved equal to the
hand-written model `PP/Model/Cli.lean` (`showBanner`, `isRace`, `renderSnapshot`, `renderOpt`,
`statusOf`, `processL`, `processFuel`, `processOpts`, `process`).

The translated functions thread the `CWorld` (the output trace); the outside
(`stack.ScanSnapshot`, `io.MultiReader`, `Aggregate`, the four renderers, `out.Write`,
`os.Getenv`, the environment `stack.DefaultOpts` reads, the fuel of the unbounded loop) are
oracles of the generated `Env`.  Sections 1–3 are for EVERY environment (only its oracle
fields matter), every world, stream, writer and option set.

What the model does not have (the `-html` renderers, writers and renderers that fail, `rebase` /
`parse`, the events) is added HERE as `innerSpec` / `loopSpec` / `processSpec`, built from the
model's functions; section 5 shows that with the oracles the model assumes (line-level
`ScanSnapshot`, a `MultiReader` that delivers the suffix and then the rest, renderers that are the
model's and never fail, `html = ""`, `rebase = false`) the bytes the translated `process` sends to
`out` and the error it returns ARE the model's `Cli.process` (`tie_process`).

Sections: 1. `showBanner`, `processInner` (`tie_showBanner`, `tie_processInner`); 2. the loop
(`body_process`, `loop_process`, `tie_process_gen`); 3. `modelEnv`, the fixed-point form
(`tie_process_modelEnv`), the three functions composed (`tie_closed`); 4. fuel (`loopSpec_mono`);
5. projection onto `PP/Model/Cli.lean`: `innerSpec_model` (= `renderSnapshot`), `loopSpec_model` /
`tie_process` (= `processL` / `process`, line level), `loopSpec_modelB` / `tie_processB`
(= `processB` with `scanCallB` and `multiReader`, byte level); non-vacuity.

Observation (not a defect of the model): in `process` the error of the final `out.Write(suffix)`
can never be returned — that statement is only reached with `err != nil`, so its
`if …; err == nil { err = err1 }` is dead (`body_process`: `finishStep` does not depend on
`Env.writeErr`); and the parameter `first` of `processInner` is unused.
-/
namespace PP.TrC
open PP PP.Go

/-! ## 1. showBanner, processInner -/

/-- `showBanner()` in the environment `O`: the model's `Cli.showBanner` of `$GOTRACEBACK` -/
def bannerOf (O : Env) : Bool := Cli.showBanner (O.getenv b!"GOTRACEBACK")

/-- `showBanner` is the model, in EVERY environment; the world is untouched -/
theorem tie_showBanner_any (E : Env) (w : CWorld) : TrC.showBanner E w = some (w, bannerOf E) := rfl

def fmtGOROOT : Bytes := b!"GOROOT=%s"
def fmtGOPATH : Bytes := b!"GOPATH=%s"

/-- the world after the two `log.Printf` of `processInner` -/
def logWorld (w : CWorld) : CWorld := (w.logPrintf fmtGOROOT).logPrintf fmtGOPATH

/-- `processInner(out, p, s, pf, html, filter, match, c, first)` as a function of the world, from
the model's `Cli.isRace` and `Cli.showBanner` (`none`: a panic — a nil `c`, `IsRace` on an empty
goroutine list, `Aggregate`).  With `html = ""` and renderers that are the model's this is
`Cli.renderSnapshot` (`innerSpec_model`). -/
def innerSpec (O : Env) (w : CWorld) (out : CWriter) (p : PaletteRef) (s : Lvl) (pf : Console.PathFormat)
    (html : Bytes) (filter mtch : CRe) (c : SnapRef) : Option (CWorld × GoErr) :=
  match c with
  | none => none
  | some snap =>
    match Cli.isRace snap.goroutines with
    | .error _ => none
    | .ok false =>
      match O.aggregate (some snap) s with
      | none => none
      | some a =>
        if html == [] then
          some (CWorld.writeBuckets O.writeBuckets (logWorld w) out p a pf
            (snap.goroutines.length == 1 && bannerOf O) filter mtch)
        else some (CWorld.htmlAgg O.htmlAgg (logWorld w) a html (snap.goroutines.length == 1 && bannerOf O))
    | .ok true =>
      if html == [] then
        some (CWorld.writeGoroutines O.writeGoroutines (logWorld w) out p (some snap) pf
          (snap.goroutines.length == 1 && bannerOf O) filter mtch)
      else some (CWorld.htmlSnap O.htmlSnap (logWorld w) (some snap) html (snap.goroutines.length == 1 && bannerOf O))

theorem lenI_beq_one {α : Type} (l : List α) : (lenI l == (1 : Int)) = (l.length == 1) := by
  unfold lenI
  by_cases h : l.length = 1
  · simp [h]
  · have h1 : (l.length == 1) = false := by simpa using h
    have h2 : ((l.length : Int) == 1) = false := by
      simp only [beq_eq_false_iff_ne, ne_eq]; omega
    rw [h1, h2]

/-- `x := a && f()` with `f` a function that returns `b` and leaves the world alone -/
theorem join_and {β : Type} (a b : Bool) (w : CWorld) (k : CWorld × Bool → Option β) :
    (if a = true then some (w, b) else some (w, false)).bind k = k (w, (a && b)) := by
  cases a <;> rfl

/-- `processInner` in any environment whose `showBanner` is the model's -/
theorem tie_processInner_gen (E : Env) (hsb : ∀ w, E.showBanner w = some (w, bannerOf E))
    (w : CWorld) (out : CWriter) (p : PaletteRef) (s : Lvl) (pf : Console.PathFormat)
    (html : Bytes) (filter mtch : CRe) (c : SnapRef) (first : Bool) :
    TrC.processInner E w out p s pf html filter mtch c first =
      innerSpec E w out p s pf html filter mtch c := by
  unfold TrC.processInner innerSpec
  cases c with
  | none => rfl
  | some snap =>
    simp only [Option.bind_some, hsb, lenI_beq_one]
    rw [join_and]
    simp only [snapIsRace]
    cases hr : Cli.isRace snap.goroutines with
    | error e => rfl
    | ok b =>
      cases b with
      | false =>
        simp only [Bool.not_false, if_true, Option.bind_some]
        cases ha : E.aggregate (some snap) s with
        | none => rfl
        | some a =>
          simp only [Option.bind_some]
          by_cases hh : (html == ([] : List UInt8)) = true
          · rw [if_pos hh, if_pos hh]; rfl
          · rw [if_neg hh, if_neg hh]; rfl
      | true =>
        simp only [Bool.not_true, Bool.false_eq_true, if_false, Option.bind_some]
        by_cases hh : (html == ([] : List UInt8)) = true
        · rw [if_pos hh, if_pos hh]; rfl
        · rw [if_neg hh, if_neg hh]; rfl

/-! ## 2. process -/

/-- `if err == nil { err = err1 }` -/
def keepFirst (err err1 : GoErr) : GoErr := if err == GoErr.nil then err1 else err

theorem keepFirst_of_ne {err : GoErr} (h : (err == GoErr.nil) = false) (e1 : GoErr) : keepFirst err e1 = err := by
  unfold keepFirst; rw [h]; rfl

theorem join_keepFirst {β : Type} (err err1 : GoErr) (k : GoErr → Option β) :
    (if (err == GoErr.nil) = true then some err1 else some err).bind k = k (keepFirst err err1) := by
  unfold keepFirst
  cases h : (err == GoErr.nil) <;> rfl

theorem join_ite {α β : Type} (c : Bool) (a b : α) (k : α → Option β) :
    (if c = true then some a else some b).bind k = k (if c = true then a else b) := by
  cases c <;> rfl

/-- `if c != nil { if err1 := processInner(…); err == nil { err = err1 } }`: the world and `err`
afterwards -/
def renderStep (O : Env) (w : CWorld) (out : CWriter) (p : PaletteRef) (s : Lvl) (pf : Console.PathFormat)
    (html : Bytes) (filter mtch : CRe) (c : SnapRef) (err : GoErr) : Option (CWorld × GoErr) :=
  if c.isSome then
    (innerSpec O w out p s pf html filter mtch c).bind fun r => some (r.1, keepFirst err r.2)
  else some (w, err)

/-- the end of `process` once `err != nil`: `suffix` is written when it is not empty (an error of
that write is dropped: `err` is already set), `io.EOF` becomes nil -/
def finishStep (w : CWorld) (out : CWriter) (suffix : Bytes) (err : GoErr) : CWorld × GoErr :=
  (if suffix.length ≠ 0 then w.emit (.write out suffix) else w, if err == GoErr.eof then GoErr.nil else err)

/-- one iteration of the loop of `process`: what it does to the world and how it goes on
(`inl`: the next iteration's world and stream; `inr`: the world and the error returned) -/
def iterSpec (O : Env) (out : CWriter) (p : PaletteRef) (s : Lvl) (pf : Console.PathFormat)
    (html : Bytes) (filter mtch : CRe) (opts : Cli.Opts) (w : CWorld) (inp : InStream) :
    Option ((CWorld × InStream) ⊕ (CWorld × GoErr)) :=
  let r := O.scanSnapshot w inp opts
  (renderStep O (w.emit (.scan inp out opts r.fwd)) out p s pf html filter mtch r.snap r.err).bind fun x =>
    if x.2 == GoErr.nil then some (.inl (x.1, O.multiReader r.suffix r.inp))
    else some (.inr (finishStep x.1 out r.suffix x.2))

/-- the loop of `process` with `fuel` iterations at most (`none`: a panic, or the fuel ran out) -/
def loopSpec (O : Env) (out : CWriter) (p : PaletteRef) (s : Lvl) (pf : Console.PathFormat)
    (html : Bytes) (filter mtch : CRe) (opts : Cli.Opts) : Nat → CWorld → InStream → Option (CWorld × GoErr)
  | 0, _, _ => none
  | fuel + 1, w, inp =>
    match iterSpec O out p s pf html filter mtch opts w inp with
    | none => none
    | some (.inr res) => some res
    | some (.inl (w', inp')) => loopSpec O out p s pf html filter mtch opts fuel w' inp'

theorem lenI_bne_zero {α : Type} (l : List α) : (lenI l != (0 : Int)) = decide (l.length ≠ 0) := by
  unfold lenI
  by_cases h : l.length = 0
  · simp [h]
  · have h2 : ((l.length : Int) != 0) = true := by
      simp only [bne_iff_ne, ne_eq]; omega
    rw [h2]; simp [h]

/-- the end of the loop body: the join after the write of `suffix`, then `io.EOF` becomes nil -/
theorem finish_join {σ : Type} (c : Bool) (w1 w2 : CWorld) (err : GoErr) :
    ((if c = true then some (w1, err) else some (w2, err)).bind fun st =>
      if (st.snd == GoErr.eof) = true then some (StepB.ret (st.fst, GoErr.nil))
      else some (StepB.ret (st.fst, st.snd)) : Option (StepB σ (CWorld × GoErr))) =
    some (.ret (if c = true then w1 else w2, if err == GoErr.eof then GoErr.nil else err)) := by
  cases c <;> by_cases h : err = GoErr.eof <;> simp [h]

/-- one iteration of the translated loop, in any environment whose `processInner` is `innerSpec` -/
theorem body_process (E : Env)
    (hin : ∀ w out p s pf html filter mtch c first,
      E.processInner w out p s pf html filter mtch c first = innerSpec E w out p s pf html filter mtch c)
    (out : CWriter) (p : PaletteRef) (s : Lvl) (pf : Console.PathFormat) (parse rebase : Bool)
    (html : Bytes) (filter mtch : CRe) (opts : Cli.Opts) (w : CWorld) (inp : InStream) (first : Bool) :
    process_loop1 E out p s pf parse rebase html filter mtch opts (w, inp, first) =
      match iterSpec E out p s pf html filter mtch opts w inp with
      | none => none
      | some (.inr res) => some (.ret res)
      | some (.inl (w', inp')) => some (.cont (w', inp', false)) := by
  unfold process_loop1 iterSpec CWorld.scanSnapshot renderStep
  dsimp only
  generalize E.scanSnapshot w inp opts = r
  cases hs : r.snap.isSome with
  | false =>
    simp only [Bool.false_eq_true, if_false, Option.bind_some]
    cases he : (r.err == GoErr.nil) with
    | true => simp only [if_true]
    | false =>
      simp only [Bool.false_eq_true, if_false, lenI_bne_zero, CWorld.write, Option.bind_some]
      rw [finish_join]
      simp only [finishStep, decide_eq_true_eq]
  | true =>
    simp only [if_true, hin]
    cases hi : innerSpec E (w.emit (.scan inp out opts r.fwd)) out p s pf html filter mtch r.snap with
    | none => rfl
    | some x =>
      simp only [Option.bind_some, join_keepFirst]
      cases he : (keepFirst r.err x.2 == GoErr.nil) with
      | true => simp only [if_true]
      | false =>
        simp only [Bool.false_eq_true, if_false, lenI_bne_zero, CWorld.write, keepFirst_of_ne he]
        rw [finish_join]
        simp only [finishStep, decide_eq_true_eq]

/-- the translated loop is `loopSpec`, for every fuel -/
theorem loop_process (E : Env)
    (hin : ∀ w out p s pf html filter mtch c first,
      E.processInner w out p s pf html filter mtch c first = innerSpec E w out p s pf html filter mtch c)
    (out : CWriter) (p : PaletteRef) (s : Lvl) (pf : Console.PathFormat) (parse rebase : Bool)
    (html : Bytes) (filter mtch : CRe) (opts : Cli.Opts) :
    ∀ (fuel : Nat) (w : CWorld) (inp : InStream) (first : Bool),
      forFuel (process_loop1 E out p s pf parse rebase html filter mtch opts) fuel (w, inp, first) =
        (loopSpec E out p s pf html filter mtch opts fuel w inp).map PP.Go.Step.ret
  | 0, _, _, _ => rfl
  | fuel + 1, w, inp, first => by
    rw [forFuel_succ, body_process E hin, loopSpec]
    cases iterSpec E out p s pf html filter mtch opts w inp with
    | none => rfl
    | some x =>
      cases x with
      | inr res => rfl
      | inl y => exact loop_process E hin out p s pf parse rebase html filter mtch opts fuel y.1 y.2 false

/-- the options `process` hands to `ScanSnapshot`: `stack.DefaultOpts()` with `GuessPaths` and
`AnalyzeSources` cleared without `rebase`, `AnalyzeSources` cleared without `parse` -/
def optsOf (O : Env) (parse rebase : Bool) : Cli.Opts :=
  let o := Cli.defaultOpts O.goroot O.gopaths
  let o := if (!rebase) = true then { o with guessPaths := false, analyzeSources := false } else o
  if (!parse) = true then { o with analyzeSources := false } else o

/-- `process(in, out, p, s, pf, parse, rebase, html, filter, match)` as a function of the world -/
def processSpec (O : Env) (w : CWorld) (inp : InStream) (out : CWriter) (p : PaletteRef) (s : Lvl)
    (pf : Console.PathFormat) (parse rebase : Bool) (html : Bytes) (filter mtch : CRe) : Option (CWorld × GoErr) :=
  loopSpec O out p s pf html filter mtch (optsOf O parse rebase) O.fuel w inp

theorem after_map_ret {σ ρ : Type} (x : Option ρ) (k : σ → Option ρ) :
    after (x.map (PP.Go.Step.ret : ρ → PP.Go.Step σ ρ)) k = x := by
  cases x <;> rfl

/-- `process` in any environment whose `processInner` is `innerSpec` -/
theorem tie_process_gen (E : Env)
    (hin : ∀ w out p s pf html filter mtch c first,
      E.processInner w out p s pf html filter mtch c first = innerSpec E w out p s pf html filter mtch c)
    (w : CWorld) (inp : InStream) (out : CWriter) (p : PaletteRef) (s : Lvl) (pf : Console.PathFormat)
    (parse rebase : Bool) (html : Bytes) (filter mtch : CRe) :
    TrC.process E w inp out p s pf parse rebase html filter mtch =
      processSpec E w inp out p s pf parse rebase html filter mtch := by
  unfold TrC.process processSpec optsOf
  dsimp only
  rw [join_ite, join_ite, loop_process E hin, after_map_ret]

/-! ## 3. the model environment, the fixed-point form, the three functions composed -/

/-- the environment in which the three functions are the model; the oracles are `O`'s -/
def modelEnv (O : Env) : Env :=
  { O with
    showBanner := fun w => some (w, bannerOf O)
    processInner := fun w out p s pf html filter mtch c _ => innerSpec O w out p s pf html filter mtch c
    process := fun w inp out p s pf parse rebase html filter mtch =>
      processSpec O w inp out p s pf parse rebase html filter mtch }

section
variable (O : Env)

@[simp] theorem mE_fuel : (modelEnv O).fuel = O.fuel := rfl
@[simp] theorem mE_getenv : (modelEnv O).getenv = O.getenv := rfl
@[simp] theorem mE_goroot : (modelEnv O).goroot = O.goroot := rfl
@[simp] theorem mE_gopaths : (modelEnv O).gopaths = O.gopaths := rfl
@[simp] theorem mE_scanSnapshot : (modelEnv O).scanSnapshot = O.scanSnapshot := rfl
@[simp] theorem mE_multiReader : (modelEnv O).multiReader = O.multiReader := rfl
@[simp] theorem mE_aggregate : (modelEnv O).aggregate = O.aggregate := rfl
@[simp] theorem mE_writeBuckets : (modelEnv O).writeBuckets = O.writeBuckets := rfl
@[simp] theorem mE_writeGoroutines : (modelEnv O).writeGoroutines = O.writeGoroutines := rfl
@[simp] theorem mE_htmlAgg : (modelEnv O).htmlAgg = O.htmlAgg := rfl
@[simp] theorem mE_htmlSnap : (modelEnv O).htmlSnap = O.htmlSnap := rfl
@[simp] theorem mE_writeErr : (modelEnv O).writeErr = O.writeErr := rfl
@[simp] theorem mE_showBanner (w : CWorld) : (modelEnv O).showBanner w = some (w, bannerOf O) := rfl
@[simp] theorem mE_processInner (w : CWorld) (out : CWriter) (p : PaletteRef) (s : Lvl) (pf : Console.PathFormat)
    (html : Bytes) (filter mtch : CRe) (c : SnapRef) (first : Bool) :
    (modelEnv O).processInner w out p s pf html filter mtch c first =
      innerSpec O w out p s pf html filter mtch c := rfl
@[simp] theorem mE_process (w : CWorld) (inp : InStream) (out : CWriter) (p : PaletteRef) (s : Lvl)
    (pf : Console.PathFormat) (parse rebase : Bool) (html : Bytes) (filter mtch : CRe) :
    (modelEnv O).process w inp out p s pf parse rebase html filter mtch =
      processSpec O w inp out p s pf parse rebase html filter mtch := rfl

end

/-- the spec functions only read the oracles: two environments with the same oracles have the same
`loopSpec` -/
theorem loopSpec_congr (O O' : Env) (out : CWriter) (p : PaletteRef) (s : Lvl) (pf : Console.PathFormat)
    (html : Bytes) (filter mtch : CRe) (opts : Cli.Opts)
    (h : ∀ w inp, iterSpec O out p s pf html filter mtch opts w inp = iterSpec O' out p s pf html filter mtch opts w inp) :
    ∀ (fuel : Nat) (w : CWorld) (inp : InStream),
      loopSpec O out p s pf html filter mtch opts fuel w inp = loopSpec O' out p s pf html filter mtch opts fuel w inp
  | 0, _, _ => rfl
  | fuel + 1, w, inp => by
    rw [loopSpec, loopSpec, h]
    cases iterSpec O' out p s pf html filter mtch opts w inp with
    | none => rfl
    | some x =>
      cases x with
      | inr res => rfl
      | inl y => exact loopSpec_congr O O' out p s pf html filter mtch opts h fuel y.1 y.2

theorem innerSpec_modelEnv (O : Env) (w : CWorld) (out : CWriter) (p : PaletteRef) (s : Lvl)
    (pf : Console.PathFormat) (html : Bytes) (filter mtch : CRe) (c : SnapRef) :
    innerSpec (modelEnv O) w out p s pf html filter mtch c = innerSpec O w out p s pf html filter mtch c := rfl

theorem processSpec_modelEnv (O : Env) (w : CWorld) (inp : InStream) (out : CWriter) (p : PaletteRef) (s : Lvl)
    (pf : Console.PathFormat) (parse rebase : Bool) (html : Bytes) (filter mtch : CRe) :
    processSpec (modelEnv O) w inp out p s pf parse rebase html filter mtch =
      processSpec O w inp out p s pf parse rebase html filter mtch :=
  loopSpec_congr (modelEnv O) O out p s pf html filter mtch _ (fun _ _ => rfl) _ w inp

/-- the model is a fixed point of the translated equations: for every environment (its oracles),
world, stream, writer and option set -/
theorem tie_showBanner (O : Env) (w : CWorld) :
    TrC.showBanner (modelEnv O) w = (modelEnv O).showBanner w := rfl

theorem tie_processInner (O : Env) (w : CWorld) (out : CWriter) (p : PaletteRef) (s : Lvl)
    (pf : Console.PathFormat) (html : Bytes) (filter mtch : CRe) (c : SnapRef) (first : Bool) :
    TrC.processInner (modelEnv O) w out p s pf html filter mtch c first =
      (modelEnv O).processInner w out p s pf html filter mtch c first :=
  tie_processInner_gen (modelEnv O) (fun _ => rfl) w out p s pf html filter mtch c first

theorem tie_process_modelEnv (O : Env) (w : CWorld) (inp : InStream) (out : CWriter) (p : PaletteRef) (s : Lvl)
    (pf : Console.PathFormat) (parse rebase : Bool) (html : Bytes) (filter mtch : CRe) :
    TrC.process (modelEnv O) w inp out p s pf parse rebase html filter mtch =
      (modelEnv O).process w inp out p s pf parse rebase html filter mtch :=
  (tie_process_gen (modelEnv O) (fun _ _ _ _ _ _ _ _ _ _ => rfl) w inp out p s pf parse rebase html filter mtch).trans
    (processSpec_modelEnv O w inp out p s pf parse rebase html filter mtch)

/-- the environment in which every callee is the TRANSLATED function (nothing is the model) -/
def closedEnv (O : Env) : Env :=
  { O with
    showBanner := TrC.showBanner O
    processInner := TrC.processInner { O with showBanner := TrC.showBanner O } }

/-- the translated `process`, calling the translated `processInner`, calling the translated
`showBanner`, is `processSpec`: for every oracle, world, stream, writer and option set -/
theorem tie_closed (O : Env) (w : CWorld) (inp : InStream) (out : CWriter) (p : PaletteRef) (s : Lvl)
    (pf : Console.PathFormat) (parse rebase : Bool) (html : Bytes) (filter mtch : CRe) :
    TrC.process (closedEnv O) w inp out p s pf parse rebase html filter mtch =
      processSpec O w inp out p s pf parse rebase html filter mtch :=
  (tie_process_gen (closedEnv O)
    (fun w out p s pf html filter mtch c first =>
      tie_processInner_gen { O with showBanner := TrC.showBanner O } (fun _ => rfl) w out p s pf html filter mtch c first)
    w inp out p s pf parse rebase html filter mtch).trans
    (loopSpec_congr (closedEnv O) O out p s pf html filter mtch _ (fun _ _ => rfl) _ w inp)

/-! ## 4. fuel -/

/-- more fuel does not change a result that was reached: a `some` IS what the Go loop does -/
theorem loopSpec_mono (O : Env) (out : CWriter) (p : PaletteRef) (s : Lvl) (pf : Console.PathFormat)
    (html : Bytes) (filter mtch : CRe) (opts : Cli.Opts) :
    ∀ (f f' : Nat) (w : CWorld) (inp : InStream) (r : CWorld × GoErr),
      loopSpec O out p s pf html filter mtch opts f w inp = some r → f ≤ f' →
      loopSpec O out p s pf html filter mtch opts f' w inp = some r
  | 0, _, _, _, _, h, _ => by simp [loopSpec] at h
  | f + 1, 0, _, _, _, _, hle => by omega
  | f + 1, f' + 1, w, inp, r, h, hle => by
    rw [loopSpec] at h ⊢
    cases hi : iterSpec O out p s pf html filter mtch opts w inp with
    | none => rw [hi] at h; exact h
    | some x =>
      rw [hi] at h
      cases x with
      | inr res => exact h
      | inl y => exact loopSpec_mono O out p s pf html filter mtch opts f f' y.1 y.2 r h (by omega)

/-! ## 5. projection onto `PP/Model/Cli.lean` -/

/-- the Go error value of a model error: `io.EOF` for the reader's EOF, a distinct non-nil,
non-EOF value for every other one (`errOf_injective`) -/
def errOf : LErr → GoErr
  | .reader .eof => .eof
  | .reader .noProgress => .other 0
  | .reader (.other t) => .other (2 * t + 2)
  | .parse e => .other (2 * e.ctorIdx + 1)

/-- the `err` `ScanSnapshot` returns -/
def errOfOpt : Option LErr → GoErr
  | none => .nil
  | some e => errOf e

/-- the error `process` returns, for a status of the model that is a return -/
def errOfStatus : Cli.Status → GoErr
  | .failed e => errOf e
  | _ => .nil

theorem errOf_ne_nil (e : LErr) : (errOf e == GoErr.nil) = false := by
  cases e with
  | reader r => cases r <;> rfl
  | parse p => rfl

theorem errOf_eq_eof (e : LErr) : (errOf e == GoErr.eof) = decide (e = .reader .eof) := by
  cases e with
  | reader r => cases r <;> simp [errOf]
  | parse p => simp [errOf]

theorem ctorIdx_inj (a b : Err) (h : a.ctorIdx = b.ctorIdx) : a = b := by
  cases a <;> cases b <;> first | rfl | (exact absurd h (by decide))

theorem errOf_injective (a b : LErr) (h : errOf a = errOf b) : a = b := by
  cases a with
  | reader r =>
    cases b with
    | reader r' =>
      cases r <;> cases r' <;> simp [errOf] at h ⊢ <;> omega
    | parse p' => cases r <;> simp [errOf] at h <;> omega
  | parse p =>
    cases b with
    | reader r' => cases r' <;> simp [errOf] at h <;> omega
    | parse p' =>
      simp only [errOf, GoErr.other.injEq] at h
      exact congrArg _ (ctorIdx_inj p p' (by omega))

theorem errOfStatus_statusOf (e : LErr) :
    errOfStatus (Cli.statusOf e) = if errOf e == GoErr.eof then GoErr.nil else errOf e := by
  rw [errOf_eq_eof]
  unfold Cli.statusOf
  by_cases h : e = .reader .eof
  · simp [h, errOfStatus]
  · simp [h, errOfStatus]

/-- a snapshot with these goroutines (the model's `ScanSnapshot` returns the goroutine list only) -/
def snapOf (gs : List Goroutine) : Snapshot := { goroutines := gs }

/-- the model's line-level `ScanSnapshot` (`scanSnapshotL true`: `DefaultOpts` has
`NameArguments`) as the oracle of the translated code: it reads `inp.rest`, which ends in
`inp.final`, and leaves `unread` -/
def lineScan (inp : InStream) : ScanRet :=
  let r := scanSnapshotL true inp.rest inp.final
  { inp := { inp with rest := r.unread }, snap := r.snap.map snapOf, suffix := r.suffix.getD [],
    err := errOfOpt r.err, fwd := r.fwd }

/-- the oracles the model `Cli.process` assumes, for a configuration `cfg` (PP/Model/Cli.lean,
"Trusted by contract").  First those of `processInner`: `$GOTRACEBACK` gives `cfg.showBanner`;
`Aggregate` yields the model's buckets; the two console renderers write the model's bytes and
return nil.  Then (`LineOracles`) `ScanSnapshot` with the options of `process` is the line-level
model; `io.MultiReader(bytes.NewReader(suffix), in)` delivers `suffix`, then what `in` still
holds, and ends like `in`. -/
structure RenderOracles (O : Env) (cfg : Cli.CliCfg) : Prop where
  banner : bannerOf O = cfg.showBanner
  agg : ∀ snap, (O.aggregate (some snap) cfg.level).map (·.buckets) = some (aggregate cfg.level snap.goroutines)
  buckets : ∀ w a ne, O.writeBuckets w (some cfg.palette) a cfg.pf ne cfg.filter cfg.mtch =
    (Console.writeBuckets cfg.palette a.buckets cfg.pf ne cfg.filter cfg.mtch, GoErr.nil)
  goroutines : ∀ w snap ne, O.writeGoroutines w (some cfg.palette) (some snap) cfg.pf ne cfg.filter cfg.mtch =
    (Console.writeGoroutines cfg.palette snap.goroutines cfg.pf ne cfg.filter cfg.mtch, GoErr.nil)

/-- … with the line-level `ScanSnapshot` and `MultiReader` (the model's `processL`) -/
structure LineOracles (O : Env) (cfg : Cli.CliCfg) : Prop extends RenderOracles O cfg where
  scan : ∀ w inp, O.scanSnapshot w inp (Cli.processOpts O.goroot O.gopaths) = lineScan inp
  multi_rest : ∀ b inp, (O.multiReader b inp).rest = b ++ inp.rest
  multi_final : ∀ b inp, (O.multiReader b inp).final = inp.final

theorem optsOf_norebase (O : Env) (parse : Bool) : optsOf O parse false = Cli.processOpts O.goroot O.gopaths := by
  cases parse <;> rfl

theorem outBytes_logWorld (out : CWriter) (w : CWorld) : outBytes out (logWorld w).trace = outBytes out w.trace := by
  simp [logWorld, CWorld.logPrintf, outBytes, CEvent.bytesTo]

/-- `processInner` with `html = ""` is the model's `renderSnapshot`: it returns nil and sends the
model's bytes to `out` -/
theorem innerSpec_model (O : Env) (cfg : Cli.CliCfg) (H : RenderOracles O cfg) (w : CWorld) (out : CWriter)
    (gs : List Goroutine) (b : Bytes) (h : Cli.renderSnapshot cfg gs = .ok b) :
    ∃ w', innerSpec O w out (some cfg.palette) cfg.level cfg.pf [] cfg.filter cfg.mtch (some (snapOf gs)) =
        some (w', GoErr.nil) ∧ outBytes out w'.trace = outBytes out w.trace ++ b := by
  unfold Cli.renderSnapshot at h
  unfold innerSpec
  simp only [snapOf, H.banner]
  cases hr : Cli.isRace gs with
  | error e => rw [hr] at h; cases h
  | ok race =>
    rw [hr] at h
    cases race with
    | false =>
      simp only [Except.ok.injEq] at h
      have ha := H.agg { goroutines := gs }
      cases hag : O.aggregate (some { goroutines := gs }) cfg.level with
      | none => rw [hag] at ha; cases ha
      | some a =>
        rw [hag] at ha
        simp only [Option.map_some, Option.some.injEq] at ha
        simp only [beq_self_eq_true, if_true, CWorld.writeBuckets, H.buckets]
        refine ⟨_, rfl, ?_⟩
        simp only [CWorld.emit_trace, outBytes_append, outBytes_singleton,
          CEvent.bytesTo, if_true, outBytes_logWorld, ha]
        rw [← h]
    | true =>
      simp only [Except.ok.injEq] at h
      simp only [beq_self_eq_true, if_true, CWorld.writeGoroutines, H.goroutines]
      refine ⟨_, rfl, ?_⟩
      simp only [CWorld.emit_trace, outBytes_append, outBytes_singleton,
        CEvent.bytesTo, if_true, outBytes_logWorld]
      rw [← h]

/-- the `if c != nil { … processInner … }` block against the model's `renderOpt` -/
theorem renderStep_model (O : Env) (cfg : Cli.CliCfg) (H : RenderOracles O cfg) (w : CWorld) (out : CWriter)
    (snap : Option (List Goroutine)) (err : GoErr) (b : Bytes) (h : Cli.renderOpt cfg snap = .ok b) :
    ∃ w', renderStep O w out (some cfg.palette) cfg.level cfg.pf [] cfg.filter cfg.mtch (snap.map snapOf) err =
        some (w', keepFirst err GoErr.nil) ∧ outBytes out w'.trace = outBytes out w.trace ++ b := by
  cases snap with
  | none =>
    simp only [Cli.renderOpt, Except.ok.injEq] at h
    subst h
    refine ⟨w, ?_, by simp⟩
    unfold renderStep keepFirst
    cases err <;> rfl
  | some gs =>
    obtain ⟨w', h1, h2⟩ := innerSpec_model O cfg H w out gs b h
    refine ⟨w', ?_, h2⟩
    unfold renderStep
    simp only [Option.map_some, Option.isSome_some, if_true, h1, Option.bind_some]

theorem finishStep_out (w : CWorld) (out : CWriter) (suffix : Bytes) (err : GoErr) :
    outBytes out (finishStep w out suffix err).1.trace = outBytes out w.trace ++ suffix := by
  unfold finishStep
  by_cases h : suffix.length ≠ 0
  · simp [h, CEvent.bytesTo]
  · have : suffix = [] := by
      cases suffix with
      | nil => rfl
      | cons a t => simp at h
    simp [this]

/-- **the loop**: with the oracles the model assumes, for every fuel, world and stream, whenever the
model's `processL` (started with what `out` has received so far) returns — status `ok` or
`failed` —, the translated loop (`loopSpec`) returns with the same fuel, the error it returns is
the model's status and what `out` has received is the model's output -/
theorem loopSpec_model (O : Env) (cfg : Cli.CliCfg) (H : LineOracles O cfg) (out : CWriter) :
    ∀ (fuel : Nat) (w : CWorld) (inp : InStream),
      (Cli.processL cfg inp.final fuel inp.rest (outBytes out w.trace)).2 ≠ .panicked →
      (Cli.processL cfg inp.final fuel inp.rest (outBytes out w.trace)).2 ≠ .outOfFuel →
      ∃ w', loopSpec O out (some cfg.palette) cfg.level cfg.pf [] cfg.filter cfg.mtch
            (Cli.processOpts O.goroot O.gopaths) fuel w inp =
          some (w', errOfStatus (Cli.processL cfg inp.final fuel inp.rest (outBytes out w.trace)).2) ∧
        outBytes out w'.trace = (Cli.processL cfg inp.final fuel inp.rest (outBytes out w.trace)).1
  | 0, w, inp => by
    intro _ h2
    exact absurd rfl h2
  | fuel + 1, w, inp => by
    rw [Cli.processL.eq_2]
    rw [loopSpec]
    unfold iterSpec
    simp only [H.scan, lineScan]
    generalize scanSnapshotL true inp.rest inp.final = r
    cases hp : r.panicked with
    | true =>
      intro h1 _
      simp at h1
    | false =>
      simp only [Bool.false_eq_true, if_false]
      cases hro : Cli.renderOpt cfg r.snap with
      | error e =>
        intro h1 _
        simp at h1
      | ok rendered =>
        obtain ⟨w2, hw2, hout2⟩ := renderStep_model O cfg H.toRenderOracles (w.emit (.scan inp out (Cli.processOpts O.goroot O.gopaths) r.fwd))
          out r.snap (errOfOpt r.err) rendered hro
        have hacc : outBytes out w2.trace = outBytes out w.trace ++ r.fwd ++ rendered := by
          rw [hout2]
          simp [CEvent.bytesTo]
        simp only [hw2, Option.bind_some]
        cases he : r.err with
        | none =>
          simp only [errOfOpt, keepFirst, BEq.rfl, if_true]
          intro h1 h2
          have hfin : (O.multiReader (r.suffix.getD []) { inp with rest := r.unread }).final = inp.final := by
            rw [H.multi_final]
          have hrest : (O.multiReader (r.suffix.getD []) { inp with rest := r.unread }).rest =
              r.suffix.getD [] ++ r.unread := by
            rw [H.multi_rest]
          have ih := loopSpec_model O cfg H out fuel w2 (O.multiReader (r.suffix.getD []) { inp with rest := r.unread })
          rw [hfin, hrest, hacc] at ih
          exact ih h1 h2
        | some e =>
          intro _ _
          simp only [errOfOpt, keepFirst_of_ne (errOf_ne_nil e), errOf_ne_nil e, Bool.false_eq_true, if_false]
          refine ⟨(finishStep w2 out (r.suffix.getD []) (errOf e)).1, ?_, ?_⟩
          · rw [errOfStatus_statusOf]; rfl
          · rw [finishStep_out, hacc]

/-- **tie_process**: with the oracles the model assumes (`LineOracles`), valid options, `html = ""`,
`rebase = false` and enough fuel (`processFuel input = input.length + 2` iterations), for every
input `input` that ends in `fin` (however it is delivered), every configuration, world and
`parse`: the translated `process` — calling the translated `processInner` and `showBanner` —
returns; the bytes it sent to `out` are the output of the model's `Cli.process` and the error it
returns is the model's status (`nil` for `ok`, the error for `failed`). -/
theorem tie_process (O : Env) (cfg : Cli.CliCfg) (H : LineOracles O cfg)
    (hvalid : (Cli.processOpts O.goroot O.gopaths).isValid = true)
    (inp : InStream) (hfuel : Cli.processFuel inp.rest ≤ O.fuel) (out : CWriter) (parse : Bool) :
    ∃ w', TrC.process (closedEnv O) {} inp out (some cfg.palette) cfg.level cfg.pf parse false []
          cfg.filter cfg.mtch =
        some (w', errOfStatus (Cli.process cfg O.goroot O.gopaths inp.final inp.rest).2) ∧
      outBytes out w'.trace = (Cli.process cfg O.goroot O.gopaths inp.final inp.rest).1 := by
  rw [tie_closed, processSpec, optsOf_norebase]
  unfold Cli.process
  rw [if_pos hvalid]
  have hterm := PP.Cli.process_terminates cfg inp.final inp.rest [] (Cli.processFuel inp.rest) (Nat.le_refl _)
  have h1 : (Cli.processL cfg inp.final (Cli.processFuel inp.rest) inp.rest []).2 ≠ .panicked := by
    rcases hterm with ⟨o, h⟩ | ⟨o, e, h, _⟩ <;> rw [h] <;> simp
  have h2 : (Cli.processL cfg inp.final (Cli.processFuel inp.rest) inp.rest []).2 ≠ .outOfFuel := by
    rcases hterm with ⟨o, h⟩ | ⟨o, e, h, _⟩ <;> rw [h] <;> simp
  obtain ⟨w', hw, ho⟩ := loopSpec_model O cfg H out (Cli.processFuel inp.rest) {} inp h1 h2
  exact ⟨w', loopSpec_mono O out _ _ _ _ _ _ _ _ _ _ _ _ hw hfuel, ho⟩

/-! ### the same through the reader model: `Cli.processB`, `Cli.scanCallB`, `Cli.multiReader` -/

/-- the model's byte-level `ScanSnapshot` (`Cli.scanCallB`, through the reader model with capacity
`N`) as the oracle.  Where the reader model runs out of ITS fuel (it never does:
`PP.scanSnapshot_total`) the oracle answers with an error and leaves the stream alone. -/
def byteScan (N retry : Nat) (inp : InStream) : ScanRet :=
  match Cli.scanCallB N retry inp with
  | none => { inp := inp, snap := none, suffix := [], err := .other 0, fwd := [] }
  | some (r, src') =>
    { inp := src', snap := r.snap.map snapOf, suffix := r.suffix.getD [], err := errOfOpt r.err, fwd := r.fwd }

/-- the oracles of `Cli.processB`: the byte-level `ScanSnapshot`, the model's `multiReader` -/
structure ByteOracles (O : Env) (cfg : Cli.CliCfg) (N retry : Nat) : Prop extends RenderOracles O cfg where
  scan : ∀ w inp, O.scanSnapshot w inp (Cli.processOpts O.goroot O.gopaths) = byteScan N retry inp
  multi : ∀ b inp, O.multiReader b inp = Cli.multiReader b inp

/-- **the loop, byte level**: whenever the model's `processB` returns (`ok` or `failed`), the
translated loop returns with the same fuel, the same error and the same bytes on `out` — for every
source (content, delivery schedule, terminal error), capacity and retry count -/
theorem loopSpec_modelB (O : Env) (cfg : Cli.CliCfg) (N retry : Nat) (H : ByteOracles O cfg N retry) (out : CWriter) :
    ∀ (fuel : Nat) (w : CWorld) (src : InStream) (ex : Bool),
      (Cli.processB cfg N retry fuel src (outBytes out w.trace) ex).2.1 ≠ .panicked →
      (Cli.processB cfg N retry fuel src (outBytes out w.trace) ex).2.1 ≠ .outOfFuel →
      ∃ w', loopSpec O out (some cfg.palette) cfg.level cfg.pf [] cfg.filter cfg.mtch
            (Cli.processOpts O.goroot O.gopaths) fuel w src =
          some (w', errOfStatus (Cli.processB cfg N retry fuel src (outBytes out w.trace) ex).2.1) ∧
        outBytes out w'.trace = (Cli.processB cfg N retry fuel src (outBytes out w.trace) ex).1
  | 0, w, src, ex => by
    intro _ h2
    exact absurd rfl h2
  | fuel + 1, w, src, ex => by
    rw [Cli.processB.eq_2, loopSpec]
    unfold iterSpec
    simp only [H.scan, byteScan]
    cases hc : Cli.scanCallB N retry src with
    | none =>
      intro _ h2
      simp at h2
    | some x =>
      obtain ⟨r, src'⟩ := x
      simp only []
      cases hp : r.panicked with
      | true =>
        intro h1 _
        simp at h1
      | false =>
        simp only [Bool.false_eq_true, if_false]
        cases hro : Cli.renderOpt cfg r.snap with
        | error e =>
          intro h1 _
          simp at h1
        | ok rendered =>
          obtain ⟨w2, hw2, hout2⟩ := renderStep_model O cfg H.toRenderOracles
            (w.emit (.scan src out (Cli.processOpts O.goroot O.gopaths) r.fwd)) out r.snap (errOfOpt r.err) rendered hro
          have hacc : outBytes out w2.trace = outBytes out w.trace ++ r.fwd ++ rendered := by
            rw [hout2]
            simp [CEvent.bytesTo]
          simp only [hw2, Option.bind_some]
          cases he : r.err with
          | none =>
            simp only [errOfOpt, keepFirst, BEq.rfl, if_true]
            intro h1 h2
            have ih := loopSpec_modelB O cfg N retry H out fuel w2 (O.multiReader (r.suffix.getD []) src')
              (ex && decide ((r.suffix.getD []).length ≤ N))
            rw [H.multi, hacc] at ih
            rw [H.multi]
            exact ih h1 h2
          | some e =>
            intro _ _
            simp only [errOfOpt, keepFirst_of_ne (errOf_ne_nil e), errOf_ne_nil e, Bool.false_eq_true, if_false]
            refine ⟨(finishStep w2 out (r.suffix.getD []) (errOf e)).1, ?_, ?_⟩
            · rw [errOfStatus_statusOf]; rfl
            · rw [finishStep_out, hacc]

/-- **tie_processB**: the translated `process` (closed environment, `html = ""`, `rebase = false`)
against the model's byte-level loop `Cli.processB` started on the source `src` with nothing
written: whenever `processB` returns with `fuel ≤ O.fuel` iterations, the translated `process`
returns the same error and has sent the same bytes to `out` -/
theorem tie_processB (O : Env) (cfg : Cli.CliCfg) (N retry : Nat) (H : ByteOracles O cfg N retry)
    (src : InStream) (fuel : Nat) (hfuel : fuel ≤ O.fuel) (out : CWriter) (parse : Bool)
    (h1 : (Cli.processB cfg N retry fuel src [] true).2.1 ≠ .panicked)
    (h2 : (Cli.processB cfg N retry fuel src [] true).2.1 ≠ .outOfFuel) :
    ∃ w', TrC.process (closedEnv O) {} src out (some cfg.palette) cfg.level cfg.pf parse false []
          cfg.filter cfg.mtch =
        some (w', errOfStatus (Cli.processB cfg N retry fuel src [] true).2.1) ∧
      outBytes out w'.trace = (Cli.processB cfg N retry fuel src [] true).1 := by
  rw [tie_closed, processSpec, optsOf_norebase]
  obtain ⟨w', hw, ho⟩ := loopSpec_modelB O cfg N retry H out fuel {} src true h1 h2
  exact ⟨w', loopSpec_mono O out _ _ _ _ _ _ _ _ _ _ _ _ hw hfuel, ho⟩

/-! ## non-vacuity -/

/-- an environment with the oracles the model assumes (`lineEnv_oracles`): `$GOTRACEBACK = gtb` -/
def lineEnv (gtb : Bytes) (fuel : Nat) : Env where
  fuel := fuel
  getenv _ := gtb
  goroot := []
  gopaths := []
  scanSnapshot _ inp _ := lineScan inp
  multiReader b inp := { inp with rest := b ++ inp.rest }
  aggregate c l := c.map fun s => { snapshot := s, buckets := PP.aggregate l s.goroutines }
  writeBuckets _ p a pf ne f m := (Console.writeBuckets (p.getD {}) a.buckets pf ne f m, .nil)
  writeGoroutines _ p c pf ne f m :=
    (Console.writeGoroutines (p.getD {}) ((c.map (·.goroutines)).getD []) pf ne f m, .nil)
  htmlAgg _ _ _ _ := .nil
  htmlSnap _ _ _ _ := .nil
  writeErr _ _ _ := .nil
  showBanner _ := none
  processInner _ _ _ _ _ _ _ _ _ _ := none
  process _ _ _ _ _ _ _ _ _ _ _ := none

theorem lineEnv_oracles (cfg : Cli.CliCfg) (gtb : Bytes) (fuel : Nat) (h : Cli.showBanner gtb = cfg.showBanner) :
    LineOracles (lineEnv gtb fuel) cfg where
  scan _ _ := rfl
  multi_rest _ _ := rfl
  multi_final _ _ := rfl
  banner := h
  agg _ := rfl
  buckets _ _ _ := rfl
  goroutines _ _ _ := rfl

/-- the hypotheses of `tie_process` can be met, for every input: the translated `process` of the
closed environment returns the model's output and status -/
example (input : Bytes) (fin : RErr) (out : CWriter) :
    ∃ w', TrC.process (closedEnv (lineEnv [] (input.length + 2))) {} { rest := input, sched := [], final := fin } out
          (some {}) .anyPointer .basePath true false [] none none =
        some (w', errOfStatus (Cli.process { showBanner := true } [] [] fin input).2) ∧
      outBytes out w'.trace = (Cli.process { showBanner := true } [] [] fin input).1 :=
  tie_process (lineEnv [] (input.length + 2)) { showBanner := true } (lineEnv_oracles _ _ _ rfl)
    (show (Cli.processOpts [] []).isValid = true by decide)
    { rest := input, sched := [], final := fin } (Nat.le_refl _) out true

/-- an input without a dump ends in EOF: `process` returns nil and the input went through -/
example : ((TrC.process (closedEnv (lineEnv [] 3)) {} { rest := b!"x", sched := [] } {} (some {}) .anyPointer .basePath
      true false [] none none).map fun r => (r.2, outBytes {} r.1.trace)) = some (GoErr.nil, b!"x") := by
  decide

#print axioms tie_showBanner_any
#print axioms tie_showBanner
#print axioms tie_processInner_gen
#print axioms tie_processInner
#print axioms body_process
#print axioms loop_process
#print axioms tie_process_gen
#print axioms tie_process_modelEnv
#print axioms tie_closed
#print axioms loopSpec_mono
#print axioms errOf_injective
#print axioms innerSpec_model
#print axioms loopSpec_model
#print axioms tie_process
#print axioms loopSpec_modelB
#print axioms tie_processB

end PP.TrC
