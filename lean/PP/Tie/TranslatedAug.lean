import PP.TranslatedAug
import PP.Model.Augment
import PP.Lemmas.AugmentLemmas
/-
Tie A, translated part: `augmentCall` (stack/source.go) and `(*Args).walk` (stack/stack.go),
translated from the Go source on every run (`PP/TranslatedAug.lean`) and proved equal to the
hand-written model `PP/Model/Augment.lean` (`flatL`, `pop`, `popFmt`, `popName`, `popNames`,
`render`, `augmentLoop`, `augmentCall`) the theorems of C19 are about.

Every theorem is for EVERY oracle of the environment: the result `eat` of
`extractArgumentsType` (type names + ellipsis flag, any function of the declaration), the
float formatting `ff`, and the loop fuel.
-/
namespace PP.TrAu
open PP PP.Go PP.Bytes PP.Aug PP.Spec

/-! ### the model side, phrased on the Go data -/

mutual
/-- the `*Arg` `walk` calls its visitor on, in order (as values) -/
def scal1 : Arg → List Arg
  | .scalar n v p o i => [.scalar n v p o i]
  | .agg fs _ => scalL fs
def scalL : List Arg → List Arg
  | [] => []
  | a :: as => scal1 a ++ scalL as
end

/-- what `augmentCall` reads through a `*Arg` -/
def toFlat (a : Arg) : Flat := ⟨(ofArg a).name, (ofArg a).value, (ofArg a).isOffsetTooLarge⟩

mutual
theorem map_scal1 : ∀ a : Arg, (scal1 a).map toFlat = flat1 a
  | .scalar n v p o i => by simp [scal1, flat1, toFlat]
  | .agg fs e => by simp only [scal1, flat1]; exact map_scalL fs
theorem map_scalL : ∀ l : List Arg, (scalL l).map toFlat = flatL l
  | [] => by simp [scalL, flatL]
  | a :: as => by simp only [scalL, flatL, List.map_append, map_scal1 a, map_scalL as]
end

theorem scalL_length (l : List Arg) : (scalL l).length = (flatL l).length := by
  rw [← map_scalL, List.length_map]

/-- `f.Recv != nil && len(f.Recv.List) != 1` -/
def recvBad (f : TN.GoFuncDecl) : Bool :=
  match f.recv with
  | some l => l.length != 1
  | none => false

/-- the call after the strings `ps` have been appended to `Processed`: nothing else changes -/
def addProcessed (c : Call) (ps : List Bytes) : Call :=
  { c with args := { c.args with processed := c.args.processed ++ ps } }

/-- the model's loop with `fuel` iterations at most, as the translated code sees it: `none` is
the Go panic (`types[len(types)-1]` on an empty list) or the fuel running out -/
def liftLoop (c : Call) : Except AugErr (List Bytes) → Option Call
  | .ok ps => some (addProcessed c ps)
  | .error _ => none

def augModel (ff : FloatFmt) (fuel : Nat) (c : Call) (types : List Bytes) (extra : Bool) : Option Call :=
  liftLoop c (augmentLoop ff types.getLast? extra fuel types c.args.values (flatL c.args.values))

def modelEnv (eat : TN.GoFuncDecl → List Bytes × Bool) (ff : FloatFmt) (fuel : Nat) : Env where
  walk a := some (scalL a.values)
  augmentCall c f := if recvBad f then some c else augModel ff fuel c (eat f).1 (eat f).2
  extractArgumentsType := eat
  formatFloat32 := ff.f32
  formatFloat64 := ff.f64
  fuel := fuel

variable (eat : TN.GoFuncDecl → List Bytes × Bool) (ff : FloatFmt) (fuel : Nat)

@[simp] theorem mE_walk (a : Args) : (modelEnv eat ff fuel).walk a = some (scalL a.values) := rfl
@[simp] theorem mE_augmentCall (c : Call) (f : TN.GoFuncDecl) :
    (modelEnv eat ff fuel).augmentCall c f = if recvBad f then some c else augModel ff fuel c (eat f).1 (eat f).2 := rfl
@[simp] theorem mE_eat (f : TN.GoFuncDecl) : (modelEnv eat ff fuel).extractArgumentsType f = eat f := rfl
@[simp] theorem mE_f32 (b : Nat) : (modelEnv eat ff fuel).formatFloat32 b = ff.f32 b := rfl
@[simp] theorem mE_f64 (b : Nat) : (modelEnv eat ff fuel).formatFloat64 b = ff.f64 b := rfl
@[simp] theorem mE_fuel : (modelEnv eat ff fuel).fuel = fuel := rfl

/-! ### walk -/

theorem getElem?_at_length {α : Type} (pre rest : List α) (x : α) : (pre ++ x :: rest)[pre.length]? = some x := by
  simp

theorem walk_loop (a : Args) : ∀ (xs pre acc : List Arg), a.values = pre ++ xs →
    forIdx (fun i _x => walk_loop1 (modelEnv eat ff fuel) a i _x) xs pre.length acc = some (acc ++ scalL xs)
  | [], _, acc, _ => by simp [scalL]
  | x :: xs, pre, acc, h => by
    rw [forIdx_cons]
    have hx : a.values[pre.length]? = some x := by rw [h]; exact getElem?_at_length pre xs x
    have ih := walk_loop a xs (pre ++ [x]) 
    simp only [List.length_append, List.length_cons, List.length_nil, Nat.zero_add] at ih
    cases x with
    | scalar n v p o i =>
      simp only [walk_loop1, hx, ofArg_scalar, Bool.false_eq_true, if_false]
      rw [ih _ (by simp [h])]
      simp [scalL, scal1]
    | agg fs e =>
      simp only [walk_loop1, hx, ofArg_agg, if_true, mE_walk]
      rw [ih _ (by simp [h])]
      simp [scalL, scal1]

theorem tie_walk (a : Args) : walk (modelEnv eat ff fuel) a = (modelEnv eat ff fuel).walk a := by
  have h := walk_loop eat ff fuel a a.values [] [] (by simp)
  simp only [List.length_nil] at h
  simp only [walk, h, mE_walk, List.nil_append]

/-! ### the closures -/

theorem pop_eq (E : Env) (fl : List Arg) : augmentCall_pop E fl = some (fl.tail, fl.head?) := by
  cases fl with
  | nil => simp [augmentCall_pop]
  | cons x t => simp [augmentCall_pop, goSlice]

theorem popFmt_eq (E : Env) (fl : List Arg) (g : Nat → Bytes) :
    augmentCall_popFmt E fl (fun v => some (g v)) = some (fl.tail, (Aug.popFmt g (fl.map toFlat)).1) := by
  cases fl with
  | nil => simp [augmentCall_popFmt, pop_eq, Aug.popFmt, Aug.pop]
  | cons x t =>
    simp only [augmentCall_popFmt, pop_eq, List.head?_cons, List.tail_cons, Option.isNone_some, Bool.false_eq_true,
      if_false, Aug.popFmt, Aug.pop, List.map_cons, toFlat]
    split <;> rfl

theorem popName_eq (E : Env) (fl : List Arg) :
    augmentCall_popName E fl = some (fl.tail, (Aug.popName (fl.map toFlat)).1) := by
  cases fl with
  | nil => simp [augmentCall_popName, pop_eq, Aug.popName, Aug.pop]
  | cons x t =>
    simp only [augmentCall_popName, pop_eq, List.head?_cons, List.tail_cons, Option.isNone_some, Bool.false_eq_true,
      if_false, Aug.popName, Aug.pop, List.map_cons, toFlat, goHex]
    split
    · rfl
    · split <;> rfl

theorem popFmt_bool (E : Env) (fl : List Arg) :
    augmentCall_popFmt E fl (fun v => if v = 0 then some b!"false" else some b!"true") =
      some (fl.tail, (Aug.popFmt fmtBool (fl.map toFlat)).1) := by
  have h : (fun v : Nat => if v = 0 then some b!"false" else some b!"true") = fun v => some (fmtBool v) := by
    funext v
    by_cases hv : v = 0 <;> simp [hv, fmtBool]
  rw [h, popFmt_eq]

theorem popNames_succ (n : Nat) (flat : List Flat) :
    popNames (n + 1) flat = ((Aug.popName flat).1 :: (popNames n (Aug.popName flat).2).1, (popNames n (Aug.popName flat).2).2) := rfl

/-- the visitor of the aggregate case: one `popName()` per visited scalar -/
theorem loop3_eq (call : Call) (f : TN.GoFuncDecl) (types : List Bytes) (extra : Bool) (i : Nat) (t str : Bytes) (v : Args) :
    ∀ (xs : List Arg) (k : Nat) (fl : List Arg) (fields : List Bytes),
    forIdx (fun _i arg => augmentCall_loop3 (modelEnv eat ff fuel) call f types extra i t str v arg _i) xs k (fl, fields)
      = some (fl.drop xs.length, fields ++ (popNames xs.length (fl.map toFlat)).1)
  | [], k, fl, fields => by simp [popNames]
  | x :: xs, k, fl, fields => by
    rw [forIdx_cons]
    simp only [augmentCall_loop3, popName_eq]
    rw [loop3_eq call f types extra i t str v xs (k + 1) fl.tail (fields ++ [(Aug.popName (fl.map toFlat)).1])]
    simp only [List.length_cons, popNames_succ, popName_tail, List.map_tail]
    cases fl <;> simp

/-! ### one iteration once `t` is known: the `switch t` -/

/-- what one iteration leaves of `flatArgs` -/
def restA (t : Bytes) (vals : List Arg) (fl : List Arg) : List Arg :=
  match classify t, vals with
  | .string, _ => fl.tail.tail
  | .slice, _ => fl.tail.tail.tail
  | .other, .agg fs _ :: _ => fl.drop (flatL fs).length
  | .other, _ => fl.tail.tail
  | _, _ => fl.tail

theorem goFormatUint_eq : goFormatUint = formatUint := rfl
theorem goFormatInt_eq : goFormatInt = formatInt := rfl
theorem goTrunc_eq : goTrunc = toSigned := rfl
theorem goHex_eq : goHex = natToHex := rfl


theorem restA_map (t : Bytes) (vals : List Arg) (fl : List Arg) :
    (restA t vals fl).map toFlat = (render ff t vals (fl.map toFlat)).2 := by
  rw [render_snd]
  unfold restA
  cases hk : classify t <;> (try simp only [List.map_tail])
  cases vals with
  | nil => simp only [List.map_tail]
  | cons v vs =>
    cases v with
    | scalar => simp only [List.map_tail]
    | agg fs e => simp only [List.map_drop]

theorem join1_lit (call : Call) (f : TN.GoFuncDecl) (fl : List Arg) (types : List Bytes) (extra : Bool) (i : Nat) (t : Bytes)
    (h : t = b!"float32" ∨ t = b!"float64" ∨ t = b!"int" ∨ t = b!"int8" ∨ t = b!"int16" ∨ t = b!"int32" ∨ t = b!"rune"
      ∨ t = b!"int64" ∨ t = b!"uint" ∨ t = b!"uint8" ∨ t = b!"uint16" ∨ t = b!"uint32" ∨ t = b!"uint64"
      ∨ t = b!"uintptr" ∨ t = b!"byte" ∨ t = b!"bool" ∨ t = b!"string") :
    augmentCall_join1 (modelEnv eat ff fuel) call f fl types extra i t =
      some (addProcessed call [(render ff t (call.args.values.drop i) (fl.map toFlat)).1],
        restA t (call.args.values.drop i) fl, i + 1) := by
  rcases h with h | h | h | h | h | h | h | h | h | h | h | h | h | h | h | h | h <;> subst h <;>
    simp [augmentCall_join1, popFmt_eq, popName_eq, popFmt_bool, render, restA, addProcessed, classify,
      goFormatInt_eq, goTrunc_eq, goFormatUint_eq, goU32, popFmt_tail, popName_tail, List.map_tail]

theorem drop_cons_get {α : Type} (l : List α) (i : Nat) (v : α) (vs : List α) (h : l.drop i = v :: vs) :
    l[i]? = some v ∧ i < l.length := by
  constructor
  · have := List.getElem?_drop (xs := l) (i := i) (j := 0)
    rw [h] at this
    simpa using this.symm
  · apply Classical.byContradiction
    intro hc
    rw [List.drop_eq_nil_of_le (by omega)] at h
    cases h

theorem join1_def (call : Call) (f : TN.GoFuncDecl) (fl : List Arg) (types : List Bytes) (extra : Bool) (i : Nat) (t : Bytes)
    (h : ¬ (t = b!"float32" ∨ t = b!"float64" ∨ t = b!"int" ∨ t = b!"int8" ∨ t = b!"int16" ∨ t = b!"int32" ∨ t = b!"rune"
      ∨ t = b!"int64" ∨ t = b!"uint" ∨ t = b!"uint8" ∨ t = b!"uint16" ∨ t = b!"uint32" ∨ t = b!"uint64"
      ∨ t = b!"uintptr" ∨ t = b!"byte" ∨ t = b!"bool" ∨ t = b!"string")) :
    augmentCall_join1 (modelEnv eat ff fuel) call f fl types extra i t =
      some (addProcessed call [(render ff t (call.args.values.drop i) (fl.map toFlat)).1],
        restA t (call.args.values.drop i) fl, i + 1) := by
  simp only [not_or] at h
  obtain ⟨h1, h2, h3, h4, h5, h6, h7, h8, h9, h10, h11, h12, h13, h14, h15, h16, h17⟩ := h
  have hc : classify t = if hasPrefix t b!"*" then .star
      else if hasPrefix t b!"map[" || hasPrefix t b!"chan " || t = b!"func" then .single
      else if hasPrefix t b!"[]" then .slice else .other := by
    simp [classify, *]
  by_cases p1 : hasPrefix t b!"*" = true
  · simp [augmentCall_join1, *, popName_eq, render, restA, addProcessed, popName_tail]
  by_cases p2 : (hasPrefix t b!"map[" || hasPrefix t b!"chan " || t = b!"func") = true
  · simp only [p1, p2, if_true] at hc
    simp only [Bool.or_eq_true, decide_eq_true_eq] at p2
    simp [augmentCall_join1, *, popName_eq, render, restA, addProcessed, popName_tail]
  by_cases p3 : hasPrefix t b!"[]" = true
  · simp only [p1, p2, p3, if_true] at hc
    simp only [Bool.or_eq_true, decide_eq_true_eq, not_or] at p2
    simp [augmentCall_join1, *, popName_eq, popFmt_eq, render, restA, addProcessed, popName_tail, popFmt_tail, goFormatUint_eq, List.map_tail]
  simp only [p1, p2, p3] at hc
  simp only [Bool.or_eq_true, decide_eq_true_eq, not_or] at p2
  simp [augmentCall_join1, *, popName_eq, pop_eq, loop3_eq]
  cases hd : call.args.values.drop i with
  | nil =>
    have hi : ¬ i < call.args.values.length := by
      have := List.drop_eq_nil_iff.mp hd
      omega
    simp [hi, render, restA, hc, addProcessed, popName_tail, pop_tail]
  | cons v vs =>
    obtain ⟨hg, hi⟩ := drop_cons_get _ _ _ _ hd
    have hg' : call.args.values[i]'hi = v := by
      rw [List.getElem?_eq_getElem hi] at hg
      exact Option.some.inj hg
    cases v with
    | scalar n w p o ia =>
      simp [hi, hg', render, restA, hc, addProcessed, popName_tail, pop_tail]
    | agg fs e =>
      cases e <;> simp [hi, hg', render, restA, hc, addProcessed, scalL_length]

theorem join1_eq (call : Call) (f : TN.GoFuncDecl) (fl : List Arg) (types : List Bytes) (extra : Bool) (i : Nat) (t : Bytes) :
    augmentCall_join1 (modelEnv eat ff fuel) call f fl types extra i t =
      some (addProcessed call [(render ff t (call.args.values.drop i) (fl.map toFlat)).1],
        restA t (call.args.values.drop i) fl, i + 1) := by
  by_cases h : t = b!"float32" ∨ t = b!"float64" ∨ t = b!"int" ∨ t = b!"int8" ∨ t = b!"int16" ∨ t = b!"int32" ∨ t = b!"rune"
      ∨ t = b!"int64" ∨ t = b!"uint" ∨ t = b!"uint8" ∨ t = b!"uint16" ∨ t = b!"uint32" ∨ t = b!"uint64"
      ∨ t = b!"uintptr" ∨ t = b!"byte" ∨ t = b!"bool" ∨ t = b!"string"
  · exact join1_lit eat ff fuel call f fl types extra i t h
  · exact join1_def eat ff fuel call f fl types extra i t h

/-! ### the loop `for i := 0; len(flatArgs) != 0; i++` -/

theorem addProcessed_nil (c : Call) : addProcessed c [] = c := by
  simp [addProcessed]

theorem addProcessed_values (c : Call) (ps : List Bytes) : (addProcessed c ps).args.values = c.args.values := rfl

theorem liftLoop_consOk (c : Call) (s : Bytes) (x : Except AugErr (List Bytes)) :
    liftLoop c (consOk s x) = liftLoop (addProcessed c [s]) x := by
  cases x <;> simp [liftLoop, consOk, addProcessed]

theorem drop_succ_tail {α : Type} (l : List α) (i : Nat) : l.drop (i + 1) = (l.drop i).tail := by
  rw [List.tail_drop]

theorem loop_eq (fuel₀ : Nat) (f : TN.GoFuncDecl) (types : List Bytes) (extra : Bool) :
    ∀ (fuel : Nat) (call : Call) (fl : List Arg) (i : Nat),
    (whileFuel (fun _st => match _st with | (_, flatArgs, _) => (flatArgs.length != 0))
        (augmentCall_loop2 (modelEnv eat ff fuel₀) f types extra) fuel (call, fl, i)).map (·.1)
      = liftLoop call (augmentLoop ff types.getLast? extra fuel (types.drop i) (call.args.values.drop i) (fl.map toFlat))
  | 0, call, [], i => by simp [whileFuel_zero, augmentLoop, liftLoop, addProcessed_nil]
  | 0, call, a :: rest, i => by simp [whileFuel_zero, augmentLoop, liftLoop]
  | fuel + 1, call, [], i => by simp [whileFuel_succ, augmentLoop, liftLoop, addProcessed_nil]
  | fuel + 1, call, a :: rest, i => by
    have ih := loop_eq fuel₀ f types extra fuel
    rw [whileFuel_succ]
    simp only [List.length_cons, bne_iff_ne, ne_eq, Nat.add_one_ne_zero, not_false_eq_true, if_true, List.map_cons]
    cases hd : types.drop i with
    | nil =>
      have hi : types.length ≤ i := List.drop_eq_nil_iff.mp hd
      have hd' : types.drop (i + 1) = [] := List.drop_eq_nil_iff.mpr (by omega)
      cases extra with
      | false =>
        simp only [augmentCall_loop2, augmentLoop, ge_iff_le, hi, decide_true, if_true, Bool.not_false, popName_eq]
        rw [ih, liftLoop_consOk]
        simp [addProcessed, hd', popName_tail]
      | true =>
        cases hl : types.getLast? with
        | none =>
          have ht : types = [] := List.getLast?_eq_none_iff.mp hl
          subst ht
          simp [augmentCall_loop2, augmentLoop, liftLoop]
        | some t =>
          have hg : types[types.length - 1]? = some t := by
            rw [← hl, List.getLast?_eq_getElem?]
          have hpos : 1 ≤ types.length := by
            cases types with
            | nil => simp at hl
            | cons => simp
          simp only [augmentCall_loop2, augmentLoop, ge_iff_le, hi, decide_true, if_true, Bool.not_true, Bool.false_eq_true,
            if_false, goSub_of_le hpos, hg, join1_eq]
          rw [ih, liftLoop_consOk]
          have hr := restA_map ff t (call.args.values.drop i) (a :: rest)
          simp only [List.map_cons] at hr
          simp [addProcessed, hd', hl, hr]
    | cons t tys =>
      obtain ⟨hg, hi⟩ := drop_cons_get _ _ _ _ hd
      have hd' : types.drop (i + 1) = tys := by rw [drop_succ_tail, hd]; rfl
      have hi' : ¬ types.length ≤ i := by omega
      simp only [augmentCall_loop2, augmentLoop, ge_iff_le, hi', decide_false, Bool.false_eq_true, if_false, hg, join1_eq]
      rw [ih, liftLoop_consOk]
      have hr := restA_map ff t (call.args.values.drop i) (a :: rest)
      simp only [List.map_cons] at hr
      simp [addProcessed, hd', hr]

/-! ### augmentCall -/

theorem loop1_eq (E : Env) (call : Call) (f : TN.GoFuncDecl) : ∀ (xs : List Arg) (k : Nat) (fl : List Arg),
    forIdx (fun _i arg => augmentCall_loop1 E call f arg _i) xs k fl = some (fl ++ xs)
  | [], k, fl => by simp
  | x :: xs, k, fl => by
    rw [forIdx_cons]
    simp only [augmentCall_loop1]
    rw [loop1_eq E call f xs (k + 1) (fl ++ [x])]
    simp

/-- the translated `augmentCall` is the model, for every call, every declaration, every result of
`extractArgumentsType`, every float formatting and every fuel (where the fuel does not suffice both are
`none`; `tie_augmentCall_enough` says when it does) -/
theorem tie_augmentCall (c : Call) (f : TN.GoFuncDecl) :
    augmentCall (modelEnv eat ff fuel) c f = (modelEnv eat ff fuel).augmentCall c f := by
  have hl := loop_eq eat ff fuel f (eat f).1 (eat f).2 fuel c (scalL c.args.values) 0
  simp only [List.drop_zero, map_scalL] at hl
  cases hr : f.recv with
  | none =>
    simp only [augmentCall, hr, Option.isSome_none, Bool.false_eq_true, if_false, mE_walk, loop1_eq, List.nil_append,
      mE_eat, mE_fuel, mE_augmentCall, recvBad, augModel, ← hl]
    cases whileFuel _ _ fuel (c, scalL c.args.values, 0) with
    | none => rfl
    | some r => rfl
  | some l =>
    by_cases hn : l.length = 1
    · simp only [augmentCall, hr, Option.isSome_some, if_true, hn, bne_self_eq_false, Bool.false_eq_true, if_false,
        mE_walk, loop1_eq, List.nil_append, mE_eat, mE_fuel, mE_augmentCall, recvBad, augModel, ← hl]
      cases whileFuel _ _ fuel (c, scalL c.args.values, 0) with
      | none => rfl
      | some r => rfl
    · have hb : (l.length != 1) = true := by simp [hn]
      simp only [augmentCall, hr, Option.isSome_some, if_true, hb, mE_augmentCall, recvBad]

/-! ### what the agreement says in terms of `Aug.augmentCall` -/

theorem consOk_ne_fuel {s : Bytes} {x : Except AugErr (List Bytes)} (h : consOk s x ≠ .error .fuel) : x ≠ .error .fuel := by
  intro hx; subst hx; exact h rfl

/-- more fuel does not change a result that is not the fuel artefact -/
theorem augmentLoop_mono (ff : FloatFmt) (last : Option Bytes) (extra : Bool) :
    ∀ (fuel fuel' : Nat) (tys : List Bytes) (vals : List Arg) (flat : List Flat),
      augmentLoop ff last extra fuel tys vals flat ≠ .error .fuel → fuel ≤ fuel' →
      augmentLoop ff last extra fuel' tys vals flat = augmentLoop ff last extra fuel tys vals flat
  | fuel, fuel', tys, vals, [], _, _ => by
    cases fuel <;> cases fuel' <;> simp [augmentLoop]
  | 0, _, tys, vals, a :: fl, h, _ => by simp [augmentLoop] at h
  | fuel + 1, 0, _, _, _ :: _, _, hle => by omega
  | fuel + 1, fuel' + 1, tys, vals, a :: fl, h, hle => by
    have ih := augmentLoop_mono ff last extra fuel fuel'
    cases tys with
    | nil =>
      cases extra with
      | false =>
        simp only [augmentLoop, Bool.not_false, if_true] at h ⊢
        rw [ih _ _ _ (consOk_ne_fuel h) (by omega)]
      | true =>
        cases last with
        | none => simp [augmentLoop]
        | some t =>
          simp only [augmentLoop, Bool.not_true, Bool.false_eq_true, if_false] at h ⊢
          rw [ih _ _ _ (consOk_ne_fuel h) (by omega)]
    | cons t tys' =>
      simp only [augmentLoop] at h ⊢
      rw [ih _ _ _ (consOk_ne_fuel h) (by omega)]

/-- the model's `augmentCall` followed by the append to `Processed` (`AugGlue.applyAugment`), `none` = the Go panic -/
def applyModel (ff : FloatFmt) (c : Call) (types : List Bytes) (extra : Bool) : Option Call :=
  liftLoop c (Aug.augmentCall ff types extra c.args)

/-- with at least as much fuel as the call has scalars and top-level values, the translated function is the model's
`augmentCall` (the strings it yields appended to `Processed`; `none` exactly where Go panics: an empty type list
with the ellipsis flag), and a malformed receiver list leaves the call as it is -/
theorem tie_augmentCall_enough (c : Call) (f : TN.GoFuncDecl)
    (h : (flatL c.args.values).length + c.args.values.length ≤ fuel) :
    augmentCall (modelEnv eat ff fuel) c f =
      if recvBad f then some c else applyModel ff c (eat f).1 (eat f).2 := by
  rw [tie_augmentCall, mE_augmentCall]
  cases recvBad f with
  | true => rfl
  | false =>
    simp only [Bool.false_eq_true, if_false, augModel, applyModel, Aug.augmentCall]
    have hg := augmentLoop_good ff (eat f).1.getLast? (eat f).2 _ (eat f).1 c.args.values (flatL c.args.values) h
    have hne : augmentLoop ff (eat f).1.getLast? (eat f).2 fuel (eat f).1 c.args.values (flatL c.args.values) ≠ .error .fuel := by
      intro he; rw [he] at hg; exact hg
    by_cases hle : fuel ≤ (flatL c.args.values).length + c.args.values.length + 1
    · rw [augmentLoop_mono ff _ _ fuel _ _ _ _ hne hle]
    · have hg' := augmentLoop_good ff (eat f).1.getLast? (eat f).2 _ (eat f).1 c.args.values (flatL c.args.values)
        (Nat.le_succ ((flatL c.args.values).length + c.args.values.length))
      have hne' : augmentLoop ff (eat f).1.getLast? (eat f).2 ((flatL c.args.values).length + c.args.values.length + 1)
          (eat f).1 c.args.values (flatL c.args.values) ≠ .error .fuel := by
        intro he; rw [he] at hg'; exact hg'
      rw [← augmentLoop_mono ff _ _ _ fuel _ _ _ hne' (by omega)]

/-- C19, frames and raw values are never changed: whatever the translated `augmentCall` returns differs from the
call it was given in `Args.Processed` only, and there only by appended strings -/
theorem augmentCall_only_appends (c c' : Call) (f : TN.GoFuncDecl)
    (h : augmentCall (modelEnv eat ff fuel) c f = some c') :
    ∃ ps : List Bytes, c' = addProcessed c ps := by
  rw [tie_augmentCall, mE_augmentCall] at h
  cases hb : recvBad f with
  | true =>
    simp only [hb, if_true, Option.some.injEq] at h
    exact ⟨[], by rw [addProcessed_nil, h]⟩
  | false =>
    simp only [hb, Bool.false_eq_true, if_false, augModel] at h
    cases hr : augmentLoop ff (eat f).1.getLast? (eat f).2 fuel (eat f).1 c.args.values (flatL c.args.values) with
    | error e => rw [hr] at h; simp [liftLoop] at h
    | ok ps =>
      rw [hr] at h
      simp only [liftLoop, Option.some.injEq] at h
      exact ⟨ps, h.symm⟩

/-- spelled out: every field of the call but `Args.Processed` is the same, and `Processed` only grows at its end -/
theorem augmentCall_unchanged (c c' : Call) (f : TN.GoFuncDecl)
    (h : augmentCall (modelEnv eat ff fuel) c f = some c') :
    c'.fn = c.fn ∧ c'.args.values = c.args.values ∧ c'.args.elided = c.args.elided ∧
    c'.remoteSrcPath = c.remoteSrcPath ∧ c'.line = c.line ∧ c'.srcName = c.srcName ∧ c'.dirSrc = c.dirSrc ∧
    c'.localSrcPath = c.localSrcPath ∧ c'.relSrcPath = c.relSrcPath ∧ c'.importPath = c.importPath ∧
    c'.location = c.location ∧ ∃ ps, c'.args.processed = c.args.processed ++ ps := by
  obtain ⟨ps, rfl⟩ := augmentCall_only_appends eat ff fuel c c' f h
  exact ⟨rfl, rfl, rfl, rfl, rfl, rfl, rfl, rfl, rfl, rfl, rfl, ps, rfl⟩

/-! ### non-vacuity: the translated function evaluated on a call -/

/-- `f(a int8, s string)` on the words `0xff, 0x10, 5`: `-1` and `string(0x10, len=5)` -/
example :
    (augmentCall (modelEnv (fun _ => ([b!"int8", b!"string"], false)) ⟨fun _ => [], fun _ => []⟩ 10)
      { args := { values := [.scalar [] 255 false false false, .scalar [] 16 false false false, .scalar [] 5 false false false] } }
      ⟨none, []⟩).map (·.args.processed) = some [b!"-1", b!"string(0x10, len=5)"] := by
  rw [tie_augmentCall]; decide

/-- an empty type list with the ellipsis flag: Go panics (`types[len(types)-1]`), the translation is `none` -/
example :
    augmentCall (modelEnv (fun _ => ([], true)) ⟨fun _ => [], fun _ => []⟩ 10)
      { args := { values := [.scalar [] 1 false false false] } } ⟨none, []⟩ = none := by
  rw [tie_augmentCall]; decide

/-- a receiver list that does not have exactly one entry: the call is returned as it is -/
example (c : Call) : augmentCall (modelEnv eat ff fuel) c ⟨some [], []⟩ = some c := by
  rw [tie_augmentCall]; rfl

#print axioms tie_walk
#print axioms tie_augmentCall
#print axioms tie_augmentCall_enough
#print axioms augmentCall_only_appends
#print axioms augmentCall_unchanged

end PP.TrAu
