import PP.Tie.TranslatedGlue
import PP.Tie.TranslatedAug
/-
The hypothesis `TrG.AcIsModel` of the glue refinement (`tie_augment_model`,
`tie_augmentGoroutine_model`) discharged from the agreement theorem of group Aug: the environment
function `ac` of the translated glue is the *translated* `augmentCall` of stack/source.go (run
with enough fuel for the call it is given: the Go loop has no bound of its own), the declaration
of identity `k` being `decl k`, its type names `eat (decl k)` (`extractArgumentsType`).  The
result: `(*Snapshot).augment` as translated from the source, calling `augmentCall` as translated
from the source, is `AugGlue.augment` — the model the C19/C03 theorems are about — for every
snapshot, every file oracle, every parse oracle and every table of declarations, those with a
malformed receiver list (fix F10) included.
-/
namespace PP.GlueAug
open PP PP.Go PP.Bytes PP.Aug

variable (eat : TN.GoFuncDecl → List Bytes × Bool) (ff : FloatFmt) (decl : Nat → TN.GoFuncDecl)

/-- enough iterations for the loop of `augmentCall` on this call (`tie_augmentCall_enough`) -/
def fuelFor (c : Call) : Nat := (Aug.flatL c.args.values).length + c.args.values.length

/-- the glue's `augmentCall(&g.Stack.Calls[i], f)`: group Aug's translated function on the
declaration of identity `k` -/
def acOf (c : Call) (k : Nat) : Option Call :=
  TrAu.augmentCall (TrAu.modelEnv eat ff (fuelFor c)) c (decl k)

/-- what the glue model's `Parsed.funcAt` answers for the declaration of identity `k`: nothing
when `augmentCall` returns at once (receiver list present and not of length one), otherwise
`extractArgumentsType` of it -/
def typesOf (k : Nat) : Option (List Bytes × Bool) :=
  if TrAu.recvBad (decl k) then none else some (eat (decl k))

theorem applyModel_eq (c : Call) (t : List Bytes) (e : Bool) :
    TrAu.applyModel ff c t e = (AugGlue.applyAugment ff c t e).toOption := by
  unfold TrAu.applyModel AugGlue.applyAugment
  cases Aug.augmentCall ff t e c.args <;> rfl

/-- **`AcIsModel` holds of the translated `augmentCall`** -/
theorem tie_acOf_isModel : TrG.AcIsModel (typesOf eat decl) ff (acOf eat ff decl) := by
  intro call k
  unfold acOf typesOf
  rw [TrAu.tie_augmentCall_enough eat ff (fuelFor call) call (decl k) (Nat.le_refl _)]
  cases TrAu.recvBad (decl k) with
  | true => rfl
  | false => simp only [Bool.false_eq_true, if_false, applyModel_eq]

variable (rf : Bytes → Option Bytes) (pf' : Bytes → Option FA.Node)

/-- the translated `(*Snapshot).augment` over the translated `augmentCall` is the model's
`augment`, without a hypothesis on `augmentCall` -/
theorem tie_augment_full (s : Snapshot) :
    (TrG.augment (TrG.modelEnv rf (fun _ => pf') (fun s => some (AugGlue.lineToByteOffsets s))
        (acOf eat ff decl)) s).map (fun r => (r.1.goroutines, r.2)) =
      (AugGlue.augment ff (TrG.oracleOf rf pf' (typesOf eat decl)) s.goroutines).toOption :=
  TrG.tie_augment_model rf pf' (typesOf eat decl) ff (acOf eat ff decl) (tie_acOf_isModel eat ff decl) s

/-- the same for `(*cacheAST).augmentGoroutine` -/
theorem tie_augmentGoroutine_full (c : GCache) (g : Goroutine) :
    (TrG.augmentGoroutine (TrG.modelEnv rf (fun _ => pf') (fun s => some (AugGlue.lineToByteOffsets s))
        (acOf eat ff decl)) c g).map (TrG.absR (typesOf eat decl)) =
      (AugGlue.augmentGoroutine ff (TrG.oracleOf rf pf' (typesOf eat decl))
        (TrG.absCache (typesOf eat decl) c) g).toOption :=
  TrG.tie_augmentGoroutine_model rf pf' (typesOf eat decl) ff (acOf eat ff decl)
    (tie_acOf_isModel eat ff decl) c g

end PP.GlueAug

#print axioms PP.GlueAug.tie_acOf_isModel
#print axioms PP.GlueAug.tie_augment_full
#print axioms PP.GlueAug.tie_augmentGoroutine_full
