import PP.Tie.TranslatedGlue
import PP.Tie.TranslatedAug
import PP.Props.C19b
import PP.Props.C19c
/-
The hypothesis `TrG.AcIsModel` of the glue refinement (`tie_augment_model`,
`tie_augmentGoroutine_model`) discharged from the agreement theorem of group Aug: the environment
function `ac` of the translated glue is the *translated* `augmentCall` of stack/source.go (run
with enough fuel for the call it is given: the Go loop has no bound of its own), the declaration
of identity `k` being `decl k`, its type names `eat (decl k)` (`extractArgumentsType`).  The
result: `(*Snapshot).augment` as translated from the source, calling `augmentCall` as translated
from the source, is `AugGlue.augment` — the model the C19/C03 theorems are about — for every
snapshot, every file oracle, every parse oracle and every table of declarations, those with a
malformed receiver list (fix F10) included.
-/
namespace PP.GlueAug
open PP PP.Go PP.Bytes PP.Aug

variable (eat : TN.GoFuncDecl → List Bytes × Bool) (ff : FloatFmt) (decl : Nat → TN.GoFuncDecl)

/-- enough iterations for the loop of `augmentCall` on this call (`tie_augmentCall_enough`) -/
def fuelFor (c : Call) : Nat := (Aug.flatL c.args.values).length + c.args.values.length

/-- the glue's `augmentCall(&g.Stack.Calls[i], f)`: group Aug's translated function on the
declaration of identity `k` -/
def acOf (c : Call) (k : Nat) : Option Call :=
  TrAu.augmentCall (TrAu.modelEnv eat ff (fuelFor c)) c (decl k)

/-- what the glue model's `Parsed.funcAt` answers for the declaration of identity `k`: nothing
when `augmentCall` returns at once (receiver list present and not of length one), otherwise
`extractArgumentsType` of it -/
def typesOf (k : Nat) : Option (List Bytes × Bool) :=
  if TrAu.recvBad (decl k) then none else some (eat (decl k))

theorem applyModel_eq (c : Call) (t : List Bytes) (e : Bool) :
    TrAu.applyModel ff c t e = (AugGlue.applyAugment ff c t e).toOption := by
  unfold TrAu.applyModel AugGlue.applyAugment
  cases Aug.augmentCall ff t e c.args <;> rfl

/-- **`AcIsModel` holds of the translated `augmentCall`** -/
theorem tie_acOf_isModel : TrG.AcIsModel (typesOf eat decl) ff (acOf eat ff decl) := by
  intro call k
  unfold acOf typesOf
  rw [TrAu.tie_augmentCall_enough eat ff (fuelFor call) call (decl k) (Nat.le_refl _)]
  cases TrAu.recvBad (decl k) with
  | true => rfl
  | false => simp only [Bool.false_eq_true, if_false, applyModel_eq]

variable (rf : Bytes → Option Bytes) (pf' : Bytes → Option FA.Node)

/-- the translated `(*Snapshot).augment` over the translated `augmentCall` is the model's
`augment`, without a hypothesis on `augmentCall` -/
theorem tie_augment_full (s : Snapshot) :
    (TrG.augment (TrG.modelEnv rf (fun _ => pf') (fun s => some (AugGlue.lineToByteOffsets s))
        (acOf eat ff decl)) s).map (fun r => (r.1.goroutines, r.2)) =
      (AugGlue.augment ff (TrG.oracleOf rf pf' (typesOf eat decl)) s.goroutines).toOption :=
  TrG.tie_augment_model rf pf' (typesOf eat decl) ff (acOf eat ff decl) (tie_acOf_isModel eat ff decl) s

/-- the same for `(*cacheAST).augmentGoroutine` -/
theorem tie_augmentGoroutine_full (c : GCache) (g : Goroutine) :
    (TrG.augmentGoroutine (TrG.modelEnv rf (fun _ => pf') (fun s => some (AugGlue.lineToByteOffsets s))
        (acOf eat ff decl)) c g).map (TrG.absR (typesOf eat decl)) =
      (AugGlue.augmentGoroutine ff (TrG.oracleOf rf pf' (typesOf eat decl))
        (TrG.absCache (typesOf eat decl) c) g).toOption :=
  TrG.tie_augmentGoroutine_model rf pf' (typesOf eat decl) ff (acOf eat ff decl)
    (tie_acOf_isModel eat ff decl) c g

/-! ### C19's and C03's glue theorems, restated about the translated code -/

theorem toOption_some {ε α : Type} {x : Except ε α} {a : α} (h : x.toOption = some a) : x = .ok a := by
  cases x with
  | error e => simp [Except.toOption] at h
  | ok v => simp only [Except.toOption, Option.some.injEq] at h; rw [h]

/-- **source analysis never changes the raw values** (C19), about the code as translated:
whatever `(*Snapshot).augment` returns — for every snapshot, every file system, every parser
answer, every declaration table — differs from the snapshot it was given in `Args.Processed`
only: same goroutines, same frames, same raw argument values -/
theorem tie_translated_augment_values_unchanged (s : Snapshot) (r : Snapshot × Option AugGlue.ErrKind)
    (h : TrG.augment (TrG.modelEnv rf (fun _ => pf') (fun s => some (AugGlue.lineToByteOffsets s))
        (acOf eat ff decl)) s = some r) :
    r.1.goroutines.map AugGlue.eraseProcessed = s.goroutines.map AugGlue.eraseProcessed := by
  have ht := tie_augment_full eat ff decl rf pf' s
  rw [h] at ht
  simp only [Option.map_some] at ht
  exact AugGlue.augment_values_unchanged_snapshot ff _ s.goroutines r.1.goroutines r.2
    (toOption_some ht.symm)

/-- **never a changed frame** (C19), about the code as translated: the snapshot returned has
as many goroutines, and each goroutine as many frames, as the one given -/
theorem tie_translated_augment_shape (s : Snapshot) (r : Snapshot × Option AugGlue.ErrKind)
    (h : TrG.augment (TrG.modelEnv rf (fun _ => pf') (fun s => some (AugGlue.lineToByteOffsets s))
        (acOf eat ff decl)) s = some r) :
    r.1.goroutines.length = s.goroutines.length ∧
    ∀ (i : Nat) (g g' : Goroutine), s.goroutines[i]? = some g → r.1.goroutines[i]? = some g' →
      g'.sig.stack.calls.length = g.sig.stack.calls.length := by
  have ht := tie_augment_full eat ff decl rf pf' s
  rw [h] at ht
  simp only [Option.map_some] at ht
  exact AugGlue.augment_shape_snapshot ff _ s.goroutines r.1.goroutines r.2 (toOption_some ht.symm)

/-- **sources that do not match only leave arguments unaugmented** (C19), about the code as
translated: a frame whose file is missing, not Go, unparsable, too short, or has no enclosing
function at that line (`AugGlue.Mismatch`, with the five ways of `C19b`) comes out of the
translated `augment` exactly as it went in -/
theorem tie_translated_mismatch_leaves_unaugmented (s : Snapshot) (r : Snapshot × Option AugGlue.ErrKind)
    (h : TrG.augment (TrG.modelEnv rf (fun _ => pf') (fun s => some (AugGlue.lineToByteOffsets s))
        (acOf eat ff decl)) s = some r)
    (i j : Nat) (g g' : Goroutine) (x x' : Call)
    (hg : s.goroutines[i]? = some g) (hg' : r.1.goroutines[i]? = some g')
    (hx : g.sig.stack.calls[j]? = some x) (hx' : g'.sig.stack.calls[j]? = some x')
    (hm : AugGlue.Mismatch (TrG.oracleOf rf pf' (typesOf eat decl)) x) : x' = x := by
  have ht := tie_augment_full eat ff decl rf pf' s
  rw [h] at ht
  simp only [Option.map_some] at ht
  exact AugGlue.mismatch_leaves_unaugmented_snapshot ff _ s.goroutines r.1.goroutines r.2
    (toOption_some ht.symm) i j g g' x x' hg hg' hx hx' hm

/-- **mismatching or hostile sources never crash it** (C03/C19), about the code as translated:
when `extractArgumentsType` never yields an empty type list with the ellipsis flag (it cannot:
`Spec.flag_needs_type`), the translated `(*Snapshot).augment` over the translated `augmentCall`
does not panic — no index out of range, no nil map, no nil dereference — on any snapshot, with
any file system and any parser answer -/
theorem tie_translated_augment_no_panic (hea : ∀ k, eat (decl k) ≠ ([], true)) (s : Snapshot) :
    TrG.augment (TrG.modelEnv rf (fun _ => pf') (fun s => some (AugGlue.lineToByteOffsets s))
        (acOf eat ff decl)) s ≠ none := by
  intro hn
  have ht := tie_augment_full eat ff decl rf pf' s
  rw [hn] at ht
  obtain ⟨gs', e, hok⟩ := AugGlue.augment_total_snapshot ff
    (TrG.oracleOf rf pf' (typesOf eat decl)) (by
      intro src p hp name line hf
      simp only [TrG.oracleOf] at hp
      rcases Option.eq_none_or_eq_some (pf' src) with hq | ⟨tree, hq⟩
      · rw [hq] at hp; cases hp
      · rw [hq] at hp
        simp only [Option.map_some, Option.some.injEq] at hp
        subst hp
        simp only [FA.toParsed] at hf
        split at hf
        · rename_i k _
          unfold typesOf at hf
          split at hf
          · cases hf
          · simp only [Option.some.injEq] at hf; exact hea k hf
        · cases hf) s.goroutines
  rw [hok] at ht
  simp [Except.toOption] at ht

/-- the same with `extractArgumentsType` of the model (`PP.TN`, tied to source.go by its harness
stream) in the place of the oracle: its answers never carry the flag without a type
(`Spec.flag_needs_type`), so nothing is assumed any more — the source-analysis path, as
translated, is total for every snapshot, file system, parser answer and declaration table -/
theorem tie_translated_augment_no_panic_model (s : Snapshot) :
    TrG.augment (TrG.modelEnv rf (fun _ => pf') (fun s => some (AugGlue.lineToByteOffsets s))
        (acOf TN.extractArgumentsType ff decl)) s ≠ none :=
  tie_translated_augment_no_panic TN.extractArgumentsType ff decl rf pf' (by
    intro k hk
    have h2 : (TN.extractArgumentsType (decl k)).2 = true := by rw [hk]
    exact Spec.flag_needs_type (decl k) h2 (by rw [hk])) s

/-! ### non-vacuity: the composed translated functions compute, and both cases occur -/

/-- the file of `TrG.f10Src` with a well-formed declaration of one `int` parameter: the
translated `augment` over the translated `augmentCall` renders the value -/
example : (TrG.augment (TrG.modelEnv (fun _ => some TrG.f10Src) (fun _ _ => some TrG.f10Tree)
      (fun s => some (AugGlue.lineToByteOffsets s))
      (acOf (fun _ => ([b!"int"], false)) ⟨fun _ => [], fun _ => []⟩ (fun _ => ⟨none, []⟩))) TrG.f10Snapshot).map
    (fun r => (TrG.processedOf r.1.goroutines, r.2)) = some ([[[b!"1"]]], none) := by decide

/-- the same with the empty receiver list the file really has: the call is left alone -/
example : (TrG.augment (TrG.modelEnv (fun _ => some TrG.f10Src) (fun _ _ => some TrG.f10Tree)
      (fun s => some (AugGlue.lineToByteOffsets s))
      (acOf (fun _ => ([b!"int"], false)) ⟨fun _ => [], fun _ => []⟩ (fun _ => ⟨some [], []⟩))) TrG.f10Snapshot).map
    (fun r => (TrG.processedOf r.1.goroutines, r.2)) = some ([[[]]], none) := by decide

end PP.GlueAug

#print axioms PP.GlueAug.tie_acOf_isModel
#print axioms PP.GlueAug.tie_augment_full
#print axioms PP.GlueAug.tie_augmentGoroutine_full
#print axioms PP.GlueAug.tie_translated_augment_values_unchanged
#print axioms PP.GlueAug.tie_translated_augment_no_panic
#print axioms PP.GlueAug.tie_translated_augment_no_panic_model
#print axioms PP.GlueAug.tie_translated_augment_shape
#print axioms PP.GlueAug.tie_translated_mismatch_leaves_unaugmented
