import PP.TranslatedWeb
import PP.Lemmas.WebLemmas
import PP.Lemmas.AtoiLemmas
/-
Tie A, translated part 6: the web handler stack/webstack/webstack.go,
`SnapshotHandler` and `snapshot`, translated from the Go source on every run
(`PP/TranslatedWeb.lean`, run-time support `PP/Go/PreludeWeb.lean`) and proved equal
to the hand-written model `PP/Model/Web.lean` (`handlerPlan`, `parseMaxmem`,
`parseAugment`, `parseSimilarity`, `atoi`, `clampMaxmem`, `growLoop` — the functions
the decision table of C20 is about).

The translated functions thread the `World` (the effect trace); the outside
(`runtime.Stack`, `stack.ScanSnapshot`, `Aggregate`, `ToHTML`, the environment
`stack.DefaultOpts` reads, the `int` `strconv.Atoi` returns along with an error, the
fuel of the unbounded loop) are oracles of the generated `Env`.  Every statement below
is for EVERY environment (only its oracle fields matter), every world, every request.

What the model does not have is added HERE, and the model's functions are shown to be
its projections (section "projections"): the messages of `http.Error`, the
`Content-Type` header, the trace, and `snapshot` / `SnapshotHandler` as functions of
the world (`snapshotSpec`, `handlerSpec`, built from the model's functions).

Sections: 1. `snapshot` (`body_snapshot`, `loop_snapshot`, `tie_snapshot`);
2. `SnapshotHandler` (`stage_*`, `tie_SnapshotHandler`); 3. the two composed, without
the model in the environment (`tie_closed`); 4. projections onto `PP/Model/Web.lean`
(`growStepsVar`, `growSteps`, `snapshotInput`, `handlerStatus`, `handlerPlan`,
`handlerOpts`); 5. fuel.
-/
namespace PP.TrW
open PP PP.Go

/-! ## 1. snapshot -/

theorem lenI_eq {α : Type} (l : List α) : lenI l = (l.length : Int) := rfl

theorem makeBytes_ofNat (n : Nat) : makeBytes (n : Int) = some (zeros n) := by
  simp [makeBytes]

/-- the world after one `runtime.Stack` on a buffer of `n` bytes -/
def stackWorld (w : World) (n : Nat) : World :=
  { nStack := w.nStack + 1, trace := w.trace ++ [.stack n true] }

/-- the text fits: it is copied whole, the rest of the buffer stays -/
theorem runtimeStack_fits (dump : Nat → Bytes) (w : World) (buf : Bytes)
    (h : (dump w.nStack).length < buf.length) :
    World.runtimeStack dump w buf true =
      (stackWorld w buf.length, dump w.nStack ++ buf.drop (dump w.nStack).length,
       ((dump w.nStack).length : Int)) := by
  unfold World.runtimeStack
  rw [List.take_of_length_le (Nat.le_of_lt h)]
  rfl

/-- the text does not fit: the buffer is full of its head -/
theorem runtimeStack_full (dump : Nat → Bytes) (w : World) (buf : Bytes)
    (h : ¬ (dump w.nStack).length < buf.length) :
    World.runtimeStack dump w buf true =
      (stackWorld w buf.length, (dump w.nStack).take buf.length, (buf.length : Int)) := by
  unfold World.runtimeStack
  have e : ((dump w.nStack).take buf.length).length = buf.length := by
    rw [List.length_take]; omega
  simp only [e, List.drop_length, List.append_nil]
  rfl

theorem goSliceI_prefix (d r : Bytes) :
    goSliceI (d ++ r) 0 (d.length : Int) = some d := by
  unfold goSliceI
  have hl : ((d.length : Int) ≤ ((d ++ r).length : Int)) := by
    simp only [List.length_append]; omega
  rw [if_pos ⟨Int.le_refl 0, by omega, hl⟩]
  simp

/-- one iteration of the loop of `snapshot` (the translated body, in any environment) on a buffer
of `len(buf)` bytes and the clamped `maxmem = mm`: the three ways it goes on are the three
branches of the model's `growLoop` -/
theorem body_snapshot (O : Env) (mm : Nat) (opts : Cli.Opts) (w : World) (buf : Bytes) (i : Int) :
    snapshot_loop1 O (mm : Int) opts (w, buf, i) =
      if (O.stackDump w.nStack).length < buf.length then
        some (.brk (stackWorld w buf.length, O.stackDump w.nStack, i))
      else if mm ≤ buf.length then
        some (.brk (stackWorld w buf.length, (O.stackDump w.nStack).take buf.length, i))
      else
        some (.cont (stackWorld w buf.length,
          zeros (if mm < buf.length * 2 then mm else buf.length * 2), i + 1)) := by
  unfold snapshot_loop1
  by_cases hfit : (O.stackDump w.nStack).length < buf.length
  · rw [if_pos hfit]
    dsimp only
    rw [runtimeStack_fits _ _ _ hfit]
    dsimp only
    have hl : lenI (O.stackDump w.nStack ++ buf.drop (O.stackDump w.nStack).length) = (buf.length : Int) := by
      rw [lenI_eq, List.length_append, List.length_drop]; omega
    rw [hl, decide_eq_true (show ((O.stackDump w.nStack).length : Int) < (buf.length : Int) by omega)]
    rw [if_pos rfl, goSliceI_prefix]
    rfl
  · rw [if_neg hfit]
    dsimp only
    rw [runtimeStack_full _ _ _ hfit]
    dsimp only
    have hl : lenI ((O.stackDump w.nStack).take buf.length) = (buf.length : Int) := by
      rw [lenI_eq, List.length_take]; omega
    rw [hl, decide_eq_false (show ¬ ((buf.length : Int) < (buf.length : Int)) by omega)]
    rw [if_neg (by simp)]
    by_cases hmm : mm ≤ buf.length
    · rw [if_pos hmm, decide_eq_true (show ((buf.length : Int) ≥ (mm : Int)) by omega), if_pos rfl]
    · rw [if_neg hmm, decide_eq_false (show ¬ ((buf.length : Int) ≥ (mm : Int)) by omega), if_neg (by simp)]
      have hl2 : (if decide ((buf.length : Int) * 2 > (mm : Int)) = true then (mm : Int) else (buf.length : Int) * 2)
          = ((if mm < buf.length * 2 then mm else buf.length * 2 : Nat) : Int) := by
        by_cases h2 : mm < buf.length * 2
        · rw [if_pos h2, decide_eq_true (by omega), if_pos rfl]
        · rw [if_neg h2, decide_eq_false (by omega), if_neg (by simp)]; omega
      rw [hl2, makeBytes_ofNat]
      rfl

/-- the size of the text `runtime.Stack` wants to write at its `i`-th call: the `need` of the
model's `growLoop` -/
def needOf (O : Env) (i : Nat) : Nat := (O.stackDump i).length

/-- the world after `runtime.Stack` was called once per size -/
def loopWorld (w : World) (sizes : List Nat) : World :=
  { nStack := w.nStack + sizes.length, trace := w.trace ++ sizes.map (fun n => Event.stack n true) }

theorem loopWorld_one (w : World) (n : Nat) : loopWorld w [n] = stackWorld w n := rfl

theorem loopWorld_cons (w : World) (n : Nat) (sizes : List Nat) :
    loopWorld w (n :: sizes) = loopWorld (stackWorld w n) sizes := by
  simp only [loopWorld, stackWorld, List.length_cons, List.map_cons, List.append_assoc, List.singleton_append]
  congr 1; omega

/-- the loop of `snapshot`, from any buffer size on, with enough fuel: it calls `runtime.Stack`
once per element of the model's `growLoop` and ends with the text of the last call, cut to the
last buffer (whole when it fits) -/
theorem loop_snapshot (O : Env) (mm : Nat) (opts : Cli.Opts) :
    ∀ (k len : Nat) (h : 0 < len) (w : World) (buf : Bytes) (i : Int) (fuel : Nat),
      w.nStack = k → buf.length = len → (growLoop mm (needOf O) k len h).length ≤ fuel →
      forFuel (snapshot_loop1 O (mm : Int) opts) fuel (w, buf, i) =
        some (.cont
          (loopWorld w (growLoop mm (needOf O) k len h),
           (O.stackDump (k + (growLoop mm (needOf O) k len h).length - 1)).take
             ((growLoop mm (needOf O) k len h).getLast?.getD len),
           i + ((growLoop mm (needOf O) k len h).length : Int) - 1)) := by
  intro k len h
  fun_induction growLoop mm (needOf O) k len h with
  | case1 k len h hfit =>
    intro w buf i fuel hk hb hf
    obtain ⟨f, rfl⟩ : ∃ f, fuel = f + 1 := ⟨fuel - 1, by simp at hf; omega⟩
    subst hk hb
    have hfit' : (O.stackDump w.nStack).length < buf.length := hfit
    rw [forFuel_succ, body_snapshot, if_pos hfit']
    simp only [loopWorld_one, List.length_singleton, List.getLast?_singleton, Option.getD_some]
    have e : w.nStack + 1 - 1 = w.nStack := by omega
    rw [e, List.take_of_length_le (Nat.le_of_lt hfit')]
    congr 4
    omega
  | case2 k len h hfit hmm =>
    intro w buf i fuel hk hb hf
    obtain ⟨f, rfl⟩ : ∃ f, fuel = f + 1 := ⟨fuel - 1, by simp at hf; omega⟩
    subst hk hb
    have hfit' : ¬ (O.stackDump w.nStack).length < buf.length := hfit
    rw [forFuel_succ, body_snapshot, if_neg hfit', if_pos hmm]
    simp only [loopWorld_one, List.length_singleton, List.getLast?_singleton, Option.getD_some]
    have e : w.nStack + 1 - 1 = w.nStack := by omega
    rw [e]
    congr 4
    omega
  | case3 k len h hfit hmm l ih =>
    intro w buf i fuel hk hb hf
    obtain ⟨f, rfl⟩ : ∃ f, fuel = f + 1 := ⟨fuel - 1, by simp at hf; omega⟩
    subst hk hb
    have hfit' : ¬ (O.stackDump w.nStack).length < buf.length := hfit
    have hmm' : ¬ mm ≤ buf.length := hmm
    rw [forFuel_succ, body_snapshot, if_neg hfit', if_neg hmm']
    have hf' : (growLoop mm (needOf O) (w.nStack + 1) l (by
        show 0 < (if mm < buf.length * 2 then mm else buf.length * 2); split <;> omega)).length ≤ f := by
      exact Nat.le_of_succ_le_succ hf
    have hne := growLoop_ne_nil mm (needOf O) (w.nStack + 1) l (by
        show 0 < (if mm < buf.length * 2 then mm else buf.length * 2); split <;> omega)
    have := ih (stackWorld w buf.length) (zeros l) (i + 1) f rfl (length_zeros l) hf'
    show forFuel (snapshot_loop1 O (mm : Int) opts) f (stackWorld w buf.length, zeros l, i + 1) = _
    rw [this, loopWorld_cons, List.getLast?_cons_of_ne_nil hne]
    obtain ⟨lst, hlst⟩ : ∃ lst, (growLoop mm (needOf O) (w.nStack + 1) l (by
        show 0 < (if mm < buf.length * 2 then mm else buf.length * 2); split <;> omega)).getLast? = some lst := by
      cases hg : (growLoop mm (needOf O) (w.nStack + 1) l _).getLast? with
      | none => exact absurd (List.getLast?_eq_none_iff.mp hg) hne
      | some x => exact ⟨x, rfl⟩
    simp only [hlst, Option.getD_some, List.length_cons]
    congr 4
    · congr 2; omega
    · push_cast; omega


/-! the model of `snapshot`, as a function of the world -/

/-- the buffer sizes `snapshot(maxmem, _)` tries in world `w` -/
def snapSizes (O : Env) (w : World) (maxmem : Int) : List Nat :=
  growLoop (clampMaxmem maxmem) (needOf O) w.nStack minBuf (by decide)

/-- the bytes `snapshot` hands to `ScanSnapshot`: the text of the last call of `runtime.Stack`,
cut to the last buffer -/
def snapInput (O : Env) (w : World) (maxmem : Int) : Bytes :=
  (O.stackDump (w.nStack + (snapSizes O w maxmem).length - 1)).take
    ((snapSizes O w maxmem).getLast?.getD minBuf)

/-- the world after `snapshot`: one `runtime.Stack` per buffer size, then `ScanSnapshot` -/
def snapWorld (O : Env) (w : World) (maxmem : Int) (opts : Cli.Opts) : World :=
  (loopWorld w (snapSizes O w maxmem)).emit (.scanSnapshot (snapInput O w maxmem) opts)

/-- `if err == io.EOF { err = nil }` -/
def eofIsNil (e : GoErr) : GoErr := if e == .eof then .nil else e

/-- `snapshot(maxmem, opts)`: the world afterwards, the snapshot and the error it returns -/
def snapshotSpec (O : Env) (w : World) (maxmem : Int) (opts : Cli.Opts) : World × (SnapRef × GoErr) :=
  (snapWorld O w maxmem opts,
   ((O.scanSnapshot (snapInput O w maxmem) opts).1, eofIsNil (O.scanSnapshot (snapInput O w maxmem) opts).2.2))

theorem makeBytes_minBuf : makeBytes (1048576 : Int) = some (zeros 1048576) := by
  simp [makeBytes]

theorem clamp_cast (maxmem : Int) :
    (if decide (maxmem < lenI (zeros 1048576)) = true then lenI (zeros 1048576) else maxmem) =
      ((clampMaxmem maxmem : Nat) : Int) := by
  rw [lenI_eq, length_zeros]
  unfold clampMaxmem minBuf
  by_cases h : maxmem < ((1048576 : Nat) : Int)
  · rw [decide_eq_true h, if_pos rfl]; omega
  · rw [decide_eq_false h, if_neg (by simp)]; omega

/-- `snapshot` is the model, in EVERY environment (it calls no function of the group), given
fuel for as many iterations as the model's `growLoop` makes (`snapSizes_length`: 44 suffice) -/
theorem tie_snapshot (E : Env) (w : World) (maxmem : Int) (opts : Cli.Opts)
    (hfuel : (snapSizes E w maxmem).length ≤ E.fuel) :
    TrW.snapshot E w maxmem opts = some (snapshotSpec E w maxmem opts) := by
  unfold TrW.snapshot
  rw [makeBytes_minBuf, Option.bind_some]
  dsimp only
  rw [clamp_cast, loop_snapshot E (clampMaxmem maxmem) opts w.nStack minBuf (by decide) w (zeros 1048576) 0 E.fuel
    rfl ((length_zeros _).trans (by decide)) hfuel, after_cont]
  rfl


/-! ## 2. DefaultOpts, SnapshotHandler -/

/-- `stack.DefaultOpts()` is the model's `Cli.defaultOpts` of the two oracles (`runtime.GOROOT()`,
`getGOPATHs()`), in any environment; the world is untouched -/
theorem tie_DefaultOpts (E : Env) (w : World) :
    TrW.DefaultOpts E w = some (w, Cli.defaultOpts E.goroot E.gopaths) := rfl


/-! the messages of `http.Error` and the header (not in the model) -/
def msgMethod : Bytes := b!"invalid method"
def msgMaxmem : Bytes := b!"invalid maxmem value"
def msgAugment : Bytes := b!"invalid augment value"
def msgSnapshot : Bytes := b!"failed to process the snapshot, try a larger maxmem value"
def msgSimilarity : Bytes := b!"invalid similarity value"
def hdrContentType : Bytes := b!"Content-Type"
def valContentType : Bytes := b!"text/html; charset=utf-8"

/-- the message that goes with an early status of `handlerPlan` -/
def earlyMsg (method maxmem : Bytes) : Bytes :=
  if method != methodGET then msgMethod
  else if (parseMaxmem maxmem).isNone then msgMaxmem
  else msgAugment

/-- the options `snapshot` is called with for a plan: `stack.DefaultOpts()` with the plan's
`AnalyzeSources` -/
def planOpts (O : Env) (p : WebPlan) : Cli.Opts :=
  { Cli.defaultOpts O.goroot O.gopaths with analyzeSources := p.analyzeSources }

/-- `SnapshotHandler(w, req)`: the world afterwards, from the model's `handlerPlan` and
`parseSimilarity` (`none`: `Aggregate` panicked) -/
def handlerSpec (O : Env) (w : World) (rw : ResponseWriter) (req : Request) : Option World :=
  match handlerPlan req.method (req.form b!"maxmem") (req.form b!"augment") with
  | .error st => some (w.httpError rw (earlyMsg req.method (req.form b!"maxmem")) st)
  | .ok p =>
    let r := snapshotSpec O w p.maxmem (planOpts O p)
    if r.2.2 != .nil then some (r.1.httpError rw msgSnapshot 500)
    else match parseSimilarity (req.form b!"similarity") with
      | none => some (r.1.httpError rw msgSimilarity 400)
      | some l =>
        (O.aggregate r.2.1 l).map fun a =>
          (((r.1.setHeader rw hdrContentType valContentType).emit (.aggregate r.2.1 l)).emit
            (.toHTML a rw []))

/-- the environment in which the three functions are the model; the oracles are `O`'s -/
def modelEnv (O : Env) : Env :=
  { O with
    DefaultOpts := fun w => some (w, Cli.defaultOpts O.goroot O.gopaths)
    SnapshotHandler := fun w rw req => (handlerSpec O w rw req).map fun w' => (w', ())
    snapshot := fun w maxmem opts => some (snapshotSpec O w maxmem opts) }

variable (O : Env)

@[simp] theorem mE_fuel : (modelEnv O).fuel = O.fuel := rfl
@[simp] theorem mE_stackDump : (modelEnv O).stackDump = O.stackDump := rfl
@[simp] theorem mE_atoiErrVal : (modelEnv O).atoiErrVal = O.atoiErrVal := rfl
@[simp] theorem mE_goroot : (modelEnv O).goroot = O.goroot := rfl
@[simp] theorem mE_gopaths : (modelEnv O).gopaths = O.gopaths := rfl
@[simp] theorem mE_scanSnapshot : (modelEnv O).scanSnapshot = O.scanSnapshot := rfl
@[simp] theorem mE_aggregate : (modelEnv O).aggregate = O.aggregate := rfl
@[simp] theorem mE_toHTML : (modelEnv O).toHTML = O.toHTML := rfl
@[simp] theorem mE_DefaultOpts (w : World) :
    (modelEnv O).DefaultOpts w = some (w, Cli.defaultOpts O.goroot O.gopaths) := rfl
@[simp] theorem mE_snapshot (w : World) (maxmem : Int) (opts : Cli.Opts) :
    (modelEnv O).snapshot w maxmem opts = some (snapshotSpec O w maxmem opts) := rfl
@[simp] theorem mE_SnapshotHandler (w : World) (rw : ResponseWriter) (req : Request) :
    (modelEnv O).SnapshotHandler w rw req = (handlerSpec O w rw req).map fun w' => (w', ()) := rfl

/-- the model's functions only read the oracles -/
theorem snapshotSpec_modelEnv (w : World) (maxmem : Int) (opts : Cli.Opts) :
    snapshotSpec (modelEnv O) w maxmem opts = snapshotSpec O w maxmem opts := rfl
theorem handlerSpec_modelEnv (w : World) (rw : ResponseWriter) (req : Request) :
    handlerSpec (modelEnv O) w rw req = handlerSpec O w rw req := rfl

omit O in
theorem formValue_eq (req : Request) (k : Bytes) : Request.formValue req k = req.form k := rfl

omit O in
theorem strconvAtoi_some {ev : Bytes → Int} {s : Bytes} {v : Int} (h : atoi s = some v) :
    strconvAtoi ev s = (v, .nil) := by simp [strconvAtoi, h]
omit O in
theorem strconvAtoi_none {ev : Bytes → Int} {s : Bytes} (h : atoi s = none) :
    strconvAtoi ev s = (ev s, .other 0) := by simp [strconvAtoi, h]

theorem defaultMaxmem_eq : defaultMaxmem = (67108864 : Int) := by decide

/-- the `maxmem` block of the handler is `parseMaxmem` -/
theorem stage_maxmem {ρ : Type} (ev : Bytes → Int) (w : World) (mm : Bytes)
    (k : World × Int → Option ρ) (r : ρ) :
    after (if (mm != []) = true then
        if ((strconvAtoi ev mm).snd != GoErr.nil) = true then some (Step.ret r)
        else some (Step.cont (w, (strconvAtoi ev mm).fst))
      else some (Step.cont (w, 67108864))) k =
    match parseMaxmem mm with
    | none => some r
    | some m => k (w, m) := by
  unfold parseMaxmem
  by_cases hs : mm = []
  · subst hs
    simp [defaultMaxmem_eq]
  · have h1 : (mm != []) = true := by simpa using hs
    have h2 : (mm == []) = false := by simpa using hs
    rw [if_pos h1, h2]
    cases ha : atoi mm with
    | none => simp [strconvAtoi_none ha]
    | some v => simp [strconvAtoi_some ha]

/-- the `augment` block of the handler is `parseAugment` -/
theorem stage_augment {ρ : Type} (ev : Bytes → Int) (w : World) (au : Bytes) (o : Cli.Opts)
    (k : World × Cli.Opts → Option ρ) (r : ρ) :
    after (if (au != []) = true then
        if ((strconvAtoi ev au).snd != GoErr.nil || decide ((strconvAtoi ev au).fst < 0) ||
            decide ((strconvAtoi ev au).fst > 1)) = true then some (Step.ret r)
        else
          (if ((strconvAtoi ev au).fst == 0) = true then some { o with analyzeSources := false }
           else some o).bind fun opts => some (Step.cont (w, opts))
      else some (Step.cont (w, o))) k =
    match parseAugment au with
    | none => some r
    | some a => k (w, if a then o else { o with analyzeSources := false }) := by
  unfold parseAugment
  by_cases hs : au = []
  · subst hs
    simp
  · have h1 : (au != []) = true := by simpa using hs
    have h2 : (au == []) = false := by simpa using hs
    rw [if_pos h1, h2]
    cases ha : atoi au with
    | none => simp [strconvAtoi_none ha]
    | some v =>
      simp only [strconvAtoi_some ha]
      by_cases hv : (v < 0 || v > 1) = true
      · simp [hv]
      · have hv' : (v < 0 || v > 1) = false := by simpa using hv
        have hv0 : (decide (v < 0) || decide (v > 1)) = false := hv'
        by_cases h0 : v = 0
        · subst h0; simp
        · have : (v == 0) = false := by simpa using h0
          have : (v != 0) = true := by simpa using h0
          simp [*]


/-- the `similarity` switch of the handler is `parseSimilarity` -/
theorem stage_similarity {ρ : Type} (w : World) (si : Bytes) (k : World × Lvl → Option ρ) (r : ρ) :
    after (if (si == b!"exactflags") = true then some (Step.cont (w, Lvl.exactFlags))
      else after (if (si == b!"exactlines") = true then some (Step.cont (w, Lvl.exactLines))
        else after (if (si == b!"anypointer" || si == []) = true then some (Step.cont (w, Lvl.anyPointer))
          else if (si == b!"anyvalue") = true then some (Step.cont (w, Lvl.anyValue))
          else some (Step.ret (Step.ret (Step.ret r))))
          fun st => some (Step.cont (st.fst, st.snd)))
        fun st => some (Step.cont (st.fst, st.snd))) k =
    match parseSimilarity si with
    | none => some r
    | some l => k (w, l) := by
  unfold parseSimilarity
  by_cases h1 : (si == b!"exactflags") = true
  · simp [h1]
  · by_cases h2 : (si == b!"exactlines") = true
    · simp [h1, h2]
    · by_cases h3 : (si == b!"anypointer" || si == []) = true
      · simp only [h1, h2, h3]; simp
      · by_cases h4 : (si == b!"anyvalue") = true
        · simp only [h1, h2, h3, h4]; simp
        · simp only [h1, h2, h3, h4]; simp


/-- `SnapshotHandler` in any environment whose `snapshot` is the model's on the arguments the
handler calls it with -/
theorem tie_SnapshotHandler_gen (E : Env) (w : World) (rw : ResponseWriter) (req : Request)
    (hd : ∀ w, E.DefaultOpts w = some (w, Cli.defaultOpts E.goroot E.gopaths))
    (hs : ∀ m a, parseMaxmem (req.form b!"maxmem") = some m →
      E.snapshot w m (planOpts E { maxmem := m, analyzeSources := a }) =
        some (snapshotSpec E w m (planOpts E { maxmem := m, analyzeSources := a }))) :
    TrW.SnapshotHandler E w rw req = (handlerSpec E w rw req).map fun w' => (w', ()) := by
  unfold TrW.SnapshotHandler
  simp only [formValue_eq]
  by_cases hm : req.method = methodGET
  · have hm' : (req.method != methodGET) = false := by simp [hm]
    have hm2 : (req.method != ([71, 69, 84] : List UInt8)) = false := hm'
    simp only [hm2, Bool.false_eq_true, if_false]
    refine (stage_maxmem _ _ _ _ _).trans ?_
    unfold handlerSpec handlerPlan earlyMsg
    rw [hm']
    simp only [Bool.false_eq_true, if_false]
    cases hmm : parseMaxmem (req.form b!"maxmem") with
    | none => simp [msgMaxmem]
    | some m =>
      simp only []
      rw [hd, Option.bind_some]
      refine (stage_augment _ _ _ _ _ _).trans ?_
      cases hau : parseAugment (req.form b!"augment") with
      | none => simp [msgAugment]
      | some a =>
        simp only []
        have ho : (if a = true then Cli.defaultOpts E.goroot E.gopaths
            else { Cli.defaultOpts E.goroot E.gopaths with analyzeSources := false }) =
            planOpts E { maxmem := m, analyzeSources := a } := by
          cases a <;> rfl
        rw [ho, hs m a hmm, Option.bind_some]
        generalize snapshotSpec E w m (planOpts E { maxmem := m, analyzeSources := a }) = r
        by_cases he : (r.2.2 != GoErr.nil) = true
        · rw [if_pos he, if_pos he]
          rfl
        · rw [if_neg he, if_neg he]
          refine (stage_similarity _ _ _ _).trans ?_
          cases hsi : parseSimilarity (req.form b!"similarity") with
          | none => rfl
          | some l =>
            simp only []
            unfold World.aggregate
            cases E.aggregate r.2.1 l with
            | none => rfl
            | some ag => rfl
  · have hm' : (req.method != methodGET) = true := by simpa using hm
    have hm2 : (req.method != ([71, 69, 84] : List UInt8)) = true := hm'
    simp [handlerSpec, handlerPlan, earlyMsg, hm', hm2, msgMethod, World.httpError]

/-- the model is a fixed point of the translated equation of `SnapshotHandler`: for every
environment (its oracles), world, writer and request -/
theorem tie_SnapshotHandler (O : Env) (w : World) (rw : ResponseWriter) (req : Request) :
    TrW.SnapshotHandler (modelEnv O) w rw req = (modelEnv O).SnapshotHandler w rw req :=
  tie_SnapshotHandler_gen (modelEnv O) w rw req (fun _ => rfl) (fun _ _ _ => rfl)

/-! ## 3. the two functions composed -/

/-- `tie_DefaultOpts`, `tie_snapshot` in the form of the other groups: the model is a fixed point -/
theorem tie_DefaultOpts_modelEnv (O : Env) (w : World) :
    TrW.DefaultOpts (modelEnv O) w = (modelEnv O).DefaultOpts w := rfl


theorem tie_snapshot_modelEnv (O : Env) (w : World) (maxmem : Int) (opts : Cli.Opts)
    (hfuel : (snapSizes O w maxmem).length ≤ O.fuel) :
    TrW.snapshot (modelEnv O) w maxmem opts = (modelEnv O).snapshot w maxmem opts :=
  tie_snapshot (modelEnv O) w maxmem opts hfuel

/-- the environment in which `snapshot` is the translated `snapshot` (and nothing is the model) -/
def closedEnv (O : Env) : Env := { O with snapshot := TrW.snapshot O, DefaultOpts := TrW.DefaultOpts O }

/-! ### the sizes, against `growStepsVar` / `growSteps` / `snapshotInput`; fuel -/

theorem growLoop_shift (mm : Nat) (need : Nat → Nat) (k : Nat) :
    ∀ (i len : Nat) (h : 0 < len),
      growLoop mm need (k + i) len h = growLoop mm (fun j => need (k + j)) i len h := by
  intro i len h
  fun_induction growLoop mm (fun j => need (k + j)) i len h with
  | case1 i len h hfit => rw [growLoop, if_pos hfit]
  | case2 i len h hfit hmm => rw [growLoop, if_neg hfit, dif_pos hmm]
  | case3 i len h hfit hmm l ih =>
    rw [growLoop, if_neg hfit, dif_neg hmm]
    exact congrArg _ ih

theorem snapSizes_eq (O : Env) (w : World) (maxmem : Int) :
    snapSizes O w maxmem = growStepsVar maxmem (fun j => needOf O (w.nStack + j)) := by
  unfold snapSizes growStepsVar
  exact growLoop_shift _ _ w.nStack 0 minBuf (by decide)


/-- from a fresh world the sizes are the model's `growStepsVar` -/
theorem snapSizes_fresh (O : Env) (w : World) (maxmem : Int) (h0 : w.nStack = 0) :
    snapSizes O w maxmem = growStepsVar maxmem (needOf O) := by
  rw [snapSizes_eq, h0]
  simp only [Nat.zero_add]

/-- a dump that does not change while `snapshot` runs: the model's `growSteps` and `snapshotInput` -/
theorem snapSizes_const (O : Env) (w : World) (maxmem : Int) (dump : Bytes) (hd : ∀ i, O.stackDump i = dump) :
    snapSizes O w maxmem = growSteps maxmem dump.length := by
  rw [snapSizes_eq]
  unfold growSteps needOf
  simp only [hd]

theorem snapInput_const (O : Env) (w : World) (maxmem : Int) (dump : Bytes) (hd : ∀ i, O.stackDump i = dump) :
    snapInput O w maxmem = snapshotInput maxmem dump := by
  unfold snapInput snapshotInput
  rw [snapSizes_const O w maxmem dump hd, hd]

/-- the `runtime.Stack` events of `snapshot` are the buffer sizes, the last event is the scan -/
theorem snapshot_trace (O : Env) (w : World) (maxmem : Int) (opts : Cli.Opts) :
    (snapshotSpec O w maxmem opts).1.trace =
      w.trace ++ (snapSizes O w maxmem).map (fun n => Event.stack n true) ++
        [.scanSnapshot (snapInput O w maxmem) opts] := rfl

theorem snapshot_nStack (O : Env) (w : World) (maxmem : Int) (opts : Cli.Opts) :
    (snapshotSpec O w maxmem opts).1.nStack = w.nStack + (snapSizes O w maxmem).length := rfl

/-- for a 64-bit `maxmem` the loop runs at most 44 times, whatever the dumps -/
theorem snapSizes_length (O : Env) (w : World) (maxmem : Int) (h : maxmem < 2 ^ 63) :
    (snapSizes O w maxmem).length ≤ 44 := by
  unfold snapSizes
  refine growLoop_length (clampMaxmem maxmem) (needOf O) w.nStack minBuf (by decide) 43 ?_
  have e : minBuf * 2 ^ 43 = 2 ^ 63 := by decide
  rw [e]
  unfold clampMaxmem minBuf
  omega

/-- `strconv.Atoi` yields a 64-bit value -/
theorem atoi_lt (s : Bytes) (z : Int) (h : atoi s = some z) : z < 2 ^ 63 := by
  rw [atoi_eq_spec] at h
  obtain ⟨sg, d, _, _, _, hc⟩ := (atoiSpec_eq_some_iff s z).1 h
  rcases hc with ⟨_, hz, hr⟩ | ⟨_, hz, hr⟩ | ⟨_, hz, hr⟩ <;> omega

theorem parseMaxmem_lt (s : Bytes) (z : Int) (h : parseMaxmem s = some z) : z < 2 ^ 63 := by
  unfold parseMaxmem at h
  by_cases hs : (s == []) = true
  · rw [if_pos hs] at h
    have : z = defaultMaxmem := (Option.some.inj h).symm
    rw [this]; decide
  · rw [if_neg hs] at h
    exact atoi_lt s z h

/-- `SnapshotHandler` with the translated `snapshot` as its callee: fuel 44 is enough for every request -/
theorem tie_closed (O : Env) (hfuel : 44 ≤ O.fuel) (w : World) (rw : ResponseWriter) (req : Request) :
    TrW.SnapshotHandler (closedEnv O) w rw req = (handlerSpec O w rw req).map fun w' => (w', ()) :=
  tie_SnapshotHandler_gen (closedEnv O) w rw req (fun w => tie_DefaultOpts O w) (fun m _ hm =>
    tie_snapshot O w m _ (Nat.le_trans (snapSizes_length O w m (parseMaxmem_lt _ m hm)) hfuel))


/-! ## 4. projections onto the model -/

/-- did `snapshot` return without error?  (what `handlerStatus` calls `snapOK`; irrelevant
when the plan is an early status) -/
def snapOK (O : Env) (w : World) (req : Request) : Bool :=
  match handlerPlan req.method (req.form b!"maxmem") (req.form b!"augment") with
  | .error _ => true
  | .ok p => (snapshotSpec O w p.maxmem (planOpts O p)).2.2 == .nil

/-- the events a call added to the trace -/
def newEvents (w w' : World) : List Event := w'.trace.drop w.trace.length

theorem respStatus_stacks (rw : ResponseWriter) (sizes : List Nat) (l : List Event) :
    respStatus rw (sizes.map (fun n => Event.stack n true) ++ l) = respStatus rw l := by
  induction sizes with
  | nil => rfl
  | cons n ns ih => exact ih


theorem drop_trace (a l : List Event) : (a ++ l).drop a.length = l := by simp

/-! the decision table of the handler, as worlds -/

/-- an early status: one `http.Error`, nothing else happened (no `runtime.Stack`, no scan) -/
theorem handler_early (O : Env) (w : World) (rw : ResponseWriter) (req : Request) (st : Nat)
    (hp : handlerPlan req.method (req.form b!"maxmem") (req.form b!"augment") = .error st) :
    handlerSpec O w rw req = some (w.httpError rw (earlyMsg req.method (req.form b!"maxmem")) st) := by
  unfold handlerSpec; rw [hp]

/-- `snapshot` ran with the plan's `maxmem` and `AnalyzeSources` and failed: 500 -/
theorem handler_snapshot_failed (O : Env) (w : World) (rw : ResponseWriter) (req : Request) (p : WebPlan)
    (hp : handlerPlan req.method (req.form b!"maxmem") (req.form b!"augment") = .ok p)
    (he : (snapshotSpec O w p.maxmem (planOpts O p)).2.2 ≠ .nil) :
    handlerSpec O w rw req =
      some ((snapshotSpec O w p.maxmem (planOpts O p)).1.httpError rw msgSnapshot 500) := by
  unfold handlerSpec; rw [hp]
  have : ((snapshotSpec O w p.maxmem (planOpts O p)).2.2 != GoErr.nil) = true := by simpa using he
  simp only [this, if_true]

/-- `snapshot` succeeded, the similarity is not one of the four: 400, after the snapshot was taken -/
theorem handler_bad_similarity (O : Env) (w : World) (rw : ResponseWriter) (req : Request) (p : WebPlan)
    (hp : handlerPlan req.method (req.form b!"maxmem") (req.form b!"augment") = .ok p)
    (he : (snapshotSpec O w p.maxmem (planOpts O p)).2.2 = .nil)
    (hsi : parseSimilarity (req.form b!"similarity") = none) :
    handlerSpec O w rw req =
      some ((snapshotSpec O w p.maxmem (planOpts O p)).1.httpError rw msgSimilarity 400) := by
  unfold handlerSpec; rw [hp]
  have : ((snapshotSpec O w p.maxmem (planOpts O p)).2.2 != GoErr.nil) = false := by simp [he]
  simp only [this, Bool.false_eq_true, if_false, hsi]

/-- everything valid: the header, `Aggregate` at the parsed level on what `snapshot` returned, `ToHTML` -/
theorem handler_ok (O : Env) (w : World) (rw : ResponseWriter) (req : Request) (p : WebPlan) (l : Lvl)
    (hp : handlerPlan req.method (req.form b!"maxmem") (req.form b!"augment") = .ok p)
    (he : (snapshotSpec O w p.maxmem (planOpts O p)).2.2 = .nil)
    (hsi : parseSimilarity (req.form b!"similarity") = some l) :
    handlerSpec O w rw req =
      (O.aggregate (snapshotSpec O w p.maxmem (planOpts O p)).2.1 l).map fun a =>
        ((((snapshotSpec O w p.maxmem (planOpts O p)).1.setHeader rw hdrContentType valContentType).emit
          (.aggregate (snapshotSpec O w p.maxmem (planOpts O p)).2.1 l)).emit (.toHTML a rw [])) := by
  unfold handlerSpec; rw [hp]
  have : ((snapshotSpec O w p.maxmem (planOpts O p)).2.2 != GoErr.nil) = false := by simp [he]
  simp only [this, Bool.false_eq_true, if_false, hsi]

/-- the options `snapshot` is called with: `stack.DefaultOpts()` with the plan's `AnalyzeSources` -/
theorem planOpts_analyzeSources (O : Env) (p : WebPlan) : (planOpts O p).analyzeSources = p.analyzeSources := rfl
theorem planOpts_rest (O : Env) (p : WebPlan) :
    (planOpts O p).localGOROOT = O.goroot ∧ (planOpts O p).localGOPATHs = O.gopaths ∧
    (planOpts O p).nameArguments = true ∧ (planOpts O p).guessPaths = true := ⟨rfl, rfl, rfl, rfl⟩

/-- a GET request that reaches `Aggregate` does so with the model's `handlerOpts` -/
theorem handler_opts (req : Request) (p : WebPlan) (l : Lvl) (hm : req.method = methodGET) :
    (handlerPlan req.method (req.form b!"maxmem") (req.form b!"augment") = .ok p ∧
      parseSimilarity (req.form b!"similarity") = some l) ↔
    handlerOpts (req.form b!"maxmem") (req.form b!"augment") (req.form b!"similarity") = some (p, l) := by
  unfold handlerOpts
  rw [hm]
  cases handlerPlan methodGET (req.form b!"maxmem") (req.form b!"augment") with
  | error st => simp
  | ok q =>
    cases parseSimilarity (req.form b!"similarity") with
    | none => simp
    | some k => simp

/-- the status line of the response is the model's `handlerStatus` -/
theorem handler_status (O : Env) (w : World) (rw : ResponseWriter) (req : Request) (w' : World)
    (h : handlerSpec O w rw req = some w') :
    respStatus rw (newEvents w w') =
      ((handlerStatus req.method (req.form b!"maxmem") (req.form b!"augment") (req.form b!"similarity")
        (snapOK O w req) : Nat) : Int) := by
  unfold handlerStatus snapOK newEvents
  cases hp : handlerPlan req.method (req.form b!"maxmem") (req.form b!"augment") with
  | error st =>
    rw [handler_early O w rw req st hp] at h
    simp only [Option.some.injEq] at h
    subst h
    simp [World.httpError, respStatus]
  | ok p =>
    simp only []
    by_cases he : (snapshotSpec O w p.maxmem (planOpts O p)).2.2 = GoErr.nil
    · have he' : ((snapshotSpec O w p.maxmem (planOpts O p)).2.2 == GoErr.nil) = true := by simp [he]
      simp only [he', Bool.not_true, Bool.false_eq_true, if_false]
      cases hsi : parseSimilarity (req.form b!"similarity") with
      | none =>
        rw [handler_bad_similarity O w rw req p hp he hsi] at h
        simp only [Option.some.injEq] at h
        subst h
        simp only [World.httpError, World.emit_trace, snapshot_trace, List.append_assoc, drop_trace,
          respStatus_stacks]
        simp [respStatus]
      | some l =>
        rw [handler_ok O w rw req p l hp he hsi] at h
        simp only [Option.map_eq_some_iff] at h
        obtain ⟨a, _, rfl⟩ := h
        simp only [World.setHeader, World.emit_trace, snapshot_trace, List.append_assoc, drop_trace,
          respStatus_stacks]
        simp [respStatus]
    · have he' : ((snapshotSpec O w p.maxmem (planOpts O p)).2.2 == GoErr.nil) = false := by simp [he]
      simp only [he', Bool.not_false, if_true]
      rw [handler_snapshot_failed O w rw req p hp he] at h
      simp only [Option.some.injEq] at h
      subst h
      simp only [World.httpError, World.emit_trace, snapshot_trace, List.append_assoc, drop_trace,
        respStatus_stacks]
      simp [respStatus]

/-- the handler panics only where `Aggregate` does -/
theorem handler_panics_iff (O : Env) (w : World) (rw : ResponseWriter) (req : Request) :
    handlerSpec O w rw req = none ↔
      ∃ p l, handlerPlan req.method (req.form b!"maxmem") (req.form b!"augment") = .ok p ∧
        (snapshotSpec O w p.maxmem (planOpts O p)).2.2 = .nil ∧
        parseSimilarity (req.form b!"similarity") = some l ∧
        O.aggregate (snapshotSpec O w p.maxmem (planOpts O p)).2.1 l = none := by
  constructor
  · intro h
    cases hp : handlerPlan req.method (req.form b!"maxmem") (req.form b!"augment") with
    | error st => rw [handler_early O w rw req st hp] at h; simp at h
    | ok p =>
      by_cases he : (snapshotSpec O w p.maxmem (planOpts O p)).2.2 = GoErr.nil
      · cases hsi : parseSimilarity (req.form b!"similarity") with
        | none => rw [handler_bad_similarity O w rw req p hp he hsi] at h; simp at h
        | some l =>
          rw [handler_ok O w rw req p l hp he hsi] at h
          exact ⟨p, l, rfl, he, rfl, by simpa using h⟩
      · rw [handler_snapshot_failed O w rw req p hp he] at h; simp at h
  · rintro ⟨p, l, hp, he, hsi, ha⟩
    rw [handler_ok O w rw req p l hp he hsi, ha]
    rfl


/-! ### end to end: the translated code against `handlerStatus` -/

/-- The translated `SnapshotHandler`, calling the translated `snapshot` and `DefaultOpts`, with
fuel 44: whenever it returns (i.e. `Aggregate` does not panic), the status line of the response
is the model's `handlerStatus` of the method, the three form values and whether `snapshot`
returned an error — for every request, world and oracle. -/
theorem translated_status (O : Env) (hfuel : 44 ≤ O.fuel) (w : World) (rw : ResponseWriter) (req : Request)
    (w' : World) (h : TrW.SnapshotHandler (closedEnv O) w rw req = some (w', ())) :
    respStatus rw (newEvents w w') =
      ((handlerStatus req.method (req.form b!"maxmem") (req.form b!"augment") (req.form b!"similarity")
        (snapOK O w req) : Nat) : Int) := by
  rw [tie_closed O hfuel] at h
  simp only [Option.map_eq_some_iff, Prod.mk.injEq, and_true] at h
  obtain ⟨w'', h1, rfl⟩ := h
  exact handler_status O w rw req w'' h1

/-- … and it panics exactly where `Aggregate` does -/
theorem translated_panics_iff (O : Env) (hfuel : 44 ≤ O.fuel) (w : World) (rw : ResponseWriter) (req : Request) :
    TrW.SnapshotHandler (closedEnv O) w rw req = none ↔
      ∃ p l, handlerPlan req.method (req.form b!"maxmem") (req.form b!"augment") = .ok p ∧
        (snapshotSpec O w p.maxmem (planOpts O p)).2.2 = .nil ∧
        parseSimilarity (req.form b!"similarity") = some l ∧
        O.aggregate (snapshotSpec O w p.maxmem (planOpts O p)).2.1 l = none := by
  rw [tie_closed O hfuel, Option.map_eq_none_iff]
  exact handler_panics_iff O w rw req

/-! ## non-vacuity (the early paths, which need no buffer) -/

/-- any environment: the oracles are never asked on these paths -/
def exampleEnv : Env where
  fuel := 44
  stackDump _ := b!"goroutine 1 [running]:\n"
  atoiErrVal _ := 0
  goroot := b!"/usr/lib/go"
  gopaths := [b!"/home/u/go"]
  scanSnapshot _ _ := (none, [], .eof)
  aggregate _ _ := none
  toHTML _ _ := .nil
  DefaultOpts _ := none
  SnapshotHandler _ _ _ := none
  snapshot _ _ _ := none

example : ((TrW.SnapshotHandler exampleEnv {} {} { method := b!"POST" }).map fun r => respStatus {} r.1.trace) = some 405 := by
  decide
example : ((TrW.SnapshotHandler exampleEnv {} {} { method := b!"GET", form := fun k => if k = b!"maxmem" then b!"1x" else [] }).map
    fun r => respStatus {} r.1.trace) = some 400 := by
  decide
example : ((handlerSpec exampleEnv {} {} { method := b!"GET", form := fun k => if k = b!"augment" then b!"2" else [] }).map
    fun w => respStatus {} w.trace) = some 400 := by
  decide

#print axioms body_snapshot
#print axioms loop_snapshot
#print axioms tie_snapshot
#print axioms tie_snapshot_modelEnv
#print axioms tie_DefaultOpts
#print axioms stage_maxmem
#print axioms stage_augment
#print axioms stage_similarity
#print axioms tie_SnapshotHandler_gen
#print axioms tie_SnapshotHandler
#print axioms tie_closed
#print axioms snapSizes_eq
#print axioms snapSizes_const
#print axioms snapInput_const
#print axioms snapSizes_length
#print axioms handler_early
#print axioms handler_snapshot_failed
#print axioms handler_bad_similarity
#print axioms handler_ok
#print axioms handler_opts
#print axioms handler_status
#print axioms handler_panics_iff
#print axioms translated_status
#print axioms translated_panics_iff

end PP.TrW
