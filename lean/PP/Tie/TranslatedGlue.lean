import PP.TranslatedGlue
import PP.Model.FuncAt
import PP.Lemmas.FuncAtLemmas
/-
Agreement of the translated group Glue (`PP/TranslatedGlue.lean`, generated from
stack/source.go by extract/translate_glue.go) with the hand-written models
`PP/Model/FuncAt.lean` (`FA.getFuncAST`) and `PP/Model/AugmentGlue.lean`.
-/
namespace PP.TrG
open PP PP.Go PP.Bytes

/-! ### the error table read from the source is the one of the model -/

theorem errorSites_pinned : errorSites =
    [("line %d is over line count of %d", .lineOver), ("cannot load non-go file %q", .nonGo),
     ("<the error of os.ReadFile>", .read), ("<the error of parser.ParseFile>", .parse),
     ("failed to parse %w", .parse)] := rfl

/-! ### ast.Inspect: `goInspect` is `FA.inspect` -/

/-- the state of the closure: `(d, lastFunc)` -/
abbrev StT := Option Nat × Option Nat

def toSt (s : StT) : FA.St := ⟨s.1, s.2⟩

/-- a callback result of the model as one of the translation (`none` = panic) -/
def liftCb : Except FA.Err (FA.St × Bool) → Option (StT × Bool)
  | .ok (s, b) => some ((s.d, s.lastFunc), b)
  | .error _ => none

def liftSt : Except FA.Err FA.St → Option StT
  | .ok s => some (s.d, s.lastFunc)
  | .error _ => none

mutual
theorem inspect_sim (f : StT → Option FA.Node → Option (StT × Bool))
    (g : FA.St → Option FA.Node → Except FA.Err (FA.St × Bool))
    (h : ∀ s n, f (s.d, s.lastFunc) n = liftCb (g s n)) (s : FA.St) :
    (n : FA.Node) → goInspect f (s.d, s.lastFunc) n = liftSt (FA.inspect g s n)
  | ⟨pos, isF, decl, cs⟩ => by
    rw [goInspect, FA.inspect, h]
    cases hg : g s (some ⟨pos, isF, decl, cs⟩) with
    | error e => rfl
    | ok r =>
      obtain ⟨s1, b⟩ := r
      cases b
      · rfl
      · simp only [liftCb]
        rw [inspectList_sim f g h s1 cs]
        cases hl : FA.inspectList g s1 cs with
        | error e => rfl
        | ok s2 =>
          simp only [liftSt]
          rw [h]
          cases hg2 : g s2 none with
          | error e => rfl
          | ok r2 => obtain ⟨s3, b3⟩ := r2; rfl
theorem inspectList_sim (f : StT → Option FA.Node → Option (StT × Bool))
    (g : FA.St → Option FA.Node → Except FA.Err (FA.St × Bool))
    (h : ∀ s n, f (s.d, s.lastFunc) n = liftCb (g s n)) (s : FA.St) :
    (ns : List FA.Node) → goInspectList f (s.d, s.lastFunc) ns = liftSt (FA.inspectList g s ns)
  | [] => by rw [goInspectList, FA.inspectList]; rfl
  | n :: ns => by
    rw [goInspectList, FA.inspectList, inspect_sim f g h s n]
    cases hi : FA.inspect g s n with
    | error e => rfl
    | ok s1 => simp only [liftSt]; exact inspectList_sim f g h s1 ns
end

theorem goLeTop_eq (a : Nat) (e : Option Nat) : goLeTop a e = FA.leEol a e := by
  cases e <;> rfl

/-! ### the closure of getFuncAST is `FA.callback` -/

theorem lit1_eq (E : Env) (p : GParsedFile) (l : Nat) (eol d lf : Option Nat) (n : Option FA.Node) :
    getFuncAST_lit1 E p l eol d lf n = liftCb (FA.callback p.lineToByteOffset l eol ⟨d, lf⟩ n) := by
  unfold getFuncAST_lit1 FA.callback
  cases d with
  | some k => simp [liftCb]
  | none =>
    cases n with
    | none => simp [liftCb]
    | some nd =>
      obtain ⟨pos, isF, decl, cs⟩ := nd
      simp only [goPos, goIsFuncDecl, goAsFuncDecl, goLeTop_eq]
      cases h : p.lineToByteOffset[l]? with
      | none => cases isF <;> simp [liftCb]
      | some off =>
        cases isF <;> by_cases h1 : pos ≥ off <;>
          cases hle : FA.leEol pos eol <;> simp [liftCb, h1]

/-! ### the model environment -/

/-- the result of the model's `getFuncAST` as the Go pair `(d, err)`; the index
panic of the model is a panic -/
def liftG : Except FA.Err (Option Nat) → Option (Option Nat × Option AugGlue.ErrKind)
  | .ok d => some (d, none)
  | .error .lineOver => some (none, some .lineOver)
  | .error .index => none

/-- `c.loadFile(fileName)` on the Go records, statement for statement -/
def mLoadFile (rf : Bytes → Option Bytes) (pf : Bytes → Bytes → Option FA.Node)
    (lo : Bytes → Option (List Nat)) (c : GCache) (fileName : Bytes) :
    Option (GCache × Option AugGlue.ErrKind) :=
  if fileName = [] then some (c, none)
  else if goMapHas c.parsed fileName then some (c, none)
  else
    if !hasSuffix fileName b!".go" then
      some ({ c with parsed := goMapSet c.parsed fileName none }, some .nonGo)
    else
      match rf fileName with
      | none => some ({ c with parsed := goMapSet c.parsed fileName none }, some .read)
      | some src =>
        match pf fileName src with
        | none => some ({ files := goMapSet c.files fileName src,
                          parsed := goMapSet c.parsed fileName none }, some .parse)
        | some tree =>
          match lo src with
          | none => none
          | some offs =>
            some ({ files := goMapSet c.files fileName src,
                    parsed := goMapSet (goMapSet c.parsed fileName none) fileName (some ⟨offs, tree⟩) }, none)

/-- one iteration of the loop of `augmentGoroutine` on the Go records: the cache afterwards, the
call afterwards, the error assigned to `err` in this iteration (`none`: not assigned) — the shape of
`AugGlue.augmentStep` -/
def mStep (rf : Bytes → Option Bytes) (pf : Bytes → Bytes → Option FA.Node)
    (lo : Bytes → Option (List Nat)) (ac : Call → Nat → Option Call) (c : GCache) (call : Call) :
    Option (GCache × Call × Option AugGlue.ErrKind) :=
  if call.args.values.length = 0 then some (c, call, none)
  else
    match mLoadFile rf pf lo c call.localSrcPath with
    | none => none
    | some r =>
      match goMapGet r.1.parsed call.localSrcPath none with
      | none => some (r.1, call, r.2)
      | some p =>
        match liftG (FA.getFuncAST p.lineToByteOffset p.parsed call.line) with
        | none => none
        | some (_, some e) => some (r.1, call, some e)
        | some (none, none) => some (r.1, call, r.2)
        | some (some k, none) =>
          match ac call k with
          | none => none
          | some call' => some (r.1, call', r.2)

/-- the loop of `augmentGoroutine` — the shape of `AugGlue.augmentCalls` -/
def mCalls (rf : Bytes → Option Bytes) (pf : Bytes → Bytes → Option FA.Node)
    (lo : Bytes → Option (List Nat)) (ac : Call → Nat → Option Call) :
    GCache → Option AugGlue.ErrKind → List Call → Option (GCache × List Call × Option AugGlue.ErrKind)
  | c, err, [] => some (c, [], err)
  | c, err, call :: rest =>
    match mStep rf pf lo ac c call with
    | none => none
    | some s =>
      match mCalls rf pf lo ac s.1 (AugGlue.lastErr err s.2.2) rest with
      | none => none
      | some r => some (r.1, s.2.1 :: r.2.1, r.2.2)

/-- `c.augmentGoroutine(g)` on the Go records — the shape of `AugGlue.augmentGoroutine` -/
def mAugmentGoroutine (rf : Bytes → Option Bytes) (pf : Bytes → Bytes → Option FA.Node)
    (lo : Bytes → Option (List Nat)) (ac : Call → Nat → Option Call) (c : GCache) (g : Goroutine) :
    Option (GCache × Goroutine × Option AugGlue.ErrKind) :=
  match mCalls rf pf lo ac c none g.sig.stack.calls with
  | none => none
  | some r => some (r.1, AugGlue.Goroutine.setCalls g r.2.1, r.2.2)

/-- the loop of `Snapshot.augment` — the shape of `AugGlue.augmentGs` -/
def mGs (rf : Bytes → Option Bytes) (pf : Bytes → Bytes → Option FA.Node)
    (lo : Bytes → Option (List Nat)) (ac : Call → Nat → Option Call) :
    GCache → Option AugGlue.ErrKind → List Goroutine →
      Option (GCache × List Goroutine × Option AugGlue.ErrKind)
  | c, err, [] => some (c, [], err)
  | c, err, g :: rest =>
    match mAugmentGoroutine rf pf lo ac c g with
    | none => none
    | some s =>
      match mGs rf pf lo ac s.1 (AugGlue.lastErr err s.2.2) rest with
      | none => none
      | some r => some (r.1, s.2.1 :: r.2.1, r.2.2)

/-- `s.augment()` on the Go records — the shape of `AugGlue.augment` -/
def mAugment (rf : Bytes → Option Bytes) (pf : Bytes → Bytes → Option FA.Node)
    (lo : Bytes → Option (List Nat)) (ac : Call → Nat → Option Call) (s : Snapshot) :
    Option (Snapshot × Option AugGlue.ErrKind) :=
  match mGs rf pf lo ac { files := [], parsed := [] } none s.goroutines with
  | none => none
  | some r => some ({ s with goroutines := r.2.1 }, r.2.2)

section
variable (rf : Bytes → Option Bytes) (pf : Bytes → Bytes → Option FA.Node) (lo : Bytes → Option (List Nat))
  (ac : Call → Nat → Option Call)

/-- every function of the group is the model function; the oracles are arbitrary -/
def modelEnv : Env where
  getFuncAST p _ l := liftG (FA.getFuncAST p.lineToByteOffset p.parsed l)
  loadFile := mLoadFile rf pf lo
  augmentGoroutine := mAugmentGoroutine rf pf lo ac
  augment := mAugment rf pf lo ac
  augmentCall := ac
  readFile := rf
  parseFile := pf
  lineToByteOffsets := lo

@[simp] theorem mE_getFuncAST (p : GParsedFile) (f : Bytes) (l : Nat) :
    (modelEnv rf pf lo ac).getFuncAST p f l = liftG (FA.getFuncAST p.lineToByteOffset p.parsed l) := rfl
@[simp] theorem mE_loadFile : (modelEnv rf pf lo ac).loadFile = mLoadFile rf pf lo := rfl
@[simp] theorem mE_readFile : (modelEnv rf pf lo ac).readFile = rf := rfl
@[simp] theorem mE_parseFile : (modelEnv rf pf lo ac).parseFile = pf := rfl
@[simp] theorem mE_augmentGoroutine :
    (modelEnv rf pf lo ac).augmentGoroutine = mAugmentGoroutine rf pf lo ac := rfl
@[simp] theorem mE_augment : (modelEnv rf pf lo ac).augment = mAugment rf pf lo ac := rfl
@[simp] theorem mE_augmentCall : (modelEnv rf pf lo ac).augmentCall = ac := rfl
@[simp] theorem mE_lineToByteOffsets : (modelEnv rf pf lo ac).lineToByteOffsets = lo := rfl

/-- the walk of getFuncAST, whatever `eol` -/
theorem inspect_lit1 (E : Env) (p : GParsedFile) (l : Nat) (eol : Option Nat) :
    goInspect (fun st n => getFuncAST_lit1 E p l eol st.1 st.2 n) (none, none) p.parsed =
      liftSt (FA.inspect (FA.callback p.lineToByteOffset l eol) {} p.parsed) :=
  inspect_sim (fun st n => getFuncAST_lit1 E p l eol st.1 st.2 n) (FA.callback p.lineToByteOffset l eol)
    (fun s n => lit1_eq E p l eol s.d s.lastFunc n) {} p.parsed

theorem tie_getFuncAST (p : GParsedFile) (f : Bytes) (l : Nat) :
    getFuncAST (modelEnv rf pf lo ac) p f l = (modelEnv rf pf lo ac).getFuncAST p f l := by
  rw [mE_getFuncAST]
  unfold getFuncAST FA.getFuncAST FA.eolOf
  by_cases h0 : p.lineToByteOffset.length ≤ l
  · simp [h0, liftG]
  · simp only [h0, decide_false, Bool.false_eq_true, if_false]
    obtain ⟨off, hoff⟩ : ∃ off, p.lineToByteOffset[l]? = some off :=
      ⟨p.lineToByteOffset[l]'(by omega), List.getElem?_eq_getElem (by omega)⟩
    by_cases h1 : l + 1 < p.lineToByteOffset.length
    · simp only [h1, decide_true, if_true]
      cases h2 : p.lineToByteOffset[l + 1]? with
      | none => simp [liftG]
      | some e =>
        simp only [inspect_lit1]
        rw [FA.inspect_eq_walk _ l off _ hoff]
        rfl
    · simp only [h1, decide_false, Bool.false_eq_true, if_false]
      simp only [inspect_lit1]
      rw [FA.inspect_eq_walk _ l off _ hoff]
      rfl

theorem tie_loadFile (c : GCache) (fileName : Bytes) :
    loadFile (modelEnv rf pf lo ac) c fileName = (modelEnv rf pf lo ac).loadFile c fileName := by
  rw [mE_loadFile]
  unfold loadFile mLoadFile
  simp only [mE_readFile, mE_parseFile, mE_lineToByteOffsets]
  by_cases h0 : fileName = []
  · simp [h0]
  · simp only [h0, decide_false, Bool.false_eq_true, if_false]
    cases goMapHas c.parsed fileName
    · simp only [Bool.false_eq_true, if_false]
      cases hasSuffix fileName b!".go"
      · simp
      · rcases Option.eq_none_or_eq_some (rf fileName) with hr | ⟨src, hr⟩
        · simp [hr]
        · rcases Option.eq_none_or_eq_some (pf fileName src) with hp | ⟨tree, hp⟩
          · simp [hr, hp]
          · rcases Option.eq_none_or_eq_some (lo src) with hl | ⟨offs, hl⟩
            · simp [hr, hp, hl]
            · simp [hr, hp, hl]
    · simp

/-! ### augmentGoroutine -/

theorem get_mid {α : Type} (pre : List α) (x : α) (rest : List α) :
    (pre ++ x :: rest)[pre.length]? = some x := by
  induction pre with
  | nil => rfl
  | cons a t ih => simp

theorem set_mid {α : Type} (pre : List α) (x y : α) (rest : List α) :
    (pre ++ x :: rest).set pre.length y = pre ++ y :: rest := by
  induction pre with
  | nil => rfl
  | cons a t ih => simp [ih]

theorem setCalls_self (g : Goroutine) : AugGlue.Goroutine.setCalls g g.sig.stack.calls = g := rfl

theorem goSetCall_mid (g : Goroutine) (pre : List Call) (x y : Call) (rest : List Call)
    (hg : g.sig.stack.calls = pre ++ x :: rest) :
    goSetCall g pre.length y = AugGlue.Goroutine.setCalls g (pre ++ y :: rest) := by
  unfold goSetCall AugGlue.Goroutine.setCalls
  rw [hg, set_mid]

/-- one iteration of the translated loop is `mStep` on the call at index `i` -/
theorem loop1_eq (pre : List Call) (call : Call) (rest : List Call) (c : GCache) (g : Goroutine)
    (err : Option AugGlue.ErrKind) (hg : g.sig.stack.calls = pre ++ call :: rest) :
    augmentGoroutine_loop1 (modelEnv rf pf lo ac) pre.length c g err =
      match mStep rf pf lo ac c call with
      | none => none
      | some s => some (s.1, AugGlue.Goroutine.setCalls g (pre ++ s.2.1 :: rest), AugGlue.lastErr err s.2.2) := by
  have hself : AugGlue.Goroutine.setCalls g (pre ++ call :: rest) = g := by rw [← hg]; rfl
  unfold augmentGoroutine_loop1 mStep
  simp only [hg, get_mid, mE_loadFile, mE_getFuncAST, mE_augmentCall]
  by_cases h0 : call.args.values.length = 0
  · simp [h0, hself, AugGlue.lastErr]
  · simp only [h0, decide_false, Bool.false_eq_true, if_false]
    rcases Option.eq_none_or_eq_some (mLoadFile rf pf lo c call.localSrcPath) with hl | ⟨r, hl⟩
    · simp [hl]
    · obtain ⟨c1, e1⟩ := r
      simp only [hl]
      rcases Option.eq_none_or_eq_some (goMapGet c1.parsed call.localSrcPath none) with hp | ⟨p, hp⟩
      · cases e1 <;> simp [hp, hself, AugGlue.lastErr]
      · simp only [hp, Option.isSome_some, if_true]
        rcases Option.eq_none_or_eq_some (liftG (FA.getFuncAST p.lineToByteOffset p.parsed call.line)) with hf | ⟨q, hf⟩
        · simp [hf]
        · obtain ⟨d, e⟩ := q
          simp only [hf]
          cases e with
          | some e => cases e1 <;> simp [hself, AugGlue.lastErr]
          | none =>
            cases d with
            | none => cases e1 <;> simp [hself, AugGlue.lastErr]
            | some k =>
              rcases Option.eq_none_or_eq_some (ac call k) with ha | ⟨call', ha⟩
              · simp [ha]
              · cases e1 <;> simp [ha, goSetCall_mid g pre call call' rest hg, AugGlue.lastErr]

theorem setCalls_setCalls (g : Goroutine) (a b : List Call) :
    AugGlue.Goroutine.setCalls (AugGlue.Goroutine.setCalls g a) b = AugGlue.Goroutine.setCalls g b := rfl

/-- the translated loop from index `pre.length` on is `mCalls` on the remaining calls -/
theorem loop_eq (rest : List Call) : ∀ (pre : List Call) (c : GCache) (g : Goroutine)
    (err : Option AugGlue.ErrKind), g.sig.stack.calls = pre ++ rest →
    goForFrom (fun i st => augmentGoroutine_loop1 (modelEnv rf pf lo ac) i st.1 st.2.1 st.2.2)
        rest.length pre.length (c, g, err) =
      match mCalls rf pf lo ac c err rest with
      | none => none
      | some r => some (r.1, AugGlue.Goroutine.setCalls g (pre ++ r.2.1), r.2.2) := by
  induction rest with
  | nil =>
    intro pre c g err hg
    simp only [List.length_nil, goForFrom, mCalls]
    rw [← hg]; rfl
  | cons call rest ih =>
    intro pre c g err hg
    simp only [List.length_cons, goForFrom, mCalls]
    rw [loop1_eq rf pf lo ac pre call rest c g err hg]
    rcases Option.eq_none_or_eq_some (mStep rf pf lo ac c call) with hs | ⟨s, hs⟩
    · simp [hs]
    · simp only [hs]
      have := ih (pre ++ [s.2.1]) s.1 (AugGlue.Goroutine.setCalls g (pre ++ s.2.1 :: rest))
        (AugGlue.lastErr err s.2.2) (by simp [AugGlue.Goroutine.setCalls])
      simp only [List.length_append, List.length_cons, List.length_nil] at this
      rw [this]
      rcases Option.eq_none_or_eq_some (mCalls rf pf lo ac s.1 (AugGlue.lastErr err s.2.2) rest) with hm | ⟨r, hm⟩
      · simp [hm]
      · simp [hm, setCalls_setCalls]

theorem tie_augmentGoroutine (c : GCache) (g : Goroutine) :
    augmentGoroutine (modelEnv rf pf lo ac) c g = (modelEnv rf pf lo ac).augmentGoroutine c g := by
  rw [mE_augmentGoroutine]
  unfold augmentGoroutine mAugmentGoroutine goForN
  have := loop_eq rf pf lo ac g.sig.stack.calls [] c g none (by simp)
  simp only [List.length_nil, List.nil_append] at this
  simp only [this]
  rcases Option.eq_none_or_eq_some (mCalls rf pf lo ac c none g.sig.stack.calls) with hm | ⟨r, hm⟩
  · simp [hm]
  · simp [hm]

/-! ### Snapshot.augment -/

theorem gloop1_eq (pre : List Goroutine) (g : Goroutine) (rest : List Goroutine) (c : GCache)
    (s : Snapshot) (err : Option AugGlue.ErrKind) (hs : s.goroutines = pre ++ g :: rest) :
    augment_loop1 (modelEnv rf pf lo ac) pre.length s c err =
      match mAugmentGoroutine rf pf lo ac c g with
      | none => none
      | some r => some ({ s with goroutines := pre ++ r.2.1 :: rest }, r.1, AugGlue.lastErr err r.2.2) := by
  unfold augment_loop1
  simp only [hs, get_mid, mE_augmentGoroutine]
  rcases Option.eq_none_or_eq_some (mAugmentGoroutine rf pf lo ac c g) with hm | ⟨r, hm⟩
  · simp [hm]
  · obtain ⟨c1, g1, e1⟩ := r
    cases e1 <;> simp [hm, goSetGoroutine, hs, AugGlue.lastErr]

theorem gloop_eq (rest : List Goroutine) : ∀ (pre : List Goroutine) (c : GCache) (s : Snapshot)
    (err : Option AugGlue.ErrKind), s.goroutines = pre ++ rest →
    goForFrom (fun i st => augment_loop1 (modelEnv rf pf lo ac) i st.1 st.2.1 st.2.2)
        rest.length pre.length (s, c, err) =
      match mGs rf pf lo ac c err rest with
      | none => none
      | some r => some ({ s with goroutines := pre ++ r.2.1 }, r.1, r.2.2) := by
  induction rest with
  | nil =>
    intro pre c s err hs
    simp only [List.length_nil, goForFrom, mGs]
    rw [← hs]
  | cons g rest ih =>
    intro pre c s err hs
    simp only [List.length_cons, goForFrom, mGs]
    rw [gloop1_eq rf pf lo ac pre g rest c s err hs]
    rcases Option.eq_none_or_eq_some (mAugmentGoroutine rf pf lo ac c g) with hm | ⟨r, hm⟩
    · simp [hm]
    · simp only [hm]
      have := ih (pre ++ [r.2.1]) r.1 { s with goroutines := pre ++ r.2.1 :: rest }
        (AugGlue.lastErr err r.2.2) (by simp)
      simp only [List.length_append, List.length_cons, List.length_nil] at this
      rw [this]
      rcases Option.eq_none_or_eq_some (mGs rf pf lo ac r.1 (AugGlue.lastErr err r.2.2) rest) with hg | ⟨q, hg⟩
      · simp [hg]
      · simp [hg]

theorem tie_augment (s : Snapshot) :
    augment (modelEnv rf pf lo ac) s = (modelEnv rf pf lo ac).augment s := by
  rw [mE_augment]
  unfold augment mAugment goForN
  have := gloop_eq rf pf lo ac s.goroutines [] { files := [], parsed := [] } s none (by simp)
  simp only [List.length_nil, List.nil_append] at this
  simp only [this]
  rcases Option.eq_none_or_eq_some (mGs rf pf lo ac { files := [], parsed := [] } none s.goroutines) with hm | ⟨r, hm⟩
  · simp [hm]
  · simp [hm]
end

/-! ## Refinement: the Go-record functions above against `PP/Model/AugmentGlue.lean`

The model's cache holds `AugGlue.ParsedFile`s whose `parsed` is the oracle `Parsed.funcAt`
(getFuncAST after its line check composed with extractArgumentsType).  A Go `parsedFile` is
abstracted to it by `FA.toParsed` with `types k` = `extractArgumentsType` of the declaration of
identity `k` (`none` when its receiver list is present and not of length one: `augmentCall`
returns at once there, the guard of fix F10); the parse oracle of the model is the one of the environment composed with it (the
tree does not depend on the file name: `pf _ src = pf' src`), `lineToByteOffsets` is the model's. -/
section refine
variable (rf : Bytes → Option Bytes) (pf' : Bytes → Option FA.Node) (types : Nat → Option (List Bytes × Bool))

def absPF (p : GParsedFile) : AugGlue.ParsedFile :=
  ⟨p.lineToByteOffset, FA.toParsed p.lineToByteOffset p.parsed types⟩

def absMap (m : List (Bytes × Option GParsedFile)) : AugGlue.Cache :=
  m.map fun kv => (kv.1, kv.2.map (absPF types))

def absCache (c : GCache) : AugGlue.Cache := absMap types c.parsed

/-- the oracle of the model made of the oracles of the environment -/
def oracleOf : AugGlue.Oracle where
  readFile := rf
  parse := fun src => (pf' src).map fun tree => FA.toParsed (AugGlue.lineToByteOffsets src) tree types

theorem absMap_set (m : List (Bytes × Option GParsedFile)) (k : Bytes) (v : Option GParsedFile) :
    absMap types (goMapSet m k v) = AugGlue.Cache.insert (absMap types m) k (v.map (absPF types)) := by
  induction m with
  | nil => rfl
  | cons kv t ih =>
    obtain ⟨k', v'⟩ := kv
    by_cases h : k = k'
    · simp [goMapSet, absMap, AugGlue.Cache.insert, h]
    · simp only [goMapSet, h, if_false]
      simp only [absMap, List.map_cons, AugGlue.Cache.insert, h, if_false]
      exact congrArg _ ih

theorem absMap_lookup (m : List (Bytes × Option GParsedFile)) (k : Bytes) :
    (absMap types m).lookup k = (m.lookup k).map (Option.map (absPF types)) := by
  induction m with
  | nil => rfl
  | cons kv t ih =>
    obtain ⟨k', v'⟩ := kv
    simp only [absMap, List.map_cons, List.lookup_cons]
    cases k == k'
    · exact ih
    · rfl

theorem abs_has (m : List (Bytes × Option GParsedFile)) (k : Bytes) :
    AugGlue.Cache.has (absMap types m) k = goMapHas m k := by
  unfold AugGlue.Cache.has goMapHas
  rw [absMap_lookup]; cases m.lookup k <;> rfl

theorem abs_get (m : List (Bytes × Option GParsedFile)) (k : Bytes) :
    AugGlue.Cache.get (absMap types m) k = (goMapGet m k none).map (absPF types) := by
  unfold AugGlue.Cache.get goMapGet
  rw [absMap_lookup]; cases m.lookup k <;> rfl

/-- **loadFile against the model**: never a panic, and the cache afterwards abstracts to the
model's, with the same error -/
theorem loadFile_refines (c : GCache) (name : Bytes) :
    (mLoadFile rf (fun _ => pf') (fun s => some (AugGlue.lineToByteOffsets s)) c name).map
        (fun r => (absCache types r.1, r.2)) =
      some (AugGlue.loadFile (oracleOf rf pf' types) (absCache types c) name) := by
  unfold mLoadFile AugGlue.loadFile absCache
  by_cases h0 : name = []
  · simp [h0]
  · simp only [h0, if_false, abs_has]
    cases goMapHas c.parsed name
    · simp only [Bool.false_eq_true, if_false]
      cases hasSuffix name b!".go"
      · simp [absMap_set]
      · simp only [Bool.not_true, Bool.false_eq_true, if_false, oracleOf]
        rcases Option.eq_none_or_eq_some (rf name) with hr | ⟨src, hr⟩
        · simp [hr, absMap_set]
        · rcases Option.eq_none_or_eq_some (pf' src) with hp | ⟨tree, hp⟩
          · simp [hr, hp, absMap_set]
          · simp [hr, hp, absMap_set, absPF]
    · simp

theorem loadFile_refines' (c : GCache) (name : Bytes) :
    ∃ r, mLoadFile rf (fun _ => pf') (fun s => some (AugGlue.lineToByteOffsets s)) c name = some r ∧
      absCache types r.1 = (AugGlue.loadFile (oracleOf rf pf' types) (absCache types c) name).1 ∧
      r.2 = (AugGlue.loadFile (oracleOf rf pf' types) (absCache types c) name).2 := by
  have h := loadFile_refines rf pf' types c name
  rcases Option.eq_none_or_eq_some
    (mLoadFile rf (fun _ => pf') (fun s => some (AugGlue.lineToByteOffsets s)) c name) with hn | ⟨r, hr⟩
  · rw [hn] at h; cases h
  · rw [hr] at h
    simp only [Option.map_some, Option.some.injEq] at h
    exact ⟨r, hr, by rw [← h], by rw [← h]⟩

/-- the two outcomes of `FA.getFuncAST`: the line is over the count, or the walk's answer -/
theorem getFuncAST_cases (offsets : List Nat) (root : FA.Node) (l : Nat) :
    (offsets.length ≤ l ∧ FA.getFuncAST offsets root l = .error .lineOver) ∨
    (¬ offsets.length ≤ l ∧ ∃ d, FA.getFuncAST offsets root l = .ok d) := by
  by_cases h : offsets.length ≤ l
  · left; refine ⟨h, ?_⟩; unfold FA.getFuncAST; rw [if_pos h]
  · right; refine ⟨h, ?_⟩
    have hl : l < offsets.length := Nat.lt_of_not_le h
    exact ⟨_, FA.getFuncAST_eq_walk offsets root l offsets[l] (List.getElem?_eq_getElem hl)⟩

variable (ff : Aug.FloatFmt) (ac : Call → Nat → Option Call)

/-- what `ac` (group Aug's augmentCall, given the declaration's identity) must be for the model
to apply: the call as it is for a declaration with a malformed receiver list (`types k = none`),
otherwise the model's `applyAugment` on the type names of the declaration, a panic being `none`.
This is the shape `TrAu.tie_augmentCall_enough` proves of the translated `augmentCall`
(`if recvBad f then some c else applyModel ff c (eat f).1 (eat f).2`). -/
def AcIsModel : Prop :=
  ∀ call k, ac call k =
    match types k with
    | none => some call
    | some te => (AugGlue.applyAugment ff call te.1 te.2).toOption

def absR {α : Type} (r : GCache × α) : AugGlue.Cache × α := (absCache types r.1, r.2)

theorem step_refines (hac : AcIsModel types ff ac) (c : GCache) (call : Call) :
    (mStep rf (fun _ => pf') (fun s => some (AugGlue.lineToByteOffsets s)) ac c call).map (absR types) =
      (AugGlue.augmentStep ff (oracleOf rf pf' types) (absCache types c) call).toOption := by
  unfold mStep AugGlue.augmentStep
  by_cases h0 : call.args.values.length = 0
  · simp [h0, absR, Except.toOption]
  · simp only [h0, if_false]
    obtain ⟨r, hr, h1, h2⟩ := loadFile_refines' rf pf' types c call.localSrcPath
    obtain ⟨c1, e1⟩ := r
    simp only at h1 h2
    simp only [hr, ← h1, ← h2]
    unfold AugGlue.lookupAndAugment
    simp only [absCache, abs_get]
    rcases Option.eq_none_or_eq_some (goMapGet c1.parsed call.localSrcPath none) with hp | ⟨p, hp⟩
    · simp [hp, absR, absCache, Except.toOption]
    · simp only [hp, Option.map_some, absPF, AugGlue.ParsedFile.getFuncAST, FA.toParsed]
      rcases getFuncAST_cases p.lineToByteOffset p.parsed call.line with ⟨hle, hg⟩ | ⟨hle, d, hg⟩
      · simp [hle, hg, liftG, absR, absCache, Except.toOption]
      · simp only [hle, if_false, hg, liftG]
        cases d with
        | none => simp [absR, absCache, Except.toOption]
        | some k =>
          simp only [hac call k]
          cases types k with
          | none => simp [absR, absCache, Except.toOption]
          | some te =>
            cases ha : AugGlue.applyAugment ff call te.1 te.2 <;>
              simp [ha, absR, absCache, Except.toOption]

theorem calls_refines (hac : AcIsModel types ff ac) (calls : List Call) :
    ∀ (c : GCache) (err : Option AugGlue.ErrKind),
    (mCalls rf (fun _ => pf') (fun s => some (AugGlue.lineToByteOffsets s)) ac c err calls).map (absR types) =
      (AugGlue.augmentCalls ff (oracleOf rf pf' types) (absCache types c) err calls).toOption := by
  induction calls with
  | nil => intro c err; simp [mCalls, AugGlue.augmentCalls, absR, Except.toOption]
  | cons call rest ih =>
    intro c err
    have hs := step_refines rf pf' types ff ac hac c call
    unfold mCalls AugGlue.augmentCalls
    rcases Option.eq_none_or_eq_some
      (mStep rf (fun _ => pf') (fun s => some (AugGlue.lineToByteOffsets s)) ac c call) with hm | ⟨s, hm⟩
    · rw [hm] at hs
      cases hA : AugGlue.augmentStep ff (oracleOf rf pf' types) (absCache types c) call with
      | error e => simp [hm, Except.toOption]
      | ok v => rw [hA] at hs; simp [Except.toOption] at hs
    · rw [hm] at hs
      cases hA : AugGlue.augmentStep ff (oracleOf rf pf' types) (absCache types c) call with
      | error e => rw [hA] at hs; simp [Except.toOption] at hs
      | ok v =>
        rw [hA] at hs
        simp only [Option.map_some, Except.toOption, Option.some.injEq, absR] at hs
        simp only [hm, ← hs]
        have := ih s.1 (AugGlue.lastErr err s.2.2)
        rcases Option.eq_none_or_eq_some
          (mCalls rf (fun _ => pf') (fun s => some (AugGlue.lineToByteOffsets s)) ac s.1
            (AugGlue.lastErr err s.2.2) rest) with hn | ⟨q, hn⟩
        · rw [hn] at this
          cases hB : AugGlue.augmentCalls ff (oracleOf rf pf' types) (absCache types s.1)
              (AugGlue.lastErr err s.2.2) rest with
          | error e => simp [hn, Except.toOption]
          | ok w => rw [hB] at this; simp [Except.toOption] at this
        · rw [hn] at this
          cases hB : AugGlue.augmentCalls ff (oracleOf rf pf' types) (absCache types s.1)
              (AugGlue.lastErr err s.2.2) rest with
          | error e => rw [hB] at this; simp [Except.toOption] at this
          | ok w =>
            rw [hB] at this
            simp only [Option.map_some, Except.toOption, Option.some.injEq, absR] at this
            simp [hn, ← this, absR, Except.toOption]

theorem map_toOption_cases {ε α β : Type} {a : Option α} {b : Except ε β} {f : α → β}
    (h : a.map f = b.toOption) :
    (a = none ∧ ∃ e, b = .error e) ∨ (∃ x, a = some x ∧ b = .ok (f x)) := by
  cases a with
  | none =>
    cases b with
    | error e => exact .inl ⟨rfl, e, rfl⟩
    | ok v => simp [Except.toOption] at h
  | some x =>
    cases b with
    | error e => simp [Except.toOption] at h
    | ok v =>
      simp only [Option.map_some, Except.toOption, Option.some.injEq] at h
      exact .inr ⟨x, rfl, by rw [h]⟩

theorem goroutine_refines (hac : AcIsModel types ff ac) (c : GCache) (g : Goroutine) :
    (mAugmentGoroutine rf (fun _ => pf') (fun s => some (AugGlue.lineToByteOffsets s)) ac c g).map (absR types) =
      (AugGlue.augmentGoroutine ff (oracleOf rf pf' types) (absCache types c) g).toOption := by
  unfold mAugmentGoroutine AugGlue.augmentGoroutine
  rcases map_toOption_cases (calls_refines rf pf' types ff ac hac g.sig.stack.calls c none) with
    ⟨h1, e, h2⟩ | ⟨x, h1, h2⟩
  · simp [h1, h2, Except.toOption]
  · simp [h1, h2, absR, Except.toOption]

theorem gs_refines (hac : AcIsModel types ff ac) (gs : List Goroutine) :
    ∀ (c : GCache) (err : Option AugGlue.ErrKind),
    (mGs rf (fun _ => pf') (fun s => some (AugGlue.lineToByteOffsets s)) ac c err gs).map (absR types) =
      (AugGlue.augmentGs ff (oracleOf rf pf' types) (absCache types c) err gs).toOption := by
  induction gs with
  | nil => intro c err; simp [mGs, AugGlue.augmentGs, absR, Except.toOption]
  | cons g rest ih =>
    intro c err
    unfold mGs AugGlue.augmentGs
    rcases map_toOption_cases (goroutine_refines rf pf' types ff ac hac c g) with ⟨h1, e, h2⟩ | ⟨x, h1, h2⟩
    · simp [h1, h2, Except.toOption]
    · simp only [h1, h2, absR]
      rcases map_toOption_cases (ih x.1 (AugGlue.lastErr err x.2.2)) with ⟨h3, e, h4⟩ | ⟨y, h3, h4⟩
      · simp [h3, h4, Except.toOption]
      · simp [h3, h4, absR, Except.toOption]

/-- **Snapshot.augment against the model**: on a snapshot whose goroutines are `s.goroutines` the
Go-record function (= the translated function, `tie_augment`) panics exactly when the model
reports the panic of augmentCall, and otherwise yields the model's goroutines and error -/
theorem augment_refines (hac : AcIsModel types ff ac) (s : Snapshot) :
    (mAugment rf (fun _ => pf') (fun s => some (AugGlue.lineToByteOffsets s)) ac s).map
        (fun r => (r.1.goroutines, r.2)) =
      (AugGlue.augment ff (oracleOf rf pf' types) s.goroutines).toOption := by
  unfold mAugment AugGlue.augment
  have h := gs_refines rf pf' types ff ac hac s.goroutines { files := [], parsed := [] } none
  have h0 : absCache types { files := [], parsed := [] } = [] := rfl
  rw [h0] at h
  rcases map_toOption_cases h with ⟨h1, e, h2⟩ | ⟨x, h1, h2⟩
  · simp [h1, h2, Except.toOption]
  · simp [h1, h2, absR, Except.toOption]

/-- the translated `(*Snapshot).augment` against `AugGlue.augment`, in one statement -/
theorem tie_augment_model (hac : AcIsModel types ff ac) (s : Snapshot) :
    (augment (modelEnv rf (fun _ => pf') (fun s => some (AugGlue.lineToByteOffsets s)) ac) s).map
        (fun r => (r.1.goroutines, r.2)) =
      (AugGlue.augment ff (oracleOf rf pf' types) s.goroutines).toOption := by
  rw [tie_augment, mE_augment]
  exact augment_refines rf pf' types ff ac hac s

/-- the translated `loadFile` against `AugGlue.loadFile`, in one statement -/
theorem tie_loadFile_model (c : GCache) (name : Bytes) (ac : Call → Nat → Option Call) :
    (loadFile (modelEnv rf (fun _ => pf') (fun s => some (AugGlue.lineToByteOffsets s)) ac) c name).map
        (fun r => (absCache types r.1, r.2)) =
      some (AugGlue.loadFile (oracleOf rf pf' types) (absCache types c) name) := by
  rw [tie_loadFile, mE_loadFile]
  exact loadFile_refines rf pf' types c name

/-- the translated `augmentGoroutine` against `AugGlue.augmentGoroutine`, in one statement -/
theorem tie_augmentGoroutine_model (hac : AcIsModel types ff ac) (c : GCache) (g : Goroutine) :
    (augmentGoroutine (modelEnv rf (fun _ => pf') (fun s => some (AugGlue.lineToByteOffsets s)) ac) c g).map
        (absR types) =
      (AugGlue.augmentGoroutine ff (oracleOf rf pf' types) (absCache types c) g).toOption := by
  rw [tie_augmentGoroutine, mE_augmentGoroutine]
  exact goroutine_refines rf pf' types ff ac hac c g
end refine

/-! ### non-vacuity: the translated definitions compute -/

/-- `package p` / `func f…` on line 3 with a statement on line 4 -/
def exFile : GParsedFile :=
  ⟨[0, 0, 10, 11, 30, 40], ⟨1, false, 0, [⟨9, false, 0, []⟩, ⟨12, true, 7, [⟨20, false, 0, []⟩, ⟨32, false, 0, []⟩]⟩]⟩⟩

def exEnv : Env := modelEnv (fun _ => none) (fun _ _ => none) (fun _ => none) (fun c _ => some c)

example : getFuncAST exEnv exFile [] 4 = some (some 7, none) := by decide
example : getFuncAST exEnv exFile [] 2 = some (none, none) := by decide
example : getFuncAST exEnv exFile [] 6 = some (none, some .lineOver) := by decide
/-- the keys of the cache, whether the entry is nil, and the error -/
def obs (r : Option (GCache × Option AugGlue.ErrKind)) :
    Option (List (Bytes × Bool) × Option AugGlue.ErrKind) :=
  r.map fun r => (r.1.parsed.map fun kv => (kv.1, kv.2.isNone), r.2)

example : obs (loadFile exEnv ⟨[], []⟩ b!"a.s") = some ([(b!"a.s", true)], some .nonGo) := by decide
example : obs (loadFile exEnv ⟨[], []⟩ b!"a.go") = some ([(b!"a.go", true)], some .read) := by decide
example : obs (loadFile exEnv ⟨[], [(b!"a.go", none)]⟩ b!"a.go") = some ([(b!"a.go", true)], none) := by decide

/-! ### Declarations with a malformed receiver list (fix F10)

The source `func () f(x int) { panic(x) }` (an empty receiver list; go/parser accepts it without
error) — the tree below is what `ast.Inspect` reports on go/parser's tree of it.  The Go code
(`augmentCall`: `if f.Recv != nil && len(f.Recv.List) != 1 { return }`, tied in group Aug as
`recvBad`) leaves the call as it is: `Processed = []` (checked on the real code).  An earlier
version of the glue model had no such case (`FA.toParsed` gave the type names of every
declaration found, so the model rendered `Processed = ["1"]`): the disagreement was found by
writing this refinement.  The model was repaired: `types k = none` for such a declaration
(`GlueAug.typesOf`), `Parsed.funcAt` then answers "no function" and the call is left alone, as
in the code; `GlueAug.tie_acOf_isModel` proves `AcIsModel` of the translated `augmentCall`. -/

def f10Src : Bytes := b!"package p\n\nfunc () f(x int) {\n\tpanic(x)\n}\n"

def f10Tree : FA.Node :=
  ⟨1, false, 0, [⟨9, false, 0, []⟩, ⟨12, true, 0, [⟨17, false, 0, []⟩, ⟨20, false, 0, []⟩,
    ⟨12, false, 0, [⟨21, false, 0, [⟨22, false, 0, [⟨22, false, 0, []⟩, ⟨24, false, 0, []⟩]⟩]⟩]⟩,
    ⟨29, false, 0, [⟨32, false, 0, [⟨32, false, 0, [⟨32, false, 0, []⟩, ⟨38, false, 0, []⟩]⟩]⟩]⟩]⟩]⟩

def f10Call : Call :=
  { fn := { name := [102] }, args := { values := [Arg.scalar [] 1 false false false] },
    localSrcPath := [97, 46, 103, 111], line := 4 }

def f10Snapshot : Snapshot :=
  { goroutines := [{ sig := { stack := { calls := [f10Call] } } }] }

def processedOf (gs : List Goroutine) : List (List (List Bytes)) :=
  gs.map fun g => g.sig.stack.calls.map fun c => c.args.processed

/-- the code (the translated `augment`, with the augmentCall of group Aug on a declaration whose
receiver list is not of length 1: the call unchanged) -/
example : (augment (modelEnv (fun _ => some f10Src) (fun _ _ => some f10Tree)
      (fun s => some (AugGlue.lineToByteOffsets s)) (fun c _ => some c)) f10Snapshot).map
    (fun r => (processedOf r.1.goroutines, r.2)) = some ([[[]]], none) := by decide

/-- the glue model on the same input: the declaration's receiver list is malformed, `types` is
`none` for it, and the call is left as it is — as in the code -/
example : (AugGlue.augment ⟨fun _ => [], fun _ => []⟩
      (oracleOf (fun _ => some f10Src) (fun _ => some f10Tree) (fun _ => none))
      f10Snapshot.goroutines).toOption.map (fun r => (processedOf r.1, r.2)) =
    some ([[[]]], none) := by decide

/-- and with a well-formed declaration of one `int` parameter at the same place the value is
rendered (the refinement is not about an oracle that always answers `none`) -/
example : (AugGlue.augment ⟨fun _ => [], fun _ => []⟩
      (oracleOf (fun _ => some f10Src) (fun _ => some f10Tree) (fun _ => some ([b!"int"], false)))
      f10Snapshot.goroutines).toOption.map (fun r => (processedOf r.1, r.2)) =
    some ([[[b!"1"]]], none) := by decide

end PP.TrG

#print axioms PP.TrG.errorSites_pinned
#print axioms PP.TrG.tie_getFuncAST
#print axioms PP.TrG.tie_loadFile
#print axioms PP.TrG.tie_augmentGoroutine
#print axioms PP.TrG.tie_augment
#print axioms PP.TrG.loadFile_refines
#print axioms PP.TrG.tie_loadFile_model
#print axioms PP.TrG.tie_augmentGoroutine_model
#print axioms PP.TrG.tie_augment_model
