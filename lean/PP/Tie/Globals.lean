import PP.Extracted
/- "Nothing depends on earlier calls in the same process": no function of the
packages assigns to a package-level variable. -/
namespace PP.Tie
theorem pin_no_global_writes_stack : PP.Extracted.stackGlobalWrites = [] := by decide
theorem pin_no_global_writes_internal : PP.Extracted.internalGlobalWrites = [] := by decide
/-- All the package-level variables there are: byte-string and table constants, the compiled
regular expressions (safe for concurrent use, never reassigned: see above) and one palette value.
No pool, cache, counter or lazily initialised value exists in which state could survive from one
call to the next or be shared between goroutines. -/
theorem pin_global_vars_stack : PP.Extracted.stackGlobalVars =
    ["_Location_index [7]uint8", "_state_index [20]uint16", "commaSpace []byte", "crlf []byte",
     "errBufferFull error", "inaccurateQuestionMark []byte", "lf []byte", "lockedToThread []byte",
     "raceHeader []byte", "raceHeaderFooter []byte", "reCreated *regexp.Regexp", "reFile *regexp.Regexp",
     "reFunc *regexp.Regexp", "reMethodSymbol *regexp.Regexp", "reMinutes *regexp.Regexp",
     "reModule *regexp.Regexp", "reRaceGoroutine *regexp.Regexp", "reRaceOperationHeader *regexp.Regexp",
     "reRacePreviousOperationHeader *regexp.Regexp", "reRoutineHeader *regexp.Regexp",
     "reUnavail *regexp.Regexp", "reVersion *regexp.Regexp", "threeDots []byte", "underscore []byte",
     "writeCap []byte", "writeLow []byte"] := by decide
theorem pin_global_vars_internal : PP.Extracted.internalGlobalVars = ["defaultPalette Palette"] := by decide
/-- the library starts no goroutines (scheduling cannot influence a result); the
command starts one, in Main, to swallow signals -/
theorem pin_no_goroutines_stack : PP.Extracted.stackGoStmts = [] := by decide
theorem pin_goroutines_internal : PP.Extracted.internalGoStmts = ["Main"] := by decide
end PP.Tie
