import PP.Extracted
/- "Nothing depends on earlier calls in the same process": no function of the
packages assigns to a package-level variable. -/
namespace PP.Tie
theorem pin_no_global_writes_stack : PP.Extracted.stackGlobalWrites = [] := by decide
theorem pin_no_global_writes_internal : PP.Extracted.internalGlobalWrites = [] := by decide
/-- the library starts no goroutines (scheduling cannot influence a result); the
command starts one, in Main, to swallow signals -/
theorem pin_no_goroutines_stack : PP.Extracted.stackGoStmts = [] := by decide
theorem pin_goroutines_internal : PP.Extracted.internalGoStmts = ["Main"] := by decide
end PP.Tie
