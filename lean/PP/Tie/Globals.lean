import PP.Extracted
/- "Nothing depends on earlier calls in the same process": no function of the
packages assigns to a package-level variable. -/
namespace PP.Tie
theorem pin_no_global_writes_stack : PP.Extracted.stackGlobalWrites = [] := by decide
theorem pin_no_global_writes_internal : PP.Extracted.internalGlobalWrites = [] := by decide
end PP.Tie
