import PP.TranslatedFunc
import PP.Lemmas.PrintLemmas
import PP.Lemmas.FuncInitLemmas
/-
Tie A, translated part 6: `(*Func).Init` (stack/stack.go) and `parseFunc`, `parseFile`,
`trimCurlyBrackets` (stack/context.go), translated from the Go source on every run
(`PP/TranslatedFunc.lean`, by extract/translate_func.go) and proved equal to the hand-written
model the theorems of C01, C03, C08 and C15 are about (`PP/Model/FuncInit.lean`: `funcInit`,
`funcFinish`, `pathUnescape`; `PP/Model/Scan.lean`: `parseFunc`, `parseFile`;
`PP/Model/Args.lean`: `trimCurlyBrackets`).

In this group a Go `int` is an `Int` (`endPkg` of `Init` is -1 when there is no dot) and a Go
`error` is a value of type `GoErr`, distinct from a run-time panic (`none`): see
`PP/Go/PreludeFunc.lean`.

* `tie_Func_Init`, `tie_parseFunc`, `tie_parseFile`, `tie_trimCurlyBrackets`: the generated
  equations hold of `modelEnv`, for ALL inputs (any receiver / `*Call`, any bytes).
* The model describes `Init` and `parseFunc` on a FRESH receiver (`Func{}`, `Call{}`: how
  context.go calls them); the Go code leaves some fields of a receiver untouched on some paths,
  so for an arbitrary receiver the result depends on it.  `funcInitOn` / `parseFuncOn` say how
  (in the shape of the model), and `funcInitOn_fresh`, `tie_Func_Init_model`,
  `tie_Func_Init_zero`, `parseFunc_zero` show that on a fresh receiver they ARE the model:
  the receiver afterwards is the model's `Func` / `Call`, an error is of the model's kind
  (`toFErr`, `toErr`).
* No panic: the model's `FErr.slice` (a slice bound out of range) corresponds to `none`;
  `Func_Init_no_panic`, `parseFunc_no_panic`, `parseFile_no_panic`,
  `trimCurlyBrackets_no_panic` show the translated code never yields `none` (for `Init` this is
  `funcInit_ne_slice`, the content of fix F3).
-/
namespace PP.TrF
open PP PP.Go Bytes

/-! ### the two errors `Init` returns, and their model counterparts -/

/-- `errors.New("bad function reference: expected to have at least one dot")` -/
def errNoDot : GoErr := .new b!"bad function reference: expected to have at least one dot"
/-- `fmt.Errorf("bad function reference: %w", err)` for the error of url.PathUnescape -/
def errEscape : GoErr := .errorf b!"bad function reference: %w" .pathUnescape []
/-- `fmt.Errorf("%s on line: %q", err, bytes.TrimSpace(line))` (parseFunc) -/
def errOnLine (e : GoErr) (line : Bytes) : GoErr := .errorf b!"%s on line: %q" e [.trimSpace line]
/-- `fmt.Errorf("failed to parse int on line: %q", bytes.TrimSpace(line))` (parseFile) -/
def errFileInt (line : Bytes) : GoErr := .errorf b!"failed to parse int on line: %q" .nil [.trimSpace line]

/-! ### slices and searches with `Int` bounds, in terms of the model's `Option Nat` -/

theorem ofNat_ne_neg1 (i : Nat) : (Int.ofNat i != (-1 : Int)) = true := by
  simp only [bne_iff_ne, ne_eq, Int.ofNat_eq_natCast]; omega

theorem ofNat_gt_neg1 (i : Nat) : Int.ofNat i > (-1 : Int) := by
  simp only [Int.ofNat_eq_natCast]; omega

theorem ofNat_eq_neg1 (i : Nat) : (Int.ofNat i == (-1 : Int)) = false := by
  simp only [beq_eq_false_iff_ne, ne_eq, Int.ofNat_eq_natCast]; omega

theorem goSliceI_drop {α : Type} (s : List α) (i : Nat) (h : i ≤ s.length) :
    goSliceI s (Int.ofNat i) (ilen s) = some (s.drop i) := by
  unfold ilen
  rw [goSliceI_ofNat s i s.length h (Nat.le_refl _), List.take_length]

theorem goSliceI_take {α : Type} (s : List α) (i : Nat) (h : i ≤ s.length) :
    goSliceI s (0 : Int) (Int.ofNat i) = some (s.take i) := by
  have := goSliceI_ofNat s 0 i (Nat.zero_le _) h
  simpa using this

/-- `if i := LastIndexByte(s, c); i != -1 { … s[i+1:] … } else { … }` -/
theorem last_drop {β : Type} (s : Bytes) (c : UInt8) (k1 : Bytes → Option β) (k2 : Option β) :
    (if (goLastIndexByte s c != (-1 : Int)) then
        (goSliceI s (goLastIndexByte s c + (1 : Int)) (ilen s)).bind k1
      else k2) =
    (lastIndexByte s c).elim k2 (fun i => k1 (s.drop (i + 1))) := by
  unfold goLastIndexByte
  cases h : lastIndexByte s c with
  | none => simp
  | some i =>
    have hi := (lastIndexByte_eq_some h).2.2
    have e : (Int.ofNat i + 1 : Int) = Int.ofNat (i + 1) := by simp only [Int.ofNat_eq_natCast]; omega
    simp only [idxOrMinus1_some, ofNat_ne_neg1, if_true, e, goSliceI_drop s (i + 1) (by omega), Option.bind_some, Option.elim_some]

/-- `if i := LastIndexByte(s, c); i > -1 { … s[:i] … } else { … }` -/
theorem last_take {β : Type} (s : Bytes) (c : UInt8) (k1 : Bytes → Option β) (k2 : Option β) :
    (if (decide (goLastIndexByte s c > (-1 : Int))) then
        (goSliceI s (0 : Int) (goLastIndexByte s c)).bind k1
      else k2) =
    (lastIndexByte s c).elim k2 (fun i => k1 (s.take i)) := by
  unfold goLastIndexByte
  cases h : lastIndexByte s c with
  | none => simp
  | some i =>
    have hi := (lastIndexByte_eq_some h).2.2
    simp only [idxOrMinus1_some, decide_eq_true_eq, ofNat_gt_neg1, if_true, goSliceI_take s i (by omega), Option.bind_some, Option.elim_some]


/-! ### collapsing assignment-only branches: `if`/`elim` of `some`s, pushed into the record -/

theorem ite_some_some {α : Type} (c : Prop) [Decidable c] (a b : α) :
    (if c then some a else some b) = some (if c then a else b) := by
  split <;> rfl

theorem elim_some_some {α β : Type} (o : Option α) (a : α → β) (b : β) :
    o.elim (some b) (fun i => some (a i)) = some (o.elim b a) := by
  cases o <;> rfl

theorem elim_const {α β : Type} (o : Option α) (b : β) : o.elim b (fun _ => b) = b := by
  cases o <;> rfl

theorem Func_ite (c : Prop) [Decidable c] (a1 a2 a3 a4 : Bytes) (a5 a6 : Bool) (b1 b2 b3 b4 : Bytes) (b5 b6 : Bool) :
    (if c then Func.mk a1 a2 a3 a4 a5 a6 else Func.mk b1 b2 b3 b4 b5 b6) =
    Func.mk (if c then a1 else b1) (if c then a2 else b2) (if c then a3 else b3) (if c then a4 else b4)
      (if c then a5 else b5) (if c then a6 else b6) := by
  split <;> rfl

theorem Func_elim {α : Type} (o : Option α) (a1 a2 a3 a4 : α → Bytes) (a5 a6 : α → Bool)
    (b1 b2 b3 b4 : Bytes) (b5 b6 : Bool) :
    o.elim (Func.mk b1 b2 b3 b4 b5 b6) (fun i => Func.mk (a1 i) (a2 i) (a3 i) (a4 i) (a5 i) (a6 i)) =
    Func.mk (o.elim b1 a1) (o.elim b2 a2) (o.elim b3 a3) (o.elim b4 a4) (o.elim b5 a5) (o.elim b6 a6) := by
  cases o <;> rfl

/-- `parts := strings.Split(s, sep); parts[len(parts)-1]` never panics: the last field -/
theorem goIdxI_split_last (s sep : Bytes) :
    goIdxI (goSplit s sep) (ilen (goSplit s sep) - (1 : Int)) = some ((splitOn s sep).getLast?.getD []) := by
  rw [goIdxI_last _ (goSplit_ne_nil s sep)]
  have := List.getLast?_eq_some_getLast (goSplit_ne_nil s sep)
  simp only [goSplit] at this
  simp [goSplit, this]

/-- peel the first statement off a sequence -/
theorem bind_of_eq_some {α β : Type} {x : Option α} {v : α} (K : α → Option β) (h : x = some v) :
    x.bind K = K v := by
  rw [h, Option.bind_some]

/-- a join block one of whose branches may `return`: every value the block can fall through with
is handled by the continuation, and the `return` is the result -/
theorem after_join {σ ρ α : Type} (o : Option α) (a : σ) (c : α → Prop) [DecidablePred c] (r : ρ) (b : α → σ)
    (K : σ → Option ρ) (spec : Option ρ)
    (hret : ∀ i, o = some i → c i → some r = spec)
    (hK : ∀ s, (o = none ∧ s = a) ∨ (∃ i, o = some i ∧ ¬ c i ∧ s = b i) → K s = spec) :
    after (some (o.elim (Step.cont a) fun i => if c i then Step.ret r else Step.cont (b i))) K = spec := by
  cases o with
  | none => exact hK a (Or.inl ⟨rfl, rfl⟩)
  | some i =>
    by_cases hc : c i
    · simp only [Option.elim_some, if_pos hc, after_ret]; exact hret i rfl hc
    · simp only [Option.elim_some, if_neg hc, after_cont]; exact hK _ (Or.inr ⟨i, rfl, hc, rfl⟩)

/-! ### `Init` on a receiver that need not be the zero value

The model's `funcInit raw : Except FErr Func` describes `Init` on a fresh (zero) `Func`, which is
how package stack calls it (context.go: on `Call{}` / `make([]Call, 1)[0]`).  The Go method
assigns some fields of its receiver only on some paths (`ImportPath` only when there is a dot,
`IsPkgMain`/`IsExported` only to `true` in package main), so for an arbitrary receiver the result
depends on it: `funcInitOn f raw` says how, in the shape of the model (`endPkgOf`, `endPkgAdj`,
`funcFinishOn` are the three stages of `funcInit`, the last one generalised to a receiver `f`).
`funcInitOn_fresh` shows that it is the model on a receiver whose `ImportPath`, `IsExported`,
`IsPkgMain` are zero. -/

/-- `endPkg` as computed from the raw name (first stage of `funcInit`); `none` is Go's -1 -/
def endPkgOf (raw : Bytes) : Except FErr (Option Nat) :=
  match lastIndexByte raw 47 with
  | some ls =>
    match indexByte (raw.drop (ls + 1)) 46 with
    | none => .error .noDot
    | some r => .ok (some (ls + r + 1))
  | none => .ok (indexByte raw 46)

/-- `endPkg` moved into the unescaped string (second stage of `funcInit`) -/
def endPkgAdj (raw : Bytes) (endPkg : Option Nat) : Option Nat :=
  match endPkg with
  | some e =>
    if e > 0 then
      match pathUnescape (raw.take e) with
      | some pkg => some pkg.length
      | none => some e
    else some e
  | none => none

/-- the name without a trailing ` in goroutine N` -/
def nameCut (n : Bytes) : Bytes :=
  (lastIndexByte n 32).elim n fun i =>
    if hasSuffix (n.take i) inGoroutineSuffix then goTrimSuffix (n.take i) inGoroutineSuffix else n

def dirOf (p : Bytes) : Bytes := (lastIndexByte p 47).elim p fun i => p.drop (i + 1)

/-- `Init` from `if idx := strings.LastIndexByte(f.Name, ' ')` on; `name0` is `f.Name` there -/
def finishTail (f : Func) (name0 : Bytes) : Func :=
  { complete := f.complete, importPath := f.importPath, dirName := dirOf f.importPath, name := nameCut name0,
    isExported :=
      if f.importPath == b!"main" then (if nameCut name0 == b!"main" then true else f.isExported)
      else toUpperIsSelf (goDecodeRune ((splitOn (nameCut name0) [46]).getLast?.getD [])).1,
    isPkgMain := if f.importPath == b!"main" then true else f.isPkgMain }

/-- third stage (`funcFinish`) on a receiver `f`; `none` = a slice expression out of range -/
def funcFinishOn (f : Func) (complete : Bytes) (endPkg : Option Nat) : Option Func :=
  match endPkg with
  | none => some (finishTail { f with complete := complete } complete)
  | some e =>
    if e + 1 ≤ complete.length then
      some (finishTail { f with complete := complete, importPath := complete.take e } (complete.drop (e + 1)))
    else none

/-- `(*Func).Init` on the receiver `f`: the receiver afterwards and the error; `none` = panic -/
def funcInitOn (f : Func) (raw : Bytes) : Option (Func × GoErr) :=
  match endPkgOf raw with
  | .error _ => some (f, errNoDot)
  | .ok endPkg =>
    match pathUnescape raw with
    | none => some ({ f with complete := [] }, errEscape)
    | some complete => (funcFinishOn f complete (endPkgAdj raw endPkg)).map fun g => (g, GoErr.nil)

/-- `parseFunc` on a `*Call` that need not point to the zero value (context.go calls it on
`Call{}`): `Func.Init` on `c.Func`, then `c.ImportPath`, then the model's `parseArgs` -/
def parseFuncOn (c : Call) (line : Bytes) : Option (Call × (Bool × GoErr)) :=
  match matchFunc line with
  | none => some (c, (false, GoErr.nil))
  | some (name, args) =>
    match funcInitOn c.fn name with
    | none => none
    | some (f, err) =>
      if err != GoErr.nil then some ({ c with fn := f }, (true, err))
      else
        let c := { c with fn := f, importPath := f.importPath }
        match parseArgs args with
        | .error e => some (c, (true, errOnLine (GoErr.parseArgs e) line))
        | .ok a => some ({ c with args := a }, (true, GoErr.nil))

/-- `parseFile` on any `*Call`, from the model's `parseFile` and `Call.init` -/
def parseFileOn (c : Call) (line : Bytes) : Option (Call × (Bool × GoErr)) :=
  match PP.parseFile line with
  | none => some (c, (false, GoErr.nil))
  | some none => some (c, (true, errFileInt line))
  | some (some (p, n)) => some (c.init p n, (true, GoErr.nil))

/-- the model's `trimCurlyBrackets` as the Go function returns it: the two counts are Go `int`s -/
def trimResult (r : Nat × Bytes × Nat) : Int × Bytes × Int := (Int.ofNat r.1, r.2.1, Int.ofNat r.2.2)

/-- `(*Call).init` is a function of the environment here (translated and tied in group Scan,
`TrS.tie_Call_init`, where its `line int` is a `Nat`); in this group the argument is the Go `int`
as an `Int`, and the model function is applied to its `toNat` — exact for the natural numbers
`atou` returns, which is all `parseFile` ever passes (`tie_parseFile`). -/
def modelEnv : Env where
  Call_init c p n := some (c.init p n.toNat, ())
  Func_Init f raw := funcInitOn f raw
  parseFunc c line := parseFuncOn c line
  parseFile c line := parseFileOn c line
  trimCurlyBrackets s := some (trimResult (PP.trimCurlyBrackets s))

@[simp] theorem mE_trimCurlyBrackets (s : Bytes) :
    modelEnv.trimCurlyBrackets s = some (trimResult (PP.trimCurlyBrackets s)) := rfl
@[simp] theorem mE_Call_init (c : Call) (p : Bytes) (n : Int) :
    modelEnv.Call_init c p n = some (c.init p n.toNat, ()) := rfl
@[simp] theorem mE_Func_Init (f : Func) (raw : Bytes) : modelEnv.Func_Init f raw = funcInitOn f raw := rfl
@[simp] theorem mE_parseFunc (c : Call) (line : Bytes) : modelEnv.parseFunc c line = parseFuncOn c line := rfl
@[simp] theorem mE_parseFile (c : Call) (line : Bytes) : modelEnv.parseFile c line = parseFileOn c line := rfl

/-! ### the translated code against `funcInitOn` -/

theorem idxOrMinus1_eq_neg1 (o : Option Nat) : (idxOrMinus1 o == (-1 : Int)) = true ↔ o = none := by
  cases o with
  | none => simp
  | some i => simp only [idxOrMinus1_some, ofNat_eq_neg1]; simp

theorem ofNat_succ (i : Nat) : (Int.ofNat i + 1 : Int) = Int.ofNat (i + 1) := by
  simp only [Int.ofNat_eq_natCast]; omega

/-- the values the first block of `Init` leaves in `endPkg` -/
theorem endPkg_of_join (raw : Bytes) (s : Int)
    (hs : (lastIndexByte raw 47 = none ∧ s = goIndexByte raw 46) ∨
      ∃ i, lastIndexByte raw 47 = some i ∧ ¬ (goIndexByte (raw.drop (i + 1)) 46 == (-1 : Int)) = true ∧
        s = goLastIndexByte raw 47 + goIndexByte (raw.drop (i + 1)) 46 + 1) :
    ∃ ep, endPkgOf raw = .ok ep ∧ s = idxOrMinus1 ep := by
  rcases hs with ⟨h1, rfl⟩ | ⟨i, h1, h2, rfl⟩
  · exact ⟨indexByte raw 46, by simp [endPkgOf, h1], rfl⟩
  · unfold goIndexByte at h2
    rw [idxOrMinus1_eq_neg1] at h2
    cases h3 : indexByte (raw.drop (i + 1)) 46 with
    | none => exact absurd h3 h2
    | some r =>
      refine ⟨some (i + r + 1), by simp [endPkgOf, h1, h3], ?_⟩
      simp only [goLastIndexByte, goIndexByte, h1, h3, idxOrMinus1_some, Int.ofNat_eq_natCast]
      omega

theorem goSliceI_all {α : Type} (s : List α) : goSliceI s ((-1 : Int) + 1) (ilen s) = some s := by
  have := goSliceI_drop s 0 (Nat.zero_le _)
  simpa using this

theorem endPkgOf_dot {raw : Bytes} {e : Nat} (h : endPkgOf raw = .ok (some e)) : raw[e]? = some 46 := by
  unfold endPkgOf at h
  cases h1 : lastIndexByte raw 47 with
  | none =>
    simp only [h1] at h
    exact indexByte_getElem? (by simpa using h)
  | some ls =>
    simp only [h1] at h
    cases h2 : indexByte (raw.drop (ls + 1)) 46 with
    | none => simp [h2] at h
    | some r =>
      simp only [h2, Except.ok.injEq, Option.some.injEq] at h
      have := indexByte_getElem? h2
      rw [List.getElem?_drop] at this
      rw [← this, ← h]; congr 1; omega

/-- `(*Func).Init` calls no other translated function: the translated code is `funcInitOn` in
every environment, for every receiver and every raw name -/
theorem Func_Init_eq (E : Env) (f : Func) (raw : Bytes) : TrF.Func_Init E f raw = funcInitOn f raw := by
  unfold TrF.Func_Init
  simp only [last_drop, last_take, ite_some_some, elim_some_some, Option.bind_some, Option.bind_fun_some, goIdxI_split_last,
    Func_ite, Func_elim, elim_const, ite_self]
  apply after_join
  · intro i h1 h2
    unfold goIndexByte at h2
    rw [idxOrMinus1_eq_neg1] at h2
    simp [funcInitOn, endPkgOf, h1, h2, errNoDot]
  · intro s hs
    obtain ⟨ep, hep, rfl⟩ := endPkg_of_join raw s hs
    have hdot : ∀ e, ep = some e → e < raw.length := by
      intro e he; subst he
      have := endPkgOf_dot hep
      exact (List.getElem?_eq_some_iff.mp this).1
    simp only [funcInitOn, hep]
    cases hq : pathUnescape raw with
    | none => simp [goPathUnescape, hq, errEscape]
    | some complete =>
      have hg : goPathUnescape raw = (complete, GoErr.nil) := by simp [goPathUnescape, hq]
      simp only [hg, bne_self_eq_false, Bool.false_eq_true, if_false]
      refine (bind_of_eq_some (v := idxOrMinus1 (endPkgAdj raw ep)) _ ?_).trans ?_
      · cases ep with
        | none => simp [endPkgAdj]
        | some e =>
          have hle := hdot e rfl
          by_cases he : e > 0
          · have hpos : decide (Int.ofNat e > (0 : Int)) = true := by
              simp only [decide_eq_true_eq, Int.ofNat_eq_natCast]; omega
            rw [idxOrMinus1_some, if_pos hpos, goSliceI_take raw e (by omega), Option.bind_some]
            simp only [endPkgAdj, if_pos he]
            cases hp : pathUnescape (raw.take e) with
            | none => simp [goPathUnescape, hp]
            | some pkg => simp [goPathUnescape, hp, ilen]
          · have hpos : ¬ decide (Int.ofNat e > (0 : Int)) = true := by
              simp only [decide_eq_true_eq, Int.ofNat_eq_natCast]; omega
            rw [idxOrMinus1_some, if_neg hpos]
            simp only [endPkgAdj, if_neg he, idxOrMinus1_some]
      · generalize endPkgAdj raw ep = ep'
        cases ep' with
        | none =>
          simp only [idxOrMinus1_none, bne_self_eq_false, Bool.false_eq_true, if_false, Option.bind_some,
            goSliceI_all, funcFinishOn, Option.map_some]
          rfl
        | some e =>
          simp only [idxOrMinus1_some, ofNat_ne_neg1, if_true, funcFinishOn, ofNat_succ]
          by_cases h1 : e + 1 ≤ complete.length
          · simp only [goSliceI_take complete e (by omega), Option.bind_some, goSliceI_drop complete (e + 1) h1,
              if_pos h1, Option.map_some]
            rfl
          · rw [if_neg h1]
            by_cases h0 : e ≤ complete.length
            · simp only [goSliceI_take complete e h0, Option.bind_some, ilen]
              rw [goSliceI_ofNat_none _ _ _ (by omega)]
              rfl
            · have : goSliceI complete (0 : Int) (Int.ofNat e) = none := by
                have := goSliceI_ofNat_none complete 0 e (by omega)
                simpa using this
              rw [this]; rfl

/-! ### `funcInitOn` against the model `funcInit` -/

/-- the model's result as `Init` returns it on the receiver `f`: the receiver afterwards and the
error.  An escape error leaves `Complete` empty (`f.Complete, err = url.PathUnescape(raw)`
assigns the "" Go returns with the error); `FErr.slice`, the model's panic, is `none`. -/
def initResult (f : Func) : Except FErr Func → Option (Func × GoErr)
  | .ok g => some (g, GoErr.nil)
  | .error .noDot => some (f, errNoDot)
  | .error .escape => some ({ f with complete := [] }, errEscape)
  | .error .slice => none

/-- the model's error kind of an error value `Init` returns -/
def toFErr (e : GoErr) : Option FErr :=
  if e = errNoDot then some .noDot else if e = errEscape then some .escape else none

theorem toFErr_noDot : toFErr errNoDot = some .noDot := by decide
theorem toFErr_escape : toFErr errEscape = some .escape := by decide
theorem toFErr_nil : toFErr GoErr.nil = none := by decide

/-- the three stages of the model -/
theorem funcInit_stages (raw : Bytes) :
    funcInit raw =
      match endPkgOf raw with
      | .error e => .error e
      | .ok endPkg =>
        match pathUnescape raw with
        | none => .error .escape
        | some complete => funcFinish complete (endPkgAdj raw endPkg) := by
  unfold funcInit endPkgOf endPkgAdj
  rfl

theorem endPkgOf_error {raw : Bytes} {e : FErr} (h : endPkgOf raw = .error e) : e = .noDot := by
  unfold endPkgOf at h
  split at h
  · split at h
    · cases h; rfl
    · cases h
  · cases h

theorem nameCut_eq (n : Bytes) :
    nameCut n =
      match lastIndexByte n 32 with
      | some idx =>
        let cut := n.take idx
        if hasSuffix cut inGoroutineSuffix then cut.take (cut.length - inGoroutineSuffix.length) else n
      | none => n := by
  unfold nameCut goTrimSuffix
  cases lastIndexByte n 32 with
  | none => rfl
  | some i =>
    simp only [Option.elim_some]
    split <;> simp_all

theorem dirOf_eq (p : Bytes) :
    dirOf p = match lastIndexByte p 47 with | some i => p.drop (i + 1) | none => p := by
  unfold dirOf
  cases lastIndexByte p 47 <;> rfl

theorem bytes_beq (a b : Bytes) : (a == b) = decide (a = b) := by
  by_cases h : a = b <;> simp [h]

/-- a receiver in which the three fields `Init` does not always assign are zero -/
def Fresh (f : Func) : Prop := f.importPath = [] ∧ f.isExported = false ∧ f.isPkgMain = false

theorem fresh_zero : Fresh {} := ⟨rfl, rfl, rfl⟩

theorem funcFinishOn_fresh (f : Func) (hf : Fresh f) (complete : Bytes) (endPkg : Option Nat) :
    funcFinishOn f complete endPkg =
      match funcFinish complete endPkg with
      | .ok g => some g
      | .error _ => none := by
  obtain ⟨h1, h2, h3⟩ := hf
  cases endPkg with
  | none =>
    have hd : lastIndexByte ([] : Bytes) 47 = none := rfl
    simp only [funcFinishOn, funcFinish, finishTail, nameCut, dirOf, goTrimSuffix, h1, h2, h3, hd, goDecodeRune,
      firstRune]
    cases lastIndexByte complete 32 with
    | none => simp
    | some i =>
      simp only [Option.elim_some]
      split <;> simp_all
  | some e =>
    simp only [funcFinishOn, funcFinish, finishTail, nameCut, dirOf, goTrimSuffix, h2, h3, goDecodeRune, firstRune]
    by_cases hb : e + 1 ≤ complete.length
    · simp only [hb, if_true, decide_true, Bool.not_true, Bool.false_eq_true, if_false]
      cases lastIndexByte (List.drop (e + 1) complete) 32 with
      | none =>
        cases lastIndexByte (List.take e complete) 47 <;> simp [bytes_beq]
      | some i =>
        simp only [Option.elim_some]
        cases lastIndexByte (List.take e complete) 47 <;> split <;> simp_all [bytes_beq]
    · simp [hb]


theorem funcFinish_error {complete : Bytes} {endPkg : Option Nat} {e : FErr}
    (h : funcFinish complete endPkg = .error e) : e = .slice := by
  cases endPkg with
  | none => simp [funcFinish] at h
  | some i =>
    by_cases hb : i + 1 ≤ complete.length
    · simp [funcFinish, hb] at h
    · simp [funcFinish, hb] at h
      exact h.symm

theorem funcFinishOn_none {f : Func} {complete : Bytes} {endPkg : Option Nat}
    (h : funcFinishOn f complete endPkg = none) : funcFinish complete endPkg = .error .slice := by
  cases endPkg with
  | none => simp [funcFinishOn] at h
  | some e =>
    by_cases hb : e + 1 ≤ complete.length
    · simp [funcFinishOn, hb] at h
    · simp [funcFinish, hb]

/-- on a fresh receiver `funcInitOn` is the model -/
theorem funcInitOn_fresh (f : Func) (hf : Fresh f) (raw : Bytes) :
    funcInitOn f raw = initResult f (funcInit raw) := by
  rw [funcInit_stages]
  unfold funcInitOn
  cases h : endPkgOf raw with
  | error e => cases endPkgOf_error h; rfl
  | ok ep =>
    cases hq : pathUnescape raw with
    | none => rfl
    | some c =>
      simp only [funcFinishOn_fresh f hf]
      cases hF : funcFinish c (endPkgAdj raw ep) with
      | ok g => rfl
      | error e => cases funcFinish_error hF; rfl

/-- `Init` never panics, whatever the receiver (`funcInit_ne_slice`: since fix F3 no slice
expression of `Init` can be out of range) -/
theorem funcInitOn_ne_none (f : Func) (raw : Bytes) : funcInitOn f raw ≠ none := by
  intro h
  apply funcInit_ne_slice raw
  rw [funcInit_stages]
  unfold funcInitOn at h
  cases he : endPkgOf raw with
  | error e => simp [he] at h
  | ok ep =>
    simp only [he] at h ⊢
    cases hq : pathUnescape raw with
    | none => simp [hq] at h
    | some c =>
      simp only [hq, Option.map_eq_none_iff] at h ⊢
      exact funcFinishOn_none h

/-! ### the tie theorems -/

/-- the generated equation holds of the model environment (all inputs) -/
theorem tie_Func_Init (f : Func) (raw : Bytes) :
    TrF.Func_Init modelEnv f raw = modelEnv.Func_Init f raw :=
  Func_Init_eq modelEnv f raw

/-- translated `Init` = the model `funcInit`, on every fresh receiver and every raw name: the
receiver afterwards is the model's `Func`, a returned error is the model's `FErr` (`initResult`,
`toFErr`), and the model's panic (`FErr.slice`) would be a panic -/
theorem tie_Func_Init_model (E : Env) (f : Func) (hf : Fresh f) (raw : Bytes) :
    TrF.Func_Init E f raw = initResult f (funcInit raw) := by
  rw [Func_Init_eq, funcInitOn_fresh f hf]

/-- the same on the zero value (`Call{}.Func`, `make([]Call, 1)[0].Func`: how context.go calls it) -/
theorem tie_Func_Init_zero (E : Env) (raw : Bytes) :
    TrF.Func_Init E {} raw = initResult {} (funcInit raw) :=
  tie_Func_Init_model E {} fresh_zero raw

/-- the translated `Init` never yields `none`: no run-time panic, for any receiver -/
theorem Func_Init_no_panic (E : Env) (f : Func) (raw : Bytes) : TrF.Func_Init E f raw ≠ none := by
  rw [Func_Init_eq]; exact funcInitOn_ne_none f raw

/-- what the caller sees on a fresh receiver: `nil` and the model's `Func`, or an error whose
kind is the model's -/
theorem Func_Init_cases (E : Env) (f : Func) (hf : Fresh f) (raw : Bytes) :
    (∃ g, funcInit raw = .ok g ∧ TrF.Func_Init E f raw = some (g, GoErr.nil)) ∨
    (∃ e g err, funcInit raw = .error e ∧ TrF.Func_Init E f raw = some (g, err) ∧ toFErr err = some e) := by
  rw [tie_Func_Init_model E f hf]
  cases h : funcInit raw with
  | ok g => exact Or.inl ⟨g, rfl, rfl⟩
  | error e =>
    cases e with
    | noDot => exact Or.inr ⟨_, _, _, rfl, rfl, toFErr_noDot⟩
    | escape => exact Or.inr ⟨_, _, _, rfl, rfl, toFErr_escape⟩
    | slice => exact absurd h (funcInit_ne_slice raw)

/-! ### parseFunc, parseFile (stack/context.go) -/

theorem goIdxI_1 {α : Type} (a b : α) (l : List α) : goIdxI (a :: b :: l) (1 : Int) = some b := rfl
theorem goIdxI_2 {α : Type} (a b c : α) (l : List α) : goIdxI (a :: b :: c :: l) (2 : Int) = some c := rfl

theorem tie_parseFile (c : Call) (line : Bytes) :
    TrF.parseFile modelEnv c line = modelEnv.parseFile c line := by
  show _ = parseFileOn c line
  unfold TrF.parseFile parseFileOn PP.parseFile reFileSubmatch
  cases hm : matchFile line with
  | none => simp
  | some m =>
    cases ha : atou m.line with
    | none => simp [goIdxI_2, goIdxI_1, goAtou, ha, errFileInt]
    | some n => simp [goIdxI_2, goIdxI_1, goAtou, ha]

theorem tie_parseFunc (c : Call) (line : Bytes) :
    TrF.parseFunc modelEnv c line = modelEnv.parseFunc c line := by
  show _ = parseFuncOn c line
  unfold TrF.parseFunc parseFuncOn reFuncSubmatch
  cases hm : matchFunc line with
  | none => simp
  | some m =>
    obtain ⟨name, args⟩ := m
    simp only [goIdxI_1, goIdxI_2, Option.bind_some, mE_Func_Init]
    cases hi : funcInitOn c.fn name with
    | none => simp
    | some r =>
      obtain ⟨f, err⟩ := r
      simp only [Option.bind_some]
      by_cases he : err = GoErr.nil
      · subst he
        cases hp : parseArgs args with
        | error e => simp [goParseArgs, hp, errOnLine]
        | ok a => simp [goParseArgs, hp]
      · simp [he]

/-- the model's error kind of an error value `parseFunc` / `parseFile` returns -/
def toErr (e : GoErr) : Option Err :=
  match e with
  | .errorf _ (.parseArgs a) _ => some (Err.ofArgErr a)
  | .errorf _ .nil _ => some .fileInt
  | e => (toFErr e).map Err.ofFErr

/-- `parseFunc` on the zero `Call` (how context.go calls it) is the model's `parseFunc`: not a
function line; or the call and no error; or the call as far as it was filled in and an error of
the model's kind -/
theorem parseFunc_zero (line : Bytes) :
    match PP.parseFunc line with
    | none => TrF.parseFunc modelEnv {} line = some ({}, (false, GoErr.nil))
    | some (c, none) => TrF.parseFunc modelEnv {} line = some (c, (true, GoErr.nil))
    | some (c, some e) => ∃ err, TrF.parseFunc modelEnv {} line = some (c, (true, err)) ∧ toErr err = some e := by
  rw [tie_parseFunc]
  show match PP.parseFunc line with
    | none => parseFuncOn {} line = _
    | some (c, none) => parseFuncOn {} line = _
    | some (c, some e) => ∃ err, parseFuncOn {} line = _ ∧ _
  unfold parseFuncOn PP.parseFunc
  cases hm : matchFunc line with
  | none => rfl
  | some m =>
    obtain ⟨name, args⟩ := m
    simp only [funcInitOn_fresh {} fresh_zero]
    cases hf : funcInit name with
    | error e =>
      cases e with
      | noDot => exact ⟨errNoDot, rfl, by decide⟩
      | escape => exact ⟨errEscape, rfl, by decide⟩
      | slice => exact absurd hf (funcInit_ne_slice name)
    | ok f =>
      simp only [initResult]
      cases hp : parseArgs args with
      | error e => exact ⟨_, rfl, by cases e <;> rfl⟩
      | ok a => rfl

theorem parseFunc_no_panic (c : Call) (line : Bytes) : TrF.parseFunc modelEnv c line ≠ none := by
  rw [tie_parseFunc]
  show parseFuncOn c line ≠ none
  unfold parseFuncOn
  cases hm : matchFunc line with
  | none => simp
  | some m =>
    obtain ⟨name, args⟩ := m
    cases hi : funcInitOn c.fn name with
    | none => exact absurd hi (funcInitOn_ne_none _ _)
    | some r =>
      obtain ⟨f, err⟩ := r
      simp only [hi]
      by_cases he : (err != GoErr.nil) = true
      · simp [he]
      · simp only [he]
        cases parseArgs args <;> simp

/-! ### trimCurlyBrackets (stack/context.go) -/

theorem goIdxI_ofNat {α : Type} (s : List α) (i : Nat) : goIdxI s (Int.ofNat i) = s[i]? := by
  unfold goIdxI
  rw [if_pos (by simp only [Int.ofNat_eq_natCast]; omega)]
  rfl

theorem loop1_trim (E : Env) (s : Bytes) (j : Int) : ∀ (xs : List Nat) (k i : Nat), i + xs.length = s.length →
    forRangeB (trimCurlyBrackets_loop1 E s j) xs k (Int.ofNat i) =
      some (Step.cont (Int.ofNat (i + ((s.drop i).takeWhile (· == 123)).length)))
  | [], k, i, h => by
    have : s.drop i = [] := List.drop_eq_nil_iff.mpr (by simp at h; omega)
    simp [this]
  | x :: xs, k, i, h => by
    have hi : i < s.length := by simp at h; omega
    rw [forRangeB_cons]
    simp only [trimCurlyBrackets_loop1, goIdxI_ofNat, List.getElem?_eq_getElem hi, Option.bind_some]
    have ht : (s.drop i).takeWhile (· == 123) =
        if s[i] == 123 then s[i] :: (s.drop (i + 1)).takeWhile (· == 123) else [] := by
      rw [List.drop_eq_getElem_cons hi, List.takeWhile_cons]
    rw [ht]
    by_cases hc : s[i] = 123
    · have ih := loop1_trim E s j xs (k + 1) (i + 1) (by simp at h ⊢; omega)
      simp only [hc, bne_self_eq_false, Bool.false_eq_true, if_false, ofNat_succ, ih, beq_self_eq_true, if_true,
        List.length_cons]
      congr 3; omega
    · have hb : (s[i] != 123) = true := by simpa using hc
      have hb' : (s[i] == 123) = false := by simpa using hc
      simp only [hb, if_true, hb', Bool.false_eq_true, if_false, List.length_nil, Nat.add_zero]

theorem loop2_trim (E : Env) (s : Bytes) (i0 : Int) : ∀ (xs : List Nat) (k i j : Nat), i + xs.length = j → j ≤ s.length →
    forRangeB (trimCurlyBrackets_loop2 E s i0) xs k (Int.ofNat j) =
      some (Step.cont (Int.ofNat (j - ((((s.take j).drop i).reverse).takeWhile (· == 125)).length)))
  | [], k, i, j, h, hj => by
    have : (s.take j).drop i = [] := List.drop_eq_nil_iff.mpr (by simp at h ⊢; omega)
    simp [this]
  | x :: xs, k, i, j, h, hj => by
    have hji : i < j := by simp at h; omega
    rw [forRangeB_cons]
    have e1 : (Int.ofNat j - 1 : Int) = Int.ofNat (j - 1) := by simp only [Int.ofNat_eq_natCast]; omega
    have hj1 : j - 1 < s.length := by omega
    simp only [trimCurlyBrackets_loop2, e1, goIdxI_ofNat, List.getElem?_eq_getElem hj1, Option.bind_some]
    have hseg : (s.take j).drop i = (s.take (j - 1)).drop i ++ [s[j - 1]] := by
      have : s.take j = s.take (j - 1) ++ [s[j - 1]] := by
        have := List.take_succ_eq_append_getElem hj1
        rwa [show j - 1 + 1 = j by omega] at this
      rw [this, List.drop_append_of_le_length (by simp; omega)]
    rw [hseg, List.reverse_append, List.reverse_singleton, List.singleton_append, List.takeWhile_cons]
    by_cases hc : s[j - 1] = 125
    · have ih := loop2_trim E s i0 xs (k + 1) i (j - 1) (by simp at h ⊢; omega) (by omega)
      simp only [hc, bne_self_eq_false, Bool.false_eq_true, if_false, ih, beq_self_eq_true, if_true,
        List.length_cons]
      congr 3; omega
    · have hb : (s[j - 1] != 125) = true := by simpa using hc
      have hb' : (s[j - 1] == 125) = false := by simpa using hc
      simp only [hb, if_true, hb', Bool.false_eq_true, if_false, List.length_nil, Nat.sub_zero]

theorem tie_trimCurlyBrackets (s : Bytes) :
    TrF.trimCurlyBrackets modelEnv s = modelEnv.trimCurlyBrackets s := by
  show _ = some (trimResult (PP.trimCurlyBrackets s))
  unfold TrF.trimCurlyBrackets
  have e0 : ((ilen s - (0 : Int)).toNat) = s.length := by simp [ilen]
  simp only [e0]
  rw [show (0 : Int) = Int.ofNat 0 from rfl,
    loop1_trim modelEnv s (ilen s) (List.range' 0 s.length) 0 0 (by simp), after_cont]
  simp only [Nat.zero_add, List.drop_zero]
  generalize hi : (s.takeWhile (· == 123)).length = i
  have hil : i ≤ s.length := by rw [← hi]; exact (List.takeWhile_prefix _).length_le
  have e1 : (ilen s - Int.ofNat i).toNat = s.length - i := by
    simp only [ilen, Int.ofNat_eq_natCast]; omega
  rw [e1, show ilen s = Int.ofNat s.length from rfl,
    loop2_trim modelEnv s (Int.ofNat i) (List.range' 0 (s.length - i)) 0 i s.length (by simp; omega) (Nat.le_refl _),
    after_cont]
  simp only [List.take_length]
  generalize hk : ((s.drop i).reverse.takeWhile (· == 125)).length = k
  have hkl : k ≤ s.length - i := by
    rw [← hk]
    have := (List.takeWhile_prefix (l := (s.drop i).reverse) (· == 125)).length_le
    simpa using this
  rw [goReSliceI, goSliceI_ofNat s i (s.length - k) (by omega) (by omega)]
  simp only [Option.bind_some, PP.trimCurlyBrackets, trimResult, hi, hk]
  rw [List.drop_take, List.length_drop]
  congr 3
  · congr 1; omega
  · simp only [Int.ofNat_eq_natCast]; omega

/-- no `none`: neither a panic nor a reslice beyond the length (see `goReSliceI`) -/
theorem trimCurlyBrackets_no_panic (s : Bytes) : TrF.trimCurlyBrackets modelEnv s ≠ none := by
  rw [tie_trimCurlyBrackets]; simp

theorem parseFile_no_panic (c : Call) (line : Bytes) : TrF.parseFile modelEnv c line ≠ none := by
  rw [tie_parseFile]
  show parseFileOn c line ≠ none
  unfold parseFileOn
  split <;> simp

theorem toErr_fileInt (line : Bytes) : toErr (errFileInt line) = some .fileInt := rfl

end PP.TrF

#print axioms PP.TrF.tie_Func_Init
#print axioms PP.TrF.tie_parseFunc
#print axioms PP.TrF.tie_parseFile
#print axioms PP.TrF.parseFunc_zero
#print axioms PP.TrF.parseFunc_no_panic
#print axioms PP.TrF.parseFile_no_panic
#print axioms PP.TrF.tie_trimCurlyBrackets
#print axioms PP.TrF.trimCurlyBrackets_no_panic
#print axioms PP.TrF.Func_Init_eq
#print axioms PP.TrF.tie_Func_Init_model
#print axioms PP.TrF.tie_Func_Init_zero
#print axioms PP.TrF.Func_Init_no_panic
#print axioms PP.TrF.Func_Init_cases
