import PP.TranslatedArgs
/-
Tie A, translated part: `parseArgs` (stack/context.go), translated from the Go source on every
run (`PP/TranslatedArgs.lean`, by extract/translate_args.go) and proved equal to the
hand-written model `PP.parseArgs` (`PP/Model/Args.lean`).

The model keeps a zipper (`List Frame`, innermost open aggregate first); the Go code mutates the
root `args` in place through a stack of pointers (here: paths).  `enc` encodes a model state as
the Go state `(args, stack, depth)`.
-/
namespace PP.TrAr
open PP PP.Go PP.Go.Ar

mutual
/-- the model's `Arg` as the Go struct -/
def embArg : Arg → GArg
  | .scalar n v p o i => { name := n, value := v, isPtr := p, isOffsetTooLarge := o, isInaccurate := i }
  | .agg fs e => { isAggregate := true, fields := { values := embArgL fs, elided := e } }
def embArgL : List Arg → List GArg
  | [] => []
  | a :: as => embArg a :: embArgL as
end

def embArgs (a : Args) : GArgs := { values := embArgL a.values, processed := a.processed, elided := a.elided }

/-- a model result as the Go result pair `(Args, error)`; on an error Go returns `Args{}` -/
def liftR : Except ArgErr Args → Option (GArgs × Option ArgErr)
  | .ok a => some (embArgs a, none)
  | .error e => some ({}, some e)

def trimResult (r : Nat × Bytes × Nat) : Int × Bytes × Int := (Int.ofNat r.1, r.2.1, Int.ofNat r.2.2)

def modelEnv : Env where
  trimCurlyBrackets s := some (trimResult (PP.trimCurlyBrackets s))   -- tied in group Func: TrF.tie_trimCurlyBrackets
  parseArgs line := liftR (PP.parseArgs line)

@[simp] theorem mE_trimCurlyBrackets (s : Bytes) :
    modelEnv.trimCurlyBrackets s = some (trimResult (PP.trimCurlyBrackets s)) := rfl
@[simp] theorem mE_parseArgs (line : Bytes) : modelEnv.parseArgs line = liftR (PP.parseArgs line) := rfl

/-! ### the embedding -/

theorem embArgL_cons (a : Arg) (as : List Arg) : embArgL (a :: as) = embArg a :: embArgL as := by
  rw [embArgL]

theorem embArgL_nil : embArgL [] = [] := by rw [embArgL]

theorem embArgL_append (a b : List Arg) : embArgL (a ++ b) = embArgL a ++ embArgL b := by
  induction a with
  | nil => rw [embArgL_nil]; rfl
  | cons x xs ih => rw [List.cons_append, embArgL_cons, embArgL_cons, ih, List.cons_append]

theorem embArgL_length (a : List Arg) : (embArgL a).length = a.length := by
  induction a with
  | nil => rw [embArgL_nil]; rfl
  | cons x xs ih => rw [embArgL_cons, List.length_cons, List.length_cons, ih]

/-! ### the encoding of a model state as a Go state -/

def gOf (f : Frame) : GArgs := { values := embArgL f.1, elided := f.2 }
def aggOf (g : GArgs) : GArg := { isAggregate := true, fields := g }

theorem embArg_agg (vs : List Arg) (e : Bool) : embArg (.agg vs e) = aggOf (gOf (vs, e)) := by
  rw [embArg]; rfl

/-- plug the innermost Args `g` into its parents `t` (innermost parent first) -/
def gplug (g : GArgs) : List Frame → GArgs
  | [] => g
  | (pvs, pe) :: t => gplug { values := embArgL pvs ++ [aggOf g], elided := pe } t

/-- path from the root to the innermost open Args -/
def pathOf : List Frame → List Nat
  | [] => []
  | (pvs, _) :: t => pathOf t ++ [pvs.length]

/-- the pointer stack `[6]*Args`: entries `0..depth` point along the path, the others are nil -/
def mkStack (p : List Nat) : List Ptr :=
  (List.range 6).map fun j => if j ≤ p.length then some (p.take j) else none

def enc : List Frame → GArgs × List Ptr × Int
  | [] => ({}, [], 0)
  | top :: t => (gplug (gOf top) t, mkStack (pathOf t), Int.ofNat t.length)

theorem pathOf_length (t : List Frame) : (pathOf t).length = t.length := by
  induction t with
  | nil => rfl
  | cons f t ih =>
    obtain ⟨pvs, pe⟩ := f
    rw [pathOf, List.length_append, ih]; rfl

/-! ### paths -/

theorem modArgs_append (root : GArgs) (p q : List Nat) (f : GArgs → Option GArgs) :
    modArgs root (p ++ q) f = modArgs root p (fun a => modArgs a q f) := by
  induction p generalizing root with
  | nil => rfl
  | cons i p ih =>
    rw [List.cons_append, modArgs, modArgs]
    cases root.values[i]? with
    | none => rfl
    | some a => simp only []; rw [ih]

theorem getArgs_append (root : GArgs) (p q : List Nat) :
    getArgs root (p ++ q) = (getArgs root p).bind (fun a => getArgs a q) := by
  induction p generalizing root with
  | nil => rfl
  | cons i p ih =>
    rw [List.cons_append, getArgs, getArgs]
    cases root.values[i]? with
    | none => rfl
    | some a => simp only []; rw [ih]

theorem set_snoc {α : Type} (l : List α) (a b : α) : (l ++ [a]).set l.length b = l ++ [b] := by
  rw [List.set_append_right _ _ (Nat.le_refl _), Nat.sub_self]; rfl

theorem modArgs_snoc (l : List GArg) (g : GArgs) (pr : List Bytes) (pe : Bool) (f : GArgs → Option GArgs) :
    modArgs { values := l ++ [aggOf g], processed := pr, elided := pe } [l.length] f =
      match f g with
      | none => none
      | some g' => some { values := l ++ [aggOf g'], processed := pr, elided := pe } := by
  rw [modArgs]
  have h : (l ++ [aggOf g])[l.length]? = some (aggOf g) := by
    rw [List.getElem?_append_right (Nat.le_refl _), Nat.sub_self]; rfl
  simp only [h, modArgs]
  have hg : (aggOf g).fields = g := rfl
  rw [hg]
  cases f g with
  | none => rfl
  | some g' =>
    simp only [set_snoc]
    rfl

theorem getArgs_snoc (l : List GArg) (g : GArgs) (pr : List Bytes) (pe : Bool) :
    getArgs { values := l ++ [aggOf g], processed := pr, elided := pe } [l.length] = some g := by
  rw [getArgs]
  have h : (l ++ [aggOf g])[l.length]? = some (aggOf g) := by
    rw [List.getElem?_append_right (Nat.le_refl _), Nat.sub_self]; rfl
  simp only [h, getArgs]
  rfl

theorem modArgs_gplug (g : GArgs) (t : List Frame) (f : GArgs → Option GArgs) :
    modArgs (gplug g t) (pathOf t) f =
      match f g with
      | none => none
      | some g' => some (gplug g' t) := by
  induction t generalizing g f with
  | nil =>
    show f g = _
    cases f g <;> rfl
  | cons fr t ih =>
    obtain ⟨pvs, pe⟩ := fr
    rw [gplug, pathOf, modArgs_append, ih, ← embArgL_length pvs, modArgs_snoc]
    cases f g <;> rfl

theorem getArgs_gplug (g : GArgs) (t : List Frame) : getArgs (gplug g t) (pathOf t) = some g := by
  induction t generalizing g with
  | nil => rfl
  | cons fr t ih =>
    obtain ⟨pvs, pe⟩ := fr
    rw [gplug, pathOf, getArgs_append, ih, Option.bind_some, ← embArgL_length pvs, getArgs_snoc]

/-- closing an aggregate does not change the plugged value -/
theorem gplug_close (vs pvs : List Arg) (e pe : Bool) (t : List Frame) :
    gplug (gOf (vs, e)) ((pvs, pe) :: t) = gplug (gOf (pvs ++ [Arg.agg vs e], pe)) t := by
  rw [gplug, gOf, gOf, embArgL_append, embArgL_cons, embArgL_nil, embArg_agg]; rfl

/-! ### the pointer stack -/

theorem mkStack_length (p : List Nat) : (mkStack p).length = 6 := by
  unfold mkStack; rw [List.length_map, List.length_range]

theorem mkStack_getElem? (p : List Nat) (j : Nat) :
    (mkStack p)[j]? = if j < 6 then some (if j ≤ p.length then some (p.take j) else none) else none := by
  unfold mkStack
  rw [List.getElem?_map]
  by_cases h : j < 6
  · rw [List.getElem?_range h, if_pos h]; rfl
  · rw [if_neg h, List.getElem?_eq_none (by rw [List.length_range]; omega)]; rfl

theorem arrGet_mkStack (p : List Nat) (h : p.length ≤ 5) :
    arrGet (mkStack p) (Int.ofNat p.length) = some (some p) := by
  unfold arrGet
  have h0 : (0 : Int) ≤ Int.ofNat p.length := Int.natCast_nonneg _
  rw [if_pos h0]
  show (mkStack p)[p.length]? = _
  rw [mkStack_getElem?, if_pos (by omega), if_pos (Nat.le_refl _), List.take_length]

theorem arrGet_enc (t : List Frame) (h : t.length ≤ 5) :
    arrGet (mkStack (pathOf t)) (Int.ofNat t.length) = some (some (pathOf t)) := by
  have := arrGet_mkStack (pathOf t) (by rw [pathOf_length]; exact h)
  rw [pathOf_length] at this; exact this

theorem live_ok (p : List Nat) :
    ((mkStack p).map Ptr.depth ++ [Ptr.depth (some p)]).all (fun d => decide (d ≤ p.length)) = true := by
  rw [List.all_eq_true]
  intro d hd
  rw [List.mem_append] at hd
  rcases hd with hd | hd
  · rw [List.mem_map] at hd
    obtain ⟨q, hq, rfl⟩ := hd
    unfold mkStack at hq
    rw [List.mem_map] at hq
    obtain ⟨j, _, rfl⟩ := hq
    by_cases hj : j ≤ p.length
    · rw [if_pos hj]
      apply decide_eq_true
      simp only [Ptr.depth, List.length_take]; omega
    · rw [if_neg hj]
      apply decide_eq_true
      simp only [Ptr.depth]; omega
  · rw [List.mem_singleton] at hd
    subst hd
    apply decide_eq_true
    simp only [Ptr.depth]; omega

theorem arrSet_ofNat {α : Type} (a : List α) (n : Nat) (v : α) (h : n < a.length) :
    arrSet a (Int.ofNat n) v = some (a.set n v) := by
  unfold arrSet
  have : (0 : Int) ≤ Int.ofNat n ∧ (Int.ofNat n).toNat < a.length := ⟨Int.natCast_nonneg _, h⟩
  rw [if_pos this]; rfl

theorem mkStack_push (p : List Nat) (x : Nat) (h : p.length + 1 < 6) :
    (mkStack p).set (p.length + 1) (some (p ++ [x])) = mkStack (p ++ [x]) := by
  apply List.ext_getElem?
  intro j
  rw [List.getElem?_set, mkStack_getElem?, mkStack_getElem?, mkStack_length, List.length_append,
    List.length_singleton]
  by_cases h1 : p.length + 1 = j
  · subst h1
    rw [if_pos rfl, if_pos h, if_pos h, if_pos (Nat.le_refl _)]
    rw [← List.length_singleton (a := x), ← List.length_append, List.take_length]
  · rw [if_neg h1]
    by_cases h2 : j < 6
    · rw [if_pos h2, if_pos h2]
      by_cases h3 : j ≤ p.length
      · rw [if_pos h3, if_pos (by omega), List.take_append_of_le_length h3]
      · rw [if_neg h3, if_neg (by omega)]
    · rw [if_neg h2, if_neg h2]

theorem mkStack_pop (p : List Nat) (x : Nat) (h : p.length + 1 < 6) :
    (mkStack (p ++ [x])).set (p.length + 1) none = mkStack p := by
  apply List.ext_getElem?
  intro j
  rw [List.getElem?_set, mkStack_getElem?, mkStack_getElem?, mkStack_length, List.length_append,
    List.length_singleton]
  by_cases h1 : p.length + 1 = j
  · subst h1
    rw [if_pos rfl, if_pos h, if_pos h, if_neg (by omega)]
  · rw [if_neg h1]
    by_cases h2 : j < 6
    · rw [if_pos h2, if_pos h2]
      by_cases h3 : j ≤ p.length
      · rw [if_pos h3, if_pos (by omega), List.take_append_of_le_length h3]
      · rw [if_neg h3, if_neg (by omega)]
    · rw [if_neg h2, if_neg h2]

/-! ### the pointer operations on an encoded state -/

theorem ptrAppendValues_gplug (g : GArgs) (t : List Frame) (x : GArg) :
    ptrAppendValues (gplug g t) ((mkStack (pathOf t)).map Ptr.depth ++ [Ptr.depth (some (pathOf t))])
      (some (pathOf t)) x = some (gplug { g with values := g.values ++ [x] } t) := by
  unfold ptrAppendValues
  simp only []
  rw [if_pos (live_ok _), modArgs_gplug]

theorem ptrModArgs_gplug (g : GArgs) (t : List Frame) (f : GArgs → GArgs) :
    ptrModArgs (gplug g t) (some (pathOf t)) f = some (gplug (f g) t) := by
  unfold ptrModArgs
  simp only []
  rw [modArgs_gplug]

theorem ptrLenValues_gplug (g : GArgs) (t : List Frame) :
    ptrLenValues (gplug g t) (some (pathOf t)) = some (ilen g.values) := by
  unfold ptrLenValues
  simp only []
  rw [getArgs_gplug]; rfl

theorem ptrAddrValuesIdx_gplug (g : GArgs) (t : List Frame) (n : Nat) (h : n < g.values.length) :
    ptrAddrValuesIdx (gplug g t) (some (pathOf t)) (Int.ofNat n) = some (some (pathOf t, n)) := by
  unfold ptrAddrValuesIdx
  simp only []
  rw [getArgs_gplug]
  have : (0 : Int) ≤ Int.ofNat n ∧ (Int.ofNat n).toNat < g.values.length := ⟨Int.natCast_nonneg _, h⟩
  simp only []
  rw [if_pos this]; rfl

theorem pargMod_gplug (g : GArgs) (t : List Frame) (i : Nat) (f : GArg → GArg) :
    pargMod (gplug g t) (some (pathOf t, i)) f =
      match g.values[i]? with
      | none => none
      | some x => some (gplug { g with values := g.values.set i (f x) } t) := by
  unfold pargMod
  simp only []
  rw [modArgs_gplug]
  cases g.values[i]? <;> rfl

/-! ### counted loops -/

theorem forCount_zero {σ ρ : Type} (body : Int → σ → Option (Step σ ρ)) (st : σ) :
    forCount body (Int.ofNat 0) st = some (.cont st) := rfl

theorem forCount_succ {σ ρ : Type} (body : Int → σ → Option (Step σ ρ))
    (hb : ∀ i st, body i st = body 0 st) (n : Nat) (st : σ) :
    forCount body (Int.ofNat (n + 1)) st =
      match body 0 st with
      | none => none
      | some (.ret r) => some (.ret r)
      | some (.cont st') => forCount body (Int.ofNat n) st' := by
  unfold forCount
  show forRange _ (List.replicate (n + 1) ()) 0 st = _
  rw [List.replicate_succ, forRange_cons]
  show (match body 0 st with
      | none => none
      | some (Step.ret r) => some (Step.ret r)
      | some (Step.cont st') => forRange (fun i (_ : Unit) s => body (Int.ofNat i) s) (List.replicate n ()) (0 + 1) st') = _
  cases body 0 st with
  | none => rfl
  | some r =>
    cases r with
    | ret r => rfl
    | cont st' =>
      show forRange (fun i (_ : Unit) s => body (Int.ofNat i) s) (List.replicate n ()) (0 + 1) st' =
        forRange (fun i (_ : Unit) s => body (Int.ofNat i) s) (List.replicate n ()) 0 st'
      rw [forRange_shift]
      have : (fun j (_ : Unit) s => body (Int.ofNat (j + 1)) s) = (fun i (_ : Unit) s => body (Int.ofNat i) s) := by
        funext j _ s
        rw [hb, hb (Int.ofNat j)]
      rw [this]

theorem enc_cons (top : Frame) (t : List Frame) :
    enc (top :: t) = (gplug (gOf top) t, mkStack (pathOf t), Int.ofNat t.length) := rfl

/-! ### the opening loop -/

theorem getElem?_snoc {α : Type} (l : List α) (a : α) : (l ++ [a])[l.length]? = some a := by
  rw [List.getElem?_append_right (Nat.le_refl _), Nat.sub_self]; rfl

theorem open_args (g : GArgs) (t : List Frame) :
    pargMod (gplug { g with values := g.values ++ [{}] } t) (some (pathOf t, g.values.length))
      (fun x => { x with isAggregate := true }) =
      some (gplug { g with values := g.values ++ [aggOf {}] } t) := by
  rw [pargMod_gplug]
  simp only [getElem?_snoc, set_snoc]
  rfl

theorem arrSet_push_enc (t : List Frame) (k : Nat) (h : t.length + 1 < 6) :
    arrSet (mkStack (pathOf t)) (Int.ofNat t.length + 1) (some (pathOf t ++ [k])) =
      some (mkStack (pathOf t ++ [k])) := by
  show arrSet _ (Int.ofNat (t.length + 1)) _ = _
  rw [arrSet_ofNat _ _ _ (by rw [mkStack_length]; omega)]
  have := mkStack_push (pathOf t) k (by rw [pathOf_length]; omega)
  rw [pathOf_length] at this
  rw [this]

theorem gOf_nil : gOf ([], false) = {} := by
  unfold gOf; simp only [embArgL_nil]

theorem ilen_snoc_sub {α : Type} (l : List α) (x : α) : ilen (l ++ [x]) - (1 : Int) = Int.ofNat l.length := by
  simp only [ilen, List.length_append, List.length_singleton, Int.ofNat_eq_natCast]; omega

theorem loop2_step (line s : Bytes) (o : Int) (a : Bytes) (c i : Int) (top : Frame) (t : List Frame)
    (h : t.length + 1 ≤ 6) :
    parseArgs_loop2 modelEnv line s o a c i (enc (top :: t)) =
      if t.length + 1 ≥ 6 then some (.ret ({}, some ArgErr.depth))
      else some (.cont (enc (([], false) :: top :: t))) := by
  obtain ⟨vs, e⟩ := top
  unfold parseArgs_loop2
  rw [enc_cons]
  simp only []
  rw [arrGet_enc t (by omega), Option.bind_some, ptrAppendValues_gplug, Option.bind_some,
    ptrLenValues_gplug, Option.bind_some]
  simp only []
  rw [ilen_snoc_sub, ptrAddrValuesIdx_gplug _ _ _ (by simp only [List.length_append, List.length_singleton]; omega),
    Option.bind_some, open_args, Option.bind_some]
  by_cases hd : t.length + 1 ≥ 6
  · rw [if_pos hd, if_pos (by apply decide_eq_true; simp only [Int.ofNat_eq_natCast]; omega)]
  · rw [if_neg hd, if_neg (by simp only [decide_eq_true_eq, Int.ofNat_eq_natCast]; omega)]
    simp only [pargAddrFields, Option.bind_some]
    rw [arrSet_push_enc t _ (by omega), Option.bind_some, enc_cons, gplug, gOf_nil]
    have hv : (gOf (vs, e)).values.length = vs.length := embArgL_length vs
    rw [hv]
    rfl

theorem loop2_const (line s : Bytes) (o : Int) (a : Bytes) (c : Int) (i : Int) (st : GArgs × List Ptr × Int) :
    parseArgs_loop2 modelEnv line s o a c i st = parseArgs_loop2 modelEnv line s o a c 0 st := rfl

theorem openN_zero (st : List Frame) : argItem.openN 0 st = .ok st := by rw [argItem.openN]

theorem openN_succ (n : Nat) (st : List Frame) :
    argItem.openN (n + 1) st =
      if st.length ≥ 6 then .error .depth else argItem.openN n (([], false) :: st) := by
  rw [argItem.openN]; rfl

theorem open_loop (line s : Bytes) (o : Int) (a : Bytes) (c : Int) (n : Nat) (st : List Frame)
    (h1 : 0 < st.length) (h2 : st.length ≤ 6) :
    forCount (parseArgs_loop2 modelEnv line s o a c) (Int.ofNat n) (enc st) =
      match argItem.openN n st with
      | .ok st' => some (.cont (enc st'))
      | .error e => some (.ret ({}, some e)) := by
  induction n generalizing st with
  | zero => rw [openN_zero]; rfl
  | succ n ih =>
    rw [forCount_succ _ (loop2_const line s o a c), openN_succ]
    cases st with
    | nil => exact absurd h1 (Nat.lt_irrefl _)
    | cons top t =>
      rw [loop2_step _ _ _ _ _ _ _ _ h2, List.length_cons]
      by_cases hd : t.length + 1 ≥ 6
      · rw [if_pos hd, if_pos hd]
      · rw [if_neg hd, if_neg hd]
        exact ih (([], false) :: top :: t) (by simp only [List.length_cons]; omega)
          (by simp only [List.length_cons] at hd ⊢; omega)

theorem openN_inv (n : Nat) (st st' : List Frame) (h1 : 0 < st.length) (h2 : st.length ≤ 6)
    (h : argItem.openN n st = .ok st') : 0 < st'.length ∧ st'.length ≤ 6 := by
  induction n generalizing st with
  | zero => rw [openN_zero] at h; cases h; exact ⟨h1, h2⟩
  | succ n ih =>
    rw [openN_succ] at h
    by_cases hd : st.length ≥ 6
    · rw [if_pos hd] at h; cases h
    · rw [if_neg hd] at h
      exact ih (([], false) :: st) (by simp only [List.length_cons]; omega)
        (by simp only [List.length_cons]; omega) h

/-! ### the closing loop -/

theorem loop3_const (line : Bytes) (g : GArgs) (s : Bytes) (o : Int) (a : Bytes) (c : Int) (i : Int) (st : List Ptr × Int) :
    parseArgs_loop3 modelEnv line g s o a c i st = parseArgs_loop3 modelEnv line g s o a c 0 st := rfl

theorem closeN_zero (st : List Frame) : argItem.closeN 0 st = .ok st := by rw [argItem.closeN]

theorem closeN_succ2 (n : Nat) (vs pvs : List Arg) (e pe : Bool) (t : List Frame) :
    argItem.closeN (n + 1) ((vs, e) :: (pvs, pe) :: t) =
      argItem.closeN n ((pvs ++ [Arg.agg vs e], pe) :: t) := by
  rw [argItem.closeN]

theorem closeN_succ1 (n : Nat) (top : Frame) : argItem.closeN (n + 1) [top] = .error .close := by
  rw [argItem.closeN]
  intro _ _ _ _ _ h; cases h

theorem loop3_step2 (line : Bytes) (g : GArgs) (s : Bytes) (o : Int) (a : Bytes) (c i : Int)
    (pvs : List Arg) (pe : Bool) (t : List Frame) (h : t.length + 1 < 6) :
    parseArgs_loop3 modelEnv line g s o a c i (mkStack (pathOf ((pvs, pe) :: t)), Int.ofNat (t.length + 1)) =
      some (.cont (mkStack (pathOf t), Int.ofNat t.length)) := by
  unfold parseArgs_loop3
  simp only []
  rw [arrSet_ofNat _ _ _ (by rw [mkStack_length]; omega), Option.bind_some]
  have := mkStack_pop (pathOf t) pvs.length (by rw [pathOf_length]; omega)
  rw [pathOf_length] at this
  rw [pathOf, this, if_neg (by simp only [decide_eq_true_eq, Int.ofNat_eq_natCast]; omega)]
  have : Int.ofNat (t.length + 1) - 1 = Int.ofNat t.length := by
    simp only [Int.ofNat_eq_natCast]; omega
  rw [this]

theorem loop3_step1 (line : Bytes) (g : GArgs) (s : Bytes) (o : Int) (a : Bytes) (c i : Int) :
    parseArgs_loop3 modelEnv line g s o a c i (mkStack (pathOf []), Int.ofNat 0) =
      some (.ret ({}, some ArgErr.close)) := rfl

theorem close_loop (line : Bytes) (g : GArgs) (s : Bytes) (o : Int) (a : Bytes) (c : Int) (n : Nat)
    (top : Frame) (t : List Frame) (h2 : t.length + 1 ≤ 6) :
    forCount (parseArgs_loop3 modelEnv line g s o a c) (Int.ofNat n) (mkStack (pathOf t), Int.ofNat t.length) =
      match argItem.closeN n (top :: t) with
      | .ok st' => some (.cont (enc st').2)
      | .error e => some (.ret ({}, some e)) := by
  induction n generalizing top t with
  | zero => rw [closeN_zero]; rfl
  | succ n ih =>
    rw [forCount_succ _ (loop3_const line g s o a c)]
    obtain ⟨vs, e⟩ := top
    cases t with
    | nil => rw [closeN_succ1]; rfl
    | cons p t =>
      obtain ⟨pvs, pe⟩ := p
      rw [closeN_succ2, List.length_cons, loop3_step2 _ _ _ _ _ _ _ _ _ _ (by simp only [List.length_cons] at h2; omega)]
      exact ih _ t (by simp only [List.length_cons] at h2; omega)

theorem closeN_inv (n : Nat) (top : Frame) (t : List Frame) (st' : List Frame)
    (h2 : t.length + 1 ≤ 6) (h : argItem.closeN n (top :: t) = .ok st') :
    0 < st'.length ∧ st'.length ≤ 6 ∧ (enc st').1 = gplug (gOf top) t := by
  induction n generalizing top t with
  | zero => rw [closeN_zero] at h; cases h; exact ⟨Nat.succ_pos _, h2, rfl⟩
  | succ n ih =>
    obtain ⟨vs, e⟩ := top
    cases t with
    | nil => rw [closeN_succ1] at h; cases h
    | cons p t =>
      obtain ⟨pvs, pe⟩ := p
      rw [closeN_succ2] at h
      rw [gplug_close]
      exact ih _ t (by simp only [List.length_cons] at h2; omega) h

/-! ### one item -/

/-- the value part of `argItem` -/
def midM (a : Bytes) (st : List Frame) : Except ArgErr (List Frame) :=
  if a.length > 0 then
    if a == Extracted.threeDots then
      match st with
      | (vs, _) :: t => .ok ((vs, true) :: t)
      | [] => .ok st
    else if a == Extracted.underscore then .ok (pushVal (.scalar [] 0 false true false) st)
    else
      let inacc := Bytes.hasSuffix a Extracted.inaccurateQuestionMark
      let a' := if inacc then a.take (a.length - Extracted.inaccurateQuestionMark.length) else a
      match parseUint0 a' with
      | none => .error .int
      | some v => .ok (pushVal (.scalar [] v (isPtrValue v) false inacc) st)
  else .ok st

theorem argItem_eq (st : List Frame) (item : Bytes) :
    argItem st item =
      match argItem.openN (PP.trimCurlyBrackets item).1 st with
      | .error e => .error e
      | .ok st =>
        match midM (PP.trimCurlyBrackets item).2.1 st with
        | .error e => .error e
        | .ok st => argItem.closeN (PP.trimCurlyBrackets item).2.2 st := rfl

theorem tail_tie (line : Bytes) (s : Bytes) (o : Int) (a : Bytes) (n : Nat)
    (top' : Frame) (t : List Frame) (h2 : t.length + 1 ≤ 6)
    (K : List Ptr × Int → Option (Step (GArgs × List Ptr × Int) (GArgs × Option ArgErr)))
    (hK : ∀ stk d, K (stk, d) = some (.cont (gplug (gOf top') t, stk, d))) :
    seqS (forCount (parseArgs_loop3 modelEnv line (gplug (gOf top') t) s o a (Int.ofNat n)) (Int.ofNat n)
        (mkStack (pathOf t), Int.ofNat t.length)) K =
      match argItem.closeN n (top' :: t) with
      | .ok st' => some (.cont (enc st'))
      | .error e => some (.ret ({}, some e)) := by
  rw [close_loop line _ s o a _ n top' t h2]
  cases hC : argItem.closeN n (top' :: t) with
  | error e => rfl
  | ok st' =>
    obtain ⟨_, _, h3⟩ := closeN_inv n top' t st' h2 hC
    simp only [seqS_cont]
    show K ((enc st').2.1, (enc st').2.2) = _
    rw [hK, ← h3]

theorem ilen_pos {α : Type} (a : List α) (h : a.length > 0) : decide (ilen a > (0 : Int)) = true := by
  apply decide_eq_true
  simp only [ilen, Int.ofNat_eq_natCast]; omega

theorem ilen_not_pos {α : Type} (a : List α) (h : ¬ a.length > 0) : decide (ilen a > (0 : Int)) = false := by
  apply decide_eq_false
  simp only [ilen, Int.ofNat_eq_natCast]; omega

theorem gOf_push (vs : List Arg) (e : Bool) (x : Arg) :
    ({ gOf (vs, e) with values := (gOf (vs, e)).values ++ [embArg x] } : GArgs) = gOf (vs ++ [x], e) := by
  unfold gOf
  simp only [embArgL_append, embArgL_cons, embArgL_nil]

theorem embArg_scalar (v : Nat) (p o i : Bool) :
    embArg (.scalar [] v p o i) = { value := v, isPtr := p, isOffsetTooLarge := o, isInaccurate := i } := by
  rw [embArg]

theorem sliceTo_suffix (a suf : Bytes) (h : Bytes.hasSuffix a suf = true) :
    sliceTo a (ilen a - ilen suf) = some (a.take (a.length - suf.length)) := by
  unfold Bytes.hasSuffix at h
  rw [Bool.and_eq_true, decide_eq_true_eq] at h
  unfold sliceTo
  have hh : (0 : Int) ≤ ilen a - ilen suf ∧ (ilen a - ilen suf).toNat ≤ a.length := by
    simp only [ilen, Int.ofNat_eq_natCast]; omega
  rw [if_pos hh]
  have : (ilen a - ilen suf).toNat = a.length - suf.length := by
    simp only [ilen, Int.ofNat_eq_natCast]; omega
  rw [this]

theorem midM_empty (a : Bytes) (st : List Frame) (ha : ¬ a.length > 0) : midM a st = .ok st := by
  unfold midM; rw [if_neg ha]

theorem midM_dots (a : Bytes) (vs : List Arg) (e : Bool) (t : List Frame) (ha : a.length > 0)
    (h3 : (a == Extracted.threeDots) = true) : midM a ((vs, e) :: t) = .ok ((vs, true) :: t) := by
  unfold midM; rw [if_pos ha, if_pos h3]

theorem midM_us (a : Bytes) (vs : List Arg) (e : Bool) (t : List Frame) (ha : a.length > 0)
    (h3 : (a == Extracted.threeDots) = false) (hu : (a == Extracted.underscore) = true) :
    midM a ((vs, e) :: t) = .ok ((vs ++ [.scalar [] 0 false true false], e) :: t) := by
  unfold midM; rw [if_pos ha, if_neg (by rw [h3]; exact Bool.false_ne_true), if_pos hu]; rfl

theorem midM_val (a : Bytes) (vs : List Arg) (e : Bool) (t : List Frame) (ha : a.length > 0)
    (h3 : (a == Extracted.threeDots) = false) (hu : (a == Extracted.underscore) = false) :
    midM a ((vs, e) :: t) =
      match parseUint0 (if Bytes.hasSuffix a Extracted.inaccurateQuestionMark then
          a.take (a.length - Extracted.inaccurateQuestionMark.length) else a) with
      | none => .error .int
      | some v => .ok ((vs ++ [.scalar [] v (isPtrValue v) false
          (Bytes.hasSuffix a Extracted.inaccurateQuestionMark)], e) :: t) := by
  unfold midM
  rw [if_pos ha, if_neg (by rw [h3]; exact Bool.false_ne_true), if_neg (by rw [hu]; exact Bool.false_ne_true)]
  rfl

theorem slice_step {τ ρ : Type} (a : Bytes) (K : Bytes → Option (Step τ ρ)) :
    seqS (if Bytes.hasSuffix a Extracted.inaccurateQuestionMark = true then
        (sliceTo a (ilen a - ilen Extracted.inaccurateQuestionMark)).bind fun a => some (Step.cont a)
      else some (Step.cont a)) K =
    K (if Bytes.hasSuffix a Extracted.inaccurateQuestionMark then
        a.take (a.length - Extracted.inaccurateQuestionMark.length) else a) := by
  cases hI : Bytes.hasSuffix a Extracted.inaccurateQuestionMark with
  | true => rw [if_pos rfl, if_pos rfl, sliceTo_suffix a _ hI]; rfl
  | false => rw [if_neg Bool.false_ne_true, if_neg Bool.false_ne_true]; rfl

theorem loop1_tie (line : Bytes) (i : Nat) (s : Bytes) (st : List Frame)
    (h1 : 0 < st.length) (h2 : st.length ≤ 6) :
    parseArgs_loop1 modelEnv line i s (enc st) =
      match argItem st s with
      | .ok st' => some (.cont (enc st'))
      | .error e => some (.ret ({}, some e)) := by
  rw [argItem_eq]
  unfold parseArgs_loop1
  rw [mE_trimCurlyBrackets]
  generalize PP.trimCurlyBrackets s = r
  obtain ⟨o, a, c⟩ := r
  cases st with
  | nil => exact absurd h1 (Nat.lt_irrefl _)
  | cons top t =>
  simp only [enc_cons, trimResult, Option.bind_some]
  rw [← enc_cons, open_loop _ _ _ _ _ _ _ h1 h2]
  cases hO : argItem.openN o (top :: t) with
  | error e => rfl
  | ok st1 =>
    obtain ⟨i1, i2⟩ := openN_inv _ _ _ h1 h2 hO
    cases st1 with
    | nil => exact absurd i1 (Nat.lt_irrefl _)
    | cons top1 t1 =>
    obtain ⟨vs, e⟩ := top1
    simp only [seqS_cont, enc_cons]
    have hlen : t1.length ≤ 5 := by simp only [List.length_cons] at i2; omega
    have h2' : t1.length + 1 ≤ 6 := by omega
    by_cases ha : a.length > 0
    · rw [if_pos (ilen_pos a ha), arrGet_enc t1 hlen, Option.bind_some]
      cases h3 : (a == Extracted.threeDots) with
      | true =>
        rw [if_pos rfl, ptrModArgs_gplug, Option.bind_some]
        simp only [seqS_cont]
        rw [midM_dots a vs e t1 ha h3]
        exact tail_tie line s _ a c (vs, true) t1 h2' _ (fun _ _ => rfl)
      | false =>
        rw [if_neg Bool.false_ne_true]
        cases hu : (a == Extracted.underscore) with
        | true =>
          rw [if_pos rfl, ptrAppendValues_gplug, Option.bind_some]
          simp only [seqS_cont]
          rw [midM_us a vs e t1 ha h3 hu, ← embArg_scalar 0 false true false, gOf_push]
          exact tail_tie line s _ a c _ t1 h2' _ (fun _ _ => rfl)
        | false =>
          rw [if_neg Bool.false_ne_true, slice_step, midM_val a vs e t1 ha h3 hu]
          generalize (if Bytes.hasSuffix a Extracted.inaccurateQuestionMark then
            a.take (a.length - Extracted.inaccurateQuestionMark.length) else a) = a'
          cases hp : parseUint0 a' with
          | none => rfl
          | some v =>
            simp only []
            rw [ptrAppendValues_gplug, Option.bind_some]
            simp only [seqS_cont]
            rw [← embArg_scalar v _ false _, gOf_push]
            exact tail_tie line s _ a' c _ t1 h2' _ (fun _ _ => rfl)
    · rw [midM_empty a _ ha]
      have hn : ¬ (decide (ilen a > (0 : Int)) = true) := by
        rw [ilen_not_pos a ha]; exact Bool.false_ne_true
      rw [if_neg hn]
      simp only [seqS_cont]
      exact tail_tie line s _ a c (vs, e) t1 h2' _ (fun _ _ => rfl)

theorem midM_len (a : Bytes) (vs : List Arg) (e : Bool) (t : List Frame) (st' : List Frame)
    (h : midM a ((vs, e) :: t) = .ok st') : st'.length = t.length + 1 := by
  by_cases ha : a.length > 0
  · cases h3 : (a == Extracted.threeDots) with
    | true => rw [midM_dots a vs e t ha h3] at h; cases h; rfl
    | false =>
      cases hu : (a == Extracted.underscore) with
      | true => rw [midM_us a vs e t ha h3 hu] at h; cases h; rfl
      | false =>
        rw [midM_val a vs e t ha h3 hu] at h
        split at h
        · cases h
        · cases h; rfl
  · rw [midM_empty a _ ha] at h; cases h; rfl

theorem argItem_inv (st : List Frame) (item : Bytes) (st' : List Frame)
    (h1 : 0 < st.length) (h2 : st.length ≤ 6) (h : argItem st item = .ok st') :
    0 < st'.length ∧ st'.length ≤ 6 := by
  rw [argItem_eq] at h
  cases hO : argItem.openN (PP.trimCurlyBrackets item).1 st with
  | error e => rw [hO] at h; cases h
  | ok st1 =>
    rw [hO] at h
    simp only [] at h
    obtain ⟨i1, i2⟩ := openN_inv _ _ _ h1 h2 hO
    cases st1 with
    | nil => exact absurd i1 (Nat.lt_irrefl _)
    | cons top1 t1 =>
      obtain ⟨vs, e⟩ := top1
      cases hM : midM (PP.trimCurlyBrackets item).2.1 ((vs, e) :: t1) with
      | error e => rw [hM] at h; cases h
      | ok st2 =>
        rw [hM] at h
        simp only [] at h
        have hl := midM_len _ _ _ _ _ hM
        cases st2 with
        | nil => cases hl
        | cons top2 t2 =>
          have h2' : t2.length + 1 ≤ 6 := by
            simp only [List.length_cons] at hl i2; omega
          obtain ⟨j1, j2, _⟩ := closeN_inv _ top2 t2 st' h2' h
          exact ⟨j1, j2⟩

/-! ### the loop over the items -/

theorem go_nil (st : List Frame) : parseArgs.go [] st = .ok st := by rw [parseArgs.go]

theorem go_cons (it : Bytes) (rest : List Bytes) (st : List Frame) :
    parseArgs.go (it :: rest) st =
      match argItem st it with
      | .error e => .error e
      | .ok st => parseArgs.go rest st := by
  rw [parseArgs.go]
  cases argItem st it <;> rfl

theorem outer_tie (line : Bytes) (items : List Bytes) (i : Nat) (st : List Frame)
    (h1 : 0 < st.length) (h2 : st.length ≤ 6) :
    forRange (parseArgs_loop1 modelEnv line) items i (enc st) =
      match parseArgs.go items st with
      | .ok st' => some (.cont (enc st'))
      | .error e => some (.ret ({}, some e)) := by
  induction items generalizing i st with
  | nil => rw [go_nil]; rfl
  | cons it rest ih =>
    rw [forRange_cons, loop1_tie line i it st h1 h2, go_cons]
    cases hA : argItem st it with
    | error e => rfl
    | ok st1 =>
      obtain ⟨i1, i2⟩ := argItem_inv st it st1 h1 h2 hA
      exact ih (i + 1) st1 i1 i2

theorem go_inv (items : List Bytes) (st st' : List Frame) (h1 : 0 < st.length) (h2 : st.length ≤ 6)
    (h : parseArgs.go items st = .ok st') : 0 < st'.length ∧ st'.length ≤ 6 := by
  induction items generalizing st with
  | nil => rw [go_nil] at h; cases h; exact ⟨h1, h2⟩
  | cons it rest ih =>
    rw [go_cons] at h
    cases hA : argItem st it with
    | error e => rw [hA] at h; cases h
    | ok st1 =>
      rw [hA] at h
      obtain ⟨i1, i2⟩ := argItem_inv st it st1 h1 h2 hA
      exact ih st1 i1 i2 h

/-! ### `parseArgs` -/

theorem tie_parseArgs (line : Bytes) : TrAr.parseArgs modelEnv line = modelEnv.parseArgs line := by
  unfold TrAr.parseArgs
  have h0 : arrSet (List.replicate 6 (none : Ptr)) (0 : Int) ptrRoot = some (mkStack []) := rfl
  simp only [h0, Option.bind_some]
  have he : ((({} : GArgs), mkStack [], (0 : Int)) : GArgs × List Ptr × Int) = enc [([], false)] := by
    rw [enc_cons, gplug, gOf_nil]; rfl
  rw [he, outer_tie line _ 0 [([], false)] (by decide) (by decide), mE_parseArgs]
  unfold PP.parseArgs
  simp only []
  cases hG : parseArgs.go (Bytes.splitOn line Extracted.commaSpace) [([], false)] with
  | error e => rfl
  | ok st' =>
    obtain ⟨i1, i2⟩ := go_inv _ [([], false)] _ (by decide) (by decide) hG
    cases st' with
    | nil => exact absurd i1 (Nat.lt_irrefl _)
    | cons top t =>
      obtain ⟨vs, e⟩ := top
      cases t with
      | nil => rfl
      | cons p t => rfl

theorem parseArgs_no_panic (line : Bytes) : TrAr.parseArgs modelEnv line ≠ none := by
  rw [tie_parseArgs, mE_parseArgs]
  cases PP.parseArgs line <;> exact Option.some_ne_none _

theorem pin_errorSites : errorSites =
    [("nested aggregate-typed arguments exceeded depth limit", ArgErr.depth),
     ("failed to parse int", ArgErr.int),
     ("unmatched closing curly bracket", ArgErr.close),
     ("unmatched opening curly bracket", ArgErr.open_)] := rfl

/-! ### the embedding is injective; non-vacuity -/

mutual
theorem embArg_inj : ∀ (a b : Arg), embArg a = embArg b → a = b
  | .scalar n v p o i, .scalar n' v' p' o' i', h => by
    rw [embArg, embArg] at h
    simp only [GArg.mk.injEq] at h
    obtain ⟨_, h1, h2, h3, h4, h5, _⟩ := h
    rw [h1, h2, h3, h4, h5]
  | .scalar n v p o i, .agg fs e, h => by
    rw [embArg, embArg] at h
    simp only [GArg.mk.injEq] at h
    exact absurd h.1 (by decide)
  | .agg fs e, .scalar n v p o i, h => by
    rw [embArg, embArg] at h
    simp only [GArg.mk.injEq] at h
    exact absurd h.1 (by decide)
  | .agg fs e, .agg fs' e', h => by
    rw [embArg, embArg] at h
    simp only [GArg.mk.injEq, GArgsOf.mk.injEq] at h
    obtain ⟨_, _, _, _, _, _, h1, _, h2⟩ := h
    rw [embArgL_inj fs fs' h1, h2]
theorem embArgL_inj : ∀ (a b : List Arg), embArgL a = embArgL b → a = b
  | [], [], _ => rfl
  | [], _ :: _, h => by rw [embArgL_nil, embArgL_cons] at h; cases h
  | _ :: _, [], h => by rw [embArgL_nil, embArgL_cons] at h; cases h
  | a :: as, b :: bs, h => by
    rw [embArgL_cons, embArgL_cons] at h
    injection h with h1 h2
    rw [embArg_inj a b h1, embArgL_inj as bs h2]
end

example : TrAr.parseArgs modelEnv b!"0x1, {0x2, ...}, _" =
    some ({ values := [{ value := 1 }, { isAggregate := true, fields := { values := [{ value := 2 }], elided := true } },
       { isOffsetTooLarge := true }] }, none) := by rfl

example : TrAr.parseArgs modelEnv b!"{0x2" = some ({}, some ArgErr.open_) := by rfl
example : TrAr.parseArgs modelEnv b!"{{{{{{0x2" = some ({}, some ArgErr.depth) := by rfl
example : TrAr.parseArgs modelEnv b!"0x2}" = some ({}, some ArgErr.close) := by rfl
example : TrAr.parseArgs modelEnv b!"zz" = some ({}, some ArgErr.int) := by rfl

#print axioms tie_parseArgs
#print axioms parseArgs_no_panic
#print axioms pin_errorSites
#print axioms embArg_inj

end PP.TrAr
