import PP.Extracted
import PP.Model.Types
/- Pins for the aggregation model: the enum orders the model's `Lvl`, `Loc` follow. -/
namespace PP.Tie
theorem pin_similarityOrder :
    PP.Extracted.similarityOrder = ["ExactFlags", "ExactLines", "AnyPointer", "AnyValue"] := by decide
theorem pin_locationOrder :
    PP.Extracted.locationOrder = ["LocationUnknown", "GoMod", "GOPATH", "GoPkg", "Stdlib", "lastLocation"] := by decide
theorem pin_lastLocation : PP.Extracted.lastLocation = 5 := rfl
end PP.Tie
