import PP.TranslatedNames
import PP.Model.Names
import PP.Lemmas.NamesLemmas
/-!
Tie A, translated part, group `Names`: `nameArguments` (stack/stack.go), `(*Args).walk` with its
pointers as paths, and the methods `Len`/`Swap`/`Less` of the sort helper `uint64Slice`.

`tie_nameArguments`: for every goroutine list and every order in which a `range` over the map `objects`
may visit its entries (`ord`, any permutation), the translated `nameArguments` returns the model's
`PP.nameArguments` (PP/Model/Names.lean).  No precondition on the input is needed (names that are set
beforehand are overwritten for the pointer values in the table and kept otherwise, by both).

Proof plan: (1) `walk` yields valid pointers to non-aggregate arguments whose pointer values are the model's
`Arg.ptrsL` (`walkPaths_valid`, `walkPaths_ptrs`); (2) the frame property on a tree: assigning through every
visited pointer is a map over the leaves (`foldl_walkPaths`); (3) the goroutine list is read as one tree
(`enc`) plus a frame (`frameG`), `ext_enc`; (4) the inner naming loop for a key `k` takes the goroutines renamed
by a table `t` to those renamed by `t ++ [(k, id)]` (`name_key`); (5) the collection phase computes, for every
value, the pointers with that value and whether one lies in goroutine 0 (`CInv`, `collected_inv`);
(6) `sort.Sort` of duplicate-free keys with the translated `Less` is `sortDedup` (`sort_model`), the two key
orders are the model's `keys1` and `sortDedup (allOf gs)` for every map order (`order1_eq`, `order2_eq`);
(7) the two outer loops (`out1`, `out2`).
-/
namespace PP.TrN
open PP PP.Go PP.Go.Nm

mutual
/-- the pointers `walk` hands to its visitor for the element `i` of a `Values` slice -/
def argPaths (i : Nat) : Arg → List Path
  | .scalar _ _ _ _ _ => [[i]]
  | .agg fs _ => reroot [i] (walkPathsFrom fs 0)
/-- … for the elements `i, i+1, …` -/
def walkPathsFrom : List Arg → Nat → List Path
  | [], _ => []
  | a :: as, i => argPaths i a ++ walkPathsFrom as (i + 1)
end

/-- specification of `(*Args).walk`: the pointers visited, in order, relative to the receiver -/
def walkPaths (l : List Arg) : List Path := walkPathsFrom l 0

def modelEnv (ord : ObjMap → ObjMap) : Env where
  nameArguments gs := some (PP.nameArguments gs)
  mapOrder := ord
  walk a := some (walkPaths a.values)
  len a := some a.length
  swap a i j :=
    if 0 ≤ i ∧ i.toNat < a.length ∧ 0 ≤ j ∧ j.toNat < a.length then
      some ((a.set i.toNat (a.getD j.toNat 0)).set j.toNat (a.getD i.toNat 0))
    else none
  less a i j :=
    if 0 ≤ i ∧ i.toNat < a.length ∧ 0 ≤ j ∧ j.toNat < a.length then
      some (decide (a.getD i.toNat 0 < a.getD j.toNat 0))
    else none

variable (ord : ObjMap → ObjMap)

@[simp] theorem mE_walk (a : Args) : (modelEnv ord).walk a = some (walkPaths a.values) := rfl
@[simp] theorem mE_len (a : List Nat) : (modelEnv ord).len a = some a.length := rfl

/-! ### walk -/

theorem walk_loop (a : Args) : ∀ (xs pre : List Arg) (acc : List Path), a.values = pre ++ xs →
    forIdx (fun i _x => walk_loop1 (modelEnv ord) a i _x) xs pre.length acc
      = some (acc ++ walkPathsFrom xs pre.length)
  | [], pre, acc, _ => by simp [walkPathsFrom]
  | x :: xs, pre, acc, h => by
    have ih := walk_loop a xs (pre ++ [x])
    have hlt : pre.length < a.values.length := by rw [h]; simp
    have hx : a.values[pre.length]? = some x := by rw [h]; simp
    rw [forIdx_cons]
    cases x with
    | scalar n v p o i =>
      have h1 : walk_loop1 (modelEnv ord) a pre.length (.scalar n v p o i) acc = some (acc ++ [[pre.length]]) := by
        simp only [walk_loop1, addrValuesIdx, hlt, if_true, derefArgs, derefL, hx, ofArg_scalar,
          Bool.false_eq_true, if_false]
      rw [h1]
      have := ih (acc ++ [[pre.length]]) (by rw [h]; simp)
      simp only [List.length_append, List.length_cons, List.length_nil, Nat.zero_add] at this
      simp only [walkPathsFrom, argPaths, List.append_assoc] at this ⊢
      exact this
    | agg fs e =>
      have h1 : walk_loop1 (modelEnv ord) a pre.length (.agg fs e) acc
          = some (acc ++ reroot [pre.length] (walkPaths fs)) := by
        simp only [walk_loop1, addrValuesIdx, hlt, if_true, derefArgs, derefL, hx, ofArg_agg, mE_walk]
      rw [h1]
      have := ih (acc ++ reroot [pre.length] (walkPaths fs)) (by rw [h]; simp)
      simp only [List.length_append, List.length_cons, List.length_nil, Nat.zero_add] at this
      simp only [walkPathsFrom, argPaths, walkPaths, List.append_assoc] at this ⊢
      exact this

theorem tie_walk (a : Args) : walk (modelEnv ord) a = (modelEnv ord).walk a := by
  have h := walk_loop ord a a.values [] [] (by simp)
  simp only [List.length_nil, List.nil_append] at h
  simp only [walk, h, mE_walk, walkPaths]

/-! ### uint64Slice -/

theorem tie_len (a : List Nat) : len (modelEnv ord) a = (modelEnv ord).len a := rfl

theorem idxU64_eq (a : List Nat) (i : Int) :
    idxU64 a i = if 0 ≤ i ∧ i.toNat < a.length then some (a.getD i.toNat 0) else none := by
  unfold idxU64
  by_cases h0 : 0 ≤ i
  · by_cases h1 : i.toNat < a.length
    · simp [h0, h1, List.getD_eq_getElem?_getD]
    · simp [h0, h1]
  · simp [h0]

theorem tie_less (a : List Nat) (i j : Int) : less (modelEnv ord) a i j = (modelEnv ord).less a i j := by
  simp only [less, modelEnv, idxU64_eq]
  by_cases hi : 0 ≤ i ∧ i.toNat < a.length <;> by_cases hj : 0 ≤ j ∧ j.toNat < a.length <;>
    simp [hi, hj]

theorem tie_swap (a : List Nat) (i j : Int) : swap (modelEnv ord) a i j = (modelEnv ord).swap a i j := by
  simp only [swap, modelEnv, idxU64_eq, swapU64]
  by_cases hi : 0 ≤ i ∧ i.toNat < a.length <;> by_cases hj : 0 ≤ j ∧ j.toNat < a.length <;>
    simp [hi, hj]


/-! ### what `sort.Sort` can do with this `Less` (for the caller `nameArguments`, not translated yet) -/

/-- `Less` looks at the two elements only and is `<` on them -/
theorem less_spec (a : List Nat) (i j : Nat) (hi : i < a.length) (hj : j < a.length) :
    less (modelEnv ord) a (i : Int) (j : Int) = some (decide (a[i] < a[j])) := by
  rw [tie_less]
  simp [modelEnv, hi, hj, List.getD_eq_getElem?_getD]

/-- `Less` never panics inside the slice -/
theorem less_isSome (a : List Nat) (i j : Nat) (hi : i < a.length) (hj : j < a.length) :
    (less (modelEnv ord) a (i : Int) (j : Int)).isSome := by
  rw [less_spec ord a i j hi hj]; rfl

/-- A correct `sort.Sort` returns a permutation `r` of the slice in which no element is `Less` than
an earlier one.  For a duplicate-free slice (the keys of a map) and THIS `Less` there is exactly one
such `r`: the model's `sortDedup`. -/
theorem sort_unique (a r : List Nat) (hnd : a.Nodup) (hp : r.Perm a)
    (hs : ∀ (i j : Nat), i < j → j < r.length → less (modelEnv ord) r (j : Int) (i : Int) = some false) :
    r = sortDedup a := by
  have hr : r.Pairwise (· ≤ ·) := by
    rw [List.pairwise_iff_getElem]
    intro i j hi hj hij
    have h := hs i j hij hj
    rw [less_spec ord r j i hj hi] at h
    simpa using h
  have hsd : (sortDedup a).Pairwise (· ≤ ·) := (sortDedup_sorted a).imp (fun h => Nat.le_of_lt h)
  have hnd2 : (sortDedup a).Nodup := (sortDedup_sorted a).imp (fun h => Nat.ne_of_lt h)
  have hperm : r.Perm (sortDedup a) :=
    hp.trans ((List.perm_ext_iff_of_nodup hnd hnd2).mpr (fun _ => mem_sortDedup.symm))
  exact List.Perm.eq_of_pairwise (le := (· ≤ ·)) (fun _ _ _ _ h1 h2 => Nat.le_antisymm h1 h2) hr hsd hperm

/-! ### the pointers `walk` yields: valid, to scalars, and their pointer values are the model's `Arg.ptrsL` -/

mutual
/-- the non-aggregate arguments, in visiting order -/
def leavesA : Arg → List Arg
  | .scalar n v p o i => [.scalar n v p o i]
  | .agg fs _ => leavesL fs
def leavesL : List Arg → List Arg
  | [] => []
  | a :: as => leavesA a ++ leavesL as
end

/-- `arg.Value` if `arg.IsPtr` (what the visitor of nameArguments looks at) -/
def ptrVal : Arg → Option Nat
  | .scalar _ v true _ _ => some v
  | _ => none

theorem walkPathsFrom_ne_nil : ∀ (l : List Arg) (i : Nat) (p : Path), p ∈ walkPathsFrom l i → ∃ j q, p = j :: q
  | [], _, _, h => by simp [walkPathsFrom] at h
  | a :: as, i, p, h => by
    rw [walkPathsFrom, List.mem_append] at h
    cases h with
    | inr h => exact walkPathsFrom_ne_nil as (i + 1) p h
    | inl h =>
      cases a with
      | scalar n v b o k =>
        simp only [argPaths, List.mem_singleton] at h
        exact ⟨i, [], h⟩
      | agg fs e =>
        simp only [argPaths, reroot, List.mem_map] at h
        obtain ⟨q, _, rfl⟩ := h
        exact ⟨i, q, rfl⟩

theorem derefL_under (pre rest fs : List Arg) (e : Bool) (j : Nat) (q : Path) :
    derefL (pre ++ Arg.agg fs e :: rest) ([pre.length] ++ j :: q) = derefL fs (j :: q) := by
  simp [derefL]

mutual
theorem deref_argPaths : ∀ (a : Arg) (pre rest : List Arg),
    (argPaths pre.length a).map (derefL (pre ++ a :: rest)) = (leavesA a).map some
  | .scalar n v b o k, pre, rest => by simp [argPaths, leavesA, derefL]
  | .agg fs e, pre, rest => by
    have ih := deref_walkPathsFrom fs []
    simp only [List.length_nil, List.nil_append] at ih
    simp only [argPaths, leavesA, reroot, List.map_map, ← ih]
    apply List.map_congr_left
    intro q hq
    obtain ⟨j, r, rfl⟩ := walkPathsFrom_ne_nil fs 0 q hq
    exact derefL_under pre rest fs e j r
theorem deref_walkPathsFrom : ∀ (l pre : List Arg),
    (walkPathsFrom l pre.length).map (derefL (pre ++ l)) = (leavesL l).map some
  | [], pre => by simp [walkPathsFrom, leavesL]
  | a :: as, pre => by
    have h1 := deref_argPaths a pre as
    have h2 := deref_walkPathsFrom as (pre ++ [a])
    simp only [List.length_append, List.length_cons, List.length_nil, Nat.zero_add, List.append_assoc,
      List.cons_append, List.nil_append] at h2
    simp only [walkPathsFrom, leavesL, List.map_append, h1, h2]
end

/-- reading through the visited pointers, in order, gives the non-aggregate arguments in order -/
theorem deref_walkPaths (l : List Arg) : (walkPaths l).map (derefL l) = (leavesL l).map some := by
  have h := deref_walkPathsFrom l []
  simpa [walkPaths] using h

mutual
theorem leavesA_scalar : ∀ (a x : Arg), x ∈ leavesA a → ∃ n v b o k, x = .scalar n v b o k
  | .scalar n v b o k, x, h => by
    simp only [leavesA, List.mem_singleton] at h
    exact ⟨n, v, b, o, k, h⟩
  | .agg fs _, x, h => by
    simp only [leavesA] at h
    exact leavesL_scalar fs x h
theorem leavesL_scalar : ∀ (l : List Arg) (x : Arg), x ∈ leavesL l → ∃ n v b o k, x = .scalar n v b o k
  | [], x, h => by simp [leavesL] at h
  | a :: as, x, h => by
    rw [leavesL, List.mem_append] at h
    cases h with
    | inl h => exact leavesA_scalar a x h
    | inr h => exact leavesL_scalar as x h
end

/-- every pointer `walk` hands to the visitor is valid and points to a non-aggregate argument (so the
visitor's reads `arg.IsPtr`, `arg.Value` cannot fail, and `arg.Name = …` is an assignment the model's
`Arg.scalar` can represent) -/
theorem walkPaths_valid (l : List Arg) (p : Path) (hp : p ∈ walkPaths l) :
    ∃ n v b o k, derefL l p = some (.scalar n v b o k) := by
  have hm : derefL l p ∈ (walkPaths l).map (derefL l) := List.mem_map.mpr ⟨p, hp, rfl⟩
  rw [deref_walkPaths, List.mem_map] at hm
  obtain ⟨x, hx, hxe⟩ := hm
  obtain ⟨n, v, b, o, k, rfl⟩ := leavesL_scalar l x hx
  exact ⟨n, v, b, o, k, hxe.symm⟩

mutual
theorem ptrs_leavesA : ∀ a : Arg, Arg.ptrs a = (leavesA a).filterMap ptrVal
  | .scalar n v b o k => by cases b <;> simp [Arg.ptrs, leavesA, ptrVal]
  | .agg fs _ => by simp only [Arg.ptrs, leavesA]; exact ptrs_leavesL fs
theorem ptrs_leavesL : ∀ l : List Arg, Arg.ptrsL l = (leavesL l).filterMap ptrVal
  | [] => by simp [Arg.ptrsL, leavesL]
  | a :: as => by simp only [Arg.ptrsL, leavesL, List.filterMap_append, ptrs_leavesA a, ptrs_leavesL as]
end

/-- the pointer values read through the visited pointers, in order, are the model's `Arg.ptrsL` (the list
`nameTable` is computed from) -/
theorem walkPaths_ptrs (l : List Arg) :
    (walkPaths l).filterMap (fun p => (derefL l p).bind ptrVal) = Arg.ptrsL l := by
  have h : (walkPaths l).filterMap (fun p => (derefL l p).bind ptrVal)
      = ((walkPaths l).map (derefL l)).filterMap (fun o => o.bind ptrVal) := by
    rw [List.filterMap_map]; rfl
  rw [h, deref_walkPaths, List.filterMap_map, ptrs_leavesL]
  rfl

/-! ### `nameArguments`: lists and paths -/

theorem modAt_append_cons {α : Type} (pre : List α) (a : α) (rest : List α) (f : α → α) :
    modAt (pre ++ a :: rest) pre.length f = pre ++ f a :: rest := by
  induction pre with
  | nil => rfl
  | cons x xs ih => simp [modAt, ih]

theorem map_modAt {α β : Type} (φ : α → β) (f : α → α) (f' : β → β) (h : ∀ a, φ (f a) = f' (φ a)) :
    ∀ (l : List α) (i : Nat), (modAt l i f).map φ = modAt (l.map φ) i f'
  | [], _ => rfl
  | a :: l, 0 => by simp [modAt, h]
  | a :: l, i + 1 => by simp [modAt, map_modAt φ f f' h l i]

theorem modAt_congr {α : Type} (f g : α → α) :
    ∀ (l : List α) (i : Nat), (∀ a, l[i]? = some a → f a = g a) → modAt l i f = modAt l i g
  | [], _, _ => rfl
  | a :: l, 0, h => by simp [modAt, h a (by simp)]
  | a :: l, i + 1, h => by
    simp only [modAt, List.cons.injEq, true_and]
    exact modAt_congr f g l i (fun b hb => h b (by simpa using hb))

theorem modAt_id {α : Type} : ∀ (l : List α) (i : Nat), modAt l i (fun a => a) = l
  | [], _ => rfl
  | a :: l, 0 => rfl
  | a :: l, i + 1 => by simp [modAt, modAt_id l i]

theorem renameL_eq_map (t : List (Nat × Nat)) : ∀ l : List Arg, Arg.renameL t l = l.map (Arg.rename t)
  | [] => rfl
  | a :: as => by simp [Arg.renameL, renameL_eq_map t as]

theorem eraseNameL_eq_map : ∀ l : List Arg, Arg.eraseNameL l = l.map Arg.eraseName
  | [] => rfl
  | a :: as => by simp [Arg.eraseNameL, eraseNameL_eq_map as]

theorem derefL_erase : ∀ (p : Path) (l : List Arg),
    derefL (l.map Arg.eraseName) p = (derefL l p).map Arg.eraseName
  | [], l => rfl
  | [i], l => by simp [derefL]
  | i :: j :: p, l => by
    simp only [derefL, List.getElem?_map]
    cases h : l[i]? with
    | none => simp
    | some a =>
      cases a with
      | scalar n v b o k => simp [Arg.eraseName]
      | agg fs e => simp [Arg.eraseName, eraseNameL_eq_map, derefL_erase (j :: p) fs]

theorem erase_modL (g : Arg → Arg) (hg : ∀ a, Arg.eraseName (g a) = Arg.eraseName a) :
    ∀ (p : Path) (l : List Arg), (modL g l p).map Arg.eraseName = l.map Arg.eraseName
  | [], l => rfl
  | [i], l => by
    rw [modL, map_modAt Arg.eraseName g (fun a => a) hg]; exact modAt_id _ _
  | i :: j :: p, l => by
    rw [modL, map_modAt Arg.eraseName _ (fun a => a)]
    · exact modAt_id _ _
    · intro a
      cases a with
      | scalar n v b o k => rfl
      | agg fs e => simp [Arg.eraseName, eraseNameL_eq_map, erase_modL g hg (j :: p) fs]

theorem modL_congr (f g : Arg → Arg) :
    ∀ (p : Path) (l : List Arg), (∀ a, derefL l p = some a → f a = g a) → modL f l p = modL g l p
  | [], l, _ => rfl
  | [i], l, h => modAt_congr f g l i (by simpa [derefL] using h)
  | i :: j :: p, l, h => by
    simp only [modL]
    apply modAt_congr
    intro a ha
    cases a with
    | scalar n v b o k => rfl
    | agg fs e =>
      have := modL_congr f g (j :: p) fs (fun b hb => h b (by simp [derefL, ha, hb]))
      simp [this]

theorem modL_id : ∀ (p : Path) (l : List Arg), modL (fun a => a) l p = l
  | [], l => rfl
  | [i], l => modAt_id l i
  | i :: j :: p, l => by
    simp only [modL]
    rw [modAt_congr _ (fun a => a), modAt_id]
    intro a _
    cases a with
    | scalar n v b o k => rfl
    | agg fs e => simp [modL_id (j :: p) fs]

theorem modL_fix (g : Arg → Arg) (p : Path) (l : List Arg) (h : ∀ a, derefL l p = some a → g a = a) :
    modL g l p = l := by
  rw [modL_congr g (fun a => a) p l h, modL_id]

/-! ### assigning through every pointer `walk` yields = mapping over the non-aggregate arguments -/

mutual
def mapLeafA (g : Arg → Arg) : Arg → Arg
  | .scalar n v b o i => g (.scalar n v b o i)
  | .agg fs e => .agg (mapLeafL g fs) e
def mapLeafL (g : Arg → Arg) : List Arg → List Arg
  | [] => []
  | a :: as => mapLeafA g a :: mapLeafL g as
end

theorem modL_under (g : Arg → Arg) (hg : ∀ fs e, g (.agg fs e) = .agg fs e) (pre rest fs : List Arg) (e : Bool)
    (q : Path) :
    modL g (pre ++ Arg.agg fs e :: rest) (pre.length :: q) = pre ++ Arg.agg (modL g fs q) e :: rest := by
  cases q with
  | nil => simp [modL, modAt_append_cons, hg]
  | cons j r => simp [modL, modAt_append_cons]

theorem foldl_under (g : Arg → Arg) (hg : ∀ fs e, g (.agg fs e) = .agg fs e) (pre rest : List Arg) (e : Bool) :
    ∀ (qs : List Path) (fs : List Arg),
      qs.foldl (fun st q => modL g st (pre.length :: q)) (pre ++ Arg.agg fs e :: rest)
        = pre ++ Arg.agg (qs.foldl (fun st q => modL g st q) fs) e :: rest
  | [], fs => rfl
  | q :: qs, fs => by
    simp only [List.foldl_cons, modL_under g hg]
    exact foldl_under g hg pre rest e qs (modL g fs q)

mutual
theorem foldl_argPaths (g : Arg → Arg) (hg : ∀ fs e, g (.agg fs e) = .agg fs e) :
    ∀ (a : Arg) (pre rest : List Arg),
      (argPaths pre.length a).foldl (fun st q => modL g st q) (pre ++ a :: rest) = pre ++ mapLeafA g a :: rest
  | .scalar n v b o k, pre, rest => by
    simp [argPaths, modL, modAt_append_cons, mapLeafA]
  | .agg fs e, pre, rest => by
    have ih := foldl_walkPathsFrom g hg fs []
    simp only [List.length_nil, List.nil_append] at ih
    simp only [argPaths, reroot, List.foldl_map, List.cons_append, List.nil_append, mapLeafA]
    rw [foldl_under g hg, ih]
theorem foldl_walkPathsFrom (g : Arg → Arg) (hg : ∀ fs e, g (.agg fs e) = .agg fs e) :
    ∀ (l pre : List Arg),
      (walkPathsFrom l pre.length).foldl (fun st q => modL g st q) (pre ++ l) = pre ++ mapLeafL g l
  | [], pre => by simp [walkPathsFrom, mapLeafL]
  | a :: as, pre => by
    have h1 := foldl_argPaths g hg a pre as
    have h2 := foldl_walkPathsFrom g hg as (pre ++ [mapLeafA g a])
    simp only [List.length_append, List.length_cons, List.length_nil, Nat.zero_add, List.append_assoc,
      List.cons_append, List.nil_append] at h2
    simp only [walkPathsFrom, List.foldl_append, h1, h2, mapLeafL]
end

/-- the frame property on one tree: applying `g` through every visited pointer, in order, is `g` on every
non-aggregate argument -/
theorem foldl_walkPaths (g : Arg → Arg) (hg : ∀ fs e, g (.agg fs e) = .agg fs e) (l : List Arg) :
    (walkPaths l).foldl (fun st q => modL g st q) l = mapLeafL g l := by
  have h := foldl_walkPathsFrom g hg l []
  simpa [walkPaths] using h

/-- `Name = s` restricted to the pointer arguments of value `k` -/
def setK (k : Nat) (s : Bytes) : Arg → Arg
  | .scalar n v true o i => if v = k then .scalar s v true o i else .scalar n v true o i
  | x => x

theorem setK_agg (k : Nat) (s : Bytes) (fs : List Arg) (e : Bool) : setK k s (.agg fs e) = .agg fs e := rfl

theorem setK_erase (k : Nat) (s : Bytes) : ∀ a, Arg.eraseName (setK k s a) = Arg.eraseName a
  | .scalar n v true o i => by
    by_cases h : v = k <;> simp [setK, h, Arg.eraseName]
  | .scalar n v false o i => rfl
  | .agg fs e => rfl

theorem lookup_snoc (t : List (Nat × Nat)) (k id v : Nat) :
    (t ++ [(k, id)]).lookup v
      = match t.lookup v with
        | some x => some x
        | none => if v = k then some id else none := by
  induction t with
  | nil => by_cases h : v = k <;> simp [List.lookup, h]
  | cons e t ih =>
    obtain ⟨a, b⟩ := e
    by_cases h : v = a
    · simp [List.lookup_cons, h]
    · have hv' : (v == a) = false := by simp [h]
      simp only [List.cons_append, List.lookup_cons, hv', ih]

theorem lookup_some_mem (t : List (Nat × Nat)) (v x : Nat) (h : t.lookup v = some x) : v ∈ t.map Prod.fst := by
  induction t with
  | nil => simp at h
  | cons e t ih =>
    obtain ⟨a, b⟩ := e
    by_cases hv : v = a
    · simp [hv]
    · have hv' : (v == a) = false := by simp [hv]
      simp only [List.lookup_cons, hv'] at h
      simp [ih h]

mutual
theorem setK_renameA (t : List (Nat × Nat)) (k id : Nat) (hk : k ∉ t.map Prod.fst) :
    ∀ a : Arg, mapLeafA (setK k (pseudoName id)) (Arg.rename t a) = Arg.rename (t ++ [(k, id)]) a
  | .scalar n v false o i => by simp [Arg.rename, mapLeafA, setK]
  | .scalar n v true o i => by
    simp only [Arg.rename, if_true, lookup_snoc]
    cases h : t.lookup v with
    | some x =>
      have hv : v ≠ k := fun e => hk (e ▸ lookup_some_mem t v x h)
      simp [mapLeafA, setK, hv]
    | none => by_cases hv : v = k <;> simp [mapLeafA, setK, hv]
  | .agg fs e => by
    simp only [Arg.rename, mapLeafA, setK_renameL t k id hk fs]
theorem setK_renameL (t : List (Nat × Nat)) (k id : Nat) (hk : k ∉ t.map Prod.fst) :
    ∀ l : List Arg, mapLeafL (setK k (pseudoName id)) (Arg.renameL t l) = Arg.renameL (t ++ [(k, id)]) l
  | [] => by simp [Arg.renameL, mapLeafL]
  | a :: as => by
    simp only [Arg.renameL, mapLeafL, setK_renameA t k id hk a, setK_renameL t k id hk as]
end

mutual
theorem argPaths_rename (t : List (Nat × Nat)) : ∀ (a : Arg) (i : Nat), argPaths i (Arg.rename t a) = argPaths i a
  | .scalar n v false o k, i => by simp [Arg.rename, argPaths]
  | .scalar n v true o k, i => by
    simp only [Arg.rename, if_true]
    cases t.lookup v <;> simp [argPaths]
  | .agg fs e, i => by simp only [Arg.rename, argPaths, walkPathsFrom_rename t fs 0]
theorem walkPathsFrom_rename (t : List (Nat × Nat)) :
    ∀ (l : List Arg) (i : Nat), walkPathsFrom (Arg.renameL t l) i = walkPathsFrom l i
  | [], i => by simp [Arg.renameL, walkPathsFrom]
  | a :: as, i => by
    simp only [Arg.renameL, walkPathsFrom, argPaths_rename t a i, walkPathsFrom_rename t as (i + 1)]
end

theorem deref_of_erase (T L : List Arg) (x : Path) (hE : T.map Arg.eraseName = L.map Arg.eraseName)
    (n : Bytes) (v : Nat) (b o i : Bool) (hL : derefL L x = some (.scalar n v b o i)) :
    ∃ n', derefL T x = some (.scalar n' v b o i) := by
  have h := derefL_erase x T
  rw [hE, derefL_erase x L, hL] at h
  cases hT : derefL T x with
  | none => simp [hT] at h
  | some a =>
    cases a with
    | scalar n' v' b' o' i' =>
      simp only [hT, Option.map_some, Arg.eraseName, Option.some.injEq, Arg.scalar.injEq, true_and] at h
      obtain ⟨h1, h2, h3, h4⟩ := h
      subst h1 h2 h3 h4
      exact ⟨n', rfl⟩
    | agg fs e => simp [hT, Arg.eraseName] at h

/-! ### goroutine lists as trees -/

def encC (c : Call) : Arg := .agg c.args.values false
def encG (g : Goroutine) : Arg := .agg (g.sig.stack.calls.map encC) false
/-- the argument lists of a goroutine list as one tree: `g :: c :: p` is a path in it -/
def enc (gs : List Goroutine) : List Arg := gs.map encG
def frameC (c : Call) : Call := { c with args := { c.args with values := [] } }
/-- everything but the argument values -/
def frameG (g : Goroutine) : Goroutine :=
  { g with sig := { g.sig with stack := { g.sig.stack with calls := g.sig.stack.calls.map frameC } } }

theorem ext_map2 {α β γ : Type} (f : α → β) (g : α → γ) (hinj : ∀ a a', f a = f a' → g a = g a' → a = a') :
    ∀ l l' : List α, l.map f = l'.map f → l.map g = l'.map g → l = l'
  | [], [], _, _ => rfl
  | [], _ :: _, h, _ => by simp at h
  | _ :: _, [], h, _ => by simp at h
  | a :: l, a' :: l', h1, h2 => by
    simp only [List.map_cons, List.cons.injEq] at h1 h2
    rw [hinj a a' h1.1 h2.1, ext_map2 f g hinj l l' h1.2 h2.2]

theorem ext_C (c c' : Call) (h1 : encC c = encC c') (h2 : frameC c = frameC c') : c = c' := by
  rcases c with ⟨fn, ⟨vals, proc, el⟩, a3, a4, a5, a6, a7, a8, a9, a10⟩
  rcases c' with ⟨fn', ⟨vals', proc', el'⟩, b3, b4, b5, b6, b7, b8, b9, b10⟩
  simp only [encC, Arg.agg.injEq, and_true] at h1
  simp only [frameC, Call.mk.injEq, Args.mk.injEq, true_and] at h2
  simp [h1, h2]

theorem ext_G (g g' : Goroutine) (h1 : encG g = encG g') (h2 : frameG g = frameG g') : g = g' := by
  rcases g with ⟨⟨st, cb, smin, smax, ⟨calls, el⟩, lk⟩, id, first, rw, ra⟩
  rcases g' with ⟨⟨st', cb', smin', smax', ⟨calls', el'⟩, lk'⟩, id', first', rw', ra'⟩
  simp only [encG, Arg.agg.injEq, and_true] at h1
  simp only [frameG, Goroutine.mk.injEq, Signature.mk.injEq, Stack.mk.injEq] at h2
  have hc : calls = calls' := ext_map2 encC frameC ext_C calls calls' h1 h2.1.2.2.2.2.1.1
  simp [hc, h2]

theorem ext_enc (gs gs' : List Goroutine) (h1 : enc gs = enc gs') (h2 : gs.map frameG = gs'.map frameG) :
    gs = gs' := ext_map2 encG frameG ext_G gs gs' h1 h2

theorem ptrGet_enc (gs : List Goroutine) (g c j : Nat) (r : Path) :
    ptrGet gs (g :: c :: j :: r) = derefL (enc gs) (g :: c :: j :: r) := by
  simp only [ptrGet, derefL, enc, List.getElem?_map, derefArgs]
  cases gs[g]? with
  | none => rfl
  | some G =>
    simp only [Option.map_some, encG, List.getElem?_map]
    cases G.sig.stack.calls[c]? with
    | none => rfl
    | some C => simp [encC]

/-- the goroutine list after `q.Name = s`, `q = g :: c :: p` -/
def setNameG (s : Bytes) (g c : Nat) (p : Path) (gs : List Goroutine) : List Goroutine :=
  modAt gs g fun G => { G with sig := { G.sig with stack := { G.sig.stack with
    calls := modAt G.sig.stack.calls c fun C =>
      { C with args := { C.args with values := modL (setNameA s) C.args.values p } } } } }

theorem ptrSetName_eq (gs : List Goroutine) (g c : Nat) (p : Path) (s n : Bytes) (v : Nat) (b o i : Bool)
    (h : ptrGet gs (g :: c :: p) = some (.scalar n v b o i)) :
    ptrSetName gs (g :: c :: p) s = some (setNameG s g c p gs) := by
  simp only [ptrSetName, h, setNameG]

theorem enc_setNameG (s : Bytes) (g c j : Nat) (r : Path) (gs : List Goroutine) :
    enc (setNameG s g c (j :: r) gs) = modL (setNameA s) (enc gs) (g :: c :: j :: r) := by
  unfold setNameG enc
  rw [map_modAt encG _ (fun a => match a with
    | .agg fs e => .agg (modL (setNameA s) fs (c :: j :: r)) e
    | x => x)]
  · rfl
  · intro G
    simp only [encG]
    rw [map_modAt encC _ (fun a => match a with
      | .agg fs e => .agg (modL (setNameA s) fs (j :: r)) e
      | x => x)]
    · rfl
    · intro C; rfl

theorem frame_setNameG (s : Bytes) (g c : Nat) (p : Path) (gs : List Goroutine) :
    (setNameG s g c p gs).map frameG = gs.map frameG := by
  unfold setNameG
  rw [map_modAt frameG _ (fun a => a)]
  · exact modAt_id _ _
  · intro G
    simp only [frameG]
    rw [map_modAt frameC _ (fun a => a)]
    · rw [modAt_id]
    · intro C; rfl

theorem enc_rename (t : List (Nat × Nat)) (gs : List Goroutine) :
    enc (gs.map (Goroutine.rename t)) = Arg.renameL t (enc gs) := by
  simp only [enc, renameL_eq_map, List.map_map]
  apply List.map_congr_left
  intro g _
  simp only [Function.comp, encG, Goroutine.rename, Arg.rename, renameL_eq_map, List.map_map]
  congr 1
  apply List.map_congr_left
  intro c _
  simp [encC, Arg.rename, renameL_eq_map]

theorem frame_rename (t : List (Nat × Nat)) (gs : List Goroutine) :
    (gs.map (Goroutine.rename t)).map frameG = gs.map frameG := by
  simp only [List.map_map]
  apply List.map_congr_left
  intro g _
  simp only [Function.comp, frameG, Goroutine.rename, List.map_map]
  rfl

theorem mem_walkPaths_encC : ∀ (cs : List Call) (j0 : Nat) (q : Path),
    q ∈ walkPathsFrom (cs.map encC) j0 → ∃ c j r, q = c :: j :: r
  | [], _, _, h => by simp [walkPathsFrom] at h
  | c :: cs, j0, q, h => by
    simp only [List.map_cons, walkPathsFrom, List.mem_append] at h
    cases h with
    | inr h => exact mem_walkPaths_encC cs (j0 + 1) q h
    | inl h =>
      simp only [encC, argPaths, reroot, List.mem_map] at h
      obtain ⟨q', hq', rfl⟩ := h
      obtain ⟨j, r, rfl⟩ := walkPathsFrom_ne_nil _ _ _ hq'
      exact ⟨j0, j, r, rfl⟩

theorem mem_walkPaths_enc : ∀ (gs : List Goroutine) (i0 : Nat) (x : Path),
    x ∈ walkPathsFrom (enc gs) i0 → ∃ g c j r, x = g :: c :: j :: r
  | [], _, _, h => by simp [enc, walkPathsFrom] at h
  | G :: gs, i0, x, h => by
    simp only [enc, List.map_cons, walkPathsFrom, List.mem_append] at h
    cases h with
    | inr h => exact mem_walkPaths_enc gs (i0 + 1) x h
    | inl h =>
      simp only [encG, argPaths, reroot, List.mem_map] at h
      obtain ⟨q', hq', rfl⟩ := h
      obtain ⟨c, j, r, rfl⟩ := mem_walkPaths_encC _ _ _ hq'
      exact ⟨i0, c, j, r, rfl⟩

/-- the pointer value read through `p` (in the tree `L`) is `k` -/
def isK (L : List Arg) (k : Nat) (p : Path) : Bool := (derefL L p).bind ptrVal == some k

theorem name_fold (gs : List Goroutine) (k : Nat) (s : Bytes) :
    ∀ (xs : List Path) (n : Nat) (st : List Goroutine),
      (∀ x ∈ xs, x ∈ walkPaths (enc gs)) →
      (enc st).map Arg.eraseName = (enc gs).map Arg.eraseName →
      st.map frameG = gs.map frameG →
      ∃ st', forIdx (fun _ q st => ptrSetName st q s) (xs.filter (isK (enc gs) k)) n st = some st'
        ∧ enc st' = xs.foldl (fun T q => modL (setK k s) T q) (enc st)
        ∧ st'.map frameG = gs.map frameG
  | [], n, st, _, _, hF => ⟨st, rfl, rfl, hF⟩
  | x :: xs, n, st, hx, hE, hF => by
    have hxV := hx x (by simp)
    obtain ⟨g, c, j, r, rfl⟩ := mem_walkPaths_enc gs 0 _ hxV
    obtain ⟨nm, v, b, o, i, hL⟩ := walkPaths_valid (enc gs) _ hxV
    obtain ⟨nm', hT⟩ := deref_of_erase (enc st) (enc gs) _ hE nm v b o i hL
    by_cases hP : b = true ∧ v = k
    · obtain ⟨rfl, rfl⟩ := hP
      have hf : isK (enc gs) v (g :: c :: j :: r) = true := by simp [isK, hL, ptrVal]
      have hset := ptrSetName_eq st g c (j :: r) s nm' v true o i (by rw [ptrGet_enc]; exact hT)
      have henc : enc (setNameG s g c (j :: r) st) = modL (setK v s) (enc st) (g :: c :: j :: r) := by
        rw [enc_setNameG]
        apply modL_congr
        intro a ha
        rw [hT] at ha
        cases ha
        simp [setNameA, setK]
      obtain ⟨st', h1, h2, h3⟩ := name_fold gs v s xs (n + 1) (setNameG s g c (j :: r) st)
        (fun y hy => hx y (by simp [hy]))
        (by rw [henc, erase_modL _ (setK_erase v s)]; exact hE)
        (by rw [frame_setNameG]; exact hF)
      refine ⟨st', ?_, ?_, h3⟩
      · rw [List.filter_cons_of_pos hf, forIdx_cons, hset]
        exact h1
      · rw [h2, henc]; rfl
    · have hf : isK (enc gs) k (g :: c :: j :: r) = false := by
        cases b with
        | false => simp [isK, hL, ptrVal]
        | true =>
          have : v ≠ k := fun e => hP ⟨rfl, e⟩
          simp [isK, hL, ptrVal, this]
      have hfix : modL (setK k s) (enc st) (g :: c :: j :: r) = enc st := by
        apply modL_fix
        intro a ha
        rw [hT] at ha
        cases ha
        cases b with
        | false => rfl
        | true =>
          have : v ≠ k := fun e => hP ⟨rfl, e⟩
          simp [setK, this]
      obtain ⟨st', h1, h2, h3⟩ := name_fold gs k s xs n st (fun y hy => hx y (by simp [hy])) hE hF
      refine ⟨st', ?_, ?_, h3⟩
      · rw [List.filter_cons_of_neg (by simp [hf])]
        exact h1
      · rw [h2, List.foldl_cons, hfix]

/-- the inner naming loop: assigning `#id` through all the collected pointers of value `k` takes the
goroutines renamed by `t` to the goroutines renamed by `t ++ [(k, id)]` -/
theorem name_key (gs : List Goroutine) (t : List (Nat × Nat)) (k id : Nat) (hk : k ∉ t.map Prod.fst) (n : Nat) :
    forIdx (fun _ q st => ptrSetName st q (goSprintfHashD id))
        ((walkPaths (enc gs)).filter (isK (enc gs) k)) n (gs.map (Goroutine.rename t))
      = some (gs.map (Goroutine.rename (t ++ [(k, id)]))) := by
  have hE : (enc (gs.map (Goroutine.rename t))).map Arg.eraseName = (enc gs).map Arg.eraseName := by
    rw [enc_rename, ← eraseNameL_eq_map, ← eraseNameL_eq_map, Arg.eraseNameL_renameL]
  obtain ⟨st', h1, h2, h3⟩ := name_fold gs k (goSprintfHashD id) (walkPaths (enc gs)) n
    (gs.map (Goroutine.rename t)) (fun _ h => h) hE (frame_rename t gs)
  rw [h1]
  congr 1
  apply ext_enc
  · rw [h2, enc_rename, enc_rename]
    have hsh : walkPaths (enc gs) = walkPaths (Arg.renameL t (enc gs)) := by
      simp only [walkPaths, walkPathsFrom_rename]
    rw [hsh, foldl_walkPaths _ (setK_agg k _)]
    exact setK_renameL t k id hk (enc gs)
  · rw [h3, frame_rename]

/-! ### the map `objects` -/

def keys (m : ObjMap) : List Nat := m.map Prod.fst

theorem lookup_snocO (t : ObjMap) (k : Nat) (x : Obj) (v : Nat) :
    (t ++ [(k, x)]).lookup v
      = match t.lookup v with
        | some y => some y
        | none => if v = k then some x else none := by
  induction t with
  | nil =>
    by_cases h : v = k
    · simp [h]
    · have hv : (v == k) = false := by simp [h]
      simp [List.lookup, hv, h]
  | cons e t ih =>
    obtain ⟨a, b⟩ := e
    by_cases h : v = a
    · simp [h]
    · have hv' : (v == a) = false := by simp [h]
      simp only [List.cons_append, List.lookup_cons, hv', ih]

theorem lookup_isSome_iff (m : ObjMap) (k : Nat) : (m.lookup k).isSome = true ↔ k ∈ keys m := by
  induction m with
  | nil => simp [keys]
  | cons e m ih =>
    obtain ⟨a, b⟩ := e
    by_cases h : k = a
    · simp [h, keys]
    · have hv' : (k == a) = false := by simp [h]
      simp only [List.lookup_cons, hv', ih, keys, List.map_cons, List.mem_cons, h, false_or]

theorem lookup_upd (k : Nat) (x : Obj) (k' : Nat) : ∀ m : ObjMap,
    (m.map (fun e => if e.1 == k then (k, x) else e)).lookup k'
      = if k' = k then (if (m.lookup k).isSome then some x else none) else m.lookup k'
  | [] => by by_cases h : k' = k <;> simp [h]
  | (a, b) :: m => by
    have ih := lookup_upd k x k' m
    by_cases ha : a = k
    · subst ha
      by_cases h : k' = a
      · subst h; simp
      · have hv' : (k' == a) = false := by simp [h]
        simp only [List.map_cons, beq_self_eq_true, if_true, List.lookup_cons, hv', ih, h, if_false]
    · have ha' : (a == k) = false := by simp [ha]
      by_cases h : k' = k
      · subst h
        have hv' : (k' == a) = false := by simp [Ne.symm ha]
        simp only [List.map_cons, ha', Bool.false_eq_true, if_false, List.lookup_cons, hv', ih, if_true]
      · by_cases h2 : k' = a
        · subst h2
          simp [ha', h]
        · have hv' : (k' == a) = false := by simp [h2]
          simp only [List.map_cons, ha', Bool.false_eq_true, if_false, List.lookup_cons, hv', ih, h]

theorem mapGet_mapSet (m : ObjMap) (k : Nat) (x : Obj) (k' : Nat) :
    mapGet (mapSet m k x) k' = if k' = k then x else mapGet m k' := by
  unfold mapGet mapSet
  by_cases hs : (m.lookup k).isSome = true
  · simp only [hs, if_true, lookup_upd]
    by_cases h : k' = k <;> simp [h]
  · simp only [hs, Bool.false_eq_true, if_false, lookup_snocO]
    by_cases h : k' = k
    · subst h
      have : m.lookup k' = none := by
        cases hl : m.lookup k' with
        | none => rfl
        | some y => simp [hl] at hs
      simp [this]
    · cases m.lookup k' <;> simp [h]

theorem keys_mapSet (m : ObjMap) (k : Nat) (x : Obj) :
    keys (mapSet m k x) = if k ∈ keys m then keys m else keys m ++ [k] := by
  unfold mapSet
  by_cases hs : (m.lookup k).isSome = true
  · have hk : k ∈ List.map Prod.fst m := (lookup_isSome_iff m k).mp hs
    simp only [hs, if_true, hk, keys, List.map_map]
    apply List.map_congr_left
    intro e _
    by_cases h : e.1 = k <;> simp [h]
  · have hk : k ∉ List.map Prod.fst m := fun h => hs ((lookup_isSome_iff m k).mpr h)
    simp [hs, hk, keys]

/-! ### the collection phase -/

/-- pointer value read through `q` in the tree `L` -/
def kv (L : List Arg) (q : Path) : Option Nat := (derefL L q).bind ptrVal
def isPrimP (q : Path) : Bool := decide (q.head? = some 0)

/-- one call of the closure `visit` -/
def vstep (L : List Arg) (prim : Bool) (o : ObjMap) (q : Path) : ObjMap :=
  match kv L q with
  | some v => mapSet o v { args := (mapGet o v).args ++ [q], inPrimary := (mapGet o v).inPrimary || prim }
  | none => o

structure CInv (L : List Arg) (o : ObjMap) (done : List Path) : Prop where
  nodup : (keys o).Nodup
  mem : ∀ v, v ∈ keys o ↔ v ∈ done.filterMap (kv L)
  args : ∀ v, (mapGet o v).args = done.filter (isK L v)
  prim : ∀ v, (mapGet o v).inPrimary = done.any (fun q => isK L v q && isPrimP q)

theorem isK_eq (L : List Arg) (v : Nat) (q : Path) : isK L v q = (kv L q == some v) := rfl

theorem CInv_nil (L : List Arg) : CInv L [] [] :=
  ⟨by simp [keys], by simp [keys], by simp [mapGet], by simp [mapGet]⟩

theorem CInv_step (L : List Arg) (o : ObjMap) (done : List Path) (q : Path) (h : CInv L o done) :
    CInv L (vstep L (isPrimP q) o q) (done ++ [q]) := by
  unfold vstep
  cases hk : kv L q with
  | none =>
    refine ⟨h.nodup, ?_, ?_, ?_⟩
    · intro v; rw [h.mem v]; simp [List.filterMap_append, hk]
    · intro v; rw [h.args v]; simp [List.filter_append, isK_eq, hk]
    · intro v; rw [h.prim v]; simp [List.any_append, isK_eq, hk]
  | some w =>
    refine ⟨?_, ?_, ?_, ?_⟩
    · rw [keys_mapSet]
      by_cases hw : w ∈ keys o
      · simp only [hw, if_true]; exact h.nodup
      · simp only [hw, if_false]
        exact List.nodup_append.mpr ⟨h.nodup, by simp, by
          intro a ha b hb
          simp only [List.mem_singleton] at hb
          subst hb
          exact fun e => hw (e ▸ ha)⟩
    · intro v
      rw [keys_mapSet]
      have hm := h.mem v
      by_cases hw : w ∈ keys o
      · simp only [hw, if_true, List.filterMap_append, List.mem_append, hm]
        constructor
        · exact Or.inl
        · intro h'
          cases h' with
          | inl h' => exact h'
          | inr h' =>
            simp only [List.filterMap_cons, hk, List.filterMap_nil, List.mem_singleton] at h'
            subst h'
            exact (h.mem v).mp hw
      · simp only [hw, if_false, List.filterMap_append, List.mem_append, hm, List.filterMap_cons, hk,
          List.filterMap_nil, List.mem_singleton]
    · intro v
      rw [mapGet_mapSet]
      by_cases hv : v = w
      · subst hv
        simp [h.args v, List.filter_append, isK_eq, hk]
      · have : (some w == some v) = false := by simp [Ne.symm hv]
        simp [hv, h.args v, List.filter_append, isK_eq, hk, this]
    · intro v
      rw [mapGet_mapSet]
      by_cases hv : v = w
      · subst hv
        simp [h.prim v, List.any_append, isK_eq, hk]
      · have : (some w == some v) = false := by simp [Ne.symm hv]
        simp [hv, h.prim v, List.any_append, isK_eq, hk, this]

theorem CInv_fold (L : List Arg) : ∀ (qs : List Path) (o : ObjMap) (done : List Path), CInv L o done →
    CInv L (qs.foldl (fun o q => vstep L (isPrimP q) o q) o) (done ++ qs)
  | [], o, done, h => by simpa using h
  | q :: qs, o, done, h => by
    have := CInv_fold L qs _ _ (CInv_step L o done q h)
    simpa using this

/-- the pointer can be read and points to a non-aggregate argument -/
def Valid (gs : List Goroutine) (q : Path) : Prop := ∃ n v b o i, ptrGet gs q = some (.scalar n v b o i)

theorem visit_eq (gs : List Goroutine) (prim : Bool) (g c j : Nat) (r : Path) (o : ObjMap)
    (h : Valid gs (g :: c :: j :: r)) :
    nameArguments_visit (modelEnv ord) gs prim (g :: c :: j :: r) o
      = some (vstep (enc gs) prim o (g :: c :: j :: r)) := by
  obtain ⟨n, v, b, o', i, hg⟩ := h
  have hd : derefL (enc gs) (g :: c :: j :: r) = some (.scalar n v b o' i) := by
    rw [← ptrGet_enc]; exact hg
  cases b with
  | false => simp [nameArguments_visit, hg, vstep, kv, hd, ptrVal]
  | true => simp [nameArguments_visit, hg, vstep, kv, hd, ptrVal]

theorem visit_loop (gs : List Goroutine) (prim : Bool) (i j : Nat) : ∀ (ps : List Path) (n : Nat) (o : ObjMap),
    (∀ p ∈ ps, ∃ j' r, p = j' :: r ∧ Valid gs (i :: j :: p)) →
    forIdx (fun _ _p objects => nameArguments_visit (modelEnv ord) gs prim (i :: j :: _p) objects) ps n o
      = some (ps.foldl (fun o p => vstep (enc gs) prim o (i :: j :: p)) o)
  | [], n, o, _ => rfl
  | p :: ps, n, o, h => by
    obtain ⟨j', r, rfl, hv⟩ := h p (by simp)
    rw [forIdx_cons, visit_eq ord gs prim i j j' r o hv]
    exact visit_loop gs prim i j ps (n + 1) _ (fun q hq => h q (by simp [hq]))

theorem calls_loop (gs : List Goroutine) (prim : Bool) (i : Nat) : ∀ (cs : List Call) (j0 : Nat) (o : ObjMap),
    (∀ q ∈ walkPathsFrom (cs.map encC) j0, Valid gs (i :: q)) →
    forIdx (fun _j c objects => nameArguments_loop2 (modelEnv ord) gs prim i _j c objects) cs j0 o
      = some ((walkPathsFrom (cs.map encC) j0).foldl (fun o q => vstep (enc gs) prim o (i :: q)) o)
  | [], j0, o, _ => rfl
  | c :: cs, j0, o, h => by
    rw [forIdx_cons]
    have hw : walkPathsFrom ((c :: cs).map encC) j0
        = reroot [j0] (walkPaths c.args.values) ++ walkPathsFrom (cs.map encC) (j0 + 1) := by
      simp [walkPathsFrom, encC, argPaths, walkPaths]
    rw [hw] at h ⊢
    have h1 : nameArguments_loop2 (modelEnv ord) gs prim i j0 c o
        = some ((walkPaths c.args.values).foldl (fun o p => vstep (enc gs) prim o (i :: j0 :: p)) o) := by
      simp only [nameArguments_loop2, mE_walk]
      apply visit_loop
      intro p hp
      obtain ⟨j', r, rfl⟩ := walkPathsFrom_ne_nil _ _ _ hp
      refine ⟨j', r, rfl, h _ ?_⟩
      simp only [reroot, List.mem_append, List.mem_map]
      exact Or.inl ⟨_, hp, rfl⟩
    rw [h1]
    simp only [List.foldl_append, reroot, List.foldl_map, List.cons_append, List.nil_append]
    exact calls_loop gs prim i cs (j0 + 1) _ (fun q hq => h q (by simp [hq]))

theorem gor_loop (gs : List Goroutine) : ∀ (gl : List Goroutine) (i0 : Nat) (o : ObjMap),
    (∀ q ∈ walkPathsFrom (enc gl) i0, Valid gs q) →
    forIdx (fun i g objects => nameArguments_loop1 (modelEnv ord) gs i g objects) gl i0 o
      = some ((walkPathsFrom (enc gl) i0).foldl (fun o q => vstep (enc gs) (isPrimP q) o q) o)
  | [], _, o, _ => rfl
  | G :: gl, i0, o, h => by
    rw [forIdx_cons]
    have hw : walkPathsFrom (enc (G :: gl)) i0
        = reroot [i0] (walkPathsFrom (G.sig.stack.calls.map encC) 0) ++ walkPathsFrom (enc gl) (i0 + 1) := by
      simp [enc, walkPathsFrom, encG, argPaths]
    rw [hw] at h ⊢
    have h1 : nameArguments_loop1 (modelEnv ord) gs i0 G o
        = some ((walkPathsFrom (G.sig.stack.calls.map encC) 0).foldl
            (fun o q => vstep (enc gs) (decide (i0 = 0)) o (i0 :: q)) o) := by
      simp only [nameArguments_loop1]
      apply calls_loop
      intro q hq
      apply h
      simp only [reroot, List.mem_append, List.mem_map]
      exact Or.inl ⟨_, hq, rfl⟩
    rw [h1]
    simp only [List.foldl_append, reroot, List.foldl_map, List.cons_append, List.nil_append]
    have hf : (fun (o : ObjMap) (q : Path) => vstep (enc gs) (isPrimP (i0 :: q)) o (i0 :: q))
        = (fun o q => vstep (enc gs) (decide (i0 = 0)) o (i0 :: q)) := by
      funext o q; simp [isPrimP]
    rw [hf]
    exact gor_loop gs gl (i0 + 1) _ (fun q hq => h q (by simp [hq]))

theorem valid_all (gs : List Goroutine) : ∀ q ∈ walkPaths (enc gs), Valid gs q := by
  intro q hq
  obtain ⟨g, c, j, r, rfl⟩ := mem_walkPaths_enc gs 0 q hq
  obtain ⟨n, v, b, o, i, h⟩ := walkPaths_valid (enc gs) _ hq
  exact ⟨n, v, b, o, i, by rw [ptrGet_enc]; exact h⟩

/-- the map `objects` after the collection phase -/
def collected (gs : List Goroutine) : ObjMap :=
  (walkPaths (enc gs)).foldl (fun o q => vstep (enc gs) (isPrimP q) o q) []

theorem collect_eq (gs : List Goroutine) :
    forIdx (fun i g objects => nameArguments_loop1 (modelEnv ord) gs i g objects) gs 0 [] = some (collected gs) :=
  gor_loop ord gs gs 0 [] (valid_all gs)

theorem collected_inv (gs : List Goroutine) : CInv (enc gs) (collected gs) (walkPaths (enc gs)) := by
  have := CInv_fold (enc gs) (walkPaths (enc gs)) [] [] (CInv_nil _)
  simpa [collected] using this

/-! ### the collected pointer values are the model's -/

theorem ptrsL_encC : ∀ cs : List Call, Arg.ptrsL (cs.map encC) = cs.flatMap (fun c => Arg.ptrsL c.args.values)
  | [] => by simp [Arg.ptrsL]
  | c :: cs => by simp [Arg.ptrsL, Arg.ptrs, encC, ptrsL_encC cs]

theorem ptrsL_enc : ∀ gs : List Goroutine, Arg.ptrsL (enc gs) = allOf gs
  | [] => by simp [enc, Arg.ptrsL, allOf]
  | G :: gs => by
    have := ptrsL_enc gs
    simp only [enc, allOf] at this
    simp [enc, allOf, Arg.ptrsL, Arg.ptrs, encG, ptrsL_encC, Goroutine.ptrs, this]

theorem filterMap_kv (gs : List Goroutine) : (walkPaths (enc gs)).filterMap (kv (enc gs)) = allOf gs := by
  rw [← ptrsL_enc]; exact walkPaths_ptrs (enc gs)

theorem any_eq_contains {α : Type} (f : α → Option Nat) (v : Nat) : ∀ l : List α,
    l.any (fun q => f q == some v) = (l.filterMap f).contains v
  | [] => rfl
  | a :: l => by
    cases h : f a with
    | none => simp [h, any_eq_contains f v l]
    | some w =>
      simp only [List.any_cons, h, List.filterMap_cons, List.contains_cons, any_eq_contains f v l]
      congr 1
      by_cases e : w = v
      · subst e; rfl
      · have e' : ¬ v = w := fun h => e h.symm
        have e2 : some w ≠ some v := fun h => e (Option.some.inj h)
        rw [beq_eq_false_iff_ne.mpr e2, beq_eq_false_iff_ne.mpr e']

theorem any_congr_mem {α : Type} (f g : α → Bool) : ∀ (l : List α), (∀ x ∈ l, f x = g x) → l.any f = l.any g
  | [], _ => rfl
  | a :: l, h => by
    simp only [List.any_cons, h a (by simp), any_congr_mem f g l (fun x hx => h x (by simp [hx]))]

theorem walkPathsFrom_head : ∀ (l : List Arg) (i : Nat) (p : Path), p ∈ walkPathsFrom l i →
    ∃ j q, p = j :: q ∧ i ≤ j
  | [], _, _, h => by simp [walkPathsFrom] at h
  | a :: as, i, p, h => by
    rw [walkPathsFrom, List.mem_append] at h
    cases h with
    | inr h =>
      obtain ⟨j, q, e, hle⟩ := walkPathsFrom_head as (i + 1) p h
      exact ⟨j, q, e, by omega⟩
    | inl h =>
      cases a with
      | scalar n v b o k =>
        simp only [argPaths, List.mem_singleton] at h
        exact ⟨i, [], h, Nat.le_refl _⟩
      | agg fs e =>
        simp only [argPaths, reroot, List.mem_map] at h
        obtain ⟨q, _, rfl⟩ := h
        exact ⟨i, q, rfl, Nat.le_refl _⟩

theorem prim_link (gs : List Goroutine) (v : Nat) :
    (walkPaths (enc gs)).any (fun q => isK (enc gs) v q && isPrimP q) = (primOf gs).contains v := by
  cases gs with
  | nil => simp [enc, walkPaths, walkPathsFrom, primOf]
  | cons G rest =>
    have hw : walkPaths (enc (G :: rest))
        = reroot [0] (walkPathsFrom (G.sig.stack.calls.map encC) 0) ++ walkPathsFrom (enc rest) 1 := by
      simp [walkPaths, enc, walkPathsFrom, encG, argPaths]
    rw [hw, List.any_append]
    have h2 : (walkPathsFrom (enc rest) 1).any (fun q => isK (enc (G :: rest)) v q && isPrimP q) = false := by
      rw [List.any_eq_false]
      intro q hq
      obtain ⟨j, r, rfl, hle⟩ := walkPathsFrom_head _ _ _ hq
      have : j ≠ 0 := by omega
      simp [isPrimP, this]
    have h1 : (reroot [0] (walkPathsFrom (G.sig.stack.calls.map encC) 0)).any
          (fun q => isK (enc (G :: rest)) v q && isPrimP q)
        = (walkPaths (G.sig.stack.calls.map encC)).any
            (fun q => kv (G.sig.stack.calls.map encC) q == some v) := by
      simp only [reroot, List.any_map, walkPaths]
      apply any_congr_mem
      intro q hq
      obtain ⟨j, r, rfl⟩ := walkPathsFrom_ne_nil _ _ _ hq
      have hd := derefL_under [] (enc rest) (G.sig.stack.calls.map encC) false j r
      simp only [List.length_nil, List.nil_append, List.cons_append, enc] at hd
      simp [Function.comp, isK, kv, isPrimP, enc, encG, hd]
    rw [h1, h2, Bool.or_false, any_eq_contains,
      show (walkPaths (G.sig.stack.calls.map encC)).filterMap (kv (G.sig.stack.calls.map encC)) = _ from
        walkPaths_ptrs _, ptrsL_encC]
    simp [primOf, Goroutine.ptrs]

/-! ### the two key orders -/

theorem loop3_eq : ∀ (es : ObjMap) (n : Nat) (acc : List Nat),
    forIdx (fun _ _e order => nameArguments_loop3 (modelEnv ord) _e.1 _e.2 order) es n acc
      = some (acc ++ (es.filter (fun e => decide (e.2.args.length > 1) && e.2.inPrimary)).map Prod.fst)
  | [], n, acc => by simp
  | e :: es, n, acc => by
    rw [forIdx_cons]
    cases h : (decide (e.2.args.length > 1) && e.2.inPrimary) with
    | true =>
      have hb : nameArguments_loop3 (modelEnv ord) e.1 e.2 acc = some (acc ++ [e.1]) := by
        simp [nameArguments_loop3, h]
      simp only [hb]
      rw [loop3_eq es]
      simp [List.filter_cons, h]
    | false =>
      have hb : nameArguments_loop3 (modelEnv ord) e.1 e.2 acc = some acc := by
        simp [nameArguments_loop3, h]
      simp only [hb]
      rw [loop3_eq es]
      simp [List.filter_cons, h]

theorem loop6_eq : ∀ (es : ObjMap) (n : Nat) (acc : List Nat),
    forIdx (fun _ _e order => nameArguments_loop6 (modelEnv ord) _e.1 order) es n acc
      = some (acc ++ es.map Prod.fst)
  | [], n, acc => by simp
  | e :: es, n, acc => by
    rw [forIdx_cons]
    have hb : nameArguments_loop6 (modelEnv ord) e.1 acc = some (acc ++ [e.1]) := rfl
    simp only [hb]
    rw [loop6_eq es]
    simp

theorem mE_less2 (x y : Nat) : (modelEnv ord).less [x, y] 0 1 = some (decide (x < y)) := by
  simp [modelEnv]

theorem sorted_perm_unique (a r : List Nat) (hnd : a.Nodup) (hp : r.Perm a) (hr : r.Pairwise (· ≤ ·)) :
    r = sortDedup a := by
  have hsd : (sortDedup a).Pairwise (· ≤ ·) := (sortDedup_sorted a).imp (fun h => Nat.le_of_lt h)
  have hnd2 : (sortDedup a).Nodup := (sortDedup_sorted a).imp (fun h => Nat.ne_of_lt h)
  have hperm : r.Perm (sortDedup a) :=
    hp.trans ((List.perm_ext_iff_of_nodup hnd hnd2).mpr (fun _ => mem_sortDedup.symm))
  exact List.Perm.eq_of_pairwise (le := (· ≤ ·)) (fun _ _ _ _ h1 h2 => Nat.le_antisymm h1 h2) hr hsd hperm

/-- `sort.Sort` of a duplicate-free `uint64Slice` with the translated `Less` -/
theorem sort_model (a : List Nat) (hnd : a.Nodup) : goSortSort (modelEnv ord).less a = some (sortDedup a) := by
  unfold goSortSort
  have hall : (a.all fun x => a.all fun y => ((modelEnv ord).less [x, y] 0 1).isSome) = true := by
    simp [mE_less2]
  rw [if_pos hall]
  congr 1
  apply sorted_perm_unique a _ hnd (List.mergeSort_perm _ _)
  have hpw := List.pairwise_mergeSort (le := fun x y => !(((modelEnv ord).less [y, x] 0 1).getD false))
    (by intro x y z; simp [mE_less2]; omega) (by intro x y; simp [mE_less2]; omega) a
  refine hpw.imp ?_
  intro x y h
  simpa [mE_less2] using h

theorem sorted_ext (l1 l2 : List Nat) (h1 : l1.Pairwise (· < ·)) (h2 : l2.Pairwise (· < ·))
    (hm : ∀ x, x ∈ l1 ↔ x ∈ l2) : l1 = l2 :=
  List.Perm.eq_of_pairwise (le := (· ≤ ·)) (fun _ _ _ _ a b => Nat.le_antisymm a b)
    (h1.imp (fun h => Nat.le_of_lt h)) (h2.imp (fun h => Nat.le_of_lt h))
    ((List.perm_ext_iff_of_nodup (h1.imp (fun h => Nat.ne_of_lt h)) (h2.imp (fun h => Nat.ne_of_lt h))).mpr hm)

theorem mem_lookup_nodup : ∀ (m : ObjMap) (k : Nat) (x : Obj), (keys m).Nodup → (k, x) ∈ m → m.lookup k = some x
  | [], _, _, _, h => by simp at h
  | (a, b) :: m, k, x, hnd, h => by
    simp only [keys, List.map_cons, List.nodup_cons] at hnd
    simp only [List.mem_cons, Prod.mk.injEq] at h
    cases h with
    | inl h => obtain ⟨rfl, rfl⟩ := h; simp
    | inr h =>
      have hk : k ≠ a := fun e => hnd.1 (e ▸ List.mem_map.mpr ⟨(k, x), h, rfl⟩)
      have hv' : (k == a) = false := by simp [hk]
      simp only [List.lookup_cons, hv']
      exact mem_lookup_nodup m k x hnd.2 h

theorem count_link {α : Type} (f : α → Option Nat) (x : Nat) : ∀ l : List α,
    (l.filter (fun q => f q == some x)).length = countOcc x (l.filterMap f)
  | [] => rfl
  | a :: l => by
    have ih := count_link f x l
    unfold countOcc at ih ⊢
    cases h : f a with
    | none => simp [List.filter_cons, h, ih]
    | some w =>
      by_cases e : w = x
      · subst e; simp [List.filter_cons, h, ih]
      · have e2 : some w ≠ some x := fun h => e (Option.some.inj h)
        simp [List.filter_cons, h, ih, beq_eq_false_iff_ne.mpr e2, beq_eq_false_iff_ne.mpr e]

section facts
variable (gs : List Goroutine)

theorem C_args (v : Nat) : (mapGet (collected gs) v).args = (walkPaths (enc gs)).filter (isK (enc gs) v) :=
  (collected_inv gs).args v

theorem C_prim (v : Nat) : (mapGet (collected gs) v).inPrimary = (primOf gs).contains v := by
  rw [(collected_inv gs).prim v, prim_link]

theorem C_keys (v : Nat) : v ∈ keys (collected gs) ↔ v ∈ allOf gs := by
  rw [(collected_inv gs).mem v, filterMap_kv]

theorem C_len (v : Nat) : (mapGet (collected gs) v).args.length = countOcc v (allOf gs) := by
  rw [C_args, ← filterMap_kv]
  exact count_link (kv (enc gs)) v _

theorem C_entry (hord : ∀ m, (ord m).Perm m) (e : Nat × Obj) (he : e ∈ ord (collected gs)) :
    e.2 = mapGet (collected gs) e.1 := by
  have he' : (e.1, e.2) ∈ collected gs := (hord _).mem_iff.mp he
  simp [mapGet, mem_lookup_nodup _ _ _ (collected_inv gs).nodup he']

theorem order1_eq (hord : ∀ m, (ord m).Perm m) :
    goSortSort (modelEnv ord).less
        (((ord (collected gs)).filter (fun e => decide (e.2.args.length > 1) && e.2.inPrimary)).map Prod.fst)
      = some (keys1 gs) := by
  have hnd0 : ((ord (collected gs)).map Prod.fst).Nodup :=
    ((hord _).map Prod.fst).nodup_iff.mpr (collected_inv gs).nodup
  have hnd : (((ord (collected gs)).filter
      (fun e => decide (e.2.args.length > 1) && e.2.inPrimary)).map Prod.fst).Nodup :=
    hnd0.sublist ((List.filter_sublist).map Prod.fst)
  rw [sort_model ord _ hnd]
  congr 1
  apply sorted_ext _ _ (sortDedup_sorted _) ((sortDedup_sorted _).filter _)
  intro x
  rw [mem_sortDedup]
  show _ ↔ x ∈ keys1 gs
  rw [mem_keys1, List.mem_map]
  constructor
  · rintro ⟨e, he, rfl⟩
    rw [List.mem_filter] at he
    obtain ⟨he, hp⟩ := he
    have hv := C_entry ord gs hord e he
    have hk : e.1 ∈ keys (collected gs) := List.mem_map.mpr ⟨e, (hord _).mem_iff.mp he, rfl⟩
    rw [hv, C_len, C_prim] at hp
    simp only [Bool.and_eq_true, decide_eq_true_eq, List.contains_iff_mem] at hp
    exact ⟨(C_keys gs _).mp hk, hp.2, hp.1⟩
  · rintro ⟨h1, h2, h3⟩
    have hk := (C_keys gs x).mpr h1
    obtain ⟨e, he, rfl⟩ := List.mem_map.mp hk
    have he' := (hord _).mem_iff.mpr he
    refine ⟨e, ?_, rfl⟩
    rw [List.mem_filter]
    refine ⟨he', ?_⟩
    rw [C_entry ord gs hord e he', C_len, C_prim]
    simp only [Bool.and_eq_true, decide_eq_true_eq, List.contains_iff_mem]
    exact ⟨h3, h2⟩

theorem order2_eq (hord : ∀ m, (ord m).Perm m) :
    goSortSort (modelEnv ord).less ((ord (collected gs)).map Prod.fst) = some (sortDedup (allOf gs)) := by
  have hnd0 : ((ord (collected gs)).map Prod.fst).Nodup :=
    ((hord _).map Prod.fst).nodup_iff.mpr (collected_inv gs).nodup
  rw [sort_model ord _ hnd0]
  congr 1
  apply sorted_ext _ _ (sortDedup_sorted _) (sortDedup_sorted _)
  intro x
  rw [mem_sortDedup, mem_sortDedup, ← C_keys]
  exact ((hord _).map Prod.fst).mem_iff

end facts

/-! ### the naming loops -/

theorem numbering_snoc (l : List Nat) (k : Nat) : numbering (l ++ [k]) = numbering l ++ [(k, l.length + 1)] := by
  simp [numbering, List.zipIdx_append]

mutual
theorem rename_nilA : ∀ a : Arg, Arg.rename [] a = a
  | .scalar n v b o i => by cases b <;> simp [Arg.rename]
  | .agg fs e => by simp only [Arg.rename, rename_nilL fs]
theorem rename_nilL : ∀ l : List Arg, Arg.renameL [] l = l
  | [] => rfl
  | a :: as => by simp only [Arg.renameL, rename_nilA a, rename_nilL as]
end

theorem rename_nil_map (gs : List Goroutine) : gs.map (Goroutine.rename []) = gs := by
  have h : ∀ g : Goroutine, Goroutine.rename [] g = g := by
    intro g
    rcases g with ⟨⟨st, cb, smin, smax, ⟨calls, el⟩, lk⟩, gid, first, rw', ra⟩
    have hf : (fun c : Call => ({ c with args := { c.args with values := Arg.renameL [] c.args.values } } : Call))
        = id := by
      funext c; simp [rename_nilL]
    simp [Goroutine.rename, hf]
  rw [show Goroutine.rename [] = id from funext h, List.map_id]

/-- the state of the naming loops after the keys `done` -/
def nstate (gs : List Goroutine) (done : List Nat) : List Goroutine × Nat :=
  (gs.map (Goroutine.rename (numbering done)), done.length + 1)

theorem name_step (gs : List Goroutine) (done : List Nat) (k : Nat) (hk : k ∉ done) :
    forIdx (fun _ arg goroutines => ptrSetName goroutines arg (goSprintfHashD (done.length + 1)))
        (mapGet (collected gs) k).args 0 (gs.map (Goroutine.rename (numbering done)))
      = some (gs.map (Goroutine.rename (numbering (done ++ [k])))) := by
  rw [C_args, name_key gs (numbering done) k (done.length + 1) (by rw [numbering_fst]; exact hk) 0, numbering_snoc]

theorem out1 (gs : List Goroutine) : ∀ (ks done : List Nat) (n : Nat), (done ++ ks).Nodup →
    forIdx (fun _ k _st => nameArguments_loop4 (modelEnv ord) (collected gs) k _st) ks n (nstate gs done)
      = some (nstate gs (done ++ ks))
  | [], done, n, _ => by simp
  | k :: ks, done, n, hnd => by
    rw [forIdx_cons]
    have hk : k ∉ done := by
      intro h
      have := (List.nodup_append.mp hnd).2.2 k h k (by simp)
      exact this rfl
    have h4 : nameArguments_loop4 (modelEnv ord) (collected gs) k (nstate gs done) = some (nstate gs (done ++ [k])) := by
      simp only [nameArguments_loop4, nameArguments_loop5, nstate, name_step gs done k hk]
      simp
    simp only [h4]
    have := out1 gs ks (done ++ [k]) (n + 1) (by simpa using hnd)
    simpa using this

theorem out2 (gs : List Goroutine) : ∀ (ks done : List Nat) (n : Nat),
    (done ++ ks.filter (fun v => !(primOf gs).contains v)).Nodup →
    forIdx (fun _ k _st => nameArguments_loop7 (modelEnv ord) (collected gs) k _st) ks n (nstate gs done)
      = some (nstate gs (done ++ ks.filter (fun v => !(primOf gs).contains v)))
  | [], done, n, _ => by simp
  | k :: ks, done, n, hnd => by
    rw [forIdx_cons]
    cases hp : (primOf gs).contains k with
    | true =>
      have h7 : nameArguments_loop7 (modelEnv ord) (collected gs) k (nstate gs done) = some (nstate gs done) := by
        simp only [nameArguments_loop7, nstate, C_prim, hp, if_true]
      simp only [h7]
      have hf : (k :: ks).filter (fun v => !(primOf gs).contains v) = ks.filter (fun v => !(primOf gs).contains v) := by
        rw [List.filter_cons, hp]; rfl
      rw [hf] at hnd ⊢
      exact out2 gs ks done (n + 1) hnd
    | false =>
      have hf : (k :: ks).filter (fun v => !(primOf gs).contains v) = k :: ks.filter (fun v => !(primOf gs).contains v) := by
        rw [List.filter_cons, hp]; rfl
      rw [hf] at hnd ⊢
      have hk : k ∉ done := by
        intro h
        have := (List.nodup_append.mp hnd).2.2 k h k (by simp)
        exact this rfl
      have h7 : nameArguments_loop7 (modelEnv ord) (collected gs) k (nstate gs done) = some (nstate gs (done ++ [k])) := by
        simp only [nameArguments_loop7, nameArguments_loop8, nstate, C_prim, hp, Bool.false_eq_true, if_false,
          name_step gs done k hk]
        simp
      simp only [h7]
      have := out2 gs ks (done ++ [k]) (n + 1) (by simpa using hnd)
      simpa using this

/-- `nameArguments`: for every goroutine list and every order in which a `range` over the map may visit its
keys, the translated function yields the model's `nameArguments` (and does not panic) -/
theorem tie_nameArguments (hord : ∀ m, (ord m).Perm m) (gs : List Goroutine) :
    nameArguments (modelEnv ord) gs = (modelEnv ord).nameArguments gs := by
  have hnd := keys_nodup gs
  have h0 : (gs, 1) = nstate gs [] := by simp [nstate, numbering, rename_nil_map]
  have h1 := out1 ord gs (keys1 gs) [] 0 (by simpa using (List.nodup_append.mp hnd).1)
  have h2 := out2 ord gs (sortDedup (allOf gs)) (keys1 gs) 0 hnd
  simp only [List.nil_append] at h1
  have hmo : (modelEnv ord).mapOrder = ord := rfl
  have hna : (modelEnv ord).nameArguments gs = some (PP.nameArguments gs) := rfl
  unfold nameArguments
  simp only [hmo, hna, collect_eq ord gs, loop3_eq, loop6_eq, List.nil_append, order1_eq ord gs hord, order2_eq ord gs hord,
    h0, h1, h2]
  show some (nstate gs (keys1 gs ++ keys2 gs)).1 = some (PP.nameArguments gs)
  simp only [nstate, PP.nameArguments, nameTable_eq]

/-- `nameArguments` never panics (and the path reading of its pointers is never refused) -/
theorem nameArguments_no_panic (hord : ∀ m, (ord m).Perm m) (gs : List Goroutine) :
    nameArguments (modelEnv ord) gs ≠ none := by
  rw [tie_nameArguments ord hord]; simp [modelEnv]

/-! ### non-vacuity -/

/-- two goroutines; the pointer 5 occurs in both, 3 twice in the second, 1 once in the second -/
def exGs : List Goroutine :=
  [{ sig := { stack := { calls := [{ args := { values := [.scalar [] 5 true false false] } }] } } },
   { sig := { stack := { calls := [{ args := { values := [.scalar [] 5 true false false, .scalar [] 3 true false false,
       .agg [.scalar [] 3 true false false, .scalar [] 1 true false false, .scalar [] 1 false false false] false] } }] } } }]

/-- the argument names of a result, flattened -/
def namesOf (r : Option (List Goroutine)) : Option (List Bytes) :=
  r.map fun gs => (leavesL (enc gs)).map fun a => (ofArg a).name

example : namesOf (nameArguments (modelEnv List.reverse) exGs)
    = some [b!"#1", b!"#1", b!"#3", b!"#3", b!"#2", b!""] := by
  rw [tie_nameArguments List.reverse (fun m => List.reverse_perm m)]
  decide

#print axioms tie_walk
#print axioms tie_len
#print axioms tie_less
#print axioms tie_swap
#print axioms less_spec
#print axioms sort_unique
#print axioms deref_walkPaths
#print axioms walkPaths_valid
#print axioms walkPaths_ptrs
#print axioms foldl_walkPaths
#print axioms name_key
#print axioms sort_model
#print axioms tie_nameArguments
#print axioms nameArguments_no_panic

end PP.TrN
