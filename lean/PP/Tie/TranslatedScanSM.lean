import PP.TranslatedScanSM
import PP.Lemmas.ScanInv
/-
Tie A, translated part 6: the scanner state machine `(*scanningState).scan` of
stack/context.go and its helpers `parseFunc`, `parseFile`, translated from the Go
source on every run (`PP/TranslatedScanSM.lean`, by `extract/translate_scansm.go`)
and proved equal to the hand-written model `PP/Model/Scan.lean` (`scanBytes` =
`scan ∘ classify`, `parseFunc`, `parseFile`) that the scanner theorems (C01, C03,
C07, C08, C10) are about.

`tie_scan` holds for EVERY state `s : S` and every line — no representation
invariant is needed: where the Go code panics (nil `cur`, index out of range,
`panic("internal failure…")`) the translated term is `none` and the model yields
`Except.error` (`liftR`); `scan_safe` (PP/Lemmas/ScanInv.lean) shows separately
that none of this happens on states reachable from the initial one.

What is trusted (see `PP/Go/PreludeScanSM.lean` and the header of
`extract/translate_scansm.go`): the hand matchers for the regular expressions,
`funcInit` (= `(*Func).Init` on a zero receiver), `Call.init`, `parseArgs`, `atou`,
`trimLeftSpace`, `isFramesElidedLine` (the last four tied in group Scan),
`parseUint0`, `splitOn`, and the data abstraction (slices as lists, nil = empty;
a slice of distinct pointers as the list of the pointees; `state` as `St`).
-/
set_option linter.unusedSimpArgs false
set_option linter.unusedVariables false
namespace PP.TrSM
open PP PP.Go Bytes

/-- the error formats of the Go source and the tags of the model's `Err` the translator maps them to
(`"="`: `"%s on line: %q"` wraps an error and keeps its tag).  Breaks when an error message of
`scan` / `parseFunc` / `parseFile` is added, removed or reworded. -/
theorem pin_errorSites : errorSites = [
    ("%s on line: %q", "="),
    ("expected a file after a created line, got: %q", "fileAfterCreated"),
    ("expected a file after a function, got: %q", "fileAfterFunc"),
    ("expected a file after a race function, got: %q", "raceFile"),
    ("expected a function after a goroutine header, got: %q", "funcAfterHeader"),
    ("expected a function after a race operation or a race file, got: %q", "raceFuncOrFile"),
    ("expected a function after a race operation, got: %q", "raceFunc"),
    ("expected an empty line after a race file, got: %q", "raceEmptyAfterFile"),
    ("expected an operator or goroutine, got: %q", "raceOpOrGoroutine"),
    ("expected empty line after unavailable stack, got: %q", "emptyAfterUnavail"),
    ("expected race condition, got: %q", "raceExpected"),
    ("failed to parse address on line: %q", "raceAddr"),
    ("failed to parse goroutine id on line: %q", "raceId"),
    ("failed to parse int on line: %q", "fileInt"),
    ("inconsistent indentation: %q, expected %q", "indent"),
    ("internal error", "internal"),
    ("unexpected goroutine ID on line: %q", "raceUnknownGoroutine")] := rfl

/-- the model's result as the translated `scan` returns it: the receiver afterwards,
the processed flag and the error tag; a Go panic (`none`) for `Except.error` -/
def liftR : R → Option (S × (Bool × Option Err))
  | .ok (s, b, e) => some (s, (b, e))
  | .error _ => none

/-- the model's `parseFunc` as the translated function returns it: the Call (zero on entry) afterwards,
`found`, the error -/
def parseFuncResult (line : Bytes) : Call × (Bool × Option Err) :=
  match PP.parseFunc line with
  | none => ({}, (false, none))
  | some (c, e) => (c, (true, e))

/-- the model's `parseFile` as the translated function returns it -/
def parseFileResult (c : Call) (line : Bytes) : Call × (Bool × Option Err) :=
  match PP.parseFile line with
  | none => (c, (false, none))
  | some none => (c, (true, some .fileInt))
  | some (some pl) => (c.init pl.1 pl.2, (true, none))

def modelEnv : Env where
  parseFunc line := some (parseFuncResult line)
  parseFile c line := some (parseFileResult c line)
  scan s line := liftR (scanBytes s line)

@[simp] theorem mE_parseFunc (line : Bytes) : modelEnv.parseFunc line = some (parseFuncResult line) := rfl
@[simp] theorem mE_parseFile (c : Call) (line : Bytes) : modelEnv.parseFile c line = some (parseFileResult c line) := rfl
@[simp] theorem mE_scan (s : S) (line : Bytes) : modelEnv.scan s line = liftR (scanBytes s line) := rfl

/-! ### parseFunc, parseFile -/

theorem funcInitZ_ok {n : Bytes} {f : Func} (h : funcInit n = .ok f) : funcInitZ n = (f, none) := by
  simp [funcInitZ, h]
theorem funcInitZ_error {n : Bytes} {e : FErr} (h : funcInit n = .error e) :
    funcInitZ n = ({}, some (Err.ofFErr e)) := by
  simp [funcInitZ, h]
theorem goParseArgs_ok {b : Bytes} {a : Args} (h : PP.parseArgs b = .ok a) : goParseArgs b = (a, none) := by
  simp [goParseArgs, h]
theorem goParseArgs_error {b : Bytes} {e : ArgErr} (h : PP.parseArgs b = .error e) :
    goParseArgs b = ({}, some (Err.ofArgErr e)) := by
  simp [goParseArgs, h]
theorem goAtou_some {b : Bytes} {n : Nat} (h : atou b = some n) : goAtou b = (n, true) := by
  simp [goAtou, h]
theorem goAtou_none {b : Bytes} (h : atou b = none) : goAtou b = (0, false) := by
  simp [goAtou, h]

theorem tie_parseFunc (line : Bytes) : TrSM.parseFunc modelEnv line = modelEnv.parseFunc line := by
  match hm : matchFunc line with
  | none => simp [TrSM.parseFunc, parseFuncResult, PP.parseFunc, reFuncSubmatch, hm]
  | some (name, args) =>
    match hf : funcInit name with
    | .error e => simp [TrSM.parseFunc, parseFuncResult, PP.parseFunc, reFuncSubmatch, hm, hf, funcInitZ_error hf]
    | .ok f =>
      match ha : PP.parseArgs args with
      | .error e =>
        simp [TrSM.parseFunc, parseFuncResult, PP.parseFunc, reFuncSubmatch, hm, hf, ha, funcInitZ_ok hf, goParseArgs_error ha]
      | .ok a =>
        simp [TrSM.parseFunc, parseFuncResult, PP.parseFunc, reFuncSubmatch, hm, hf, ha, funcInitZ_ok hf, goParseArgs_ok ha]

theorem tie_parseFile (c : Call) (line : Bytes) : TrSM.parseFile modelEnv c line = modelEnv.parseFile c line := by
  match hm : matchFile line with
  | none => simp [TrSM.parseFile, parseFileResult, PP.parseFile, reFileSubmatch, hm]
  | some m =>
    match ha : atou m.line with
    | none => simp [TrSM.parseFile, parseFileResult, PP.parseFile, reFileSubmatch, hm, ha, goAtou_none ha]
    | some n => simp [TrSM.parseFile, parseFileResult, PP.parseFile, reFileSubmatch, hm, ha, goAtou_some ha]


/-! ### scan: the switch, state by state (`scan_join2` is the `switch s.state` of the Go function) -/

/-- the record `classify` builds from the stripped line -/
def lineOf (t : Bytes) (eol ind : Bool) : Line :=
  { hasEOL := eol, indentOK := ind, empty := t.isEmpty,
    header := parseHeader t,
    sep := t == Extracted.raceHeaderFooter,
    warn := t == Extracted.raceHeader,
    unavail := matchUnavail t,
    func := PP.parseFunc t,
    funcL := PP.parseFunc (PP.trimLeftSpace t),
    file := PP.parseFile t,
    created := (matchCreated t).map (fun n => match funcInit n with | .ok f => .ok f | .error e => .error (Err.ofFErr e)),
    elidedMark := PP.isFramesElidedLine t,
    raceOp := parseRaceOp (matchRaceOp t) Extracted.writeCap,
    racePrev := parseRaceOp (matchRacePrev t) Extracted.writeLow,
    raceGor := (matchRaceGoroutine t).map (fun (d, st) => (atou d, st)) }

@[simp] theorem liftR_ok (s : S) (b : Bool) (e : Option Err) : liftR (.ok (s, b, e)) = some (s, (b, e)) := rfl
@[simp] theorem liftR_error (p : Panic) : liftR (.error p) = none := rfl

@[simp] theorem liftR_ite (c : Prop) [Decidable c] (a b : R) :
    liftR (if c then a else b) = if c then liftR a else liftR b := by
  split <;> rfl

@[simp] theorem ptrLast_nil {α : Type} : ptrLast ([] : List α) = 0 := rfl
@[simp] theorem ptrLast_snoc {α : Type} (init : List α) (g : α) : ptrLast (init ++ [g]) = init.length := by
  simp [ptrLast]
@[simp] theorem get_snoc {α : Type} (init : List α) (g : α) : (init ++ [g])[init.length]? = some g := by
  simp
@[simp] theorem set_snoc {α : Type} (init : List α) (g g' : α) : (init ++ [g]).set init.length g' = init ++ [g'] := by
  simp
@[simp] theorem modifyLast_nil (f : Goroutine → Goroutine) : modifyLast [] f = none := rfl
attribute [simp] modifyLast_snoc

theorem gs_cases (gs : List Goroutine) : gs = [] ∨ ∃ init g, gs = init ++ [g] := by
  rcases List.eq_nil_or_concat gs with h | ⟨init, g, h⟩
  · exact Or.inl h
  · exact Or.inr ⟨init, g, by simpa using h⟩



@[simp] theorem goSub_succ_one (n : Nat) : goSub (n + 1) 1 = some n := by simp [goSub]
@[simp] theorem goSub_zero_one : goSub 0 1 = none := by simp [goSub]
@[simp] theorem initLast_nil (pl : Bytes × Nat) : initLast [] pl = none := rfl
@[simp] theorem initLast_snoc (cs : List Call) (c : Call) (pl : Bytes × Nat) :
    initLast (cs ++ [c]) pl = some (cs ++ [c.init pl.1 pl.2]) := by
  simp [initLast]

theorem list_cases {α : Type} (l : List α) : l = [] ∨ ∃ init x, l = init ++ [x] := by
  rcases List.eq_nil_or_concat l with h | ⟨init, g, h⟩
  · exact Or.inl h
  · exact Or.inr ⟨init, g, by simpa using h⟩

theorem sw_gotRoutineHeader (gs : List Goroutine) (gi : Nat) (pfx line t : Bytes) (eol : Bool) :
    scan_join2 modelEnv ⟨.gotRoutineHeader, gs, gi, pfx⟩ line (ptrLast gs) t =
      liftR (PP.scan ⟨.gotRoutineHeader, gs, gi, pfx⟩ (lineOf t eol true)) := by
  rcases gs_cases gs with rfl | ⟨init, g, rfl⟩
  · simp [scan_join2, PP.scan, lineOf, parseFuncResult]
    generalize PP.parseFunc t = r
    rcases r with _ | ⟨c, e⟩ <;> split <;> simp [*]
  · simp [scan_join2, PP.scan, lineOf, parseFuncResult, funcStep, curAppendCall, setStack]
    generalize PP.parseFunc t = r
    rcases r with _ | ⟨c, e⟩ <;> split <;> simp [*]

theorem sw_done (gs : List Goroutine) (gi : Nat) (pfx line t : Bytes) :
    scan_join2 modelEnv ⟨.done, gs, gi, pfx⟩ line (ptrLast gs) t =
      liftR (PP.scan ⟨.done, gs, gi, pfx⟩ (lineOf t true true)) := by
  simp [scan_join2, PP.scan, lineOf]

theorem sw_gotFileCreated (gs : List Goroutine) (gi : Nat) (pfx line t : Bytes) (eol : Bool) :
    scan_join2 modelEnv ⟨.gotFileCreated, gs, gi, pfx⟩ line (ptrLast gs) t =
      liftR (PP.scan ⟨.gotFileCreated, gs, gi, pfx⟩ (lineOf t eol true)) := by
  simp [scan_join2, PP.scan, lineOf]

theorem sw_gotRaceHeader1 (gs : List Goroutine) (gi : Nat) (pfx line t : Bytes) (eol : Bool) :
    scan_join2 modelEnv ⟨.gotRaceHeader1, gs, gi, pfx⟩ line (ptrLast gs) t =
      liftR (PP.scan ⟨.gotRaceHeader1, gs, gi, pfx⟩ (lineOf t eol true)) := by
  simp [scan_join2, PP.scan, lineOf]

theorem sw_gotFunc (gs : List Goroutine) (gi : Nat) (pfx line t : Bytes) (eol : Bool) :
    scan_join2 modelEnv ⟨.gotFunc, gs, gi, pfx⟩ line (ptrLast gs) t =
      liftR (PP.scan ⟨.gotFunc, gs, gi, pfx⟩ (lineOf t eol true)) := by
  rcases gs_cases gs with rfl | ⟨init, g, rfl⟩
  · simp [scan_join2, PP.scan, lineOf, needLastCall]
  · rcases g with ⟨⟨gstate, cb, smin, smax, ⟨calls, elided⟩, locked⟩, id, first, rw, ra⟩
    rcases list_cases calls with rfl | ⟨cs, c, rfl⟩
    · simp [scan_join2, PP.scan, lineOf, needLastCall]
    · simp [scan_join2, PP.scan, lineOf, needLastCall, parseFileResult, setStack]
      generalize PP.parseFile t = r
      rcases r with _ | _ | ⟨p, n⟩ <;> simp

theorem sw_gotRaceOperationFunc (gs : List Goroutine) (gi : Nat) (pfx line t : Bytes) (eol : Bool) :
    scan_join2 modelEnv ⟨.gotRaceOperationFunc, gs, gi, pfx⟩ line (ptrLast gs) t =
      liftR (PP.scan ⟨.gotRaceOperationFunc, gs, gi, pfx⟩ (lineOf t eol true)) := by
  rcases gs_cases gs with rfl | ⟨init, g, rfl⟩
  · simp [scan_join2, PP.scan, lineOf, needLastCall]
  · rcases g with ⟨⟨gstate, cb, smin, smax, ⟨calls, elided⟩, locked⟩, id, first, rw, ra⟩
    rcases list_cases calls with rfl | ⟨cs, c, rfl⟩
    · simp [scan_join2, PP.scan, lineOf, needLastCall]
    · simp [scan_join2, PP.scan, lineOf, needLastCall, parseFileResult, setStack]
      generalize PP.parseFile t = r
      rcases r with _ | _ | ⟨p, n⟩ <;> simp

theorem sw_gotCreated (gs : List Goroutine) (gi : Nat) (pfx line t : Bytes) (eol : Bool) :
    scan_join2 modelEnv ⟨.gotCreated, gs, gi, pfx⟩ line (ptrLast gs) t =
      liftR (PP.scan ⟨.gotCreated, gs, gi, pfx⟩ (lineOf t eol true)) := by
  rcases gs_cases gs with rfl | ⟨init, g, rfl⟩
  · simp [scan_join2, PP.scan, lineOf, needCreated0]
  · rcases g with ⟨⟨gstate, ⟨ccalls, celided⟩, smin, smax, stk, locked⟩, id, first, rw, ra⟩
    rcases ccalls with _ | ⟨c, cs⟩
    · simp [scan_join2, PP.scan, lineOf, needCreated0]
    · simp [scan_join2, PP.scan, lineOf, needCreated0, parseFileResult, setCreated]
      generalize PP.parseFile t = r
      rcases r with _ | _ | ⟨p, n⟩ <;> simp

theorem sw_gotRaceOperationHeader (gs : List Goroutine) (gi : Nat) (pfx line t : Bytes) (eol : Bool) :
    scan_join2 modelEnv ⟨.gotRaceOperationHeader, gs, gi, pfx⟩ line (ptrLast gs) t =
      liftR (PP.scan ⟨.gotRaceOperationHeader, gs, gi, pfx⟩ (lineOf t eol true)) := by
  rcases gs_cases gs with rfl | ⟨init, g, rfl⟩
  · simp [scan_join2, PP.scan, lineOf, parseFuncResult, funcStep, curAppendCall]
    generalize PP.parseFunc (PP.trimLeftSpace t) = r
    rcases r with _ | ⟨c, e⟩ <;> simp [*]
  · simp [scan_join2, PP.scan, lineOf, parseFuncResult, funcStep, curAppendCall, setStack]
    generalize PP.parseFunc (PP.trimLeftSpace t) = r
    rcases r with _ | ⟨c, e⟩ <;> simp [*]

theorem sw_gotRaceOperationFile (gs : List Goroutine) (gi : Nat) (pfx line t : Bytes) (eol : Bool) :
    scan_join2 modelEnv ⟨.gotRaceOperationFile, gs, gi, pfx⟩ line (ptrLast gs) t =
      liftR (PP.scan ⟨.gotRaceOperationFile, gs, gi, pfx⟩ (lineOf t eol true)) := by
  rcases gs_cases gs with rfl | ⟨init, g, rfl⟩
  · simp [scan_join2, PP.scan, lineOf, parseFuncResult, funcStep, curAppendCall]
    generalize PP.parseFunc (PP.trimLeftSpace t) = r
    rcases r with _ | ⟨c, e⟩ <;> split <;> simp [*]
  · simp [scan_join2, PP.scan, lineOf, parseFuncResult, funcStep, curAppendCall, setStack]
    generalize PP.parseFunc (PP.trimLeftSpace t) = r
    rcases r with _ | ⟨c, e⟩ <;> split <;> simp [*]


theorem sw_gotUnavail (gs : List Goroutine) (gi : Nat) (pfx line t : Bytes) (eol : Bool) :
    scan_join2 modelEnv ⟨.gotUnavail, gs, gi, pfx⟩ line (ptrLast gs) t =
      liftR (PP.scan ⟨.gotUnavail, gs, gi, pfx⟩ (lineOf t eol true)) := by
  rcases gs_cases gs with rfl | ⟨init, g, rfl⟩
  · simp [scan_join2, PP.scan, lineOf, createdStep, reCreatedSubmatch]
    generalize matchCreated t = m
    rcases m with _ | n <;> split <;> simp
    rcases hf : funcInit n with e | f <;> simp
  · simp [scan_join2, PP.scan, lineOf, createdStep, reCreatedSubmatch, setCreated]
    generalize matchCreated t = m
    rcases m with _ | n <;> split <;> simp
    rcases hf : funcInit n with e | f <;> simp [funcInitZ, hf]

theorem sw_gotFileFunc (gs : List Goroutine) (gi : Nat) (pfx line t : Bytes) (eol : Bool) :
    scan_join2 modelEnv ⟨.gotFileFunc, gs, gi, pfx⟩ line (ptrLast gs) t =
      liftR (PP.scan ⟨.gotFileFunc, gs, gi, pfx⟩ (lineOf t eol true)) := by
  rcases gs_cases gs with rfl | ⟨init, g, rfl⟩
  · simp [scan_join2, PP.scan, lineOf, createdStep, reCreatedSubmatch, parseFuncResult, funcStep, curAppendCall]
    generalize matchCreated t = m
    rcases m with _ | n <;> simp
    · generalize PP.parseFunc t = r
      rcases r with _ | ⟨c, e⟩ <;> simp
    · rcases hf : funcInit n with e | f <;> simp
  · simp [scan_join2, PP.scan, lineOf, createdStep, reCreatedSubmatch, setCreated, setStack, parseFuncResult, funcStep, curAppendCall]
    generalize matchCreated t = m
    rcases m with _ | n <;> simp
    · generalize PP.parseFunc t = r
      rcases r with _ | ⟨c, e⟩ <;> simp
    · rcases hf : funcInit n with e | f <;> simp [funcInitZ, hf]

theorem sw_gotRaceHeader2 (gs : List Goroutine) (gi : Nat) (pfx line t : Bytes) (eol : Bool) :
    scan_join2 modelEnv ⟨.gotRaceHeader2, gs, gi, pfx⟩ line (ptrLast gs) t =
      liftR (PP.scan ⟨.gotRaceHeader2, gs, gi, pfx⟩ (lineOf t eol true)) := by
  simp [scan_join2, PP.scan, lineOf, reRaceOperationHeaderSubmatch, parseRaceOp]
  generalize matchRaceOp t = m
  rcases m with _ | ⟨k, a, d⟩ <;> simp
  rcases parseUint0 a with _ | addr <;> simp
  rcases hd : atou d with _ | n <;> simp [goAtou, hd]

theorem sw_gotRaceGoroutineFunc (gs : List Goroutine) (gi : Nat) (pfx line t : Bytes) (eol : Bool) :
    scan_join2 modelEnv ⟨.gotRaceGoroutineFunc, gs, gi, pfx⟩ line (ptrLast gs) t =
      liftR (PP.scan ⟨.gotRaceGoroutineFunc, gs, gi, pfx⟩ (lineOf t eol true)) := by
  by_cases h : gi < gs.length
  · have hq : gs[gi]? = some gs[gi] := List.getElem?_eq_getElem h
    rcases hg : gs[gi] with ⟨⟨gstate, ⟨ccalls, celided⟩, smin, smax, stk, locked⟩, id, first, rw, ra⟩
    have hset : gs.set gi ⟨⟨gstate, ⟨ccalls, celided⟩, smin, smax, stk, locked⟩, id, first, rw, ra⟩ = gs := by
      rw [← hg]; exact List.set_getElem_self _
    rcases list_cases ccalls with rfl | ⟨cs, c, rfl⟩
    · simp [scan_join2, PP.scan, lineOf, parseFileResult, setCreated, h, hq, hg]
    · simp [scan_join2, PP.scan, lineOf, parseFileResult, setCreated, h, hq, hg]
      generalize PP.parseFile t = r
      rcases r with _ | _ | ⟨p, n⟩ <;> simp [hset]
  · have hq : gs[gi]? = none := by simp; omega
    simp [scan_join2, PP.scan, lineOf, h, hq]

theorem sw_gotRaceGoroutineHeader (gs : List Goroutine) (gi : Nat) (pfx line t : Bytes) (eol : Bool) :
    scan_join2 modelEnv ⟨.gotRaceGoroutineHeader, gs, gi, pfx⟩ line (ptrLast gs) t =
      liftR (PP.scan ⟨.gotRaceGoroutineHeader, gs, gi, pfx⟩ (lineOf t eol true)) := by
  by_cases h : gi < gs.length
  · have hq : gs[gi]? = some gs[gi] := List.getElem?_eq_getElem h
    simp [scan_join2, PP.scan, lineOf, parseFuncResult, setCreated, modifyAt, h, hq]
    generalize PP.parseFunc (PP.trimLeftSpace t) = r
    rcases r with _ | ⟨c, e⟩ <;> simp
  · have hq : gs[gi]? = none := by simp; omega
    simp [scan_join2, PP.scan, lineOf, parseFuncResult, modifyAt, h, hq]
    generalize PP.parseFunc (PP.trimLeftSpace t) = r
    rcases r with _ | ⟨c, e⟩ <;> simp

theorem sw_gotRaceGoroutineFile (gs : List Goroutine) (gi : Nat) (pfx line t : Bytes) (eol : Bool) :
    scan_join2 modelEnv ⟨.gotRaceGoroutineFile, gs, gi, pfx⟩ line (ptrLast gs) t =
      liftR (PP.scan ⟨.gotRaceGoroutineFile, gs, gi, pfx⟩ (lineOf t eol true)) := by
  by_cases h : gi < gs.length
  · have hq : gs[gi]? = some gs[gi] := List.getElem?_eq_getElem h
    simp [scan_join2, PP.scan, lineOf, parseFuncResult, setCreated, modifyAt, h, hq]
    generalize PP.parseFunc (PP.trimLeftSpace t) = r
    rcases r with _ | ⟨c, e⟩ <;> simp
  · have hq : gs[gi]? = none := by simp; omega
    simp [scan_join2, PP.scan, lineOf, parseFuncResult, modifyAt, h, hq]
    generalize PP.parseFunc (PP.trimLeftSpace t) = r
    rcases r with _ | ⟨c, e⟩ <;> simp

/-! ### the header loop -/

def stepH (acc : Nat × Bool) (it : Bytes) : Nat × Bool :=
  if it == Extracted.lockedToThread then (acc.1, true)
  else match matchMinutes it with
    | some d => ((atou d).getD 0, acc.2)
    | none => acc

theorem goAtou_fst (d : Bytes) : (goAtou d).1 = (atou d).getD 0 := by
  unfold goAtou; cases atou d <;> rfl

theorem loop1_body (E : Env) (s : S) (line : Bytes) (cur : Nat) (t : Bytes) (m : Option (List Bytes)) (id : Nat) (ok : Bool)
    (items : List Bytes) (k j : Nat) (st : Nat × Bool) (h : j < items.length) :
    scan_loop1 E s line cur t m id ok items k j st = some (.cont (stepH st items[j])) := by
  match hm : matchMinutes items[j] with
  | none => simp [scan_loop1, List.getElem?_eq_getElem h, stepH, reMinutesSubmatch, hm]; split <;> rfl
  | some d => simp [scan_loop1, List.getElem?_eq_getElem h, stepH, reMinutesSubmatch, hm, goAtou_fst]; split <;> rfl

theorem loop1_run (E : Env) (s : S) (line : Bytes) (cur : Nat) (t : Bytes) (m : Option (List Bytes)) (id : Nat) (ok : Bool)
    (items : List Bytes) : ∀ (n j k : Nat) (st : Nat × Bool), j + n ≤ items.length →
    forRange (scan_loop1 E s line cur t m id ok items) (List.range' j n) k st =
      some (.cont (((items.drop j).take n).foldl stepH st))
  | 0, j, k, st, _ => by simp
  | n + 1, j, k, st, h => by
    have hj : j < items.length := by omega
    rw [List.range'_succ, forRange_cons, loop1_body E s line cur t m id ok items k j st hj]
    simp only []
    rw [loop1_run E s line cur t m id ok items n (j + 1) (k + 1) _ (by omega), List.drop_eq_getElem_cons hj]
    simp only [List.take_succ_cons, List.foldl_cons]

theorem foldl_stepH (l : List Bytes) (a : Nat) (b : Bool) :
    l.foldl stepH (a, b) =
      (l.foldl (fun acc it =>
        if it == Extracted.lockedToThread then acc
        else match matchMinutes it with
          | some d => (atou d).getD 0
          | none => acc) a, b || l.any (· == Extracted.lockedToThread)) := by
  induction l generalizing a b with
  | nil => simp
  | cons x l ih =>
    simp only [List.foldl_cons, List.any_cons, stepH]
    split
    · rw [ih]; simp [*]
    · cases matchMinutes x <;> simp [ih, *]

theorem loop2_eq : @scan_loop2 = @scan_loop1 := rfl
theorem join4_eq : @scan_join4 = @scan_join3 := rfl
theorem loop4_eq : @scan_loop4 = @scan_loop3 := rfl

theorem splitOn_go_ne_nil (sep : Bytes) (fuel : Nat) : ∀ (s cur : Bytes), splitOn.go sep fuel s cur ≠ [] := by
  induction fuel with
  | zero => intro s cur; simp [splitOn.go]
  | succ f ih =>
    intro s cur
    cases s with
    | nil => simp [splitOn.go]
    | cons c t =>
      simp only [splitOn.go]
      split
      · simp
      · exact ih _ _

theorem splitOn_ne_nil (s sep : Bytes) : splitOn s sep ≠ [] := splitOn_go_ne_nil sep _ _ _

theorem header_loop (E : Env) (s : S) (line : Bytes) (cur : Nat) (t : Bytes) (m : Option (List Bytes)) (id : Nat) (ok : Bool)
    (x : Bytes) (rest : List Bytes) :
    forRange (scan_loop1 E s line cur t m id ok (x :: rest)) (List.range' 1 rest.length) 0 (0, false) =
      some (.cont (rest.foldl (fun acc it =>
        if it == Extracted.lockedToThread then acc
        else match matchMinutes it with
          | some d => (atou d).getD 0
          | none => acc) 0, rest.any (· == Extracted.lockedToThread))) := by
  rw [loop1_run E s line cur t m id ok (x :: rest) _ 1 0 (0, false) (by simp; omega)]
  simp [foldl_stepH]

@[simp] theorem len_beq_zero {α : Type} (l : List α) : (len l == 0) = l.isEmpty := by
  cases l <;> simp [len]

theorem sw_looking (gs : List Goroutine) (gi : Nat) (pfx line t : Bytes) :
    scan_join2 modelEnv ⟨.looking, gs, gi, pfx⟩ line (ptrLast gs) t =
      liftR (PP.scan ⟨.looking, gs, gi, pfx⟩ (lineOf t true true)) := by
  match hm : matchHeader t with
  | none => simp [scan_join2, scan_join3, PP.scan, lineOf, parseHeader, reRoutineHeaderSubmatch, hm]
  | some m =>
    match hid : atou m.id with
    | none => simp [scan_join2, scan_join3, PP.scan, lineOf, parseHeader, reRoutineHeaderSubmatch, hm, hid, goAtou]
    | some id =>
      obtain ⟨x, rest, hit⟩ : ∃ x rest, splitOn m.status Extracted.commaSpace = x :: rest := by
        rcases hs : splitOn m.status Extracted.commaSpace with _ | ⟨x, rest⟩
        · exact absurd hs (splitOn_ne_nil _ _)
        · exact ⟨x, rest, rfl⟩
      simp [scan_join2, PP.scan, lineOf, parseHeader, reRoutineHeaderSubmatch, hm, hid, goAtou, hit, mkGoroutine]
      rw [header_loop]
      simp
      rfl

theorem sw_betweenRoutine (gs : List Goroutine) (gi : Nat) (pfx line t : Bytes) (eol : Bool) :
    scan_join2 modelEnv ⟨.betweenRoutine, gs, gi, pfx⟩ line (ptrLast gs) t =
      liftR (PP.scan ⟨.betweenRoutine, gs, gi, pfx⟩ (lineOf t eol true)) := by
  match hm : matchHeader t with
  | none => simp [scan_join2, join4_eq, scan_join3, PP.scan, lineOf, parseHeader, reRoutineHeaderSubmatch, hm]
  | some m =>
    match hid : atou m.id with
    | none =>
      simp [scan_join2, join4_eq, scan_join3, PP.scan, lineOf, parseHeader, reRoutineHeaderSubmatch, hm, hid, goAtou]
    | some id =>
      obtain ⟨x, rest, hit⟩ : ∃ x rest, splitOn m.status Extracted.commaSpace = x :: rest := by
        rcases hs : splitOn m.status Extracted.commaSpace with _ | ⟨x, rest⟩
        · exact absurd hs (splitOn_ne_nil _ _)
        · exact ⟨x, rest, rfl⟩
      simp [scan_join2, loop2_eq, PP.scan, lineOf, parseHeader, reRoutineHeaderSubmatch, hm, hid, goAtou, hit, mkGoroutine]
      rw [header_loop]
      simp
      rfl

/-! ### the goroutine lookup loop -/

def updState (stt : Bytes) (g : Goroutine) : Goroutine := { g with sig := { g.sig with state := stt } }

theorem loop3_run (E : Env) (line : Bytes) (cur : Nat) (t d stt : Bytes) (id : Nat) (ok : Bool)
    (st0 : St) (gs : List Goroutine) (gi : Nat) (pfx : Bytes) :
    ∀ (l pre : List Goroutine), gs = pre ++ l →
    forRangeB (scan_loop3 E line cur t (some [[], d, stt]) id ok) l pre.length ((⟨st0, gs, gi, pfx⟩ : S), false) =
      some (.cont (match l.findIdx? (fun g => g.id == id) with
        | some i => (match modifyAt gs (pre.length + i) (updState stt) with
            | some gs' => ((⟨st0, gs', pre.length + i, pfx⟩ : S), true)
            | none => ((⟨st0, gs, gi, pfx⟩ : S), false))
        | none => ((⟨st0, gs, gi, pfx⟩ : S), false)))
  | [], pre, _ => by simp
  | x :: l, pre, h => by
    have hx : gs[pre.length]? = some x := by simp [h]
    have hlt : pre.length < gs.length := by simp [h]
    have hxx : gs[pre.length] = x := by simp [h]
    rw [forRangeB_cons]
    by_cases hp : x.id = id
    · simp [scan_loop3, hx, hp, List.findIdx?_cons, modifyAt, hlt, hxx, updState]
    · have ih := loop3_run E line cur t d stt id ok st0 gs gi pfx l (pre ++ [x]) (by simp [h])
      simp only [List.length_append, List.length_singleton] at ih
      simp [scan_loop3, hx, hp, List.findIdx?_cons, ih]
      cases l.findIdx? (fun g => g.id == id) <;> simp [Nat.add_assoc, Nat.add_comm 1]

theorem findIdx?_lt {α : Type} (p : α → Bool) : ∀ (l : List α) (i : Nat), l.findIdx? p = some i → i < l.length
  | [], i, h => by simp at h
  | x :: l, i, h => by
    rw [List.findIdx?_cons] at h
    split at h
    · simp at h; simp [← h]
    · cases hh : l.findIdx? p with
      | none => simp [hh] at h
      | some j =>
        simp [hh] at h
        have := findIdx?_lt p l j hh
        simp [← h]; omega

theorem find_loop (E : Env) (line : Bytes) (cur : Nat) (t d stt : Bytes) (id : Nat) (ok : Bool)
    (st0 : St) (gs : List Goroutine) (gi : Nat) (pfx : Bytes) :
    forRangeB (scan_loop3 E line cur t (some [[], d, stt]) id ok) gs 0 ((⟨st0, gs, gi, pfx⟩ : S), false) =
      some (.cont (match gs.findIdx? (fun g => g.id == id) with
        | some i => (match modifyAt gs i (updState stt) with
            | some gs' => ((⟨st0, gs', i, pfx⟩ : S), true)
            | none => ((⟨st0, gs, gi, pfx⟩ : S), false))
        | none => ((⟨st0, gs, gi, pfx⟩ : S), false))) := by
  have := loop3_run E line cur t d stt id ok st0 gs gi pfx gs [] rfl
  simpa using this

theorem sw_betweenRaceGoroutines (gs : List Goroutine) (gi : Nat) (pfx line t : Bytes) (eol : Bool) :
    scan_join2 modelEnv ⟨.betweenRaceGoroutines, gs, gi, pfx⟩ line (ptrLast gs) t =
      liftR (PP.scan ⟨.betweenRaceGoroutines, gs, gi, pfx⟩ (lineOf t eol true)) := by
  match hm : matchRaceGoroutine t with
  | none => simp [scan_join2, PP.scan, lineOf, reRaceGoroutineSubmatch, hm]
  | some (d, stt) =>
    match hd : atou d with
    | none => simp [scan_join2, PP.scan, lineOf, reRaceGoroutineSubmatch, hm, hd, goAtou]
    | some id =>
      simp [scan_join2, loop4_eq, PP.scan, lineOf, reRaceGoroutineSubmatch, hm, hd, goAtou, find_loop]
      match hf : List.findIdx? (fun g => g.id == id) gs with
      | none => simp [hf]
      | some i =>
        have hi := findIdx?_lt _ _ _ hf
        simp [hf, modifyAt, hi, updState]

theorem sw_betweenRaceOperations (gs : List Goroutine) (gi : Nat) (pfx line t : Bytes) (eol : Bool) :
    scan_join2 modelEnv ⟨.betweenRaceOperations, gs, gi, pfx⟩ line (ptrLast gs) t =
      liftR (PP.scan ⟨.betweenRaceOperations, gs, gi, pfx⟩ (lineOf t eol true)) := by
  match hp : matchRacePrev t with
  | some (k, a, d) =>
    simp [scan_join2, PP.scan, lineOf, reRacePreviousOperationHeaderSubmatch, parseRaceOp, hp]
    rcases parseUint0 a with _ | addr <;> simp
    rcases hd : atou d with _ | n <;> simp [goAtou, hd]
  | none =>
  match hm : matchRaceGoroutine t with
  | none => simp [scan_join2, PP.scan, lineOf, reRaceGoroutineSubmatch, reRacePreviousOperationHeaderSubmatch, parseRaceOp, hp, hm]
  | some (d, stt) =>
    match hd : atou d with
    | none => simp [scan_join2, PP.scan, lineOf, reRaceGoroutineSubmatch, reRacePreviousOperationHeaderSubmatch, parseRaceOp, hp, hm, hd, goAtou]
    | some id =>
      simp [scan_join2, PP.scan, lineOf, reRaceGoroutineSubmatch, reRacePreviousOperationHeaderSubmatch, parseRaceOp, hp, hm, hd, goAtou, find_loop]
      match hf : List.findIdx? (fun g => g.id == id) gs with
      | none => simp [hf]
      | some i =>
        have hi := findIdx?_lt _ _ _ hf
        simp [hf, modifyAt, hi, updState]

/-! ### the whole function -/

theorem tie_join2 (s : S) (line t : Bytes) (eol : Bool) (h : eol = true ∨ (s.st ≠ .looking ∧ s.st ≠ .done)) :
    scan_join2 modelEnv s line (ptrLast s.gs) t = liftR (PP.scan s (lineOf t eol true)) := by
  obtain ⟨st, gs, gi, pfx⟩ := s
  cases st
  case looking =>
    have : eol = true := by rcases h with h | h; exact h; exact absurd rfl h.1
    subst this; exact sw_looking gs gi pfx line t
  case done =>
    have : eol = true := by rcases h with h | h; exact h; exact absurd rfl h.2
    subst this; exact sw_done gs gi pfx line t
  case betweenRoutine => exact sw_betweenRoutine gs gi pfx line t eol
  case gotRoutineHeader => exact sw_gotRoutineHeader gs gi pfx line t eol
  case gotFunc => exact sw_gotFunc gs gi pfx line t eol
  case gotCreated => exact sw_gotCreated gs gi pfx line t eol
  case gotFileFunc => exact sw_gotFileFunc gs gi pfx line t eol
  case gotFileCreated => exact sw_gotFileCreated gs gi pfx line t eol
  case gotUnavail => exact sw_gotUnavail gs gi pfx line t eol
  case gotRaceHeader1 => exact sw_gotRaceHeader1 gs gi pfx line t eol
  case gotRaceHeader2 => exact sw_gotRaceHeader2 gs gi pfx line t eol
  case gotRaceOperationHeader => exact sw_gotRaceOperationHeader gs gi pfx line t eol
  case gotRaceOperationFunc => exact sw_gotRaceOperationFunc gs gi pfx line t eol
  case gotRaceOperationFile => exact sw_gotRaceOperationFile gs gi pfx line t eol
  case betweenRaceOperations => exact sw_betweenRaceOperations gs gi pfx line t eol
  case gotRaceGoroutineHeader => exact sw_gotRaceGoroutineHeader gs gi pfx line t eol
  case gotRaceGoroutineFunc => exact sw_gotRaceGoroutineFunc gs gi pfx line t eol
  case gotRaceGoroutineFile => exact sw_gotRaceGoroutineFile gs gi pfx line t eol
  case betweenRaceGoroutines => exact sw_betweenRaceGoroutines gs gi pfx line t eol

/-- the indentation step of `classify` -/
def indentOf (pfx tr : Bytes) : Bool × Bytes :=
  if tr.length != 0 && pfx.length != 0 then
    if hasPrefix tr pfx then (true, tr.drop pfx.length) else (false, tr)
  else (true, tr)

theorem classify_eq (pfx raw : Bytes) :
    classify pfx raw = lineOf (indentOf pfx (stripEOL raw).1).2 (stripEOL raw).2 (indentOf pfx (stripEOL raw).1).1 := rfl

theorem hasPrefix_length : ∀ (s p : Bytes), hasPrefix s p = true → p.length ≤ s.length
  | _, [], _ => by simp
  | [], _ :: _, h => by simp [hasPrefix] at h
  | a :: as, p :: ps, h => by
    simp [hasPrefix] at h
    have := hasPrefix_length as ps h.2
    simp; omega

theorem firstCond (s : S) (eol : Bool) (h : eol = true ∨ (s.st ≠ .looking ∧ s.st ≠ .done)) :
    (!eol && (s.st == .looking || s.st == .done)) = false := by
  rcases h with h | ⟨h1, h2⟩
  · simp [h]
  · simp [h1, h2]

theorem tie_join1 (s : S) (line tr : Bytes) (eol : Bool) (h : eol = true ∨ (s.st ≠ .looking ∧ s.st ≠ .done)) :
    scan_join1 modelEnv s line (ptrLast s.gs) tr =
      liftR (PP.scan s (lineOf (indentOf s.pfx tr).2 eol (indentOf s.pfx tr).1)) := by
  unfold scan_join1 indentOf
  by_cases hc : (tr.length != 0 && s.pfx.length != 0) = true
  · by_cases hp : hasPrefix tr s.pfx = true
    · have hl := hasPrefix_length _ _ hp
      simp only [len, hc, hp, if_true, Bool.not_true, Bool.false_eq_true, if_false]
      rw [show goSlice tr s.pfx.length tr.length = some (tr.drop s.pfx.length) by simp [goSlice, hl]]
      exact tie_join2 s line _ eol h
    · have hf := firstCond s eol h
      simp only [len, hc, hp, if_true, if_false, Bool.not_false]
      simp [PP.scan, lineOf, hf]
  · simp only [len, hc, if_false]
    exact tie_join2 s line _ eol h

theorem hasSuffix_length {s suf : Bytes} (h : hasSuffix s suf = true) : suf.length ≤ s.length := by
  simp [hasSuffix] at h; exact h.1

theorem tie_scan (s : S) (line : Bytes) : TrSM.scan modelEnv s line = modelEnv.scan s line := by
  simp only [mE_scan, scanBytes, classify_eq]
  unfold TrSM.scan stripEOL
  by_cases h1 : hasSuffix line Extracted.crlf = true
  · have hl : 2 ≤ line.length := hasSuffix_length h1
    simp only [h1, if_true, len]
    rw [show goSub line.length 2 = some (line.length - 2) by simp [goSub, hl]]
    simp only [Option.bind_some]
    rw [show goSlice line 0 (line.length - 2) = some (line.take (line.length - 2)) by simp [goSlice]]
    exact tie_join1 s line _ true (Or.inl rfl)
  · by_cases h2 : hasSuffix line Extracted.lf = true
    · have hl : 1 ≤ line.length := hasSuffix_length h2
      simp only [h1, h2, if_true, if_false, len]
      rw [show goSub line.length 1 = some (line.length - 1) by simp [goSub, hl]]
      simp only [Option.bind_some]
      rw [show goSlice line 0 (line.length - 1) = some (line.take (line.length - 1)) by simp [goSlice]]
      exact tie_join1 s line _ true (Or.inl rfl)
    · simp only [h1, h2, if_false]
      by_cases h3 : (s.st == St.looking || s.st == St.done) = true
      · simp [h3, PP.scan, lineOf]
      · simp only [h3, if_false]
        refine tie_join1 s line _ false (Or.inr ?_)
        simp at h3
        exact h3

/-! ### non-vacuity: the translated function computes (with the model as callee) -/

example : (TrSM.scan modelEnv {} b!"goroutine 1 [running]:\n").map (fun r => (r.1.st, r.1.gs.length, r.2.1)) =
    some (.gotRoutineHeader, 1, true) := by decide

example : (TrSM.scan modelEnv { st := .gotRoutineHeader, gs := [{}] } b!"main.main()\n").map
    (fun r => (r.1.st, r.1.gs.map (·.sig.stack.calls.length), r.2)) = some (.gotFunc, [1], true, none) := by decide

/-- a nil dereference of `cur` is a panic -/
example : TrSM.scan modelEnv { st := .gotFunc } b!"\t/a/b.go:1\n" = none := by decide

example : (TrSM.scan modelEnv { st := .gotRaceHeader2 } b!"bad\n").map (·.2) = some (false, some .raceExpected) := by decide

#print axioms PP.TrSM.pin_errorSites
#print axioms PP.TrSM.tie_parseFunc
#print axioms PP.TrSM.tie_parseFile
#print axioms PP.TrSM.tie_scan

end PP.TrSM
