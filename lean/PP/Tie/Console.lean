import PP.Extracted
import PP.Model.Console
/- Pin for the console model: the order of the pathFormat constants. -/
namespace PP.Tie
theorem pin_pathFormatOrder : PP.Extracted.pathFormatOrder = ["fullPath", "relPath", "basePath"] := by decide
theorem pin_pathFormat_toNat :
    PP.Console.PathFormat.fullPath.toNat = 0 ∧ PP.Console.PathFormat.relPath.toNat = 1 ∧
    PP.Console.PathFormat.basePath.toNat = 2 := by decide
end PP.Tie
