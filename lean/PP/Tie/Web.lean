import PP.Extracted
import PP.Model.Web
/-
Pins of the web model (PP/Model/Web.lean) against stack/webstack/webstack.go:
the constants, the similarity switch, and the ORDER of the handler's checks
(method, maxmem, augment, snapshot, similarity) and of snapshot's loop.
-/
namespace PP.Tie
open PP

theorem pin_web_method : Extracted.webMethod = methodGET := by decide
theorem pin_web_default_maxmem : (Extracted.webDefaultMaxmem : Int) = defaultMaxmem := by decide
theorem pin_web_min_buf : Extracted.webMinBuf = minBuf := by decide
theorem pin_web_grow_factor : Extracted.webGrowFactor = 2 := by decide

def lvlName : Lvl → String
  | .exactFlags => "ExactFlags" | .exactLines => "ExactLines"
  | .anyPointer => "AnyPointer" | .anyValue => "AnyValue"

/-- every label of the switch maps to the level the code assigns … -/
theorem pin_web_similarity_cases :
    ∀ c ∈ Extracted.webSimilarityCases, ∀ s ∈ c.1, (parseSimilarity s).map lvlName = some c.2 := by
  decide

/-- … and the labels are exactly the accepted spellings -/
theorem pin_web_similarity_labels :
    Extracted.webSimilarityCases.flatMap (·.1) =
      [b!"exactflags", b!"exactlines", b!"anypointer", b!"", b!"anyvalue"] := by decide

/-- the order of the handler: method → 405; maxmem (Atoi) → 400; augment (Atoi,
`v < 0 || v > 1`) → 400, `v == 0` clears AnalyzeSources; snapshot → 500; only
then similarity → 400 (default case). -/
theorem pin_web_handler_order :
    Extracted.webHandlerEvents =
      ["cmp:Method!=GET", "error:StatusMethodNotAllowed",
       "form:maxmem", "call:Atoi", "error:StatusBadRequest",
       "call:DefaultOpts",
       "form:augment", "call:Atoi", "cmp:v<0", "cmp:v>1", "error:StatusBadRequest",
       "cmp:v==0", "set:AnalyzeSources=false",
       "call:snapshot", "error:StatusInternalServerError",
       "form:similarity", "default", "error:StatusBadRequest",
       "call:ToHTML", "call:Aggregate"] := by decide

/-- snapshot: clamp (`maxmem < len(buf)`), then per iteration `n < len(buf)` →
break, `len(buf) >= maxmem` → break, `l > maxmem` clamp; ScanSnapshot after the loop. -/
theorem pin_web_snapshot_order :
    Extracted.webSnapshotEvents =
      ["cmp:<:maxmem len", "call:Stack", "cmp:<:n len", "break", "cmp:>=:len maxmem", "break",
       "cmp:>:l maxmem", "call:ScanSnapshot"] := by decide

end PP.Tie
