import PP.TranslatedAgg
import PP.Tie.Translated
import PP.Lemmas.OracleIndep
import PP.Props.C13
import PP.Props.C06
/-
Tie A, translated part 6: `(*Snapshot).Aggregate` (stack/bucket.go), translated from the Go
source on every run (`PP/TranslatedAgg.lean`) and proved equal to the hand-written model
`aggregateWith π` (`PP/Model/Aggregate.lean`: `insertG`, `bucketLoop`, `sortNat`,
`sortBuckets`) the theorems of C04 C05 C06 C12 C13 are about.

The iteration order of the Go map `b` is the oracle `E.mapOrder` of the environment
(`PP/Go/PreludeAgg.lean` says what is assumed of Go's `range` over a map); `modelEnv π` gives it the
model's oracle `π`, and EVERY theorem below is for every `π : Oracle` (every function
`Nat → List Bkt → List Bkt`, permutation or not).  The same `π` serves the second loop (the
`gs.length`-th range over the map), as in `aggregateWith`: no second oracle is needed.

`Signature.similar / equal / merge` and the comparison closure of `sort.SliceStable` are
translated and tied in group 1 (`PP/Tie/Translated.lean`): here they are the fields of the
environment, given the values of group 1's `modelEnv` (for the closure: the translated closure
itself, `Tr.Aggregate_sortLess Tr.modelEnv`).  `Signature.merge` panics (`none`) on stacks of
different shapes and the closure wherever `Signature.less` indexes out of range: neither
happens (`Signature.similar_shapeOK`, `sigLess_safe`), so the translated `Aggregate` never
panics, for every oracle and every snapshot.
-/
namespace PP.TrA
open PP PP.Go

/-- what the second loop makes of a map entry: the bucket with sorted ids, carrying the ghost
field `order` the sort closure reads -/
def sortIds (c : Bkt) : Bkt := { key := c.key, ids := sortNat c.ids, first := c.first, order := c.order }

/-- the buckets the translated `Aggregate` returns (before the ghost field is forgotten) -/
def aggBkts (π : Oracle) (l : Lvl) (gs : List Goroutine) : List Bkt :=
  sortBuckets ((π gs.length (bucketLoop π l 0 [] gs)).map sortIds)

/-- forgetting the ghost field `order`: the Go `Bucket` -/
def forget (b : Bkt) : Bucket := { sig := b.key, ids := b.ids, first := b.first }

def modelEnv (π : Oracle) : Env where
  mapOrder := π
  Signature_similar := Tr.modelEnv.Signature_similar
  Signature_equal := Tr.modelEnv.Signature_equal
  Signature_merge := Tr.modelEnv.Signature_merge
  Aggregate_sortLess := Tr.Aggregate_sortLess Tr.modelEnv
  Snapshot_Aggregate s l := some { snapshot := s, buckets := aggBkts π l s.goroutines }

variable (π : Oracle)

@[simp] theorem mE_mapOrder (k : Nat) (bs : List Bkt) : (modelEnv π).mapOrder k bs = π k bs := rfl
@[simp] theorem mE_Signature_similar (a r : Signature) (l : Lvl) :
    (modelEnv π).Signature_similar a r l = some (Signature.similar l a r) := rfl
@[simp] theorem mE_Signature_equal (a r : Signature) :
    (modelEnv π).Signature_equal a r = some (Signature.equal a r) := rfl
@[simp] theorem mE_Signature_merge (a r : Signature) :
    (modelEnv π).Signature_merge a r = if Signature.shapeOK a r then some (Signature.merge a r) else none := rfl
@[simp] theorem mE_Aggregate_sortLess (a b : Bkt) :
    (modelEnv π).Aggregate_sortLess a b = Tr.Aggregate_sortLess Tr.modelEnv a b := rfl
@[simp] theorem mE_Aggregate (s : Snapshot) (l : Lvl) :
    (modelEnv π).Snapshot_Aggregate s l = some { snapshot := s, buckets := aggBkts π l s.goroutines } := rfl

/-! ### the inner loop: `for key, c := range b { if key.similar(…) { …; break } }` -/

/-- the entry after a similar goroutine joined it (the record `insertG` builds) -/
def updB (b : Bkt) (g : Goroutine) : Bkt :=
  { key := if Signature.equal b.key g.sig then b.key else Signature.merge b.key g.sig,
    ids := b.ids ++ [g.id], first := b.first || g.first, order := b.order }

/-- the inner loop on the entries `rest` that are still to be visited, `pre` having been visited
without a match: the map afterwards and `found` -/
def scanG (l : Lvl) (g : Goroutine) : List Bkt → List Bkt → List Bkt × Bool
  | pre, [] => (pre, false)
  | pre, b :: rest =>
    if Signature.similar l b.key g.sig then (pre ++ updB b g :: rest, true) else scanG l g (pre ++ [b]) rest

theorem set_at_length {α : Type} (pre rest : List α) (b x : α) :
    (pre ++ b :: rest).set pre.length x = pre ++ x :: rest := by
  rw [List.set_append_right _ _ (Nat.le_refl _)]
  simp

/-- one iteration of the inner loop -/
theorem loop2_step (s : Snapshot) (l : Lvl) (i : Nat) (g : Goroutine) (k : Nat) (c : Bkt) (bs : List Bkt) :
    Snapshot_Aggregate_loop2 (modelEnv π) s l i g k c (bs, false) =
    if Signature.similar l c.key g.sig then some (StepB.brk (bs.set k (updB c g), true))
    else some (StepB.cont (bs, false)) := by
  simp only [Snapshot_Aggregate_loop2, mE_Signature_similar, mE_Signature_equal, mE_Signature_merge,
    Option.bind_some]
  by_cases hs : Signature.similar l c.key g.sig = true
  · simp only [hs, if_true, Signature.similar_shapeOK l _ _ hs, List.set_set]
    by_cases he : Signature.equal c.key g.sig = true
    · simp [he, updB]
    · simp [he, updB]
  · simp only [hs, Bool.false_eq_true, if_false]

/-- the inner loop (`forRangeB`, with its `break`) computes `scanG` -/
theorem loop2_run (s : Snapshot) (l : Lvl) (i : Nat) (g : Goroutine) :
    ∀ (rest pre : List Bkt),
    forRangeB (Snapshot_Aggregate_loop2 (modelEnv π) s l i g) rest pre.length (pre ++ rest, false) =
    some (Step.cont (scanG l g pre rest))
  | [], pre => by simp [scanG]
  | b :: rest, pre => by
    rw [forRangeB_cons, loop2_step]
    by_cases hs : Signature.similar l b.key g.sig = true
    · simp only [hs, if_true, scanG, set_at_length]
    · simp only [hs, Bool.false_eq_true, if_false, scanG]
      have ih := loop2_run s l i g rest (pre ++ [b])
      simp only [List.length_append, List.length_cons, List.length_nil, Nat.zero_add, List.append_assoc,
        List.cons_append, List.nil_append] at ih
      exact ih

/-- `scanG` followed by `if !found { b[key] = &count{…} }` is the model's `insertG` -/
theorem scanG_insertG (l : Lvl) (i : Nat) (g : Goroutine) :
    ∀ (rest pre : List Bkt),
    (if (scanG l g pre rest).2 then (scanG l g pre rest).1
     else (scanG l g pre rest).1 ++ [{ key := g.sig, ids := [g.id], first := g.first, order := i }]) =
    pre ++ insertG l rest i g
  | [], pre => by simp [scanG, insertG]
  | b :: rest, pre => by
    by_cases hs : Signature.similar l b.key g.sig = true
    · simp [scanG, insertG, hs, updB]
    · have ih := scanG_insertG l i g rest (pre ++ [b])
      simp only [scanG, insertG, hs, Bool.false_eq_true, if_false]
      rw [ih]
      simp

/-! ### the outer loop: one goroutine, then all of them -/

/-- one iteration of the bucketing loop is the model's `insertG` on the map in the order the oracle
gives the `k`-th range; the counter of ranges goes from `k` to `k + 1` -/
theorem loop1_step (s : Snapshot) (l : Lvl) (k : Nat) (g : Goroutine) (bs : List Bkt) :
    Snapshot_Aggregate_loop1 (modelEnv π) s l k g (bs, k) =
    some (Step.cont (insertG l (π k bs) k g, k + 1)) := by
  have h := loop2_run π s l k g (π k bs) []
  simp only [List.length_nil, List.nil_append] at h
  have h2 := scanG_insertG l k g (π k bs) []
  simp only [List.nil_append] at h2
  simp only [Snapshot_Aggregate_loop1, mE_mapOrder, h, after_cont]
  rw [← h2]
  cases (scanG l g [] (π k bs)).2 <;> simp

/-- the bucketing loop is the model's `bucketLoop`; the `k`-th range over the map is the one for the
goroutine of index `k` -/
theorem loop1_run (s : Snapshot) (l : Lvl) :
    ∀ (gs : List Goroutine) (k : Nat) (bs : List Bkt),
    forRange (Snapshot_Aggregate_loop1 (modelEnv π) s l) gs k (bs, k) =
    some (Step.cont (bucketLoop π l k bs gs, k + gs.length))
  | [], k, bs => by simp [bucketLoop]
  | g :: gs, k, bs => by
    rw [forRange_cons, loop1_step]
    simp only [bucketLoop]
    rw [loop1_run s l gs (k + 1)]
    simp only [List.length_cons]
    have : k + 1 + gs.length = k + (gs.length + 1) := by omega
    rw [this]

/-! ### the second loop: the buckets, in map order -/

theorem loop3_step (E : Env) (s : Snapshot) (l : Lvl) (k : Nat) (c : Bkt) (b bs : List Bkt) :
    Snapshot_Aggregate_loop3 E s l k c (b, bs) = some (Step.cont (b.set k (sortIds c), bs ++ [sortIds c])) := rfl

theorem loop3_run (E : Env) (s : Snapshot) (l : Lvl) :
    ∀ (rest pre out : List Bkt),
    forRange (Snapshot_Aggregate_loop3 E s l) rest pre.length (pre ++ rest, out) =
    some (Step.cont (pre ++ rest.map sortIds, out ++ rest.map sortIds))
  | [], pre, out => by simp
  | c :: rest, pre, out => by
    rw [forRange_cons, loop3_step, set_at_length]
    have ih := loop3_run E s l rest (pre ++ [sortIds c]) (out ++ [sortIds c])
    simp only [List.length_append, List.length_cons, List.length_nil, Nat.zero_add, List.append_assoc,
      List.cons_append, List.nil_append] at ih
    simp only [ih, List.map_cons]

/-! ### the sort -/

/-- the translated comparison closure never panics and is the model's `bucketLess` -/
theorem sortLess_total (a b : Bkt) : Tr.Aggregate_sortLess Tr.modelEnv a b = some (bucketLess a b) :=
  Tr.tie_Aggregate_sortLess_safe a b (sigLess_safe _ _) (sigLess_safe _ _)

/-- `sort.SliceStable(bs, closure)` is the model's `sortBuckets` -/
theorem sliceStable_model (bs : List Bkt) :
    sliceStable (modelEnv π).Aggregate_sortLess bs = some (sortBuckets bs) := by
  have hf : (fun a b : Bkt => !((modelEnv π).Aggregate_sortLess b a).getD false) = fun a b => !bucketLess b a := by
    funext a b
    simp [sortLess_total]
  simp only [sliceStable, hf, sortBuckets]
  simp [sortLess_total]

/-! ### the function -/

/-- The model is a fixed point of the translated equation, for every oracle: the translated
`Aggregate` returns the receiver and the buckets `aggBkts π`. -/
theorem tie_Aggregate (s : Snapshot) (l : Lvl) :
    TrA.Snapshot_Aggregate (modelEnv π) s l = (modelEnv π).Snapshot_Aggregate s l := by
  have h1 := loop1_run π s l s.goroutines 0 []
  have h3 := loop3_run (modelEnv π) s l (π s.goroutines.length (bucketLoop π l 0 [] s.goroutines)) [] []
  simp only [List.length_nil, List.nil_append, Nat.zero_add] at h1 h3
  simp only [TrA.Snapshot_Aggregate, h1, after_cont, mE_mapOrder, h3, sliceStable_model, Option.bind_some,
    mE_Aggregate, aggBkts]

/-! ### the buckets of the translated function are the model's `aggregateWith π` -/

theorem bucketLess_sortIds (a b : Bkt) : bucketLess (sortIds a) (sortIds b) = bucketLess a b := by
  have ha : (sortNat a.ids).length = a.ids.length := (sortNat_perm a.ids).length_eq
  have hb : (sortNat b.ids).length = b.ids.length := (sortNat_perm b.ids).length_eq
  obtain ⟨ak, ai, af, ao⟩ := a
  obtain ⟨bk, bi, bf, bo⟩ := b
  simp only [sortIds] at ha hb ⊢
  simp only [bucketLess, ha, hb]

/-- sorting the ids before or after the buckets are sorted is the same (the comparison only reads
the number of ids) -/
theorem sortBuckets_map_sortIds (bs : List Bkt) :
    sortBuckets (bs.map sortIds) = (sortBuckets bs).map sortIds := by
  simp only [sortBuckets]
  exact (List.map_mergeSort (f := sortIds) (fun a _ b _ => by simp [bucketLess_sortIds])).symm

theorem forget_sortIds (b : Bkt) : forget (sortIds b) = b.toBucket := rfl

theorem aggBkts_forget (l : Lvl) (gs : List Goroutine) :
    (aggBkts π l gs).map forget = aggregateWith π l gs := by
  simp only [aggBkts, sortBuckets_map_sortIds, aggregateWith, List.map_map]
  apply List.map_congr_left
  intro b _
  rfl

/-- `tie_Aggregate` spelled out against the model: for EVERY oracle `π`, every snapshot and every
similarity level the translated `Aggregate` does not panic; it returns the receiver as `Snapshot`
and, the ghost field `order` forgotten, exactly the buckets of `aggregateWith π`. -/
theorem Aggregate_translated_eq (s : Snapshot) (l : Lvl) :
    ∃ r : AggResult, TrA.Snapshot_Aggregate (modelEnv π) s l = some r ∧ r.snapshot = s ∧
      r.buckets.map forget = aggregateWith π l s.goroutines :=
  ⟨_, tie_Aggregate π s l, rfl, aggBkts_forget π l s.goroutines⟩

/-- the ghost field the buckets carry is the model's `order` (position of the first member) -/
theorem Aggregate_translated_bkts (s : Snapshot) (l : Lvl) :
    TrA.Snapshot_Aggregate (modelEnv π) s l =
    some { snapshot := s,
           buckets := sortBuckets ((π s.goroutines.length (bucketLoop π l 0 [] s.goroutines)).map sortIds) } :=
  tie_Aggregate π s l

/-- With C06 (`aggregate_oracle_indep`): whatever order Go's map iteration takes (any two oracles
that permute the map), the translated `Aggregate` returns the same buckets, on well-formed
snapshots in which the goroutines flagged first are similar to each other. -/
theorem Aggregate_translated_deterministic {π₁ π₂ : Oracle} (h₁ : ValidOracle π₁) (h₂ : ValidOracle π₂)
    (s : Snapshot) (l : Lvl) (hwf : ∀ g ∈ s.goroutines, g.sig.WF = true)
    (hfirst : ∀ g ∈ s.goroutines, ∀ h ∈ s.goroutines, g.first = true → h.first = true →
      Signature.similar l g.sig h.sig = true) :
    (TrA.Snapshot_Aggregate (modelEnv π₁) s l).map (fun r => (r.snapshot.goroutines, r.buckets.map forget)) =
    (TrA.Snapshot_Aggregate (modelEnv π₂) s l).map (fun r => (r.snapshot.goroutines, r.buckets.map forget)) := by
  simp only [tie_Aggregate, mE_Aggregate, Option.map_some, aggBkts_forget,
    aggregate_oracle_indep h₁ h₂ l s.goroutines hwf hfirst]

end PP.TrA

#print axioms PP.TrA.tie_Aggregate
#print axioms PP.TrA.Aggregate_translated_deterministic
#print axioms PP.TrA.Aggregate_translated_eq
#print axioms PP.TrA.Aggregate_translated_bkts
#print axioms PP.TrA.sliceStable_model
#print axioms PP.TrA.loop1_run
