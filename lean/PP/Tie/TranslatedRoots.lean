import PP.TranslatedRoots
import PP.Lemmas.RootsLemmas
import PP.Lemmas.RootsFind
/-
Tie A, translated part 4: the root finding of path rebasing,
`(*gomodCache).isGoModule` and `(*Snapshot).findRoots`, translated from
stack/context.go on every run (`PP/TranslatedRoots.lean`) and proved equal to the
hand-written model (`PP/Model/Roots.lean`: `isGoModule`, `Snapshot.findRoots`
and the functions they are made of) the theorems of C06 / C18 are about.
`os.Stat` (isFile) and `os.ReadFile` (readFile) are oracles of the environment;
the equations hold for every oracle.  A Go run-time panic (`none`) corresponds
to `Except.error` of the model (`findRoots_no_panic` shows there is none).
-/
namespace PP.TrR
open PP PP.Go

/-- the fields of the receiver `findRoots` writes, from the model's final state -/
def mkS (s : Snapshot) (st : RootsState) : Snapshot :=
  { s with remoteGOROOT := st.goroot, remoteGOPATHs := st.gopaths, localGomods := st.gomods }

/-- the model's result as the translated function returns it: the receiver
afterwards and the number of missing files; a panic for `Except.error` -/
def findRootsResult (s : Snapshot) : Except RootsErr RootsState → Option (Snapshot × Nat)
  | .ok st => some (mkS s st, st.missing)
  | .error _ => none

def modelEnv (fs : FS) : Env where
  isFile := fs.isFile
  readFile := fs.readFile
  gomodCache_isGoModule g parts := some (isGoModule fs g parts)
  Snapshot_findRoots s := findRootsResult s (s.findRoots fs)

variable (fs : FS)

@[simp] theorem mE_isFile (p : Bytes) : (modelEnv fs).isFile p = fs.isFile p := rfl
@[simp] theorem mE_readFile (p : Bytes) : (modelEnv fs).readFile p = fs.readFile p := rfl
@[simp] theorem mE_fs : PP.FS.mk (modelEnv fs).isFile (modelEnv fs).readFile = fs := rfl
@[simp] theorem mE_isGoModule (g parts : List Bytes) :
    (modelEnv fs).gomodCache_isGoModule g parts = some (isGoModule fs g parts) := rfl
@[simp] theorem mE_findRoots (s : Snapshot) :
    (modelEnv fs).Snapshot_findRoots s = findRootsResult s (s.findRoots fs) := rfl

/-! ### (*gomodCache).isGoModule -/

theorem goSlice_to {α : Type} (s : List α) (i : Nat) (h : i ≤ s.length) :
    goSlice s 0 i = some (s.take i) := by
  simp [goSlice, h]

theorem range'_one_succ_reverse (i : Nat) :
    (List.range' 1 (i + 1)).reverse = (i + 1) :: (List.range' 1 i).reverse := by
  rw [List.range'_concat]
  simp [Nat.add_comm]

theorem reModuleSubmatch_none {b : Bytes} (h : reModule b = none) : reModuleSubmatch b = [] := by
  simp [reModuleSubmatch, h]

theorem reModuleSubmatch_some {b m : Bytes} (h : reModule b = some m) : reModuleSubmatch b = [[], m] := by
  simp [reModuleSubmatch, h]

/-- the loop of `isGoModule` followed by its final `return "", ""` -/
theorem loop_isGoModule (g0 parts : List Bytes) :
    ∀ (i k : Nat) (g : List Bytes), i ≤ parts.length →
    after (forRangeB (gomodCache_isGoModule_loop1 (modelEnv fs) g0 parts) (List.range' 1 i).reverse k g)
      (fun g => some (g, (([] : List UInt8), ([] : List UInt8)))) =
    some (isGoModuleGo fs parts i g)
  | 0, k, g, _ => by simp [isGoModuleGo]
  | i + 1, k, g, h => by
    have ih := loop_isGoModule g0 parts i (k + 1)
    rw [range'_one_succ_reverse, forRangeB_cons]
    simp only [gomodCache_isGoModule_loop1, goSlice_to parts (i + 1) h, Option.bind_some, SSet.contains,
      SSet.insert, isGoModuleGo, mE_readFile]
    by_cases hc : g.contains (pathJoin (parts.take (i + 1))) = true
    · simp only [hc, if_true, after_cont]
    · simp only [hc, Bool.false_eq_true, if_false]
      cases hr : fs.readFile (pathJoin [pathJoin (parts.take (i + 1)), b!"go.mod"]) with
      | none => simp only []; exact ih _ (by omega)
      | some b =>
        simp only []
        cases hm : reModule b with
        | none =>
          simp only [reModuleSubmatch_none hm, bne_self_eq_false, Bool.false_eq_true, if_false]
          exact ih _ (by omega)
        | some m => simp [reModuleSubmatch_some hm]

theorem tie_isGoModule (g parts : List Bytes) :
    TrR.gomodCache_isGoModule (modelEnv fs) g parts = (modelEnv fs).gomodCache_isGoModule g parts := by
  simp only [TrR.gomodCache_isGoModule, mE_isGoModule, isGoModule, len]
  exact loop_isGoModule fs g parts parts.length 0 g (Nat.le_refl _)

/-! ### (*Snapshot).findRoots -/

@[simp] theorem mkS_goroutines (s : Snapshot) (st : RootsState) : (mkS s st).goroutines = s.goroutines := rfl
@[simp] theorem mkS_localGOROOT (s : Snapshot) (st : RootsState) : (mkS s st).localGOROOT = s.localGOROOT := rfl
@[simp] theorem mkS_localGOPATHs (s : Snapshot) (st : RootsState) : (mkS s st).localGOPATHs = s.localGOPATHs := rfl
@[simp] theorem mkS_remoteGOROOT (s : Snapshot) (st : RootsState) : (mkS s st).remoteGOROOT = st.goroot := rfl
@[simp] theorem mkS_remoteGOPATHs (s : Snapshot) (st : RootsState) : (mkS s st).remoteGOPATHs = st.gopaths := rfl
@[simp] theorem mkS_localGomods (s : Snapshot) (st : RootsState) : (mkS s st).localGomods = st.gomods := rfl

/-- the loop-carried state of the translated loop (`s`, `missing`, `gmc`) for a state of the model -/
def stOf (s : Snapshot) (st : RootsState) : Snapshot × Nat × List Bytes := (mkS s st, st.missing, st.cache)

/-- `r[:len(r)-n]`: out of range exactly when `len(r) < n` -/
theorem cut_tail {β : Type} (r : Bytes) (n : Nat) (k : Bytes → Option β) :
    ((goSub (len r) n).bind fun t => (goSlice r 0 t).bind k) =
    if r.length < n then none else k (r.take (r.length - n)) := by
  by_cases h : r.length < n
  · simp [len, h]
  · simp [len, goSub_of_le (Nat.le_of_not_lt h), h, goSlice_to r (r.length - n) (by omega)]

/-- the loop over `s.LocalGOPATHs` (with its `break`s) is the model's `findGopath` -/
theorem loop_findGopath (s0 : Snapshot) (missing : Nat) (gmc : List Bytes) (f : Bytes) (parts : List Bytes) :
    ∀ (ls : List Bytes) (k : Nat) (s : Snapshot),
    forRangeB (Snapshot_findRoots_loop2 (modelEnv fs) s0 missing gmc f parts) ls k (s, false) =
    match findGopath fs parts ls with
    | .error _ => none
    | .ok none => some (Step.cont (s, false))
    | .ok (some (key, l)) => some (Step.cont ({ s with remoteGOPATHs := s.remoteGOPATHs.insert key l }, true))
  | [], _, _ => by simp [findGopath]
  | l :: ls, k, s => by
    have e4 : ([47, 115, 114, 99] : List UInt8) = srcDir := rfl
    have e8 : ([47, 112, 107, 103, 47, 109, 111, 100] : List UInt8) = pkgmodDir := rfl
    have n4 : srcDir.length = 4 := rfl
    have n8 : pkgmodDir.length = 8 := rfl
    rw [forRangeB_cons]
    simp only [Snapshot_findRoots_loop2, findGopath, mE_fs, cut_tail, e4, e8, n4, n8]
    by_cases h1 : Bytes.hasSuffix (isRootedIn fs (l ++ srcDir) parts) srcDir = true
    · simp only [h1, if_true]
      by_cases hl : (isRootedIn fs (l ++ srcDir) parts).length < 4
      · simp [hl]
      · simp [hl]
    · simp only [h1, Bool.false_eq_true, if_false]
      by_cases h2 : Bytes.hasSuffix (isRootedIn fs (l ++ pkgmodDir) parts) pkgmodDir = true
      · simp only [h2, if_true]
        by_cases hl : (isRootedIn fs (l ++ pkgmodDir) parts).length < 8
        · simp [hl]
        · simp [hl]
      · simp only [h2, Bool.false_eq_true, if_false]
        exact loop_findGopath s0 missing gmc f parts ls (k + 1) s

theorem ite_ite_same {α : Type} (c1 c2 : Prop) [Decidable c1] [Decidable c2] (a b : α) :
    (if c1 then (if c2 then a else b) else b) = if c1 ∧ c2 then a else b := by
  by_cases h1 : c1 <;> by_cases h2 : c2 <;> simp [h1, h2]

/-- the condition under which the `RemoteGOROOT` block of the loop body fires, in the model's terms -/
theorem probe_suffix (lg : Bytes) (st : RootsState) (parts : List Bytes) :
    (Bytes.hasSuffix (gorootProbe fs lg st parts) srcDir = true) ↔
    ((st.goroot == []) = true ∧ Bytes.hasSuffix (isRootedIn fs (lg ++ srcDir) parts) srcDir = true) := by
  unfold gorootProbe
  by_cases hg : st.goroot = []
  · simp [hg]
  · have : Bytes.hasSuffix [] srcDir = false := rfl
    simp [hg, this]

theorem probe_eq (lg : Bytes) (st : RootsState) (parts : List Bytes) (h : (st.goroot == []) = true) :
    gorootProbe fs lg st parts = isRootedIn fs (lg ++ srcDir) parts := by
  simp only [gorootProbe]
  simp only [beq_iff_eq] at h
  simp [h]

/-- one iteration of the loop of `findRoots` is the model's `findRootsStep` -/
theorem step_findRoots (sp s0 : Snapshot) (k : Nat) (f : Bytes) (st : RootsState) :
    Snapshot_findRoots_loop1 (modelEnv fs) sp k f (stOf s0 st) =
    match findRootsStep fs s0.localGOROOT s0.localGOPATHs st f with
    | .error _ => none
    | .ok st' => some (Step.cont (stOf s0 st')) := by
  have e5 : ([47, 115, 114, 99, 47] : List UInt8) = srcSep := rfl
  have e4 : ([47, 115, 114, 99] : List UInt8) = srcDir := rfl
  have n4 : srcDir.length = 4 := rfl
  simp only [Snapshot_findRoots_loop1, stOf, findRootsStep, mkS_remoteGOROOT, mkS_remoteGOPATHs, mkS_localGomods,
    mkS_localGOROOT, mkS_localGOPATHs, e5, e4, mE_fs, mE_isFile, mE_isGoModule, cut_tail, loop_findGopath,
    ite_ite_same]
  by_cases h1 : (st.goroot != [] && Bytes.hasPrefix f (st.goroot ++ srcSep)) = true
  · simp only [h1, if_true]
  simp only [h1, Bool.false_eq_true, if_false]
  by_cases h2 : hasSrcPrefix f st.gopaths = true
  · simp only [h2, if_true]
  simp only [h2, Bool.false_eq_true, if_false]
  by_cases h3 : mapHasPrefix f st.gomods = true
  · simp only [h3, if_true]
  simp only [h3, Bool.false_eq_true, if_false, findRootsDisk]
  by_cases hp : (st.goroot == []) = true ∧
      Bytes.hasSuffix (isRootedIn fs (s0.localGOROOT ++ srcDir) (splitPath f)) srcDir = true
  · -- RemoteGOROOT found
    simp only [hp, and_self, if_true, probe_eq fs s0.localGOROOT st (splitPath f) hp.1, n4]
    by_cases hl : (isRootedIn fs (s0.localGOROOT ++ srcDir) (splitPath f)).length < 4
    · simp [hl]
    · simp only [hl, if_false, after_ret]
      rfl
  · have hs : Bytes.hasSuffix (gorootProbe fs s0.localGOROOT st (splitPath f)) srcDir = false :=
      Bool.eq_false_iff.mpr fun h => hp ((probe_suffix fs s0.localGOROOT st (splitPath f)).mp h)
    simp only [hp, if_false, after_cont, hs, Bool.false_eq_true, mkS_localGOPATHs]
    cases hgp : findGopath fs (splitPath f) s0.localGOPATHs with
    | error e => simp only [after_none]
    | ok o =>
      cases o with
      | some kl =>
        obtain ⟨key, l⟩ := kl
        simp only [after_cont, if_true]
        rfl
      | none =>
        simp only [after_cont, Bool.false_eq_true, if_false, findRootsMod, findModule, len]
        by_cases hn : (splitPath f).length > 1
        · have hd : (splitPath f).take ((splitPath f).length - 1) = (splitPath f).dropLast :=
            (List.dropLast_eq_take).symm
          simp only [hn, decide_true, if_true, goSub_of_le (Nat.le_of_lt hn),
            goSlice_to (splitPath f) ((splitPath f).length - 1) (Nat.sub_le _ _), Option.bind_some, hd]
          generalize isGoModule fs st.cache (splitPath f).dropLast = r
          by_cases hr : (r.2.1 != []) = true
          · simp only [hr, if_true, after_ret]
            rfl
          · simp only [hr, Bool.false_eq_true, if_false, after_cont]
            by_cases hf : fs.isFile f = true
            · simp only [hf, if_true]; rfl
            · simp only [hf, Bool.false_eq_true, if_false]; rfl
        · have hb : (([] : Bytes) != []) = false := rfl
          simp only [hn, decide_false, Bool.false_eq_true, if_false, after_cont, hb]
          by_cases hf : fs.isFile f = true
          · simp only [hf, if_true]; rfl
          · simp only [hf, Bool.false_eq_true, if_false]; rfl

/-- the loop of `findRoots` is the model's `findRootsLoop` -/
theorem loop_findRoots (sp s0 : Snapshot) :
    ∀ (files : List Bytes) (k : Nat) (st : RootsState),
    forRange (Snapshot_findRoots_loop1 (modelEnv fs) sp) files k (stOf s0 st) =
    match findRootsLoop fs s0.localGOROOT s0.localGOPATHs st files with
    | .error _ => none
    | .ok st' => some (Step.cont (stOf s0 st'))
  | [], _, _ => by simp [findRootsLoop]
  | f :: files, k, st => by
    rw [forRange_cons, step_findRoots, findRootsLoop]
    cases findRootsStep fs s0.localGOROOT s0.localGOPATHs st f with
    | error e => rfl
    | ok st' => exact loop_findRoots sp s0 files (k + 1) st'

theorem tie_findRoots (s : Snapshot) :
    TrR.Snapshot_findRoots (modelEnv fs) s = (modelEnv fs).Snapshot_findRoots s := by
  have h0 : (({ ({ s with remoteGOPATHs := ([] : List (Bytes × Bytes)) } : Snapshot) with
        localGomods := ([] : List (Bytes × Bytes)) } : Snapshot), (0 : Nat), ([] : List Bytes)) =
      stOf s { goroot := s.remoteGOROOT } := rfl
  simp only [TrR.Snapshot_findRoots, mE_findRoots, Snapshot.findRoots, h0, loop_findRoots]
  cases findRootsLoop fs s.localGOROOT s.localGOPATHs { goroot := s.remoteGOROOT } (getFiles s.goroutines) with
  | error e => rfl
  | ok st => rfl

/-- `tie_findRoots` spelled out: the translated `findRoots` returns the receiver with the three fields
of the model's final state, and the model's `missing`; it panics exactly where the model has `.error`. -/
theorem findRoots_translated_eq (s : Snapshot) :
    TrR.Snapshot_findRoots (modelEnv fs) s =
    match s.findRoots fs with
    | .ok st => some ({ s with remoteGOROOT := st.goroot, remoteGOPATHs := st.gopaths, localGomods := st.gomods },
                      st.missing)
    | .error _ => none := by
  rw [tie_findRoots, mE_findRoots]
  cases s.findRoots fs <;> rfl

/-- with `findRootsLoop_ok` (the slice expressions are in range): the translated `findRoots` does not panic,
for every file-system oracle and every snapshot -/
theorem findRoots_translated_no_panic (s : Snapshot) :
    ∃ st, s.findRoots fs = .ok st ∧ TrR.Snapshot_findRoots (modelEnv fs) s = some (mkS s st, st.missing) := by
  obtain ⟨st, h⟩ := findRootsLoop_ok fs s.localGOROOT s.localGOPATHs { goroot := s.remoteGOROOT } (getFiles s.goroutines)
  have h' : s.findRoots fs = .ok st := h
  exact ⟨st, h', by rw [tie_findRoots, mE_findRoots, h']; rfl⟩

end PP.TrR

#print axioms PP.TrR.tie_isGoModule
#print axioms PP.TrR.tie_findRoots
#print axioms PP.TrR.findRoots_translated_eq
#print axioms PP.TrR.findRoots_translated_no_panic
