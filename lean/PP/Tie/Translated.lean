import PP.Translated
/-
Tie A, second half: the comparison / merge family of stack.go is *translated*
from /repo's current source on every run (`extract/translate.go` →
`PP/Translated.lean`), and this file proves that the hand-written model
(`PP/Model/Sig.lean`), on which C04 C05 C06 C12 C13 C14 rest, satisfies every
one of the translated equations:

    Tr.f modelEnv args = modelEnv.f args          for each translated f

`modelEnv` maps every Go function to its model counterpart (`none` where the
model says Go panics with an index out of range).  The Go functions are
structurally recursive over finite argument trees, so the equations have a
unique solution: the model *is* the meaning of the translated code.  A change
of the Go source changes `PP/Translated.lean`; if the new code no longer
agrees with the model, one of the theorems below stops checking — by name.
-/
namespace PP.Tr
open PP PP.Go

/-- Signature.less with Go's evaluation order: the reverse stack comparison is
only evaluated when the first one is false. -/
def sigLess? (s r : Signature) : Option Bool :=
  (Stack.less? s.stack r.stack).bind fun t1 =>
  if t1 then some true else
  (Stack.less? r.stack s.stack).bind fun t2 =>
  if t2 then some false else
  if s.locked && !r.locked then some true
  else if r.locked && !s.locked then some false
  else some (bytesLt s.state r.state)

def modelEnv : Env where
  Arg_equal a r := some (Arg.equal a r)
  Arg_similar a r l := some (Arg.similar l a r)
  Args_equal a r := some (Args.equal a r)
  Args_similar a r l := some (Args.similar l a r)
  Args_merge a r := if Arg.shapeOKL a.values r.values then some (Args.merge a r) else none
  Call_equal c r := some (Call.equal c r)
  Call_similar c r l := some (Call.similar l c r)
  Call_merge c r := if Arg.shapeOKL c.args.values r.args.values then some (Call.merge c r) else none
  Stack_equal s r := some (Stack.equal s r)
  Stack_similar s r l := some (Stack.similar l s r)
  Stack_merge s r := if callsShapeOK s.calls r.calls then some (Stack.merge s r) else none
  Stack_less s r := Stack.less? s r
  Signature_equal s r := some (Signature.equal s r)
  Signature_similar s r l := some (Signature.similar l s r)
  Signature_merge s r := if Signature.shapeOK s r then some (Signature.merge s r) else none
  Signature_less s r := sigLess? s r

@[simp] theorem mE_Arg_equal (a r : Arg) : modelEnv.Arg_equal a r = some (Arg.equal a r) := rfl
@[simp] theorem mE_Arg_similar (a r : Arg) (l : Lvl) : modelEnv.Arg_similar a r l = some (Arg.similar l a r) := rfl
@[simp] theorem mE_Args_equal (a r : Args) : modelEnv.Args_equal a r = some (Args.equal a r) := rfl
@[simp] theorem mE_Args_similar (a r : Args) (l : Lvl) : modelEnv.Args_similar a r l = some (Args.similar l a r) := rfl
@[simp] theorem mE_Args_merge (a r : Args) :
    modelEnv.Args_merge a r = if Arg.shapeOKL a.values r.values then some (Args.merge a r) else none := rfl
@[simp] theorem mE_Call_equal (a r : Call) : modelEnv.Call_equal a r = some (Call.equal a r) := rfl
@[simp] theorem mE_Call_similar (a r : Call) (l : Lvl) : modelEnv.Call_similar a r l = some (Call.similar l a r) := rfl
@[simp] theorem mE_Call_merge (c r : Call) :
    modelEnv.Call_merge c r = if Arg.shapeOKL c.args.values r.args.values then some (Call.merge c r) else none := rfl
@[simp] theorem mE_Stack_equal (a r : Stack) : modelEnv.Stack_equal a r = some (Stack.equal a r) := rfl
@[simp] theorem mE_Stack_similar (a r : Stack) (l : Lvl) : modelEnv.Stack_similar a r l = some (Stack.similar l a r) := rfl
@[simp] theorem mE_Stack_merge (s r : Stack) :
    modelEnv.Stack_merge s r = if callsShapeOK s.calls r.calls then some (Stack.merge s r) else none := rfl
@[simp] theorem mE_Stack_less (s r : Stack) : modelEnv.Stack_less s r = Stack.less? s r := rfl
@[simp] theorem mE_Signature_equal (a r : Signature) : modelEnv.Signature_equal a r = some (Signature.equal a r) := rfl
@[simp] theorem mE_Signature_similar (a r : Signature) (l : Lvl) :
    modelEnv.Signature_similar a r l = some (Signature.similar l a r) := rfl
@[simp] theorem mE_Signature_merge (s r : Signature) :
    modelEnv.Signature_merge s r = if Signature.shapeOK s r then some (Signature.merge s r) else none := rfl
@[simp] theorem mE_Signature_less (s r : Signature) : modelEnv.Signature_less s r = sigLess? s r := rfl

/-! ### Arg -/

theorem tie_Arg_equal (a r : Arg) : Arg_equal modelEnv a r = modelEnv.Arg_equal a r := by
  simp [Arg_equal, Arg.equal]

theorem tie_Arg_similar (a r : Arg) (l : Lvl) : Arg_similar modelEnv a r l = modelEnv.Arg_similar a r l := by
  cases a <;> cases r <;> cases l <;>
    simp [Arg_similar, Arg.similar, Args.similar] <;> grind

/-! ### Args -/

theorem similarL_length {l : Lvl} : ∀ {xs ys : List Arg}, Arg.similarL l xs ys = true → xs.length = ys.length
  | [], [], _ => rfl
  | [], _ :: _, h => by simp [Arg.similarL] at h
  | _ :: _, [], h => by simp [Arg.similarL] at h
  | x :: xs, y :: ys, h => by
    simp only [Arg.similarL, Bool.and_eq_true] at h
    simp [similarL_length h.2]

theorem loop_Args_similar (l : Lvl) (a r : Args) :
    ∀ (xs : List Arg) (k : Nat), xs.length + k = r.values.length →
    forRange (Args_similar_loop1 modelEnv a r l) xs k () =
    some (if Arg.similarL l xs (r.values.drop k) then Step.cont () else Step.ret false)
  | [], k, h => by
    have : r.values.drop k = [] := List.drop_eq_nil_of_le (by simp at h; omega)
    simp [this, Arg.similarL]
  | x :: xs, k, h => by
    have hk : k < r.values.length := by simp at h; omega
    have ih := loop_Args_similar l a r xs (k + 1) (by simp at h ⊢; omega)
    rw [forRange_cons, List.drop_eq_getElem_cons hk]
    simp only [Args_similar_loop1, List.getElem?_eq_getElem hk, mE_Arg_similar, Option.bind_some, Arg.similarL]
    by_cases hp : Arg.similar l x r.values[k] = true
    · simp only [hp, Bool.not_true, Bool.false_eq_true, if_false, Bool.true_and]
      exact ih
    · simp [hp]

theorem tie_Args_similar (a r : Args) (l : Lvl) : Args_similar modelEnv a r l = modelEnv.Args_similar a r l := by
  unfold Args_similar
  by_cases h : ((a.elided != r.elided) || (len a.values != len r.values)) = true
  · simp only [h, if_true]
    simp only [mE_Args_similar, Args.similar, Option.some.injEq]
    simp only [Bool.or_eq_true, bne_iff_ne, ne_eq, len] at h
    rcases h with h | h
    · simp [h]
    · cases hs : Arg.similarL l a.values r.values
      · simp
      · exact absurd (similarL_length hs) h
  · simp only [h]
    simp only [Bool.or_eq_true, bne_iff_ne, ne_eq, len, not_or, Decidable.not_not] at h
    rw [loop_Args_similar l a r a.values 0 (by simpa using h.2)]
    simp only [List.drop_zero, mE_Args_similar, Args.similar, h.1, BEq.rfl, Bool.true_and]
    cases Arg.similarL l a.values r.values <;> simp

/-- Args.equal's loop is Args.similar's loop at ExactFlags -/
theorem Args_equal_loop1_eq (a r : Args) :
    Args_equal_loop1 modelEnv a r = Args_similar_loop1 modelEnv a r Lvl.exactFlags := by
  funext i l st
  simp [Args_equal_loop1, Args_similar_loop1, Arg.equal]

theorem tie_Args_equal (a r : Args) : Args_equal modelEnv a r = modelEnv.Args_equal a r := by
  have := tie_Args_similar a r Lvl.exactFlags
  simp only [Args_similar, mE_Args_similar] at this
  simp only [Args_equal, Args_equal_loop1_eq, mE_Args_equal, Args.equal]
  exact this

theorem getElem?_append_replicate {α : Type} (done : List α) (n : Nat) (z : α) :
    (done ++ List.replicate (n + 1) z)[done.length]? = some z := by simp

theorem set_append_replicate {α : Type} (done : List α) (n : Nat) (z v : α) :
    (done ++ List.replicate (n + 1) z).set done.length v = (done ++ [v]) ++ List.replicate n z := by
  simp [List.replicate_succ]

theorem getElem?_append_cons_self {α : Type} (done rest : List α) (v : α) :
    (done ++ v :: rest)[done.length]? = some v := by simp

theorem set_append_cons_self {α : Type} (done rest : List α) (v w : α) :
    (done ++ v :: rest).set done.length w = done ++ w :: rest := by simp

theorem mergeL_nil (fs : List Arg) : Arg.mergeL fs [] = fs := by cases fs <;> simp [Arg.mergeL]

theorem loop_Args_merge (a r : Args) (e : Bool) :
    ∀ (xs : List Arg) (k : Nat) (done : List Arg), done.length = k →
    forRange (Args_merge_loop1 modelEnv a r) xs k { values := done ++ List.replicate xs.length zeroArg, elided := e } =
    if Arg.shapeOKL xs (r.values.drop k) then
      some (Step.cont ({ values := done ++ Arg.mergeL xs (r.values.drop k), elided := e } : Args))
    else none
  | [], k, done, _ => by simp [Arg.shapeOKL, Arg.mergeL]
  | x :: xs, k, done, hd => by
    subst hd
    by_cases hk : done.length < r.values.length
    · have ih : ∀ v, forRange (Args_merge_loop1 modelEnv a r) xs (done.length + 1)
            { values := done ++ v :: List.replicate xs.length zeroArg, elided := e } =
          if Arg.shapeOKL xs (List.drop (done.length + 1) r.values) = true then
            some (Step.cont { values := done ++ v :: Arg.mergeL xs (List.drop (done.length + 1) r.values), elided := e })
          else none := fun v => by
        have := loop_Args_merge a r e xs (done.length + 1) (done ++ [v]) (by simp)
        simpa only [List.append_assoc, List.singleton_append] using this
      rw [forRange_cons, List.drop_eq_getElem_cons hk]
      simp only [Args_merge_loop1, List.getElem?_eq_getElem hk, Option.bind_some, List.length_cons,
        getElem?_append_replicate, set_append_replicate, List.append_assoc, List.singleton_append,
        getElem?_append_cons_self, set_append_cons_self, ofArg_zeroArg]
      cases x with
      | scalar n v p o i =>
        simp only [ofArg_scalar, Bool.false_eq_true, if_false, mE_Arg_equal, Option.bind_some,
          Arg.shapeOKL, Arg.shapeOK, Bool.true_and, Arg.mergeL, Arg.merge]
        by_cases heq : Arg.equal (Arg.scalar n v p o i) r.values[done.length] = true
        · simp only [heq, Bool.not_true, Bool.false_eq_true, if_false, if_true, Option.bind_some]
          exact ih _
        · simp only [heq, Bool.not_false, if_true, if_false, Option.bind_some, getElem?_append_cons_self,
            set_append_cons_self, ofArg_scalar, ArgS.toArg, Bool.false_eq_true]
          exact ih _
      | agg fs el =>
        simp only [ofArg_agg, if_true, mE_Args_merge, ArgS.toArg,
          getElem?_append_cons_self, set_append_cons_self, Option.bind_some]
        cases hy : r.values[done.length] with
        | scalar n' v' p' o' i' =>
          simp only [Arg.shapeOKL, Arg.shapeOK, Arg.mergeL, Arg.merge, ofArg_scalar]
          by_cases hs : Arg.shapeOKL fs [] = true
          · simp only [hs, if_true, Option.bind_some, Bool.true_and, Args.merge, getElem?_append_cons_self,
              set_append_cons_self, ofArg_agg, mergeL_nil]
            exact ih _
          · simp [hs]
        | agg fs' el' =>
          simp only [Arg.shapeOKL, Arg.shapeOK, Arg.mergeL, Arg.merge, ofArg_agg]
          by_cases hs : Arg.shapeOKL fs fs' = true
          · simp only [hs, if_true, Option.bind_some, Bool.true_and, Args.merge, getElem?_append_cons_self,
              set_append_cons_self, ofArg_agg]
            exact ih _
          · simp [hs]
    · have hd : r.values.drop done.length = [] := List.drop_eq_nil_of_le (by omega)
      have hn : r.values[done.length]? = none := List.getElem?_eq_none (by omega)
      rw [forRange_cons, hd]
      simp [Args_merge_loop1, hn, Arg.shapeOKL]

theorem tie_Args_merge (a r : Args) : Args_merge modelEnv a r = modelEnv.Args_merge a r := by
  unfold Args_merge
  have := loop_Args_merge a r a.elided a.values 0 [] rfl
  simp only [List.nil_append, List.drop_zero, len] at this ⊢
  rw [this]
  by_cases hs : Arg.shapeOKL a.values r.values = true <;> simp [hs, Args.merge]

/-! ### Call -/

theorem tie_Call_similar (c r : Call) (l : Lvl) : Call_similar modelEnv c r l = modelEnv.Call_similar c r l := by
  simp only [Call_similar, mE_Args_similar, Option.bind_some, mE_Call_similar, Call.similar]
  by_cases h : (c.line == r.line && c.fn.complete == r.fn.complete && c.remoteSrcPath == r.remoteSrcPath) = true
  · simp [h]
  · simp [h]

theorem tie_Call_equal (c r : Call) : Call_equal modelEnv c r = modelEnv.Call_equal c r := by
  simp only [Call_equal, mE_Args_equal, Option.bind_some, mE_Call_equal, Call.equal, Call.similar, Args.equal]
  by_cases h : (c.line == r.line && c.fn.complete == r.fn.complete && c.remoteSrcPath == r.remoteSrcPath) = true
  · simp [h]
  · simp [h]

theorem tie_Call_merge (c r : Call) : Call_merge modelEnv c r = modelEnv.Call_merge c r := by
  simp only [Call_merge, mE_Args_merge, mE_Call_merge, Call.merge]
  by_cases hs : Arg.shapeOKL c.args.values r.args.values = true <;> simp [hs]

/-! ### Stack: equal, similar, merge -/

theorem callsSimilar_length {l : Lvl} : ∀ {xs ys : List Call}, callsSimilar l xs ys = true → xs.length = ys.length
  | [], [], _ => rfl
  | [], _ :: _, h => by simp [callsSimilar] at h
  | _ :: _, [], h => by simp [callsSimilar] at h
  | x :: xs, y :: ys, h => by
    simp only [callsSimilar, Bool.and_eq_true] at h
    simp [callsSimilar_length h.2]

theorem loop_Stack_similar (l : Lvl) (s r : Stack) :
    ∀ (xs : List Call) (k : Nat), s.calls.drop k = xs → xs.length + k = r.calls.length →
    forRange (Stack_similar_loop1 modelEnv s r l) xs k () =
    some (if callsSimilar l xs (r.calls.drop k) then Step.cont () else Step.ret false)
  | [], k, _, h => by
    have : r.calls.drop k = [] := List.drop_eq_nil_of_le (by simp at h; omega)
    simp [this, callsSimilar]
  | x :: xs, k, hs, h => by
    have hk : k < r.calls.length := by simp at h; omega
    have hks : k < s.calls.length := by
      by_cases hh : k < s.calls.length
      · exact hh
      · rw [List.drop_eq_nil_of_le (by omega)] at hs; cases hs
    have hx : s.calls[k] = x ∧ s.calls.drop (k + 1) = xs := by
      rw [List.drop_eq_getElem_cons hks] at hs
      exact ⟨(List.cons.inj hs).1, (List.cons.inj hs).2⟩
    have ih := loop_Stack_similar l s r xs (k + 1) hx.2 (by simp at h ⊢; omega)
    rw [forRange_cons, List.drop_eq_getElem_cons hk]
    simp only [Stack_similar_loop1, List.getElem?_eq_getElem hk, List.getElem?_eq_getElem hks, hx.1,
      mE_Call_similar, Option.bind_some, callsSimilar]
    by_cases hp : Call.similar l x r.calls[k] = true
    · simp only [hp, Bool.not_true, Bool.false_eq_true, if_false, Bool.true_and]
      exact ih
    · simp [hp]

theorem tie_Stack_similar (s r : Stack) (l : Lvl) : Stack_similar modelEnv s r l = modelEnv.Stack_similar s r l := by
  unfold Stack_similar
  by_cases h : ((len s.calls != len r.calls) || (s.elided != r.elided)) = true
  · simp only [h, if_true]
    simp only [mE_Stack_similar, Stack.similar, Option.some.injEq]
    simp only [Bool.or_eq_true, bne_iff_ne, ne_eq, len] at h
    rcases h with h | h
    · cases hs : callsSimilar l s.calls r.calls
      · simp
      · exact absurd (callsSimilar_length hs) h
    · simp [h]
  · simp only [h]
    simp only [Bool.or_eq_true, bne_iff_ne, ne_eq, len, not_or, Decidable.not_not] at h
    rw [loop_Stack_similar l s r s.calls 0 rfl (by simpa using h.1)]
    simp only [List.drop_zero, mE_Stack_similar, Stack.similar, h.2, BEq.rfl, Bool.true_and]
    cases callsSimilar l s.calls r.calls <;> simp

theorem Stack_equal_loop1_eq (s r : Stack) :
    Stack_equal_loop1 modelEnv s r = Stack_similar_loop1 modelEnv s r Lvl.exactFlags := by
  funext i x st
  simp [Stack_equal_loop1, Stack_similar_loop1, Call.equal]

theorem tie_Stack_equal (s r : Stack) : Stack_equal modelEnv s r = modelEnv.Stack_equal s r := by
  have := tie_Stack_similar s r Lvl.exactFlags
  simp only [Stack_similar, mE_Stack_similar] at this
  simp only [Stack_equal, Stack_equal_loop1_eq, mE_Stack_equal, Stack.equal]
  exact this

theorem callsMerge_nil (cs : List Call) : callsMerge cs [] = cs := by cases cs <;> simp [callsMerge]

theorem loop_Stack_merge (s r : Stack) (e : Bool) :
    ∀ (xs : List Call) (k : Nat) (done : List Call), done.length = k → s.calls.drop k = xs →
    forRange (Stack_merge_loop1 modelEnv s r) xs k { calls := done ++ List.replicate xs.length zeroCall, elided := e } =
    if callsShapeOK xs (r.calls.drop k) then
      some (Step.cont ({ calls := done ++ callsMerge xs (r.calls.drop k), elided := e } : Stack))
    else none
  | [], k, done, _, _ => by simp [callsShapeOK, callsMerge]
  | x :: xs, k, done, hd, hs => by
    subst hd
    have hks : done.length < s.calls.length := by
      by_cases hh : done.length < s.calls.length
      · exact hh
      · rw [List.drop_eq_nil_of_le (by omega)] at hs; cases hs
    have hx : s.calls[done.length] = x ∧ s.calls.drop (done.length + 1) = xs := by
      rw [List.drop_eq_getElem_cons hks] at hs
      exact ⟨(List.cons.inj hs).1, (List.cons.inj hs).2⟩
    by_cases hk : done.length < r.calls.length
    · have ih : ∀ v, forRange (Stack_merge_loop1 modelEnv s r) xs (done.length + 1)
            { calls := done ++ v :: List.replicate xs.length zeroCall, elided := e } =
          if callsShapeOK xs (List.drop (done.length + 1) r.calls) = true then
            some (Step.cont { calls := done ++ v :: callsMerge xs (List.drop (done.length + 1) r.calls), elided := e })
          else none := fun v => by
        have := loop_Stack_merge s r e xs (done.length + 1) (done ++ [v]) (by simp) hx.2
        simpa only [List.append_assoc, List.singleton_append] using this
      rw [forRange_cons, List.drop_eq_getElem_cons hk]
      simp only [Stack_merge_loop1, List.getElem?_eq_getElem hk, List.getElem?_eq_getElem hks, hx.1,
        Option.bind_some, List.length_cons, mE_Call_merge, callsShapeOK, callsMerge]
      by_cases hsh : Arg.shapeOKL x.args.values r.calls[done.length].args.values = true
      · simp only [hsh, if_true, Option.bind_some, getElem?_append_replicate, set_append_replicate,
          List.append_assoc, List.singleton_append, Bool.true_and]
        exact ih _
      · simp [hsh]
    · have hd : r.calls.drop done.length = [] := List.drop_eq_nil_of_le (by omega)
      have hn : r.calls[done.length]? = none := List.getElem?_eq_none (by omega)
      rw [forRange_cons, hd]
      simp [Stack_merge_loop1, hn, callsShapeOK, List.getElem?_eq_getElem hks]

theorem tie_Stack_merge (s r : Stack) : Stack_merge modelEnv s r = modelEnv.Stack_merge s r := by
  unfold Stack_merge
  have := loop_Stack_merge s r s.elided s.calls 0 [] rfl rfl
  simp only [List.nil_append, List.drop_zero, len] at this ⊢
  rw [this]
  by_cases hs : callsShapeOK s.calls r.calls = true <;> simp [hs, Stack.merge]

/-! ### Stack.less -/

theorem countLoc_cons (c : Call) (cs : List Call) (loc : Loc) :
    countLoc (c :: cs) loc = (if c.location = loc then 1 else 0) + countLoc cs loc := by
  simp only [countLoc, List.filter_cons]
  by_cases h : c.location = loc
  · simp [h]; omega
  · simp [h]

theorem countMain_cons (c : Call) (cs : List Call) :
    countMain (c :: cs) = (if c.fn.isPkgMain then 1 else 0) + countMain cs := by
  simp only [countMain, List.filter_cons]
  by_cases h : c.fn.isPkgMain = true
  · simp [h]; omega
  · simp [h]

theorem loop_less1 (s r : Stack) (rLoc : List Nat) (rMain : Nat) :
    ∀ (cs : List Call) (k a0 a1 a2 a3 a4 m : Nat),
    forRange (Stack_less_loop1 modelEnv s r rLoc rMain) cs k ([a0, a1, a2, a3, a4], m) =
    some (Step.cont ([a0 + countLoc cs .unknown, a1 + countLoc cs .goMod, a2 + countLoc cs .gopath,
      a3 + countLoc cs .goPkg, a4 + countLoc cs .stdlib], m + countMain cs))
  | [], _, _, _, _, _, _, _ => by simp [countLoc, countMain]
  | c :: cs, k, a0, a1, a2, a3, a4, m => by
    rw [forRange_cons]
    simp only [Stack_less_loop1, locIdx, countLoc_cons, countMain_cons]
    cases hl : c.location <;> cases hm : c.fn.isPkgMain <;>
      simp [Loc.toNat, loop_less1 s r rLoc rMain cs] <;> omega

theorem loop_less2 (s r : Stack) (lLoc : List Nat) (lMain : Nat) :
    ∀ (cs : List Call) (k a0 a1 a2 a3 a4 m : Nat),
    forRange (Stack_less_loop2 modelEnv s r lLoc lMain) cs k ([a0, a1, a2, a3, a4], m) =
    some (Step.cont ([a0 + countLoc cs .unknown, a1 + countLoc cs .goMod, a2 + countLoc cs .gopath,
      a3 + countLoc cs .goPkg, a4 + countLoc cs .stdlib], m + countMain cs))
  | [], _, _, _, _, _, _, _ => by simp [countLoc, countMain]
  | c :: cs, k, a0, a1, a2, a3, a4, m => by
    rw [forRange_cons]
    simp only [Stack_less_loop2, locIdx, countLoc_cons, countMain_cons]
    cases hl : c.location <;> cases hm : c.fn.isPkgMain <;>
      simp [Loc.toNat, loop_less2 s r lLoc lMain cs] <;> omega

/-- the per-frame loop against the model's `framesCmp` -/
theorem loop_less4 (s r : Stack) (lLoc rLoc : List Nat) (lMain rMain : Nat) :
    ∀ (xs : List Call) (k : Nat), s.calls.drop k = xs →
    forRange (Stack_less_loop4 modelEnv s r lLoc rLoc lMain rMain) xs k () =
    match framesCmp xs (r.calls.drop k) with
    | none => none
    | some .lt => some (Step.ret true)
    | some .gt => some (Step.ret false)
    | some .eq => some (Step.cont ())
  | [], k, _ => by simp [framesCmp]
  | x :: xs, k, hs => by
    have hks : k < s.calls.length := by
      by_cases hh : k < s.calls.length
      · exact hh
      · rw [List.drop_eq_nil_of_le (by omega)] at hs; cases hs
    have hx : s.calls[k] = x ∧ s.calls.drop (k + 1) = xs := by
      rw [List.drop_eq_getElem_cons hks] at hs
      exact ⟨(List.cons.inj hs).1, (List.cons.inj hs).2⟩
    rw [forRange_cons]
    by_cases hk : k < r.calls.length
    · have ih := loop_less4 s r lLoc rLoc lMain rMain xs (k + 1) hx.2
      rw [List.drop_eq_getElem_cons hk]
      simp only [Stack_less_loop4, List.getElem?_eq_getElem hk, List.getElem?_eq_getElem hks, hx.1,
        Option.bind_some, framesCmp, strLt, decide_eq_true_eq]
      by_cases h1 : bytesLt x.fn.complete r.calls[k].fn.complete = true
      · simp [h1]
      · by_cases h2 : bytesLt r.calls[k].fn.complete x.fn.complete = true
        · simp [h1, h2]
        · by_cases h3 : bytesLt x.dirSrc r.calls[k].dirSrc = true
          · simp [h1, h2, h3]
          · by_cases h4 : bytesLt r.calls[k].dirSrc x.dirSrc = true
            · simp [h1, h2, h3, h4]
            · by_cases h5 : x.line < r.calls[k].line
              · simp [h1, h2, h3, h4, h5]
              · by_cases h6 : r.calls[k].line < x.line
                · simp [h1, h2, h3, h4, h5, h6]
                · simp only [h1, h2, h3, h4, h5, h6, Bool.false_eq_true, if_false, gt_iff_lt]
                  exact ih
    · have hd : r.calls.drop k = [] := List.drop_eq_nil_of_le (by omega)
      have hn : r.calls[k]? = none := List.getElem?_eq_none (by omega)
      rw [hd]
      simp [Stack_less_loop4, hn, framesCmp, List.getElem?_eq_getElem hks]

theorem tie_Stack_less (s r : Stack) : Stack_less modelEnv s r = modelEnv.Stack_less s r := by
  simp only [Stack_less, mE_Stack_less, Stack.less?, histo]
  have e1 := loop_less1 s r [0, 0, 0, 0, 0] 0 s.calls 0 0 0 0 0 0 0
  have e2 := fun lLoc lMain => loop_less2 s r lLoc lMain r.calls 0 0 0 0 0 0 0
  simp only [Nat.zero_add] at e1 e2
  have r5 : List.replicate 5 0 = [0, 0, 0, 0, 0] := rfl
  simp only [r5]
  rw [e1]
  simp only [after_cont, e2]
  have e4 := loop_less4 s r
    [countLoc s.calls .unknown, countLoc s.calls .goMod, countLoc s.calls .gopath, countLoc s.calls .goPkg, countLoc s.calls .stdlib]
    [countLoc r.calls .unknown, countLoc r.calls .goMod, countLoc r.calls .gopath, countLoc r.calls .goPkg, countLoc r.calls .stdlib]
    (countMain s.calls) (countMain r.calls) s.calls 0 rfl
  simp only [List.drop_zero] at e4
  have r4 : List.range' 1 (5 - 1) = [1, 2, 3, 4] := rfl
  simp only [r4, forRange_cons, forRange_nil, Stack_less_loop3, histoCmp, decide_eq_true_eq, locIdx, Loc.toNat, e4,
    List.getElem?_cons_zero, List.getElem?_cons_succ, Option.bind_some, gt_iff_lt]
  generalize countMain s.calls = m1
  generalize countMain r.calls = m2
  generalize countLoc s.calls .unknown = u1
  generalize countLoc r.calls .unknown = u2
  generalize countLoc s.calls .goMod = g1
  generalize countLoc r.calls .goMod = g2
  generalize countLoc s.calls .gopath = p1
  generalize countLoc r.calls .gopath = p2
  generalize countLoc s.calls .goPkg = k1
  generalize countLoc r.calls .goPkg = k2
  generalize countLoc s.calls .stdlib = d1
  generalize countLoc r.calls .stdlib = d2
  by_cases c1 : m2 < m1
  · simp [c1]
  · by_cases c1' : m1 < m2
    · simp [c1, c1']
    · simp only [c1, c1', if_false]
      by_cases c2 : g2 < g1
      · simp [c2]
      · by_cases c2' : g1 < g2
        · simp [c2, c2']
        · simp only [c2, c2', if_false, after_cont]
          by_cases c3 : p2 < p1
          · simp [c3]
          · by_cases c3' : p1 < p2
            · simp [c3, c3']
            · simp only [c3, c3', if_false, after_cont]
              by_cases c4 : k2 < k1
              · simp [c4]
              · by_cases c4' : k1 < k2
                · simp [c4, c4']
                · simp only [c4, c4', if_false, after_cont]
                  by_cases c5 : d2 < d1
                  · simp [c5]
                  · by_cases c5' : d1 < d2
                    · simp [c5, c5']
                    · simp only [c5, c5', if_false, after_cont]
                      by_cases c6 : u2 < u1
                      · simp [c6]
                      · by_cases c6' : u1 < u2
                        · simp [c6, c6']
                        · simp only [c6, c6', if_false]
                          cases framesCmp s.calls r.calls with
                          | none => rfl
                          | some o => cases o <;> rfl

/-! ### Signature: equal, similar, merge, less -/

theorem tie_Signature_equal (s r : Signature) : Signature_equal modelEnv s r = modelEnv.Signature_equal s r := by
  simp only [Signature_equal, mE_Stack_equal, Option.bind_some, mE_Signature_equal, Signature.equal]
  cases h1 : s.state == r.state <;> cases h2 : Stack.equal s.createdBy r.createdBy <;>
    cases h3 : s.locked == r.locked <;> cases h4 : s.sleepMin == r.sleepMin <;>
    cases h5 : s.sleepMax == r.sleepMax <;> simp_all [bne]

theorem tie_Signature_similar (s r : Signature) (l : Lvl) :
    Signature_similar modelEnv s r l = modelEnv.Signature_similar s r l := by
  simp only [Signature_similar, mE_Stack_similar, Option.bind_some, mE_Signature_similar, Signature.similar]
  cases h1 : s.state == r.state <;> cases h2 : Stack.similar l s.createdBy r.createdBy <;>
    cases h3 : s.locked == r.locked <;> cases l <;> simp_all [bne]

theorem tie_Signature_merge (s r : Signature) : Signature_merge modelEnv s r = modelEnv.Signature_merge s r := by
  simp only [Signature_merge, mE_Stack_merge, mE_Signature_merge, Signature.shapeOK, Signature.merge]
  by_cases hs : callsShapeOK s.stack.calls r.stack.calls = true
  · simp only [hs, if_true, Option.bind_some, Option.some.injEq]
    congr 1
    · simp only [decide_eq_true_eq]; split <;> omega
    · simp only [decide_eq_true_eq]; split <;> omega
  · simp [hs]

theorem tie_Signature_less (s r : Signature) : Signature_less modelEnv s r = modelEnv.Signature_less s r := by
  simp only [Signature_less, mE_Stack_less, mE_Signature_less, sigLess?]
  cases Stack.less? s.stack r.stack with
  | none => rfl
  | some t1 =>
    cases t1
    · simp only [Option.bind_some, Bool.false_eq_true, if_false]
      cases Stack.less? r.stack s.stack with
      | none => rfl
      | some t2 =>
        cases t2 <;> simp only [Option.bind_some, Bool.false_eq_true, if_false, if_true]
        cases s.locked <;> cases r.locked <;> simp [strLt] <;> cases bytesLt s.state r.state <;> rfl
    · simp

/-- the model's total `Signature.less` agrees with the Go evaluation order wherever Go does not panic -/
theorem sigLess_aux (x y : Option Bool) (sl rl st b : Bool)
    (h : (x.bind fun t1 => if t1 then some true else y.bind fun t2 => if t2 then some false else
            if sl && !rl then some true else if rl && !sl then some false else some st) = some b) :
    (if x.getD false then true else if y.getD false then false else
      if sl && !rl then true else if rl && !sl then false else st) = b := by
  cases x with
  | none => simp at h
  | some t1 =>
    cases t1
    · cases y with
      | none => simp at h
      | some t2 => cases t2 <;> cases sl <;> cases rl <;> simp_all
    · simp_all

theorem sigLess?_eq_less (s r : Signature) (b : Bool) (h : sigLess? s r = some b) : Signature.less s r = b :=
  sigLess_aux _ _ _ _ _ _ h

theorem sigLess?_of_safe (s r : Signature) (h : Signature.lessSafe s r = true) : sigLess? s r = some (Signature.less s r) := by
  simp only [Signature.lessSafe, Bool.and_eq_true, Option.isSome_iff_exists] at h
  obtain ⟨⟨a, ha⟩, ⟨b, hb⟩⟩ := h
  cases hq : sigLess? s r with
  | none =>
    simp only [sigLess?, ha, hb, Option.bind_some] at hq
    cases a <;> cases b <;> simp at hq <;> (split at hq <;> try split at hq) <;> simp at hq
  | some v => rw [sigLess?_eq_less s r v hq]

/-! ### the comparison closure of Aggregate -/

/-- The translated closure computes the model's `bucketLess` whenever Go does not
panic inside `Signature.less` (C03's `aggregate_total` shows it never does on the
buckets of one aggregation). -/
theorem tie_Aggregate_sortLess (l r : Bkt) (b : Bool) (h : Aggregate_sortLess modelEnv l r = some b) :
    bucketLess l r = b := by
  simp only [Aggregate_sortLess, mE_Signature_less] at h
  simp only [bucketLess]
  by_cases hf : (l.first || r.first) = true
  · simp only [hf, if_true, Option.some.injEq] at h ⊢; exact h
  · simp only [hf, Bool.false_eq_true, if_false] at h ⊢
    cases h1 : sigLess? l.key r.key with
    | none => simp [h1] at h
    | some t1 =>
      have e1 := sigLess?_eq_less _ _ _ h1
      simp only [h1, Option.bind_some] at h
      cases t1
      · simp only [Bool.false_eq_true, if_false] at h
        cases h2 : sigLess? r.key l.key with
        | none => simp [h2] at h
        | some t2 =>
          have e2 := sigLess?_eq_less _ _ _ h2
          simp only [h2, Option.bind_some] at h
          cases t2
          · simp only [Bool.false_eq_true, if_false, len] at h
            simp only [e1, e2, Bool.false_eq_true, if_false]
            by_cases hn : (r.ids.length != l.ids.length) = true
            · simp only [hn, if_true, Option.some.injEq] at h ⊢; exact h
            · simp only [hn, Bool.false_eq_true, if_false, Option.some.injEq] at h ⊢; exact h
          · simp only [if_true, Option.some.injEq] at h
            simp [e1, e2, ← h]
      · simp only [if_true, Option.some.injEq] at h
        simp [e1, ← h]

theorem tie_Aggregate_sortLess_safe (l r : Bkt)
    (h1 : Signature.lessSafe l.key r.key = true) (h2 : Signature.lessSafe r.key l.key = true) :
    Aggregate_sortLess modelEnv l r = some (bucketLess l r) := by
  cases hq : Aggregate_sortLess modelEnv l r with
  | some v => rw [tie_Aggregate_sortLess l r v hq]
  | none =>
    simp only [Aggregate_sortLess, mE_Signature_less, sigLess?_of_safe _ _ h1, sigLess?_of_safe _ _ h2,
      Option.bind_some] at hq
    repeat (split at hq <;> try simp at hq)

end PP.Tr

#print axioms PP.Tr.tie_Arg_equal
#print axioms PP.Tr.tie_Arg_similar
#print axioms PP.Tr.tie_Args_equal
#print axioms PP.Tr.tie_Args_similar
#print axioms PP.Tr.tie_Args_merge
#print axioms PP.Tr.tie_Call_equal
#print axioms PP.Tr.tie_Call_similar
#print axioms PP.Tr.tie_Call_merge
#print axioms PP.Tr.tie_Stack_equal
#print axioms PP.Tr.tie_Stack_similar
#print axioms PP.Tr.tie_Stack_merge
#print axioms PP.Tr.tie_Stack_less
#print axioms PP.Tr.tie_Signature_equal
#print axioms PP.Tr.tie_Signature_similar
#print axioms PP.Tr.tie_Signature_merge
#print axioms PP.Tr.tie_Signature_less
#print axioms PP.Tr.sigLess?_eq_less
#print axioms PP.Tr.sigLess?_of_safe
#print axioms PP.Tr.tie_Aggregate_sortLess
#print axioms PP.Tr.tie_Aggregate_sortLess_safe
