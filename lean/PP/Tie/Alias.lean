import PP.Extracted
/-
C14 tie: the write set of the functions reachable — by calls or references, in
the call graph the extractor computes from the source (`stackRenderReachable`)
— from Aggregate, ToHTML, the String methods the template calls and the console
writers.  `Extracted.stackWriteSet` / `internalWriteSet` list every write whose
target is reached through an indirection (slice or map element, pointer
dereference, explicit or implied), with the origin of its root variable; a
local initialised from part of a parameter inherits the parameter's origin, so
`out := a.Values; out[i] = x` counts as a write through the receiver, while
assigning a field of a struct *copy* does not.  Pinned is the part that matters: the writes whose root is
NOT a value created inside the same call (`make`, a composite literal, a local
array, a call result).  There are exactly two groups: the per-bucket counters
owned by Aggregate's own map (`c.ids`, `c.first`, reached through a range
variable over that map), and the `data` map that ToHTML allocates and hands to
toHTML.  Nothing is written through a receiver or a caller-supplied snapshot,
and nothing reachable sorts or assigns into the snapshot.  Refactorings that
only change writes to freshly created values do not touch these pins.
-/
namespace PP.Tie

theorem pin_stack_non_fresh_writes : PP.Extracted.stackNonFreshWrites =
    ["Snapshot.Aggregate | range", "toHTML | param"] := by decide

theorem pin_internal_non_fresh_writes : PP.Extracted.internalNonFreshWrites = [] := by decide

/-- `ScanSnapshot` hands `opts.LocalGOPATHs` to the snapshot by reference (`LocalGOPATHs:
opts.LocalGOPATHs`), and the same `Opts` value may be used by many goroutines at once: no
function of the package assigns an element of, sorts, copies over or appends to that slice (or
a local alias of it).  The model's `findRoots` takes the list by value, so this is what makes
"the options are not modified" true of the code. -/
theorem pin_gopaths_never_written : PP.Extracted.stackGopathsWrites = [] := by decide

end PP.Tie
