import PP.Extracted
/-
C14 tie: the write set of the functions reachable from Aggregate, ToHTML and
the console writers.  Every write that goes through an index, selector or
dereference targets a value created inside the same call (`fresh`: make, a
composite literal, a local array, a call result), the two per-bucket counters
owned by Aggregate's own map (`c.ids`, `c.first`), or the `data` map that
ToHTML itself allocates and passes to toHTML.  Nothing is written through a
receiver or a caller-supplied argument, and nothing reachable sorts or
assigns into the snapshot.
-/
namespace PP.Tie

theorem pin_stack_write_set : PP.Extracted.stackWriteSet = [
    "Args.merge | out.Values[i] | fresh",
    "Args.merge | out.Values[i].Fields | fresh",
    "Args.merge | out.Values[i].IsAggregate | fresh",
    "Args.merge | out.Values[i].IsPtr | fresh",
    "Args.merge | out.Values[i].Name | fresh",
    "Args.merge | out.Values[i].Value | fresh",
    "Snapshot.Aggregate | *key | fresh",
    "Snapshot.Aggregate | b[key] | fresh",
    "Snapshot.Aggregate | b[newKey] | fresh",
    "Snapshot.Aggregate | c.first | range",
    "Snapshot.Aggregate | c.ids | range",
    "Snapshot.Aggregate | order[bucket] | fresh",
    "Snapshot.Aggregate | sort.Ints(c.ids) | range",
    "Snapshot.Aggregate | sort.SliceStable(bs) | fresh",
    "Stack.less | lLoc[c.Location] | fresh",
    "Stack.less | rLoc[s.Location] | fresh",
    "Stack.merge | out.Calls[i] | fresh",
    "toHTML | data[\"Favicon\"] | param",
    "toHTML | data[\"GOMAXPROCS\"] | param",
    "toHTML | data[\"Now\"] | param",
    "toHTML | data[\"Version\"] | param"] := by decide

theorem pin_internal_write_set : PP.Extracted.internalWriteSet = [
    "Palette.StackLines | out[i] | fresh"] := by decide

end PP.Tie
