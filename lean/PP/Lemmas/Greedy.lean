import PP.Model.Aggregate
import PP.Lemmas.SigLaws
/-
Lemmas on the greedy bucketing loop `insertG` / `bucketLoop` / `aggregateWith`
(bucket.go:42-107) under an arbitrary map-iteration-order oracle.
-/
namespace PP

/-- an oracle is valid when every range visits exactly the entries of the map -/
def ValidOracle (π : Oracle) : Prop := ∀ k bs, (π k bs).Perm bs

theorem validOracle_id : ValidOracle idOracle := fun _ _ => List.Perm.refl _
theorem validOracle_rev : ValidOracle revOracle := fun _ bs => List.reverse_perm bs

/-! ### sortNat -/

theorem insertSorted_perm (x : Nat) : ∀ ys : List Nat, (insertSorted x ys).Perm (x :: ys)
  | [] => by simp [insertSorted]
  | y :: ys => by
    unfold insertSorted
    split
    · exact List.Perm.refl _
    · exact ((insertSorted_perm x ys).cons y).trans (List.Perm.swap x y ys)

theorem sortNat_perm : ∀ xs : List Nat, (sortNat xs).Perm xs
  | [] => by simp [sortNat]
  | x :: xs => by
    have ih : (List.foldr insertSorted [] xs).Perm xs := sortNat_perm xs
    simp only [sortNat, List.foldr_cons]
    exact (insertSorted_perm x _).trans (ih.cons x)

theorem mem_sortNat {i : Nat} {xs : List Nat} : i ∈ sortNat xs ↔ i ∈ xs :=
  (sortNat_perm xs).mem_iff

theorem insertSorted_sorted (x : Nat) :
    ∀ ys : List Nat, ys.Pairwise (· ≤ ·) → (insertSorted x ys).Pairwise (· ≤ ·)
  | [], _ => by simp [insertSorted]
  | y :: ys, h => by
    unfold insertSorted
    rw [List.pairwise_cons] at h
    split
    · rename_i hxy
      rw [List.pairwise_cons]
      refine ⟨?_, List.pairwise_cons.2 h⟩
      intro z hz
      simp only [List.mem_cons] at hz
      rcases hz with rfl | hz
      · exact hxy
      · exact Nat.le_trans hxy (h.1 z hz)
    · rename_i hxy
      rw [List.pairwise_cons]
      refine ⟨?_, insertSorted_sorted x ys h.2⟩
      intro z hz
      have := (insertSorted_perm x ys).mem_iff.1 hz
      simp only [List.mem_cons] at this
      rcases this with rfl | hz
      · omega
      · exact h.1 z hz

theorem sortNat_sorted : ∀ xs : List Nat, (sortNat xs).Pairwise (· ≤ ·)
  | [] => by simp [sortNat]
  | x :: xs => by
    have ih : (List.foldr insertSorted [] xs).Pairwise (· ≤ ·) := sortNat_sorted xs
    simp only [sortNat, List.foldr_cons]
    exact insertSorted_sorted x _ ih

theorem sortNat_ne_nil {xs : List Nat} (h : xs ≠ []) : sortNat xs ≠ [] := by
  intro e
  have := (sortNat_perm xs).length_eq
  rw [e] at this
  cases xs with
  | nil => exact h rfl
  | cons _ _ => simp at this

/-! ### shape of one insertion -/

/-- the updated entry when goroutine `g` joins bucket `b` -/
def Bkt.upd (b : Bkt) (g : Goroutine) : Bkt :=
  { key := if Signature.equal b.key g.sig then b.key else Signature.merge b.key g.sig,
    ids := b.ids ++ [g.id], first := b.first || g.first, order := b.order }

/-- the new entry for goroutine `g` with index `i` -/
def Bkt.new (i : Nat) (g : Goroutine) : Bkt :=
  { key := g.sig, ids := [g.id], first := g.first, order := i }

/-- shape of the result of `insertG` -/
theorem insertG_cases (l : Lvl) (bs : List Bkt) (i : Nat) (g : Goroutine) :
    (∃ pre b post, bs = pre ++ b :: post ∧
        (∀ c ∈ pre, Signature.similar l c.key g.sig = false) ∧
        Signature.similar l b.key g.sig = true ∧
        insertG l bs i g = pre ++ b.upd g :: post) ∨
    ((∀ c ∈ bs, Signature.similar l c.key g.sig = false) ∧
        insertG l bs i g = bs ++ [Bkt.new i g]) := by
  induction bs with
  | nil => right; simp [insertG, Bkt.new]
  | cons b rest ih =>
    unfold insertG
    split
    · rename_i h
      left; exact ⟨[], b, rest, by simp, by simp, h, by simp [Bkt.upd]⟩
    · rename_i h
      have h' : Signature.similar l b.key g.sig = false := by simpa using h
      rcases ih with ⟨pre, c, post, e, hp, hc, hi⟩ | ⟨hn, hi⟩
      · left
        refine ⟨b :: pre, c, post, by simp [e], ?_, hc, by simp [hi]⟩
        intro x hx; simp only [List.mem_cons] at hx; rcases hx with rfl | hx
        · exact h'
        · exact hp x hx
      · right
        refine ⟨?_, by simp [hi]⟩
        intro x hx; simp only [List.mem_cons] at hx; rcases hx with rfl | hx
        · exact h'
        · exact hn x hx

/-- membership form of `insertG_cases`, forgetting positions -/
theorem insertG_mem_cases (l : Lvl) (bs : List Bkt) (i : Nat) (g : Goroutine) :
    (∃ b ∈ bs, Signature.similar l b.key g.sig = true ∧
        (∀ c, c ∈ insertG l bs i g → c = b.upd g ∨ c ∈ bs) ∧
        b.upd g ∈ insertG l bs i g ∧
        (∀ c ∈ bs, c = b ∨ c ∈ insertG l bs i g)) ∨
    ((∀ c ∈ bs, Signature.similar l c.key g.sig = false) ∧
        insertG l bs i g = bs ++ [Bkt.new i g]) := by
  rcases insertG_cases l bs i g with ⟨pre, b, post, e, _, hb, hi⟩ | h
  · left
    subst e
    refine ⟨b, by simp, hb, ?_, ?_, ?_⟩
    · intro c hc
      rw [hi] at hc
      simp only [List.mem_append, List.mem_cons] at hc ⊢
      rcases hc with hc | rfl | hc
      · exact .inr (.inl hc)
      · exact .inl rfl
      · exact .inr (.inr (.inr hc))
    · rw [hi]; simp
    · intro c hc
      rw [hi]
      simp only [List.mem_append, List.mem_cons] at hc ⊢
      rcases hc with hc | rfl | hc
      · exact .inr (.inl hc)
      · exact .inl rfl
      · exact .inr (.inr (.inr hc))
  · exact .inr h

/-! ### loop induction principle -/

/-- Induction over `bucketLoop` for a predicate on (map contents, goroutines seen
so far) that does not depend on the order of the map entries. -/
theorem bucketLoop_induct {π : Oracle} (hπ : ValidOracle π) (l : Lvl)
    (P : List Bkt → List Goroutine → Prop)
    (hperm : ∀ bs bs' seen, bs'.Perm bs → P bs seen → P bs' seen)
    (hstep : ∀ bs seen i g, P bs seen → P (insertG l bs i g) (seen ++ [g])) :
    ∀ (gs : List Goroutine) (i : Nat) (bs : List Bkt) (seen : List Goroutine),
      P bs seen → P (bucketLoop π l i bs gs) (seen ++ gs)
  | [], _, bs, seen, h => by simpa [bucketLoop] using h
  | g :: gs, i, bs, seen, h => by
    have h1 := hstep _ _ i g (hperm _ _ _ (hπ i bs) h)
    have h2 := bucketLoop_induct hπ l P hperm hstep gs (i + 1) _ _ h1
    simpa [bucketLoop, List.append_assoc] using h2

/-- the buckets before the final sort -/
theorem mem_aggregateWith {π : Oracle} (hπ : ValidOracle π) (l : Lvl) (gs : List Goroutine)
    (b : Bucket) :
    b ∈ aggregateWith π l gs ↔ ∃ k ∈ bucketLoop π l 0 [] gs, k.toBucket = b := by
  simp only [aggregateWith, sortBuckets, List.mem_map]
  constructor
  · rintro ⟨k, hk, e⟩
    exact ⟨k, (hπ _ _).mem_iff.1 ((List.mergeSort_perm _ _).mem_iff.1 hk), e⟩
  · rintro ⟨k, hk, e⟩
    exact ⟨k, (List.mergeSort_perm _ _).mem_iff.2 ((hπ _ _).mem_iff.2 hk), e⟩

theorem aggregateWith_perm {π : Oracle} (hπ : ValidOracle π) (l : Lvl) (gs : List Goroutine) :
    (aggregateWith π l gs).Perm ((bucketLoop π l 0 [] gs).map Bkt.toBucket) := by
  simp only [aggregateWith, sortBuckets]
  exact ((List.mergeSort_perm _ _).trans (hπ _ _)).map _

/-! ### conservation of ids -/

theorem insertG_ids_perm (l : Lvl) (bs : List Bkt) (i : Nat) (g : Goroutine) :
    ((insertG l bs i g).flatMap (·.ids)).Perm (bs.flatMap (·.ids) ++ [g.id]) := by
  induction bs with
  | nil => simp [insertG]
  | cons b rest ih =>
    unfold insertG
    split
    · simp only [List.flatMap_cons, List.append_assoc]
      exact List.Perm.append_left _ (List.perm_append_comm)
    · simp only [List.flatMap_cons, List.append_assoc]
      exact List.Perm.append_left _ ih

theorem bucketLoop_ids_perm {π : Oracle} (hπ : ValidOracle π) (l : Lvl) :
    ∀ (gs : List Goroutine) (i : Nat) (bs : List Bkt),
      ((bucketLoop π l i bs gs).flatMap (·.ids)).Perm (bs.flatMap (·.ids) ++ gs.map (·.id))
  | [], _, bs => by simp [bucketLoop]
  | g :: gs, i, bs => by
    simp only [bucketLoop, List.map_cons]
    refine (bucketLoop_ids_perm hπ l gs (i + 1) _).trans ?_
    refine (List.Perm.append_right _ (insertG_ids_perm l (π i bs) i g)).trans ?_
    refine (List.Perm.append_right _
      (List.Perm.append_right _ ((hπ i bs).flatMap_right (·.ids)))).trans ?_
    simp

theorem flatMap_perm_pointwise {α β : Type} (f g : α → List β) (h : ∀ a, (f a).Perm (g a)) :
    ∀ xs : List α, (xs.flatMap f).Perm (xs.flatMap g)
  | [] => by simp
  | x :: xs => by
    simp only [List.flatMap_cons]
    exact (h x).append (flatMap_perm_pointwise f g h xs)

theorem toBucket_ids_perm (bs : List Bkt) :
    ((bs.map Bkt.toBucket).flatMap (·.ids)).Perm (bs.flatMap (·.ids)) := by
  rw [List.flatMap_map]
  exact flatMap_perm_pointwise _ _ (fun b => sortNat_perm b.ids) bs

/-- no bucket is empty -/
theorem bucketLoop_ids_ne_nil {π : Oracle} (hπ : ValidOracle π) (l : Lvl) (gs : List Goroutine) :
    ∀ b ∈ bucketLoop π l 0 [] gs, b.ids ≠ [] := by
  have := bucketLoop_induct hπ l (fun bs _ => ∀ b ∈ bs, b.ids ≠ [])
    (fun bs bs' _ hp h b hb => h b (hp.mem_iff.1 hb))
    (fun bs _ i g h c hc => by
      rcases insertG_mem_cases l bs i g with ⟨b, _, _, hall, _, _⟩ | ⟨_, hi⟩
      · rcases hall c hc with rfl | hc
        · simp [Bkt.upd]
        · exact h c hc
      · rw [hi] at hc
        simp only [List.mem_append, List.mem_singleton] at hc
        rcases hc with hc | rfl
        · exact h c hc
        · simp [Bkt.new])
    gs 0 [] [] (by simp)
  exact this

/-! ### pairwise helpers -/

theorem pairwise_mem_cases {α : Type} {R : α → α → Prop} :
    ∀ {xs : List α}, xs.Pairwise R → ∀ a b, a ∈ xs → b ∈ xs → a = b ∨ R a b ∨ R b a
  | [], _, _, _, ha, _ => by simp at ha
  | x :: xs, hp, a, b, ha, hb => by
    rw [List.pairwise_cons] at hp
    simp only [List.mem_cons] at ha hb
    rcases ha with rfl | ha <;> rcases hb with rfl | hb
    · exact .inl rfl
    · exact .inr (.inl (hp.1 b hb))
    · exact .inr (.inr (hp.1 a ha))
    · exact pairwise_mem_cases hp.2 a b ha hb

/-- goroutines are determined by their id when ids are distinct -/
theorem id_unique : ∀ (gs : List Goroutine), (gs.map (·.id)).Nodup →
    ∀ g h : Goroutine, g ∈ gs → h ∈ gs → g.id = h.id → g = h
  | [], _, _, _, hg, _, _ => by simp at hg
  | x :: xs, hnd, g, h, hg, hh, e => by
    simp only [List.map_cons, List.nodup_cons] at hnd
    simp only [List.mem_cons] at hg hh
    rcases hg with rfl | hg <;> rcases hh with rfl | hh
    · rfl
    · exact absurd (e ▸ List.mem_map_of_mem (f := (·.id)) hh) hnd.1
    · exact absurd (e ▸ List.mem_map_of_mem (f := (·.id)) hg) hnd.1
    · exact id_unique xs hnd.2 g h hg hh e

/-! ### the `first` flag -/

/-- invariant: ids come from goroutines seen; `first` is the OR over members -/
def FirstInv (bs : List Bkt) (seen : List Goroutine) : Prop :=
  (∀ b ∈ bs, ∀ i ∈ b.ids, ∃ g ∈ seen, g.id = i) ∧
  (∀ b ∈ bs, (b.first = true ↔ ∃ g ∈ seen, g.first = true ∧ g.id ∈ b.ids))

theorem nodup_snoc_id {seen : List Goroutine} {g : Goroutine}
    (hnd : ((seen ++ [g]).map (·.id)).Nodup) :
    (seen.map (·.id)).Nodup ∧ ∀ g' ∈ seen, g'.id ≠ g.id := by
  simp only [List.map_append, List.map_cons, List.map_nil, List.nodup_append] at hnd
  refine ⟨hnd.1, ?_⟩
  intro g' hg'
  exact hnd.2.2 _ (List.mem_map_of_mem (f := (·.id)) hg') _ (by simp)

theorem insertG_firstInv (l : Lvl) (bs : List Bkt) (seen : List Goroutine) (i : Nat)
    (g : Goroutine) (hnew : ∀ g' ∈ seen, g'.id ≠ g.id) (h : FirstInv bs seen) :
    FirstInv (insertG l bs i g) (seen ++ [g]) := by
  obtain ⟨h1, h2⟩ := h
  -- an old bucket never holds the new id
  have hfresh : ∀ c ∈ bs, g.id ∉ c.ids := by
    intro c hc hin
    obtain ⟨g', hg', e⟩ := h1 c hc _ hin
    exact hnew g' hg' e
  -- the equivalence for an old, untouched bucket
  have hold : ∀ c ∈ bs,
      (c.first = true ↔ ∃ g' ∈ seen ++ [g], g'.first = true ∧ g'.id ∈ c.ids) := by
    intro c hc
    rw [h2 c hc]
    constructor
    · rintro ⟨g', hg', hf, hi⟩
      exact ⟨g', by simp [hg'], hf, hi⟩
    · rintro ⟨g', hg', hf, hi⟩
      simp only [List.mem_append, List.mem_singleton] at hg'
      rcases hg' with hg' | rfl
      · exact ⟨g', hg', hf, hi⟩
      · exact absurd hi (hfresh c hc)
  rcases insertG_mem_cases l bs i g with ⟨b, hb, _, hall, _, _⟩ | ⟨_, hi⟩
  · refine ⟨?_, ?_⟩
    · intro c hc j hj
      rcases hall c hc with rfl | hc
      · simp only [Bkt.upd, List.mem_append, List.mem_singleton] at hj
        rcases hj with hj | rfl
        · obtain ⟨g', hg', e⟩ := h1 b hb j hj
          exact ⟨g', by simp [hg'], e⟩
        · exact ⟨g, by simp, rfl⟩
      · obtain ⟨g', hg', e⟩ := h1 c hc j hj
        exact ⟨g', by simp [hg'], e⟩
    · intro c hc
      rcases hall c hc with rfl | hc
      · simp only [Bkt.upd, Bool.or_eq_true, List.mem_append, List.mem_singleton]
        constructor
        · rintro (hf | hf)
          · obtain ⟨g', hg', hf', hi'⟩ := (h2 b hb).1 hf
            exact ⟨g', .inl hg', hf', .inl hi'⟩
          · exact ⟨g, .inr rfl, hf, .inr rfl⟩
        · rintro ⟨g', hg', hf', hi'⟩
          rcases hg' with hg' | rfl
          · rcases hi' with hi' | e
            · exact .inl ((h2 b hb).2 ⟨g', hg', hf', hi'⟩)
            · exact absurd e (hnew g' hg')
          · exact .inr hf'
      · exact hold c hc
  · rw [hi]
    refine ⟨?_, ?_⟩
    · intro c hc j hj
      simp only [List.mem_append, List.mem_singleton] at hc
      rcases hc with hc | rfl
      · obtain ⟨g', hg', e⟩ := h1 c hc j hj
        exact ⟨g', by simp [hg'], e⟩
      · simp only [Bkt.new, List.mem_singleton] at hj
        exact ⟨g, by simp, hj.symm⟩
    · intro c hc
      simp only [List.mem_append, List.mem_singleton] at hc
      rcases hc with hc | rfl
      · exact hold c hc
      · simp only [Bkt.new, List.mem_singleton, List.mem_append]
        constructor
        · intro hf
          exact ⟨g, .inr rfl, hf, rfl⟩
        · rintro ⟨g', hg', hf', e⟩
          rcases hg' with hg' | rfl
          · exact absurd e (hnew g' hg')
          · exact hf'

theorem bucketLoop_firstInv {π : Oracle} (hπ : ValidOracle π) (l : Lvl) (gs : List Goroutine)
    (hnd : (gs.map (·.id)).Nodup) : FirstInv (bucketLoop π l 0 [] gs) gs := by
  have := bucketLoop_induct hπ l
    (fun (bs : List Bkt) (seen : List Goroutine) =>
      (seen.map (fun g : Goroutine => g.id)).Nodup → FirstInv bs seen)
    (fun bs bs' seen hp h hn =>
      ⟨fun b hb => (h hn).1 b (hp.mem_iff.1 hb), fun b hb => (h hn).2 b (hp.mem_iff.1 hb)⟩)
    (fun bs seen i g h hn => by
      obtain ⟨hn', hnew⟩ := nodup_snoc_id hn
      exact insertG_firstInv l bs seen i g hnew (h hn'))
    gs 0 [] [] (fun _ => ⟨by simp, by simp⟩)
  simpa using this hnd

/-! ### buckets = similarity classes -/

/-- permutation-robust invariant of the loop -/
def ClassInv (l : Lvl) (bs : List Bkt) (seen : List Goroutine) : Prop :=
  (∀ b ∈ bs, b.key.WF = true) ∧
  (∀ b ∈ bs, ∀ i ∈ b.ids, ∃ g ∈ seen, g.id = i ∧ Signature.similar l b.key g.sig = true) ∧
  bs.Pairwise (fun b c => Signature.similar l b.key c.key = false) ∧
  (∀ g ∈ seen, ∃ b ∈ bs, g.id ∈ b.ids ∧ Signature.similar l b.key g.sig = true)

theorem similar_false_symm (l : Lvl) {a b : Signature} (h : Signature.similar l a b = false) :
    Signature.similar l b a = false := by
  cases hba : Signature.similar l b a with
  | false => rfl
  | true => rw [Signature.similar_symm l b a hba] at h; exact Bool.noConfusion h

theorem ClassInv.perm {l : Lvl} {bs bs' : List Bkt} {seen : List Goroutine} (hp : bs'.Perm bs)
    (h : ClassInv l bs seen) : ClassInv l bs' seen := by
  obtain ⟨h0, h1, h2, h3⟩ := h
  refine ⟨fun b hb => h0 b (hp.mem_iff.1 hb), fun b hb => h1 b (hp.mem_iff.1 hb), ?_, ?_⟩
  · exact hp.symm.pairwise h2 (fun h => similar_false_symm l h)
  · intro g hg
    obtain ⟨b, hb, hi, hs⟩ := h3 g hg
    exact ⟨b, hp.mem_iff.2 hb, hi, hs⟩

theorem upd_key_WF (b : Bkt) (g : Goroutine) (hb : b.key.WF = true) (hg : g.sig.WF = true) :
    (b.upd g).key.WF = true := by
  simp only [Bkt.upd]
  split
  · exact hb
  · exact Signature.merge_WF _ _ hb hg

theorem upd_key_similar (l : Lvl) (b : Bkt) (g : Goroutine) (hb : b.key.WF = true)
    (hg : g.sig.WF = true) (hs : Signature.similar l b.key g.sig = true) :
    Signature.similar l (b.upd g).key b.key = true := by
  simp only [Bkt.upd]
  split
  · exact Signature.similar_refl l _
  · exact Signature.merge_similar l _ _ hb hg hs

theorem insertG_classInv (l : Lvl) (bs : List Bkt) (seen : List Goroutine) (i : Nat)
    (g : Goroutine) (hwg : g.sig.WF = true) (h : ClassInv l bs seen) :
    ClassInv l (insertG l bs i g) (seen ++ [g]) := by
  obtain ⟨h0, h1, h2, h3⟩ := h
  rcases insertG_cases l bs i g with ⟨pre, b, post, e, hp, hb, hi⟩ | ⟨hn, hi⟩
  · subst e
    rw [hi]
    have hwb : b.key.WF = true := h0 b (by simp)
    have hk := upd_key_similar l b g hwb hwg hb
    have hcl := Signature.similar_congr_left l hk
    refine ⟨?_, ?_, ?_, ?_⟩
    · intro c hc
      simp only [List.mem_append, List.mem_cons] at hc
      rcases hc with hc | rfl | hc
      · exact h0 c (by simp [hc])
      · exact upd_key_WF b g hwb hwg
      · exact h0 c (by simp [hc])
    · intro c hc j hj
      simp only [List.mem_append, List.mem_cons] at hc
      rcases hc with hc | rfl | hc
      · obtain ⟨t, ht, e, hst⟩ := h1 c (by simp [hc]) j hj
        exact ⟨t, by simp [ht], e, hst⟩
      · simp only [Bkt.upd, List.mem_append, List.mem_singleton] at hj
        rcases hj with hj | rfl
        · obtain ⟨t, ht, e, hst⟩ := h1 b (by simp) j hj
          exact ⟨t, by simp [ht], e, by rw [hcl]; exact hst⟩
        · exact ⟨g, by simp, rfl, by rw [hcl]; exact hb⟩
      · obtain ⟨t, ht, e, hst⟩ := h1 c (by simp [hc]) j hj
        exact ⟨t, by simp [ht], e, hst⟩
    · rw [List.pairwise_append] at h2 ⊢
      obtain ⟨hpre, hbp, hcross⟩ := h2
      rw [List.pairwise_cons] at hbp ⊢
      refine ⟨hpre, ⟨?_, hbp.2⟩, ?_⟩
      · intro c hc; rw [hcl]; exact hbp.1 c hc
      · intro x hx y hy
        simp only [List.mem_cons] at hy
        rcases hy with rfl | hy
        · rw [Signature.similar_congr_right l hk]; exact hcross x hx b (by simp)
        · exact hcross x hx y (by simp [hy])
    · intro t ht
      simp only [List.mem_append, List.mem_singleton] at ht
      rcases ht with ht | rfl
      · obtain ⟨c, hc, hic, hsc⟩ := h3 t ht
        simp only [List.mem_append, List.mem_cons] at hc
        rcases hc with hc | rfl | hc
        · exact ⟨c, by simp [hc], hic, hsc⟩
        · exact ⟨c.upd g, by simp, by simp [Bkt.upd, hic], by rw [hcl]; exact hsc⟩
        · exact ⟨c, by simp [hc], hic, hsc⟩
      · exact ⟨b.upd t, by simp, by simp [Bkt.upd], by rw [hcl]; exact hb⟩
  · rw [hi]
    refine ⟨?_, ?_, ?_, ?_⟩
    · intro c hc
      simp only [List.mem_append, List.mem_singleton] at hc
      rcases hc with hc | rfl
      · exact h0 c hc
      · exact hwg
    · intro c hc j hj
      simp only [List.mem_append, List.mem_singleton] at hc
      rcases hc with hc | rfl
      · obtain ⟨t, ht, e, hst⟩ := h1 c hc j hj
        exact ⟨t, by simp [ht], e, hst⟩
      · simp only [Bkt.new, List.mem_singleton] at hj
        exact ⟨g, by simp, hj.symm, Signature.similar_refl l _⟩
    · rw [List.pairwise_append]
      refine ⟨h2, by simp, ?_⟩
      intro x hx y hy
      simp only [List.mem_singleton] at hy; subst hy
      exact hn x hx
    · intro t ht
      simp only [List.mem_append, List.mem_singleton] at ht
      rcases ht with ht | rfl
      · obtain ⟨c, hc, hic, hsc⟩ := h3 t ht
        exact ⟨c, by simp [hc], hic, hsc⟩
      · exact ⟨Bkt.new i t, by simp, by simp [Bkt.new], Signature.similar_refl l _⟩

theorem bucketLoop_classInv {π : Oracle} (hπ : ValidOracle π) (l : Lvl) (gs : List Goroutine)
    (hwf : ∀ g ∈ gs, g.sig.WF = true) : ClassInv l (bucketLoop π l 0 [] gs) gs := by
  have := bucketLoop_induct hπ l
    (fun (bs : List Bkt) (seen : List Goroutine) =>
      (∀ g ∈ seen, g.sig.WF = true) → ClassInv l bs seen)
    (fun bs bs' seen hp h hw => (h hw).perm hp)
    (fun bs seen i g h hw =>
      insertG_classInv l bs seen i g (hw g (by simp)) (h (fun t ht => hw t (by simp [ht]))))
    gs 0 [] [] (fun _ => ⟨by simp, by simp, by simp, by simp⟩)
  simpa using this hwf

/-- two entries with similar keys are the same entry -/
theorem classInv_unique {l : Lvl} {bs : List Bkt}
    (hp : bs.Pairwise (fun b c => Signature.similar l b.key c.key = false))
    {b c : Bkt} (hb : b ∈ bs) (hc : c ∈ bs) (hs : Signature.similar l b.key c.key = true) :
    b = c := by
  rcases pairwise_mem_cases hp b c hb hc with e | h | h
  · exact e
  · rw [hs] at h; exact Bool.noConfusion h
  · rw [Signature.similar_symm l _ _ hs] at h; exact Bool.noConfusion h

end PP
