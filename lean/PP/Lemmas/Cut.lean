import PP.Lemmas.LoopLemmas
/-
Helper lemmas for C10 (truncation and read-failure tolerance), at line level.
-/
namespace PP

/-! ### `splitLines` / `specLines` of a concatenation -/

/-- the complete lines of `a` are complete lines of `a ++ b`; the split continues from the
unterminated tail of `a` -/
theorem splitLines_append (a b : Bytes) :
    splitLines (a ++ b) =
      ((splitLines a).1 ++ (splitLines ((splitLines a).2 ++ b)).1,
       (splitLines ((splitLines a).2 ++ b)).2) := by
  induction a with
  | nil => simp [splitLines]
  | cons x xs ih =>
    simp only [List.cons_append, splitLines]
    rw [ih]
    by_cases hx : x = 10
    · simp [hx]
    · simp only [hx, if_false]
      cases h1 : (splitLines xs).1 with
      | nil =>
        simp only [List.nil_append, List.cons_append, splitLines, hx, if_false]
      | cons l ls' => simp

theorem specLines_append (a b : Bytes) (fin : RErr) :
    specLines (a ++ b) fin =
      (splitLines a).1.map (fun l => (l, none)) ++ specLines ((splitLines a).2 ++ b) fin := by
  simp only [specLines]
  rw [splitLines_append]
  simp

/-- the head item of the canonical split of `frag ++ b` when `frag` holds no newline: a line
that extends `frag`, or the whole unterminated rest -/
theorem specLines_frag_append (frag b : Bytes) (fin : RErr) (hf : (10 : UInt8) ∉ frag) :
    (∃ p r, (10 : UInt8) ∉ p ∧ b = p ++ [10] ++ r ∧
        specLines (frag ++ b) fin = (frag ++ p ++ [10], none) :: specLines r fin) ∨
    ((10 : UInt8) ∉ b ∧ specLines (frag ++ b) fin = [(frag ++ b, some fin)]) := by
  have hfn := (cutNL_none_iff frag).mpr hf
  cases hb : cutNL b with
  | none =>
    right
    refine ⟨(cutNL_none_iff b).mp hb, specLines_of_cutNL_none _ ?_⟩
    rw [cutNL_append_none _ hfn, hb]; rfl
  | some v =>
    obtain ⟨l, r⟩ := v
    obtain ⟨p, hp, rfl, hbb⟩ := cutNL_some_spec hb
    left
    refine ⟨p, r, hp, hbb, ?_⟩
    have : cutNL (frag ++ b) = some (frag ++ p ++ [10], r) := by
      rw [cutNL_append_none _ hfn, hb]; simp
    exact specLines_of_cutNL_some _ this

/-! ### the loop over a prefix of complete lines -/

/-- the loop of `scanL` over complete lines (items without reader error).  `some`: the loop
is still running after them, with this state; `none`: the loop ended inside them. -/
def prefixL : S → Bytes → List Bytes → List Bytes → Option (S × Bytes × List Bytes)
  | s, fwd, cons, [] => some (s, fwd, cons)
  | s, fwd, cons, d :: ds =>
    if s.st == .done then none
    else if d.length != 0 then
      match scanBytes s d with
      | .error _ => none
      | .ok (s', l, e1) =>
        if !l then
          if s'.st != .looking then none
          else if e1.isSome then none
          else prefixL s' (fwd ++ d) cons ds
        else if e1.isSome then none
        else prefixL s' fwd (cons ++ [d]) ds
    else prefixL s fwd cons ds

theorem combineErr_none (e1 : Option Err) : combineErr none e1 = e1.map LErr.parse := by
  cases e1 <;> rfl

theorem combineErr_none_isSome (e1 : Option Err) : (combineErr none e1).isSome = e1.isSome := by
  cases e1 <;> rfl

abbrev noErr (xs : List Bytes) : List (Bytes × Option RErr) := xs.map (fun l => (l, none))

/-- the loop runs through `xs`: it continues on `ys` from the state after `xs` -/
theorem scanL_prefix_some (s : S) (fwd : Bytes) (cons : List Bytes) (xs : List Bytes)
    (ys : List (Bytes × Option RErr)) (s₁ : S) (fwd₁ : Bytes) (cons₁ : List Bytes)
    (h : prefixL s fwd cons xs = some (s₁, fwd₁, cons₁)) :
    scanL s fwd cons (noErr xs ++ ys) = scanL s₁ fwd₁ cons₁ ys := by
  induction xs generalizing s fwd cons with
  | nil =>
    simp only [prefixL, Option.some.injEq, Prod.mk.injEq] at h
    obtain ⟨rfl, rfl, rfl⟩ := h
    rfl
  | cons d ds ih =>
    simp only [noErr, List.map_cons, List.cons_append]
    rw [scanL_cons]
    rw [prefixL] at h
    by_cases hd : (s.st == .done) = true
    · rw [if_pos hd] at h; simp at h
    · rw [if_neg hd] at h ⊢
      by_cases hlen : (d.length != 0) = true
      · rw [if_pos hlen] at h ⊢
        cases hsc : scanBytes s d with
        | error p => rw [hsc] at h; simp at h
        | ok v =>
          obtain ⟨s', l, e1⟩ := v
          rw [hsc] at h
          dsimp only at h ⊢
          rw [combineErr_none_isSome]
          by_cases hl : (!l) = true
          · rw [if_pos hl] at h ⊢
            by_cases hlk : (s'.st != .looking) = true
            · rw [if_pos hlk] at h; simp at h
            · rw [if_neg hlk] at h ⊢
              by_cases herr : e1.isSome = true
              · rw [if_pos herr] at h; simp at h
              · rw [if_neg herr] at h ⊢; exact ih _ _ _ h
          · rw [if_neg hl] at h ⊢
            by_cases herr : e1.isSome = true
            · rw [if_pos herr] at h; simp at h
            · rw [if_neg herr] at h ⊢; exact ih _ _ _ h
      · rw [if_neg hlen] at h ⊢
        exact ih _ _ _ h

/-- the loop ends inside `xs`: what follows `xs` only shows up in `rest` -/
theorem scanL_prefix_none (s : S) (fwd : Bytes) (cons : List Bytes) (xs : List Bytes)
    (h : prefixL s fwd cons xs = none) :
    ∃ (o : OutL) (r : List (Bytes × Option RErr)),
      ((o.err = none ∧ (o.broke = true ∨ o.s.st = .done ∨ o.panicked.isSome)) ∨
        ∃ e, o.err = some (.parse e)) ∧
      ∀ ys, scanL s fwd cons (noErr xs ++ ys) = { o with rest := r ++ ys } := by
  induction xs generalizing s fwd cons with
  | nil => simp [prefixL] at h
  | cons d ds ih =>
    simp only [noErr, List.map_cons, List.cons_append]
    simp only [scanL_cons]
    rw [prefixL] at h
    by_cases hd : (s.st == .done) = true
    · simp only [if_pos hd]
      exact ⟨{ s := s, fwd := fwd, consumed := cons, err := none, rest := [], broke := false },
        (d, none) :: noErr ds, Or.inl ⟨rfl, Or.inr (Or.inl (by simpa using hd))⟩, fun ys => rfl⟩
    · rw [if_neg hd] at h
      simp only [if_neg hd]
      by_cases hlen : (d.length != 0) = true
      · rw [if_pos hlen] at h
        simp only [if_pos hlen]
        cases hsc : scanBytes s d with
        | error p =>
          exact ⟨{ s := s, fwd := fwd, consumed := cons, err := none, rest := [], broke := false,
                   panicked := some p }, (d, none) :: noErr ds, Or.inl ⟨rfl, Or.inr (Or.inr rfl)⟩,
                   fun ys => rfl⟩
        | ok v =>
          obtain ⟨s', l, e1⟩ := v
          rw [hsc] at h
          dsimp only at h ⊢
          simp only [combineErr_none_isSome]
          have hkind : ∀ o : OutL, o.err = combineErr none e1 → (e1 = none → o.broke = true) →
              ((o.err = none ∧ (o.broke = true ∨ o.s.st = .done ∨ o.panicked.isSome)) ∨
                ∃ e, o.err = some (.parse e)) := by
            intro o ho hb
            cases e1 with
            | none => exact Or.inl ⟨ho, Or.inl (hb rfl)⟩
            | some e => exact Or.inr ⟨e, ho⟩
          by_cases hl : (!l) = true
          · rw [if_pos hl] at h
            simp only [if_pos hl]
            by_cases hlk : (s'.st != .looking) = true
            · simp only [if_pos hlk]
              exact ⟨{ s := s', fwd := fwd, consumed := cons, err := combineErr none e1, rest := [],
                       broke := true }, (d, none) :: noErr ds, hkind _ rfl (fun _ => rfl), fun ys => rfl⟩
            · rw [if_neg hlk] at h
              simp only [if_neg hlk]
              by_cases herr : e1.isSome = true
              · simp only [if_pos herr]
                exact ⟨{ s := s', fwd := fwd ++ d, consumed := cons, err := combineErr none e1,
                         rest := [], broke := false }, noErr ds,
                       hkind _ rfl (fun h0 => by rw [h0] at herr; simp at herr), fun ys => rfl⟩
              · rw [if_neg herr] at h
                simp only [if_neg herr]
                exact ih _ _ _ h
          · rw [if_neg hl] at h
            simp only [if_neg hl]
            by_cases herr : e1.isSome = true
            · simp only [if_pos herr]
              exact ⟨{ s := s', fwd := fwd, consumed := cons ++ [d], err := combineErr none e1,
                         rest := [], broke := false }, noErr ds,
                       hkind _ rfl (fun h0 => by rw [h0] at herr; simp at herr), fun ys => rfl⟩
            · rw [if_neg herr] at h
              simp only [if_neg herr]
              exact ih _ _ _ h
      · rw [if_neg hlen] at h
        simp only [if_neg hlen]
        exact ih _ _ _ h

/-! ### the item that carries the reader error -/

theorem combineErr_some_kind (r : RErr) (e1 : Option Err) :
    (combineErr (some r) e1).isSome = true ∧
    (combineErr (some r) e1 = some (.reader r) ∨
      (r = .eof ∧ ∃ p, e1 = some p ∧ combineErr (some r) e1 = some (.parse p))) := by
  cases e1 with
  | none => exact ⟨rfl, Or.inl rfl⟩
  | some p =>
    cases r with
    | eof => exact ⟨rfl, Or.inr ⟨rfl, p, rfl, rfl⟩⟩
    | other t => exact ⟨rfl, Or.inl rfl⟩
    | noProgress => exact ⟨rfl, Or.inl rfl⟩

/-- a reader failure other than EOF is never replaced by a parse error -/
theorem combineErr_reader_ne_eof (r : RErr) (e1 : Option Err) (h : r ≠ .eof) :
    combineErr (some r) e1 = some (.reader r) := by
  rcases (combineErr_some_kind r e1).2 with h1 | ⟨h1, _⟩
  · exact h1
  · exact absurd h1 h

/-- what the loop does on the last item `(frag, some fin)` -/
theorem scanL_last (s : S) (fwd : Bytes) (cons : List Bytes) (frag : Bytes) (fin : RErr) :
    let o := scanL s fwd cons [(frag, some fin)]
    (o.err = none ∧ o.s = s ∧ o.fwd = fwd ∧ o.consumed = cons ∧ o.broke = false ∧
        o.rest = [(frag, some fin)] ∧ ((s.st = .done ∧ o.panicked = none) ∨ o.panicked.isSome)) ∨
    (o.panicked = none ∧ s.st ≠ .done ∧
      (o.err = some (.reader fin) ∨ (fin = .eof ∧ ∃ e, o.err = some (.parse e))) ∧
      ((frag = [] ∧ o.s = s ∧ o.fwd = fwd ∧ o.consumed = cons ∧ o.broke = false ∧ o.rest = []) ∨
       (frag ≠ [] ∧ ∃ b e1, scanBytes s frag = .ok (o.s, b, e1) ∧
          o.err = combineErr (some fin) e1 ∧
          ((b = true ∧ o.fwd = fwd ∧ o.consumed = cons ++ [frag] ∧ o.broke = false ∧ o.rest = []) ∨
           (b = false ∧ o.s.st ≠ .looking ∧ o.fwd = fwd ∧ o.consumed = cons ∧ o.broke = true ∧
              o.rest = [(frag, some fin)]) ∨
           (b = false ∧ o.s.st = .looking ∧ o.fwd = fwd ++ frag ∧ o.consumed = cons ∧
              o.broke = false ∧ o.rest = []))))) := by
  intro o
  have ho : o = scanL s fwd cons [(frag, some fin)] := rfl
  clear_value o
  rw [scanL_cons] at ho
  by_cases hd : (s.st == .done) = true
  · rw [if_pos hd] at ho
    left
    subst ho
    exact ⟨rfl, rfl, rfl, rfl, rfl, rfl, Or.inl ⟨by simpa using hd, rfl⟩⟩
  · rw [if_neg hd] at ho
    have hd' : s.st ≠ .done := by simpa using hd
    by_cases hlen : (frag.length != 0) = true
    · rw [if_pos hlen] at ho
      have hne : frag ≠ [] := by intro h0; subst h0; simp at hlen
      cases hsc : scanBytes s frag with
      | error p =>
        rw [hsc] at ho
        dsimp only at ho
        left
        subst ho
        exact ⟨rfl, rfl, rfl, rfl, rfl, rfl, Or.inr rfl⟩
      | ok v =>
        obtain ⟨s', l, e1⟩ := v
        rw [hsc] at ho
        dsimp only at ho
        obtain ⟨hsome, hkind⟩ := combineErr_some_kind fin e1
        have hkind' : combineErr (some fin) e1 = some (.reader fin) ∨
            (fin = .eof ∧ ∃ e, combineErr (some fin) e1 = some (.parse e)) := by
          rcases hkind with h | ⟨h1, p, _, h2⟩
          · exact Or.inl h
          · exact Or.inr ⟨h1, p, h2⟩
        right
        cases l with
        | false =>
          simp only [Bool.not_false, if_true] at ho
          by_cases hlk : (s'.st != .looking) = true
          · rw [if_pos hlk] at ho
            subst ho
            refine ⟨rfl, hd', hkind', Or.inr ⟨hne, false, e1, rfl, rfl, Or.inr (Or.inl ?_)⟩⟩
            exact ⟨rfl, by simpa using hlk, rfl, rfl, rfl, rfl⟩
          · rw [if_neg hlk, if_pos hsome] at ho
            subst ho
            refine ⟨rfl, hd', hkind', Or.inr ⟨hne, false, e1, rfl, rfl, Or.inr (Or.inr ?_)⟩⟩
            exact ⟨rfl, by simpa using hlk, rfl, rfl, rfl, rfl⟩
        | true =>
          simp only [Bool.not_true, Bool.false_eq_true, if_false] at ho
          rw [if_pos hsome] at ho
          subst ho
          exact ⟨rfl, hd', hkind', Or.inr ⟨hne, true, e1, rfl, rfl, Or.inl ⟨rfl, rfl, rfl, rfl, rfl⟩⟩⟩
    · rw [if_neg hlen] at ho
      have h0 := length_eq_nil hlen
      right
      subst ho
      exact ⟨rfl, hd', Or.inl rfl, Or.inl ⟨h0, rfl, rfl, rfl, rfl, rfl⟩⟩

/-- the loop only ever appends to what was forwarded -/
theorem scanL_fwd_prefix (s : S) (fwd : Bytes) (cons : List Bytes) (items : List (Bytes × Option RErr)) :
    fwd <+: (scanL s fwd cons items).fwd := by
  rw [(scanL_traceL s fwd cons items).1]
  exact List.prefix_append _ _

/-! ### vocabulary for a stream cut after `k` bytes -/

/-- the complete lines before the cut -/
def cutCommon (bs : Bytes) (k : Nat) : List Bytes := (splitLines (bs.take k)).1
/-- the unterminated fragment the cut leaves (possibly empty) -/
def cutFrag (bs : Bytes) (k : Nat) : Bytes := (splitLines (bs.take k)).2
/-- the loop state after the complete lines before the cut; `none` when the loop has already
ended inside them -/
def afterCommon (bs : Bytes) (k : Nat) : Option (S × Bytes × List Bytes) :=
  prefixL {} [] [] (cutCommon bs k)

theorem specLines_cut (bs : Bytes) (k : Nat) (fin' : RErr) :
    specLines (bs.take k) fin' = noErr (cutCommon bs k) ++ [(cutFrag bs k, some fin')] := rfl

theorem specLines_uncut (bs : Bytes) (k : Nat) (fin : RErr) :
    specLines bs fin = noErr (cutCommon bs k) ++ specLines (cutFrag bs k ++ bs.drop k) fin := by
  have := specLines_append (bs.take k) (bs.drop k) fin
  rw [List.take_append_drop] at this
  exact this

/-! ### how `scan` changes the goroutine list -/

/-- the race-report states -/
def St.isRace (st : St) : Bool := decide (9 ≤ st.toNat)

/-- how one `scan` step may change the goroutine list -/
def GsChange (s s' : S) : Prop :=
  s'.gs = s.gs ∨ (∃ g, s'.gs = s.gs ++ [g]) ∨ (∃ f, modifyLast s.gs f = some s'.gs) ∨
  (s.st.isRace = true ∧ ∃ i f, (i = s.gi ∨ i = s'.gi) ∧ modifyAt s.gs i f = some s'.gs)

theorem scan_gsChange {s s' : S} {l : Line} {b e} (h : scan s l = .ok (s', b, e)) : GsChange s s' := by
  unfold scan at h
  split at h
  · simp at h; obtain ⟨rfl, _⟩ := h; exact Or.inl rfl
  split at h
  · simp at h; obtain ⟨rfl, _⟩ := h; exact Or.inl rfl
  split at h
  all_goals ((try simp only [funcStep, createdStep, curAppendCall] at h); (repeat' (split at h)))
  all_goals (try (simp at h; done))
  all_goals (try (simp at h; obtain ⟨rfl, _, _⟩ := h; exact Or.inl rfl))
  all_goals (try (simp at h; obtain ⟨rfl, _, _⟩ := h; exact Or.inr (Or.inl ⟨_, rfl⟩)))
  all_goals (try (simp at h; obtain ⟨rfl, _, _⟩ := h; exact Or.inr (Or.inr (Or.inl ⟨_, by assumption⟩))))
  -- funcStep: the match inside `curAppendCall`
  all_goals (try (
    rename_i heq
    split at heq
    · simp at heq
    · simp at heq; subst heq; simp at h; obtain ⟨rfl, _, _⟩ := h
      exact Or.inr (Or.inr (Or.inl ⟨_, by assumption⟩))))
  -- gotRaceHeader2
  all_goals (try (
    rename_i hemp
    have h0 : s.gs = [] := by simpa using hemp
    simp at h; obtain ⟨rfl, _, _⟩ := h
    exact Or.inr (Or.inl ⟨_, by simp [h0]⟩)))
  -- modifyAt
  all_goals (try (
    simp at h; obtain ⟨rfl, _, _⟩ := h
    exact Or.inr (Or.inr (Or.inr ⟨by simp [St.isRace, St.toNat, *], _, _, Or.inl rfl, by assumption⟩))))
  all_goals (try (
    simp at h; obtain ⟨rfl, _, _⟩ := h
    exact Or.inr (Or.inr (Or.inr ⟨by simp [St.isRace, St.toNat, *], _, _, Or.inr rfl, by assumption⟩))))
  · rename_i hemp
    have h0 : s.gs = [] := by
      cases hg : s.gs with
      | nil => rfl
      | cons a t => simp [hg] at hemp
    simp at h; obtain ⟨rfl, _, _⟩ := h
    rename_i w addr id _ _ _
    refine Or.inr (Or.inl ⟨{ id := id, first := true, raceWrite := w, raceAddr := addr }, ?_⟩)
    rw [h0]; rfl
  · rename_i hst _ _ heq
    subst h
    simp only [hst] at heq
    simp at heq
    split at heq
    · simp at heq; obtain ⟨rfl, _, _⟩ := heq; exact Or.inr (Or.inl ⟨_, rfl⟩)
    · simp at heq; obtain ⟨rfl, _, _⟩ := heq; exact Or.inl rfl
    · simp at heq
  · rename_i hst _ _ heq
    simp [hst] at heq
  · rename_i hst hlt _ _ pl _
    simp at h; obtain ⟨rfl, _, _⟩ := h
    refine Or.inr (Or.inr (Or.inr ⟨by simp [St.isRace, St.toNat, hst], s.gi,
      (fun g => setCreated g fun st => { st with calls := (initLast st.calls pl).getD st.calls }),
      Or.inl rfl, ?_⟩))
    simp only [modifyAt, hlt, dite_true]


theorem modifyLast_spec {gs gs' : List Goroutine} {f : Goroutine → Goroutine}
    (h : modifyLast gs f = some gs') : ∃ pre g, gs = pre ++ [g] ∧ gs' = pre ++ [f g] := by
  unfold modifyLast at h
  split at h
  · simp at h
  · rename_i g rest hr
    simp only [Option.some.injEq] at h
    refine ⟨rest.reverse, g, ?_, by rw [← h]; simp⟩
    have := congrArg List.reverse hr
    simpa using this

theorem modifyAt_spec {gs gs' : List Goroutine} {i : Nat} {f : Goroutine → Goroutine}
    (h : modifyAt gs i f = some gs') :
    gs'.length = gs.length ∧ ∀ j, j ≠ i → gs'[j]? = gs[j]? := by
  unfold modifyAt at h
  split at h
  · simp only [Option.some.injEq] at h
    subst h
    refine ⟨by simp, ?_⟩
    intro j hj
    rw [List.getElem?_set_ne (Ne.symm hj)]
  · simp at h

/-- only the last element may differ, or elements are appended -/
def LastOnly (gs gs' : List Goroutine) : Prop :=
  gs.length ≤ gs'.length ∧ ∀ i, i + 1 < gs.length → gs'[i]? = gs[i]?

theorem LastOnly.refl (gs : List Goroutine) : LastOnly gs gs := ⟨Nat.le_refl _, fun _ _ => rfl⟩

theorem LastOnly.trans {a b c : List Goroutine} (h1 : LastOnly a b) (h2 : LastOnly b c) : LastOnly a c :=
  ⟨Nat.le_trans h1.1 h2.1, fun i hi => by
    rw [h2.2 i (by have := h1.1; omega), h1.2 i hi]⟩

theorem LastOnly.append (gs : List Goroutine) (g : Goroutine) : LastOnly gs (gs ++ [g]) :=
  ⟨by simp, fun i hi => by rw [List.getElem?_append_left (by omega)]⟩

theorem LastOnly.of_modifyLast {gs gs' : List Goroutine} {f : Goroutine → Goroutine}
    (h : modifyLast gs f = some gs') : LastOnly gs gs' := by
  obtain ⟨pre, g, rfl, rfl⟩ := modifyLast_spec h
  refine ⟨by simp, fun i hi => ?_⟩
  simp at hi
  rw [List.getElem?_append_left (by omega), List.getElem?_append_left (by omega)]

theorem GsChange.length_le {s s' : S} (h : GsChange s s') :
    s.gs.length ≤ s'.gs.length ∧ s'.gs.length ≤ s.gs.length + 1 := by
  rcases h with h | ⟨g, h⟩ | ⟨f, h⟩ | ⟨_, i, f, _, h⟩
  · rw [h]; omega
  · rw [h]; simp
  · obtain ⟨pre, g, h1, h2⟩ := modifyLast_spec h
    rw [h1, h2]; simp
  · rw [(modifyAt_spec h).1]; omega

theorem GsChange.lastOnly {s s' : S} (h : GsChange s s') (hr : s.st.isRace = false) :
    LastOnly s.gs s'.gs ∧ (s'.gs.length = s.gs.length ∨ ∃ g, s'.gs = s.gs ++ [g]) := by
  rcases h with h | ⟨g, h⟩ | ⟨f, h⟩ | ⟨h0, _⟩
  · rw [h]; exact ⟨LastOnly.refl _, Or.inl rfl⟩
  · rw [h]; exact ⟨LastOnly.append _ _, Or.inr ⟨g, rfl⟩⟩
  · refine ⟨LastOnly.of_modifyLast h, Or.inl ?_⟩
    obtain ⟨pre, g, h1, h2⟩ := modifyLast_spec h
    rw [h1, h2]; simp
  · rw [hr] at h0; simp at h0

/-- a goroutine dump (not a race report) is being parsed, or the scan is finished -/
def NR (st : St) : Prop := st.isRace = false ∧ st ≠ .looking

theorem Step_NR {st st' : St} {l : Line} {b : Bool} (h : Step st l b st') (hn : NR st) : NR st' := by
  obtain ⟨h1, h2⟩ := hn
  cases st <;> simp [Step, NR, St.isRace, St.toNat] at h h1 h2 ⊢ <;> grind [St.toNat]

/-- an invariant `P` of `scanBytes` steps and a reflexive-transitive relation `R` they satisfy
carry over to the loop -/
theorem scanL_state_induct (P : S → Prop) (R : S → S → Prop) (hrefl : ∀ s, R s s)
    (htrans : ∀ a b c, R a b → R b c → R a c)
    (hstep : ∀ s d s' l e1, P s → scanBytes s d = .ok (s', l, e1) → P s' ∧ R s s')
    (s : S) (fwd : Bytes) (cons : List Bytes) (items : List (Bytes × Option RErr)) (hP : P s) :
    P (scanL s fwd cons items).s ∧ R s (scanL s fwd cons items).s := by
  induction items generalizing s fwd cons with
  | nil => exact ⟨hP, hrefl s⟩
  | cons x items ih =>
    obtain ⟨d, e⟩ := x
    rw [scanL_cons]
    by_cases hd : (s.st == .done) = true
    · rw [if_pos hd]; exact ⟨hP, hrefl s⟩
    · rw [if_neg hd]
      by_cases hlen : (d.length != 0) = true
      · rw [if_pos hlen]
        cases hsc : scanBytes s d with
        | error p => exact ⟨hP, hrefl s⟩
        | ok v =>
          obtain ⟨s', l, e1⟩ := v
          obtain ⟨hP', hR'⟩ := hstep s d s' l e1 hP hsc
          have hrec : ∀ fwd cons, P (scanL s' fwd cons items).s ∧ R s (scanL s' fwd cons items).s :=
            fun fwd cons => ⟨(ih s' fwd cons hP').1, htrans _ _ _ hR' (ih s' fwd cons hP').2⟩
          dsimp only
          by_cases hl : (!l) = true
          · rw [if_pos hl]
            by_cases hlk : (s'.st != .looking) = true
            · rw [if_pos hlk]; exact ⟨hP', hR'⟩
            · rw [if_neg hlk]
              by_cases herr : (combineErr e e1).isSome = true
              · rw [if_pos herr]; exact ⟨hP', hR'⟩
              · rw [if_neg herr]; exact hrec _ _
          · rw [if_neg hl]
            by_cases herr : (combineErr e e1).isSome = true
            · rw [if_pos herr]; exact ⟨hP', hR'⟩
            · rw [if_neg herr]; exact hrec _ _
      · rw [if_neg hlen]
        cases e with
        | some r => exact ⟨hP, hrefl s⟩
        | none => exact ih s fwd cons hP

/-- while a goroutine dump is being parsed, the loop only modifies the last goroutine or
appends new ones -/
theorem scanL_lastOnly (s : S) (fwd : Bytes) (cons : List Bytes) (items : List (Bytes × Option RErr))
    (h : NR s.st) : NR (scanL s fwd cons items).s.st ∧ LastOnly s.gs (scanL s fwd cons items).s.gs :=
  scanL_state_induct (fun s => NR s.st) (fun s s' => LastOnly s.gs s'.gs)
    (fun _ => LastOnly.refl _) (fun _ _ _ h1 h2 => h1.trans h2)
    (fun _ _ _ _ _ hP hsc =>
      ⟨Step_NR (scan_step hsc) hP, ((scan_gsChange hsc).lastOnly hP.1).1⟩) s fwd cons items h

end PP
