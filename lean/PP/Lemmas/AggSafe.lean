import PP.Model.Aggregate
import PP.Lemmas.SigLaws
/-
The merge-shape replay of `aggregateSafe` always succeeds (C03 part 5).
-/
namespace PP

theorem aggregateSafe_go (l : Lvl) (bs : List Bkt) (i : Nat) (gs : List Goroutine) :
    aggregateSafe.go l bs i gs = true := by
  induction gs generalizing bs i with
  | nil => rfl
  | cons g gs ih =>
    simp only [aggregateSafe.go, Bool.and_eq_true, List.all_eq_true, Bool.or_eq_true, Bool.not_eq_true']
    refine ⟨fun b _ => ?_, ih _ _⟩
    cases hs : Signature.similar l b.key g.sig with
    | false => exact Or.inl rfl
    | true => exact Or.inr (Signature.similar_shapeOK l _ _ hs)

end PP
