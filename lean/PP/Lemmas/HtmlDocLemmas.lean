import PP.Lemmas.HtmlLemmas
namespace PP.Html
open PP PP.Bytes

/-! ### the document: literals and holes -/

/-- the literal template text of a piece list, in order -/
def litsOf (ps : List Piece) : List Bytes :=
  ps.filterMap fun p => match p with | .lit b => some b | .hole _ _ => none

/-- a `class` hole is inside the modelled fragment of `stripTags` when its value has no `<` -/
def Piece.wf : Piece → Bool
  | .hole .cls v => !v.contains 60
  | _ => true

theorem litsOf_append (a b : List Piece) : litsOf (a ++ b) = litsOf a ++ litsOf b := by
  simp [litsOf, List.filterMap_append]

@[simp] theorem litsOf_nil : litsOf [] = [] := rfl
@[simp] theorem litsOf_lit (b : Bytes) (ps : List Piece) : litsOf (.lit b :: ps) = b :: litsOf ps := by
  simp [litsOf]
@[simp] theorem litsOf_hole (k : HoleKind) (v : Bytes) (ps : List Piece) : litsOf (.hole k v :: ps) = litsOf ps := by
  simp [litsOf]
@[simp] theorem litsOf_tx (v : Bytes) (ps : List Piece) : litsOf (tx v :: ps) = litsOf ps := by simp [tx]
@[simp] theorem litsOf_txNat (n : Nat) (ps : List Piece) : litsOf (txNat n :: ps) = litsOf ps := by simp [txNat]

@[simp] theorem wf_lit (b : Bytes) : Piece.wf (.lit b) = true := rfl
@[simp] theorem wf_tx (v : Bytes) : Piece.wf (tx v) = true := rfl
@[simp] theorem wf_txNat (n : Nat) : Piece.wf (txNat n) = true := rfl
@[simp] theorem wf_href (v : Bytes) : Piece.wf (.hole .href v) = true := rfl

/-- all elements of `l` are in `S` -/
def inS (S l : List Bytes) : Bool := l.all fun x => S.contains x

theorem inS_append (S a b : List Bytes) : inS S (a ++ b) = (inS S a && inS S b) := by simp [inS, List.all_append]

theorem inS_mono (S T l : List Bytes) (hST : inS T S = true) (h : inS S l = true) : inS T l = true := by
  simp only [inS, List.all_eq_true, List.contains_iff_mem] at *
  exact fun x hx => hST x (h x hx)

theorem count_zero_of_inS (S l : List Bytes) (b : Bytes) (h : inS S l = true) (hb : S.contains b = false) :
    l.count b = 0 := by
  rw [List.count_eq_zero]
  intro hm
  simp only [inS, List.all_eq_true] at h
  have := h b hm
  rw [hb] at this; cases this

/-! #### RenderArgs -/

theorem argItems_lits (e : Bool) (l : List Bytes) : inS [Lit.a1] (litsOf (argItems e l)) = true := by
  induction l with
  | nil => rfl
  | cons x xs ih =>
    cases xs with
    | nil => cases e <;> simp [argItems, inS]
    | cons y ys => simp only [argItems, litsOf_tx, litsOf_lit]; simpa [inS] using ih

theorem argItems_wf (e : Bool) (l : List Bytes) : (argItems e l).all Piece.wf = true := by
  induction l with
  | nil => rfl
  | cons x xs ih =>
    cases xs with
    | nil => cases e <;> simp [argItems]
    | cons y ys => simp only [argItems, List.all_cons, wf_tx, wf_lit, Bool.true_and]; exact ih

def argsLits : List Bytes := [Lit.a0, Lit.a1, Lit.a3, Lit.a4]

theorem renderArgs_lits (a : Args) : inS argsLits (litsOf (renderArgs a)) = true := by
  have h1 : ∀ e l, inS argsLits (litsOf (argItems e l)) = true :=
    fun e l => inS_mono _ _ _ (by decide) (argItems_lits e l)
  unfold renderArgs
  simp only [litsOf_append, inS_append, Bool.and_eq_true]
  refine ⟨⟨⟨by decide, ?_⟩, ?_⟩, by decide⟩
  · split <;> exact h1 _ _
  · split <;> decide

theorem renderArgs_wf (a : Args) : (renderArgs a).all Piece.wf = true := by
  unfold renderArgs
  simp only [List.all_append, Bool.and_eq_true]
  refine ⟨⟨⟨rfl, ?_⟩, ?_⟩, rfl⟩
  · split <;> exact argItems_wf _ _
  · split <;> rfl

/-! #### the tooltip -/

def srcPathLits : List Bytes := [Lit.c5, Lit.c6, Lit.c7]

theorem srcPathPieces_lits (c : Call) : inS srcPathLits (litsOf (srcPathPieces c)) = true := by
  unfold srcPathPieces; split <;> simp <;> decide

theorem srcPathPieces_wf (c : Call) : (srcPathPieces c).all Piece.wf = true := by
  unfold srcPathPieces; split <;> simp

/-! #### funcClass -/

set_option maxRecDepth 100000 in
theorem htmlEscapeString_noLt (s : Bytes) : (htmlEscapeString s).all (fun c => c != 60) = true := by
  unfold htmlEscapeString
  apply all_flatMap
  decide

theorem contains_eq_false_of_all_ne (s : Bytes) (b : UInt8) (h : s.all (fun c => c != b) = true) :
    s.contains b = false := by
  rw [Bool.eq_false_iff]
  intro hc
  rw [List.contains_iff_mem] at hc
  rw [List.all_eq_true] at h
  simpa using h b hc

theorem funcClass_noLt (c : Call) : (funcClass c).contains 60 = false := by
  apply contains_eq_false_of_all_ne
  unfold funcClass
  split
  · decide
  · simp only [List.all_append, htmlEscapeString_noLt, Bool.and_true]; decide

@[simp] theorem wf_cls_funcClass (c : Call) : Piece.wf (.hole .cls (funcClass c)) = true := by
  show (!(funcClass c).contains 60) = true
  rw [funcClass_noLt]; rfl

/-! #### RenderCalls -/

/-- literals inside a row other than the row opener `Lit.c1` -/
def rowInner : List Bytes :=
  [Lit.c2, Lit.c3, Lit.c4, Lit.c5, Lit.c6, Lit.c7, Lit.c8, Lit.c9, Lit.c10, Lit.c11, Lit.c12, Lit.c13, Lit.c14,
   Lit.c15, Lit.c16, Lit.c17, Lit.a0, Lit.a1, Lit.a3, Lit.a4]

theorem callRow_spec (ver : Bytes) (i : Nat) (c : Call) (r : List Piece) (h : callRow ver i c = .ok r) :
    (∃ rest, litsOf r = Lit.c1 :: rest ∧ inS rowInner rest = true) ∧ r.all Piece.wf = true := by
  unfold callRow at h
  split at h
  · injection h with h; subst h
    constructor
    · refine ⟨[Lit.c2, Lit.c3, Lit.c4] ++ litsOf (srcPathPieces c) ++
        [Lit.c8, Lit.c9, Lit.c10, Lit.c11, Lit.c12, Lit.c13, Lit.c14, Lit.c15, Lit.c16] ++ litsOf (renderArgs c.args) ++ [Lit.c17], ?_, ?_⟩
      · simp [litsOf_append]
      · have h1 := inS_mono _ rowInner _ (by decide) (srcPathPieces_lits c)
        have h2 := inS_mono _ rowInner _ (by decide) (renderArgs_lits c.args)
        simp only [inS_append, h1, h2, Bool.and_true]
        decide
    · simp [List.all_append, srcPathPieces_wf, renderArgs_wf]
  · cases h
  · cases h

theorem callRows_spec (ver : Bytes) (cs : List Call) (i : Nat) (r : List Piece) (h : callRows ver i cs = .ok r) :
    (litsOf r).count Lit.c1 = cs.length ∧ inS (Lit.c1 :: rowInner) (litsOf r) = true ∧ r.all Piece.wf = true := by
  induction cs generalizing i r with
  | nil => simp only [callRows] at h; injection h with h; subst h; exact ⟨rfl, rfl, rfl⟩
  | cons c cs ih =>
    unfold callRows at h
    split at h
    · cases h
    · rename_i row hrow
      split at h
      · cases h
      · rename_i rows hrows
        injection h with h; subst h
        obtain ⟨⟨rest, hl, hin⟩, hwf⟩ := callRow_spec ver i c row hrow
        obtain ⟨h1, h2, h3⟩ := ih (i + 1) rows hrows
        refine ⟨?_, ?_, ?_⟩
        · rw [litsOf_append, List.count_append, h1, hl, List.count_cons_self,
            count_zero_of_inS rowInner rest Lit.c1 hin (by decide)]
          simp; omega
        · rw [litsOf_append, inS_append, h2, hl, Bool.and_true]
          have := inS_mono rowInner (Lit.c1 :: rowInner) rest (by decide) hin
          simpa [inS] using this
        · rw [List.all_append, hwf, h3]; rfl

/-- literals of one stack table -/
def tableLits : List Bytes := Lit.c0 :: Lit.c18 :: Lit.c19 :: Lit.c1 :: rowInner

theorem renderCalls_spec (ver : Bytes) (s : Stack) (r : List Piece) (h : renderCalls ver s = .ok r) :
    (litsOf r).count Lit.c0 = 1 ∧ (litsOf r).count Lit.c1 = s.calls.length ∧
    (litsOf r).count Lit.c18 = (if s.elided then 1 else 0) ∧
    inS tableLits (litsOf r) = true ∧ r.all Piece.wf = true := by
  unfold renderCalls at h
  split at h
  · cases h
  · rename_i rows hrows
    injection h with h; subst h
    obtain ⟨h1, h2, h3⟩ := callRows_spec ver s.calls 0 rows hrows
    have z0 := count_zero_of_inS _ _ Lit.c0 h2 (by decide)
    have z18 := count_zero_of_inS _ _ Lit.c18 h2 (by decide)
    have hin := inS_mono _ tableLits _ (by decide) h2
    refine ⟨?_, ?_, ?_, ?_, ?_⟩
    · simp only [litsOf_append, litsOf_lit, litsOf_nil, List.count_append, z0]
      cases s.elided <;> decide
    · simp only [litsOf_append, litsOf_lit, litsOf_nil, List.count_append, h1]
      have a0 : List.count Lit.c1 [Lit.c0] = 0 := by decide
      have a18 : List.count Lit.c1 [Lit.c18] = 0 := by decide
      have a19 : List.count Lit.c1 [Lit.c19] = 0 := by decide
      cases s.elided <;> simp [a0, a18, a19]
    · simp only [litsOf_append, litsOf_lit, litsOf_nil, List.count_append, z18]
      cases s.elided <;> decide
    · simp only [litsOf_append, litsOf_lit, litsOf_nil, inS_append, hin, Bool.and_true]
      cases s.elided <;> decide
    · simp only [List.all_append, h3]
      cases s.elided <;> rfl

/-! #### RenderCreatedBy, headings -/

def createdLits : List Bytes :=
  [Lit.createdOpen, Lit.createdClose, Lit.r0, Lit.r4, Lit.r5, Lit.r6, Lit.r7, Lit.r8, Lit.r9, Lit.r10, Lit.r11,
   Lit.r12, Lit.r13, Lit.c5, Lit.c6, Lit.c7]

theorem renderCreatedBy_spec (ver : Bytes) (c : Call) (r : List Piece) (h : renderCreatedBy ver c = .ok r) :
    inS createdLits (litsOf r) = true ∧ r.all Piece.wf = true := by
  unfold renderCreatedBy at h
  split at h
  · injection h with h; subst h
    constructor
    · have h1 := inS_mono _ createdLits _ (by decide) (srcPathPieces_lits c)
      simp only [litsOf_append, litsOf_lit, litsOf_tx, litsOf_txNat, litsOf_hole, litsOf_nil, inS_append, h1,
        Bool.and_true]
      decide
    · simp [List.all_append, srcPathPieces_wf]
  · cases h
  · cases h

theorem createdPieces_spec (ver : Bytes) (s : Signature) (r : List Piece) (h : createdPieces ver s = .ok r) :
    inS createdLits (litsOf r) = true ∧ r.all Piece.wf = true := by
  unfold createdPieces at h
  split at h
  · injection h with h; subst h; exact ⟨rfl, rfl⟩
  · split at h
    · cases h
    · rename_i ps hps
      injection h with h; subst h
      obtain ⟨h1, h2⟩ := renderCreatedBy_spec ver _ ps hps
      constructor
      · simp only [litsOf_append, litsOf_lit, litsOf_nil, inS_append, h1, Bool.and_true]; decide
      · simp [List.all_append, h2]

/-- literals of a heading (everything of a block before the creator and the table, except the `<h1>` opener) -/
def headLits : List Bytes :=
  [Lit.b6, Lit.b7, Lit.b8, Lit.stateOpen, Lit.stateClose, Lit.sleepOpen, Lit.sleepTilde, Lit.sleepClose, Lit.h1Close,
   Lit.locked, Lit.raceOpen, Lit.raceWrite, Lit.raceRead, Lit.raceAt, Lit.raceClose]

theorem sleepPieces_spec (s : Signature) :
    inS headLits (litsOf (sleepPieces s)) = true ∧ (sleepPieces s).all Piece.wf = true := by
  unfold sleepPieces
  split
  · split <;> (constructor <;> simp <;> decide)
  · exact ⟨rfl, rfl⟩

theorem lockedPieces_spec (s : Signature) :
    inS headLits (litsOf (lockedPieces s)) = true ∧ (lockedPieces s).all Piece.wf = true := by
  unfold lockedPieces
  split
  · constructor <;> simp <;> decide
  · exact ⟨rfl, rfl⟩

theorem racePieces_spec (g : Goroutine) :
    inS headLits (litsOf (racePieces g)) = true ∧ (racePieces g).all Piece.wf = true := by
  unfold racePieces
  split
  · constructor
    · cases g.raceWrite <;> simp <;> decide
    · simp
  · exact ⟨rfl, rfl⟩

/-- every literal of a block other than its `<h1>` opener and its table opener -/
def blockInner : List Bytes := headLits ++ createdLits ++ [Lit.c18, Lit.c19, Lit.c1] ++ rowInner

/-- the invariant of one block: one `<h1>`, one table, its rows -/
structure BlockSpec (marker : Bytes) (sig : Signature) (r : List Piece) : Prop where
  heading : (litsOf r).count marker = 1
  table : (litsOf r).count Lit.c0 = 1
  rows : (litsOf r).count Lit.c1 = sig.stack.calls.length
  elided : (litsOf r).count Lit.c18 = (if sig.stack.elided then 1 else 0)
  inner : inS (marker :: Lit.c0 :: blockInner) (litsOf r) = true
  wf : r.all Piece.wf = true

theorem block_assemble (ver : Bytes) (marker : Bytes) (hm : marker = Lit.h1Goroutine ∨ marker = Lit.h1Bucket)
    (sig : Signature) (head cr calls : List Piece) (rest : List Bytes)
    (hhead : litsOf head = marker :: rest) (hrest : inS headLits rest = true) (hwf : head.all Piece.wf = true)
    (hcr : createdPieces ver sig = .ok cr) (hcalls : renderCalls ver sig.stack = .ok calls) :
    BlockSpec marker sig (head ++ cr ++ calls) := by
  obtain ⟨c1, c2⟩ := createdPieces_spec ver sig cr hcr
  obtain ⟨t0, t1, t18, tin, twf⟩ := renderCalls_spec ver sig.stack calls hcalls
  have hcnt : ∀ b, (litsOf (head ++ cr ++ calls)).count b =
      (if marker == b then 1 else 0) + rest.count b + (litsOf cr).count b + (litsOf calls).count b := by
    intro b
    simp only [litsOf_append, List.count_append, hhead, List.count_cons]
    omega
  have zr : ∀ b, headLits.contains b = false → rest.count b = 0 := fun b hb => count_zero_of_inS _ _ b hrest hb
  have zc : ∀ b, createdLits.contains b = false → (litsOf cr).count b = 0 := fun b hb => count_zero_of_inS _ _ b c1 hb
  have zt : ∀ b, tableLits.contains b = false → (litsOf calls).count b = 0 := fun b hb => count_zero_of_inS _ _ b tin hb
  have i1 := inS_mono _ (marker :: Lit.c0 :: blockInner) _ (by rcases hm with rfl | rfl <;> decide) hrest
  have i2 := inS_mono _ (marker :: Lit.c0 :: blockInner) _ (by rcases hm with rfl | rfl <;> decide) c1
  have i3 := inS_mono _ (marker :: Lit.c0 :: blockInner) _ (by rcases hm with rfl | rfl <;> decide) tin
  refine ⟨?_, ?_, ?_, ?_, ?_, ?_⟩
  · rw [hcnt, zr _ (by rcases hm with rfl | rfl <;> decide), zc _ (by rcases hm with rfl | rfl <;> decide),
      zt _ (by rcases hm with rfl | rfl <;> decide)]; simp
  · rw [hcnt, zr _ (by decide), zc _ (by decide), t0]
    have : (marker == Lit.c0) = false := by rcases hm with rfl | rfl <;> decide
    simp [this]
  · rw [hcnt, zr _ (by decide), zc _ (by decide), t1]
    have : (marker == Lit.c1) = false := by rcases hm with rfl | rfl <;> decide
    simp [this]
  · rw [hcnt, zr _ (by decide), zc _ (by decide), t18]
    have : (marker == Lit.c18) = false := by rcases hm with rfl | rfl <;> decide
    simp [this]
  · simp only [litsOf_append, inS_append, hhead, i2, i3, Bool.and_true]
    have : inS (marker :: Lit.c0 :: blockInner) (marker :: rest) = (inS (marker :: Lit.c0 :: blockInner) rest) := by
      simp [inS]
    rw [this, i1]
  · simp [List.all_append, hwf, c2, twf]

theorem goroutineBlock_spec (ver : Bytes) (g : Goroutine) (r : List Piece) (h : goroutineBlock ver g = .ok r) :
    BlockSpec Lit.h1Goroutine g.sig r := by
  unfold goroutineBlock at h
  split at h
  · rename_i cr calls hcr hcalls
    injection h with h; subst h
    obtain ⟨s1, s2⟩ := sleepPieces_spec g.sig
    obtain ⟨l1, l2⟩ := lockedPieces_spec g.sig
    obtain ⟨r1, r2⟩ := racePieces_spec g
    refine block_assemble ver _ (Or.inl rfl) g.sig _ cr calls
      ([Lit.stateOpen, Lit.stateClose] ++ litsOf (sleepPieces g.sig) ++ [Lit.h1Close] ++ litsOf (lockedPieces g.sig) ++
        litsOf (racePieces g)) ?_ ?_ ?_ hcr hcalls
    · simp [litsOf_append]
    · simp only [inS_append, s1, l1, r1, Bool.and_true]; decide
    · simp [List.all_append, s2, l2, r2]
  · cases h
  · cases h

theorem bucketBlock_spec (ver : Bytes) (i : Nat) (b : Bucket) (r : List Piece) (h : bucketBlock ver i b = .ok r) :
    BlockSpec Lit.h1Bucket b.sig r := by
  unfold bucketBlock at h
  split at h
  · rename_i cr calls hcr hcalls
    injection h with h; subst h
    obtain ⟨s1, s2⟩ := sleepPieces_spec b.sig
    obtain ⟨l1, l2⟩ := lockedPieces_spec b.sig
    refine block_assemble ver _ (Or.inr rfl) b.sig _ cr calls
      ([Lit.b6, Lit.b7] ++ (if (b.ids.length != 1) = true then [Lit.b8] else []) ++ [Lit.stateOpen, Lit.stateClose] ++
        litsOf (sleepPieces b.sig) ++ [Lit.h1Close] ++ litsOf (lockedPieces b.sig)) ?_ ?_ ?_ hcr hcalls
    · split <;> simp [litsOf_append]
    · simp only [inS_append, s1, l1, Bool.and_true]; split <;> decide
    · split <;> simp [List.all_append, s2, l2]
  · cases h
  · cases h

/-! #### the two loops -/

/-- what a whole content division satisfies, for the block marker `m` -/
structure ContentSpec (m : Bytes) (sigs : List Signature) (r : List Piece) : Prop where
  headings : (litsOf r).count m = sigs.length
  tables : (litsOf r).count Lit.c0 = sigs.length
  rows : (litsOf r).count Lit.c1 = (sigs.map fun s => s.stack.calls.length).sum
  elided : (litsOf r).count Lit.c18 = (sigs.filter fun s => s.stack.elided).length
  wf : r.all Piece.wf = true

theorem ContentSpec.nil (m : Bytes) : ContentSpec m [] [] := ⟨rfl, rfl, rfl, rfl, rfl⟩

theorem ContentSpec.cons (m : Bytes) (sig : Signature) (sigs : List Signature) (b bs : List Piece)
    (hb : BlockSpec m sig b) (hbs : ContentSpec m sigs bs) : ContentSpec m (sig :: sigs) (b ++ bs) := by
  refine ⟨?_, ?_, ?_, ?_, ?_⟩
  · rw [litsOf_append, List.count_append, hb.heading, hbs.headings]; simp; omega
  · rw [litsOf_append, List.count_append, hb.table, hbs.tables]; simp; omega
  · rw [litsOf_append, List.count_append, hb.rows, hbs.rows]; simp
  · rw [litsOf_append, List.count_append, hb.elided, hbs.elided]
    cases h : sig.stack.elided <;> simp [h]; omega
  · rw [List.all_append, hb.wf, hbs.wf]; rfl

theorem goroutineBlocks_spec (ver : Bytes) (gs : List Goroutine) (r : List Piece)
    (h : goroutineBlocks ver gs = .ok r) : ContentSpec Lit.h1Goroutine (gs.map (·.sig)) r := by
  induction gs generalizing r with
  | nil => simp only [goroutineBlocks] at h; injection h with h; subst h; exact ContentSpec.nil _
  | cons g gs ih =>
    unfold goroutineBlocks at h
    split at h
    · cases h
    · rename_i b hb
      split at h
      · cases h
      · rename_i bs hbs
        injection h with h; subst h
        exact ContentSpec.cons _ _ _ _ _ (goroutineBlock_spec ver g b hb) (ih bs hbs)

theorem bucketBlocks_spec (ver : Bytes) (bk : List Bucket) (i : Nat) (r : List Piece)
    (h : bucketBlocks ver i bk = .ok r) : ContentSpec Lit.h1Bucket (bk.map (·.sig)) r := by
  induction bk generalizing i r with
  | nil => simp only [bucketBlocks] at h; injection h with h; subst h; exact ContentSpec.nil _
  | cons g gs ih =>
    unfold bucketBlocks at h
    split at h
    · cases h
    · rename_i b hb
      split at h
      · cases h
      · rename_i bs hbs
        injection h with h; subst h
        exact ContentSpec.cons _ _ _ _ _ (bucketBlock_spec ver i g b hb) (ih (i + 1) bs hbs)

/-! #### rendering: holes add no markup byte -/

/-- the subsequence of `<`, `>`, `"`, `'` and NUL bytes -/
def markup (s : Bytes) : Bytes := s.filter isMarkupByte

theorem markup_append (a b : Bytes) : markup (a ++ b) = markup a ++ markup b := by simp [markup]

theorem markup_nil_of_all (s : Bytes) (h : s.all (fun c => !isMarkupByte c) = true) : markup s = [] := by
  rw [markup, List.filter_eq_nil_iff]
  rw [List.all_eq_true] at h
  intro c hc; simpa using h c hc

set_option maxRecDepth 100000 in
theorem urlSafe_noMarkup (c : UInt8) (h : urlSafeByte c = true) : (!isMarkupByte c) = true := by
  revert c; decide

theorem renderHole_spec (k : HoleKind) (v : Bytes) (hwf : Piece.wf (.hole k v) = true) :
    ∃ r, renderHole k v = .ok r ∧ markup r = [] := by
  cases k with
  | text => exact ⟨_, rfl, markup_nil_of_all _ (noMarkup_htmlReplacer v)⟩
  | href => exact ⟨_, rfl, markup_nil_of_all _ (all_mono urlSafe_noMarkup _ (hrefHole_all_safe v))⟩
  | cls =>
    have hv : v.contains 60 = false := by simpa [Piece.wf] using hwf
    refine ⟨htmlReplacer htmlNormReplacementTable v, ?_, markup_nil_of_all _ (noMarkup_htmlReplacerNorm v)⟩
    show attrEscaperHTML v = _
    unfold attrEscaperHTML stripTags
    rw [hv]; rfl

theorem renderPieces_spec (ps : List Piece) (h : ps.all Piece.wf = true) :
    ∃ r, renderPieces ps = .ok r ∧ markup r = markup (litsOf ps).flatten := by
  induction ps with
  | nil => exact ⟨[], rfl, rfl⟩
  | cons p ps ih =>
    simp only [List.all_cons, Bool.and_eq_true] at h
    obtain ⟨r, hr, hm⟩ := ih h.2
    cases p with
    | lit b =>
      refine ⟨b ++ r, ?_, ?_⟩
      · simp [renderPieces, Piece.render, hr]
      · simp [markup_append, hm]
    | hole k v =>
      obtain ⟨x, hx, hxm⟩ := renderHole_spec k v h.1
      refine ⟨x ++ r, ?_, ?_⟩
      · simp [renderPieces, Piece.render, hx, hr]
      · simp [markup_append, hm, hxm]

end PP.Html
