import PP.Lemmas.Cut
import PP.Lemmas.ScanLoop
/-
C10 helpers that use the scanner invariant `Inv` of C03 (`PP/Lemmas/ScanInv.lean`).
-/
namespace PP

/-- the scanner invariant holds in the state after a prefix of complete lines -/
theorem prefixL_inv (s : S) (fwd : Bytes) (cons : List Bytes) (xs : List Bytes)
    (s₁ : S) (fwd₁ : Bytes) (cons₁ : List Bytes) (hi : Inv s)
    (h : prefixL s fwd cons xs = some (s₁, fwd₁, cons₁)) : Inv s₁ := by
  induction xs generalizing s fwd cons with
  | nil =>
    simp only [prefixL, Option.some.injEq, Prod.mk.injEq] at h
    obtain ⟨rfl, _, _⟩ := h
    exact hi
  | cons d ds ih =>
    rw [prefixL] at h
    by_cases hd : (s.st == .done) = true
    · rw [if_pos hd] at h; simp at h
    · rw [if_neg hd] at h
      by_cases hlen : (d.length != 0) = true
      · rw [if_pos hlen] at h
        obtain ⟨s', l, e1, hsc, hi'⟩ := scanBytes_stepOK s d hi
        rw [hsc] at h
        dsimp only at h
        by_cases hl : (!l) = true
        · rw [if_pos hl] at h
          by_cases hlk : (s'.st != .looking) = true
          · rw [if_pos hlk] at h; simp at h
          · rw [if_neg hlk] at h
            by_cases herr : e1.isSome = true
            · rw [if_pos herr] at h; simp at h
            · rw [if_neg herr] at h; exact ih _ _ _ hi' h
        · rw [if_neg hl] at h
          by_cases herr : e1.isSome = true
          · rw [if_pos herr] at h; simp at h
          · rw [if_neg herr] at h; exact ih _ _ _ hi' h
      · rw [if_neg hlen] at h
        exact ih _ _ _ hi h

/-- when no dump has started at the cut, there is no goroutine yet -/
theorem afterCommon_looking_gs (bs : Bytes) (k : Nat) (s_c : S) (fwd_c : Bytes) (cons_c : List Bytes)
    (h : afterCommon bs k = some (s_c, fwd_c, cons_c))
    (hs : s_c.st = .looking ∨ s_c.st = .gotRaceHeader1 ∨ s_c.st = .gotRaceHeader2) : s_c.gs = [] := by
  have hi := (prefixL_inv {} [] [] (cutCommon bs k) s_c fwd_c cons_c inv_init' h).1
  rcases hs with hs | hs | hs <;> rw [hs] at hi <;> exact hi

end PP
