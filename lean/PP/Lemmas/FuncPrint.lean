import PP.Spec.WF
import PP.Lemmas.PrintLemmas
/-
Stage 2 of C01: function symbols.  `Func.Init` (model: `funcInit`) applied to
the symbol the traceback printer writes (`escapePkg pkg ++ "." ++ name`, or a
C-like `name`, optionally followed by ` in goroutine N`) recovers the
description (`expFunc`).  Also: `url.PathUnescape` undoes `objabi.PathToPrefix`,
and an escaped package path consists of printable non-blank bytes.
-/
namespace PP.Spec
open PP Bytes

/-! ### byte-level facts, by enumeration -/

theorem byte_forall {P : UInt8 → Prop} (h : ∀ n, n < 256 → P (UInt8.ofNat n)) : ∀ c, P c := by
  intro c
  have := h c.toNat (UInt8.toNat_lt c)
  simpa using this

set_option maxRecDepth 100000 in
theorem escByte_spec : ∀ c : UInt8,
    (isHex (hexDigitLower (c.toNat / 16)) && isHex (hexDigitLower (c.toNat % 16))) = true ∧
    (hexVal (hexDigitLower (c.toNat / 16)) * 16 + hexVal (hexDigitLower (c.toNat % 16))).toUInt8 = c := by
  apply byte_forall
  decide

/-! ### `pathUnescape` undoes the escaping -/

theorem pathUnescape_cons (c : UInt8) (rest : Bytes) (h : c ≠ 37) :
    pathUnescape (c :: rest) = (pathUnescape rest).map (c :: ·) := by
  rw [pathUnescape.eq_def]
  split <;> simp_all

theorem pathUnescape_escByte (c : UInt8) (rest : Bytes) :
    pathUnescape (escByte c ++ rest) = (pathUnescape rest).map (c :: ·) := by
  have := escByte_spec c
  simp [escByte, pathUnescape, this.1, this.2]

theorem needsEsc_37 : needsEsc 37 = true := by decide

/-- unescaping undoes escaping -/
theorem pathUnescape_escWith (dots : Bool) (p r : Bytes) :
    pathUnescape (escWith dots p ++ r) = (pathUnescape r).map (p ++ ·) := by
  induction p with
  | nil => simp [escWith]
  | cons c t ih =>
    simp only [escWith]
    split
    · rw [List.append_assoc, pathUnescape_escByte, ih]
      simp [Option.map_map, Function.comp_def]
    · rename_i h
      have hc : c ≠ 37 := by
        intro hc; subst hc; simp [needsEsc_37] at h
      rw [List.append_assoc, List.singleton_append, pathUnescape_cons _ _ hc, ih]
      simp [Option.map_map, Function.comp_def]

theorem pathUnescape_escapePkg (p r : Bytes) :
    pathUnescape (escapePkg p ++ r) = (pathUnescape r).map (p ++ ·) := by
  unfold escapePkg
  split
  · rw [List.append_assoc, pathUnescape_escWith, pathUnescape_escWith]
    simp [Option.map_map, Function.comp_def, ← List.append_assoc]
  · exact pathUnescape_escWith _ _ _

/-- a string without '%' is its own unescaping -/
theorem pathUnescape_plain (s : Bytes) (h : (37 : UInt8) ∉ s) : pathUnescape s = some s := by
  induction s with
  | nil => simp [pathUnescape]
  | cons c t ih =>
    simp only [List.mem_cons, not_or] at h
    rw [pathUnescape_cons _ _ (fun e => h.1 e.symm), ih h.2]; rfl

/-! ### bytes of an escaped string -/

set_option maxRecDepth 100000 in
theorem escByte_mem_aux : ∀ c : UInt8,
    (hexDigitLower (c.toNat / 16) = 37 ∨ isLowerHex (hexDigitLower (c.toNat / 16)) = true) ∧
    (hexDigitLower (c.toNat % 16) = 37 ∨ isLowerHex (hexDigitLower (c.toNat % 16)) = true) := by
  apply byte_forall
  decide

theorem mem_escByte {c x : UInt8} (h : x ∈ escByte c) : x = 37 ∨ isLowerHex x = true := by
  have := escByte_mem_aux c
  simp only [escByte, List.mem_cons, List.not_mem_nil, or_false] at h
  rcases h with h | h | h
  · exact Or.inl h
  · subst h; exact this.1
  · subst h; exact this.2

theorem mem_escWith {d : Bool} {s : Bytes} {x : UInt8} (h : x ∈ escWith d s) :
    (x ∈ s ∧ needsEsc x = false ∧ (d = true → x ≠ 46)) ∨ x = 37 ∨ isLowerHex x = true := by
  induction s with
  | nil => simp [escWith] at h
  | cons c t ih =>
    simp only [escWith, List.mem_append] at h
    rcases h with h | h
    · split at h
      · exact Or.inr (mem_escByte h)
      · rename_i hc
        simp only [List.mem_singleton] at h
        subst h
        left
        simp only [Bool.or_eq_true, Bool.and_eq_true, not_or, not_and, beq_iff_eq] at hc
        refine ⟨List.mem_cons_self, by simpa using hc.1, hc.2⟩
    · rcases ih h with ⟨h1, h2⟩ | h'
      · exact Or.inl ⟨List.mem_cons_of_mem _ h1, h2⟩
      · exact Or.inr h'

theorem not_mem_escWith_dot (s : Bytes) : (46 : UInt8) ∉ escWith true s := by
  intro h
  rcases mem_escWith h with ⟨_, _, h3⟩ | h | h
  · exact h3 rfl rfl
  · exact absurd h (by decide)
  · exact absurd h (by decide)

theorem slash_of_mem_escWith {d : Bool} {s : Bytes} (h : (47 : UInt8) ∈ escWith d s) : (47 : UInt8) ∈ s := by
  rcases mem_escWith h with ⟨h1, _⟩ | h | h
  · exact h1
  · exact absurd h (by decide)
  · exact absurd h (by decide)

set_option maxRecDepth 100000 in
theorem printable_aux : ∀ x : UInt8, (needsEsc x = false ∨ x = 37 ∨ isLowerHex x = true) →
    (32 < x ∧ x < 127 ∧ x ≠ 34) := by
  apply byte_forall
  decide

theorem escWith_bytes (d : Bool) (p : Bytes) : ∀ c ∈ escWith d p, (32 < c ∧ c < 127 ∧ c ≠ 34) := by
  intro c h
  apply printable_aux
  rcases mem_escWith h with ⟨_, h2, _⟩ | h | h
  · exact Or.inl h2
  · exact Or.inr (Or.inl h)
  · exact Or.inr (Or.inr h)

/-- every byte of an escaped package is > 0x20, < 0x7f, not '"': no blank, no newline, no control byte -/
theorem escapePkg_bytes (p : Bytes) : ∀ c ∈ escapePkg p, (32 < c ∧ c < 127 ∧ c ≠ 34) := by
  intro c h
  unfold escapePkg at h
  split at h
  · rcases List.mem_append.1 h with h | h <;> exact escWith_bytes _ _ _ h
  · exact escWith_bytes _ _ _ h

theorem escWith_append (d : Bool) (a b : Bytes) : escWith d (a ++ b) = escWith d a ++ escWith d b := by
  induction a with
  | nil => simp [escWith]
  | cons c t ih => simp [escWith, ih]

theorem escWith_slash (d : Bool) (t : Bytes) : escWith d (47 :: t) = 47 :: escWith d t := by
  have : needsEsc 47 = false := by decide
  simp [escWith, this]

theorem escapePkg_split {p : Bytes} {i : Nat} (h : lastIndexByte p 47 = some i) :
    escapePkg p = escWith false (p.take i) ++ 47 :: escWith true (p.drop (i + 1)) ∧
      (47 : UInt8) ∉ p.drop (i + 1) := by
  obtain ⟨hp, hno, hi⟩ := lastIndexByte_eq_some h
  refine ⟨?_, hno⟩
  have ht : p.take (i + 1) = p.take i ++ [47] := by
    have hl : (p.take i).length = i := by simp; omega
    conv => lhs; rw [hp]
    rw [List.take_append, hl]
    have : (p.take i).take (i + 1) = p.take i := by
      rw [List.take_take]; congr 1; omega
    simp [this]
  simp only [escapePkg, h, ht, escWith_append, escWith_slash]
  simp [escWith]

/-! ### the shape of `funcInit` / `funcFinish` -/

/-- the name cut of `funcFinish` -/
def cutName (name0 : Bytes) : Bytes :=
  match lastIndexByte name0 32 with
  | some idx =>
    if hasSuffix (name0.take idx) inGoroutineSuffix then
      (name0.take idx).take ((name0.take idx).length - inGoroutineSuffix.length) else name0
  | none => name0

theorem funcFinish_some (complete : Bytes) (e : Nat) (h : e + 1 ≤ complete.length) :
    funcFinish complete (some e) = .ok
      { complete := complete, importPath := complete.take e, dirName := lastElem (complete.take e),
        name := cutName (complete.drop (e + 1)),
        isExported := expExported (complete.take e) (cutName (complete.drop (e + 1))),
        isPkgMain := complete.take e == b!"main" } := by
  simp only [funcFinish, h, decide_true, Bool.not_true, Bool.false_eq_true, if_false]
  rfl

theorem funcFinish_none (complete : Bytes) :
    funcFinish complete none = .ok
      { complete := complete, importPath := [], dirName := [],
        name := cutName complete,
        isExported := expExported [] (cutName complete),
        isPkgMain := false } := by
  simp only [funcFinish]
  rfl

theorem funcInit_slash (raw complete pk : Bytes) (ls r : Nat)
    (hl : lastIndexByte raw 47 = some ls) (hi : indexByte (raw.drop (ls + 1)) 46 = some r)
    (h2 : pathUnescape raw = some complete) (h3 : pathUnescape (raw.take (ls + r + 1)) = some pk) :
    funcInit raw = funcFinish complete (some pk.length) := by
  simp [funcInit, hl, hi, h2, h3]

theorem funcInit_noslash (raw complete pk : Bytes) (e : Nat)
    (hl : lastIndexByte raw 47 = none) (hi : indexByte raw 46 = some e) (he : e > 0)
    (h2 : pathUnescape raw = some complete) (h3 : pathUnescape (raw.take e) = some pk) :
    funcInit raw = funcFinish complete (some pk.length) := by
  simp [funcInit, hl, hi, h2, h3, he]

theorem funcInit_nodot (raw complete : Bytes)
    (hl : lastIndexByte raw 47 = none) (hi : indexByte raw 46 = none)
    (h2 : pathUnescape raw = some complete) :
    funcInit raw = funcFinish complete none := by
  simp [funcInit, hl, hi, h2]

/-! ### the name cut -/

theorem cutName_parent (name : Bytes) (parent : Option Nat)
    (hform : parent = none → inGorForm name = false) :
    cutName (name ++ parentText parent) = name := by
  cases parent with
  | none =>
    have hf := hform rfl
    simp only [parentText, List.append_nil]
    unfold cutName
    unfold inGorForm at hf
    split
    · rename_i idx hidx
      rw [hidx] at hf
      simp only at hf
      simp [hf]
    · rfl
  | some p =>
    have h32 : (32 : UInt8) ∉ natToDec p := not_mem_natToDec p 32 (by decide)
    have hsplit : name ++ parentText (some p) = (name ++ inGoroutineSuffix) ++ 32 :: natToDec p := by
      simp [parentText, inGoroutineSuffix]
    have hl := lastIndexByte_append_cons (name ++ inGoroutineSuffix) (natToDec p) 32 h32
    rw [hsplit]
    unfold cutName
    rw [hl]
    simp only [List.take_left', hasSuffix_append, if_true]
    simp

/-! ### the printed symbol -/

theorem parentText_no (c : UInt8) (hd : isDigit c = false)
    (hc : c ∉ b!" in goroutine ") (parent : Option Nat) : c ∉ parentText parent := by
  cases parent with
  | none => simp [parentText]
  | some p =>
    simp only [parentText, List.mem_append, not_or]
    exact ⟨hc, not_mem_natToDec p c hd⟩

theorem funcFinish_print (pkg name : Bytes) (parent : Option Nat) (hpkg : pkg ≠ [])
    (hform : parent = none → inGorForm name = false) :
    funcFinish (pkg ++ 46 :: (name ++ parentText parent)) (some pkg.length) =
      .ok (expFunc pkg name parent) := by
  rw [funcFinish_some _ _ (by simp)]
  have hd : (pkg ++ 46 :: (name ++ parentText parent)).drop (pkg.length + 1) = name ++ parentText parent := by
    rw [show pkg ++ 46 :: (name ++ parentText parent) = (pkg ++ [46]) ++ (name ++ parentText parent) by simp]
    exact List.drop_left' (by simp)
  rw [hd, List.take_left' rfl, cutName_parent name parent hform]
  simp [expFunc, hpkg]

/-- Func.Init recovers package and name from the printed symbol of a Go function -/
theorem funcInit_print (pkg name : Bytes) (parent : Option Nat)
    (hpkg : pkg ≠ []) (hslash : (47 : UInt8) ∉ name) (hpct : (37 : UInt8) ∉ name)
    (hform : parent = none → inGorForm name = false) :
    funcInit (escapePkg pkg ++ b!"." ++ name ++ parentText parent) = .ok (expFunc pkg name parent) := by
  have hraw : escapePkg pkg ++ b!"." ++ name ++ parentText parent =
      escapePkg pkg ++ 46 :: (name ++ parentText parent) := by simp
  rw [hraw]
  have hs' : (47 : UInt8) ∉ name ++ parentText parent := by
    simp only [List.mem_append, not_or]
    exact ⟨hslash, parentText_no 47 (by decide) (by decide) parent⟩
  have hp' : (37 : UInt8) ∉ name ++ parentText parent := by
    simp only [List.mem_append, not_or]
    exact ⟨hpct, parentText_no 37 (by decide) (by decide) parent⟩
  generalize hn : name ++ parentText parent = name' at hs' hp'
  have hun : pathUnescape (escapePkg pkg ++ 46 :: name') = some (pkg ++ 46 :: name') := by
    rw [pathUnescape_escapePkg, pathUnescape_plain]
    · rfl
    · simp only [List.mem_cons, not_or]; exact ⟨by decide, hp'⟩
  have hesc : pathUnescape (escapePkg pkg) = some pkg := by
    have := pathUnescape_escapePkg pkg []
    simpa [pathUnescape] using this
  have hne : escapePkg pkg ≠ [] := by
    intro h
    rw [h, pathUnescape] at hesc
    exact hpkg (Option.some.inj hesc).symm
  have htake : (escapePkg pkg ++ 46 :: name').take (escapePkg pkg).length = escapePkg pkg :=
    List.take_left' rfl
  rw [← hn, ← funcFinish_print pkg name parent hpkg hform, hn]
  cases hli : lastIndexByte pkg 47 with
  | none =>
    have hnos : (47 : UInt8) ∉ pkg := lastIndexByte_eq_none hli
    have hE : escapePkg pkg = escWith true pkg := by simp [escapePkg, hli]
    have h47 : (47 : UInt8) ∉ escapePkg pkg ++ 46 :: name' := by
      simp only [List.mem_append, List.mem_cons, not_or]
      refine ⟨?_, by decide, hs'⟩
      rw [hE]; exact fun h => hnos (slash_of_mem_escWith h)
    have h46 : (46 : UInt8) ∉ escapePkg pkg := by rw [hE]; exact not_mem_escWith_dot _
    apply funcInit_noslash _ _ pkg (escapePkg pkg).length (lastIndexByte_none _ _ h47)
      (indexByte_append_cons _ _ _ h46) _ hun
    · rw [htake]; exact hesc
    · exact List.length_pos_iff.2 hne
  | some i =>
    obtain ⟨hE, hnos⟩ := escapePkg_split hli
    generalize hA : escWith false (pkg.take i) = A at hE
    generalize hL : escWith true (pkg.drop (i + 1)) = L at hE
    have hL47 : (47 : UInt8) ∉ L := by
      rw [← hL]; exact fun h => hnos (slash_of_mem_escWith h)
    have hL46 : (46 : UInt8) ∉ L := by rw [← hL]; exact not_mem_escWith_dot _
    have hr : escapePkg pkg ++ 46 :: name' = A ++ 47 :: (L ++ 46 :: name') := by
      rw [hE]; simp
    have h47 : (47 : UInt8) ∉ L ++ 46 :: name' := by
      simp only [List.mem_append, List.mem_cons, not_or]
      exact ⟨hL47, by decide, hs'⟩
    have hlen : (escapePkg pkg).length = A.length + L.length + 1 := by
      rw [hE, List.length_append, List.length_cons]; omega
    apply funcInit_slash _ _ pkg A.length L.length
    · rw [hr]; exact lastIndexByte_append_cons _ _ _ h47
    · rw [hr, show A ++ 47 :: (L ++ 46 :: name') = (A ++ [47]) ++ (L ++ 46 :: name') by simp,
        List.drop_left' (by simp)]
      exact indexByte_append_cons _ _ _ hL46
    · exact hun
    · rw [← hlen, htake]; exact hesc

/-- … and of a C-like symbol without a package -/
theorem funcInit_print_c (name : Bytes) (parent : Option Nat)
    (hdot : (46 : UInt8) ∉ name) (hslash : (47 : UInt8) ∉ name) (hpct : (37 : UInt8) ∉ name)
    (hform : parent = none → inGorForm name = false) :
    funcInit (name ++ parentText parent) = .ok (expFunc [] name parent) := by
  have hs' : (47 : UInt8) ∉ name ++ parentText parent := by
    simp only [List.mem_append, not_or]
    exact ⟨hslash, parentText_no 47 (by decide) (by decide) parent⟩
  have hp' : (37 : UInt8) ∉ name ++ parentText parent := by
    simp only [List.mem_append, not_or]
    exact ⟨hpct, parentText_no 37 (by decide) (by decide) parent⟩
  have hd' : (46 : UInt8) ∉ name ++ parentText parent := by
    simp only [List.mem_append, not_or]
    exact ⟨hdot, parentText_no 46 (by decide) (by decide) parent⟩
  rw [funcInit_nodot _ _ (lastIndexByte_none _ _ hs') (indexByte_none _ _ hd') (pathUnescape_plain _ hp'),
    funcFinish_none, cutName_parent name parent hform]
  simp [expFunc, lastElem, lastIndexByte]

/-- both cases through `FrameSpec.symbol` -/
theorem funcInit_symbol (f : FrameSpec) (parent : Option Nat)
    (hname : (47 : UInt8) ∉ f.name ∧ (37 : UInt8) ∉ f.name)
    (hc : f.pkg = [] → (46 : UInt8) ∉ f.name)
    (hform : parent = none → inGorForm f.name = false) :
    funcInit (f.symbol ++ parentText parent) = .ok (expFunc f.pkg f.name parent) := by
  unfold FrameSpec.symbol
  by_cases hp : f.pkg = []
  · rw [if_pos hp, hp]
    exact funcInit_print_c f.name parent (hc hp) hname.1 hname.2 hform
  · rw [if_neg hp]
    exact funcInit_print f.pkg f.name parent hp hname.1 hname.2 hform

#print axioms funcInit_symbol
#print axioms pathUnescape_escapePkg

end PP.Spec
