import PP.Lemmas.RuneCount
import PP.Spec.Console
/-
Widths: the maxima computed by calcLengths bound every frame, and padded
columns have a fixed rune count.
-/
namespace PP.Console
open PP PP.Bytes

/-! ### calcLengths bounds every call -/

theorem calcCallsLengths_ge (pf : PathFormat) : ∀ (calls : List Call) (acc : Nat × Nat),
    acc.1 ≤ (calcCallsLengths pf acc calls).1 ∧ acc.2 ≤ (calcCallsLengths pf acc calls).2 := by
  intro calls
  induction calls with
  | nil => intro acc; simp [calcCallsLengths]
  | cons c t ih =>
    intro acc
    have h := ih (if (formatCall pf c).length > acc.1 then (formatCall pf c).length else acc.1,
      if c.fn.dirName.length > acc.2 then c.fn.dirName.length else acc.2)
    simp only [calcCallsLengths, List.foldl_cons] at h ⊢
    constructor
    · refine Nat.le_trans ?_ h.1; split <;> omega
    · refine Nat.le_trans ?_ h.2; split <;> omega

theorem calcCallsLengths_mem (pf : PathFormat) : ∀ (calls : List Call) (acc : Nat × Nat) (c : Call), c ∈ calls →
    (formatCall pf c).length ≤ (calcCallsLengths pf acc calls).1 ∧
    c.fn.dirName.length ≤ (calcCallsLengths pf acc calls).2 := by
  intro calls
  induction calls with
  | nil => intro acc c h; cases h
  | cons x t ih =>
    intro acc c hc
    rw [List.mem_cons] at hc
    cases hc with
    | inl h =>
      subst h
      have h := calcCallsLengths_ge pf t
        (if (formatCall pf c).length > acc.1 then (formatCall pf c).length else acc.1,
         if c.fn.dirName.length > acc.2 then c.fn.dirName.length else acc.2)
      simp only [calcCallsLengths, List.foldl_cons] at h ⊢
      constructor
      · refine Nat.le_trans ?_ h.1; split <;> omega
      · refine Nat.le_trans ?_ h.2; split <;> omega
    | inr h =>
      have := ih (if (formatCall pf x).length > acc.1 then (formatCall pf x).length else acc.1,
         if x.fn.dirName.length > acc.2 then x.fn.dirName.length else acc.2) c h
      simpa only [calcCallsLengths, List.foldl_cons] using this

theorem calcLengths_foldl_ge (pf : PathFormat) : ∀ (sigs : List Signature) (acc : Nat × Nat),
    acc.1 ≤ (sigs.foldl (fun a s => calcCallsLengths pf a s.stack.calls) acc).1 ∧
    acc.2 ≤ (sigs.foldl (fun a s => calcCallsLengths pf a s.stack.calls) acc).2 := by
  intro sigs
  induction sigs with
  | nil => intro acc; simp
  | cons s t ih =>
    intro acc
    have h1 := calcCallsLengths_ge pf s.stack.calls acc
    have h2 := ih (calcCallsLengths pf acc s.stack.calls)
    simp only [List.foldl_cons]
    exact ⟨Nat.le_trans h1.1 h2.1, Nat.le_trans h1.2 h2.2⟩

theorem calcLengths_foldl_mem (pf : PathFormat) : ∀ (sigs : List Signature) (acc : Nat × Nat) (s : Signature) (c : Call),
    s ∈ sigs → c ∈ s.stack.calls →
    (formatCall pf c).length ≤ (sigs.foldl (fun a s => calcCallsLengths pf a s.stack.calls) acc).1 ∧
    c.fn.dirName.length ≤ (sigs.foldl (fun a s => calcCallsLengths pf a s.stack.calls) acc).2 := by
  intro sigs
  induction sigs with
  | nil => intro acc s c h; cases h
  | cons x t ih =>
    intro acc s c hs hc
    rw [List.mem_cons] at hs
    simp only [List.foldl_cons]
    cases hs with
    | inl h =>
      subst h
      have h1 := calcCallsLengths_mem pf s.stack.calls acc c hc
      have h2 := calcLengths_foldl_ge pf t (calcCallsLengths pf acc s.stack.calls)
      exact ⟨Nat.le_trans h1.1 h2.1, Nat.le_trans h1.2 h2.2⟩
    | inr h => exact ih _ s c h hc

/-- every frame of every signature fits the widths computed by calcLengths (in bytes) -/
theorem calcLengths_mem (pf : PathFormat) (sigs : List Signature) (s : Signature) (c : Call)
    (hs : s ∈ sigs) (hc : c ∈ s.stack.calls) :
    (formatCall pf c).length ≤ (calcLengths pf sigs).1 ∧ c.fn.dirName.length ≤ (calcLengths pf sigs).2 :=
  calcLengths_foldl_mem pf sigs (0, 0) s c hs hc

/-! ### padded columns -/

theorem padRight_eq (w : Nat) (s : Bytes) : padRight w s = s ++ List.replicate (w - runeCount s) 32 := rfl

theorem fmtPadRight_eq (w : Nat) (s : Bytes) (hw : w ≤ fmtMaxWidth) : fmtPadRight w s = padRight w s := by
  unfold fmtPadRight
  rw [if_neg (by omega)]

/-- a padded column has exactly `w` runes when the text fits -/
theorem runeCount_padRight (w : Nat) (s : Bytes) (h : runeCount s ≤ w) : runeCount (padRight w s) = w := by
  rw [padRight_eq, runeCount_append_spaces]; omega

/-- a padded column followed by the separating space -/
theorem runeCount_padRight_space (w : Nat) (s : Bytes) (h : runeCount s ≤ w) :
    runeCount (padRight w s ++ [32]) = w + 1 := by
  have : padRight w s ++ [32] = s ++ List.replicate (w - runeCount s + 1) 32 := by
    rw [padRight_eq, List.append_assoc, List.replicate_succ']
  rw [this, runeCount_append_spaces]; omega

theorem runeCount_indent (x : Bytes) : runeCount (b!"    " ++ x) = 4 + runeCount x := by
  show runeCount (32 :: 32 :: 32 :: 32 :: x) = _
  rw [runeCount_ascii_cons _ _ (by decide), runeCount_ascii_cons _ _ (by decide),
    runeCount_ascii_cons _ _ (by decide), runeCount_ascii_cons _ _ (by decide)]
  omega

end PP.Console
