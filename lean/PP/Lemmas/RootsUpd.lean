import PP.Lemmas.RootsLemmas
/-
`Call.updateLocations`: what a successful update did (`Resolved`), the first
match of the sorted walk, independence of the order of the maps.
-/
namespace PP
open Bytes

/-- The four ways `updateLocations` can succeed. -/
inductive Resolved (c : Call) (goroot lg : Bytes) (gomods gopaths : AMap) (c' : Call) : Prop
  | goroot (rel : Bytes) (hg : goroot ≠ []) (hr : c.remoteSrcPath = goroot ++ srcSep ++ rel)
      (hc : c' = { c with relSrcPath := rel, localSrcPath := pathJoin [lg, b!"src", rel],
                          importPath := importOfRel rel c.importPath, location := setLoc c .stdlib })
  | src (k rel : Bytes) (hk : k ∈ gopaths.keys) (hr : c.remoteSrcPath = k ++ srcSep ++ rel)
      (hc : c' = { c with relSrcPath := rel, localSrcPath := pathJoin [gopaths.get k, b!"src", rel],
                          importPath := importOfRel rel c.importPath, location := setLoc c .gopath })
  | pkgmod (k rel : Bytes) (hk : k ∈ gopaths.keys) (hr : c.remoteSrcPath = k ++ pkgmodSep ++ rel)
      (hc : c' = { c with relSrcPath := rel, localSrcPath := pathJoin [gopaths.get k, b!"pkg/mod", rel],
                          importPath := importOfRel rel c.importPath, location := setLoc c .goPkg })
  | gomod (k rel : Bytes) (hk : k ∈ gomods.keys) (hr : c.remoteSrcPath = k ++ b!"/" ++ rel)
      (hc : c' = { c with relSrcPath := rel, localSrcPath := c.remoteSrcPath,
                          importPath := gomodImport (gomods.get k) rel, location := setLoc c .goMod })

theorem tryGoroot_some {c c' : Call} {goroot lg : Bytes} (h : c.tryGoroot goroot lg = some c') :
    goroot ≠ [] ∧ ∃ rel, c.remoteSrcPath = goroot ++ srcSep ++ rel ∧
      c' = { c with relSrcPath := rel, localSrcPath := pathJoin [lg, b!"src", rel],
                    importPath := importOfRel rel c.importPath, location := setLoc c .stdlib } := by
  unfold Call.tryGoroot at h
  split at h
  · rename_i hc
    simp only [Bool.and_eq_true, bne_iff_ne, ne_eq] at hc
    refine ⟨hc.1, _, eq_append_of_hasPrefix hc.2, ?_⟩
    simpa using h.symm
  · cases h

theorem tryGoroot_none {c : Call} {goroot lg : Bytes} (h : c.tryGoroot goroot lg = none) :
    goroot = [] ∨ hasPrefix c.remoteSrcPath (goroot ++ srcSep) = false := by
  unfold Call.tryGoroot at h
  split at h
  · cases h
  · rename_i hc
    simp only [Bool.and_eq_true, bne_iff_ne, ne_eq, not_and, Bool.not_eq_true] at hc
    by_cases hg : goroot = []
    · exact Or.inl hg
    · exact Or.inr (hc hg)

theorem tryGopath_some {c c' : Call} {k dest : Bytes} (h : c.tryGopath k dest = some c') :
    (∃ rel, c.remoteSrcPath = k ++ srcSep ++ rel ∧
      c' = { c with relSrcPath := rel, localSrcPath := pathJoin [dest, b!"src", rel],
                    importPath := importOfRel rel c.importPath, location := setLoc c .gopath }) ∨
    (∃ rel, c.remoteSrcPath = k ++ pkgmodSep ++ rel ∧
      c' = { c with relSrcPath := rel, localSrcPath := pathJoin [dest, b!"pkg/mod", rel],
                    importPath := importOfRel rel c.importPath, location := setLoc c .goPkg }) := by
  unfold Call.tryGopath at h
  split at h
  · rename_i hc
    left
    refine ⟨_, eq_append_of_hasPrefix hc, ?_⟩
    simpa using h.symm
  · split at h
    · rename_i hc
      right
      refine ⟨_, eq_append_of_hasPrefix hc, ?_⟩
      simpa using h.symm
    · cases h

theorem tryGopath_isSome {c : Call} {k dest : Bytes} :
    (c.tryGopath k dest).isSome = (hasPrefix c.remoteSrcPath (k ++ srcSep) || hasPrefix c.remoteSrcPath (k ++ pkgmodSep)) := by
  unfold Call.tryGopath
  cases h1 : hasPrefix c.remoteSrcPath (k ++ srcSep) <;> cases h2 : hasPrefix c.remoteSrcPath (k ++ pkgmodSep) <;> simp

theorem tryGomod_some {c c' : Call} {k pkg : Bytes} (h : c.tryGomod k pkg = some c') :
    ∃ rel, c.remoteSrcPath = k ++ b!"/" ++ rel ∧
      c' = { c with relSrcPath := rel, localSrcPath := c.remoteSrcPath,
                    importPath := gomodImport pkg rel, location := setLoc c .goMod } := by
  unfold Call.tryGomod at h
  split at h
  · rename_i hc
    have e := eq_append_of_hasPrefix hc
    have hl : (k ++ b!"/").length = k.length + 1 := by simp
    rw [hl] at e
    refine ⟨_, e, ?_⟩
    simpa using h.symm
  · cases h

theorem tryGomod_isSome {c : Call} {k pkg : Bytes} :
    (c.tryGomod k pkg).isSome = hasPrefix c.remoteSrcPath (k ++ b!"/") := by
  unfold Call.tryGomod
  cases h1 : hasPrefix c.remoteSrcPath (k ++ b!"/") <;> simp

/-! ### the walks return the first key that matches -/

theorem gopathLoop_some {c c' : Call} {m : AMap} {ks : List Bytes} (h : c.gopathLoop m ks = some c') :
    ∃ pre k post, ks = pre ++ k :: post ∧ c.tryGopath k (m.get k) = some c' ∧
      ∀ x ∈ pre, c.tryGopath x (m.get x) = none := by
  induction ks with
  | nil => simp [Call.gopathLoop] at h
  | cons a t ih =>
    simp only [Call.gopathLoop] at h
    split at h
    · rename_i c'' hc
      cases h
      exact ⟨[], a, t, rfl, hc, by simp⟩
    · rename_i hc
      obtain ⟨pre, k, post, e, hk, hpre⟩ := ih h
      refine ⟨a :: pre, k, post, by simp [e], hk, ?_⟩
      intro x hx
      simp only [List.mem_cons] at hx
      rcases hx with rfl | hx
      · exact hc
      · exact hpre x hx

theorem gopathLoop_none {c : Call} {m : AMap} {ks : List Bytes} (h : c.gopathLoop m ks = none) :
    ∀ k ∈ ks, c.tryGopath k (m.get k) = none := by
  induction ks with
  | nil => simp
  | cons a t ih =>
    simp only [Call.gopathLoop] at h
    split at h
    · cases h
    · rename_i hc
      intro k hk
      simp only [List.mem_cons] at hk
      rcases hk with rfl | hk
      · exact hc
      · exact ih h k hk

theorem gomodLoop_some {c c' : Call} {m : AMap} {ks : List Bytes} (h : c.gomodLoop m ks = some c') :
    ∃ pre k post, ks = pre ++ k :: post ∧ c.tryGomod k (m.get k) = some c' ∧
      ∀ x ∈ pre, c.tryGomod x (m.get x) = none := by
  induction ks with
  | nil => simp [Call.gomodLoop] at h
  | cons a t ih =>
    simp only [Call.gomodLoop] at h
    split at h
    · rename_i c'' hc
      cases h
      exact ⟨[], a, t, rfl, hc, by simp⟩
    · rename_i hc
      obtain ⟨pre, k, post, e, hk, hpre⟩ := ih h
      refine ⟨a :: pre, k, post, by simp [e], hk, ?_⟩
      intro x hx
      simp only [List.mem_cons] at hx
      rcases hx with rfl | hx
      · exact hc
      · exact hpre x hx

theorem gomodLoop_none {c : Call} {m : AMap} {ks : List Bytes} (h : c.gomodLoop m ks = none) :
    ∀ k ∈ ks, c.tryGomod k (m.get k) = none := by
  induction ks with
  | nil => simp
  | cons a t ih =>
    simp only [Call.gomodLoop] at h
    split at h
    · cases h
    · rename_i hc
      intro k hk
      simp only [List.mem_cons] at hk
      rcases hk with rfl | hk
      · exact hc
      · exact ih h k hk

/-- the three stages of `updateLocations?` -/
theorem updateLocations?_cases {c c' : Call} {goroot lg : Bytes} {gomods gopaths : AMap}
    (h : c.updateLocations? goroot lg gomods gopaths = some c') :
    c.remoteSrcPath ≠ [] ∧
    (c.tryGoroot goroot lg = some c' ∨
     (c.tryGoroot goroot lg = none ∧ c.gopathLoop gopaths (sortedByLen gopaths) = some c') ∨
     (c.tryGoroot goroot lg = none ∧ c.gopathLoop gopaths (sortedByLen gopaths) = none ∧
        c.gomodLoop gomods (sortedByLen gomods) = some c')) := by
  unfold Call.updateLocations? at h
  split at h
  · cases h
  · rename_i hne
    refine ⟨by simpa using hne, ?_⟩
    split at h
    · rename_i c'' hc
      cases h
      exact Or.inl hc
    · rename_i hg
      split at h
      · rename_i c'' hc
        cases h
        exact Or.inr (Or.inl ⟨hg, hc⟩)
      · rename_i hp
        exact Or.inr (Or.inr ⟨hg, hp, h⟩)

theorem updateLocations?_resolved {c c' : Call} {goroot lg : Bytes} {gomods gopaths : AMap}
    (h : c.updateLocations? goroot lg gomods gopaths = some c') :
    Resolved c goroot lg gomods gopaths c' := by
  obtain ⟨_, h | ⟨_, h⟩ | ⟨_, _, h⟩⟩ := updateLocations?_cases h
  · obtain ⟨hg, rel, hr, hc⟩ := tryGoroot_some h
    exact .goroot rel hg hr hc
  · obtain ⟨pre, k, post, e, hk, _⟩ := gopathLoop_some h
    have hmem : k ∈ gopaths.keys := mem_sortedByLen.mp (e ▸ by simp)
    rcases tryGopath_some hk with ⟨rel, hr, hc⟩ | ⟨rel, hr, hc⟩
    · exact .src k rel hmem hr hc
    · exact .pkgmod k rel hmem hr hc
  · obtain ⟨pre, k, post, e, hk, _⟩ := gomodLoop_some h
    have hmem : k ∈ gomods.keys := mem_sortedByLen.mp (e ▸ by simp)
    obtain ⟨rel, hr, hc⟩ := tryGomod_some hk
    exact .gomod k rel hmem hr hc

/-! ### independence of the order of the maps -/

theorem gopathLoop_congr {c : Call} {m m' : AMap} {ks : List Bytes} (h : ∀ k, m.get k = m'.get k) :
    c.gopathLoop m ks = c.gopathLoop m' ks := by
  induction ks with
  | nil => rfl
  | cons a t ih => simp only [Call.gopathLoop, h a, ih]

theorem gomodLoop_congr {c : Call} {m m' : AMap} {ks : List Bytes} (h : ∀ k, m.get k = m'.get k) :
    c.gomodLoop m ks = c.gomodLoop m' ks := by
  induction ks with
  | nil => rfl
  | cons a t ih => simp only [Call.gomodLoop, h a, ih]

theorem updateLocations?_perm {c : Call} {goroot lg : Bytes} {gomods gomods' gopaths gopaths' : AMap}
    (pm : gomods.Perm gomods') (pp : gopaths.Perm gopaths') (ndm : gomods.Nodup) (ndp : gopaths.Nodup) :
    c.updateLocations? goroot lg gomods gopaths = c.updateLocations? goroot lg gomods' gopaths' := by
  unfold Call.updateLocations?
  rw [sortedByLen_perm pm, sortedByLen_perm pp,
    gopathLoop_congr (AMap.get_perm pp ndp), gomodLoop_congr (AMap.get_perm pm ndm)]

end PP
