import PP.Model.Scan
/-
Func.Init never hits a slice-bounds panic (C03 part 2).  Written against the
`url.PathUnescape` model (`pathUnescape`: `%XX` only); a `.` is not a hex digit, so
cutting the raw name at a `.` never cuts an escape in two (`qu_split`).
-/
namespace PP
open Bytes

theorem indexByte_getElem? {s : Bytes} {c : UInt8} {i : Nat} (h : indexByte s c = some i) : s[i]? = some c := by
  simp only [indexByte, List.idxOf?] at h
  rw [List.findIdx?_eq_some_iff_getElem] at h
  obtain ⟨hi, hc, _⟩ := h
  simp at hc
  simp [hi, hc]

theorem eq_take_cons_drop {s : Bytes} {c : UInt8} {i : Nat} (h : s[i]? = some c) :
    s = s.take i ++ c :: s.drop (i + 1) := by
  obtain ⟨hi, hc⟩ := List.getElem?_eq_some_iff.mp h
  rw [← hc]
  simp

theorem pathUnescape_cons_other (c : UInt8) (t : Bytes) (h37 : c ≠ 37) :
    pathUnescape (c :: t) = (pathUnescape t).map (fun u => c :: u) := by
  rw [pathUnescape.eq_def]
  split <;> simp_all

theorem pathUnescape_pct (a b : UInt8) (t : Bytes) :
    pathUnescape (37 :: a :: b :: t) =
      if isHex a && isHex b then (pathUnescape t).map (fun u => (hexVal a * 16 + hexVal b).toUInt8 :: u) else none := by
  simp only [pathUnescape]

theorem isHex_dot : isHex 46 = false := by decide

theorem qu_split (a b c : Bytes) (h : pathUnescape (a ++ 46 :: b) = some c) :
    ∃ a' b', pathUnescape a = some a' ∧ c = a' ++ 46 :: b' := by
  fun_induction pathUnescape a generalizing c
  · rw [List.nil_append, pathUnescape_cons_other _ _ (by decide)] at h
    cases hq : pathUnescape b with
    | none => simp [hq] at h
    | some b' => 
      simp [hq] at h
      exact ⟨[], b', rfl, by simp [h]⟩
  · rename_i x y rest hxy ih
    rw [List.cons_append, List.cons_append, List.cons_append, pathUnescape_pct, if_pos hxy] at h
    cases hq : pathUnescape (rest ++ 46 :: b) with
    | none => simp [hq] at h
    | some c' =>
      obtain ⟨a', b', h1, h2⟩ := ih c' hq
      simp [hq] at h
      exact ⟨(hexVal x * 16 + hexVal y).toUInt8 :: a', b', by simp [h1], by simp [← h, h2]⟩
  · rename_i x y rest hxy
    rw [List.cons_append, List.cons_append, List.cons_append, pathUnescape_pct, if_neg hxy] at h
    cases h
  · cases b with
    | nil => simp [pathUnescape] at h
    | cons y b =>
      simp only [List.cons_append, List.nil_append] at h
      rw [pathUnescape_pct] at h
      simp [isHex_dot] at h
  · simp only [List.cons_append, List.nil_append] at h
    rw [pathUnescape_pct] at h
    simp [isHex_dot] at h
  · rename_i x rest n1 n2 n3 ih
    have h37 : x ≠ 37 := by
      intro hx
      match rest with
      | [] => exact n2 hx rfl
      | [y] => exact n3 y hx rfl
      | y :: z :: r => exact n1 y z r hx rfl
    rw [List.cons_append, pathUnescape_cons_other _ _ h37] at h
    cases hq : pathUnescape (rest ++ 46 :: b) with
    | none => simp [hq] at h
    | some c' =>
      obtain ⟨a', b', h1, h2⟩ := ih c' hq
      simp [hq] at h
      exact ⟨x :: a', b', by simp [h1], by simp [← h, h2]⟩


theorem funcFinish_slice {c : Bytes} {ep : Option Nat} (h : funcFinish c ep = .error .slice) :
    ∃ e, ep = some e ∧ ¬ (e + 1 ≤ c.length) := by
  unfold funcFinish at h
  cases ep with
  | none => simp at h
  | some e =>
    refine ⟨e, rfl, ?_⟩
    intro hle
    simp [hle] at h

/-- the part of `Func.Init` after `endPkg` is known cannot hit a slice panic when
`endPkg` points at a '.' of the raw name -/
theorem funcInit_tail_no_slice (raw complete : Bytes) (e : Nat)
    (hq : pathUnescape raw = some complete)
    (hdot : raw[e]? = some 46) :
    funcFinish complete
      (if e > 0 then
          match pathUnescape (raw.take e) with
          | some pkg => some pkg.length
          | none => some e
        else some e) ≠ .error .slice := by
  intro h
  obtain ⟨e', he', hnb⟩ := funcFinish_slice h
  have hsplit := eq_take_cons_drop hdot
  rw [hsplit] at hq
  obtain ⟨a', b', h1, h2⟩ := qu_split _ _ _ hq
  split at he'
  · rw [h1] at he'
    dsimp only at he'
    cases he'
    apply hnb
    rw [h2]; simp
  · rename_i he0
    cases he'
    apply hnb
    rw [h2]; simp; omega

theorem funcFinish_none_no_slice (complete : Bytes) : funcFinish complete none ≠ .error .slice := by
  intro h
  obtain ⟨e', he', _⟩ := funcFinish_slice h
  cases he'

theorem funcInit_ne_slice (raw : Bytes) : funcInit raw ≠ .error .slice := by
  unfold funcInit
  cases hq : pathUnescape raw with
  | none =>
    cases hl : lastIndexByte raw 47 with
    | none => simp
    | some ls =>
      cases hi : indexByte (raw.drop (ls + 1)) 46 <;> simp [hi]
  | some complete =>
    cases hl : lastIndexByte raw 47 with
    | none =>
      dsimp only
      cases hi : indexByte raw 46 with
      | none => exact funcFinish_none_no_slice _
      | some e => exact funcInit_tail_no_slice raw complete e hq (indexByte_getElem? hi)
    | some ls =>
      cases hi : indexByte (raw.drop (ls + 1)) 46 with
      | none => simp [hi]
      | some r =>
        simp only [hi]
        refine funcInit_tail_no_slice raw complete _ hq ?_
        have := indexByte_getElem? hi
        rw [List.getElem?_drop] at this
        rw [← this]; congr 1; omega

theorem parseFunc_ne_funcSlice (line : Bytes) (c : Call) (e : Err)
    (h : parseFunc line = some (c, some e)) : e ≠ .funcSlice := by
  unfold parseFunc at h
  split at h
  · cases h
  · rename_i name args _
    split at h
    · rename_i fe hfe
      simp only [Option.some.injEq, Prod.mk.injEq] at h
      obtain ⟨_, rfl⟩ := h
      cases fe with
      | slice => exact absurd hfe (funcInit_ne_slice name)
      | noDot => simp [Err.ofFErr]
      | escape => simp [Err.ofFErr]
    · split at h
      · rename_i ae _
        simp only [Option.some.injEq, Prod.mk.injEq] at h
        obtain ⟨_, rfl⟩ := h
        cases ae <;> simp [Err.ofArgErr]
      · simp at h

theorem classify_created_ne_funcSlice (pfx raw : Bytes) :
    (classify pfx raw).created ≠ some (.error .funcSlice) := by
  unfold classify
  dsimp only
  intro h
  simp only [Option.map_eq_some_iff] at h
  obtain ⟨n, _, hn⟩ := h
  split at hn
  · cases hn
  · rename_i fe hfe
    cases fe with
    | slice => exact absurd hfe (funcInit_ne_slice n)
    | noDot => simp [Err.ofFErr] at hn
    | escape => simp [Err.ofFErr] at hn

/-! ### `scan` never reports `funcSlice` -/

/-- none of the errors a line carries is the slice panic -/
def LineNoSlice (l : Line) : Prop :=
  (∀ c e, l.func = some (c, some e) → e ≠ .funcSlice) ∧
  (∀ c e, l.funcL = some (c, some e) → e ≠ .funcSlice) ∧
  (∀ e, l.created = some (.error e) → e ≠ .funcSlice) ∧
  (∀ e, l.raceOp = some (.error e) → e ≠ .funcSlice) ∧
  (∀ e, l.racePrev = some (.error e) → e ≠ .funcSlice)

theorem parseRaceOp_ne_funcSlice (m : Option (Bytes × Bytes × Bytes)) (w : Bytes) (e : Err)
    (h : parseRaceOp m w = some (.error e)) : e ≠ .funcSlice := by
  unfold parseRaceOp at h
  split at h
  · cases h
  · split at h
    · cases h; decide
    · split at h
      · cases h; decide
      · cases h

theorem classify_lineNoSlice (pfx raw : Bytes) : LineNoSlice (classify pfx raw) := by
  refine ⟨?_, ?_, ?_, ?_, ?_⟩
  · intro c e h; exact parseFunc_ne_funcSlice _ c e h
  · intro c e h; exact parseFunc_ne_funcSlice _ c e h
  · intro e h he; subst he; exact classify_created_ne_funcSlice pfx raw h
  · intro e h; exact parseRaceOp_ne_funcSlice _ _ e h
  · intro e h; exact parseRaceOp_ne_funcSlice _ _ e h

theorem funcStep_err {s s' : S} {r : Option (Call × Option Err)} {next : St} {orElse : R} {p} {e : Err}
    (h : funcStep s r next orElse = .ok (s', p, some e))
    (hr : ∀ c e, r = some (c, some e) → e ≠ .funcSlice)
    (hor : orElse = .ok (s', p, some e) → e ≠ .funcSlice) : e ≠ .funcSlice := by
  unfold funcStep at h
  split at h
  · split at h
    · cases h
    · cases h
      exact hr _ _ rfl
  · exact hor h

theorem createdStep_err {s s' : S} {r : Except Err Func} {b : Bool} {p} {e : Err}
    (h : createdStep s r b = .ok (s', p, some e)) : r = .error e := by
  unfold createdStep at h
  split at h
  · dsimp only at h
    split at h <;> cases h
  · split at h
    · cases h
    · cases h; rfl

theorem scan_err_ne_funcSlice' (s : S) (l : Line) (s' : S) (p : Bool) (e : Err)
    (hl : LineNoSlice l) (h : scan s l = .ok (s', p, some e)) : e ≠ .funcSlice := by
  unfold scan at h
  repeat' split at h
  all_goals (try dsimp only at h)
  repeat' split at h
  all_goals (try cases h)
  all_goals first
    | decide
    | exact hl.2.2.1 _ (by rw [← createdStep_err h]; assumption)
    | exact funcStep_err h hl.1 (fun h => by cases h <;> decide)
    | exact funcStep_err h hl.2.1 (fun h => by cases h <;> decide)
    | exact hl.2.2.2.1 _ ‹_›
    | exact hl.2.2.2.2 _ ‹_›
    | exact hl.2.1 _ _ ‹_›

end PP
