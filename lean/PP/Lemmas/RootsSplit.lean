import PP.Lemmas.RootsFind
/-
The shape of the output of `splitPath`: no element but the first contains a
`/`; the first one is a run of `/` followed by bytes without `/`.
-/
namespace PP
open Bytes

theorem ne47_of_ge {b : UInt8} (h : 0x80 ≤ b.toNat) : b ≠ 47 := by
  intro e; subst e; simp at h

theorem decodeRune_ite {c : Prop} [Decidable c] (v n : Nat) (p : Bytes)
    (h : c → (47 : UInt8) ∉ p.take n) :
    ((if c then (v, n) else (runeError, 1)).1 = runeError ∧ (if c then (v, n) else (runeError, 1)).2 ≤ 1) ∨
      p.take (if c then (v, n) else (runeError, 1)).2 = [47] ∨
      (47 : UInt8) ∉ p.take (if c then (v, n) else (runeError, 1)).2 := by
  by_cases hc : c
  · rw [if_pos hc]
    exact Or.inr (Or.inr (h hc))
  · rw [if_neg hc]
    exact Or.inl ⟨rfl, Nat.le_refl 1⟩

theorem decodeRune_take (p : Bytes) :
    ((decodeRune p).1 = runeError ∧ (decodeRune p).2 ≤ 1) ∨
      p.take (decodeRune p).2 = [47] ∨ (47 : UInt8) ∉ p.take (decodeRune p).2 := by
  unfold decodeRune
  cases p with
  | nil => exact Or.inl ⟨rfl, by decide⟩
  | cons b0 t =>
    simp only
    split
    · right
      by_cases e : b0 = 47
      · left; simp [e]
      · right; simp [Ne.symm e]
    · rename_i h0
      split
      · rename_i h1
        simp only [Bool.and_eq_true, decide_eq_true_eq] at h1
        have := ne47_of_ge (b := b0) (by omega)
        split
        · rename_i b1 t1
          apply decodeRune_ite
          intro hc
          simp only [Bool.and_eq_true, decide_eq_true_eq] at hc
          have := ne47_of_ge (b := b1) hc.1
          simp [*, Ne.symm]
        · exact Or.inl ⟨rfl, by decide⟩
      · split
        · rename_i h2
          simp only [Bool.and_eq_true, decide_eq_true_eq] at h2
          have := ne47_of_ge (b := b0) (by omega)
          split
          · rename_i b1 b2 t2
            apply decodeRune_ite
            intro hc
            simp only [Bool.and_eq_true, decide_eq_true_eq] at hc
            have hb1 : 0x80 ≤ b1.toNat := by
              have := hc.1.1
              split at this <;> omega
            have := ne47_of_ge (b := b1) hb1
            have := ne47_of_ge (b := b2) hc.2.1
            simp [*, Ne.symm]
          · exact Or.inl ⟨rfl, by decide⟩
        · split
          · rename_i h3
            simp only [Bool.and_eq_true, decide_eq_true_eq] at h3
            have := ne47_of_ge (b := b0) (by omega)
            split
            · rename_i b1 b2 b3 t3
              apply decodeRune_ite
              intro hc
              simp only [Bool.and_eq_true, decide_eq_true_eq] at hc
              have hb1 : 0x80 ≤ b1.toNat := by
                have := hc.1.1.1
                split at this <;> omega
              have := ne47_of_ge (b := b1) hb1
              have := ne47_of_ge (b := b2) hc.1.2.1
              have := ne47_of_ge (b := b3) hc.2.1
              simp [*, Ne.symm]
            · exact Or.inl ⟨rfl, by decide⟩
          · exact Or.inl ⟨rfl, by decide⟩

/-- what `for _, c := range p` hands to `string(c)`: a `/`, or bytes without `/` -/
theorem nextRune_slash (p : Bytes) : (nextRune p).1 = [47] ∨ (47 : UInt8) ∉ (nextRune p).1 := by
  unfold nextRune
  simp only
  split
  · right
    show (47 : UInt8) ∉ runeErrorUTF8
    decide
  · rename_i h
    rcases decodeRune_take p with h1 | h1 | h1
    · exfalso
      apply h
      simp [h1.1, h1.2]
    · exact Or.inl h1
    · exact Or.inr h1

/-- a run of `/` followed by bytes without `/` (the first element of
`splitPath`, which keeps the leading slashes) -/
def FirstShape (s : Bytes) : Prop :=
  ∃ sl rest, s = sl ++ rest ∧ (∀ c ∈ sl, c = 47) ∧ (47 : UInt8) ∉ rest

/-- the shape of a list of parts -/
structure SplitOut (parts : List Bytes) : Prop where
  tail : ∀ x ∈ parts.tail, (47 : UInt8) ∉ x
  head : ∀ x ∈ parts.head?, FirstShape x

structure SplitInv (out : List Bytes) (s : Bytes) : Prop extends SplitOut out where
  cur0 : out = [] → FirstShape s
  cur1 : out ≠ [] → (47 : UInt8) ∉ s

theorem SplitInv.push {out : List Bytes} {s : Bytes} (h : SplitInv out s) : SplitInv (out ++ [s]) [] := by
  cases out with
  | nil =>
    refine ⟨⟨by simp, ?_⟩, by simp, fun _ => by simp⟩
    intro x hx
    simp only [List.nil_append, List.head?_cons, Option.mem_def, Option.some.injEq] at hx
    exact hx ▸ h.cur0 rfl
  | cons a t =>
    refine ⟨⟨?_, ?_⟩, by simp, fun _ => by simp⟩
    · intro x hx
      simp only [List.cons_append, List.tail_cons, List.mem_append, List.mem_singleton] at hx
      rcases hx with hx | rfl
      · exact h.tail x hx
      · exact h.cur1 (by simp)
    · intro x hx
      exact h.head x hx

theorem SplitInv.add {out : List Bytes} {s c : Bytes} (h : SplitInv out s) (hc : (47 : UInt8) ∉ c) :
    SplitInv out (s ++ c) := by
  refine ⟨h.toSplitOut, ?_, ?_⟩
  · intro e
    obtain ⟨sl, rest, e1, h1, h2⟩ := h.cur0 e
    exact ⟨sl, rest ++ c, by rw [e1, List.append_assoc], h1, by simp [h2, hc]⟩
  · intro e
    have := h.cur1 e
    simp [this, hc]

theorem SplitInv.addSlash {s : Bytes} (hs : allSlash s = true) : SplitInv [] (s ++ [47]) := by
  refine ⟨⟨by simp, by simp⟩, fun _ => ⟨s ++ [47], [], by simp, ?_, by simp⟩, fun h => absurd rfl h⟩
  intro c hc
  simp only [List.mem_append, List.mem_singleton] at hc
  rcases hc with hc | hc
  · simp only [allSlash, List.all_eq_true, beq_iff_eq] at hs
    exact hs c hc
  · exact hc

theorem splitPathGo_shape (fuel : Nat) (p : Bytes) (out : List Bytes) (s : Bytes) (h : SplitInv out s) :
    SplitOut (splitPathGo fuel p out s) := by
  induction fuel generalizing p out s with
  | zero => exact h.toSplitOut
  | succ n ih =>
    cases p with
    | nil =>
      simp only [splitPathGo]
      split
      · exact h.push.toSplitOut
      · exact h.toSplitOut
    | cons b t =>
      simp only [splitPathGo]
      split
      · rename_i hc
        simp only [Bool.or_eq_true, bne_iff_ne, ne_eq, Bool.and_eq_true] at hc
        rcases nextRune_slash (b :: t) with h47 | h47
        · rcases hc with hc | hc
          · exact absurd h47 hc
          · have he : out = [] := by simpa using hc.1
            subst he
            rw [h47]
            exact ih _ _ _ (SplitInv.addSlash hc.2)
        · exact ih _ _ _ (h.add h47)
      · split
        · exact ih _ _ _ h.push
        · exact ih _ _ _ h

/-- `splitPath`: only the first part may contain `/` (its leading run) -/
theorem splitPath_shape (p : Bytes) : SplitOut (splitPath p) := by
  unfold splitPath
  split
  · exact ⟨by simp, by simp⟩
  · exact splitPathGo_shape _ _ _ _ ⟨⟨by simp, by simp⟩, fun _ => ⟨[], [], rfl, by simp, by simp⟩, fun h => absurd rfl h⟩

/-! ### cutting the last part off a joined prefix -/

theorem append_sep_inj {c : UInt8} {a b x y : Bytes} (hx : c ∉ x) (hy : c ∉ y)
    (h : a ++ c :: x = b ++ c :: y) : a = b ∧ x = y := by
  induction a generalizing b with
  | nil =>
    cases b with
    | nil => simpa using h
    | cons d b' =>
      simp only [List.nil_append, List.cons_append, List.cons.injEq] at h
      exact absurd (h.2 ▸ by simp) hx
  | cons e a' ih =>
    cases b with
    | nil =>
      simp only [List.nil_append, List.cons_append, List.cons.injEq] at h
      exact absurd (h.2 ▸ by simp) hy
    | cons d b' =>
      simp only [List.cons_append, List.cons.injEq] at h
      obtain ⟨rfl, h2⟩ := ih h.2
      exact ⟨by rw [h.1], h2⟩

theorem pathJoin_single (y : Bytes) : pathJoin [y] = y := rfl

/-- If `k ++ "/" ++ x` (`x` without `/`) is `parts[:i]` joined and the cut is
not inside the first part (`i ≥ 2`), then `x` is the part `parts[i-1]` and `k`
is `parts[:i-1]` joined. -/
theorem cut_last_part {parts : List Bytes} (hs : SplitOut parts) {i : Nat} (h2 : 2 ≤ i) (hi : i ≤ parts.length)
    {k x : Bytes} (hx : (47 : UInt8) ∉ x) (h : k ++ 47 :: x = pathJoin (parts.take i)) :
    parts[i - 1]? = some x ∧ k = pathJoin (parts.take (i - 1)) := by
  obtain ⟨j, rfl⟩ : ∃ j, i = j + 2 := ⟨i - 2, by omega⟩
  have hlt : j + 1 < parts.length := by omega
  have e : parts.take (j + 2) = parts.take (j + 1) ++ [parts[j + 1]] := by
    rw [List.take_add_one, List.getElem?_eq_getElem hlt]
    rfl
  have hne : parts.take (j + 1) ≠ [] := by
    cases parts with
    | nil => simp at hlt
    | cons a t => simp
  have hmem : parts[j + 1] ∈ parts.tail := by
    cases parts with
    | nil => simp at hlt
    | cons a t => simp
  have hy := hs.tail _ hmem
  rw [e] at h
  unfold pathJoin at h
  rw [join_append b!"/" hne (by simp)] at h
  have hj : Bytes.join b!"/" [parts[j + 1]] = parts[j + 1] := rfl
  rw [hj] at h
  have h' : k ++ 47 :: x = Bytes.join b!"/" (parts.take (j + 1)) ++ 47 :: parts[j + 1] := by
    rw [h]; simp
  obtain ⟨e1, e2⟩ := append_sep_inj hx hy h'
  refine ⟨?_, e1⟩
  show parts[j + 1]? = some x
  rw [List.getElem?_eq_getElem hlt, e2]

/-- when the cut is inside the first part, what precedes the `/` is a run of `/` -/
theorem firstShape_cut {k x : Bytes} (h : FirstShape (k ++ 47 :: x)) : ∀ c ∈ k, c = 47 := by
  obtain ⟨sl, rest, e, h1, h2⟩ := h
  have e' : (k ++ [47]) ++ x = sl ++ rest := by simpa using e
  rcases List.append_eq_append_iff.mp e' with ⟨a, ha, _⟩ | ⟨a, ha, hb⟩
  · intro c hc
    exact h1 c (by rw [ha]; simp [hc])
  · cases a with
    | nil =>
      intro c hc
      exact h1 c (by simp only [List.append_nil] at ha; rw [← ha]; simp [hc])
    | cons d t =>
      exfalso
      have hl := congrArg List.getLast? ha
      simp only [List.getLast?_append, List.getLast?_singleton, Option.some_or] at hl
      have : (47 : UInt8) ∈ d :: t := by
        cases hg : (d :: t).getLast? with
        | none => simp at hg
        | some z =>
          rw [hg] at hl
          have hz : (47 : UInt8) = z := by
            have : (some z).or (List.getLast? sl) = some z := rfl
            rw [this] at hl
            exact Option.some.inj hl
          exact hz ▸ List.mem_of_getLast? hg
      exact h2 (by rw [hb]; simp only [List.mem_append]; exact Or.inl this)

end PP
