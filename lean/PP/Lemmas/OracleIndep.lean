import PP.Lemmas.Greedy
import PP.Lemmas.Less
/-
Lemmas for C06 (aggregation part): the result of `aggregateWith` does not
depend on the map-iteration-order oracle.

* `mergeSort_congr`: `List.mergeSort` only ever evaluates `le x y` with `x`
  *before* `y` in the input list, so two comparators agreeing on such pairs sort
  the list identically;
* `bktCmp`: a genuine three-way comparator (`CmpLaws`) that agrees with the Go
  closure `bucketLess` on every pair that is not (first, first);
* `insertG_perm` / `bucketLoop_perm`: the map contents are oracle-independent up
  to permutation;
* `OrderInv` / `FirstSim`: `order`s are pairwise distinct, and every bucket
  flagged first is similar to a goroutine flagged first.
-/
namespace PP

/-! ### `mergeSort` compares only (earlier, later) pairs -/

theorem merge_congr {α : Type} {r s : α → α → Bool} (l l' : List α)
    (h : ∀ a ∈ l, ∀ b ∈ l', r a b = s a b) : List.merge l l' r = List.merge l l' s := by
  have := List.map_merge (f := id) (r := r) (s := s) (l := l) (l' := l') h
  simpa using this

theorem mergeSort_congr {α : Type} {r s : α → α → Bool} :
    ∀ (l : List α), l.Pairwise (fun a b => r a b = s a b) → l.mergeSort r = l.mergeSort s
  | [], _ => by simp
  | [a], _ => by simp
  | a :: b :: xs, h => by
    have hsplit : (a :: b :: xs).take (((a :: b :: xs).length + 1) / 2) ++
        (a :: b :: xs).drop (((a :: b :: xs).length + 1) / 2) = a :: b :: xs := List.take_append_drop _ _
    rw [← hsplit, List.pairwise_append] at h
    obtain ⟨h1, h2, h3⟩ := h
    have : ((a :: b :: xs).take (((a :: b :: xs).length + 1) / 2)).length < xs.length + 1 + 1 := by
      simp; omega
    have : ((a :: b :: xs).drop (((a :: b :: xs).length + 1) / 2)).length < xs.length + 1 + 1 := by
      simp; omega
    simp only [List.mergeSort, List.MergeSort.Internal.splitInTwo_fst,
      List.MergeSort.Internal.splitInTwo_snd]
    rw [mergeSort_congr _ h1, mergeSort_congr _ h2]
    apply merge_congr
    intro x hx y hy
    exact h3 x (List.mem_mergeSort.1 hx) y (List.mem_mergeSort.1 hy)
termination_by l => l.length

theorem mergeSort_pair {α : Type} (le : α → α → Bool) (a b : α) :
    [a, b].mergeSort le = if le a b then [a, b] else [b, a] := by
  simp [List.mergeSort, List.merge]

/-! ### a lawful comparator behind `bucketLess` -/

/-- first-flag, then `Signature.less`, then fewer ids, then creation order -/
def bktCmp (a b : Bkt) : Ordering :=
  (lockedCmp a.first b.first).then ((sigCmp a.key b.key).then
    ((natCmp a.ids.length b.ids.length).then (natCmp a.order b.order)))

theorem bktCmp_laws : CmpLaws bktCmp :=
  CmpLaws.then (lockedCmp_laws.comap (fun b : Bkt => b.first))
    (CmpLaws.then (sigCmp_laws.comap (fun b : Bkt => b.key))
      (CmpLaws.then (natCmp_laws.comap (fun b : Bkt => b.ids.length))
        (natCmp_laws.comap (fun b : Bkt => b.order))))

/-- the `≤` of `bktCmp`, in the shape used by `sortBuckets` -/
def bktLe (a b : Bkt) : Bool := !(bktCmp b a == .lt)

theorem natCmp_lt (a b : Nat) : (natCmp a b == .lt) = decide (a < b) := by
  unfold natCmp cmpOfLt natLt
  by_cases h : a < b
  · simp [h]
  · by_cases h' : b < a <;> simp [h, h']

theorem natCmp_eq_eq (a b : Nat) : natCmp a b = .eq ↔ a = b := by
  unfold natCmp cmpOfLt natLt
  by_cases h : a < b
  · simp [h]; omega
  · by_cases h' : b < a
    · simp [h, h']; omega
    · simp [h, h']; omega

/-- `bucketLess` is the strict part of `bktCmp` except on (first, first) pairs -/
theorem bucketLess_eq (a b : Bkt) (h : (a.first && b.first) = false) :
    bucketLess a b = (bktCmp a b == .lt) := by
  unfold bucketLess bktCmp
  cases ha : a.first <;> cases hb : b.first
  · -- neither is first
    have hsw := sigCmp_laws.swap a.key b.key
    have hnsw := natCmp_laws.swap a.ids.length b.ids.length
    simp only [Bool.or_self, Bool.false_eq_true, if_false, sigLess_eq]
    have hl : lockedCmp false false = .eq := by decide
    rw [hl, hsw]
    cases hs : sigCmp a.key b.key
    · simp [Ordering.then]
    · simp only [Ordering.swap, Ordering.then]
      have hlt := natCmp_lt a.ids.length b.ids.length
      cases hn : natCmp a.ids.length b.ids.length
      · have : a.ids.length < b.ids.length := by simpa [hn] using hlt
        have hne : (b.ids.length != a.ids.length) = true := by simp; omega
        simp [hne, this]
      · have : a.ids.length = b.ids.length := (natCmp_eq_eq _ _).1 hn
        have hne : (b.ids.length != a.ids.length) = false := by simp [this]
        simp [hne, natCmp_lt]
      · have hn' : ¬ a.ids.length < b.ids.length := by simpa [hn] using hlt
        have hne' : a.ids.length ≠ b.ids.length := by
          intro e; rw [(natCmp_eq_eq _ _).2 e] at hn; cases hn
        have hne : (b.ids.length != a.ids.length) = true := by simp; omega
        simp [hne, hn']
    · simp [Ordering.then]
  · have hl : lockedCmp false true = .gt := by decide
    simp [hl, Ordering.then]
  · have hl : lockedCmp true false = .lt := by decide
    simp [hl, Ordering.then]
  · simp [ha, hb] at h

theorem bktLe_trans (a b c : Bkt) : bktLe a b = true → bktLe b c = true → bktLe a c = true := by
  unfold bktLe
  have hab := bktCmp_laws.swap a b
  have hbc := bktCmp_laws.swap b c
  have hac := bktCmp_laws.swap a c
  have ht := bktCmp_laws.trans a b c
  have he := bktCmp_laws.eqc a b c
  have he' := bktCmp_laws.eqc' a b c
  rw [hab, hbc, hac]
  cases h1 : bktCmp a b <;> cases h2 : bktCmp b c <;> cases h3 : bktCmp a c <;>
    simp_all [Ordering.swap]

theorem bktLe_total (a b : Bkt) : (bktLe a b || bktLe b a) = true := by
  unfold bktLe
  rw [bktCmp_laws.swap a b]
  cases bktCmp a b <;> simp [Ordering.swap]

theorem bktLe_antisymm (a b : Bkt) :
    bktLe a b = true → bktLe b a = true → a.order = b.order := by
  unfold bktLe
  intro h1 h2
  have e := bktCmp_laws.eq_of_incomp a b (by simpa using h2) (by simpa using h1)
  unfold bktCmp at e
  cases hl : lockedCmp a.first b.first <;> rw [hl] at e <;> simp only [Ordering.then] at e <;>
    try cases e
  cases hs : sigCmp a.key b.key <;> rw [hs] at e <;> try cases e
  cases hn : natCmp a.ids.length b.ids.length <;> rw [hn] at e <;> try cases e
  exact (natCmp_eq_eq _ _).1 e

/-! ### sorting a list with distinct `order`s and at most one `first` -/

/-- what the map contents satisfy when the loop is done (stable under permutation) -/
def SortInv (bs : List Bkt) : Prop :=
  bs.Pairwise (fun a b => a.order ≠ b.order) ∧
  bs.Pairwise (fun a b => (a.first && b.first) = false)

theorem SortInv.perm {bs bs' : List Bkt} (hp : bs'.Perm bs) (h : SortInv bs) : SortInv bs' :=
  ⟨hp.symm.pairwise h.1 (fun h e => h e.symm),
   hp.symm.pairwise h.2 (fun h => by rw [Bool.and_comm]; exact h)⟩

theorem SortInv.order_inj {bs : List Bkt} (h : SortInv bs) {a b : Bkt} (ha : a ∈ bs) (hb : b ∈ bs)
    (e : a.order = b.order) : a = b := by
  rcases pairwise_mem_cases h.1 a b ha hb with h' | h' | h'
  · exact h'
  · exact absurd e h'
  · exact absurd e.symm h'

/-- on such a list the Go closure sorts exactly like the lawful comparator -/
theorem sortBuckets_eq_bktLe {bs : List Bkt} (h : SortInv bs) :
    sortBuckets bs = bs.mergeSort bktLe := by
  unfold sortBuckets
  apply mergeSort_congr
  refine h.2.imp ?_
  intro a b hab
  unfold bktLe
  rw [bucketLess_eq b a (by rw [Bool.and_comm]; exact hab)]

theorem sortBuckets_perm (bs : List Bkt) : (sortBuckets bs).Perm bs :=
  List.mergeSort_perm _ _

theorem sortBuckets_pairwise_bktLe {bs : List Bkt} (h : SortInv bs) :
    (sortBuckets bs).Pairwise (fun a b => bktLe a b = true) := by
  rw [sortBuckets_eq_bktLe h]
  exact List.pairwise_mergeSort bktLe_trans bktLe_total bs

/-- two iteration orders of the same map contents sort to the same list -/
theorem sortBuckets_perm_eq {bs bs' : List Bkt} (h : SortInv bs) (hp : bs'.Perm bs) :
    sortBuckets bs' = sortBuckets bs := by
  have h' : SortInv bs' := h.perm hp
  refine List.Perm.eq_of_pairwise (le := fun a b => bktLe a b = true) ?_
    (sortBuckets_pairwise_bktLe h') (sortBuckets_pairwise_bktLe h)
    ((sortBuckets_perm bs').trans (hp.trans (sortBuckets_perm bs).symm))
  intro a b ha hb hab hba
  have ha' : a ∈ bs := hp.mem_iff.1 ((sortBuckets_perm bs').mem_iff.1 ha)
  have hb' : b ∈ bs := (sortBuckets_perm bs).mem_iff.1 hb
  exact h.order_inj ha' hb' (bktLe_antisymm a b hab hba)

/-- the output respects the Go comparator -/
theorem sortBuckets_sorted {bs : List Bkt} (h : SortInv bs) :
    (sortBuckets bs).Pairwise (fun a b => bucketLess b a = false) := by
  have hs : SortInv (sortBuckets bs) := h.perm (sortBuckets_perm bs)
  refine ((sortBuckets_pairwise_bktLe h).and hs.2).imp ?_
  intro a b hab
  obtain ⟨hle, hf⟩ := hab
  rw [bucketLess_eq b a (by rw [Bool.and_comm]; exact hf)]
  simpa [bktLe] using hle

/-- any sorted rearrangement of the map contents is the output of `sortBuckets`: the result
does not depend on the (stable or not) sorting algorithm either -/
theorem sortBuckets_unique {bs out : List Bkt} (h : SortInv bs) (hp : out.Perm bs)
    (hs : out.Pairwise (fun a b => bucketLess b a = false)) : out = sortBuckets bs := by
  have ho : SortInv out := h.perm hp
  have hle : out.Pairwise (fun a b => bktLe a b = true) := by
    refine (hs.and ho.2).imp ?_
    intro a b hab
    obtain ⟨hl, hf⟩ := hab
    rw [bucketLess_eq b a (by rw [Bool.and_comm]; exact hf)] at hl
    simp [bktLe, hl]
  refine List.Perm.eq_of_pairwise (le := fun a b => bktLe a b = true) ?_
    hle (sortBuckets_pairwise_bktLe h) (hp.trans (sortBuckets_perm bs).symm)
  intro a b ha hb hab hba
  exact h.order_inj (hp.mem_iff.1 ha) ((sortBuckets_perm bs).mem_iff.1 hb)
    (bktLe_antisymm a b hab hba)

/-- a bucket flagged first is the head of the sorted list -/
theorem sortBuckets_first_head {bs : List Bkt} (h : SortInv bs) (b : Bkt)
    (hb : b ∈ sortBuckets bs) (hf : b.first = true) : (sortBuckets bs).head? = some b := by
  have hs : SortInv (sortBuckets bs) := h.perm (sortBuckets_perm bs)
  have hle := sortBuckets_pairwise_bktLe h
  cases hL : sortBuckets bs with
  | nil => rw [hL] at hb; cases hb
  | cons x rest =>
    rw [hL] at hb hle
    have hs2 := hs.2
    rw [hL] at hs2
    rw [List.pairwise_cons] at hle hs2
    simp only [List.mem_cons] at hb
    rcases hb with rfl | hb
    · rfl
    · exfalso
      have h1 := hle.1 b hb
      have h2 := hs2.1 b hb
      have hx : x.first = false := by simpa [hf] using h2
      have hl : lockedCmp true false = .lt := by decide
      simp [bktLe, bktCmp, hf, hx, hl, Ordering.then] at h1

/-! ### one insertion, up to permutation -/

theorem insertG_perm (l : Lvl) {bs' bs : List Bkt} (i : Nat) (g : Goroutine) (hp : bs'.Perm bs)
    (hpw : bs.Pairwise (fun b c => Signature.similar l b.key c.key = false)) :
    (insertG l bs' i g).Perm (insertG l bs i g) := by
  rcases insertG_cases l bs' i g with ⟨pre', b', post', e', _, hb', hi'⟩ | ⟨hn', hi'⟩ <;>
    rcases insertG_cases l bs i g with ⟨pre, b, post, e, _, hb, hi⟩ | ⟨hn, hi⟩
  · -- found in both: it is the same entry
    have hb'm : b' ∈ bs := hp.mem_iff.1 (by rw [e']; simp)
    have hbm : b ∈ bs := by rw [e]; simp
    have hs : Signature.similar l b'.key b.key = true :=
      Signature.similar_trans l _ _ _ hb' (Signature.similar_symm l _ _ hb)
    have ebb : b' = b := classInv_unique hpw hb'm hbm hs
    subst ebb
    rw [hi', hi]
    rw [e', e] at hp
    have hp' : (pre' ++ post').Perm (pre ++ post) :=
      ((List.perm_middle.symm.trans hp).trans List.perm_middle).cons_inv
    exact (List.perm_middle.trans (hp'.cons _)).trans List.perm_middle.symm
  · exfalso
    have hb'm : b' ∈ bs := hp.mem_iff.1 (by rw [e']; simp)
    have := hn b' hb'm
    rw [hb'] at this; cases this
  · exfalso
    have hbm : b ∈ bs' := hp.mem_iff.2 (by rw [e]; simp)
    have := hn' b hbm
    rw [hb] at this; cases this
  · rw [hi', hi]
    exact hp.append_right _

/-- the map contents after the loop are the same multiset for every pair of valid oracles -/
theorem bucketLoop_perm {π₁ π₂ : Oracle} (h₁ : ValidOracle π₁) (h₂ : ValidOracle π₂) (l : Lvl) :
    ∀ (gs : List Goroutine) (i : Nat) (bs₁ bs₂ : List Bkt) (seen : List Goroutine),
      bs₁.Perm bs₂ → ClassInv l bs₂ seen → (∀ g ∈ gs, g.sig.WF = true) →
      (bucketLoop π₁ l i bs₁ gs).Perm (bucketLoop π₂ l i bs₂ gs)
  | [], _, _, _, _, hp, _, _ => by simpa [bucketLoop] using hp
  | g :: gs, i, bs₁, bs₂, seen, hp, hc, hwf => by
    simp only [bucketLoop]
    have hp' : (π₁ i bs₁).Perm (π₂ i bs₂) := ((h₁ i bs₁).trans hp).trans (h₂ i bs₂).symm
    have hc' : ClassInv l (π₂ i bs₂) seen := hc.perm (h₂ i bs₂)
    have hstep := insertG_perm l i g hp' hc'.2.2.1
    have hc'' := insertG_classInv l (π₂ i bs₂) seen i g (hwf g (by simp)) hc'
    exact bucketLoop_perm h₁ h₂ l gs (i + 1) _ _ _ hstep hc''
      (fun t ht => hwf t (by simp [ht]))

/-! ### `order`s are pairwise distinct -/

/-- every `order` is a distinct index below the next one -/
def OrderInv (bs : List Bkt) (i : Nat) : Prop :=
  (bs.map (·.order)).Nodup ∧ ∀ o ∈ bs.map (·.order), o < i

theorem insertG_orders (l : Lvl) (bs : List Bkt) (i : Nat) (g : Goroutine) :
    (insertG l bs i g).map (·.order) = bs.map (·.order) ∨
    (insertG l bs i g).map (·.order) = bs.map (·.order) ++ [i] := by
  rcases insertG_cases l bs i g with ⟨pre, b, post, e, _, _, hi⟩ | ⟨_, hi⟩
  · left; rw [hi, e]; simp [Bkt.upd]
  · right; rw [hi]; simp [Bkt.new]

theorem OrderInv.perm {bs bs' : List Bkt} {i : Nat} (hp : bs'.Perm bs) (h : OrderInv bs i) :
    OrderInv bs' i :=
  ⟨(hp.map _).symm.nodup h.1, fun o ho => h.2 o ((hp.map _).mem_iff.1 ho)⟩

theorem insertG_orderInv (l : Lvl) (bs : List Bkt) (i : Nat) (g : Goroutine) (h : OrderInv bs i) :
    OrderInv (insertG l bs i g) (i + 1) := by
  unfold OrderInv
  rcases insertG_orders l bs i g with e | e <;> rw [e]
  · exact ⟨h.1, fun o ho => Nat.lt_succ_of_lt (h.2 o ho)⟩
  · refine ⟨?_, ?_⟩
    · rw [List.nodup_append]
      refine ⟨h.1, by simp, ?_⟩
      intro a ha b hb
      simp only [List.mem_singleton] at hb
      have := h.2 a ha
      omega
    · intro o ho
      simp only [List.mem_append, List.mem_singleton] at ho
      rcases ho with ho | rfl
      · exact Nat.lt_succ_of_lt (h.2 o ho)
      · exact Nat.lt_succ_self _

theorem bucketLoop_orderInv {π : Oracle} (hπ : ValidOracle π) (l : Lvl) :
    ∀ (gs : List Goroutine) (i : Nat) (bs : List Bkt),
      OrderInv bs i → OrderInv (bucketLoop π l i bs gs) (i + gs.length)
  | [], _, _, h => by simpa [bucketLoop] using h
  | g :: gs, i, bs, h => by
    have h1 := insertG_orderInv l (π i bs) i g (h.perm (hπ i bs))
    have h2 := bucketLoop_orderInv hπ l gs (i + 1) _ h1
    simpa [bucketLoop, Nat.add_assoc, Nat.add_comm 1] using h2

/-- `order`s of the final map entries are pairwise distinct -/
theorem bucketLoop_order_nodup {π : Oracle} (hπ : ValidOracle π) (l : Lvl) (gs : List Goroutine) :
    ((bucketLoop π l 0 [] gs).map (·.order)).Nodup :=
  (bucketLoop_orderInv hπ l gs 0 [] ⟨by simp, by simp⟩).1

/-! ### entries flagged first -/

/-- an entry flagged first is similar to some goroutine flagged first -/
def FirstSim (l : Lvl) (bs : List Bkt) (seen : List Goroutine) : Prop :=
  ∀ b ∈ bs, b.first = true → ∃ g ∈ seen, g.first = true ∧ Signature.similar l b.key g.sig = true

theorem insertG_firstSim (l : Lvl) (bs : List Bkt) (seen : List Goroutine) (i : Nat)
    (g : Goroutine) (hwb : ∀ b ∈ bs, b.key.WF = true) (hwg : g.sig.WF = true)
    (h : FirstSim l bs seen) : FirstSim l (insertG l bs i g) (seen ++ [g]) := by
  intro c hc hf
  have hold : ∀ c ∈ bs, c.first = true →
      ∃ t ∈ seen ++ [g], t.first = true ∧ Signature.similar l c.key t.sig = true := by
    intro c hc hf
    obtain ⟨t, ht, hft, hst⟩ := h c hc hf
    exact ⟨t, by simp [ht], hft, hst⟩
  rcases insertG_mem_cases l bs i g with ⟨b, hb, hbs, hall, _, _⟩ | ⟨_, hi⟩
  · rcases hall c hc with rfl | hc
    · have hk := upd_key_similar l b g (hwb b hb) hwg hbs
      simp only [Bkt.upd, Bool.or_eq_true] at hf
      rcases hf with hf | hf
      · obtain ⟨t, ht, hft, hst⟩ := h b hb hf
        exact ⟨t, by simp [ht], hft, Signature.similar_trans l _ _ _ hk hst⟩
      · exact ⟨g, by simp, hf, Signature.similar_trans l _ _ _ hk hbs⟩
    · exact hold c hc hf
  · rw [hi] at hc
    simp only [List.mem_append, List.mem_singleton] at hc
    rcases hc with hc | rfl
    · exact hold c hc hf
    · exact ⟨g, by simp, hf, Signature.similar_refl l _⟩

theorem bucketLoop_firstSim {π : Oracle} (hπ : ValidOracle π) (l : Lvl) (gs : List Goroutine)
    (hwf : ∀ g ∈ gs, g.sig.WF = true) : FirstSim l (bucketLoop π l 0 [] gs) gs := by
  have := bucketLoop_induct hπ l
    (fun (bs : List Bkt) (seen : List Goroutine) =>
      (∀ g ∈ seen, g.sig.WF = true) → ClassInv l bs seen ∧ FirstSim l bs seen)
    (fun bs bs' seen hp h hw =>
      ⟨(h hw).1.perm hp, fun b hb => (h hw).2 b (hp.mem_iff.1 hb)⟩)
    (fun bs seen i g h hw => by
      have hw' : ∀ t ∈ seen, t.sig.WF = true := fun t ht => hw t (by simp [ht])
      obtain ⟨hc, hfs⟩ := h hw'
      exact ⟨insertG_classInv l bs seen i g (hw g (by simp)) hc,
        insertG_firstSim l bs seen i g hc.1 (hw g (by simp)) hfs⟩)
    gs 0 [] [] (fun _ => ⟨⟨by simp, by simp, by simp, by simp⟩, by simp [FirstSim]⟩)
  exact (this (by simpa using hwf)).2

/-- when all goroutines flagged first are similar, at most one entry is flagged first -/
theorem bucketLoop_first_unique {π : Oracle} (hπ : ValidOracle π) (l : Lvl) (gs : List Goroutine)
    (hwf : ∀ g ∈ gs, g.sig.WF = true)
    (hfirst : ∀ g ∈ gs, ∀ h ∈ gs, g.first = true → h.first = true →
      Signature.similar l g.sig h.sig = true)
    {b c : Bkt} (hb : b ∈ bucketLoop π l 0 [] gs) (hc : c ∈ bucketLoop π l 0 [] gs)
    (hbf : b.first = true) (hcf : c.first = true) : b = c := by
  have hfs := bucketLoop_firstSim hπ l gs hwf
  have hci := bucketLoop_classInv hπ l gs hwf
  obtain ⟨g, hg, hgf, hgs⟩ := hfs b hb hbf
  obtain ⟨t, ht, htf, hts⟩ := hfs c hc hcf
  have h1 := hfirst g hg t ht hgf htf
  have h2 : Signature.similar l b.key c.key = true :=
    Signature.similar_trans l _ _ _ (Signature.similar_trans l _ _ _ hgs h1)
      (Signature.similar_symm l _ _ hts)
  exact classInv_unique hci.2.2.1 hb hc h2

/-- the final map contents can be sorted deterministically -/
theorem bucketLoop_sortInv {π : Oracle} (hπ : ValidOracle π) (l : Lvl) (gs : List Goroutine)
    (hwf : ∀ g ∈ gs, g.sig.WF = true)
    (hfirst : ∀ g ∈ gs, ∀ h ∈ gs, g.first = true → h.first = true →
      Signature.similar l g.sig h.sig = true) :
    SortInv (bucketLoop π l 0 [] gs) := by
  have hnd : (bucketLoop π l 0 [] gs).Pairwise (fun a b => a.order ≠ b.order) :=
    List.pairwise_map.1 (bucketLoop_order_nodup hπ l gs)
  refine ⟨hnd, hnd.imp_of_mem ?_⟩
  intro a b ha hb hne
  cases haf : a.first with
  | false => rfl
  | true =>
    cases hbf : b.first with
    | false => rfl
    | true =>
      exact absurd (congrArg Bkt.order (bucketLoop_first_unique hπ l gs hwf hfirst ha hb haf hbf)) hne

end PP
