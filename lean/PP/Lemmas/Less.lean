import PP.Model.Sig
/-
Helper lemmas for C13: `Stack.less` / `Signature.less` are strict weak orders.

Route: a small algebra of three-way comparators (`CmpLaws`), closed under
pull-back, lexicographic sequencing (`Ordering.then`) and lexicographic lists
(`lexCmp`).  `Stack.less` and `Signature.less` are then shown to be the `.lt`
part of comparators built this way.
-/
namespace PP

/-! ### three-way comparators -/

/-- `cmp` is the three-way comparison of a total preorder. -/
structure CmpLaws {α : Type} (cmp : α → α → Ordering) : Prop where
  refl : ∀ a, cmp a a = .eq
  swap : ∀ a b, cmp b a = (cmp a b).swap
  trans : ∀ a b c, cmp a b = .lt → cmp b c = .lt → cmp a c = .lt
  eqc : ∀ a b c, cmp a b = .eq → cmp a c = cmp b c

namespace CmpLaws
variable {α β : Type} {cmp : α → α → Ordering}

theorem eqc' (h : CmpLaws cmp) (a b c : α) (e : cmp b c = .eq) : cmp a c = cmp a b := by
  have h1 := h.eqc b c a e
  have h2 := h.swap a b
  have h3 := h.swap a c
  rw [h2, h3] at h1
  cases hab : cmp a b <;> cases hac : cmp a c <;> simp_all [Ordering.swap]

theorem comap (h : CmpLaws cmp) (f : β → α) : CmpLaws (fun x y => cmp (f x) (f y)) where
  refl _ := h.refl _
  swap _ _ := h.swap _ _
  trans _ _ _ := h.trans _ _ _
  eqc _ _ _ := h.eqc _ _ _

/-- pointwise transitivity of a lexicographic pair -/
theorem then_trans_pt {o1 o2 o3 p1 p2 p3 : Ordering}
    (ht : o1 = .lt → o2 = .lt → o3 = .lt)
    (he1 : o1 = .eq → o3 = o2) (he2 : o2 = .eq → o3 = o1)
    (pt : p1 = .lt → p2 = .lt → p3 = .lt) :
    o1.then p1 = .lt → o2.then p2 = .lt → o3.then p3 = .lt := by
  cases o1 <;> cases o2 <;> simp_all [Ordering.then]

theorem then_eqc_pt {o1 o2 o3 p1 p2 p3 : Ordering}
    (he1 : o1 = .eq → o3 = o2) (pe : p1 = .eq → p3 = p2) :
    o1.then p1 = .eq → o3.then p3 = o2.then p2 := by
  cases o1 <;> simp_all [Ordering.then]

theorem «then» {c1 c2 : α → α → Ordering} (h1 : CmpLaws c1) (h2 : CmpLaws c2) :
    CmpLaws (fun a b => (c1 a b).then (c2 a b)) where
  refl a := by simp [h1.refl, h2.refl]
  swap a b := by simp [h1.swap a b, h2.swap a b, Ordering.swap_then]
  trans a b c :=
    then_trans_pt (h1.trans a b c) (h1.eqc a b c) (h1.eqc' a b c) (h2.trans a b c)
  eqc a b c := then_eqc_pt (h1.eqc a b c) (h2.eqc a b c)

/-! the strict order read off a comparator -/

theorem lt_irrefl (h : CmpLaws cmp) (a : α) : (cmp a a == .lt) = false := by
  simp [h.refl]

theorem lt_asymm (h : CmpLaws cmp) (a b : α) :
    (cmp a b == .lt) = true → (cmp b a == .lt) = false := by
  rw [h.swap a b]; cases cmp a b <;> simp [Ordering.swap]

theorem lt_trans (h : CmpLaws cmp) (a b c : α) :
    (cmp a b == .lt) = true → (cmp b c == .lt) = true → (cmp a c == .lt) = true := by
  intro h1 h2
  have h1' : cmp a b = .lt := by simpa using h1
  have h2' : cmp b c = .lt := by simpa using h2
  simp [h.trans a b c h1' h2']

theorem eq_of_incomp (h : CmpLaws cmp) (a b : α) :
    (cmp a b == .lt) = false → (cmp b a == .lt) = false → cmp a b = .eq := by
  rw [h.swap a b]; cases cmp a b <;> simp [Ordering.swap]

theorem lt_incomp_trans (h : CmpLaws cmp) (a b c : α) :
    (cmp a b == .lt) = false → (cmp b a == .lt) = false →
    (cmp b c == .lt) = false → (cmp c b == .lt) = false →
    ((cmp a c == .lt) = false ∧ (cmp c a == .lt) = false) := by
  intro h1 h2 h3 h4
  have e1 := h.eq_of_incomp a b h1 h2
  have e2 := h.eq_of_incomp b c h3 h4
  have e3 : cmp a c = .eq := by rw [h.eqc a b c e1, e2]
  have e4 : cmp c a = .eq := by rw [h.swap a c, e3]; rfl
  simp [e3, e4]

end CmpLaws

/-! ### comparator of a strict total order given as a Boolean `<` -/

def cmpOfLt {α : Type} (lt : α → α → Bool) (a b : α) : Ordering :=
  if lt a b then .lt else if lt b a then .gt else .eq

theorem cmpOfLt_laws {α : Type} (lt : α → α → Bool)
    (irr : ∀ a, lt a a = false)
    (tr : ∀ a b c, lt a b = true → lt b c = true → lt a c = true)
    (tri : ∀ a b, lt a b = false → lt b a = false → a = b) : CmpLaws (cmpOfLt lt) := by
  have asym : ∀ a b, lt a b = true → lt b a = false := by
    intro a b h1
    cases h2 : lt b a
    · rfl
    · have := tr a b a h1 h2; simp [irr] at this
  constructor
  · intro a; simp [cmpOfLt, irr]
  · intro a b
    unfold cmpOfLt
    cases h1 : lt a b <;> cases h2 : lt b a <;> simp [Ordering.swap]
    have := asym a b h1; simp [h2] at this
  · intro a b c
    unfold cmpOfLt
    intro h1 h2
    have h1' : lt a b = true := by
      cases h : lt a b <;> simp [h] at h1 ⊢
      cases h' : lt b a <;> simp [h'] at h1
    have h2' : lt b c = true := by
      cases h : lt b c <;> simp [h] at h2 ⊢
      cases h' : lt c b <;> simp [h'] at h2
    simp [tr a b c h1' h2']
  · intro a b c
    unfold cmpOfLt
    intro h
    have hab : lt a b = false := by
      cases h' : lt a b <;> simp [h'] at h ⊢
    have hba : lt b a = false := by
      cases h' : lt b a <;> simp [h', hab] at h ⊢
    rw [tri a b hab hba]

/-! ### lexicographic comparison of lists (shorter list first on a tie) -/

def lexCmp {α : Type} (cmp : α → α → Ordering) : List α → List α → Ordering
  | [], [] => .eq
  | [], _ :: _ => .lt
  | _ :: _, [] => .gt
  | a :: as, b :: bs => (cmp a b).then (lexCmp cmp as bs)

theorem lexCmp_laws {α : Type} {cmp : α → α → Ordering} (h : CmpLaws cmp) :
    CmpLaws (lexCmp cmp) where
  refl := by
    intro a; induction a with
    | nil => rfl
    | cons x xs ih => simp [lexCmp, h.refl, ih]
  swap := by
    intro a; induction a with
    | nil => intro b; cases b <;> rfl
    | cons x xs ih =>
      intro b; cases b with
      | nil => rfl
      | cons y ys => simp [lexCmp, Ordering.swap_then, h.swap x y, ih ys]
  trans := by
    intro a; induction a with
    | nil =>
      intro b c; cases b <;> cases c <;> simp [lexCmp]
    | cons x xs ih =>
      intro b c; cases b with
      | nil => simp [lexCmp]
      | cons y ys =>
        cases c with
        | nil => simp [lexCmp]
        | cons z zs =>
          simp only [lexCmp]
          exact CmpLaws.then_trans_pt (h.trans x y z) (h.eqc x y z) (h.eqc' x y z) (ih ys zs)
  eqc := by
    intro a; induction a with
    | nil =>
      intro b c; cases b <;> simp [lexCmp]
    | cons x xs ih =>
      intro b c; cases b with
      | nil => simp [lexCmp]
      | cons y ys =>
        cases c with
        | nil => simp [lexCmp]
        | cons z zs =>
          simp only [lexCmp]
          exact CmpLaws.then_eqc_pt (h.eqc x y z) (ih ys zs)

/-! ### `bytesLt` is a strict total order -/

theorem bytesLt_irrefl (a : Bytes) : bytesLt a a = false := by
  induction a with
  | nil => rfl
  | cons x xs ih => simp [bytesLt, ih]

theorem bytesLt_trans (a b c : Bytes) :
    bytesLt a b = true → bytesLt b c = true → bytesLt a c = true := by
  induction a generalizing b c with
  | nil => cases b <;> cases c <;> simp [bytesLt]
  | cons x xs ih =>
    cases b with
    | nil => simp [bytesLt]
    | cons y ys =>
      cases c with
      | nil => simp [bytesLt]
      | cons z zs =>
        simp only [bytesLt, Bool.or_eq_true, Bool.and_eq_true, decide_eq_true_eq, beq_iff_eq]
        intro h1 h2
        rcases h1 with h1 | ⟨rfl, h1⟩
        · rcases h2 with h2 | ⟨rfl, h2⟩
          · exact Or.inl (UInt8.lt_trans h1 h2)
          · exact Or.inl h1
        · rcases h2 with h2 | ⟨rfl, h2⟩
          · exact Or.inl h2
          · exact Or.inr ⟨rfl, ih _ _ h1 h2⟩

theorem bytesLt_tri (a b : Bytes) :
    bytesLt a b = false → bytesLt b a = false → a = b := by
  induction a generalizing b with
  | nil => cases b <;> simp [bytesLt]
  | cons x xs ih =>
    cases b with
    | nil => simp [bytesLt]
    | cons y ys =>
      simp only [bytesLt, Bool.or_eq_false_iff, Bool.and_eq_false_iff, decide_eq_false_iff_not,
        beq_eq_false_iff_ne, ne_eq]
      intro ⟨h1, h2⟩ ⟨h3, h4⟩
      have hxy : x = y := UInt8.le_antisymm (UInt8.not_lt.mp h3) (UInt8.not_lt.mp h1)
      subst hxy
      simp only [not_true_eq_false, false_or] at h2 h4
      rw [ih ys h2 h4]

def bytesCmp : Bytes → Bytes → Ordering := cmpOfLt bytesLt

theorem bytesCmp_laws : CmpLaws bytesCmp :=
  cmpOfLt_laws bytesLt bytesLt_irrefl bytesLt_trans bytesLt_tri

/-! ### small comparators -/

def natLt (a b : Nat) : Bool := decide (a < b)
def natCmp : Nat → Nat → Ordering := cmpOfLt natLt
/-- "more is less" -/
def natRevCmp (a b : Nat) : Ordering := natCmp b a

theorem natCmp_laws : CmpLaws natCmp :=
  cmpOfLt_laws natLt (by simp [natLt]) (by simp [natLt]; omega) (by simp [natLt]; omega)

theorem natRevCmp_laws : CmpLaws natRevCmp where
  refl a := natCmp_laws.refl a
  swap a b := natCmp_laws.swap b a
  trans a b c h1 h2 := natCmp_laws.trans c b a h2 h1
  eqc a b c h := by
    have := natCmp_laws.eqc' c b a (by simpa [natRevCmp] using h)
    simpa [natRevCmp] using this

/-- locked goroutines first -/
def lockedLt (a b : Bool) : Bool := a && !b
def lockedCmp : Bool → Bool → Ordering := cmpOfLt lockedLt

theorem lockedCmp_laws : CmpLaws lockedCmp :=
  cmpOfLt_laws lockedLt (by decide) (by decide) (by decide)

/-! ### the histogram -/

theorem countLoc_cons (c : Call) (cs : List Call) (loc : Loc) :
    countLoc (c :: cs) loc = countLoc cs loc + (if c.location = loc then 1 else 0) := by
  simp only [countLoc, List.filter_cons, beq_iff_eq]
  split <;> simp

/-- the five location counters partition the frames -/
theorem countLoc_sum (cs : List Call) :
    countLoc cs .unknown + countLoc cs .goMod + countLoc cs .gopath + countLoc cs .goPkg +
      countLoc cs .stdlib = cs.length := by
  induction cs with
  | nil => rfl
  | cons c cs ih =>
    simp only [countLoc_cons, List.length_cons]
    cases c.location <;> simp <;> omega

theorem histo_length (cs : List Call) : (histo cs).length = 6 := rfl

theorem histoCmp_eq_lex (a b : List Nat) (h : a.length = b.length) :
    histoCmp a b = lexCmp natRevCmp a b := by
  induction a generalizing b with
  | nil => cases b <;> simp_all [histoCmp, lexCmp]
  | cons x xs ih =>
    cases b with
    | nil => simp at h
    | cons y ys =>
      simp only [List.length_cons, Nat.add_right_cancel_iff] at h
      simp only [histoCmp, lexCmp, natRevCmp, natCmp, cmpOfLt, natLt, ih ys h, gt_iff_lt,
        decide_eq_true_eq]
      split
      · rfl
      · split <;> rfl

theorem lexCmp_natRev_eq (a b : List Nat) : lexCmp natRevCmp a b = .eq → a = b := by
  induction a generalizing b with
  | nil => cases b <;> simp [lexCmp]
  | cons x xs ih =>
    cases b with
    | nil => simp [lexCmp]
    | cons y ys =>
      simp only [lexCmp, Ordering.then_eq_eq]
      intro ⟨h1, h2⟩
      rw [ih ys h2]
      have : x = y := by
        simp only [natRevCmp, natCmp, cmpOfLt, natLt, decide_eq_true_eq] at h1
        split at h1
        · cases h1
        · split at h1
          · cases h1
          · omega
      rw [this]

/-- `histoCmp a b = .eq → a = b` for equal-length lists -/
theorem histoCmp_eq (a b : List Nat) (h : a.length = b.length) : histoCmp a b = .eq → a = b := by
  rw [histoCmp_eq_lex a b h]; exact lexCmp_natRev_eq a b

theorem length_eq_of_histo_eq (as bs : List Call) (h : histo as = histo bs) :
    as.length = bs.length := by
  rw [← countLoc_sum as, ← countLoc_sum bs]
  simp only [histo, List.cons.injEq] at h
  omega

/-! ### the per-frame loop -/

def callCmp (a b : Call) : Ordering :=
  (bytesCmp a.fn.complete b.fn.complete).then
    ((bytesCmp a.dirSrc b.dirSrc).then (natCmp a.line b.line))

theorem callCmp_laws : CmpLaws callCmp :=
  CmpLaws.then (bytesCmp_laws.comap (fun c : Call => c.fn.complete))
    (CmpLaws.then (bytesCmp_laws.comap (fun c : Call => c.dirSrc))
      (natCmp_laws.comap (fun c : Call => c.line)))

theorem framesCmp_isSome (as bs : List Call) (h : as.length ≤ bs.length) :
    (framesCmp as bs).isSome = true := by
  induction as generalizing bs with
  | nil => rfl
  | cons a as ih =>
    cases bs with
    | nil => simp at h
    | cons b bs =>
      simp only [List.length_cons, Nat.add_le_add_iff_right] at h
      simp only [framesCmp]
      repeat' split
      all_goals first | rfl | exact ih bs h

theorem framesCmp_eq_lex (as bs : List Call) (h : as.length = bs.length) :
    framesCmp as bs = some (lexCmp callCmp as bs) := by
  induction as generalizing bs with
  | nil => cases bs <;> simp_all [framesCmp, lexCmp]
  | cons a as ih =>
    cases bs with
    | nil => simp at h
    | cons b bs =>
      simp only [List.length_cons, Nat.add_right_cancel_iff] at h
      simp only [framesCmp, lexCmp, callCmp, bytesCmp, natCmp, cmpOfLt, natLt, ih bs h,
        decide_eq_true_eq]
      repeat' split
      all_goals rfl

/-! ### Stack.less -/

/-- three-way comparison behind `Stack.less`: histogram, then frames -/
def stackCmp (s r : Stack) : Ordering :=
  (lexCmp natRevCmp (histo s.calls) (histo r.calls)).then (lexCmp callCmp s.calls r.calls)

theorem stackCmp_laws : CmpLaws stackCmp :=
  CmpLaws.then ((lexCmp_laws natRevCmp_laws).comap (fun s : Stack => histo s.calls))
    ((lexCmp_laws callCmp_laws).comap (fun s : Stack => s.calls))

theorem stackLess?_eq (s r : Stack) : Stack.less? s r = some (stackCmp s r == .lt) := by
  unfold Stack.less? stackCmp
  rw [histoCmp_eq_lex _ _ (by simp [histo_length])]
  cases h : lexCmp natRevCmp (histo s.calls) (histo r.calls)
  · rfl
  · have hl := length_eq_of_histo_eq _ _ (lexCmp_natRev_eq _ _ h)
    simp [framesCmp_eq_lex _ _ hl]
  · rfl

theorem stackLess_eq (s r : Stack) : Stack.less s r = (stackCmp s r == .lt) := by
  simp [Stack.less, stackLess?_eq]

/-! ### Signature.less -/

/-- three-way comparison behind `Signature.less`: stack, locked-first, state -/
def sigCmp (s r : Signature) : Ordering :=
  (stackCmp s.stack r.stack).then
    ((lockedCmp s.locked r.locked).then (bytesCmp s.state r.state))

theorem sigCmp_laws : CmpLaws sigCmp :=
  CmpLaws.then (stackCmp_laws.comap (fun s : Signature => s.stack))
    (CmpLaws.then (lockedCmp_laws.comap (fun s : Signature => s.locked))
      (bytesCmp_laws.comap (fun s : Signature => s.state)))

theorem sigLess_eq (s r : Signature) : Signature.less s r = (sigCmp s r == .lt) := by
  unfold Signature.less sigCmp
  rw [stackLess_eq, stackLess_eq, stackCmp_laws.swap s.stack r.stack]
  cases stackCmp s.stack r.stack
  · rfl
  · simp only [Ordering.swap, Ordering.then, lockedCmp, cmpOfLt, lockedLt, bytesCmp]
    have hasym : bytesLt s.state r.state = true → bytesLt r.state s.state = false := by
      intro h1
      cases h2 : bytesLt r.state s.state
      · rfl
      · have := bytesLt_trans _ _ _ h1 h2; simp [bytesLt_irrefl] at this
    cases s.locked <;> cases r.locked <;> cases h1 : bytesLt s.state r.state <;>
      cases h2 : bytesLt r.state s.state <;> simp_all
  · rfl

/-! ### stdlib-only stacks sort last -/

theorem countMain_eq_zero (cs : List Call) (h : ∀ c ∈ cs, c.fn.isPkgMain = false) :
    countMain cs = 0 := by
  simp only [countMain, List.length_eq_zero_iff, List.filter_eq_nil_iff]
  intro c hc; simp [h c hc]

theorem countLoc_eq_zero (cs : List Call) (loc : Loc) (h : ∀ c ∈ cs, c.location ≠ loc) :
    countLoc cs loc = 0 := by
  simp only [countLoc, List.length_eq_zero_iff, List.filter_eq_nil_iff]
  intro c hc; simpa using h c hc

theorem countMain_pos (cs : List Call) (c : Call) (hc : c ∈ cs) (h : c.fn.isPkgMain = true) :
    0 < countMain cs := by
  simp only [countMain, List.length_filter_pos_iff]
  exact ⟨c, hc, h⟩

theorem countLoc_pos (cs : List Call) (loc : Loc) (c : Call) (hc : c ∈ cs)
    (h : c.location = loc) : 0 < countLoc cs loc := by
  simp only [countLoc, List.length_filter_pos_iff]
  exact ⟨c, hc, by simpa using h⟩

theorem histoCmp_pos_zero (m g1 g2 g3 x y n z : Nat) (h : 0 < m ∨ 0 < g1 ∨ 0 < g2 ∨ 0 < g3) :
    histoCmp [m, g1, g2, g3, x, y] [0, 0, 0, 0, n, z] = .lt := by
  simp only [histoCmp, gt_iff_lt, Nat.not_lt_zero, if_false]
  repeat' split
  all_goals first | rfl | omega

theorem histoCmp_zero_pos (m g1 g2 g3 x y n z : Nat) (h : 0 < m ∨ 0 < g1 ∨ 0 < g2 ∨ 0 < g3) :
    histoCmp [0, 0, 0, 0, n, z] [m, g1, g2, g3, x, y] = .gt := by
  simp only [histoCmp, gt_iff_lt, Nat.not_lt_zero, if_false]
  repeat' split
  all_goals first | rfl | omega

end PP
