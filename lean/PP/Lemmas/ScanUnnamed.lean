import PP.Lemmas.ScanInv
import PP.Lemmas.ScanWF
import PP.Lemmas.NamesLemmas
/-
C15, the gate: the scanner never sets an argument name.  `parseArgs` builds scalars with
`name = []`, and no step of `scan` touches `Args.Values` of an existing call — so every
goroutine the scanner holds is `Unnamed` (stack and `created by` calls alike).
Same structure as `PP/Lemmas/ScanWF.lean`.
-/
namespace PP
open Bytes

mutual
/-- no scalar of the argument carries a name -/
def Arg.unnamed : Arg → Bool
  | .scalar n _ _ _ _ => n == []
  | .agg fs _ => Arg.unnamedL fs
def Arg.unnamedL : List Arg → Bool
  | [] => true
  | a :: as => Arg.unnamed a && Arg.unnamedL as
end

def callsUnnamed : List Call → Bool
  | [] => true
  | c :: cs => Arg.unnamedL c.args.values && callsUnnamed cs

/-- no argument of any call of the goroutine (stack and creator) carries a name -/
def Goroutine.Unnamed (g : Goroutine) : Prop :=
  callsUnnamed g.sig.stack.calls = true ∧ callsUnnamed g.sig.createdBy.calls = true

/-! ### parseArgs -/

theorem Arg.unnamedL_append (as bs : List Arg) : Arg.unnamedL (as ++ bs) = (Arg.unnamedL as && Arg.unnamedL bs) := by
  induction as with
  | nil => simp [Arg.unnamedL]
  | cons a as ih => simp [Arg.unnamedL, ih, Bool.and_assoc]

/-- every open aggregate holds well-formed values -/
def FramesU (st : List Frame) : Prop := ∀ f ∈ st, Arg.unnamedL f.1 = true

theorem framesU_pushVal (a : Arg) (st : List Frame) (ha : Arg.unnamed a = true) (h : FramesU st) :
    FramesU (pushVal a st) := by
  cases st with
  | nil => simpa [pushVal] using h
  | cons f t =>
    obtain ⟨vs, e⟩ := f
    intro f' hf'
    simp only [pushVal, List.mem_cons] at hf'
    rcases hf' with rfl | hf'
    · have := h (vs, e) (by simp)
      simp [Arg.unnamedL_append, Arg.unnamedL, ha, this]
    · exact h f' (by simp [hf'])

theorem framesU_openN (n : Nat) (st st' : List Frame) (h : FramesU st)
    (ho : argItem.openN n st = .ok st') : FramesU st' := by
  induction n generalizing st with
  | zero => simp only [argItem.openN] at ho; cases ho; exact h
  | succ n ih =>
    simp only [argItem.openN] at ho
    split at ho
    · cases ho
    · refine ih _ ?_ ho
      intro f hf
      simp only [List.mem_cons] at hf
      rcases hf with rfl | hf
      · rfl
      · exact h f hf

theorem framesU_closeN (n : Nat) (st st' : List Frame) (h : FramesU st)
    (ho : argItem.closeN n st = .ok st') : FramesU st' := by
  induction n generalizing st with
  | zero => simp only [argItem.closeN] at ho; cases ho; exact h
  | succ n ih =>
    simp only [argItem.closeN] at ho
    split at ho
    · rename_i vs e pvs pe t
      refine ih _ ?_ ho
      intro f hf
      simp only [List.mem_cons] at hf
      rcases hf with rfl | hf
      · have h1 := h (vs, e) (by simp)
        have h2 := h (pvs, pe) (by simp)
        simp only at h1 h2
        simp [Arg.unnamedL_append, Arg.unnamedL, Arg.unnamed, h1, h2]
      · exact h f (by simp [hf])
    · cases ho

theorem framesU_argItem (st st' : List Frame) (item : Bytes) (h : FramesU st)
    (ho : argItem st item = .ok st') : FramesU st' := by
  unfold argItem at ho
  dsimp only at ho
  split at ho
  · cases ho
  · rename_i st1 h1
    have hw1 := framesU_openN _ _ _ h h1
    split at ho
    · cases ho
    · rename_i st2 h2
      refine framesU_closeN _ _ _ ?_ ho
      split at h2
      · split at h2
        · split at h2
          · rename_i vs e t
            cases h2
            intro f hf
            simp only [List.mem_cons] at hf
            rcases hf with rfl | hf
            · exact hw1 (vs, e) (by simp)
            · exact hw1 f (by simp [hf])
          · cases h2; exact hw1
        · split at h2
          · cases h2
            exact framesU_pushVal _ _ (by simp [Arg.unnamed]) hw1
          · split at h2
            · cases h2
            · cases h2
              exact framesU_pushVal _ _ (by simp [Arg.unnamed]) hw1
      · cases h2; exact hw1

theorem framesU_go (items : List Bytes) (st st' : List Frame) (h : FramesU st)
    (ho : parseArgs.go items st = .ok st') : FramesU st' := by
  induction items generalizing st with
  | nil => simp only [parseArgs.go] at ho; cases ho; exact h
  | cons it rest ih =>
    simp only [parseArgs.go] at ho
    split at ho
    · cases ho
    · rename_i st1 h1
      exact ih _ (framesU_argItem _ _ _ h h1) ho

theorem parseArgs_unnamed (line : Bytes) (a : Args) (h : parseArgs line = .ok a) :
    Arg.unnamedL a.values = true := by
  unfold parseArgs at h
  dsimp only at h
  split at h
  · cases h
  · rename_i vs e hgo
    cases h
    have := framesU_go _ _ _ (by intro f hf; simp at hf; subst hf; rfl) hgo
    exact this (vs, e) (by simp)
  · cases h

/-! ### calls -/

theorem callsUnnamed_iff (cs : List Call) : callsUnnamed cs = true ↔ ∀ c ∈ cs, Arg.unnamedL c.args.values = true := by
  induction cs with
  | nil => simp [callsUnnamed]
  | cons c cs ih => simp [callsUnnamed, ih]

theorem callsUnnamed_initLast (cs : List Call) (pl : Bytes × Nat) (h : callsUnnamed cs = true) :
    callsUnnamed ((initLast cs pl).getD cs) = true := by
  unfold initLast
  split
  · simpa using h
  · rename_i c rest hr
    have hcs : cs = rest.reverse ++ [c] := by
      have := congrArg List.reverse hr
      simpa using this
    subst hcs
    rw [callsUnnamed_iff] at h ⊢
    intro c' hc'
    simp only [Option.getD_some, List.reverse_cons, List.mem_append, List.mem_reverse,
      List.mem_singleton] at hc'
    rcases hc' with hc' | rfl
    · exact h c' (by simp [hc'])
    · rw [Call.init_args]; exact h c (by simp)

theorem callsUnnamed_snoc (cs : List Call) (c : Call) (h : callsUnnamed cs = true)
    (hc : Arg.unnamedL c.args.values = true) : callsUnnamed (cs ++ [c]) = true := by
  rw [callsUnnamed_iff] at h ⊢
  intro c' hc'
  simp only [List.mem_append, List.mem_singleton] at hc'
  rcases hc' with hc' | rfl
  · exact h c' hc'
  · exact hc

/-! ### the scanner -/

def AllU (gs : List Goroutine) : Prop := ∀ g ∈ gs, g.Unnamed

/-- the calls a line carries have unnamed arguments -/
def LineU (l : Line) : Prop :=
  (∀ c e, l.func = some (c, e) → Arg.unnamedL c.args.values = true) ∧
  (∀ c e, l.funcL = some (c, e) → Arg.unnamedL c.args.values = true)

theorem allU_snoc {gs : List Goroutine} (g : Goroutine) (h : AllU gs) (hg : g.Unnamed) :
    AllU (gs ++ [g]) := by
  intro g' hg'
  simp only [List.mem_append, List.mem_singleton] at hg'
  rcases hg' with hg' | rfl
  · exact h g' hg'
  · exact hg

theorem allU_singleton (g : Goroutine) (hg : g.Unnamed) : AllU [g] := by
  intro g' hg'; simp at hg'; subst hg'; exact hg

theorem allU_modifyLast {gs gs' : List Goroutine} {f : Goroutine → Goroutine}
    (hm : modifyLast gs f = some gs') (h : AllU gs) (hf : ∀ g, g.Unnamed → (f g).Unnamed) :
    AllU gs' := by
  unfold modifyLast at hm
  split at hm
  · cases hm
  · rename_i g rest hr
    cases hm
    have hgs : gs = rest.reverse ++ [g] := by
      have := congrArg List.reverse hr
      simpa using this
    subst hgs
    intro g' hg'
    simp only [List.reverse_cons, List.mem_append, List.mem_reverse, List.mem_singleton] at hg'
    rcases hg' with hg' | rfl
    · exact h g' (by simp [hg'])
    · exact hf g (h g (by simp))

theorem allU_set {gs : List Goroutine} (i : Nat) (g : Goroutine) (h : AllU gs) (hg : g.Unnamed) :
    AllU (gs.set i g) := by
  intro g' hg'
  rcases List.mem_or_eq_of_mem_set hg' with h1 | rfl
  · exact h g' h1
  · exact hg

theorem allU_modifyAt {gs gs' : List Goroutine} {i : Nat} {f : Goroutine → Goroutine}
    (hm : modifyAt gs i f = some gs') (h : AllU gs) (hf : ∀ g, g.Unnamed → (f g).Unnamed) :
    AllU gs' := by
  unfold modifyAt at hm
  split at hm
  · cases hm
    exact allU_set _ _ h (hf _ (h _ (List.getElem_mem _)))
  · cases hm

theorem curAppendCall_allU {s s1 : S} {c : Call} (h : curAppendCall s c = .ok s1) (hs : AllU s.gs)
    (hc : Arg.unnamedL c.args.values = true) : AllU s1.gs := by
  unfold curAppendCall at h
  split at h
  · cases h
  · rename_i gs' hm
    cases h
    refine allU_modifyLast hm hs ?_
    intro g hg
    exact ⟨callsUnnamed_snoc _ _ hg.1 hc, hg.2⟩

theorem funcStep_allU {s s' : S} {r : Option (Call × Option Err)} {next : St} {orElse : R} {p e}
    (h : funcStep s r next orElse = .ok (s', p, e)) (hs : AllU s.gs)
    (hr : ∀ c e, r = some (c, e) → Arg.unnamedL c.args.values = true)
    (hor : orElse = .ok (s', p, e) → AllU s'.gs) : AllU s'.gs := by
  unfold funcStep at h
  split at h
  · rename_i c e1
    split at h
    · cases h
    · rename_i s1 h1
      cases h
      exact (curAppendCall_allU h1 hs (hr c _ rfl) : AllU s1.gs)
  · exact hor h

theorem createdStep_allU {s s' : S} {r : Except Err Func} {b : Bool} {p e}
    (h : createdStep s r b = .ok (s', p, e)) (hs : AllU s.gs) : AllU s'.gs := by
  unfold createdStep at h
  split at h
  · dsimp only at h
    split at h
    · cases h
    · cases h
      refine allU_modifyLast ‹modifyLast _ _ = some _› hs ?_
      intro g hg
      refine ⟨hg.1, ?_⟩
      cases b <;> simp [setCreated, callsUnnamed, Call.init_args, Arg.unnamedL]
  · split at h
    · cases h
    · cases h
      refine allU_modifyLast ‹modifyLast _ _ = some _› hs ?_
      intro g hg; exact ⟨hg.1, rfl⟩

theorem scan_allU (s : S) (l : Line) (s' : S) (p : Bool) (e : Option Err)
    (hs : AllU s.gs) (hl : LineU l) (h : scan s l = .ok (s', p, e)) : AllU s'.gs := by
  unfold scan at h
  repeat' split at h
  all_goals (try dsimp only at h)
  repeat' split at h
  all_goals (try cases h)
  all_goals (try exact hs)
  all_goals first
    | exact allU_snoc _ hs ⟨rfl, rfl⟩
    | exact allU_singleton _ ⟨rfl, rfl⟩
    | exact createdStep_allU h hs
    | exact funcStep_allU h hs hl.1 (fun h => by cases h; exact hs)
    | exact funcStep_allU h hs hl.2 (fun h => by cases h; exact hs)
    | (refine allU_modifyLast ‹modifyLast _ _ = some _› hs ?_; intro g hg
       first | exact hg | exact ⟨rfl, hg.2⟩ | exact ⟨callsUnnamed_initLast _ _ hg.1, hg.2⟩
             | (refine ⟨hg.1, ?_⟩
                have h2 := hg.2
                simp only [setCreated]
                cases hc : g.sig.createdBy.calls with
                | nil => rfl
                | cons c cs =>
                  rw [hc] at h2
                  simp only [callsUnnamed, Bool.and_eq_true] at h2 ⊢
                  rw [Call.init_args]; exact h2))
    | (refine allU_modifyAt ‹modifyAt _ _ _ = some _› hs ?_; intro g hg
       first | exact hg | exact ⟨hg.1, callsUnnamed_snoc _ _ hg.2 (hl.2 _ _ ‹_›)⟩)
    | (refine allU_set _ _ hs ?_
       have hg := hs _ (List.getElem_mem ‹s.gi < s.gs.length›)
       exact ⟨hg.1, callsUnnamed_initLast _ _ hg.2⟩)

theorem parseFunc_unnamed (line : Bytes) (c : Call) (e : Option Err) (h : parseFunc line = some (c, e)) :
    Arg.unnamedL c.args.values = true := by
  unfold parseFunc at h
  split at h
  · cases h
  · split at h
    · cases h; rfl
    · dsimp only at h
      split at h
      · cases h; rfl
      · rename_i a ha
        cases h
        exact parseArgs_unnamed _ _ ha

theorem classify_lineU (pfx raw : Bytes) : LineU (classify pfx raw) := by
  unfold classify
  exact ⟨fun c e h => parseFunc_unnamed _ c e h, fun c e h => parseFunc_unnamed _ c e h⟩

theorem scanBytes_allU (s : S) (raw : Bytes) (s' : S) (p : Bool) (e : Option Err)
    (hs : AllU s.gs) (h : scanBytes s raw = .ok (s', p, e)) : AllU s'.gs :=
  scan_allU s _ s' p e hs (classify_lineU _ _) h

/-! ### unnamed arguments are fixed points of `eraseName` -/

mutual
theorem Arg.eraseName_unnamed : ∀ a : Arg, Arg.unnamed a = true → Arg.eraseName a = a
  | .scalar n v p o i, h => by
    simp only [Arg.unnamed, beq_iff_eq] at h
    subst h
    simp [Arg.eraseName]
  | .agg fs e, h => by
    simp only [Arg.unnamed] at h
    simp [Arg.eraseName, Arg.eraseNameL_unnamed fs h]
theorem Arg.eraseNameL_unnamed : ∀ l : List Arg, Arg.unnamedL l = true → Arg.eraseNameL l = l
  | [], _ => by simp [Arg.eraseNameL]
  | a :: as, h => by
    simp only [Arg.unnamedL, Bool.and_eq_true] at h
    simp [Arg.eraseNameL, Arg.eraseName_unnamed a h.1, Arg.eraseNameL_unnamed as h.2]
end

theorem calls_eraseNames_unnamed (cs : List Call) (h : callsUnnamed cs = true) :
    cs.map Call.eraseNames = cs := by
  induction cs with
  | nil => rfl
  | cons c cs ih =>
    simp only [callsUnnamed, Bool.and_eq_true] at h
    simp only [List.map_cons, ih h.2, Call.eraseNames, Arg.eraseNameL_unnamed _ h.1]

theorem Goroutine.eraseNames_unnamed (g : Goroutine) (h : g.Unnamed) : Goroutine.eraseNames g = g := by
  simp only [Goroutine.eraseNames, calls_eraseNames_unnamed _ h.1]

end PP
