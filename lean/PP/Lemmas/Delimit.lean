import PP.Lemmas.LoopLemmas
import PP.Lemmas.ScanInv
/-
Helper lemmas for C07, part 2 (locality and resumption of the line-level loop `scanL`).
Nothing here depends on what the classifiers recognise: the lemmas hold for arbitrary bytes.
-/
namespace PP

/-! ### text before a dump -/

/-- an item that cannot start a dump: the line is neither a goroutine header nor a race
separator (seen from the initial state, i.e. with the empty prefix), and no reader error -/
def NoStart (p : Bytes × Option RErr) : Prop := Plain p.1 ∧ p.2 = none

/-- plain items in front of anything are forwarded and leave the scanner untouched -/
theorem scanL_plain_prefix (s : S) (hs : s.st = .looking) (hp : s.pfx = []) (fwd : Bytes)
    (cons : List Bytes) (pre rest : List (Bytes × Option RErr)) (h : ∀ p ∈ pre, NoStart p) :
    scanL s fwd cons (pre ++ rest) = scanL s (fwd ++ itemsBytes pre) cons rest := by
  have hnd : ¬ (s.st == .done) = true := by simp [hs]
  induction pre generalizing fwd with
  | nil => simp
  | cons x pre ih =>
    obtain ⟨d, e⟩ := x
    obtain ⟨hpl, he⟩ := h (d, e) (by simp)
    simp only at he hpl
    subst he
    have h' : ∀ p ∈ pre, NoStart p := fun p hp' => h p (by simp [hp'])
    rw [List.cons_append, scanL_cons, if_neg hnd]
    by_cases hlen : (d.length != 0) = true
    · rw [if_pos hlen, scanBytes_plain s d hs hp hpl]
      simp only [hs, combineErr]
      simp only [Bool.not_false, if_true, bne_self_eq_false, Bool.false_eq_true, if_false,
        Option.isSome_none]
      rw [ih _ h', itemsBytes_cons, List.append_assoc]
    · rw [if_neg hlen]
      have := length_eq_nil hlen
      subst this
      simp only
      rw [ih _ h']
      simp

/-! ### everything after the line that stops the loop is handed back untouched -/

/-- the loop ended before its input was exhausted, or in a way that does not depend on further
input: it broke, reported an error, panicked, left items, or is in state `done` -/
def OutL.stopped (o : OutL) : Bool :=
  o.broke || o.err.isSome || o.panicked.isSome || !o.rest.isEmpty || o.s.st == .done

/-- the loop over `xs ++ ys`: if it stops inside `xs`, `ys` is appended to `rest` untouched;
otherwise it goes on over `ys` from where it got -/
theorem scanL_append (s : S) (fwd : Bytes) (cons : List Bytes) (xs ys : List (Bytes × Option RErr)) :
    scanL s fwd cons (xs ++ ys) =
      if (scanL s fwd cons xs).stopped then
        { scanL s fwd cons xs with rest := (scanL s fwd cons xs).rest ++ ys }
      else scanL (scanL s fwd cons xs).s (scanL s fwd cons xs).fwd (scanL s fwd cons xs).consumed ys := by
  induction xs generalizing s fwd cons with
  | nil =>
    by_cases hd : (s.st == .done) = true
    · rw [List.nil_append, scanL_done _ _ _ ys hd]
      simp [scanL, OutL.stopped, hd]
    · simp [scanL, OutL.stopped, hd]
  | cons x xs ih =>
    obtain ⟨d, e⟩ := x
    rw [List.cons_append, scanL_cons, scanL_cons]
    by_cases hd : (s.st == .done) = true
    · rw [if_pos hd, if_pos hd]; simp [OutL.stopped]
    · rw [if_neg hd, if_neg hd]
      by_cases hlen : (d.length != 0) = true
      · rw [if_pos hlen, if_pos hlen]
        cases hsc : scanBytes s d with
        | error p => simp [OutL.stopped]
        | ok v =>
          obtain ⟨s', l, e1⟩ := v
          dsimp only
          cases l with
          | false =>
            simp only [Bool.not_false, if_true]
            by_cases hlk : (s'.st != .looking) = true
            · rw [if_pos hlk, if_pos hlk]; simp [OutL.stopped]
            · rw [if_neg hlk, if_neg hlk]
              by_cases herr : (combineErr e e1).isSome = true
              · rw [if_pos herr, if_pos herr]; simp [OutL.stopped, herr]
              · rw [if_neg herr, if_neg herr]; exact ih _ _ _
          | true =>
            simp only [Bool.not_true, Bool.false_eq_true, if_false]
            by_cases herr : (combineErr e e1).isSome = true
            · rw [if_pos herr, if_pos herr]; simp [OutL.stopped, herr]
            · rw [if_neg herr, if_neg herr]; exact ih _ _ _
      · rw [if_neg hlen, if_neg hlen]
        cases e with
        | some r => simp [OutL.stopped]
        | none => exact ih _ _ _

/-- the accumulators `fwd` and `consumed` are only appended to; nothing else depends on them -/
theorem scanL_acc (s : S) (fwd : Bytes) (cons : List Bytes) (items : List (Bytes × Option RErr)) :
    scanL s fwd cons items =
      { scanL s [] [] items with
        fwd := fwd ++ (scanL s [] [] items).fwd, consumed := cons ++ (scanL s [] [] items).consumed } := by
  induction items generalizing s fwd cons with
  | nil => simp [scanL]
  | cons x items ih =>
    obtain ⟨d, e⟩ := x
    rw [scanL_cons, scanL_cons]
    by_cases hd : (s.st == .done) = true
    · rw [if_pos hd, if_pos hd]; simp
    · rw [if_neg hd, if_neg hd]
      by_cases hlen : (d.length != 0) = true
      · rw [if_pos hlen, if_pos hlen]
        cases hsc : scanBytes s d with
        | error p => simp
        | ok v =>
          obtain ⟨s', l, e1⟩ := v
          dsimp only
          cases l with
          | false =>
            simp only [Bool.not_false, if_true]
            by_cases hlk : (s'.st != .looking) = true
            · rw [if_pos hlk, if_pos hlk]; simp
            · rw [if_neg hlk, if_neg hlk]
              by_cases herr : (combineErr e e1).isSome = true
              · rw [if_pos herr, if_pos herr]; simp
              · rw [if_neg herr, if_neg herr]
                rw [ih s' (fwd ++ d) cons, ih s' ([] ++ d) []]
                simp
          | true =>
            simp only [Bool.not_true, Bool.false_eq_true, if_false]
            by_cases herr : (combineErr e e1).isSome = true
            · rw [if_pos herr, if_pos herr]; simp
            · rw [if_neg herr, if_neg herr]
              rw [ih s' fwd (cons ++ [d]), ih s' [] ([] ++ [d])]
              simp
      · rw [if_neg hlen, if_neg hlen]
        cases e with
        | some r => simp
        | none => exact ih _ _ _

/-! ### `rest` is a suffix of the input; progress from the initial state -/

theorem scanL_rest_suffix (s : S) (fwd : Bytes) (cons : List Bytes) (items : List (Bytes × Option RErr)) :
    ∃ pre, items = pre ++ (scanL s fwd cons items).rest := by
  fun_induction scanL s fwd cons items
  case case1 => exact ⟨[], rfl⟩
  case case2 => exact ⟨[], rfl⟩
  case case3 => exact ⟨[], rfl⟩
  case case4 => exact ⟨[], rfl⟩
  case case5 d e _ _ _ _ _ _ _ _ _ _ _ => exact ⟨[(d, e)], rfl⟩
  case case6 d e _ _ _ _ _ _ _ _ _ _ _ ih =>
    obtain ⟨pre, h⟩ := ih
    exact ⟨(d, e) :: pre, by rw [List.cons_append, ← h]⟩
  case case7 d e _ _ _ _ _ _ _ _ _ _ => exact ⟨[(d, e)], rfl⟩
  case case8 d e _ _ _ _ _ _ _ _ _ _ ih =>
    obtain ⟨pre, h⟩ := ih
    exact ⟨(d, e) :: pre, by rw [List.cons_append, ← h]⟩
  case case9 d _ _ _ r => exact ⟨[(d, some r)], rfl⟩
  case case10 d _ _ _ ih =>
    obtain ⟨pre, h⟩ := ih
    exact ⟨(d, none) :: pre, by rw [List.cons_append, ← h]⟩

theorem scanL_rest_le (s : S) (fwd : Bytes) (cons : List Bytes) (items : List (Bytes × Option RErr)) :
    (scanL s fwd cons items).rest.length ≤ items.length := by
  obtain ⟨pre, h⟩ := scanL_rest_suffix s fwd cons items
  have := congrArg List.length h
  simp at this
  omega

/-- from `looking` a line is either withheld without error or forwarded without any effect -/
theorem scan_looking_cases (s : S) (l : Line) (hs : s.st = .looking) (hi : l.indentOK = true) :
    (∃ s', scan s l = .ok (s', true, none)) ∨ scan s l = .ok (s, false, none) := by
  unfold scan
  simp only [hs, hi]
  cases l.hasEOL <;> cases l.header <;> cases l.sep <;> simp

/-- **progress**: from the initial state the first item is never handed back: it is withheld,
forwarded, or (empty read) skipped -/
theorem scanL_first_not_rest (s : S) (hs : s.st = .looking) (hp : s.pfx = []) (fwd : Bytes)
    (cons : List Bytes) (x : Bytes × Option RErr) (xs : List (Bytes × Option RErr)) :
    (scanL s fwd cons (x :: xs)).rest.length ≤ xs.length := by
  obtain ⟨d, e⟩ := x
  have hnd : ¬ (s.st == .done) = true := by simp [hs]
  rw [scanL_cons, if_neg hnd]
  by_cases hlen : (d.length != 0) = true
  · rw [if_pos hlen]
    unfold scanBytes
    rcases scan_looking_cases s (classify s.pfx d) hs (by rw [hp]; exact classify_nil_indentOK d) with
      ⟨s', h⟩ | h
    · rw [h]
      dsimp only
      simp only [Bool.not_true, Bool.false_eq_true, if_false]
      split
      · exact Nat.le_refl _
      · exact scanL_rest_le _ _ _ _
    · rw [h]
      dsimp only
      simp only [Bool.not_false, if_true, hs, bne_self_eq_false, Bool.false_eq_true, if_false]
      split
      · exact Nat.le_refl _
      · exact scanL_rest_le _ _ _ _
  · rw [if_neg hlen]
    cases e with
    | some r => exact Nat.le_refl _
    | none => exact scanL_rest_le _ _ _ _

/-! ### a remainder that starts at a line boundary re-splits into the same items -/

/-- `items` is a canonical split: complete lines without error, then the unterminated tail
with the terminal error -/
def IsSpec (items : List (Bytes × Option RErr)) (fin : RErr) : Prop :=
  ∃ (ls : List Bytes) (t : Bytes), items = ls.map (fun l => (l, (none : Option RErr))) ++ [(t, some fin)] ∧
    (∀ l ∈ ls, ∃ p, (10 : UInt8) ∉ p ∧ l = p ++ [10]) ∧ (10 : UInt8) ∉ t

theorem isSpec_specLines (bs : Bytes) (fin : RErr) : IsSpec (specLines bs fin) fin :=
  ⟨(splitLines bs).1, (splitLines bs).2, rfl, splitLines_lines bs, splitLines_tail_noNL bs⟩

theorem splitLines_of_lines (ls : List Bytes) (t : Bytes)
    (hl : ∀ l ∈ ls, ∃ p, (10 : UInt8) ∉ p ∧ l = p ++ [10]) (ht : (10 : UInt8) ∉ t) :
    splitLines (ls.flatten ++ t) = (ls, t) := by
  induction ls with
  | nil =>
    simp only [List.flatten_nil, List.nil_append]
    exact splitLines_of_cutNL_none ((cutNL_none_iff t).2 ht)
  | cons l ls ih =>
    obtain ⟨p, hp, rfl⟩ := hl l (by simp)
    have ih' := ih (fun l hl' => hl l (by simp [hl']))
    rw [List.flatten_cons, List.append_assoc, splitLines_line_append p _ hp, ih']

theorem specLines_of_isSpec (items : List (Bytes × Option RErr)) (fin : RErr) (h : IsSpec items fin) :
    specLines (itemsBytes items) fin = items := by
  obtain ⟨ls, t, rfl, hl, ht⟩ := h
  rw [itemsBytes_append, itemsBytes_map_none]
  simp only [itemsBytes_cons, itemsBytes_nil, List.append_nil]
  simp only [specLines]
  rw [splitLines_of_lines ls t hl ht]

theorem isSpec_suffix (xs ys : List (Bytes × Option RErr)) (fin : RErr) (h : IsSpec (xs ++ ys) fin)
    (hy : ys ≠ []) : IsSpec ys fin := by
  induction xs with
  | nil => simpa using h
  | cons x xs ih =>
    apply ih
    obtain ⟨ls, t, heq, hl, ht⟩ := h
    cases ls with
    | nil =>
      simp at heq
      exact absurd heq.2.2 hy
    | cons l ls =>
      simp only [List.map_cons, List.cons_append, List.cons.injEq] at heq
      exact ⟨ls, t, heq.2, fun l' hl' => hl l' (by simp [hl']), ht⟩

/-! ### repeated scanning -/

/-- the resumption protocol at line level: scan from the initial state; when the call returns
without error (and without panic), scan again what it handed back.  Each entry is the input of
a call and its result.  `MultiReader(suffix, unread input)` re-splits into `o.rest`
(`specLines_suffix`, `scanSnapshot_eq_L`). -/
def scanAll : Nat → List (Bytes × Option RErr) → List (List (Bytes × Option RErr) × OutL)
  | 0, _ => []
  | n + 1, items =>
    let o := scanL {} [] [] items
    if o.err.isNone && o.panicked.isNone then (items, o) :: scanAll n o.rest else [(items, o)]

/-- the bytes processed (forwarded or withheld) by the calls, in order -/
def tiles (calls : List (List (Bytes × Option RErr) × OutL)) : Bytes :=
  calls.flatMap (fun c => (trace {} c.1).flatMap (·.2))

/-- what the last call handed back (the whole input if there was no call) -/
def remaining (calls : List (List (Bytes × Option RErr) × OutL)) (items : List (Bytes × Option RErr)) :
    List (Bytes × Option RErr) :=
  match calls.getLast? with
  | none => items
  | some c => c.2.rest

theorem remaining_cons (c : List (Bytes × Option RErr) × OutL) (cs) (items : List (Bytes × Option RErr)) :
    remaining (c :: cs) items = remaining cs c.2.rest := by
  cases cs with
  | nil => rfl
  | cons c' cs =>
    simp only [remaining, List.getLast?_cons_cons]
    cases h : (c' :: cs).getLast? with
    | none => simp at h
    | some x => rfl

theorem scanAll_succ (n : Nat) (items : List (Bytes × Option RErr)) :
    scanAll (n + 1) items =
      if (scanL {} [] [] items).err.isNone && (scanL {} [] [] items).panicked.isNone then
        (items, scanL {} [] [] items) :: scanAll n (scanL {} [] [] items).rest
      else [(items, scanL {} [] [] items)] := rfl

theorem combineErr_some' (r : RErr) (e1 : Option Err) : (combineErr (some r) e1).isSome = true := by
  cases e1 <;> cases r <;> rfl

/-- a call on items whose last one carries the terminal error reports an error, panics, or
hands that last item back -/
theorem scanL_last_err (s : S) (fwd : Bytes) (cons : List Bytes) (init : List (Bytes × Option RErr))
    (t : Bytes) (r : RErr) :
    (scanL s fwd cons (init ++ [(t, some r)])).err.isSome = true ∨
    (scanL s fwd cons (init ++ [(t, some r)])).panicked.isSome = true ∨
    ∃ init', (scanL s fwd cons (init ++ [(t, some r)])).rest = init' ++ [(t, some r)] := by
  generalize hi : init ++ [(t, some r)] = items
  fun_induction scanL s fwd cons items generalizing init
  case case1 => simp at hi
  case case2 d e items _ => exact Or.inr (Or.inr ⟨init, hi.symm⟩)
  case case3 => exact Or.inr (Or.inl rfl)
  case case4 d e items _ _ _ _ _ _ _ _ _ => exact Or.inr (Or.inr ⟨init, hi.symm⟩)
  case case5 h => exact Or.inl h
  case case6 d e items _ _ s' l e1 _ _ _ _ herr ih =>
    cases init with
    | nil =>
      simp at hi
      obtain ⟨⟨rfl, rfl⟩, rfl⟩ := hi
      exact absurd (combineErr_some' r e1) herr
    | cons x init =>
      simp at hi
      exact ih init hi.2
  case case7 h => exact Or.inl h
  case case8 d e items _ _ s' l e1 _ _ _ herr ih =>
    cases init with
    | nil =>
      simp at hi
      obtain ⟨⟨rfl, rfl⟩, rfl⟩ := hi
      exact absurd (combineErr_some' r e1) herr
    | cons x init =>
      simp at hi
      exact ih init hi.2
  case case9 => exact Or.inl rfl
  case case10 d items _ _ ih =>
    cases init with
    | nil => simp at hi
    | cons x init =>
      simp at hi
      exact ih init hi.2

theorem tiles_cons (c : List (Bytes × Option RErr) × OutL) (cs) :
    tiles (c :: cs) = (trace {} c.1).flatMap (·.2) ++ tiles cs := by
  simp [tiles]

/-- conservation (as `PP.conservation` in `PP.Props.C02`) -/
theorem trace_conservation (s : S) (fwd : Bytes) (cons : List Bytes) (items : List (Bytes × Option RErr)) :
    (trace s items).flatMap (·.2) ++ itemsBytes (scanL s fwd cons items).rest = itemsBytes items := by
  obtain ⟨_, _, h3⟩ := scanL_traceL s fwd cons items
  unfold trace
  rw [← bytesOf_eq]
  exact h3

/-- the calls tile the input: processed bytes of every call, in order, then what the last call
handed back -/
theorem scanAll_tiles (n : Nat) (items : List (Bytes × Option RErr)) :
    tiles (scanAll n items) ++ itemsBytes (remaining (scanAll n items) items) = itemsBytes items := by
  induction n generalizing items with
  | zero => simp [scanAll, tiles, remaining]
  | succ n ih =>
    rw [scanAll_succ]
    split
    · rw [remaining_cons, tiles_cons, List.append_assoc, ih]
      exact trace_conservation _ _ _ _
    · rw [remaining_cons, tiles_cons]
      simp only [tiles, remaining, List.flatMap_nil, List.getLast?_nil, List.append_nil]
      exact trace_conservation _ _ _ _

/-- each call scans what the previous one handed back -/
theorem scanAll_chain (n : Nat) (items : List (Bytes × Option RErr)) :
    (∀ c ∈ scanAll n items, c.2 = scanL {} [] [] c.1) ∧
    (∀ c t, scanAll n items = c :: t → c.1 = items) ∧
    (∀ t1 c1 c2 t2, scanAll n items = t1 ++ c1 :: c2 :: t2 → c2.1 = c1.2.rest ∧
      c1.2.err = none ∧ c1.2.panicked = none) := by
  induction n generalizing items with
  | zero => simp [scanAll]
  | succ n ih =>
    rw [scanAll_succ]
    split
    · rename_i hc
      obtain ⟨i1, i2, i3⟩ := ih (scanL {} [] [] items).rest
      refine ⟨?_, ?_, ?_⟩
      · intro c hc'
        simp only [List.mem_cons] at hc'
        rcases hc' with rfl | hc'
        · rfl
        · exact i1 c hc'
      · intro c t h; simp at h; rw [← h.1]
      · intro t1 c1 c2 t2 h
        cases t1 with
        | nil =>
          simp only [List.nil_append, List.cons.injEq] at h
          obtain ⟨rfl, h2⟩ := h
          simp only [Bool.and_eq_true, Option.isNone_iff_eq_none] at hc
          exact ⟨i2 c2 t2 h2, hc.1, hc.2⟩
        | cons x t1 =>
          simp only [List.cons_append, List.cons.injEq] at h
          exact i3 t1 c1 c2 t2 h.2
    · refine ⟨?_, ?_, ?_⟩
      · intro c hc'; simp at hc'; rw [hc']
      · intro c t h; simp at h; rw [← h.1]
      · intro t1 c1 c2 t2 h
        have := congrArg List.length h
        simp at this
        omega

/-- **progress**: a call from the initial state never hands back its first item, so what it
hands back is strictly shorter than what it was given -/
theorem scanL_init_progress (fwd : Bytes) (cons : List Bytes) (items : List (Bytes × Option RErr))
    (hne : items ≠ []) : (scanL {} fwd cons items).rest.length < items.length := by
  cases items with
  | nil => exact absurd rfl hne
  | cons x xs =>
    have := scanL_first_not_rest {} rfl rfl fwd cons x xs
    simp only [List.length_cons]
    omega

/-- **termination**: on items that end with the item carrying the terminal error, repeated
scanning reaches a call that reports an error (or panics) within `length` calls -/
theorem scanAll_terminates (n : Nat) (init : List (Bytes × Option RErr)) (t : Bytes) (r : RErr)
    (hn : (init ++ [(t, some r)]).length ≤ n) :
    ∃ cs c, scanAll n (init ++ [(t, some r)]) = cs ++ [c] ∧
      (c.2.err.isSome = true ∨ c.2.panicked.isSome = true) := by
  induction n generalizing init with
  | zero => simp at hn
  | succ n ih =>
    rw [scanAll_succ]
    by_cases hc : ((scanL {} [] [] (init ++ [(t, some r)])).err.isNone &&
        (scanL {} [] [] (init ++ [(t, some r)])).panicked.isNone) = true
    · rw [if_pos hc]
      have hc' := hc
      simp only [Bool.and_eq_true, Option.isNone_iff_eq_none] at hc'
      rcases scanL_last_err {} [] [] init t r with h | h | ⟨init', h⟩
      · rw [hc'.1] at h; simp at h
      · rw [hc'.2] at h; simp at h
      · have hp := scanL_init_progress [] [] (init ++ [(t, some r)]) (by simp)
        rw [h] at hp ⊢
        obtain ⟨cs, c, h1, h2⟩ := ih init' (by omega)
        exact ⟨_ :: cs, c, by rw [h1]; rfl, h2⟩
    · rw [if_neg hc]
      refine ⟨[], _, rfl, ?_⟩
      cases he : (scanL {} [] [] (init ++ [(t, some r)])).err with
      | some x => exact Or.inl rfl
      | none =>
        cases hp : (scanL {} [] [] (init ++ [(t, some r)])).panicked with
        | some x => exact Or.inr rfl
        | none => simp [he, hp] at hc

/-! ### no panic from the initial state (with the invariant of `PP.Lemmas.ScanInv`) -/

theorem scanBytes_inv_ok {s s' : S} {d : Bytes} {l : Bool} {e1 : Option Err} (h : Inv s)
    (hsc : scanBytes s d = .ok (s', l, e1)) : Inv s' := by
  obtain ⟨s2, p2, e2, h1, h2⟩ := scan_stepOK s (classify s.pfx d) h
  unfold scanBytes at hsc
  rw [h1] at hsc
  simp only [Except.ok.injEq, Prod.mk.injEq] at hsc
  rw [← hsc.1]
  exact h2

theorem scanBytes_inv_ne_error {s : S} {d : Bytes} {p : Panic} (h : Inv s) :
    scanBytes s d ≠ .error p := by
  obtain ⟨s2, p2, e2, h1, h2⟩ := scan_stepOK s (classify s.pfx d) h
  unfold scanBytes
  rw [h1]
  simp

theorem scanL_inv_no_panic (s : S) (fwd : Bytes) (cons : List Bytes) (items : List (Bytes × Option RErr))
    (h : Inv s) : (scanL s fwd cons items).panicked = none ∧ Inv (scanL s fwd cons items).s := by
  fun_induction scanL s fwd cons items
  case case1 => exact ⟨rfl, h⟩
  case case2 => exact ⟨rfl, h⟩
  case case3 hsc => exact absurd hsc (scanBytes_inv_ne_error h)
  case case4 hsc _ _ _ => exact ⟨rfl, scanBytes_inv_ok h hsc⟩
  case case5 hsc _ _ _ _ => exact ⟨rfl, scanBytes_inv_ok h hsc⟩
  case case6 hsc _ _ _ _ ih => exact ih (scanBytes_inv_ok h hsc)
  case case7 hsc _ _ _ => exact ⟨rfl, scanBytes_inv_ok h hsc⟩
  case case8 hsc _ _ _ ih => exact ih (scanBytes_inv_ok h hsc)
  case case9 => exact ⟨rfl, h⟩
  case case10 ih => exact ih h

theorem inv_init_C07 : Inv ({} : S) := ⟨rfl, firstOK_nil⟩

theorem scanL_init_no_panic (fwd : Bytes) (cons : List Bytes) (items : List (Bytes × Option RErr)) :
    (scanL {} fwd cons items).panicked = none :=
  (scanL_inv_no_panic {} fwd cons items inv_init_C07).1

/-! ### a clean end leaves the goroutines as they were before the terminating line -/

/-- a line that is not processed and raises no error changes at most the state enum and the prefix -/
theorem scan_false_none {s s' : S} {l : Line} (h : scan s l = .ok (s', false, none)) :
    s' = s ∨ s' = { s with st := .done } ∨ s' = { s with st := .looking, pfx := [] } := by
  unfold scan at h
  split at h
  · simp at h; exact Or.inl h.symm
  split at h
  · simp at h
  split at h
  all_goals ((try simp only [funcStep, createdStep, curAppendCall] at h); (repeat' (split at h)))
  all_goals (try (simp at h; done))
  all_goals (try (simp at h; subst h; simp; done))
  all_goals (try (simp at h; obtain ⟨_, h1, h2⟩ := h; rw [h2] at h1; simp at h1; done))
  all_goals (rename_i hq; subst h; (try simp only [*] at hq); (repeat' (split at hq)))
  all_goals (try (simp at hq; done))

theorem scan_false_none_gs {s s' : S} {l : Line} (h : scan s l = .ok (s', false, none)) :
    s'.gs = s.gs := by
  rcases scan_false_none h with rfl | rfl | rfl <;> rfl

theorem combineErr_eq_none {e : Option RErr} {e1 : Option Err} (h : combineErr e e1 = none) :
    e = none ∧ e1 = none := by
  cases e1 <;> cases e <;> simp [combineErr] at h ⊢
  rename_i a b; cases b <;> simp at h

theorem scanL_single_clean (s : S) (fwd : Bytes) (cons : List Bytes) (x : Bytes × Option RErr)
    (h1 : (scanL s fwd cons [x]).rest = [x]) (h2 : (scanL s fwd cons [x]).err = none) :
    (scanL s fwd cons [x]).s.gs = s.gs := by
  generalize hi : [x] = items at h1 h2 ⊢
  fun_induction scanL s fwd cons items
  case case1 => simp at hi
  case case2 => rfl
  case case3 => rfl
  case case4 d e items _ _ s' l e1 hsc _ hl _ =>
    simp only at h2 ⊢
    obtain ⟨_, rfl⟩ := combineErr_eq_none h2
    simp at hl
    subst hl
    exact scan_false_none_gs hsc
  case case5 herr => simp only at h2; rw [h2] at herr; simp at herr
  case case6 =>
    simp only [List.cons.injEq] at hi
    obtain ⟨rfl, rfl⟩ := hi
    simp [scanL] at h1
  case case7 herr => simp only at h2; rw [h2] at herr; simp at herr
  case case8 =>
    simp only [List.cons.injEq] at hi
    obtain ⟨rfl, rfl⟩ := hi
    simp [scanL] at h1
  case case9 => simp at h2
  case case10 =>
    simp only [List.cons.injEq] at hi
    obtain ⟨rfl, rfl⟩ := hi
    simp [scanL] at h1

/-- when the loop over `d ++ [t]` hands exactly `t` back without error, the goroutines are those
found in `d` alone: the terminating line contributes nothing -/
theorem scanL_clean_end_gs (s : S) (fwd : Bytes) (cons : List Bytes) (d : List (Bytes × Option RErr))
    (t : Bytes × Option RErr) (h1 : (scanL s fwd cons (d ++ [t])).rest = [t])
    (h2 : (scanL s fwd cons (d ++ [t])).err = none) :
    (scanL s fwd cons (d ++ [t])).s.gs = (scanL s fwd cons d).s.gs := by
  rw [scanL_append] at h1 h2 ⊢
  by_cases hst : (scanL s fwd cons d).stopped = true
  · rw [if_pos hst]
  · rw [if_neg hst] at h1 h2 ⊢
    exact scanL_single_clean _ _ _ _ h1 h2

/-! ### locality -/

/-- a dump is scanned the same way wherever it is in a stream: `pre` is forwarded, the scan of
`d` up to its terminating line `t` is what it is without `pre` and `post`, and `t :: post` is
handed back -/
theorem scanL_locality (pre d post : List (Bytes × Option RErr)) (t : Bytes × Option RErr)
    (hpre : ∀ p ∈ pre, NoStart p) (hd : (scanL {} [] [] (d ++ [t])).rest = [t]) :
    scanL {} [] [] (pre ++ d ++ t :: post) =
      { scanL {} [] [] (d ++ [t]) with
        fwd := itemsBytes pre ++ (scanL {} [] [] (d ++ [t])).fwd, rest := t :: post } := by
  have e1 : pre ++ d ++ t :: post = pre ++ ((d ++ [t]) ++ post) := by simp
  have hst : (scanL {} [] [] (d ++ [t])).stopped = true := by simp [OutL.stopped, hd]
  rw [e1, scanL_plain_prefix {} rfl rfl [] [] pre _ hpre, scanL_acc, scanL_append, if_pos hst, hd]
  simp

/-! ### several dumps -/

/-- `Blocks items outs`: `items` is `pre₁ ++ d₁ ++ t₁ :: …` where each `preᵢ` starts no dump,
each `dᵢ` scanned alone up to its terminating line `tᵢ` hands `tᵢ` back without error; the next
block begins at `tᵢ`.  `outs` are the results of scanning each `dᵢ ++ [tᵢ]` alone, relocated. -/
inductive Blocks : List (Bytes × Option RErr) → List OutL → Prop
  | nil (items : List (Bytes × Option RErr)) : Blocks items []
  | cons (pre d post : List (Bytes × Option RErr)) (t : Bytes × Option RErr) (outs : List OutL) :
      (∀ p ∈ pre, NoStart p) →
      (scanL {} [] [] (d ++ [t])).rest = [t] → (scanL {} [] [] (d ++ [t])).err = none →
      Blocks (t :: post) outs →
      Blocks (pre ++ d ++ t :: post)
        ({ scanL {} [] [] (d ++ [t]) with
            fwd := itemsBytes pre ++ (scanL {} [] [] (d ++ [t])).fwd, rest := t :: post } :: outs)

/-- repeated scanning finds the blocks one by one -/
theorem scanAll_blocks_aux (items : List (Bytes × Option RErr)) (outs : List OutL) (h : Blocks items outs) :
    (scanAll outs.length items).map (·.2) = outs := by
  induction h with
  | nil items => rfl
  | cons pre d post t outs hpre hrest herr _ ih =>
    rw [List.length_cons, scanAll_succ, scanL_locality pre d post t hpre hrest]
    have hp := scanL_init_no_panic [] [] (d ++ [t])
    simp only [herr, hp, Option.isNone_none, Bool.and_self, if_true, List.map_cons, ih]

/-! ### resumption at the level of `ScanSnapshot` -/

theorem specLines_resplit (bs : Bytes) (fin : RErr) (xs ys : List (Bytes × Option RErr))
    (h : specLines bs fin = xs ++ ys) (hy : ys ≠ []) : specLines (itemsBytes ys) fin = ys :=
  specLines_of_isSpec ys fin (isSpec_suffix xs ys fin (h ▸ isSpec_specLines bs fin) hy)

/-- the result of `ScanSnapshot` computed from the outcome of the loop (the body of `scanSnapshotL`) -/
def resultOf (nameArgs : Bool) (o : OutL) : ScanResult :=
  let snap := if o.s.gs.isEmpty then none else some (if nameArgs then nameArguments o.s.gs else o.s.gs)
  let remaining := itemsBytes o.rest
  let suffix := if o.broke || o.s.st == .done then some remaining else none
  { snap := snap, fwd := o.fwd, suffix := suffix, unread := if suffix.isSome then [] else remaining,
    err := o.err, consumed := o.consumed, state := o.s.st, panicked := o.panicked.isSome }

theorem scanSnapshotL_eq (nameArgs : Bool) (bs : Bytes) (fin : RErr) :
    scanSnapshotL nameArgs bs fin = resultOf nameArgs (scanL {} [] [] (specLines bs fin)) := rfl

/-- whatever way the remaining bytes are split between `suffix` and the unread input,
`MultiReader(suffix, unread)` carries the bytes of `rest` -/
theorem resultOf_remaining (nameArgs : Bool) (o : OutL) :
    (resultOf nameArgs o).suffix.getD [] ++ (resultOf nameArgs o).unread = itemsBytes o.rest := by
  simp only [resultOf]
  cases (o.broke || o.s.st == .done) <;> simp

/-- the caller's loop around `ScanSnapshot` (as in `cmd/pp`): scan; if there is no error, scan
again `MultiReader(suffix, unread input)` -/
def scanAllB (nameArgs : Bool) : Nat → Bytes → RErr → List ScanResult
  | 0, _, _ => []
  | n + 1, bs, fin =>
    let r := scanSnapshotL nameArgs bs fin
    if r.err.isNone && !r.panicked then r :: scanAllB nameArgs n (r.suffix.getD [] ++ r.unread) fin
    else [r]

/-- the caller's loop on bytes is the line-level protocol `scanAll` on the canonical split:
the remainder handed back re-splits into exactly the items that were not scanned -/
theorem scanAllB_eq (nameArgs : Bool) (n : Nat) (bs : Bytes) (fin : RErr) :
    scanAllB nameArgs n bs fin = (scanAll n (specLines bs fin)).map (fun c => resultOf nameArgs c.2) := by
  induction n generalizing bs with
  | zero => rfl
  | succ n ih =>
    rw [scanAll_succ]
    simp only [scanAllB]
    rw [scanSnapshotL_eq, resultOf_remaining]
    have hc : ((resultOf nameArgs (scanL {} [] [] (specLines bs fin))).err.isNone &&
        !(resultOf nameArgs (scanL {} [] [] (specLines bs fin))).panicked) =
        ((scanL {} [] [] (specLines bs fin)).err.isNone && (scanL {} [] [] (specLines bs fin)).panicked.isNone) := by
      simp only [resultOf]
      cases (scanL {} [] [] (specLines bs fin)).panicked <;> simp
    rw [hc]
    by_cases hcond : ((scanL {} [] [] (specLines bs fin)).err.isNone &&
        (scanL {} [] [] (specLines bs fin)).panicked.isNone) = true
    · rw [if_pos hcond, if_pos hcond, List.map_cons, ih]
      -- the remainder is not empty: the last item carries the terminal error
      have hne : (scanL {} [] [] (specLines bs fin)).rest ≠ [] := by
        simp only [Bool.and_eq_true, Option.isNone_iff_eq_none] at hcond
        have hl := scanL_last_err {} [] [] ((splitLines bs).1.map (fun l => (l, none))) (splitLines bs).2 fin
        have hsp : specLines bs fin = (splitLines bs).1.map (fun l => (l, none)) ++ [((splitLines bs).2, some fin)] := rfl
        rw [← hsp] at hl
        rcases hl with h | h | ⟨init', h⟩
        · rw [hcond.1] at h; simp at h
        · rw [hcond.2] at h; simp at h
        · rw [h]; simp
      obtain ⟨pre, hpre⟩ := scanL_rest_suffix {} [] [] (specLines bs fin)
      rw [specLines_resplit bs fin pre _ hpre hne]
    · rw [if_neg hcond, if_neg hcond]
      rfl

end PP
