import PP.Lemmas.ScanInv
import PP.Props.C09
/-
The ScanSnapshot loop under the scanner invariant (C03): no panic, fuel.
-/
namespace PP
open Bytes

theorem inv_init' : Inv ({} : S) := ⟨rfl, firstOK_nil⟩

theorem scanBytes_stepOK (s : S) (raw : Bytes) (h : Inv s) : StepOK (scanBytes s raw) :=
  scan_stepOK s _ h

/-- feed raw lines one after the other, ignoring `scan`'s verdicts -/
def feed (s : S) : List Bytes → Except Panic S
  | [] => .ok s
  | r :: rs =>
    match scanBytes s r with
    | .error p => .error p
    | .ok (s', _, _) => feed s' rs

theorem feed_inv (s : S) (raws : List Bytes) (h : Inv s) : ∃ s', feed s raws = .ok s' ∧ Inv s' := by
  induction raws generalizing s with
  | nil => exact ⟨s, rfl, h⟩
  | cons r rs ih =>
    obtain ⟨s1, p, e, h1, hi⟩ := scanBytes_stepOK s r h
    simp only [feed, h1]
    exact ih s1 hi

/-! ### line level -/

theorem scanL_panicked_none (s : S) (fwd : Bytes) (cons : List Bytes) (items : List (Bytes × Option RErr))
    (h : Inv s) : (scanL s fwd cons items).panicked = none ∧ Inv (scanL s fwd cons items).s := by
  induction items generalizing s fwd cons with
  | nil => exact ⟨rfl, h⟩
  | cons it items ih =>
    obtain ⟨d, e⟩ := it
    unfold scanL
    split
    · exact ⟨rfl, h⟩
    · split
      · obtain ⟨s1, p, e1, h1, hi⟩ := scanBytes_stepOK s d h
        rw [h1]
        dsimp only
        split
        · split
          · exact ⟨rfl, hi⟩
          · split
            · exact ⟨rfl, hi⟩
            · exact ih _ _ _ hi
        · split
          · exact ⟨rfl, hi⟩
          · exact ih _ _ _ hi
      · split
        · exact ⟨rfl, h⟩
        · exact ih _ _ _ h

theorem scanL_consumed_le (s : S) (fwd : Bytes) (cons : List Bytes) (items : List (Bytes × Option RErr)) :
    (scanL s fwd cons items).consumed.length ≤ cons.length + items.length := by
  induction items generalizing s fwd cons with
  | nil => simp [scanL]
  | cons it items ih =>
    obtain ⟨d, e⟩ := it
    unfold scanL
    split
    · simp
    · split
      · split
        · simp
        · dsimp only
          split
          · split
            · simp
            · split
              · simp
              · have := ih (s := ‹S›) (fwd := fwd ++ d) (cons := cons)
                simp only [List.length_cons]; omega
          · split
            · simp
            · have := ih (s := ‹S›) (fwd := fwd) (cons := cons ++ [d])
              simp only [List.length_append, List.length_cons, List.length_nil] at this ⊢; omega
      · split
        · simp
        · have := ih (s := s) (fwd := fwd) (cons := cons)
          simp only [List.length_cons]; omega

/-! ### byte level -/

theorem combineErr_some (r : RErr) (e1 : Option Err) : (combineErr (some r) e1).isSome = true := by
  cases e1 <;> cases r <;> rfl

theorem scanB_not_panicked (N retry fuel : Nat) (s : S) (fwd : Bytes) (cons : List Bytes) (rd : Rd)
    (h : Inv s) (hb : rd.buf.length ≤ N) (o : OutB)
    (ho : scanB N retry fuel s fwd cons rd = some o) : o.panicked = false ∧ Inv o.s := by
  induction fuel generalizing s fwd cons rd with
  | zero => simp [scanB] at ho
  | succ fuel ih =>
    unfold scanB at ho
    split at ho
    · cases ho; exact ⟨rfl, h⟩
    · split at ho
      · cases ho
      · rename_i p hp
        cases p
        exact absurd hp (readLine_no_panic N retry _ [] rd hb)
      · rename_i d e rd' hr
        have hb' := readLine_buf_le N retry _ [] rd hb d e rd' hr
        split at ho
        · obtain ⟨s1, p, e1, h1, hi⟩ := scanBytes_stepOK s d h
          rw [h1] at ho
          dsimp only at ho
          split at ho
          · split at ho
            · cases ho; exact ⟨rfl, hi⟩
            · split at ho
              · cases ho; exact ⟨rfl, hi⟩
              · exact ih _ _ _ _ hi hb' ho
          · split at ho
            · cases ho; exact ⟨rfl, hi⟩
            · exact ih _ _ _ _ hi hb' ho
        · split at ho
          · cases ho; exact ⟨rfl, h⟩
          · exact ih _ _ _ _ h hb' ho

/-- every iteration either ends the loop or takes a non-empty line off the stream -/
theorem scanB_fuel_aux (N retry fuel : Nat) (s : S) (fwd : Bytes) (cons : List Bytes) (rd : Rd)
    (hN : 0 < N) (hG : Good N rd) (hR : maxZeroRun rd.src.sched < retry)
    (hf : rd.buf.length + rd.src.rest.length + 1 ≤ fuel) :
    (scanB N retry fuel s fwd cons rd).isSome := by
  induction fuel generalizing s fwd cons rd with
  | zero => omega
  | succ fuel ih =>
    unfold scanB
    split
    · rfl
    · obtain ⟨d, e, rd', hr⟩ := readLine_total N retry rd hN hG.1
      rw [hr]
      dsimp only
      obtain ⟨hG', _, hR', _⟩ := readLine_spec N retry _ [] rd d e rd' hG hR (by simp [cutNL]) hr
      obtain ⟨hyes, hno⟩ := readLine_spec' N retry _ rd d e rd' hG hR hr
      have hR'' : maxZeroRun rd'.src.sched < retry := by omega
      -- either the loop ends here (`e` is an error) or a non-empty line was taken
      have key : e ≠ none ∨ (d.length ≠ 0 ∧ rd'.buf.length + rd'.src.rest.length + 1 ≤ fuel) := by
        by_cases hin : (10 : UInt8) ∈ rd.buf ++ rd.src.rest
        · obtain ⟨_, ⟨p, _, hp⟩, hcons⟩ := hyes hin
          right
          have hlen := congrArg List.length hcons
          simp only [List.length_append] at hlen
          subst hp
          simp only [List.length_append, List.length_cons, List.length_nil] at hlen ⊢
          omega
        · left
          rw [(hno hin).1]; simp
      rcases key with hk | ⟨hd, hfu⟩
      · obtain ⟨r, rfl⟩ : ∃ r, e = some r := by
          cases e with
          | none => exact absurd rfl hk
          | some r => exact ⟨r, rfl⟩
        split
        · split
          · rfl
          · simp only [combineErr_some]
            split
            · split
              · rfl
              · rfl
            · rfl
        · rfl
      · rw [if_pos (by simpa using hd)]
        split
        · rfl
        · split
          · split
            · rfl
            · split
              · rfl
              · exact ih _ _ _ _ hG' hR'' hfu
          · split
            · rfl
            · exact ih _ _ _ _ hG' hR'' hfu

/-! ### state predicates preserved by `scanBytes` are preserved by the loops -/

theorem scanL_preserves (P : S → Prop)
    (hP : ∀ s raw s' p e, P s → scanBytes s raw = .ok (s', p, e) → P s')
    (s : S) (fwd : Bytes) (cons : List Bytes) (items : List (Bytes × Option RErr)) (h : P s) :
    P (scanL s fwd cons items).s := by
  induction items generalizing s fwd cons with
  | nil => exact h
  | cons it items ih =>
    obtain ⟨d, e⟩ := it
    unfold scanL
    split
    · exact h
    · split
      · split
        · exact h
        · rename_i s1 l e1 h1
          have hi := hP _ _ _ _ _ h h1
          dsimp only
          split
          · split
            · exact hi
            · split
              · exact hi
              · exact ih _ _ _ hi
          · split
            · exact hi
            · exact ih _ _ _ hi
      · split
        · exact h
        · exact ih _ _ _ h

theorem scanB_preserves (P : S → Prop)
    (hP : ∀ s raw s' p e, P s → scanBytes s raw = .ok (s', p, e) → P s')
    (N retry fuel : Nat) (s : S) (fwd : Bytes) (cons : List Bytes) (rd : Rd) (h : P s) (o : OutB)
    (ho : scanB N retry fuel s fwd cons rd = some o) : P o.s := by
  induction fuel generalizing s fwd cons rd with
  | zero => simp [scanB] at ho
  | succ fuel ih =>
    unfold scanB at ho
    split at ho
    · cases ho; exact h
    · split at ho
      · cases ho
      · cases ho; exact h
      · split at ho
        · split at ho
          · cases ho; exact h
          · rename_i s1 l e1 h1
            have hi := hP _ _ _ _ _ h h1
            dsimp only at ho
            split at ho
            · split at ho
              · cases ho; exact hi
              · split at ho
                · cases ho; exact hi
                · exact ih _ _ _ _ hi ho
            · split at ho
              · cases ho; exact hi
              · exact ih _ _ _ _ hi ho
        · split at ho
          · cases ho; exact h
          · exact ih _ _ _ _ h ho

end PP
