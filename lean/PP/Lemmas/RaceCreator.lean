import PP.Model.Scan
/-
The "created at" section of a race report (`Goroutine N (state) created at:`):
the goroutine it names is looked up by id among the goroutines that took part
in an operation; an unknown id is an error, a known id selects the FIRST
goroutine with that id, and the following `createdBy` edits touch only that one.
-/
namespace PP
open Bytes

/-! ### `List.findIdx?` / `modifyAt` helpers -/

theorem findIdx?_none_of_forall {α} (p : α → Bool) (l : List α) (h : ∀ x ∈ l, p x = false) :
    l.findIdx? p = none :=
  List.findIdx?_eq_none_iff.mpr h

theorem findIdx?_append_cons_first {α} (p : α → Bool) (pre : List α) (g : α) (post : List α)
    (hpre : ∀ x ∈ pre, p x = false) (hg : p g = true) :
    (pre ++ g :: post).findIdx? p = some pre.length := by
  rw [List.findIdx?_append, findIdx?_none_of_forall p pre hpre, List.findIdx?_cons]
  simp [hg]

theorem modifyAt_append_cons (pre : List Goroutine) (g : Goroutine) (post : List Goroutine)
    (f : Goroutine → Goroutine) :
    modifyAt (pre ++ g :: post) pre.length f = some (pre ++ f g :: post) := by
  unfold modifyAt
  have hlt : pre.length < (pre ++ g :: post).length := by simp
  rw [dif_pos hlt]
  have hget : (pre ++ g :: post)[pre.length] = g := by simp
  rw [hget, List.set_append_right _ _ (Nat.le_refl _)]
  simp

theorem modifyAt_some {gs gs' : List Goroutine} {i : Nat} {f : Goroutine → Goroutine}
    (h : modifyAt gs i f = some gs') :
    gs'.length = gs.length ∧ ∀ j, j ≠ i → gs'[j]? = gs[j]? := by
  unfold modifyAt at h
  split at h
  · simp only [Option.some.injEq] at h
    subst h
    refine ⟨List.length_set, ?_⟩
    intro j hj
    exact List.getElem?_set_ne (Ne.symm hj)
  · cases h

/-! ### the lookup step -/

/-- in `betweenRaceOperations` (when the line is not a "Previous read/write" header) and in
`betweenRaceGoroutines`, `scan` is decided by `raceGor` alone -/
theorem scan_between_eq (s : S) (l : Line)
    (hst : s.st = .betweenRaceOperations ∨ s.st = .betweenRaceGoroutines)
    (heol : l.hasEOL = true) (hind : l.indentOK = true)
    (hprev : s.st = .betweenRaceOperations → l.racePrev = none) :
    scan s l =
      match l.raceGor with
      | some (some id, stt) =>
        match s.gs.findIdx? (fun g => g.id == id) with
        | some i =>
          match modifyAt s.gs i (fun g => { g with sig := { g.sig with state := stt } }) with
          | some gs => .ok ({ s with st := .gotRaceGoroutineHeader, gs := gs, gi := i }, true, none)
          | none => .error .index
        | none => .ok (s, false, some .raceUnknownGoroutine)
      | some (none, _) => .ok (s, false, some .raceId)
      | none => .ok (s, false, some .raceOpOrGoroutine) := by
  unfold scan
  rcases hst with h | h
  · simp [h, heol, hind, hprev h]
    try rfl
  · simp [h, heol, hind]
    try rfl

/-- a 'created at' section naming a goroutine that took part in no operation is an error,
never a misattribution -/
theorem unknown_creator_is_error (s : S) (l : Line) (id : Nat) (stt : Bytes)
    (hst : s.st = .betweenRaceOperations ∨ s.st = .betweenRaceGoroutines)
    (heol : l.hasEOL = true) (hind : l.indentOK = true)
    (hprev : s.st = .betweenRaceOperations → l.racePrev = none)
    (hg : l.raceGor = some (some id, stt))
    (hno : ∀ g ∈ s.gs, g.id ≠ id) :
    scan s l = .ok (s, false, some .raceUnknownGoroutine) := by
  rw [scan_between_eq s l hst heol hind hprev, hg]
  have hnone : s.gs.findIdx? (fun g => g.id == id) = none :=
    findIdx?_none_of_forall _ _ (fun g hm => by simpa using hno g hm)
  simp only [hnone]

/-- a raceGor line with id `i` modifies only the FIRST goroutine whose id is `i`: its state
becomes `stt`, `gi` points at it, nothing else changes -/
theorem creator_lookup_sound (s : S) (l : Line) (id : Nat) (stt : Bytes)
    (pre : List Goroutine) (g : Goroutine) (post : List Goroutine)
    (hst : s.st = .betweenRaceOperations ∨ s.st = .betweenRaceGoroutines)
    (heol : l.hasEOL = true) (hind : l.indentOK = true)
    (hprev : s.st = .betweenRaceOperations → l.racePrev = none)
    (hg : l.raceGor = some (some id, stt))
    (hgs : s.gs = pre ++ g :: post) (hpre : ∀ x ∈ pre, x.id ≠ id) (hid : g.id = id) :
    scan s l = .ok ({ s with st := .gotRaceGoroutineHeader,
                             gs := pre ++ { g with sig := { g.sig with state := stt } } :: post,
                             gi := pre.length }, true, none) := by
  rw [scan_between_eq s l hst heol hind hprev, hg]
  have hfind : s.gs.findIdx? (fun g => g.id == id) = some pre.length := by
    rw [hgs]
    exact findIdx?_append_cons_first _ _ _ _ (fun x hm => by simpa using hpre x hm) (by simp [hid])
  have hmod : modifyAt s.gs pre.length (fun g => { g with sig := { g.sig with state := stt } })
      = some (pre ++ { g with sig := { g.sig with state := stt } } :: post) := by
    rw [hgs]
    exact modifyAt_append_cons _ _ _ _
  simp only [hfind, hmod]

/-! ### the steps after the lookup -/

/-- in gotRaceGoroutineHeader/gotRaceGoroutineFile/gotRaceGoroutineFunc every successful step
leaves all goroutines other than index `s.gi` untouched and keeps `gi` -/
theorem race_goroutine_steps_only_gi (s s' : S) (l : Line) (b : Bool) (e : Option Err)
    (hst : s.st = .gotRaceGoroutineHeader ∨ s.st = .gotRaceGoroutineFunc ∨ s.st = .gotRaceGoroutineFile)
    (h : scan s l = .ok (s', b, e)) :
    s'.gi = s.gi ∧ s'.gs.length = s.gs.length ∧ ∀ j, j ≠ s.gi → s'.gs[j]? = s.gs[j]? := by
  unfold scan at h
  split at h
  · simp only [Except.ok.injEq, Prod.mk.injEq] at h
    obtain ⟨rfl, _, _⟩ := h
    simp
  split at h
  · simp only [Except.ok.injEq, Prod.mk.injEq] at h
    obtain ⟨rfl, _, _⟩ := h
    simp
  split at h
  all_goals (try (rename_i hs; rcases hst with h1 | h1 | h1 <;> (rw [h1] at hs; cases hs); done))
  all_goals (try (rename_i hs _; rcases hst with h1 | h1 | h1 <;> (rw [h1] at hs; cases hs); done))
  · -- gotRaceGoroutineFunc
    split at h
    · simp only [] at h
      repeat' (split at h)
      all_goals (try (cases h; done))
      all_goals
        simp only [Except.ok.injEq, Prod.mk.injEq] at h
        obtain ⟨rfl, _, _⟩ := h
      · refine ⟨rfl, List.length_set, ?_⟩
        intro j hj
        exact List.getElem?_set_ne (Ne.symm hj)
      all_goals simp
    · cases h
  -- gotRaceGoroutineFile / gotRaceGoroutineHeader
  all_goals
    split at h
    · simp only [Except.ok.injEq, Prod.mk.injEq] at h
      obtain ⟨rfl, _, _⟩ := h
      simp
    split at h
    · simp only [Except.ok.injEq, Prod.mk.injEq] at h
      obtain ⟨rfl, _, _⟩ := h
      simp
    split at h
    · split at h
      · rename_i gs hm
        simp only [Except.ok.injEq, Prod.mk.injEq] at h
        obtain ⟨rfl, _, _⟩ := h
        obtain ⟨hl, hj⟩ := modifyAt_some hm
        exact ⟨rfl, hl, hj⟩
      · cases h
    · simp only [Except.ok.injEq, Prod.mk.injEq] at h
      obtain ⟨rfl, _, _⟩ := h
      simp

#print axioms unknown_creator_is_error
#print axioms creator_lookup_sound
#print axioms race_goroutine_steps_only_gi

end PP
