import PP.Model.Console
/- Sample values for the non-vacuity examples of PP/Props/C16.lean. -/
namespace PP.Console
open PP PP.Bytes

/-- the palette of internal/main.go as the running code has it (escape codes
produced by mgutz/ansi; the harness checks that every field of the running
palette is a concatenation of `ESC [ … m` sequences) -/
def samplePalette : Palette :=
  { eolReset := b!"\x1b[39m\x1b[m", routineFirst := b!"\x1b[0;1;35m", routine := [], createdBy := b!"\x1b[0;90m",
    race := b!"\x1b[0;91m", pkg := b!"\x1b[0;1;39m", srcFile := b!"\x1b[39m\x1b[m",
    funcMain := b!"\x1b[0;1;33m", funcLocationUnknown := b!"\x1b[0;37m",
    funcLocationUnknownExported := b!"\x1b[0;1;37m", funcGoMod := b!"\x1b[0;31m",
    funcGoModExported := b!"\x1b[0;1;31m", funcGOPATH := b!"\x1b[0;36m", funcGOPATHExported := b!"\x1b[0;1;36m",
    funcGoPkg := b!"\x1b[0;34m", funcGoPkgExported := b!"\x1b[0;1;34m",
    funcStdLib := b!"\x1b[0;32m", funcStdLibExported := b!"\x1b[0;1;32m",
    arguments := b!"\x1b[39m\x1b[m" }

def sampleCall : Call :=
  { fn := { dirName := b!"h\u00e9llo", name := b!"Foo", isExported := true }, srcName := b!"w\u00f6rld.go",
    remoteSrcPath := b!"/r/w\u00f6rld.go", line := 12, location := .stdlib,
    args := { values := [.scalar [] 1 false false false, .agg [.scalar b!"#1" 0xc000010000 true false false] true], elided := true } }

def sampleBuckets : List Bucket :=
  [ { sig := { state := b!"chan receive", sleepMin := 2, sleepMax := 5, locked := true,
               createdBy := { calls := [sampleCall] }, stack := { calls := [sampleCall, { sampleCall with fn := { dirName := b!"main", name := b!"main", isPkgMain := true }, args := {} }], elided := true } },
      ids := [1, 7, 9], first := true },
    { sig := { state := b!"running", stack := { calls := [{ sampleCall with line := 3 }] } }, ids := [4], first := false } ]

end PP.Console
