import PP.Lemmas.ScanInv
import PP.Lemmas.SigLaws
/-
parse_wf (C03 part 6): the arguments `parseArgs` builds are well-formed, and
every goroutine the scanner holds has a well-formed signature.
-/
namespace PP
open Bytes

/-! ### parseArgs -/

theorem Arg.WFL_append (as bs : List Arg) : Arg.WFL (as ++ bs) = (Arg.WFL as && Arg.WFL bs) := by
  induction as with
  | nil => simp [Arg.WFL]
  | cons a as ih => simp [Arg.WFL, ih, Bool.and_assoc]

/-- every open aggregate holds well-formed values -/
def FramesWF (st : List Frame) : Prop := ∀ f ∈ st, Arg.WFL f.1 = true

theorem framesWF_pushVal (a : Arg) (st : List Frame) (ha : Arg.WF a = true) (h : FramesWF st) :
    FramesWF (pushVal a st) := by
  cases st with
  | nil => simpa [pushVal] using h
  | cons f t =>
    obtain ⟨vs, e⟩ := f
    intro f' hf'
    simp only [pushVal, List.mem_cons] at hf'
    rcases hf' with rfl | hf'
    · have := h (vs, e) (by simp)
      simp [Arg.WFL_append, Arg.WFL, ha, this]
    · exact h f' (by simp [hf'])

theorem framesWF_openN (n : Nat) (st st' : List Frame) (h : FramesWF st)
    (ho : argItem.openN n st = .ok st') : FramesWF st' := by
  induction n generalizing st with
  | zero => simp only [argItem.openN] at ho; cases ho; exact h
  | succ n ih =>
    simp only [argItem.openN] at ho
    split at ho
    · cases ho
    · refine ih _ ?_ ho
      intro f hf
      simp only [List.mem_cons] at hf
      rcases hf with rfl | hf
      · rfl
      · exact h f hf

theorem framesWF_closeN (n : Nat) (st st' : List Frame) (h : FramesWF st)
    (ho : argItem.closeN n st = .ok st') : FramesWF st' := by
  induction n generalizing st with
  | zero => simp only [argItem.closeN] at ho; cases ho; exact h
  | succ n ih =>
    simp only [argItem.closeN] at ho
    split at ho
    · rename_i vs e pvs pe t
      refine ih _ ?_ ho
      intro f hf
      simp only [List.mem_cons] at hf
      rcases hf with rfl | hf
      · have h1 := h (vs, e) (by simp)
        have h2 := h (pvs, pe) (by simp)
        simp only at h1 h2
        simp [Arg.WFL_append, Arg.WFL, Arg.WF, h1, h2]
      · exact h f (by simp [hf])
    · cases ho

theorem framesWF_argItem (st st' : List Frame) (item : Bytes) (h : FramesWF st)
    (ho : argItem st item = .ok st') : FramesWF st' := by
  unfold argItem at ho
  dsimp only at ho
  split at ho
  · cases ho
  · rename_i st1 h1
    have hw1 := framesWF_openN _ _ _ h h1
    split at ho
    · cases ho
    · rename_i st2 h2
      refine framesWF_closeN _ _ _ ?_ ho
      split at h2
      · split at h2
        · split at h2
          · rename_i vs e t
            cases h2
            intro f hf
            simp only [List.mem_cons] at hf
            rcases hf with rfl | hf
            · exact hw1 (vs, e) (by simp)
            · exact hw1 f (by simp [hf])
          · cases h2; exact hw1
        · split at h2
          · cases h2
            exact framesWF_pushVal _ _ (by simp [Arg.WF]) hw1
          · split at h2
            · cases h2
            · cases h2
              exact framesWF_pushVal _ _ (by simp [Arg.WF]) hw1
      · cases h2; exact hw1

theorem framesWF_go (items : List Bytes) (st st' : List Frame) (h : FramesWF st)
    (ho : parseArgs.go items st = .ok st') : FramesWF st' := by
  induction items generalizing st with
  | nil => simp only [parseArgs.go] at ho; cases ho; exact h
  | cons it rest ih =>
    simp only [parseArgs.go] at ho
    split at ho
    · cases ho
    · rename_i st1 h1
      exact ih _ (framesWF_argItem _ _ _ h h1) ho

theorem parseArgs_wfl (line : Bytes) (a : Args) (h : parseArgs line = .ok a) :
    Arg.WFL a.values = true := by
  unfold parseArgs at h
  dsimp only at h
  split at h
  · cases h
  · rename_i vs e hgo
    cases h
    have := framesWF_go _ _ _ (by intro f hf; simp at hf; subst hf; rfl) hgo
    exact this (vs, e) (by simp)
  · cases h

/-! ### calls -/

theorem callsWF_iff (cs : List Call) : callsWF cs = true ↔ ∀ c ∈ cs, Arg.WFL c.args.values = true := by
  induction cs with
  | nil => simp [callsWF]
  | cons c cs ih => simp [callsWF, ih]

theorem Call.init_args (c : Call) (p : Bytes) (n : Nat) : (c.init p n).args = c.args := by
  unfold Call.init
  dsimp only
  split
  · split <;> split <;> (try split) <;> rfl
  · rfl

theorem callsWF_initLast (cs : List Call) (pl : Bytes × Nat) (h : callsWF cs = true) :
    callsWF ((initLast cs pl).getD cs) = true := by
  unfold initLast
  split
  · simpa using h
  · rename_i c rest hr
    have hcs : cs = rest.reverse ++ [c] := by
      have := congrArg List.reverse hr
      simpa using this
    subst hcs
    rw [callsWF_iff] at h ⊢
    intro c' hc'
    simp only [Option.getD_some, List.reverse_cons, List.mem_append, List.mem_reverse,
      List.mem_singleton] at hc'
    rcases hc' with hc' | rfl
    · exact h c' (by simp [hc'])
    · rw [Call.init_args]; exact h c (by simp)

theorem callsWF_snoc (cs : List Call) (c : Call) (h : callsWF cs = true)
    (hc : Arg.WFL c.args.values = true) : callsWF (cs ++ [c]) = true := by
  rw [callsWF_iff] at h ⊢
  intro c' hc'
  simp only [List.mem_append, List.mem_singleton] at hc'
  rcases hc' with hc' | rfl
  · exact h c' hc'
  · exact hc

/-! ### the scanner -/

def AllWF (gs : List Goroutine) : Prop := ∀ g ∈ gs, g.sig.WF = true

/-- the calls a line carries have well-formed arguments -/
def LineWF (l : Line) : Prop :=
  (∀ c e, l.func = some (c, e) → Arg.WFL c.args.values = true) ∧
  (∀ c e, l.funcL = some (c, e) → Arg.WFL c.args.values = true)

theorem allWF_snoc {gs : List Goroutine} (g : Goroutine) (h : AllWF gs) (hg : g.sig.WF = true) :
    AllWF (gs ++ [g]) := by
  intro g' hg'
  simp only [List.mem_append, List.mem_singleton] at hg'
  rcases hg' with hg' | rfl
  · exact h g' hg'
  · exact hg

theorem allWF_singleton (g : Goroutine) (hg : g.sig.WF = true) : AllWF [g] := by
  intro g' hg'; simp at hg'; subst hg'; exact hg

theorem allWF_modifyLast {gs gs' : List Goroutine} {f : Goroutine → Goroutine}
    (hm : modifyLast gs f = some gs') (h : AllWF gs) (hf : ∀ g, g.sig.WF = true → (f g).sig.WF = true) :
    AllWF gs' := by
  unfold modifyLast at hm
  split at hm
  · cases hm
  · rename_i g rest hr
    cases hm
    have hgs : gs = rest.reverse ++ [g] := by
      have := congrArg List.reverse hr
      simpa using this
    subst hgs
    intro g' hg'
    simp only [List.reverse_cons, List.mem_append, List.mem_reverse, List.mem_singleton] at hg'
    rcases hg' with hg' | rfl
    · exact h g' (by simp [hg'])
    · exact hf g (h g (by simp))

theorem allWF_set {gs : List Goroutine} (i : Nat) (g : Goroutine) (h : AllWF gs) (hg : g.sig.WF = true) :
    AllWF (gs.set i g) := by
  intro g' hg'
  rcases List.mem_or_eq_of_mem_set hg' with h1 | rfl
  · exact h g' h1
  · exact hg

theorem allWF_modifyAt {gs gs' : List Goroutine} {i : Nat} {f : Goroutine → Goroutine}
    (hm : modifyAt gs i f = some gs') (h : AllWF gs) (hf : ∀ g, g.sig.WF = true → (f g).sig.WF = true) :
    AllWF gs' := by
  unfold modifyAt at hm
  split at hm
  · cases hm
    exact allWF_set _ _ h (hf _ (h _ (List.getElem_mem _)))
  · cases hm

theorem curAppendCall_allWF {s s1 : S} {c : Call} (h : curAppendCall s c = .ok s1) (hs : AllWF s.gs)
    (hc : Arg.WFL c.args.values = true) : AllWF s1.gs := by
  unfold curAppendCall at h
  split at h
  · cases h
  · rename_i gs' hm
    cases h
    refine allWF_modifyLast hm hs ?_
    intro g hg
    exact callsWF_snoc _ _ hg hc

theorem funcStep_allWF {s s' : S} {r : Option (Call × Option Err)} {next : St} {orElse : R} {p e}
    (h : funcStep s r next orElse = .ok (s', p, e)) (hs : AllWF s.gs)
    (hr : ∀ c e, r = some (c, e) → Arg.WFL c.args.values = true)
    (hor : orElse = .ok (s', p, e) → AllWF s'.gs) : AllWF s'.gs := by
  unfold funcStep at h
  split at h
  · rename_i c e1
    split at h
    · cases h
    · rename_i s1 h1
      cases h
      exact (curAppendCall_allWF h1 hs (hr c _ rfl) : AllWF s1.gs)
  · exact hor h

theorem createdStep_allWF {s s' : S} {r : Except Err Func} {b : Bool} {p e}
    (h : createdStep s r b = .ok (s', p, e)) (hs : AllWF s.gs) : AllWF s'.gs := by
  unfold createdStep at h
  split at h
  · dsimp only at h
    split at h
    · cases h
    · cases h
      refine allWF_modifyLast ‹modifyLast _ _ = some _› hs ?_
      intro g hg; exact hg
  · split at h
    · cases h
    · cases h
      refine allWF_modifyLast ‹modifyLast _ _ = some _› hs ?_
      intro g hg; exact hg

theorem scan_allWF (s : S) (l : Line) (s' : S) (p : Bool) (e : Option Err)
    (hs : AllWF s.gs) (hl : LineWF l) (h : scan s l = .ok (s', p, e)) : AllWF s'.gs := by
  unfold scan at h
  repeat' split at h
  all_goals (try dsimp only at h)
  repeat' split at h
  all_goals (try cases h)
  all_goals (try exact hs)
  all_goals first
    | exact allWF_snoc _ hs rfl
    | exact allWF_singleton _ rfl
    | exact createdStep_allWF h hs
    | exact funcStep_allWF h hs hl.1 (fun h => by cases h; exact hs)
    | exact funcStep_allWF h hs hl.2 (fun h => by cases h; exact hs)
    | (refine allWF_modifyLast ‹modifyLast _ _ = some _› hs ?_; intro g hg
       first | exact hg | rfl | exact callsWF_initLast _ _ hg)
    | (refine allWF_modifyAt ‹modifyAt _ _ _ = some _› hs ?_; intro g hg
       first | exact hg | exact callsWF_snoc _ _ hg (hl.2 _ _ ‹_›))
    | exact allWF_set _ _ hs (hs s.gs[s.gi] (List.getElem_mem _))

theorem parseFunc_wfl (line : Bytes) (c : Call) (e : Option Err) (h : parseFunc line = some (c, e)) :
    Arg.WFL c.args.values = true := by
  unfold parseFunc at h
  split at h
  · cases h
  · split at h
    · cases h; rfl
    · dsimp only at h
      split at h
      · cases h; rfl
      · rename_i a ha
        cases h
        exact parseArgs_wfl _ _ ha

theorem classify_lineWF (pfx raw : Bytes) : LineWF (classify pfx raw) := by
  unfold classify
  exact ⟨fun c e h => parseFunc_wfl _ c e h, fun c e h => parseFunc_wfl _ c e h⟩

theorem scanBytes_allWF (s : S) (raw : Bytes) (s' : S) (p : Bool) (e : Option Err)
    (hs : AllWF s.gs) (h : scanBytes s raw = .ok (s', p, e)) : AllWF s'.gs :=
  scan_allWF s _ s' p e hs (classify_lineWF _ _) h

end PP
