import PP.Model.Sig
/-
Laws of similar / equal / merge on Arg … Signature (stack.go:178-730).

* `similar l a b ↔ key l a = key l b` for a reference key, hence `similar l`
  is an equivalence relation at every level;
* `merge` stays in the similarity class of its left operand when both operands
  are well-formed (`WF`), and preserves `WF`;
* `similar` implies the shape condition under which `merge` never indexes out
  of range;
* the four levels form a refinement chain; sleep bounds are irrelevant to
  `similar`; `equal` implies `similar` at every level.
-/
namespace PP

/-! ### reference keys -/

/-- what `Arg.similar l` looks at -/
inductive ArgKey where
  | exact (name : Bytes) (value : Nat) (isPtr otl : Bool)
  | ptr (otl isPtr : Bool) (value : Nat)
  | any
  | agg (fields : List ArgKey) (elided : Bool)

mutual
def Arg.key (l : Lvl) : Arg → ArgKey
  | .scalar n v p o _ =>
    match l with
    | .exactFlags | .exactLines => .exact n v p o
    | .anyValue => .any
    | .anyPointer => .ptr o p (if p then 0 else v)
  | .agg fs e => .agg (Arg.keyL l fs) e
def Arg.keyL (l : Lvl) : List Arg → List ArgKey
  | [] => []
  | a :: as => Arg.key l a :: Arg.keyL l as
end

structure CallKey where
  line : Nat
  fn : Bytes
  src : Bytes
  elided : Bool
  args : List ArgKey

structure StackKey where
  elided : Bool
  calls : List CallKey

structure SigKey where
  state : Bytes
  createdBy : StackKey
  /-- `locked` is compared at `.exactFlags` only -/
  locked : Bool
  stack : StackKey

def callKey (l : Lvl) (c : Call) : CallKey :=
  { line := c.line, fn := c.fn.complete, src := c.remoteSrcPath, elided := c.args.elided,
    args := Arg.keyL l c.args.values }

def callsKey (l : Lvl) : List Call → List CallKey
  | [] => []
  | c :: cs => callKey l c :: callsKey l cs

def stackKey (l : Lvl) (s : Stack) : StackKey := { elided := s.elided, calls := callsKey l s.calls }

def sigKey (l : Lvl) (s : Signature) : SigKey :=
  { state := s.state, createdBy := stackKey l s.createdBy,
    locked := (l == .exactFlags) && s.locked, stack := stackKey l s.stack }

/-! ### similar ⇔ equal keys -/

mutual
theorem Arg.similar_iff_key (l : Lvl) :
    ∀ a b : Arg, Arg.similar l a b = true ↔ Arg.key l a = Arg.key l b
  | .scalar n v p o i, .scalar n' v' p' o' i' => by
    cases l <;> simp [Arg.similar, Arg.key] <;> (try grind)
  | .agg fs e, .agg fs' e' => by
    simp [Arg.similar, Arg.key, Arg.similarL_iff_keyL l fs fs']
    grind
  | .scalar .., .agg .. => by cases l <;> simp [Arg.similar, Arg.key]
  | .agg .., .scalar .. => by cases l <;> simp [Arg.similar, Arg.key]
theorem Arg.similarL_iff_keyL (l : Lvl) :
    ∀ as bs : List Arg, Arg.similarL l as bs = true ↔ Arg.keyL l as = Arg.keyL l bs
  | [], [] => by simp [Arg.similarL, Arg.keyL]
  | a :: as, b :: bs => by
    simp [Arg.similarL, Arg.keyL, Arg.similar_iff_key l a b, Arg.similarL_iff_keyL l as bs]
  | [], _ :: _ => by simp [Arg.similarL, Arg.keyL]
  | _ :: _, [] => by simp [Arg.similarL, Arg.keyL]
end

theorem Call.similar_iff_key (l : Lvl) (a b : Call) :
    Call.similar l a b = true ↔ callKey l a = callKey l b := by
  simp [Call.similar, Args.similar, callKey, Arg.similarL_iff_keyL, Bool.and_eq_true]
  grind

theorem callsSimilar_iff_key (l : Lvl) :
    ∀ as bs : List Call, callsSimilar l as bs = true ↔ callsKey l as = callsKey l bs
  | [], [] => by simp [callsSimilar, callsKey]
  | a :: as, b :: bs => by
    simp [callsSimilar, callsKey, Call.similar_iff_key l a b, callsSimilar_iff_key l as bs]
  | [], _ :: _ => by simp [callsSimilar, callsKey]
  | _ :: _, [] => by simp [callsSimilar, callsKey]

theorem Stack.similar_iff_key (l : Lvl) (a b : Stack) :
    Stack.similar l a b = true ↔ stackKey l a = stackKey l b := by
  simp [Stack.similar, stackKey, callsSimilar_iff_key, Bool.and_eq_true]

theorem Signature.similar_iff_key (l : Lvl) (a b : Signature) :
    Signature.similar l a b = true ↔ sigKey l a = sigKey l b := by
  cases l <;>
    simp [Signature.similar, sigKey, Stack.similar_iff_key, Bool.and_eq_true] <;> grind

/-! ### equivalence -/

theorem Signature.similar_refl (l : Lvl) (a : Signature) : Signature.similar l a a = true :=
  (Signature.similar_iff_key l a a).2 rfl

theorem Signature.similar_symm (l : Lvl) (a b : Signature) :
    Signature.similar l a b = true → Signature.similar l b a = true := fun h =>
  (Signature.similar_iff_key l b a).2 ((Signature.similar_iff_key l a b).1 h).symm

theorem Signature.similar_trans (l : Lvl) (a b c : Signature) :
    Signature.similar l a b = true → Signature.similar l b c = true →
      Signature.similar l a c = true := fun h₁ h₂ =>
  (Signature.similar_iff_key l a c).2
    (((Signature.similar_iff_key l a b).1 h₁).trans ((Signature.similar_iff_key l b c).1 h₂))

theorem Signature.similar_congr_left (l : Lvl) {a b : Signature}
    (h : Signature.similar l a b = true) (x : Signature) :
    Signature.similar l a x = Signature.similar l b x := by
  have hk := (Signature.similar_iff_key l a b).1 h
  have h1 := Signature.similar_iff_key l a x
  have h2 := Signature.similar_iff_key l b x
  rw [hk] at h1
  exact Bool.eq_iff_iff.2 (h1.trans h2.symm)

theorem Signature.similar_congr_right (l : Lvl) {a b : Signature}
    (h : Signature.similar l a b = true) (x : Signature) :
    Signature.similar l x a = Signature.similar l x b := by
  have hk := (Signature.similar_iff_key l a b).1 h
  have h1 := Signature.similar_iff_key l x a
  have h2 := Signature.similar_iff_key l x b
  rw [hk] at h1
  exact Bool.eq_iff_iff.2 (h1.trans h2.symm)

/-! ### well-formedness and merge -/

mutual
/-- well-formedness produced by parseArgs: a too-large argument (`_`) carries no
value, is not a pointer and has no name -/
def Arg.WF : Arg → Bool
  | .scalar n v p o _ => !o || (v == 0 && !p && n == [])
  | .agg fs _ => Arg.WFL fs
def Arg.WFL : List Arg → Bool
  | [] => true
  | a :: as => Arg.WF a && Arg.WFL as
end

def callsWF : List Call → Bool
  | [] => true
  | c :: cs => Arg.WFL c.args.values && callsWF cs

/-- all arguments of all calls of the stack are well-formed -/
def Signature.WF (s : Signature) : Bool := callsWF s.stack.calls

mutual
theorem Arg.merge_similar (l : Lvl) : ∀ a b : Arg, Arg.WF a = true → Arg.WF b = true →
    Arg.similar l a b = true → Arg.similar l (Arg.merge a b) a = true
  | .scalar n v p o i, .scalar n' v' p' o' i', hwf, hwb, hs => by
    simp only [Arg.merge]
    split
    · cases l <;> simp [Arg.similar]
    · rename_i hne
      cases l
      · simp [Arg.equal, Arg.similar] at hne hs; grind
      · simp [Arg.equal, Arg.similar] at hne hs; grind
      · simp [Arg.similar, Arg.WF] at hs hwf hwb ⊢
        simp [Arg.equal, Arg.similar] at hne
        grind
      · simp [Arg.similar]
  | .agg fs e, .agg fs' e', hwf, hwb, hs => by
    simp only [Arg.merge, Arg.similar, Bool.and_eq_true, beq_self_eq_true, true_and]
    simp only [Arg.similar, Bool.and_eq_true] at hs
    exact Arg.mergeL_similar l fs fs' (by simpa [Arg.WF] using hwf) (by simpa [Arg.WF] using hwb) hs.2
  | .scalar .., .agg .., _, _, hs => by cases l <;> simp [Arg.similar] at hs
  | .agg .., .scalar .., _, _, hs => by cases l <;> simp [Arg.similar] at hs
theorem Arg.mergeL_similar (l : Lvl) : ∀ as bs : List Arg, Arg.WFL as = true → Arg.WFL bs = true →
    Arg.similarL l as bs = true → Arg.similarL l (Arg.mergeL as bs) as = true
  | [], [], _, _, _ => by simp [Arg.mergeL, Arg.similarL]
  | a :: as, b :: bs, hwf, hwb, hs => by
    simp only [Arg.WFL, Bool.and_eq_true] at hwf hwb
    simp only [Arg.similarL, Bool.and_eq_true] at hs
    simp only [Arg.mergeL, Arg.similarL, Bool.and_eq_true]
    exact ⟨Arg.merge_similar l a b hwf.1 hwb.1 hs.1, Arg.mergeL_similar l as bs hwf.2 hwb.2 hs.2⟩
  | [], _ :: _, _, _, hs => by simp [Arg.similarL] at hs
  | _ :: _, [], _, _, hs => by simp [Arg.similarL] at hs
end

theorem Arg.mergeL_nil (as : List Arg) : Arg.mergeL as [] = as := by
  cases as <;> simp [Arg.mergeL]

mutual
theorem Arg.merge_WF : ∀ a b : Arg, Arg.WF a = true → Arg.WF (Arg.merge a b) = true
  | .scalar n v p o i, b, hwf => by
    simp only [Arg.merge]
    split
    · exact hwf
    · simp [Arg.WF]
  | .agg fs e, .agg fs' e', hwf => by
    simp only [Arg.merge, Arg.WF] at hwf ⊢
    exact Arg.mergeL_WF fs fs' hwf
  | .agg fs e, .scalar .., hwf => by
    simp only [Arg.merge, Arg.WF, Arg.mergeL_nil] at hwf ⊢
    exact hwf
theorem Arg.mergeL_WF : ∀ as bs : List Arg, Arg.WFL as = true → Arg.WFL (Arg.mergeL as bs) = true
  | [], _, _ => by simp [Arg.mergeL, Arg.WFL]
  | a :: as, [], hwf => by simpa [Arg.mergeL] using hwf
  | a :: as, b :: bs, hwf => by
    simp only [Arg.WFL, Bool.and_eq_true] at hwf
    simp only [Arg.mergeL, Arg.WFL, Bool.and_eq_true]
    exact ⟨Arg.merge_WF a b hwf.1, Arg.mergeL_WF as bs hwf.2⟩
end

theorem Call.merge_similar (l : Lvl) (a b : Call) (hwa : Arg.WFL a.args.values = true)
    (hwb : Arg.WFL b.args.values = true) (hs : Call.similar l a b = true) :
    Call.similar l (Call.merge a b) a = true := by
  simp only [Call.similar, Args.similar, Bool.and_eq_true] at hs
  simp only [Call.similar, Args.similar, Call.merge, Args.merge, Bool.and_eq_true,
    beq_self_eq_true, true_and]
  exact Arg.mergeL_similar l _ _ hwa hwb hs.2.2

theorem callsMerge_similar (l : Lvl) : ∀ as bs : List Call, callsWF as = true → callsWF bs = true →
    callsSimilar l as bs = true → callsSimilar l (callsMerge as bs) as = true
  | [], [], _, _, _ => by simp [callsMerge, callsSimilar]
  | a :: as, b :: bs, hwa, hwb, hs => by
    simp only [callsWF, Bool.and_eq_true] at hwa hwb
    simp only [callsSimilar, Bool.and_eq_true] at hs
    simp only [callsMerge, callsSimilar, Bool.and_eq_true]
    exact ⟨Call.merge_similar l a b hwa.1 hwb.1 hs.1, callsMerge_similar l as bs hwa.2 hwb.2 hs.2⟩
  | [], _ :: _, _, _, hs => by simp [callsSimilar] at hs
  | _ :: _, [], _, _, hs => by simp [callsSimilar] at hs

theorem callsMerge_WF : ∀ as bs : List Call, callsWF as = true → callsWF (callsMerge as bs) = true
  | [], _, _ => by simp [callsMerge, callsWF]
  | a :: as, [], hwf => by simpa [callsMerge] using hwf
  | a :: as, b :: bs, hwf => by
    simp only [callsWF, Bool.and_eq_true] at hwf
    simp only [callsMerge, callsWF, Bool.and_eq_true, Call.merge, Args.merge]
    exact ⟨Arg.mergeL_WF _ _ hwf.1, callsMerge_WF as bs hwf.2⟩

theorem Stack.similar_refl (l : Lvl) (s : Stack) : Stack.similar l s s = true :=
  (Stack.similar_iff_key l s s).2 rfl

/-- `merge` stays in the similarity class of the key (both sides well-formed). -/
theorem Signature.merge_similar (l : Lvl) (k r : Signature) :
    k.WF = true → r.WF = true → Signature.similar l k r = true →
      Signature.similar l (Signature.merge k r) k = true := by
  intro hk hr hs
  simp only [Signature.similar, Bool.and_eq_true, Stack.similar] at hs
  obtain ⟨⟨⟨_, _⟩, hlock⟩, _, hcalls⟩ := hs
  have hc := callsMerge_similar l _ _ hk hr hcalls
  simp only [Signature.similar, Signature.merge, Stack.merge, Bool.and_eq_true, beq_self_eq_true,
    Stack.similar_refl, true_and]
  refine ⟨?_, ?_⟩
  · cases l <;> simp_all
  · simpa [Stack.similar] using hc

theorem Signature.merge_WF (k r : Signature) :
    k.WF = true → r.WF = true → (Signature.merge k r).WF = true := by
  intro hk _
  simpa [Signature.WF, Signature.merge, Stack.merge] using callsMerge_WF _ r.stack.calls hk

/-! ### similar ⇒ merge stays in range -/

mutual
theorem Arg.similar_shapeOK (l : Lvl) : ∀ a b : Arg, Arg.similar l a b = true → Arg.shapeOK a b = true
  | .scalar .., .scalar .., _ => by simp [Arg.shapeOK]
  | .agg fs e, .agg fs' e', hs => by
    simp only [Arg.similar, Bool.and_eq_true] at hs
    simpa [Arg.shapeOK] using Arg.similarL_shapeOKL l fs fs' hs.2
  | .scalar .., .agg .., hs => by simp [Arg.shapeOK]
  | .agg .., .scalar .., hs => by cases l <;> simp [Arg.similar] at hs
theorem Arg.similarL_shapeOKL (l : Lvl) :
    ∀ as bs : List Arg, Arg.similarL l as bs = true → Arg.shapeOKL as bs = true
  | [], [], _ => by simp [Arg.shapeOKL]
  | a :: as, b :: bs, hs => by
    simp only [Arg.similarL, Bool.and_eq_true] at hs
    simp only [Arg.shapeOKL, Bool.and_eq_true]
    exact ⟨Arg.similar_shapeOK l a b hs.1, Arg.similarL_shapeOKL l as bs hs.2⟩
  | [], _ :: _, hs => by simp [Arg.shapeOKL]
  | _ :: _, [], hs => by simp [Arg.similarL] at hs
end

theorem callsSimilar_shapeOK (l : Lvl) :
    ∀ as bs : List Call, callsSimilar l as bs = true → callsShapeOK as bs = true
  | [], [], _ => by simp [callsShapeOK]
  | a :: as, b :: bs, hs => by
    simp only [callsSimilar, Call.similar, Args.similar, Bool.and_eq_true] at hs
    simp only [callsShapeOK, Bool.and_eq_true]
    exact ⟨Arg.similarL_shapeOKL l _ _ hs.1.2.2, callsSimilar_shapeOK l as bs hs.2⟩
  | [], _ :: _, hs => by simp [callsShapeOK]
  | _ :: _, [], hs => by simp [callsSimilar] at hs

theorem Signature.similar_shapeOK (l : Lvl) (a b : Signature) :
    Signature.similar l a b = true → Signature.shapeOK a b = true := by
  intro hs
  simp only [Signature.similar, Stack.similar, Bool.and_eq_true] at hs
  exact callsSimilar_shapeOK l _ _ hs.2.2

/-! ### refinement chain -/

/-- `l₁ ≤ l₂`: level `l₂` is coarser (one step) -/
inductive Lvl.Step : Lvl → Lvl → Prop
  | fl : Lvl.Step .exactFlags .exactLines
  | lp : Lvl.Step .exactLines .anyPointer
  | pv : Lvl.Step .anyPointer .anyValue

mutual
theorem Arg.similar_step {l₁ l₂ : Lvl} (st : Lvl.Step l₁ l₂) :
    ∀ a b : Arg, Arg.similar l₁ a b = true → Arg.similar l₂ a b = true
  | .scalar n v p o i, .scalar n' v' p' o' i', hs => by
    cases st <;> simp [Arg.similar] at hs ⊢ <;> grind
  | .agg fs e, .agg fs' e', hs => by
    simp only [Arg.similar, Bool.and_eq_true] at hs ⊢
    exact ⟨hs.1, Arg.similarL_step st fs fs' hs.2⟩
  | .scalar .., .agg .., hs => by cases st <;> simp [Arg.similar] at hs
  | .agg .., .scalar .., hs => by cases st <;> simp [Arg.similar] at hs
theorem Arg.similarL_step {l₁ l₂ : Lvl} (st : Lvl.Step l₁ l₂) :
    ∀ as bs : List Arg, Arg.similarL l₁ as bs = true → Arg.similarL l₂ as bs = true
  | [], [], _ => by simp [Arg.similarL]
  | a :: as, b :: bs, hs => by
    simp only [Arg.similarL, Bool.and_eq_true] at hs ⊢
    exact ⟨Arg.similar_step st a b hs.1, Arg.similarL_step st as bs hs.2⟩
  | [], _ :: _, hs => by simp [Arg.similarL] at hs
  | _ :: _, [], hs => by simp [Arg.similarL] at hs
end

theorem callsSimilar_step {l₁ l₂ : Lvl} (st : Lvl.Step l₁ l₂) :
    ∀ as bs : List Call, callsSimilar l₁ as bs = true → callsSimilar l₂ as bs = true
  | [], [], _ => by simp [callsSimilar]
  | a :: as, b :: bs, hs => by
    simp only [callsSimilar, Call.similar, Args.similar, Bool.and_eq_true] at hs ⊢
    exact ⟨⟨hs.1.1, hs.1.2.1, Arg.similarL_step st _ _ hs.1.2.2⟩, callsSimilar_step st as bs hs.2⟩
  | [], _ :: _, hs => by simp [callsSimilar] at hs
  | _ :: _, [], hs => by simp [callsSimilar] at hs

theorem Signature.similar_step {l₁ l₂ : Lvl} (st : Lvl.Step l₁ l₂) (a b : Signature) :
    Signature.similar l₁ a b = true → Signature.similar l₂ a b = true := by
  intro hs
  simp only [Signature.similar, Stack.similar, Bool.and_eq_true] at hs ⊢
  obtain ⟨⟨⟨h1, h2, h3⟩, _⟩, h5, h6⟩ := hs
  refine ⟨⟨⟨h1, h2, callsSimilar_step st _ _ h3⟩, ?_⟩, h5, callsSimilar_step st _ _ h6⟩
  cases st <;> simp

theorem similar_exactFlags_exactLines (a b : Signature) :
    Signature.similar .exactFlags a b = true → Signature.similar .exactLines a b = true :=
  Signature.similar_step .fl a b

theorem similar_exactLines_anyPointer (a b : Signature) :
    Signature.similar .exactLines a b = true → Signature.similar .anyPointer a b = true :=
  Signature.similar_step .lp a b

theorem similar_anyPointer_anyValue (a b : Signature) :
    Signature.similar .anyPointer a b = true → Signature.similar .anyValue a b = true :=
  Signature.similar_step .pv a b

/-! ### sleep bounds, equal -/

theorem similar_sleep_irrelevant (l : Lvl) (a b : Signature) (m₁ M₁ m₂ M₂ : Nat) :
    Signature.similar l { a with sleepMin := m₁, sleepMax := M₁ }
      { b with sleepMin := m₂, sleepMax := M₂ } = Signature.similar l a b := rfl

theorem equal_implies_similar (l : Lvl) (a b : Signature) :
    Signature.equal a b = true → Signature.similar l a b = true := by
  intro h
  have h0 : Signature.similar .exactFlags a b = true := by
    simp only [Signature.equal, Stack.equal, Bool.and_eq_true] at h
    simp only [Signature.similar, Bool.and_eq_true]
    exact ⟨⟨⟨h.1.1.1.1.1, h.1.1.1.1.2⟩, by simp [h.1.1.1.2]⟩, h.2⟩
  have h1 := similar_exactFlags_exactLines a b h0
  have h2 := similar_exactLines_anyPointer a b h1
  have h3 := similar_anyPointer_anyValue a b h2
  cases l <;> assumption

end PP
