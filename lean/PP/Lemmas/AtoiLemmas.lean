import PP.Model.Web
/-
strconv.Atoi (model `atoi`) against a direct specification: optional sign,
one or more ASCII digits, value in the int64 range.
-/
namespace PP
open Bytes

theorem isDigit_iff (c : UInt8) : isDigit c = true ↔ 48 ≤ c.toNat ∧ c.toNat ≤ 57 := by
  unfold isDigit
  simp [UInt8.le_iff_toNat_le]

/-- the digit fold started from `n` -/
def foldDigits (n : Nat) (s : Bytes) : Nat := s.foldl (fun n c => n * 10 + (c.toNat - 48)) n

theorem digitsVal_eq (s : Bytes) : digitsVal s = foldDigits 0 s := by
  simp [digitsVal, foldDigits]

theorem foldDigits_nil (n : Nat) : foldDigits n [] = n := by simp [foldDigits]
theorem foldDigits_cons (n : Nat) (c : UInt8) (t : Bytes) :
    foldDigits n (c :: t) = foldDigits (n * 10 + (c.toNat - 48)) t := by simp [foldDigits]

theorem foldDigits_ge (s : Bytes) : ∀ n, n ≤ foldDigits n s := by
  induction s with
  | nil => intro n; exact Nat.le_refl _
  | cons c t ih =>
    intro n
    rw [foldDigits_cons]
    have := ih (n * 10 + (c.toNat - 48))
    omega

theorem foldDigits_lt_pow (s : Bytes) (hs : s.all isDigit = true) :
    ∀ n, foldDigits n s < (n + 1) * 10 ^ s.length := by
  induction s with
  | nil => intro n; simp [foldDigits_nil]
  | cons c t ih =>
    intro n
    rw [List.all_cons, Bool.and_eq_true] at hs
    have hc := (isDigit_iff c).1 hs.1
    rw [foldDigits_cons]
    have h1 := ih hs.2 (n * 10 + (c.toNat - 48))
    have h2 : (n * 10 + (c.toNat - 48) + 1) * 10 ^ t.length ≤ ((n + 1) * 10) * 10 ^ t.length :=
      Nat.mul_le_mul_right _ (by omega)
    have e : (n + 1) * 10 ^ (c :: t).length = ((n + 1) * 10) * 10 ^ t.length := by
      rw [List.length_cons, Nat.pow_succ, Nat.mul_comm (10 ^ t.length) 10, Nat.mul_assoc]
    rw [e]
    omega

theorem digitsVal_lt_pow (s : Bytes) (hs : s.all isDigit = true) : digitsVal s < 10 ^ s.length := by
  have := foldDigits_lt_pow s hs 0
  simpa [digitsVal_eq] using this

/-! ### ParseUint(s, 10, 64) -/

theorem parseUint10_go_spec (s : Bytes) : ∀ n, n < 2 ^ 64 →
    parseUint10.go ((2 ^ 64 - 1) / 10 + 1) n s =
      if s.all isDigit = true ∧ foldDigits n s < 2 ^ 64 then some (foldDigits n s) else none := by
  induction s with
  | nil => intro n hn; simp [parseUint10.go, foldDigits_nil, hn]
  | cons c t ih =>
    intro n hn
    unfold parseUint10.go
    rw [foldDigits_cons]
    by_cases hc : isDigit c = true
    · have hge := foldDigits_ge t (n * 10 + (c.toNat - 48))
      by_cases hcut : n ≥ (2 ^ 64 - 1) / 10 + 1
      · have : ¬ foldDigits (n * 10 + (c.toNat - 48)) t < 2 ^ 64 := by omega
        simp [hc, hcut, this]
      · by_cases h1 : n * 10 + (c.toNat - 48) ≥ 2 ^ 64
        · have : ¬ foldDigits (n * 10 + (c.toNat - 48)) t < 2 ^ 64 := by omega
          simp [hc, hcut, h1, this]
        · have := ih (n * 10 + (c.toNat - 48)) (by omega)
          simp only [hc, hcut, h1, Bool.not_true, Bool.false_eq_true, if_false, this,
            List.all_cons, Bool.true_and]
    · simp [hc]

theorem parseUint10_spec (s : Bytes) :
    parseUint10 s =
      if s ≠ [] ∧ s.all isDigit = true ∧ digitsVal s < 2 ^ 64 then some (digitsVal s) else none := by
  cases s with
  | nil => simp [parseUint10]
  | cons c t =>
    unfold parseUint10
    simp only []
    rw [parseUint10_go_spec (c :: t) 0 (by decide), ← digitsVal_eq]
    simp

/-! ### the specification -/

/-- what `strconv.Atoi` accepts: an optional sign, at least one ASCII digit,
nothing else, and a value that fits int64. -/
def atoiSpec (s : Bytes) : Option Int :=
  match s with
  | [] => none
  | c :: t =>
    let d := if c == 45 || c == 43 then t else c :: t
    if d = [] ∨ d.all isDigit = false then none
    else
      let v := digitsVal d
      if c == 45 then (if v ≤ 2 ^ 63 then some (-(v : Int)) else none)
      else (if v < 2 ^ 63 then some (v : Int) else none)

theorem parseInt10_eq_spec (s : Bytes) : parseInt10 s = atoiSpec s := by
  cases s with
  | nil => rfl
  | cons c t =>
    unfold parseInt10 atoiSpec
    simp only []
    generalize hd : (if (c == 43 || c == 45) = true then t else c :: t) = d
    have hd' : (if (c == 45 || c == 43) = true then t else c :: t) = d := by
      rw [← hd]; rw [Bool.or_comm]
    rw [hd', parseUint10_spec]
    by_cases hnil : d = []
    · simp [hnil]
    by_cases hall : d.all isDigit = true
    · by_cases hneg : (c == 45) = true
      · by_cases h64 : digitsVal d < 2 ^ 64
        · by_cases h63 : digitsVal d ≤ 2 ^ 63
          · have : ¬ digitsVal d > 2 ^ 63 := by omega
            simp [hnil, hall, hneg, h64, h63, this]
          · have : digitsVal d > 2 ^ 63 := by omega
            simp [hnil, hall, hneg, h64, h63, this]
        · have : ¬ digitsVal d ≤ 2 ^ 63 := by omega
          simp [hnil, hall, hneg, h64, this]
      · by_cases h64 : digitsVal d < 2 ^ 64
        · by_cases h63 : digitsVal d < 2 ^ 63
          · have : ¬ digitsVal d ≥ 2 ^ 63 := by omega
            simp [hnil, hall, hneg, h64, h63, this]
          · have : digitsVal d ≥ 2 ^ 63 := by omega
            simp [hnil, hall, hneg, h64, h63, this]
        · have : ¬ digitsVal d < 2 ^ 63 := by omega
          simp [hnil, hall, hneg, h64, this]
    · have hall' : d.all isDigit = false := by simpa using hall
      simp [hnil, hall']

theorem atoiFast_eq_spec (s : Bytes) (hlen : s.length < 19) : atoiFast s = atoiSpec s := by
  cases s with
  | nil => rfl
  | cons c t =>
    unfold atoiFast atoiSpec
    simp only []
    generalize hd : (if (c == 45 || c == 43) = true then t else c :: t) = d
    have hdlen : d.length < 19 := by
      rw [← hd]; split
      · simp only [List.length_cons] at hlen; omega
      · exact hlen
    by_cases hnil : d = []
    · have hs : (c == 45 || c == 43) = true := by
        cases hsg : (c == 45 || c == 43) with
        | true => rfl
        | false =>
          rw [hsg] at hd; simp only [Bool.false_eq_true, if_false] at hd
          subst hd; cases hnil
      simp [hnil, hs]
    · have hl : ¬ d.length < 1 := by
        cases d with
        | nil => exact absurd rfl hnil
        | cons _ _ => simp
      by_cases hall : d.all isDigit = true
      · have hv := digitsVal_lt_pow d hall
        have hp : 10 ^ d.length ≤ 10 ^ 18 := Nat.pow_le_pow_right (by decide) (by omega)
        have h63 : digitsVal d < 2 ^ 63 := by
          have : (10 : Nat) ^ 18 < 2 ^ 63 := by decide
          omega
        have h63' : digitsVal d ≤ 2 ^ 63 := by omega
        by_cases hneg : (c == 45) = true
        · simp [hnil, hl, hall, hneg, h63']
        · simp [hnil, hl, hall, hneg, h63]
      · have hall' : d.all isDigit = false := by simpa using hall
        simp [hnil, hl, hall']

/-- `strconv.Atoi` = the specification, on every byte string -/
theorem atoi_eq_spec (s : Bytes) : atoi s = atoiSpec s := by
  unfold atoi
  split
  · rename_i h
    simp only [Bool.and_eq_true, decide_eq_true_eq] at h
    exact atoiFast_eq_spec s h.2
  · exact parseInt10_eq_spec s

/-! ### which strings denote 0 and 1 -/

theorem isDigit_48 : isDigit 48 = true := by decide
theorem isDigit_49 : isDigit 49 = true := by decide

theorem all_isDigit_zeros (k : Nat) : (List.replicate k (48 : UInt8)).all isDigit = true := by
  induction k with
  | zero => rfl
  | succ k ih => rw [List.replicate_succ, List.all_cons, ih, isDigit_48]; rfl

theorem digit_val_zero (c : UInt8) (hc : isDigit c = true) : c.toNat - 48 = 0 ↔ c = 48 := by
  have h := (isDigit_iff c).1 hc
  constructor
  · intro h0
    apply UInt8.toNat_inj.1
    show c.toNat = 48
    omega
  · rintro rfl; decide

theorem digit_val_one (c : UInt8) (hc : isDigit c = true) : c.toNat - 48 = 1 ↔ c = 49 := by
  have h := (isDigit_iff c).1 hc
  constructor
  · intro h0
    apply UInt8.toNat_inj.1
    show c.toNat = 49
    omega
  · rintro rfl; decide

theorem foldDigits_eq_zero (s : Bytes) (hs : s.all isDigit = true) :
    ∀ n, foldDigits n s = 0 ↔ n = 0 ∧ s = List.replicate s.length 48 := by
  induction s with
  | nil => intro n; simp [foldDigits_nil]
  | cons c t ih =>
    intro n
    rw [List.all_cons, Bool.and_eq_true] at hs
    rw [foldDigits_cons, ih hs.2, List.length_cons, List.replicate_succ]
    constructor
    · rintro ⟨h0, ht⟩
      have hn : n = 0 := by omega
      have hd : c.toNat - 48 = 0 := by omega
      rw [(digit_val_zero c hs.1).1 hd, ← ht]
      exact ⟨hn, rfl⟩
    · rintro ⟨hn, hct⟩
      injection hct with hc ht
      subst hn
      refine ⟨?_, ht⟩
      rw [(digit_val_zero c hs.1).2 hc]

theorem foldDigits_eq_one (s : Bytes) (hs : s.all isDigit = true) :
    ∀ n, foldDigits n s = 1 ↔
      (n = 1 ∧ s = []) ∨ (n = 0 ∧ ∃ k, s = List.replicate k 48 ++ [49]) := by
  induction s with
  | nil =>
    intro n
    simp [foldDigits_nil]
  | cons c t ih =>
    intro n
    rw [List.all_cons, Bool.and_eq_true] at hs
    rw [foldDigits_cons, ih hs.2]
    have hcd := (isDigit_iff c).1 hs.1
    constructor
    · rintro (⟨h1, ht⟩ | ⟨h0, k, ht⟩)
      · right
        have hn : n = 0 := by omega
        have hd : c.toNat - 48 = 1 := by omega
        refine ⟨hn, 0, ?_⟩
        rw [(digit_val_one c hs.1).1 hd, ht]; rfl
      · right
        have hn : n = 0 := by omega
        have hd : c.toNat - 48 = 0 := by omega
        refine ⟨hn, k + 1, ?_⟩
        rw [(digit_val_zero c hs.1).1 hd, ht, List.replicate_succ]; rfl
    · rintro (⟨_, hnil⟩ | ⟨hn, k, hk⟩)
      · cases hnil
      · subst hn
        cases k with
        | zero =>
          simp only [List.replicate_zero, List.nil_append] at hk
          injection hk with hc ht
          left
          refine ⟨?_, ht⟩
          rw [(digit_val_one c hs.1).2 hc]
        | succ k =>
          rw [List.replicate_succ, List.cons_append] at hk
          injection hk with hc ht
          right
          refine ⟨?_, k, ht⟩
          rw [(digit_val_zero c hs.1).2 hc]

theorem digitsVal_eq_zero (s : Bytes) (hs : s.all isDigit = true) :
    digitsVal s = 0 ↔ s = List.replicate s.length 48 := by
  rw [digitsVal_eq, foldDigits_eq_zero s hs 0]; simp

theorem digitsVal_eq_one (s : Bytes) (hs : s.all isDigit = true) :
    digitsVal s = 1 ↔ ∃ k, s = List.replicate k 48 ++ [49] := by
  rw [digitsVal_eq, foldDigits_eq_one s hs 0]; simp

theorem all_isDigit_zeros_one (k : Nat) : (List.replicate k (48 : UInt8) ++ [49]).all isDigit = true := by
  rw [List.all_append, all_isDigit_zeros]; rfl

/-- the digit strings of value 0 … -/
theorem digits_zero_iff (d : Bytes) :
    (d ≠ [] ∧ d.all isDigit = true ∧ digitsVal d = 0) ↔ ∃ k, d = List.replicate (k + 1) 48 := by
  constructor
  · rintro ⟨hne, hall, hv⟩
    have := (digitsVal_eq_zero d hall).1 hv
    cases d with
    | nil => exact absurd rfl hne
    | cons c t => exact ⟨t.length, by simpa using this⟩
  · rintro ⟨k, rfl⟩
    have hall := all_isDigit_zeros (k + 1)
    refine ⟨by simp [List.replicate_succ], hall, ?_⟩
    rw [digitsVal_eq_zero _ hall]; simp

/-- … and of value 1 -/
theorem digits_one_iff (d : Bytes) :
    (d ≠ [] ∧ d.all isDigit = true ∧ digitsVal d = 1) ↔ ∃ k, d = List.replicate k 48 ++ [49] := by
  constructor
  · rintro ⟨_, hall, hv⟩
    exact (digitsVal_eq_one d hall).1 hv
  · rintro ⟨k, rfl⟩
    have hall := all_isDigit_zeros_one k
    refine ⟨by simp, hall, ?_⟩
    rw [digitsVal_eq_one _ hall]; exact ⟨k, rfl⟩

/-! the specification, sign by sign -/

theorem atoiSpec_minus (t : Bytes) :
    atoiSpec (45 :: t) =
      if t = [] ∨ t.all isDigit = false then none
      else if digitsVal t ≤ 2 ^ 63 then some (-(digitsVal t : Int)) else none := by
  simp [atoiSpec]

theorem atoiSpec_plus (t : Bytes) :
    atoiSpec (43 :: t) =
      if t = [] ∨ t.all isDigit = false then none
      else if digitsVal t < 2 ^ 63 then some (digitsVal t : Int) else none := by
  simp [atoiSpec]

theorem atoiSpec_unsigned (c : UInt8) (t : Bytes) (h45 : c ≠ 45) (h43 : c ≠ 43) :
    atoiSpec (c :: t) =
      if (c :: t).all isDigit = false then none
      else if digitsVal (c :: t) < 2 ^ 63 then some (digitsVal (c :: t) : Int) else none := by
  simp [atoiSpec, h45, h43]

/-- the value of a string in terms of its sign and digits -/
theorem atoiSpec_eq_some_iff (s : Bytes) (z : Int) :
    atoiSpec s = some z ↔
      ∃ sg d, s = sg ++ d ∧ d ≠ [] ∧ d.all isDigit = true ∧
        ((sg = [] ∧ z = digitsVal d ∧ digitsVal d < 2 ^ 63) ∨
         (sg = [43] ∧ z = digitsVal d ∧ digitsVal d < 2 ^ 63) ∨
         (sg = [45] ∧ z = -(digitsVal d : Int) ∧ digitsVal d ≤ 2 ^ 63)) := by
  cases s with
  | nil =>
    constructor
    · intro h; cases h
    · rintro ⟨sg, d, h, hne, _⟩
      have : d = [] := by
        have := congrArg List.length h; simp at this; exact List.eq_nil_of_length_eq_zero (by omega)
      exact absurd this hne
  | cons c t =>
    by_cases h45 : c = 45
    · subst h45
      rw [atoiSpec_minus]
      constructor
      · intro h
        split at h
        · cases h
        · rename_i hc
          split at h
          · rename_i hr
            have hne : t ≠ [] := fun e => hc (Or.inl e)
            have hall : t.all isDigit = true := by
              cases ha : t.all isDigit with
              | true => rfl
              | false => exact absurd (Or.inr ha) hc
            injection h with h
            exact ⟨[45], t, rfl, hne, hall, Or.inr (Or.inr ⟨rfl, h.symm, hr⟩)⟩
          · cases h
      · rintro ⟨sg, d, h, hne, hall, hcase⟩
        have hd45 : ∀ x ∈ d, x ≠ 45 := by
          intro x hx e
          have := List.all_eq_true.1 hall x hx
          rw [e] at this; exact absurd this (by decide)
        rcases hcase with ⟨rfl, _, _⟩ | ⟨rfl, _, _⟩ | ⟨rfl, hz, hr⟩
        · cases d with
          | nil => exact absurd rfl hne
          | cons x d' =>
            simp only [List.nil_append] at h
            injection h with hx _
            exact absurd hx.symm (hd45 x (by simp))
        · simp only [List.cons_append, List.nil_append] at h
          injection h with hx _
          exact absurd hx (by decide)
        · simp only [List.cons_append, List.nil_append] at h
          injection h with _ ht
          subst ht
          have : ¬ (t = [] ∨ t.all isDigit = false) := by
            rintro (e | e)
            · exact hne e
            · rw [hall] at e; cases e
          rw [if_neg this, if_pos hr, hz]
    · by_cases h43 : c = 43
      · subst h43
        rw [atoiSpec_plus]
        constructor
        · intro h
          split at h
          · cases h
          · rename_i hc
            split at h
            · rename_i hr
              have hne : t ≠ [] := fun e => hc (Or.inl e)
              have hall : t.all isDigit = true := by
                cases ha : t.all isDigit with
                | true => rfl
                | false => exact absurd (Or.inr ha) hc
              injection h with h
              exact ⟨[43], t, rfl, hne, hall, Or.inr (Or.inl ⟨rfl, h.symm, hr⟩)⟩
            · cases h
        · rintro ⟨sg, d, h, hne, hall, hcase⟩
          have hd43 : ∀ x ∈ d, x ≠ 43 := by
            intro x hx e
            have := List.all_eq_true.1 hall x hx
            rw [e] at this; exact absurd this (by decide)
          rcases hcase with ⟨rfl, _, _⟩ | ⟨rfl, hz, hr⟩ | ⟨rfl, _, _⟩
          · cases d with
            | nil => exact absurd rfl hne
            | cons x d' =>
              simp only [List.nil_append] at h
              injection h with hx _
              exact absurd hx.symm (hd43 x (by simp))
          · simp only [List.cons_append, List.nil_append] at h
            injection h with _ ht
            subst ht
            have : ¬ (t = [] ∨ t.all isDigit = false) := by
              rintro (e | e)
              · exact hne e
              · rw [hall] at e; cases e
            rw [if_neg this, if_pos hr, hz]
          · simp only [List.cons_append, List.nil_append] at h
            injection h with hx _
            exact absurd hx (by decide)
      · rw [atoiSpec_unsigned c t h45 h43]
        constructor
        · intro h
          split at h
          · cases h
          · rename_i hc
            split at h
            · rename_i hr
              have hall : (c :: t).all isDigit = true := by
                cases ha : (c :: t).all isDigit with
                | true => rfl
                | false => exact absurd ha hc
              injection h with h
              exact ⟨[], c :: t, rfl, by simp, hall, Or.inl ⟨rfl, h.symm, hr⟩⟩
            · cases h
        · rintro ⟨sg, d, h, hne, hall, hcase⟩
          rcases hcase with ⟨rfl, hz, hr⟩ | ⟨rfl, _, _⟩ | ⟨rfl, _, _⟩
          · simp only [List.nil_append] at h
            subst h
            have : ¬ ((c :: t).all isDigit = false) := by rw [hall]; simp
            rw [if_neg this, if_pos hr, hz]
          · simp only [List.cons_append, List.nil_append] at h
            injection h with hx _
            exact absurd hx h43
          · simp only [List.cons_append, List.nil_append] at h
            injection h with hx _
            exact absurd hx h45

end PP
