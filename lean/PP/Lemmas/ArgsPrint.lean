import PP.Spec.WF
import PP.Lemmas.PrintLemmas
/-
Stage 2 of C01: the argument list.  `parseArgs (printArgList as e)` recovers
`expArgs as` and `e` (token view: the parser splits the whole text on ", ", so
the units are leaf tokens `{{0x1`, `0x2?}`, `{}`, `{...}}`, `_`), and the bytes
a printed argument list is made of.
-/
namespace PP.Spec
open PP Bytes

/-! ### generic -/

theorem join_cons_ne (sep x : Bytes) (l : List Bytes) (h : l ≠ []) :
    join sep (x :: l) = x ++ sep ++ join sep l := by
  cases l with
  | nil => exact absurd rfl h
  | cons y ys => rfl

theorem join_append_ne (sep : Bytes) (l1 l2 : List Bytes) (h1 : l1 ≠ []) (h2 : l2 ≠ []) :
    join sep (l1 ++ l2) = join sep l1 ++ sep ++ join sep l2 := by
  induction l1 with
  | nil => exact absurd rfl h1
  | cons x xs ih =>
    cases xs with
    | nil => simp [join_cons_ne _ _ _ h2, join]
    | cons y ys =>
      have : (y :: ys) ++ l2 ≠ [] := by simp
      rw [List.cons_append, join_cons_ne _ _ _ this, ih (by simp),
        join_cons_ne sep x (y :: ys) (by simp)]
      simp only [List.append_assoc]

theorem takeWhile_replicate_append (p : UInt8 → Bool) (n : Nat) (x : UInt8) (r : Bytes)
    (hx : p x = true) (hr : ∀ y ∈ r, p y = false) :
    (List.replicate n x ++ r).takeWhile p = List.replicate n x := by
  induction n with
  | zero =>
    cases r with
    | nil => rfl
    | cons y ys => simp [hr y (by simp)]
  | succ n ih => simp [List.replicate_succ, hx, ih]

/-! ### tokens -/

abbrev Tok := Nat × Bytes × Nat

def tokText (t : Tok) : Bytes := List.replicate t.1 123 ++ t.2.1 ++ List.replicate t.2.2 125

def leafByte (c : UInt8) : Bool := c == 46 || c == 95 || c == 63 || c == 120 || isLowerHex c

def LeafOK (l : Bytes) : Prop := ∀ c ∈ l, leafByte c = true

theorem leafByte_ne {c : UInt8} (h : leafByte c = true) : c ≠ 123 ∧ c ≠ 125 ∧ c ≠ 44 := by
  refine ⟨?_, ?_, ?_⟩ <;> (intro hc; subst hc; revert h; decide)

theorem trim_tokText (o c : Nat) (l : Bytes) (hl : LeafOK l) :
    trimCurlyBrackets (tokText (o, l, c)) = (o, l, c) := by
  have h1 : (List.replicate o 123 ++ (l ++ List.replicate c 125)).takeWhile (· == (123 : UInt8))
      = List.replicate o 123 := by
    apply takeWhile_replicate_append
    · rfl
    · intro y hy
      rcases List.mem_append.1 hy with h | h
      · have := (leafByte_ne (hl y h)).1; simpa using this
      · have := (List.mem_replicate.1 h).2; subst this; rfl
  have h2 : (List.replicate c 125 ++ l.reverse).takeWhile (· == (125 : UInt8))
      = List.replicate c 125 := by
    apply takeWhile_replicate_append
    · rfl
    · intro y hy
      have := (leafByte_ne (hl y (List.mem_reverse.1 hy))).2.1; simpa using this
  unfold trimCurlyBrackets tokText
  simp only [List.append_assoc, h1, List.length_replicate, List.drop_left', List.reverse_append,
    List.reverse_replicate, h2]
  simp

/-! ### the parser on tokens -/

def bindE (x : Except ArgErr (List Frame)) (f : List Frame → Except ArgErr (List Frame)) :
    Except ArgErr (List Frame) :=
  match x with
  | .error e => .error e
  | .ok st => f st

theorem bindE_assoc (x : Except ArgErr (List Frame)) (f g : List Frame → Except ArgErr (List Frame)) :
    bindE (bindE x f) g = bindE x (fun s => bindE (f s) g) := by
  cases x <;> rfl

@[simp] theorem bindE_ok (st : List Frame) (f : List Frame → Except ArgErr (List Frame)) :
    bindE (.ok st) f = f st := rfl

/-- what `argItem` does with the middle of an item -/
def leafStep (a : Bytes) (st : List Frame) : Except ArgErr (List Frame) :=
  if a.length > 0 then
    if a == Extracted.threeDots then
      match st with
      | (vs, _) :: t => .ok ((vs, true) :: t)
      | [] => .ok st
    else if a == Extracted.underscore then .ok (pushVal (.scalar [] 0 false true false) st)
    else
      let inacc := hasSuffix a Extracted.inaccurateQuestionMark
      let a' := if inacc then a.take (a.length - Extracted.inaccurateQuestionMark.length) else a
      match parseUint0 a' with
      | none => .error .int
      | some v => .ok (pushVal (.scalar [] v (isPtrValue v) false inacc) st)
  else .ok st

theorem argItem_tok (st : List Frame) (o c : Nat) (l : Bytes) (hl : LeafOK l) :
    argItem st (tokText (o, l, c)) =
      bindE (bindE (argItem.openN o st) (leafStep l)) (argItem.closeN c) := by
  unfold argItem
  rw [trim_tokText o c l hl]
  dsimp only
  cases argItem.openN o st <;> rfl

def open1 (st : List Frame) : Except ArgErr (List Frame) :=
  if st.length ≥ Extracted.maxDepth then .error .depth else .ok (([], false) :: st)

def close1 (st : List Frame) : Except ArgErr (List Frame) :=
  match st with
  | (vs, e) :: (pvs, pe) :: t => .ok ((pvs ++ [Arg.agg vs e], pe) :: t)
  | _ => .error .close

theorem openN_succ (n : Nat) (st : List Frame) :
    argItem.openN (n + 1) st = bindE (open1 st) (argItem.openN n) := by
  unfold open1
  rw [argItem.openN]
  split <;> rfl

theorem closeN_succ (n : Nat) (st : List Frame) :
    argItem.closeN (n + 1) st = bindE (argItem.closeN n st) close1 := by
  induction n generalizing st with
  | zero =>
    match st with
    | [] => rfl
    | [_] => rfl
    | (vs, e) :: (pvs, pe) :: t => rfl
  | succ n ih =>
    match st with
    | [] => rfl
    | [_] => rfl
    | (vs, e) :: (pvs, pe) :: t =>
      rw [argItem.closeN, ih]
      rfl

def run : List Tok → List Frame → Except ArgErr (List Frame)
  | [], st => .ok st
  | t :: ts, st => bindE (argItem st (tokText t)) (run ts)

theorem go_eq_run (L : List Tok) (st : List Frame) : parseArgs.go (L.map tokText) st = run L st := by
  induction L generalizing st with
  | nil => rfl
  | cons t ts ih =>
    simp only [List.map_cons, parseArgs.go, run]
    cases argItem st (tokText t) with
    | error e => rfl
    | ok s => exact ih s

theorem run_append (L1 L2 : List Tok) (st : List Frame) :
    run (L1 ++ L2) st = bindE (run L1 st) (run L2) := by
  induction L1 generalizing st with
  | nil => rfl
  | cons t ts ih =>
    simp only [List.cons_append, run, bindE_assoc]
    congr 1
    funext s
    exact ih s

/-! ### wrapping a token list in `{` … `}` -/

def openFirst : List Tok → List Tok
  | [] => []
  | (o, l, c) :: ts => (o + 1, l, c) :: ts

def closeLast : List Tok → List Tok
  | [] => []
  | [(o, l, c)] => [(o, l, c + 1)]
  | t :: ts => t :: closeLast ts

def wrap (L : List Tok) : List Tok := closeLast (openFirst L)

def leaves (L : List Tok) : List Bytes := L.map (fun t => t.2.1)

theorem leaves_openFirst (L : List Tok) : leaves (openFirst L) = leaves L := by
  cases L with
  | nil => rfl
  | cons t ts => rfl

theorem leaves_closeLast (L : List Tok) : leaves (closeLast L) = leaves L := by
  induction L with
  | nil => rfl
  | cons t ts ih =>
    cases ts with
    | nil => rfl
    | cons u us =>
      show leaves (t :: closeLast (u :: us)) = _
      simp only [leaves, List.map_cons] at ih ⊢
      rw [ih]

theorem leaves_wrap (L : List Tok) : leaves (wrap L) = leaves L := by
  unfold wrap; rw [leaves_closeLast, leaves_openFirst]

theorem openFirst_ne (L : List Tok) (h : L ≠ []) : openFirst L ≠ [] := by
  cases L with
  | nil => exact absurd rfl h
  | cons t ts => simp [openFirst]

theorem closeLast_ne (L : List Tok) (h : L ≠ []) : closeLast L ≠ [] := by
  cases L with
  | nil => exact absurd rfl h
  | cons t ts => cases ts <;> simp [closeLast]

theorem wrap_ne (L : List Tok) (h : L ≠ []) : wrap L ≠ [] :=
  closeLast_ne _ (openFirst_ne _ h)

theorem closeLast_cons_ne (t : Tok) (ts : List Tok) (h : ts ≠ []) :
    closeLast (t :: ts) = t :: closeLast ts := by
  cases ts with
  | nil => exact absurd rfl h
  | cons u us => rfl

/-- texts -/
theorem tokText_open (o c : Nat) (l : Bytes) : tokText (o + 1, l, c) = 123 :: tokText (o, l, c) := by
  simp [tokText, List.replicate_succ]

theorem tokText_close (o c : Nat) (l : Bytes) : tokText (o, l, c + 1) = tokText (o, l, c) ++ [125] := by
  simp [tokText, List.replicate_succ']

theorem join_openFirst (sep : Bytes) (L : List Tok) (h : L ≠ []) :
    join sep ((openFirst L).map tokText) = 123 :: join sep (L.map tokText) := by
  match L with
  | [] => exact absurd rfl h
  | [(o, l, c)] => simp [openFirst, join, tokText_open]
  | (o, l, c) :: u :: us =>
    show tokText (o + 1, l, c) ++ sep ++ join sep (tokText u :: us.map tokText)
      = 123 :: (tokText (o, l, c) ++ sep ++ join sep (tokText u :: us.map tokText))
    rw [tokText_open]
    rfl

theorem join_closeLast (sep : Bytes) (L : List Tok) (h : L ≠ []) :
    join sep ((closeLast L).map tokText) = join sep (L.map tokText) ++ [125] := by
  induction L with
  | nil => exact absurd rfl h
  | cons t ts ih =>
    cases ts with
    | nil =>
      obtain ⟨o, l, c⟩ := t
      simp [closeLast, join, tokText_close]
    | cons u us =>
      rw [closeLast_cons_ne _ _ (by simp), List.map_cons,
        join_cons_ne sep (tokText t) _ (by simpa using closeLast_ne (u :: us) (by simp)), ih (by simp)]
      show _ = (tokText t ++ sep ++ join sep (List.map tokText (u :: us))) ++ [125]
      simp only [List.append_assoc]

theorem join_wrap (sep : Bytes) (L : List Tok) (h : L ≠ []) :
    join sep ((wrap L).map tokText) = [123] ++ join sep (L.map tokText) ++ [125] := by
  unfold wrap
  rw [join_closeLast _ _ (openFirst_ne _ h), join_openFirst _ _ h]
  rfl

/-- semantics -/
theorem run_openFirst (L : List Tok) (h : L ≠ []) (hl : ∀ l ∈ leaves L, LeafOK l) (st : List Frame) :
    run (openFirst L) st = bindE (open1 st) (run L) := by
  match L with
  | [] => exact absurd rfl h
  | (o, l, c) :: ts =>
    have hl' : LeafOK l := hl l (by simp [leaves])
    simp only [openFirst, run]
    rw [argItem_tok _ _ _ _ hl', openN_succ]
    simp only [bindE_assoc]
    congr 1
    funext s
    rw [argItem_tok _ _ _ _ hl']
    simp only [bindE_assoc]

theorem run_closeLast (L : List Tok) (h : L ≠ []) (hl : ∀ l ∈ leaves L, LeafOK l) (st : List Frame) :
    run (closeLast L) st = bindE (run L st) close1 := by
  induction L generalizing st with
  | nil => exact absurd rfl h
  | cons t ts ih =>
    cases ts with
    | nil =>
      obtain ⟨o, l, c⟩ := t
      have hl' : LeafOK l := hl l (by simp [leaves])
      simp only [closeLast, run]
      rw [argItem_tok _ _ _ _ hl', argItem_tok _ _ _ _ hl']
      simp only [bindE_assoc]
      congr 1
      funext s
      congr 1
      funext s'
      rw [closeN_succ]
      cases argItem.closeN c s' with
      | error e => rfl
      | ok s2 =>
        simp only [bindE_ok]
        cases close1 s2 <;> rfl
    | cons u us =>
      rw [closeLast_cons_ne _ _ (by simp)]
      simp only [run] at ih ⊢
      rw [bindE_assoc]
      congr 1
      funext s
      exact ih (by simp) (fun l hm => hl l (by simp [leaves] at hm ⊢; exact Or.inr hm)) s

theorem run_wrap (L : List Tok) (h : L ≠ []) (hl : ∀ l ∈ leaves L, LeafOK l) (st : List Frame) :
    run (wrap L) st = bindE (open1 st) (fun s => bindE (run L s) close1) := by
  unfold wrap
  rw [run_closeLast _ (openFirst_ne _ h) (by rw [leaves_openFirst]; exact hl), run_openFirst _ h hl,
    bindE_assoc]

/-! ### the tokens of a printed argument list -/

def wordLeaf (v : Nat) (inacc : Bool) : Bytes := b!"0x" ++ natToHex v ++ (if inacc then b!"?" else [])

def dotsTok (e : Bool) : List Tok := if e then [(0, b!"...", 0)] else []

/-- the list with the elision marker; an empty list is one empty token -/
def finish (L : List Tok) (e : Bool) : List Tok :=
  match L ++ dotsTok e with
  | [] => [(0, [], 0)]
  | t :: ts => t :: ts

mutual
def toksArg : ArgSpec → List Tok
  | .val v inacc => [(0, wordLeaf v inacc, 0)]
  | .otl => [(0, b!"_", 0)]
  | .agg fs e => wrap (finish (toksItems fs) e)
def toksItems : List ArgSpec → List Tok
  | [] => []
  | a :: as => toksArg a ++ toksItems as
end

def toksList (as : List ArgSpec) (e : Bool) : List Tok := finish (toksItems as) e

theorem finish_ne (L : List Tok) (e : Bool) : finish L e ≠ [] := by
  unfold finish; split <;> simp

theorem finish_of_ne (L : List Tok) (e : Bool) (h : L ++ dotsTok e ≠ []) : finish L e = L ++ dotsTok e := by
  unfold finish; split
  · next h' => exact absurd h' h
  · next h' => exact h'.symm

theorem toksArg_ne (a : ArgSpec) : toksArg a ≠ [] := by
  cases a with
  | val v i => simp [toksArg]
  | otl => simp [toksArg]
  | agg fs e => rw [toksArg]; exact wrap_ne _ (finish_ne _ _)

theorem toksItems_eq_nil {as : List ArgSpec} (h : toksItems as = []) : as = [] := by
  cases as with
  | nil => rfl
  | cons a as =>
    rw [toksItems] at h
    exact absurd (List.append_eq_nil_iff.1 h).1 (toksArg_ne a)

/-! ### leaves -/

theorem leafOK_nil : LeafOK [] := by intro c h; cases h
theorem leafOK_dots : LeafOK b!"..." := by
  intro c h; simp at h; subst h; decide
theorem leafOK_us : LeafOK b!"_" := by
  intro c h; simp at h; subst h; decide
theorem leafOK_word (v : Nat) (i : Bool) : LeafOK (wordLeaf v i) := by
  intro c h
  unfold wordLeaf at h
  rcases List.mem_append.1 h with h | h
  · rcases List.mem_append.1 h with h | h
    · simp at h; rcases h with h | h <;> (subst h; decide)
    · have := List.all_eq_true.1 (natToHex_all_lowerHex v) c h
      simp [leafByte, this]
  · cases i
    · simp at h
    · simp at h; subst h; decide

theorem leaves_append (L1 L2 : List Tok) : leaves (L1 ++ L2) = leaves L1 ++ leaves L2 := by
  simp [leaves]

theorem leaves_finish (L : List Tok) (e : Bool) (h : ∀ l ∈ leaves L, LeafOK l) :
    ∀ l ∈ leaves (finish L e), LeafOK l := by
  unfold finish
  split
  · intro l hl; simp [leaves] at hl; subst hl; exact leafOK_nil
  · next t ts heq =>
    rw [← heq, leaves_append]
    intro l hl
    rcases List.mem_append.1 hl with hl | hl
    · exact h l hl
    · cases e
      · simp [dotsTok, leaves] at hl
      · simp [dotsTok, leaves] at hl; subst hl; exact leafOK_dots

mutual
theorem leaves_toksArg : ∀ (a : ArgSpec), ∀ l ∈ leaves (toksArg a), LeafOK l
  | .val v i => by
    intro l hl; simp [toksArg, leaves] at hl; subst hl; exact leafOK_word v i
  | .otl => by
    intro l hl; simp [toksArg, leaves] at hl; subst hl; exact leafOK_us
  | .agg fs e => by
    rw [toksArg, leaves_wrap]
    exact leaves_finish _ _ (leaves_toksItems fs)
theorem leaves_toksItems : ∀ (as : List ArgSpec), ∀ l ∈ leaves (toksItems as), LeafOK l
  | [] => by intro l hl; simp [toksItems, leaves] at hl
  | a :: as => by
    rw [toksItems, leaves_append]
    intro l hl
    rcases List.mem_append.1 hl with hl | hl
    · exact leaves_toksArg a l hl
    · exact leaves_toksItems as l hl
end

theorem leaves_toksList (as : List ArgSpec) (e : Bool) : ∀ l ∈ leaves (toksList as e), LeafOK l :=
  leaves_finish _ _ (leaves_toksItems as)

/-! ### the text -/

def dotsItem (e : Bool) : List Bytes := if e then [b!"..."] else []

theorem dots_text (e : Bool) : (dotsTok e).map tokText = dotsItem e := by
  cases e <;> rfl

theorem join_finish (L : List Tok) (e : Bool) :
    join b!", " ((finish L e).map tokText) = join b!", " (L.map tokText ++ dotsItem e) := by
  unfold finish
  split
  · next h =>
    have := List.append_eq_nil_iff.1 h
    rw [this.1]
    cases e
    · rfl
    · simp [dotsTok] at this
  · next t ts h => rw [← h, List.map_append, dots_text]

mutual
theorem text_toksArg : ∀ (a : ArgSpec), join b!", " ((toksArg a).map tokText) = printArg a
  | .val v i => by simp [toksArg, join, tokText, wordLeaf, printArg]
  | .otl => by simp [toksArg, join, tokText, printArg]
  | .agg fs e => by
    rw [toksArg, join_wrap _ _ (finish_ne _ _), join_finish, text_toksItems fs (dotsItem e), printArg]
    rfl
theorem text_toksItems : ∀ (as : List ArgSpec) (R : List Bytes),
    join b!", " ((toksItems as).map tokText ++ R) = join b!", " (printArgItems as ++ R)
  | [], R => by simp [toksItems, printArgItems]
  | a :: as, R => by
    rw [toksItems, printArgItems, List.map_append, List.append_assoc, List.cons_append]
    have ha : (toksArg a).map tokText ≠ [] := by simpa using toksArg_ne a
    by_cases h : (toksItems as).map tokText ++ R = []
    · have h' := List.append_eq_nil_iff.1 h
      have has : as = [] := toksItems_eq_nil (by simpa using h'.1)
      rw [h'.1, h'.2, has]
      simp [printArgItems, join, text_toksArg a]
    · have h2 : printArgItems as ++ R ≠ [] := by
        intro h3
        have h3' := List.append_eq_nil_iff.1 h3
        apply h
        cases as with
        | nil => simp [toksItems, h3'.2]
        | cons b bs => simp [printArgItems] at h3'
      rw [join_append_ne _ _ _ ha h, join_cons_ne _ _ _ h2, text_toksArg a, text_toksItems as R]
end

theorem text_toksList (as : List ArgSpec) (e : Bool) :
    join b!", " ((toksList as e).map tokText) = printArgList as e := by
  rw [toksList, join_finish, text_toksItems as (dotsItem e)]
  rfl

/-! ### splitting -/

theorem not_mem_tokText (t : Tok) (h : LeafOK t.2.1) : (44 : UInt8) ∉ tokText t := by
  intro hm
  unfold tokText at hm
  rcases List.mem_append.1 hm with hm | hm
  · rcases List.mem_append.1 hm with hm | hm
    · have := (List.mem_replicate.1 hm).2; revert this; decide
    · exact (leafByte_ne (h _ hm)).2.2 rfl
  · have := (List.mem_replicate.1 hm).2; revert this; decide

theorem splitOn_toks (L : List Tok) (hne : L ≠ []) (hl : ∀ l ∈ leaves L, LeafOK l) :
    splitOn (join b!", " (L.map tokText)) Extracted.commaSpace = L.map tokText := by
  apply splitOn_join_commaSpace
  · simpa using hne
  · intro t ht
    obtain ⟨tk, htk, rfl⟩ := List.mem_map.1 ht
    apply hasCS_of_not_mem
    exact not_mem_tokText tk (hl _ (List.mem_map.2 ⟨tk, htk, rfl⟩))

/-! ### leaves, semantically -/

theorem run_single (l : Bytes) (hl : LeafOK l) (st : List Frame) :
    run [(0, l, 0)] st = leafStep l st := by
  simp only [run]
  rw [argItem_tok _ _ _ _ hl]
  simp only [argItem.openN, bindE_ok]
  cases leafStep l st <;> rfl

theorem leafStep_nil (st : List Frame) : leafStep [] st = .ok st := rfl

theorem leafStep_dots (vs : List Arg) (el : Bool) (t : List Frame) :
    leafStep b!"..." ((vs, el) :: t) = .ok ((vs, true) :: t) := rfl

theorem leafStep_us (vs : List Arg) (el : Bool) (t : List Frame) :
    leafStep b!"_" ((vs, el) :: t) = .ok ((vs ++ [.scalar [] 0 false true false], el) :: t) := rfl

theorem getLast?_hex_ne (v : Nat) : ((b!"0x" ++ natToHex v).getLast? == some (63 : UInt8)) = false := by
  have hne := natToHex_ne_nil v
  rw [List.getLast?_append]
  cases h : (natToHex v).getLast? with
  | none => exact absurd (List.getLast?_eq_none_iff.1 h) hne
  | some y =>
    rw [Option.some_or]
    have hy : y ∈ natToHex v := List.mem_of_getLast? h
    have := List.all_eq_true.1 (natToHex_all_lowerHex v) y hy
    by_cases h63 : y = 63
    · subst h63; revert this; decide
    · simp [h63]

theorem leafStep_word (v : Nat) (i : Bool) (hv : v < 2 ^ 64) (vs : List Arg) (el : Bool) (t : List Frame) :
    leafStep (wordLeaf v i) ((vs, el) :: t) =
      .ok ((vs ++ [.scalar [] v (isPtrValue v) false i], el) :: t) := by
  have hlen : (wordLeaf v i).length > 0 := by simp [wordLeaf]
  have h1 : (wordLeaf v i == Extracted.threeDots) = false := by
    simp [wordLeaf, Extracted.threeDots]
  have h2 : (wordLeaf v i == Extracted.underscore) = false := by
    simp [wordLeaf, Extracted.underscore]
  unfold leafStep
  rw [if_pos hlen, h1, h2]
  simp only [Bool.false_eq_true, if_false]
  cases i with
  | true =>
    have hs : hasSuffix (wordLeaf v true) Extracted.inaccurateQuestionMark = true := by
      unfold wordLeaf; exact hasSuffix_append _ _
    have ht : (wordLeaf v true).take ((wordLeaf v true).length - Extracted.inaccurateQuestionMark.length)
        = b!"0x" ++ natToHex v := by
      simp [wordLeaf, Extracted.inaccurateQuestionMark]
    rw [hs]
    simp only [if_true]
    rw [ht, parseUint0_hex v hv]
    rfl
  | false =>
    have hw : wordLeaf v false = b!"0x" ++ natToHex v := by simp [wordLeaf]
    have hs : hasSuffix (wordLeaf v false) Extracted.inaccurateQuestionMark = false := by
      rw [hw]; unfold Extracted.inaccurateQuestionMark
      rw [hasSuffix_singleton]; exact getLast?_hex_ne v
    rw [hs]
    simp only [Bool.false_eq_true, if_false]
    rw [hw, parseUint0_hex v hv]
    rfl

/-! ### the invariant -/

theorem open1_ok (st : List Frame) (h : st.length < 6) : open1 st = .ok (([], false) :: st) := by
  unfold open1
  rw [if_neg]
  show ¬ st.length ≥ 6
  omega

theorem run_dots (e : Bool) (vs : List Arg) (el : Bool) (t : List Frame) :
    run (dotsTok e) ((vs, el) :: t) = .ok ((vs, el || e) :: t) := by
  cases e
  · simp [dotsTok, run]
  · show run [(0, b!"...", 0)] _ = _
    rw [run_single _ leafOK_dots, leafStep_dots]
    simp

theorem run_finish (L : List Tok) (e : Bool) (vs vs' : List Arg) (el : Bool) (t : List Frame)
    (h : run L ((vs, el) :: t) = .ok ((vs', el) :: t)) :
    run (finish L e) ((vs, el) :: t) = .ok ((vs', el || e) :: t) := by
  by_cases hne : L ++ dotsTok e = []
  · have h' := List.append_eq_nil_iff.1 hne
    have he : e = false := by
      cases e
      · rfl
      · simp [dotsTok] at h'
    subst he
    rw [h'.1] at h
    simp only [run] at h
    unfold finish
    rw [hne]
    show run [(0, [], 0)] _ = _
    rw [run_single _ leafOK_nil, leafStep_nil, h]
    simp
  · rw [finish_of_ne _ _ hne, run_append, h, bindE_ok, run_dots]

mutual
theorem run_toksArg : ∀ (a : ArgSpec) (vs : List Arg) (el : Bool) (t : List Frame),
    argWF a = true → argDepth a + (t.length + 1) ≤ 6 →
    run (toksArg a) ((vs, el) :: t) = .ok ((vs ++ [expArg a], el) :: t)
  | .val v i, vs, el, t, hwf, _ => by
    have hv : v < 2 ^ 64 := by simpa [argWF] using hwf
    rw [toksArg, run_single _ (leafOK_word v i), leafStep_word v i hv, expArg]
  | .otl, vs, el, t, _, _ => by
    rw [toksArg, run_single _ leafOK_us, leafStep_us, expArg]
  | .agg fs e, vs, el, t, hwf, hd => by
    rw [argWF] at hwf
    rw [argDepth] at hd
    rw [toksArg, run_wrap _ (finish_ne _ _) (leaves_finish _ _ (leaves_toksItems fs)),
      open1_ok _ (by simp; omega), bindE_ok,
      run_finish _ e [] ([] ++ expArgs fs) false _
        (run_toksItems fs [] false ((vs, el) :: t) hwf (by simp; omega)),
      bindE_ok, expArg]
    simp [close1]
theorem run_toksItems : ∀ (as : List ArgSpec) (vs : List Arg) (el : Bool) (t : List Frame),
    argsWF as = true → argsDepth as + (t.length + 1) ≤ 6 →
    run (toksItems as) ((vs, el) :: t) = .ok ((vs ++ expArgs as, el) :: t)
  | [], vs, el, t, _, _ => by simp [toksItems, run, expArgs]
  | a :: as, vs, el, t, hwf, hd => by
    rw [argsWF, Bool.and_eq_true] at hwf
    rw [argsDepth] at hd
    rw [toksItems, run_append, run_toksArg a vs el t hwf.1 (by omega), bindE_ok,
      run_toksItems as _ el t hwf.2 (by omega), expArgs]
    simp
end

theorem run_toksList (as : List ArgSpec) (e : Bool) (hwf : argsWF as = true) (hd : argsDepth as ≤ 5) :
    run (toksList as e) [([], false)] = .ok [(expArgs as, e)] := by
  have := run_finish _ e [] ([] ++ expArgs as) false []
    (run_toksItems as [] false [] hwf (by simp; omega))
  simpa [toksList] using this

/-- the parser recovers exactly the described arguments -/
theorem parseArgs_print (as : List ArgSpec) (e : Bool)
    (hwf : argsWF as = true) (hd : argsDepth as ≤ 5) :
    parseArgs (printArgList as e) = .ok { values := expArgs as, elided := e } := by
  unfold parseArgs
  simp only
  rw [← text_toksList, splitOn_toks (toksList as e) (finish_ne _ _) (leaves_toksList as e), go_eq_run,
    run_toksList as e hwf hd]

/-- an inlined frame prints `(...)` -/
theorem parseArgs_inlined : parseArgs b!"..." = .ok { values := [], elided := true } :=
  parseArgs_print [] true rfl (by simp [argsDepth])

/-! ### the bytes of a printed argument list -/

/-- bytes of a printed argument list -/
def argByte (c : UInt8) : Bool :=
  c == 123 || c == 125 || c == 44 || c == 32 || c == 46 || c == 95 || c == 63 || c == 120 || isLowerHex c

theorem mem_join (sep : Bytes) (L : List Bytes) (c : UInt8) (h : c ∈ join sep L) :
    c ∈ sep ∨ ∃ l ∈ L, c ∈ l := by
  induction L with
  | nil => simp [join] at h
  | cons x xs ih =>
    cases xs with
    | nil => exact Or.inr ⟨x, by simp, by simpa [join] using h⟩
    | cons y ys =>
      rw [join_cons_ne _ _ _ (by simp)] at h
      rcases List.mem_append.1 h with h | h
      · rcases List.mem_append.1 h with h | h
        · exact Or.inr ⟨x, by simp, h⟩
        · exact Or.inl h
      · rcases ih h with h | ⟨l, hl, hc⟩
        · exact Or.inl h
        · exact Or.inr ⟨l, List.mem_cons_of_mem _ hl, hc⟩

theorem argByte_of_leafByte {c : UInt8} (h : leafByte c = true) : argByte c = true := by
  unfold leafByte at h
  unfold argByte
  simp only [Bool.or_eq_true] at h ⊢
  rcases h with (((h | h) | h) | h) | h <;> simp [h]

theorem argByte_tokText (t : Tok) (h : LeafOK t.2.1) : ∀ c ∈ tokText t, argByte c = true := by
  intro c hm
  unfold tokText at hm
  rcases List.mem_append.1 hm with hm | hm
  · rcases List.mem_append.1 hm with hm | hm
    · have := (List.mem_replicate.1 hm).2; subst this; decide
    · exact argByte_of_leafByte (h _ hm)
  · have := (List.mem_replicate.1 hm).2; subst this; decide

theorem printArgList_bytes (as : List ArgSpec) (e : Bool) : ∀ c ∈ printArgList as e, argByte c = true := by
  intro c hc
  rw [← text_toksList] at hc
  rcases mem_join _ _ _ hc with h | ⟨l, hl, hcl⟩
  · simp at h; rcases h with h | h <;> (subst h; decide)
  · obtain ⟨tk, htk, rfl⟩ := List.mem_map.1 hl
    exact argByte_tokText tk (leaves_toksList as e _ (List.mem_map.2 ⟨tk, htk, rfl⟩)) c hcl

/-- in particular no parenthesis and no line break -/
theorem printArgList_lacks (as : List ArgSpec) (e : Bool) (c : UInt8) (h : argByte c = false) :
    c ∉ printArgList as e := by
  intro hm
  rw [printArgList_bytes as e c hm] at h
  cases h

example : argByte 40 = false ∧ argByte 41 = false ∧ argByte 10 = false ∧ argByte 13 = false := by decide

/-- non-vacuity: a nested, elided list at the depth limit -/
example : parseArgs (printArgList
    [.val 1 false, .agg [.agg [.agg [.agg [.agg [.otl, .val 0xc000012345 true] true] false] false] false,
      .agg [] false] false] true)
    = .ok { values := expArgs ([.val 1 false, .agg [.agg [.agg [.agg [.agg [.otl, .val 0xc000012345 true] true]
      false] false] false, .agg [] false] false]), elided := true } :=
  parseArgs_print _ _ (by decide) (by decide)

#print axioms parseArgs_print
#print axioms parseArgs_inlined
#print axioms printArgList_lacks

end PP.Spec
