import PP.Model.Args
/-
"Pointer-likeness of a parsed value depends only on the value":
every scalar produced by `parseArgs` has `isPtr = isPtrValue value`.
-/
namespace PP
open Bytes

mutual
/-- every scalar inside the argument satisfies isPtr = isPtrValue value -/
def Arg.PtrOK : Arg → Prop
  | .scalar _ v p _ _ => p = isPtrValue v
  | .agg fs _ => ArgsPtrOK fs
/-- `Arg.PtrOK` for every element of the list -/
def ArgsPtrOK : List Arg → Prop
  | [] => True
  | a :: as => Arg.PtrOK a ∧ ArgsPtrOK as
end

@[simp] theorem ArgsPtrOK_nil : ArgsPtrOK [] = True := by
  simp [ArgsPtrOK]

@[simp] theorem ArgsPtrOK_cons (a : Arg) (as : List Arg) :
    ArgsPtrOK (a :: as) = (Arg.PtrOK a ∧ ArgsPtrOK as) := by
  simp [ArgsPtrOK]

@[simp] theorem Arg.PtrOK_scalar (n : Bytes) (v : Nat) (p o i : Bool) :
    Arg.PtrOK (.scalar n v p o i) = (p = isPtrValue v) := by
  simp [Arg.PtrOK]

@[simp] theorem Arg.PtrOK_agg (fs : List Arg) (e : Bool) :
    Arg.PtrOK (.agg fs e) = ArgsPtrOK fs := by
  simp [Arg.PtrOK]

@[simp] theorem ArgsPtrOK_append (as bs : List Arg) :
    ArgsPtrOK (as ++ bs) = (ArgsPtrOK as ∧ ArgsPtrOK bs) := by
  induction as with
  | nil => simp
  | cons a as ih => simp [ih, and_assoc]

theorem ArgsPtrOK_iff_forall (as : List Arg) : ArgsPtrOK as ↔ ∀ a ∈ as, Arg.PtrOK a := by
  induction as with
  | nil => simp
  | cons a as ih => simp [ih]

theorem isPtrValue_zero : isPtrValue 0 = false := by
  simp [isPtrValue, Extracted.pointerFloor]

/-- the stack invariant: every frame holds `ArgsPtrOK` values -/
def StackPtrOK : List Frame → Prop
  | [] => True
  | (vs, _) :: t => ArgsPtrOK vs ∧ StackPtrOK t

@[simp] theorem StackPtrOK_nil : StackPtrOK [] = True := rfl
@[simp] theorem StackPtrOK_cons (vs : List Arg) (e : Bool) (t : List Frame) :
    StackPtrOK ((vs, e) :: t) = (ArgsPtrOK vs ∧ StackPtrOK t) := rfl

theorem pushVal_ptrOK (a : Arg) (st : List Frame) (ha : Arg.PtrOK a) (h : StackPtrOK st) :
    StackPtrOK (pushVal a st) := by
  cases st with
  | nil => simp [pushVal]
  | cons f t =>
    obtain ⟨vs, e⟩ := f
    simp only [StackPtrOK_cons] at h
    simp [pushVal, h.1, h.2, ha]

theorem openN_ptrOK (n : Nat) (st st' : List Frame) (h : StackPtrOK st)
    (ho : argItem.openN n st = .ok st') : StackPtrOK st' := by
  induction n generalizing st with
  | zero =>
    simp only [argItem.openN, Except.ok.injEq] at ho
    subst ho; exact h
  | succ n ih =>
    simp only [argItem.openN] at ho
    split at ho
    · cases ho
    · exact ih _ (by simp [h]) ho

theorem closeN_ptrOK (n : Nat) (st st' : List Frame) (h : StackPtrOK st)
    (hc : argItem.closeN n st = .ok st') : StackPtrOK st' := by
  induction n generalizing st with
  | zero =>
    simp only [argItem.closeN, Except.ok.injEq] at hc
    subst hc; exact h
  | succ n ih =>
    simp only [argItem.closeN] at hc
    split at hc
    · rename_i vs e pvs pe t
      simp only [StackPtrOK_cons] at h
      exact ih _ (by simp [h.1, h.2.1, h.2.2]) hc
    · cases hc

theorem argItem_ptrOK (st st' : List Frame) (item : Bytes) (h : StackPtrOK st)
    (hi : argItem st item = .ok st') : StackPtrOK st' := by
  unfold argItem at hi
  simp only at hi
  split at hi
  · cases hi
  · rename_i st1 ho
    have h1 := openN_ptrOK _ _ _ h ho
    split at hi
    · cases hi
    · rename_i st2 hv
      refine closeN_ptrOK _ _ _ ?_ hi
      split at hv
      · split at hv
        · split at hv
          · rename_i vs e t
            simp only [Except.ok.injEq] at hv
            subst hv
            simp only [StackPtrOK_cons] at h1 ⊢
            exact h1
          · simp only [Except.ok.injEq] at hv
            subst hv; exact h1
        · split at hv
          · simp only [Except.ok.injEq] at hv
            subst hv
            exact pushVal_ptrOK _ _ (by simp [isPtrValue_zero]) h1
          · split at hv
            · cases hv
            · simp only [Except.ok.injEq] at hv
              subst hv
              exact pushVal_ptrOK _ _ (by simp) h1
      · simp only [Except.ok.injEq] at hv
        subst hv; exact h1

theorem parseArgs_go_ptrOK (items : List Bytes) (st st' : List Frame) (h : StackPtrOK st)
    (hg : parseArgs.go items st = .ok st') : StackPtrOK st' := by
  induction items generalizing st with
  | nil =>
    simp only [parseArgs.go, Except.ok.injEq] at hg
    subst hg; exact h
  | cons it rest ih =>
    simp only [parseArgs.go] at hg
    split at hg
    · cases hg
    · rename_i st1 hi
      exact ih _ (argItem_ptrOK _ _ _ h hi) hg

/-- Pointer-likeness of a parsed value depends only on the value, for every input line. -/
theorem parseArgs_isPtr (line : Bytes) (a : Args) (h : parseArgs line = .ok a) :
    ArgsPtrOK a.values := by
  unfold parseArgs at h
  simp only at h
  split at h
  · cases h
  · rename_i vs e hg
    simp only [Except.ok.injEq] at h
    subst h
    have := parseArgs_go_ptrOK _ _ _ (by simp) hg
    simpa using this
  · cases h

#print axioms ArgsPtrOK_append
#print axioms parseArgs_isPtr

end PP
